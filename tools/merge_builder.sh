#!/bin/sh
# merge_builder.sh <name>: merge a-<name> into /verif main and cherry-pick new v-<name> commits onto /repo main
n=$1; cd /verif
git add -A; git commit -q -m "wip before merging a-$n" 2>/dev/null
if ! git merge -q --no-edit a-$n >/tmp/m/merge_$n.log 2>&1; then
  # evidence conflicts: keep ours (regenerated before the final commit); anything else needs a human
  for f in $(git diff --name-only --diff-filter=U); do
    case $f in evidence/*|known_findings.json|MANIFEST.json) git checkout --ours -- $f; git add $f;; *) echo "CONFLICT in $f"; exit 1;; esac
  done
  git commit -q --no-edit
fi
base=$(git -C /repo merge-base main v-$n)
for c in $(git -C /repo log --reverse --format=%h $base..v-$n); do
  git -C /repo cherry-pick $c >/dev/null 2>&1 || { echo "repo conflict at $c: $(git -C /repo log -1 --format=%s $c)"; exit 1; }
done
python3 tools/fix_commit_map.py >/dev/null; python3 tools/gen_manifest.py
git add -A; git commit -q -m "merge builder $n; manifest" 2>/dev/null
git worktree remove --force /tmp/w/$n/verif; git -C /repo worktree remove --force /tmp/w/$n/repo
echo "merged $n: verif $(git log --oneline -1 | cut -c1-60) repo $(git -C /repo log --oneline -1 | cut -c1-60)"
