#!/usr/bin/env python3
"""Rebuild MANIFEST.json and known_findings.json from props/*.json and known_findings.d/*.json."""
import glob, json, os, subprocess
ROOT = os.path.dirname(os.path.dirname(os.path.abspath(__file__)))
props = [json.loads(l) for l in open(os.path.join(ROOT, "properties.jsonl"))]
checks, na, claimed = [], [], []
for p in props:
    pid = p["id"]
    cp = os.path.join(ROOT, "props", pid + ".json")
    if not os.path.exists(cp):
        na.append({"property_id": pid, "reason": "no check built yet for this property (design in DESIGN.md §7 %s); nothing is claimed" % pid})
        continue
    c = json.load(open(cp))
    if c.get("not_applicable"):
        na.append({"property_id": pid, "reason": c["not_applicable"]}); continue
    claimed.append(pid)
    checks.append({
        "property_id": pid,
        "quick_cmd": "./check %s" % pid,
        "thorough_cmd": "VERIF_TIER=thorough ./check %s" % pid,
        "evidence_file": "evidence/%s.json" % pid,
        "replay_cmd_template": "./check %s --replay {path}" % pid,
        "engine": "lean-model+go-harness",
        "level_claimed": {"category": c.get("level", "proof"), "text": c.get("claim_text", ""), "design_ref": "DESIGN.md §7 " + pid},
        "level_note": c.get("level_note", "; ".join(c.get("trusted_base", []))),
        "technique": c.get("technique", "Lean 4 theorems over a hand-written executable model + differential correspondence against the Go implementation"),
    })
hooks = subprocess.run(["git", "-C", "/repo", "log", "--format=%H %s", "d4a315d..HEAD"], stdout=subprocess.PIPE, text=True).stdout.strip().splitlines()
hook_commits = [l.split()[0] for l in hooks if " verif hook" in l or "verif hook:" in l]
m = {
    "version": 1,
    "setup_cmd": "./setup.sh",
    "hooks": {"guard": "verif", "enable": "go build -tags verif (hook files zz_verif_*.go carry //go:build verif; call sites added to existing files go through verif_*_off.go no-ops when the tag is off)",
              "baseline_off_cmd": "cd /repo && GOFLAGS=-mod=mod GOPROXY=off go test -vet=off -count=1 -timeout 25m ./...",
              "source_commits": hook_commits, "add_only": True},
    "engines": [
        {"name": "lean-model", "path": "lean/", "serves_properties": claimed, "kind_free_text": "Lean 4 models, executable specs, theorems (Props/Cxx.lean) and the core-only model driver `zoektmodel`"},
        {"name": "go-harness", "path": "harness/", "serves_properties": claimed, "kind_free_text": "Go correspondence/search harness built from /repo's working tree with -tags verif; translator in harness/tools/extract"}],
    "checks": checks,
    "notes": "Every check = theorems (lake build + #print axioms audit) + correspondence of the Lean model with the Go code on generated cases + failing-input search; see DESIGN.md §1.3 for the verdict rules.",
    "not_applicable": na,
}
json.dump(m, open(os.path.join(ROOT, "MANIFEST.json"), "w"), indent=1)
# consolidated known findings
allk, seen = [], set()
for kp in sorted(glob.glob(os.path.join(ROOT, "known_findings.d", "*.json"))):
    for k in json.load(open(kp)):
        if k["id"] not in seen:
            seen.add(k["id"])
            if k.get("status") == "fixed":
                k["record"] = "fixed: property=%s %s %s" % (k["property"], k.get("commit", "?"), k["what"])
            allk.append(k)
json.dump(allk, open(os.path.join(ROOT, "known_findings.json"), "w"), indent=1)
print("claimed", len(claimed), "not_applicable", len(na), "hook commits", len(hook_commits), "findings", len(allk))
