#!/usr/bin/env python3
"""Regenerate the generated tables of DESIGN.md (between BEGIN:/END: markers) from props/, known_findings.json, seeded/."""
import glob, json, os, re
ROOT = os.path.dirname(os.path.dirname(os.path.abspath(__file__)))
def cell(s, n=400):
    s = " ".join(str(s).split()).replace("|", "\\|")
    return s if len(s) <= n else s[:n - 1] + "…"
# claims
rows = ["| id | theorems (Props/Cxx.lean) | what the claim says (props/Cxx.json → MANIFEST level_claimed.text, abridged) |", "|---|---|---|"]
for p in sorted(glob.glob(os.path.join(ROOT, "props", "C*.json"))):
    c = json.load(open(p)); pid = c["property_id"]
    ev = os.path.join(ROOT, "evidence", pid + ".json"); n = "?"
    if os.path.exists(ev):
        try: n = len(json.load(open(ev))["coverage"].get("theorems", []))
        except Exception: pass
    rows.append("| %s | %s | %s |" % (pid, n, cell(c.get("claim_text", ""), 700)))
claims = "\n".join(rows)
# findings
ks = json.load(open(os.path.join(ROOT, "known_findings.json")))
rows = ["| property | finding id | disposition | what fails (abridged) |", "|---|---|---|---|"]
for k in ks:
    disp = "fixed in /repo `%s`" % k.get("commit", "?") if k["status"] == "fixed" else "KNOWN-FINDING (key `%s`)" % (k.get("match", {}).get("key") or k.get("match", {}).get("key_regex"))
    rows.append("| %s | %s | %s | %s |" % (k["property"], k["id"], disp, cell(k["what"], 330)))
findings = "\n".join(rows)
# seeded
rows = ["| seeded change | property | what it does / what it needs to manifest | result of `./check` (quick) |", "|---|---|---|---|"]
for d in sorted(glob.glob(os.path.join(ROOT, "seeded", "*"))):
    mp = os.path.join(d, "meta.json")
    if not os.path.exists(mp): continue
    m = json.load(open(mp))
    res = m.get("check_result", {}).get("quick", {})
    vl = res.get("violation_lines", [])
    if "detected" not in m: r = "not run yet"
    elif m["detected"]:
        r = "caught: failing input + replay" if any("no-failing-input-found" not in v for v in vl) else "caught: obligation broken (no-failing-input-found)"
    else: r = "**missed**"
    if m.get("also_caught_by"): r += "; also " + m["also_caught_by"]
    if m.get("note"): r += " — " + m["note"]
    rows.append("| %s | %s | %s | %s |" % (os.path.basename(d), m.get("property"), cell(m.get("summary", ""), 260) + " **Needs:** " + cell(m.get("needs_to_manifest", ""), 200), r))
import collections
tot = collections.Counter()
for d in sorted(glob.glob(os.path.join(ROOT, "seeded", "*"))):
    mp = os.path.join(d, "meta.json")
    if not os.path.exists(mp): continue
    m = json.load(open(mp))
    tot["kept"] += 1
    if m.get("detected"): tot["caught"] += 1
    elif "detected" in m: tot["missed"] += 1
    if m.get("note", "").startswith("missed"): tot["missed at first, caught after strengthening"] += 1
dropped = len(glob.glob(os.path.join(ROOT, "seeded_dropped", "*")))
summary = "**Totals:** %d changes kept (%d more written but dropped: they no longer applied or no longer broke the property after a `fix:` commit — see seeded_dropped/); %d caught by the current checks, %d missed; %d of the caught ones were missed by the check as it stood when the change was written and are caught since the generator / model / oracle was widened for that class of scenario (the note in the last column says what was added).\n\n" % (tot["kept"], dropped, tot["caught"], tot["missed"], tot["missed at first, caught after strengthening"])
seeded = summary + "\n".join(rows)
p = os.path.join(ROOT, "DESIGN.md"); s = open(p).read()
for name, body in (("CLAIMS", claims), ("FINDINGS", findings), ("SEEDED", seeded)):
    s = re.sub(r"(<!-- BEGIN:%s -->\n).*?(<!-- END:%s -->)" % (name, name), lambda m: m.group(1) + body + "\n" + m.group(2), s, flags=re.S)
open(p, "w").write(s)
print("tables regenerated")
