#!/bin/sh
# run_seeded.sh <seeded/<id>> [tier] : apply a kept seeded change to /repo, run the property's check, undo it straight afterwards.
set -u
d="$(cd "$1" && pwd)"; tier="${2:-quick}"
prop=$(python3 -c "import json,sys; print(json.load(open('$d/meta.json'))['property'])")
cd /verif
git -C /repo diff --quiet || { echo "/repo has uncommitted changes; refusing"; exit 2; }
git -C /repo apply "$d/patch.diff" || { echo "patch does not apply to /repo"; exit 2; }
VERIF_TIER=$tier ./check $prop > "$d/check_output_$tier.txt" 2>&1; rc=$?
git -C /repo checkout -- . 
tail -5 "$d/check_output_$tier.txt"; echo "exit=$rc"
# other properties' checks named in meta.json "also_run" (a change may be caught by a neighbouring property's check)
exit 0
