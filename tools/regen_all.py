#!/usr/bin/env python3
"""Regenerate every translator table any property uses (props/*.json "extract") into lean/ZoektModel/Generated."""
import glob, json, os, subprocess, sys
ROOT = os.path.dirname(os.path.dirname(os.path.abspath(__file__)))
sys.path.insert(0, ROOT)
import importlib.machinery, importlib.util
loader = importlib.machinery.SourceFileLoader("check", os.path.join(ROOT, "check"))
spec = importlib.util.spec_from_loader("check", loader); chk = importlib.util.module_from_spec(spec); loader.exec_module(chk)
chk.prepare_harness_gomod()
tables = set()
for p in glob.glob(os.path.join(ROOT, "props", "*.json")):
    tables |= set(json.load(open(p)).get("extract", []))
gen = os.path.join(ROOT, "lean", "ZoektModel", "Generated")
os.makedirs(gen, exist_ok=True)
for t in sorted(tables):
    out = os.path.join(gen, t + ".lean")
    if os.path.exists(out): os.remove(out)
    rc = subprocess.call(["go", "run", "-tags", "verif", "./tools/extract", "-repo", chk.REPO, "-table", t, "-out", out],
                         cwd=os.path.join(ROOT, "harness"), env=chk.goenv())
    if rc != 0:
        print("extraction of", t, "failed", file=sys.stderr); sys.exit(1)
print("regenerated", len(tables), "tables")
