#!/bin/sh
# run every claimed check once (quick), sequentially; summary lines to stdout
cd /verif
for p in $(python3 -c "import json; print(' '.join(c['property_id'] for c in json.load(open('MANIFEST.json'))['checks']))"); do
  s=$(date +%s); out=$(./check $p 2>&1); rc=$?; e=$(date +%s)
  echo "$p rc=$rc $((e-s))s | $(echo "$out" | tail -1)"
  echo "$out" | grep "^VIOLATION" | head -3
done
