#!/bin/sh
# mkworktree.sh <name>: isolated development copies for one builder: /tmp/w/<name>/{verif,repo} on branches a-<name> / v-<name>
set -e
n="$1"
mkdir -p /tmp/w/$n
git -C /verif worktree add -q -b a-$n /tmp/w/$n/verif HEAD
git -C /repo worktree add -q -b v-$n /tmp/w/$n/repo HEAD
echo /tmp/w/$n
