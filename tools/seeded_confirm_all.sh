#!/bin/sh
# seeded_confirm_all.sh id:x:demo_pkg[:extra pkgs] ...   — confirm each in a scratch worktree; on success copy to seeded/<id>-<x>/ with confirm log
cd /verif
for spec in "$@"; do
  id=$(echo $spec | cut -d: -f1); x=$(echo $spec | cut -d: -f2); pkg=$(echo $spec | cut -d: -f3); extra=$(echo $spec | cut -d: -f4 | tr ',' ' ')
  out=/tmp/m/$id/out/$x
  tools/confirm_seeded.sh $out $pkg $extra > /tmp/m/$id/confirm_$x.log 2>&1
  if tail -1 /tmp/m/$id/confirm_$x.log | grep -q "PASS: confirmed"; then
    mkdir -p seeded/$id-$x && cp -r $out/* seeded/$id-$x/ && tail -25 /tmp/m/$id/confirm_$x.log > seeded/$id-$x/confirm.log
    echo "$id-$x CONFIRMED"
  else
    echo "$id-$x NOT CONFIRMED: $(tail -1 /tmp/m/$id/confirm_$x.log)"
  fi
done
