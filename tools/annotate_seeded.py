#!/usr/bin/env python3
"""annotate_seeded.py <seeded dir> <confirmation summary> : record the lead's confirmation and the check outcome in meta.json"""
import json, sys, os, re, glob
d = sys.argv[1]; m = json.load(open(os.path.join(d, "meta.json")))
m["confirmed"] = sys.argv[2]
res = {}
for f in glob.glob(os.path.join(d, "check_output_*.txt")):
    t = open(f).read()
    tier = re.search(r"check_output_(\w+)\.txt", f).group(1)
    res[tier] = {"violation_lines": [l for l in t.splitlines() if l.startswith("VIOLATION")], "summary": t.strip().splitlines()[-1] if t.strip() else ""}
m["check_result"] = res
m["detected"] = any(r["violation_lines"] for r in res.values())
json.dump(m, open(os.path.join(d, "meta.json"), "w"), indent=1)
print(d, "detected" if m["detected"] else "MISSED")
