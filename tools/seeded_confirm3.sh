#!/bin/sh
# round-2 variant of seeded_confirm_all.sh: outputs live under /tmp/m2
cd /verif
for spec in "$@"; do
  id=$(echo $spec | cut -d: -f1); x=$(echo $spec | cut -d: -f2); pkg=$(echo $spec | cut -d: -f3); extra=$(echo $spec | cut -d: -f4 | tr ',' ' ')
  out=/tmp/m3/$id/out/$x
  tools/confirm_seeded.sh $out $pkg $extra > /tmp/m3/$id/confirm_$x.log 2>&1
  if tail -1 /tmp/m3/$id/confirm_$x.log | grep -q "PASS: confirmed"; then
    mkdir -p seeded/$id-$x && cp -r $out/* seeded/$id-$x/ && tail -25 /tmp/m3/$id/confirm_$x.log > seeded/$id-$x/confirm.log
    echo "$id-$x CONFIRMED"
  else
    echo "$id-$x NOT CONFIRMED: $(tail -1 /tmp/m3/$id/confirm_$x.log)"
  fi
done
