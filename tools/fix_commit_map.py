#!/usr/bin/env python3
"""Rewrite the `commit` of every "fixed" entry in known_findings.d/*.json to the hash of the same commit on /repo main
(builders committed on their own branches; the lead cherry-picked, which changes hashes). Matching is by subject line;
fixes that two builders made independently are mapped by hand below to the one commit that was kept."""
import glob, json, os, subprocess
ROOT = os.path.dirname(os.path.dirname(os.path.abspath(__file__)))
def git(*a): return subprocess.run(["git", "-C", "/repo"] + list(a), stdout=subprocess.PIPE, stderr=subprocess.DEVNULL, text=True).stdout
main = {}
for l in git("log", "--format=%h\t%s", "d4a315d..main").splitlines():
    h, s = l.split("\t", 1); main[s] = h
manual = {  # builder-branch hash -> subject of the kept commit on main
    "6966ca8": "fix: addDocument: decode branch masks with a 64-bit id",
    "0376e72": 'fix: RegexpQuery keeps a case-folded literal such as (?i)foo as a regexp (it became the case-sensitive substring "FOO")',
}
for p in sorted(glob.glob(os.path.join(ROOT, "known_findings.d", "*.json"))):
    ks = json.load(open(p)); changed = False
    for k in ks:
        if k.get("status") != "fixed" or not k.get("commit"): continue
        c = k["commit"]
        if git("merge-base", "--is-ancestor", c, "main") == "" and subprocess.run(["git", "-C", "/repo", "merge-base", "--is-ancestor", c, "main"]).returncode == 0:
            continue  # already a main hash
        subj = manual.get(c[:7]) or git("log", "-1", "--format=%s", c).strip()
        if subj in main:
            k["commit_on_builder_branch"] = c; k["commit"] = main[subj]; changed = True
        else:
            print("NO MAIN COMMIT for", k["id"], c, subj[:80])
    if changed: json.dump(ks, open(p, "w"), indent=1)
print("done")
