#!/bin/sh
# confirm_seeded.sh <out_dir_of_one_change> <pkg dir for flat demo files> [extra test pkgs…] : independent confirmation of a seeded change in a throw-away worktree.
#   out_dir holds patch.diff, demo/, meta.json. Prints PASS/FAIL lines; exit 0 iff the change is confirmed:
#   builds, touched packages' tests pass with the patch, demo fails with the patch and passes without it.
set -u
d="$(cd "$1" && pwd)"; DEMO_PKG="${2:-}"; w=/tmp/c/$$; export GOFLAGS=-mod=mod GOPROXY=off
unset GOTOOLCHAIN GOSUMDB
mkdir -p /tmp/c; git -C /repo worktree add -q --detach $w HEAD || exit 2
cleanup() { git -C /repo worktree remove --force $w; }
trap cleanup EXIT
cd $w
# where do demo files go? README says; convention: demo/<relative path>/file or flat files + README "put in <pkg>"
place_demo() { (cd "$d/demo" && find . -type f ! -name 'README*' ) | while read f; do
    tgt="$f"; if [ "$(dirname "$f")" = "." ]; then [ -n "$DEMO_PKG" ] && tgt="$DEMO_PKG/$f"; fi
    mkdir -p "$(dirname "$tgt")"; cp "$d/demo/$f" "$tgt"; echo "$tgt"; done; }
demos=$(place_demo)
pkgs=$(for f in $demos; do echo "./$(dirname $f)"; done | sort -u)
echo "demo files: $demos"; echo "demo pkgs: $pkgs"
run_demo() { go test -count=1 -run 'Demo|demo|Seeded|Verif' $pkgs 2>&1 | tail -15; }
echo "== demo WITHOUT patch"; out0=$(run_demo); echo "$out0"; echo "$out0" | grep -q "^FAIL\|^--- FAIL\|panic:" && { echo "FAIL: demo does not pass on the unchanged tree"; exit 1; }
echo "$out0" | grep -q "^ok" || { echo "FAIL: demo did not run (no ok line)"; exit 1; }
git apply "$d/patch.diff" || { echo "FAIL: patch does not apply"; exit 1; }
echo "== build"; go build ./... || { echo "FAIL: build"; exit 1; }
echo "== demo WITH patch"; out1=$(run_demo); echo "$out1"; echo "$out1" | grep -q "FAIL\|panic:" || { echo "FAIL: demo does not fail with the patch"; exit 1; }
# remove demos, run tests of touched packages (and dependants given as extra args)
for f in $demos; do rm -f $f; done
touched=$(git diff --name-only | xargs -n1 dirname | sort -u | sed 's|^|./|')
shift; [ $# -gt 0 ] && shift; extra="$*"
echo "== package tests with patch: $touched $extra"
go test -vet=off -count=1 $touched $extra 2>&1 | tail -20 > /tmp/c/$$.log; cat /tmp/c/$$.log
grep -q "^FAIL\|^--- FAIL" /tmp/c/$$.log && { echo "FAIL: existing tests notice the change"; rm -f /tmp/c/$$.log; exit 1; }
rm -f /tmp/c/$$.log
echo "PASS: confirmed"
