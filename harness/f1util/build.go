package f1util

import (
	"bufio"
	"encoding/json"
	"fmt"
	"io"
	"log"
	"os"
	"os/signal"
	"runtime"
	"runtime/debug"
	"syscall"

	"github.com/sourcegraph/zoekt"
	"github.com/sourcegraph/zoekt/index"
)

type Doc struct {
	Name    string
	Content string
}

// BuildSpec describes one run of the real index.Builder.
type BuildSpec struct {
	Dir          string
	RepoName     string
	RepoID       uint32
	Gen          int // generation: recorded as branch version "g<Gen>"
	Delta        bool
	ShardMerging bool
	ShardMax     int
	Docs         []Doc
	Changed      []string // MarkFileAsChangedOrRemoved (delta builds)
	BranchName   string   // "" = HEAD
	FsizeLimit   uint64   // >0: RLIMIT_FSIZE while the build runs: writes that would grow a file beyond it fail (EFBIG)
}

func Version(gen int) string { return fmt.Sprintf("g%d", gen) }

// WithFsizeLimit runs f with the soft RLIMIT_FSIZE set to limit (0 = unchanged).  Process-wide: only for child processes.
func WithFsizeLimit(limit uint64, f func() error) error {
	if limit == 0 {
		return f()
	}
	var old syscall.Rlimit
	syscall.Getrlimit(syscall.RLIMIT_FSIZE, &old)
	syscall.Setrlimit(syscall.RLIMIT_FSIZE, &syscall.Rlimit{Cur: limit, Max: old.Max})
	defer syscall.Setrlimit(syscall.RLIMIT_FSIZE, &old)
	return f()
}

// RunBuild runs NewBuilder / Add / Finish of the real code, single-threaded (Parallelism 1), without ctags.
func RunBuild(sp BuildSpec) error {
	branch := sp.BranchName
	if branch == "" {
		branch = "HEAD"
	}
	opts := index.Options{
		IndexDir:     sp.Dir,
		Parallelism:  1,
		ShardMax:     sp.ShardMax,
		DisableCTags: true,
		IsDelta:      sp.Delta,
		ShardMerging: sp.ShardMerging,
		RepositoryDescription: zoekt.Repository{
			Name:     sp.RepoName,
			ID:       sp.RepoID,
			Branches: []zoekt.RepositoryBranch{{Name: branch, Version: Version(sp.Gen)}},
		},
	}
	opts.SetDefaults()
	b, err := index.NewBuilder(opts)
	if err != nil {
		return fmt.Errorf("NewBuilder: %w", err)
	}
	for _, c := range sp.Changed {
		b.MarkFileAsChangedOrRemoved(c)
	}
	for _, d := range sp.Docs {
		if err := b.Add(index.Document{Name: d.Name, Content: []byte(d.Content), Branches: []string{branch}}); err != nil {
			b.Finish()
			return fmt.Errorf("Add: %w", err)
		}
	}
	return b.Finish()
}

// PredictShards re-implements the flush rule of Builder.Add / Builder.Finish: which documents end up in which
// new shard (independent of the implementation; used to label the shards a run writes).
func PredictShards(docs []Doc, shardMax int, hasShardAlready bool) [][]Doc {
	var out [][]Doc
	var cur []Doc
	size := 0
	n := 0
	if hasShardAlready {
		n = 1
	}
	for _, d := range docs {
		cur = append(cur, d)
		size += len(d.Name) + len(d.Content)
		if size > shardMax {
			out = append(out, cur)
			cur, size = nil, 0
			n++
		}
	}
	if len(cur) > 0 || n == 0 {
		out = append(out, cur)
	}
	return out
}

// QuietGC: the shard builder allocates two 16 MB pointer arrays per shard; with the default GC pacing a tiny build
// costs seconds on a loaded machine.  Collect only when the heap reaches the limit.
func QuietGC() {
	debug.SetGCPercent(-1)
	debug.SetMemoryLimit(1 << 30)
}

// ChildMain is the child side of Session: announce the pid, then answer one line per request line.
// Everything runs on the main thread (strace's `when=` counters are per thread).
func ChildMain(handle func(req json.RawMessage) any) {
	runtime.LockOSThread()
	signal.Ignore(syscall.SIGXFSZ) // a write beyond RLIMIT_FSIZE then simply fails with EFBIG
	QuietGC()
	log.SetOutput(io.Discard)
	out := bufio.NewWriter(os.Stdout)
	fmt.Fprintf(out, "{\"pid\":%d}\n", os.Getpid())
	out.Flush()
	rd := bufio.NewReaderSize(os.Stdin, 1<<22)
	for {
		line, err := rd.ReadBytes('\n')
		if len(line) > 1 {
			b, _ := json.Marshal(handle(json.RawMessage(line)))
			out.Write(b)
			out.WriteByte('\n')
			out.Flush()
		}
		if err != nil {
			return
		}
	}
}
