// Package f1util: running a child process under strace(1) so that the harness can observe, stop, fail or kill
// the child's rename/unlink system calls without any change to the code under test (C12, C17).
//
// The child speaks a line protocol on stdin/stdout: first line `{"pid":N}`, then one JSON reply line per JSON
// request line.  The strace log (-o) is parsed for the file-system mutations the child made.
package f1util

import (
	"bufio"
	"encoding/json"
	"fmt"
	"io"
	"os"
	"os/exec"
	"regexp"
	"strconv"
	"strings"
	"syscall"
	"time"
)

// FsOp is one file-system mutation observed in the strace log.
type FsOp struct {
	Kind string // "create", "rename", "remove"
	Src  string // path (create/remove: the path; rename: the source)
	Dst  string // rename destination
	OK   bool   // the system call succeeded
	Inj  bool   // the failure was injected by strace
	Err  string // errno name of a failed call (ENOENT, EIO, …)
}

const traceSet = "openat,rename,renameat,renameat2,unlink,unlinkat,rmdir"
const renameSet = "rename,renameat,renameat2"
const unlinkSet = "unlink,unlinkat,rmdir"

// Mode of a session.
type Mode struct {
	StopAtMutations bool   // SIGSTOP the child after every rename/unlink (the parent snapshots, then SIGCONTs)
	RenameFail      string // strace `when=` expression for failing renames with EIO, e.g. "2+5" ("" = none)
	UnlinkFail      string // same for unlink/rmdir
	OpenFail        string // same for openat, failing with EMFILE (read faults: a file that cannot be opened right now)
	KillAt          int    // >0: SIGKILL the child on entering its KillAt-th rename/unlink (the call is not executed)
	WriteKillAt     int    // >0: SIGKILL the child on entering its WriteKillAt-th write(2) (a kill in the middle of writing files)
}

type Session struct {
	cmd     *exec.Cmd
	stdin   io.WriteCloser
	replies chan string
	logPath string
	logOff  int64
	pending map[string]string // pid -> unfinished syscall text
	Pid     int
	nStops  int // group stops seen so far
	partial string
}

// Start runs `bin args...` under strace in the given mode.  env is appended to the environment.
func Start(mode Mode, logPath string, env []string, bin string, args ...string) (*Session, error) {
	os.Remove(logPath)
	sa := []string{"-f", "-s", "4096", "-o", logPath, "-e", "trace=" + traceSet, "-e", "signal=SIGSTOP,SIGKILL,SIGCONT"}
	if !mode.StopAtMutations && mode.KillAt == 0 && mode.WriteKillAt == 0 {
		// strace 6.1 does not deliver injected signals when it filters system calls with seccomp-bpf
		sa = append(sa, "--seccomp-bpf")
	}
	if mode.StopAtMutations {
		sa = append(sa, "-e", "inject="+renameSet+","+unlinkSet+":signal=SIGSTOP")
	}
	if mode.RenameFail != "" {
		sa = append(sa, "-e", "inject="+renameSet+":error=EIO:when="+mode.RenameFail)
	}
	if mode.OpenFail != "" {
		sa = append(sa, "-e", "inject=openat:error=EMFILE:when="+mode.OpenFail)
	}
	if mode.UnlinkFail != "" {
		sa = append(sa, "-e", "inject="+unlinkSet+":error=EIO:when="+mode.UnlinkFail)
	}
	if mode.KillAt > 0 {
		sa = append(sa, "-e", fmt.Sprintf("inject=%s,%s:signal=SIGKILL:when=%d", renameSet, unlinkSet, mode.KillAt))
	}
	if mode.WriteKillAt > 0 {
		// tampering only applies to system calls that are traced
		sa = append(sa, "-e", "trace="+traceSet+",write", "-e", fmt.Sprintf("inject=write:signal=SIGKILL:when=%d", mode.WriteKillAt))
	}
	sa = append(sa, bin)
	sa = append(sa, args...)
	cmd := exec.Command("strace", sa...)
	// one P and no preemption signals: an order of magnitude fewer system calls for strace to stop at
	cmd.Env = append(append(os.Environ(), "GOMAXPROCS=1", "GODEBUG=asyncpreemptoff=1"), env...)
	cmd.Stderr = os.Stderr
	stdin, err := cmd.StdinPipe()
	if err != nil {
		return nil, err
	}
	stdout, err := cmd.StdoutPipe()
	if err != nil {
		return nil, err
	}
	if err := cmd.Start(); err != nil {
		return nil, err
	}
	s := &Session{cmd: cmd, stdin: stdin, replies: make(chan string, 16), logPath: logPath, pending: map[string]string{}}
	go func() {
		rd := bufio.NewReaderSize(stdout, 1<<20)
		for {
			line, err := rd.ReadString('\n')
			if line != "" {
				s.replies <- strings.TrimRight(line, "\n")
			}
			if err != nil {
				close(s.replies)
				return
			}
		}
	}()
	select {
	case first, ok := <-s.replies:
		if !ok {
			return nil, fmt.Errorf("child exited before announcing its pid")
		}
		var hello struct{ Pid int }
		if err := json.Unmarshal([]byte(first), &hello); err != nil || hello.Pid == 0 {
			return nil, fmt.Errorf("bad hello line %q", first)
		}
		s.Pid = hello.Pid
	case <-time.After(120 * time.Second):
		cmd.Process.Kill()
		return nil, fmt.Errorf("child did not start within 120s")
	}
	return s, nil
}

var (
	reLine     = regexp.MustCompile(`^(\d+)\s+(.*)$`)
	reResumed  = regexp.MustCompile(`^<\.\.\. (\w+) resumed>(.*)$`)
	reRenameat = regexp.MustCompile(`^renameat2?\(AT_FDCWD, "((?:[^"\\]|\\.)*)", AT_FDCWD, "((?:[^"\\]|\\.)*)"(?:, [^)]*)?\)\s+= (-?\d+)(.*)$`)
	reRename   = regexp.MustCompile(`^rename\("((?:[^"\\]|\\.)*)", "((?:[^"\\]|\\.)*)"\)\s+= (-?\d+)(.*)$`)
	reUnlinkat = regexp.MustCompile(`^unlinkat\(AT_FDCWD, "((?:[^"\\]|\\.)*)", (\w+)\)\s+= (-?\d+)(.*)$`)
	reUnlink   = regexp.MustCompile(`^(?:unlink|rmdir)\("((?:[^"\\]|\\.)*)"\)\s+= (-?\d+)(.*)$`)
	reOpenat   = regexp.MustCompile(`^openat\(AT_FDCWD, "((?:[^"\\]|\\.)*)", ([A-Z_|]+)(?:, \d+)?\)\s+= (-?\d+)(.*)$`)
	reStopped  = regexp.MustCompile(`^--- stopped by SIGSTOP ---$`)
	reKilled   = regexp.MustCompile(`^\+\+\+ killed by SIGKILL \+\+\+$`)
)

// Event is a parsed log line relevant to the harness.
type Event struct {
	Op      *FsOp
	Stopped bool // the main thread entered a group stop
	Killed  bool
}

// poll reads new complete lines of the strace log and returns the events in them.
func (s *Session) poll() []Event {
	f, err := os.Open(s.logPath)
	if err != nil {
		return nil
	}
	defer f.Close()
	f.Seek(s.logOff, 0)
	b, _ := io.ReadAll(f)
	if len(b) == 0 {
		return nil
	}
	s.logOff += int64(len(b))
	text := s.partial + string(b)
	lines := strings.Split(text, "\n")
	s.partial = lines[len(lines)-1]
	lines = lines[:len(lines)-1]
	var evs []Event
	for _, ln := range lines {
		m := reLine.FindStringSubmatch(ln)
		if m == nil {
			continue
		}
		pid, rest := m[1], m[2]
		if strings.HasSuffix(rest, "<unfinished ...>") {
			s.pending[pid] = strings.TrimSuffix(rest, "<unfinished ...>")
			continue
		}
		if r := reResumed.FindStringSubmatch(rest); r != nil {
			rest = strings.TrimRight(s.pending[pid], " ") + r[2]
			delete(s.pending, pid)
		}
		if reStopped.MatchString(rest) {
			if pid == strconv.Itoa(s.Pid) {
				evs = append(evs, Event{Stopped: true})
			}
			continue
		}
		if reKilled.MatchString(rest) {
			if pid == strconv.Itoa(s.Pid) {
				evs = append(evs, Event{Killed: true})
			}
			continue
		}
		if op := ParseOp(rest); op != nil {
			evs = append(evs, Event{Op: op})
		}
	}
	return evs
}

func unq(s string) string {
	u, err := strconv.Unquote(`"` + s + `"`)
	if err != nil {
		return s
	}
	return u
}

// ParseOp parses the text of one finished system call; nil if it is not a mutation the harness tracks.
var reErrno = regexp.MustCompile(`= -1 ([A-Z]+)`)

func ParseOp(rest string) *FsOp {
	op := parseOp(rest)
	if op != nil && !op.OK {
		if m := reErrno.FindStringSubmatch(rest); m != nil {
			op.Err = m[1]
		}
	}
	return op
}

func parseOp(rest string) *FsOp {
	if m := reRenameat.FindStringSubmatch(rest); m != nil {
		return &FsOp{Kind: "rename", Src: unq(m[1]), Dst: unq(m[2]), OK: m[3] == "0", Inj: strings.Contains(m[4], "INJECTED")}
	}
	if m := reRename.FindStringSubmatch(rest); m != nil {
		return &FsOp{Kind: "rename", Src: unq(m[1]), Dst: unq(m[2]), OK: m[3] == "0", Inj: strings.Contains(m[4], "INJECTED")}
	}
	if m := reUnlinkat.FindStringSubmatch(rest); m != nil {
		kind := "remove"
		if strings.Contains(m[2], "AT_REMOVEDIR") {
			kind = "rmdir" // os.Remove's fallback after a failed unlink; reported so that callers can fold it
		}
		return &FsOp{Kind: kind, Src: unq(m[1]), OK: m[3] == "0", Inj: strings.Contains(m[4], "INJECTED")}
	}
	if m := reUnlink.FindStringSubmatch(rest); m != nil {
		kind := "remove"
		if strings.HasPrefix(rest, "rmdir") {
			kind = "rmdir"
		}
		return &FsOp{Kind: kind, Src: unq(m[1]), OK: m[2] == "0", Inj: strings.Contains(m[3], "INJECTED")}
	}
	if m := reOpenat.FindStringSubmatch(rest); m != nil {
		if strings.Contains(m[2], "O_CREAT") && !strings.HasPrefix(m[3], "-") {
			return &FsOp{Kind: "create", Src: unq(m[1]), OK: true}
		}
	}
	return nil
}

// Do sends one request line and waits for the reply.  While waiting it follows the strace log: every mutation
// is appended to the returned ops; in StopAtMutations mode onStop(ops so far) is called while the child is
// stopped after each rename/unlink, and the child is then continued.
// died is true if the child was killed (KillAt) before replying.
func (s *Session) Do(req string, onStop func(ops []FsOp)) (reply string, ops []FsOp, died bool, err error) {
	if _, err = io.WriteString(s.stdin, req+"\n"); err != nil {
		return "", nil, true, err
	}
	deadline := time.Now().Add(180 * time.Second)
	handle := func(evs []Event) {
		for _, e := range evs {
			switch {
			case e.Op != nil:
				ops = append(ops, *e.Op)
			case e.Stopped:
				if onStop != nil {
					onStop(ops)
				}
				syscall.Kill(s.Pid, syscall.SIGCONT)
			case e.Killed:
				died = true
			}
		}
	}
	for {
		select {
		case r, ok := <-s.replies:
			if !ok {
				// child gone: drain the log
				time.Sleep(20 * time.Millisecond)
				handle(s.poll())
				return "", ops, true, nil
			}
			// the log may lag behind the reply by a moment: the reply is written after the last syscall returned,
			// and strace prints a syscall before it resumes the tracee, so one poll suffices
			handle(s.poll())
			return r, ops, false, nil
		default:
		}
		evs := s.poll()
		if len(evs) > 0 {
			handle(evs)
			continue
		}
		if time.Now().After(deadline) {
			return "", ops, false, fmt.Errorf("timeout waiting for the child")
		}
		time.Sleep(time.Millisecond)
	}
}

// Close ends the session (closes the child's stdin and waits for strace).
func (s *Session) Close() {
	s.stdin.Close()
	done := make(chan struct{})
	go func() { s.cmd.Wait(); close(done) }()
	select {
	case <-done:
	case <-time.After(10 * time.Second):
		syscall.Kill(s.Pid, syscall.SIGKILL)
		s.cmd.Process.Kill()
		<-done
	}
}
