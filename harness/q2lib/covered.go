package q2lib

import (
	"strings"

	"github.com/sourcegraph/zoekt/query"
)

// Covered: a Go port of the decidable hypotheses of the Lean theorem C06_parse_sem_partial_wf (goodQ, semOKQ, at most
// one type: per group, operandsOK; well-formedness of atom values is left to the real parser), used only to report
// which fraction of the generated cases the theorem speaks about. The group test uses the real tokenizer exactly
// as `opensAsGroup` uses the model's: the group's own rendering must start with the grouping token.
func Covered(q Qy) (bool, string) {
	if why := coveredQ(q); why != "" {
		return false, why
	}
	return true, ""
}

func isDflt(c byte) bool {
	switch c {
	case '(', ')', '"', '\\', ' ', '\n', '\t':
		return false
	}
	return true
}

func escPlain(t string) bool {
	depth := 0
	for i := 0; i < len(t); i++ {
		switch {
		case t[i] == '\\':
			i++
			if i >= len(t) {
				return false
			}
		case t[i] == '(':
			depth++
		case t[i] == ')':
			if depth == 0 {
				return false
			}
			depth--
		case !isDflt(t[i]):
			return false
		}
	}
	return depth == 0
}

var tablePrefixes = []string{"archived:", "b:", "branch:", "c:", "case:", "content:", "f:", "file:", "fork:", "public:", "r:", "regex:", "repo:", "lang:", "sym:", "t:", "type:", "meta."}

func goodAtom(e *E) string {
	if !e.Quoted && !escPlain(e.Text) {
		return "unquoted-value-not-one-word"
	}
	switch e.Field {
	case "text":
		if e.Text == "" || e.Text == "(" || e.Text == ")" {
			return "bare-degenerate"
		}
		if !e.Quoted {
			if e.Text[0] == '-' || e.Text == "or" {
				return "bare-degenerate"
			}
			for _, p := range tablePrefixes {
				if strings.HasPrefix(e.Text, p) {
					return "bare-starts-with-prefix"
				}
			}
		}
	case "meta":
		for i := 0; i < len(e.Name); i++ {
			if !isDflt(e.Name[i]) || e.Name[i] == ':' {
				return "meta-name"
			}
		}
	case "regex":
		return "regex-field"
	}
	return ""
}

func isDirective(e *E) bool { return e.Kind == "case" || e.Kind == "type" }

func coveredE(e *E) string {
	switch e.Kind {
	case "atom":
		return goodAtom(e)
	case "type":
		if e.Val > 3 {
			return "type-value"
		}
	case "neg":
		if isDirective(e.Sub) {
			return "negated-directive"
		}
		return coveredE(e.Sub)
	case "grp":
		tok, ok, err := query.VerifNextToken([]byte(e.Render()))
		if err != nil || !ok || tok.Type != 5 || string(tok.Input) != "(" {
			return "tight-group"
		}
		return coveredQ(e.Q)
	}
	return ""
}

func coveredQ(q Qy) string {
	types := 0
	for ci, c := range q {
		operand := false
		for _, e := range c {
			if e.Kind == "type" {
				types++
			}
			if !isDirective(e) {
				operand = true
			}
			if why := coveredE(e); why != "" {
				return why
			}
		}
		if len(q) > 1 && !operand {
			_ = ci
			return "or-without-operand"
		}
	}
	if types > 1 {
		return "several-type-directives"
	}
	return ""
}
