package q2lib

import (
	"bytes"
	"fmt"
	"os"
	"path/filepath"

	"github.com/sourcegraph/zoekt"
	"github.com/sourcegraph/zoekt/index"
)

// Doc / Repo: a small corpus description from which real shards are built.
type Doc struct {
	Name     string
	Content  string
	Branches []string // subset of the repo's branches; empty = all
	Language string
	Symbols  []string // each must occur in Content; the first occurrence not overlapping an earlier one becomes a symbol section
}

type Repo struct {
	Name      string
	ID        uint32
	Branches  []string
	RawConfig map[string]string
	Metadata  map[string]string
	Docs      []Doc
}

func symbolSections(d Doc) ([]index.DocumentSection, []*zoekt.Symbol) {
	var secs []index.DocumentSection
	var syms []*zoekt.Symbol
	pos := 0
	for _, s := range d.Symbols {
		i := bytes.Index([]byte(d.Content[pos:]), []byte(s))
		if i < 0 || s == "" {
			continue
		}
		st := pos + i
		secs = append(secs, index.DocumentSection{Start: uint32(st), End: uint32(st + len(s))})
		syms = append(syms, &zoekt.Symbol{Sym: s, Kind: "function"})
		pos = st + len(s)
	}
	return secs, syms
}

// PlacedSymbols: the symbol names that symbolSections actually places (what a sym: query can see).
func PlacedSymbols(d Doc) []string {
	_, syms := symbolSections(d)
	var out []string
	for _, s := range syms {
		out = append(out, s.Sym)
	}
	return out
}

// BuildShards writes one shard per repo into dir with the real index.Builder.
func BuildShards(dir string, repos []Repo) error {
	for _, r := range repos {
		var branches []zoekt.RepositoryBranch
		for _, b := range r.Branches {
			branches = append(branches, zoekt.RepositoryBranch{Name: b, Version: "v-" + b})
		}
		opts := index.Options{
			IndexDir: dir,
			RepositoryDescription: zoekt.Repository{
				Name: r.Name, ID: r.ID, Branches: branches, RawConfig: r.RawConfig, Metadata: r.Metadata,
			},
			DisableCTags: true,
		}
		opts.SetDefaults()
		b, err := index.NewBuilder(opts)
		if err != nil {
			return err
		}
		for _, d := range r.Docs {
			secs, syms := symbolSections(d)
			br := d.Branches
			if len(br) == 0 {
				br = r.Branches
			}
			if err := b.Add(index.Document{Name: d.Name, Content: []byte(d.Content), Branches: br, Language: d.Language,
				Symbols: secs, SymbolsMetaData: syms}); err != nil {
				return fmt.Errorf("add %s/%s: %w", r.Name, d.Name, err)
			}
		}
		if err := b.Finish(); err != nil {
			return err
		}
	}
	return nil
}

// OpenShardSearchers opens every shard file of dir with index.NewSearcher (bare per-shard searchers).
func OpenShardSearchers(dir string) ([]zoekt.Searcher, error) {
	names, err := filepath.Glob(filepath.Join(dir, "*.zoekt"))
	if err != nil {
		return nil, err
	}
	var out []zoekt.Searcher
	for _, n := range names {
		f, err := os.Open(n)
		if err != nil {
			return nil, err
		}
		ifile, err := index.NewIndexFile(f)
		if err != nil {
			return nil, err
		}
		s, err := index.NewSearcher(ifile)
		if err != nil {
			return nil, err
		}
		out = append(out, s)
	}
	return out, nil
}
