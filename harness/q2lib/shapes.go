package q2lib

import (
	"regexp/syntax"
	"strings"

	"verifharness/gen"
)

// AtomShapes names, per tree, the atom shapes on which the parser's case:auto decision and keyword recognition
// depend (distribution counters only; nothing is decided with them):
//   upper-in-literal / upper-only-in-class / no-upper : where the ASCII capitals of a pattern atom sit in the regexp
//     syntax tree (a class: [A-Z], [XY], or an alternation of single letters that the simplifier folds into a class)
//   keyword-lookalike : a bare unquoted pattern that differs from the operator `or`, the non-operators and/not, or a
//     field prefix only by letter case (OR, And, File:x)
func AtomShapes(q Qy) []string {
	var out []string
	q.Atoms(func(e *E) {
		switch e.Field {
		case "text", "regex", "content", "file", "sym":
			lit, cls, ok := upperPlaces(e.Text)
			switch {
			case !ok:
			case lit:
				out = append(out, "upper-in-literal")
			case cls:
				out = append(out, "upper-only-in-class")
			default:
				out = append(out, "no-upper")
			}
		}
		if e.Field == "text" && !e.Quoted && keywordLookalike(e.Text) {
			out = append(out, "keyword-lookalike")
		}
	})
	return out
}

func upperPlaces(pat string) (inLiteral, inClass, ok bool) {
	re, err := syntax.Parse(pat, RegexpFlags)
	if err != nil {
		return false, false, false
	}
	re = re.Simplify()
	var walk func(r *syntax.Regexp)
	walk = func(r *syntax.Regexp) {
		switch r.Op {
		case syntax.OpLiteral:
			for _, c := range r.Rune {
				if c >= 'A' && c <= 'Z' {
					inLiteral = true
				}
			}
		case syntax.OpCharClass:
			for i := 0; i+1 < len(r.Rune); i += 2 {
				lo, hi := r.Rune[i], r.Rune[i+1]
				if lo <= 'Z' && hi >= 'A' && hi < 0x10000 && !(lo == 0) {
					inClass = true
				}
			}
		}
		for _, s := range r.Sub {
			walk(s)
		}
	}
	walk(re)
	return inLiteral, inClass, true
}

func keywordLookalike(t string) bool {
	l := strings.ToLower(t)
	if t == l {
		return l == "and" || l == "not"
	}
	if l == "or" || l == "and" || l == "not" {
		return true
	}
	for _, p := range tablePrefixes {
		if strings.HasPrefix(l, p) && !strings.HasPrefix(t, p) {
			return true
		}
	}
	return false
}

// BlankVariants: copies of the tree in which one atom value that contains a blank (necessarily quoted, or escaped)
// has that run of blanks changed: " " → "  ", "  "/"   " → " ", " " → "\t". Queries that differ only there are
// different queries (a quoted value is a regexp over the exact bytes); a parser with any memory keyed on a
// blank-normalised form confuses them. Returns nothing when the tree has no such value.
func BlankVariants(r *gen.Rand, q Qy) []Qy {
	var idx []int
	n := 0
	q.Atoms(func(e *E) {
		if strings.ContainsAny(e.Text, " \t") && (e.Quoted || !Unquotable(e.Field, e.Text)) {
			switch e.Field {
			case "text", "regex", "content", "file", "sym":
				idx = append(idx, n)
			}
		}
		n++
	})
	if len(idx) == 0 {
		return nil
	}
	target := idx[r.Intn(len(idx))]
	var out []Qy
	for _, mode := range []int{0, 1} {
		k := 0
		changed := false
		v := mapAtoms(q, func(e *E) *E {
			defer func() { k++ }()
			if k != target {
				return e
			}
			c := *e
			t := e.Text
			switch {
			case mode == 0 && strings.Contains(t, "  "):
				t = strings.Replace(t, "  ", " ", 1)
			case mode == 0:
				t = strings.Replace(t, " ", "  ", 1)
			case strings.Contains(t, "\t"):
				t = strings.Replace(t, "\t", " ", 1)
			default:
				t = strings.Replace(t, " ", "\t", 1)
			}
			if t != e.Text {
				changed = true
			}
			c.Text = t
			c.Quoted = true
			return &c
		})
		if changed {
			out = append(out, v)
		}
	}
	return out
}
