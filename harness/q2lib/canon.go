// Package q2lib: helpers shared by the C06 and C07 harnesses (canonical printing of query trees, the oracle table
// handed to the Lean model, a grammar-directed query generator).
package q2lib

import (
	"fmt"
	"regexp/syntax"
	"strings"

	"github.com/sourcegraph/zoekt/languages"
	"github.com/sourcegraph/zoekt/query"

	"verifharness/gen"
)

func bit(b bool) string {
	if b {
		return "1"
	}
	return "0"
}

// Canon prints a query tree in the format of the Lean driver's `canon` (C07/Driver.lean).
func Canon(q query.Q) string {
	var sb strings.Builder
	canon(&sb, q)
	return sb.String()
}

func canon(sb *strings.Builder, q query.Q) {
	if q == nil {
		sb.WriteString("nil")
		return
	}
	switch s := q.(type) {
	case *query.And:
		sb.WriteString("(and")
		for _, c := range s.Children {
			sb.WriteByte(' ')
			canon(sb, c)
		}
		sb.WriteByte(')')
	case *query.Or:
		sb.WriteString("(or")
		for _, c := range s.Children {
			sb.WriteByte(' ')
			canon(sb, c)
		}
		sb.WriteByte(')')
	case *query.Not:
		sb.WriteString("(not ")
		canon(sb, s.Child)
		sb.WriteByte(')')
	case *query.Type:
		fmt.Fprintf(sb, "(type %d ", s.Type)
		canon(sb, s.Child)
		sb.WriteByte(')')
	case *query.Const:
		if s.Value {
			sb.WriteString("T")
		} else {
			sb.WriteString("F")
		}
	case *query.Substring:
		fmt.Fprintf(sb, "(sub %s %s%s%s)", gen.Hex([]byte(s.Pattern)), bit(s.CaseSensitive), bit(s.FileName), bit(s.Content))
	case *query.Regexp:
		fmt.Fprintf(sb, "(re %s %s%s%s)", gen.Hex([]byte(s.RegexpString())), bit(s.CaseSensitive), bit(s.FileName), bit(s.Content))
	case *query.Repo:
		fmt.Fprintf(sb, "(repo %s)", gen.Hex([]byte(s.Regexp.String())))
	case query.RawConfig:
		fmt.Fprintf(sb, "(rc %d)", uint64(s))
	case *query.Branch:
		if s.Exact {
			fmt.Fprintf(sb, "(brexact %s)", gen.Hex([]byte(s.Pattern)))
		} else {
			fmt.Fprintf(sb, "(br %s)", gen.Hex([]byte(s.Pattern)))
		}
	case *query.Language:
		fmt.Fprintf(sb, "(lang %s)", gen.Hex([]byte(s.Language)))
	case *query.Symbol:
		sb.WriteString("(sym ")
		canon(sb, s.Expr)
		sb.WriteByte(')')
	case *query.Meta:
		fmt.Fprintf(sb, "(meta %s %s)", gen.Hex([]byte(s.Field)), gen.Hex([]byte(s.Value.String())))
	default:
		if fl, ok := query.VerifCaseFlavor(q); ok {
			fmt.Fprintf(sb, "(case %s)", gen.Hex([]byte(fl)))
			return
		}
		fmt.Fprintf(sb, "(unknown:%T)", q)
	}
}

// RegexpFlags is what the documentation of query.RegexpQuery's behaviour amounts to (ClassNL|PerlX|UnicodeGroups);
// written out here rather than taken from the package so that a change of the constant shows as a disagreement.
const RegexpFlags = syntax.ClassNL | syntax.PerlX | syntax.UnicodeGroups

// OracleEntry is what the Lean model is told about one atom text (C07/Model.lean `Oracle`).
func OracleEntry(text []byte) (s string) {
	t := string(text)
	rq := "e"
	func() {
		defer func() {
			if r := recover(); r != nil {
				rq = "e"
			}
		}()
		r, err := syntax.Parse(t, RegexpFlags)
		if err != nil {
			return
		}
		r = query.OptimizeRegexp(r, RegexpFlags)
		if r.Op == syntax.OpLiteral && r.Flags&syntax.FoldCase == 0 { // (?i)foo stays a regexp (fix 4f48ce5)
			rq = "l" + gen.Hex([]byte(string(r.Rune)))
			return
		}
		auto := !r.Equal(query.LowerRegexp(r))
		rq = fmt.Sprintf("r%s.%s.%s", gen.Hex([]byte((&query.Regexp{Regexp: r}).RegexpString())), bit(auto), bit(r.Op == syntax.OpEmptyMatch))
	}()
	cp := "0"
	if _, err := compileGrafana(t); err == nil {
		cp = "1"
	}
	lg := "n"
	if c, ok := languages.GetLanguageByNameOrAlias(t); ok {
		lg = "y" + gen.Hex([]byte(c))
	}
	return fmt.Sprintf("%s/%s/%s/%s", gen.Hex(text), rq, cp, lg)
}

// CollectTexts: every text the parser could hand to RegexpQuery / regexp.Compile / the language table for input s:
// the text of the token starting at each offset (real tokenizer), and, for meta tokens, the part after the first ':'.
// A superset is harmless; the Lean driver reports a missing key as BADCASE.
func CollectTexts(s []byte) [][]byte {
	seen := map[string]bool{}
	var out [][]byte
	add := func(b []byte) {
		if !seen[string(b)] {
			seen[string(b)] = true
			out = append(out, append([]byte(nil), b...))
		}
	}
	for i := 0; i <= len(s); i++ {
		func() {
			defer func() { recover() }()
			tok, ok, err := query.VerifNextToken(s[i:])
			if err != nil || !ok {
				return
			}
			add(tok.Text)
			for j, c := range tok.Text {
				if c == ':' {
					add(tok.Text[j+1:])
					break
				}
			}
		}()
	}
	return out
}

func OracleTable(texts [][]byte) string {
	if len(texts) == 0 {
		return "-"
	}
	parts := make([]string, len(texts))
	for i, t := range texts {
		parts[i] = OracleEntry(t)
	}
	return strings.Join(parts, ",")
}
