package q2lib

import (
	"fmt"
	"strings"

	"verifharness/gen"
)

// Grammar trees of doc/query_syntax.md's EBNF (mirrors ZoektModel/C06/Model.lean: E, Cj, Qy).
type E struct {
	Kind   string // atom | case | type | neg | grp
	Field  string // atom: text content file regex repo sym branch lang archived fork public meta
	Alias  int    // atom/type: 0 = long form, 1 = documented alias
	Quoted bool
	Text   string
	Name   string // meta field name
	Flavor int    // case: 0 yes 1 no 2 auto
	Val    int    // type: 0 filematch 1 filename 2 file 3 repo
	Sub    *E     // neg
	PadL   bool
	PadR   bool
	Q      Qy // grp
}
type Cj []*E
type Qy []Cj

var fieldPrefixes = map[string][2]string{
	"text": {"", ""}, "content": {"content:", "c:"}, "file": {"file:", "f:"}, "regex": {"regex:", "regex:"}, "repo": {"repo:", "r:"},
	"sym": {"sym:", "sym:"}, "branch": {"branch:", "b:"}, "lang": {"lang:", "lang:"}, "archived": {"archived:", "archived:"},
	"fork": {"fork:", "fork:"}, "public": {"public:", "public:"},
}

func FieldPrefix(f string, alias int, name string) string {
	if f == "meta" {
		return "meta." + name + ":"
	}
	p := fieldPrefixes[f]
	if alias == 0 {
		return p[0]
	}
	return p[1]
}

// Quote: the documented quoted form (a backslash escapes the next character).
func Quote(t string) string {
	var sb strings.Builder
	sb.WriteByte('"')
	for i := 0; i < len(t); i++ {
		if t[i] == '"' || t[i] == '\\' {
			sb.WriteByte('\\')
		}
		sb.WriteByte(t[i])
	}
	sb.WriteByte('"')
	return sb.String()
}

var caseWords = []string{"yes", "no", "auto"}
var typeWords = []string{"filematch", "filename", "file", "repo"}

func (e *E) Render() string {
	switch e.Kind {
	case "atom":
		v := e.Text
		if e.Quoted {
			v = Quote(v)
		}
		return FieldPrefix(e.Field, e.Alias, e.Name) + v
	case "case":
		return "case:" + caseWords[min(e.Flavor, 2)]
	case "type":
		p := "type:"
		if e.Alias != 0 {
			p = "t:"
		}
		return p + typeWords[min(e.Val, 3)]
	case "neg":
		return "-" + e.Sub.Render()
	case "grp":
		s := "("
		if e.PadL {
			s += " "
		}
		s += e.Q.Render()
		if e.PadR {
			s += " "
		}
		return s + ")"
	}
	panic("bad E kind " + e.Kind)
}

func (c Cj) Render() string {
	parts := make([]string, len(c))
	for i, e := range c {
		parts[i] = e.Render()
	}
	return strings.Join(parts, " ")
}

func (q Qy) Render() string {
	parts := make([]string, len(q))
	for i, c := range q {
		parts[i] = c.Render()
	}
	return strings.Join(parts, " or ")
}

func b01(b bool) string {
	if b {
		return "1"
	}
	return "0"
}

// Encode: the prefix encoding read by C06/Driver.lean `decodeG`.
func (q Qy) Encode() string {
	var toks []string
	q.encode(&toks)
	return strings.Join(toks, ";")
}

func (q Qy) encode(t *[]string) {
	*t = append(*t, fmt.Sprintf("Q%d", len(q)))
	for _, c := range q {
		*t = append(*t, fmt.Sprintf("C%d", len(c)))
		for _, e := range c {
			e.encode(t)
		}
	}
}

func (e *E) encode(t *[]string) {
	switch e.Kind {
	case "atom":
		*t = append(*t, fmt.Sprintf("A.%s.%d.%s.%s.%s", e.Field, e.Alias, b01(e.Quoted), gen.Hex([]byte(e.Text)), gen.Hex([]byte(e.Name))))
	case "case":
		*t = append(*t, fmt.Sprintf("K%d", e.Flavor))
	case "type":
		*t = append(*t, fmt.Sprintf("T%d%d", e.Alias, e.Val))
	case "neg":
		*t = append(*t, "N")
		e.Sub.encode(t)
	case "grp":
		*t = append(*t, "G"+b01(e.PadL)+b01(e.PadR))
		e.Q.encode(t)
	}
}

// Atoms visits every atom of the tree.
func (q Qy) Atoms(f func(*E)) {
	for _, c := range q {
		for _, e := range c {
			e.atoms(f)
		}
	}
}

func (e *E) atoms(f func(*E)) {
	switch e.Kind {
	case "atom":
		f(e)
	case "neg":
		e.Sub.atoms(f)
	case "grp":
		e.Q.Atoms(f)
	}
}

// Features: syntactic features of the tree that name known deviation classes.
//
//	tight-group : a parenthesised group written without any blank inside, around something other than one bare
//	              unquoted pattern — the tokenizer reads it as a regexp, not as a group.
func (q Qy) Features() map[string]bool {
	fs := map[string]bool{}
	var walkQ func(Qy)
	var walkE func(*E)
	walkE = func(e *E) {
		switch e.Kind {
		case "neg":
			walkE(e.Sub)
		case "grp":
			if !e.PadL && !e.PadR && len(e.Q) == 1 && len(e.Q[0]) == 1 {
				in := e.Q[0][0]
				nestedSpaced := in.Kind == "grp" && !tightAllTheWay(in)
				if !isBareTight(e) && !nestedSpaced {
					fs["tight-group"] = true
				}
			}
			walkQ(e.Q)
		}
	}
	walkQ = func(q Qy) {
		for _, c := range q {
			for _, e := range c {
				walkE(e)
			}
		}
	}
	walkQ(q)
	return fs
}

// tightAllTheWay: a group whose rendering has no blank outside quoted strings.
func tightAllTheWay(e *E) bool {
	s := e.Render()
	inq := false
	for i := 0; i < len(s); i++ {
		switch {
		case s[i] == '\\':
			i++
		case s[i] == '"':
			inq = !inq
		case s[i] == ' ' && !inq:
			return false
		}
	}
	return true
}

// ---- generator ----

type Vocab struct {
	Words     []string // patterns (regexp sources) that make sense on the corpus
	Spaced    []string // patterns that need quoting
	Files     []string
	Repos     []string
	Branches  []string
	Langs     []string
	MetaNames []string
	MetaVals  []string
	Syms      []string
}

// Unquotable: may the value be written without quotes (one token, same text)?
func Unquotable(field, t string) bool {
	if t == "" || t[0] == '-' || t == "or" || t == "(" || t == ")" {
		return false
	}
	depth := 0
	for i := 0; i < len(t); i++ {
		switch t[i] {
		case ' ', '\t', '\n', '"':
			return false
		case '\\':
			i++
			if i >= len(t) {
				return false
			}
		case '(':
			depth++
		case ')':
			if depth == 0 {
				return false
			}
			depth--
		}
	}
	if depth != 0 {
		return false
	}
	if field == "text" {
		for _, p := range []string{"archived:", "b:", "branch:", "c:", "case:", "content:", "f:", "file:", "fork:", "public:", "r:", "regex:", "repo:", "lang:", "sym:", "t:", "type:", "meta."} {
			if strings.HasPrefix(t, p) {
				return false
			}
		}
	}
	return true
}

type GenOpts struct {
	MaxDepth   int
	TightGroup bool // allow the known-deviation class
}

func GenQuery(r *gen.Rand, v *Vocab, o GenOpts, depth int) Qy {
	nConj := 1
	if r.Chance(1, 3) {
		nConj = r.Range(2, 3)
	}
	var q Qy
	for i := 0; i < nConj; i++ {
		n := r.Range(1, 3)
		var c Cj
		for j := 0; j < n; j++ {
			c = append(c, genExpr(r, v, o, depth))
		}
		q = append(q, c)
	}
	// directives: at most one case: and one type: per group, placed in a conjunction that keeps an operand
	if r.Chance(1, 4) {
		i := r.Intn(len(q))
		d := &E{Kind: "case", Flavor: r.Intn(3)}
		q[i] = insertAt(r, q[i], d)
	}
	if r.Chance(1, 6) {
		i := r.Intn(len(q))
		d := &E{Kind: "type", Alias: r.Intn(2), Val: r.Intn(4)}
		q[i] = insertAt(r, q[i], d)
	}
	return q
}

func insertAt(r *gen.Rand, c Cj, e *E) Cj {
	i := r.Intn(len(c) + 1)
	out := append(Cj{}, c[:i]...)
	out = append(out, e)
	return append(out, c[i:]...)
}

func genExpr(r *gen.Rand, v *Vocab, o GenOpts, depth int) *E {
	switch {
	case r.Chance(1, 6):
		return &E{Kind: "neg", Sub: genPrimary(r, v, o, depth)}
	default:
		return genPrimary(r, v, o, depth)
	}
}

func genPrimary(r *gen.Rand, v *Vocab, o GenOpts, depth int) *E {
	if depth < o.MaxDepth && r.Chance(1, 4) {
		q := GenQuery(r, v, o, depth+1)
		e := &E{Kind: "grp", PadL: r.Chance(1, 3), PadR: r.Chance(1, 3), Q: q}
		if !e.PadL && !e.PadR && tightAllTheWay(e) {
			feat := (Qy{Cj{e}}).Features()["tight-group"]
			if feat && !(o.TightGroup && r.Chance(1, 3)) {
				e.PadL = true
			}
		}
		return e
	}
	return genAtom(r, v)
}

func genAtom(r *gen.Rand, v *Vocab) *E {
	e := &E{Kind: "atom", Alias: r.Intn(2)}
	switch r.Intn(20) {
	case 0, 1, 2, 3, 4, 5:
		e.Field = "text"
	case 6, 7, 8:
		e.Field = "content"
	case 9, 10:
		e.Field = "file"
	case 11:
		e.Field = "regex"
	case 12, 13:
		e.Field = "repo"
	case 14:
		e.Field = "sym"
	case 15:
		e.Field = "branch"
	case 16:
		e.Field = "lang"
	case 17:
		e.Field = gen.Pick(r, []string{"archived", "fork", "public"})
	case 18:
		e.Field = "meta"
	default:
		e.Field = "text"
	}
	switch e.Field {
	case "text", "content", "regex":
		if r.Chance(1, 5) {
			e.Text = gen.Pick(r, v.Spaced)
		} else {
			e.Text = gen.Pick(r, v.Words)
		}
	case "file":
		e.Text = gen.Pick(r, v.Files)
	case "repo":
		e.Text = gen.Pick(r, v.Repos)
	case "sym":
		e.Text = gen.Pick(r, v.Syms)
	case "branch":
		e.Text = gen.Pick(r, v.Branches)
	case "lang":
		e.Text = gen.Pick(r, v.Langs)
	case "archived", "fork", "public":
		e.Text = gen.Pick(r, []string{"yes", "no"})
	case "meta":
		e.Name = gen.Pick(r, v.MetaNames)
		e.Text = gen.Pick(r, v.MetaVals)
	}
	e.Quoted = !Unquotable(e.Field, e.Text) || r.Chance(1, 5)
	return e
}

// Decode: inverse of Encode.
func Decode(s string) (Qy, error) {
	toks := strings.Split(s, ";")
	q, rest, err := decQ(toks)
	if err != nil {
		return nil, err
	}
	if len(rest) != 0 {
		return nil, fmt.Errorf("trailing tokens")
	}
	return q, nil
}

func decQ(t []string) (Qy, []string, error) {
	if len(t) == 0 || !strings.HasPrefix(t[0], "Q") {
		return nil, nil, fmt.Errorf("expected Q")
	}
	var n int
	fmt.Sscanf(t[0][1:], "%d", &n)
	t = t[1:]
	var q Qy
	for i := 0; i < n; i++ {
		if len(t) == 0 || !strings.HasPrefix(t[0], "C") {
			return nil, nil, fmt.Errorf("expected C")
		}
		var k int
		fmt.Sscanf(t[0][1:], "%d", &k)
		t = t[1:]
		var c Cj
		for j := 0; j < k; j++ {
			e, rest, err := decE(t)
			if err != nil {
				return nil, nil, err
			}
			c = append(c, e)
			t = rest
		}
		q = append(q, c)
	}
	return q, t, nil
}

func decE(t []string) (*E, []string, error) {
	if len(t) == 0 {
		return nil, nil, fmt.Errorf("expected expression")
	}
	tok := t[0]
	t = t[1:]
	switch {
	case tok == "N":
		e, rest, err := decE(t)
		if err != nil {
			return nil, nil, err
		}
		return &E{Kind: "neg", Sub: e}, rest, nil
	case strings.HasPrefix(tok, "G") && len(tok) == 3:
		q, rest, err := decQ(t)
		if err != nil {
			return nil, nil, err
		}
		return &E{Kind: "grp", PadL: tok[1] == '1', PadR: tok[2] == '1', Q: q}, rest, nil
	case strings.HasPrefix(tok, "K"):
		var n int
		fmt.Sscanf(tok[1:], "%d", &n)
		return &E{Kind: "case", Flavor: n}, t, nil
	case strings.HasPrefix(tok, "T") && len(tok) == 3:
		return &E{Kind: "type", Alias: int(tok[1] - '0'), Val: int(tok[2] - '0')}, t, nil
	case strings.HasPrefix(tok, "A."):
		p := strings.Split(tok, ".")
		if len(p) != 6 {
			return nil, nil, fmt.Errorf("bad atom %q", tok)
		}
		var a int
		fmt.Sscanf(p[2], "%d", &a)
		return &E{Kind: "atom", Field: p[1], Alias: a, Quoted: p[3] == "1", Text: string(gen.UnHex(p[4])), Name: string(gen.UnHex(p[5]))}, t, nil
	}
	return nil, nil, fmt.Errorf("bad token %q", tok)
}
