package q2lib

import "github.com/grafana/regexp"

func compileGrafana(s string) (*regexp.Regexp, error) { return regexp.Compile(s) }
