package q2lib

import (
	"fmt"
	"regexp"
	"strings"

	"github.com/sourcegraph/zoekt/query"

	"verifharness/gen"
)

// The reference reading of doc/query_syntax.md, in Go. It shares no code with zoekt's parser or engine: atoms are
// decided with the standard library's regexp on the raw document, the boolean structure by recursion over the
// grammar tree. (Lean's `semQ` in C06/Spec.lean is a second, independent transcription of the same prose.)

type FlatDoc struct {
	Repo int
	R    *Repo
	D    *Doc
	Syms []string
	OnBr []string
}

func Flatten(repos []Repo) []FlatDoc {
	var out []FlatDoc
	for i := range repos {
		r := &repos[i]
		for j := range r.Docs {
			d := &r.Docs[j]
			br := d.Branches
			if len(br) == 0 {
				br = r.Branches
			}
			out = append(out, FlatDoc{Repo: i, R: r, D: d, Syms: PlacedSymbols(*d), OnBr: br})
		}
	}
	return out
}

// langAliases: the few language names the generator uses, with their canonical names (from the language list
// zoekt documents: go-enry / linguist). Kept here so that the oracle does not call zoekt's own table.
var langAliases = map[string]string{"go": "Go", "golang": "Go", "python": "Python", "py": "Python", "java": "Java", "markdown": "Markdown", "md": "Markdown"}

func canonicalLang(t string) (string, bool) {
	c, ok := langAliases[strings.ToLower(t)]
	return c, ok
}

var rcFlag = map[string]string{"archived": "archived", "fork": "fork", "public": "public"}

type reEntry struct {
	re  *regexp.Regexp
	err error
}

var reCache = map[string]reEntry{}

func compileCached(src string) (*regexp.Regexp, error) {
	if e, ok := reCache[src]; ok {
		return e.re, e.err
	}
	re, err := regexp.Compile(src)
	if len(reCache) > 20000 {
		reCache = map[string]reEntry{}
	}
	reCache[src] = reEntry{re, err}
	return re, err
}

func compileDoc(text string, caseSensitive bool) (*regexp.Regexp, error) {
	// zoekt documents its patterns as Go regular expressions searched in the document; `^`/`$` are line anchors
	// when searching file content (multi-line text), hence (?m).
	flags := "(?m)"
	if !caseSensitive {
		flags = "(?mi)"
	}
	return compileCached(flags + text)
}

// HasUpper: "the pattern has an upper-case letter" — an ASCII upper-case letter that is not the character after a backslash.
func HasUpper(t string) bool {
	for i := 0; i < len(t); i++ {
		if t[i] == '\\' {
			i++
			continue
		}
		if t[i] >= 'A' && t[i] <= 'Z' {
			return true
		}
	}
	return false
}

// AtomTruth decides one atom on one document. ok=false: the value is outside what the documentation defines.
func AtomTruth(f, text, name string, caseSensitive bool, d *FlatDoc) (bool, bool) {
	switch f {
	case "text", "regex", "content", "file", "sym":
		re, err := compileDoc(text, caseSensitive)
		if err != nil {
			return false, false
		}
		switch f {
		case "content", "regex": // doc/query_syntax.md: "regex: Matches content using a regular expression."
			return re.MatchString(d.D.Content), true
		case "file":
			return re.MatchString(d.D.Name), true
		case "sym":
			for _, s := range d.Syms {
				if re.MatchString(s) {
					return true, true
				}
			}
			return false, true
		default:
			return re.MatchString(d.D.Content) || re.MatchString(d.D.Name), true
		}
	case "repo":
		re, err := compileCached(text)
		if err != nil {
			return false, false
		}
		return re.MatchString(d.R.Name), true
	case "branch":
		if text == "HEAD" {
			for _, b := range d.OnBr {
				if b == d.R.Branches[0] {
					return true, true
				}
			}
			return false, true
		}
		for _, b := range d.OnBr {
			if strings.Contains(b, text) {
				return true, true
			}
		}
		return false, true
	case "lang":
		c, ok := canonicalLang(text)
		if !ok {
			return false, true // an unknown language matches nothing
		}
		return d.D.Language == c, true
	case "archived", "fork", "public":
		v := d.R.RawConfig[rcFlag[f]] == "1"
		switch text {
		case "yes":
			return v, true
		case "no":
			return !v, true
		}
		return false, false
	case "meta":
		re, err := compileCached(text)
		if err != nil {
			return false, false
		}
		val, has := d.R.Metadata[name]
		return has && re.MatchString(val), true
	}
	return false, false
}

func caseMatters(f string) bool {
	switch f {
	case "text", "regex", "content", "file", "sym":
		return true
	}
	return false
}

// Sem: which documents the query selects according to the documentation. ok=false: undefined.
func Sem(q Qy, docs []FlatDoc) (bits []bool, ok bool) {
	return semQ(q, docs, -1)
}

// cm: -1 auto, 0 insensitive, 1 sensitive
func semQ(q Qy, docs []FlatDoc, cm int) ([]bool, bool) {
	typeRepo := false
	for _, c := range q {
		for _, e := range c {
			if e.Kind == "case" {
				cm = []int{1, 0, -1}[min(e.Flavor, 2)]
			}
			if e.Kind == "type" && e.Val == 3 {
				typeRepo = true
			}
		}
	}
	out := make([]bool, len(docs))
	for _, c := range q {
		conj := make([]bool, len(docs))
		for i := range conj {
			conj[i] = true
		}
		for _, e := range c {
			v, ok := semE(e, docs, cm)
			if !ok {
				return nil, false
			}
			for i := range conj {
				conj[i] = conj[i] && v[i]
			}
		}
		for i := range out {
			out[i] = out[i] || conj[i]
		}
	}
	if typeRepo {
		hit := map[int]bool{}
		for i, d := range docs {
			if out[i] {
				hit[d.Repo] = true
			}
		}
		for i, d := range docs {
			out[i] = hit[d.Repo]
		}
	}
	return out, true
}

func semE(e *E, docs []FlatDoc, cm int) ([]bool, bool) {
	out := make([]bool, len(docs))
	switch e.Kind {
	case "atom":
		cs := true
		if caseMatters(e.Field) {
			switch cm {
			case 1:
				cs = true
			case 0:
				cs = false
			default:
				cs = HasUpper(e.Text)
			}
		}
		for i := range docs {
			v, ok := AtomTruth(e.Field, e.Text, e.Name, cs, &docs[i])
			if !ok {
				return nil, false
			}
			out[i] = v
		}
		return out, true
	case "case", "type":
		for i := range out {
			out[i] = true
		}
		return out, true
	case "neg":
		if e.Sub.Kind == "case" || e.Sub.Kind == "type" {
			return nil, false
		}
		v, ok := semE(e.Sub, docs, cm)
		if !ok {
			return nil, false
		}
		for i := range v {
			out[i] = !v[i]
		}
		return out, true
	case "grp":
		return semQ(e.Q, docs, cm)
	}
	return nil, false
}

// SemRegexAsBarePattern: the documented meaning with one change — `regex:` read the way the parser reads it, as a
// bare pattern (file name or content). Used only to classify a disagreement: if the implementation equals this
// reading and not the documented one, the whole disagreement is explained by file-name matches of regex: atoms.
func SemRegexAsBarePattern(q Qy, docs []FlatDoc) ([]bool, bool) {
	return Sem(mapAtoms(q, func(e *E) *E {
		if e.Field == "regex" {
			c := *e
			c.Field = "text"
			return &c
		}
		return e
	}), docs)
}

// HasRegexField: does the tree contain a `regex:` atom?
func HasRegexField(q Qy) bool {
	has := false
	q.Atoms(func(e *E) {
		if e.Field == "regex" {
			has = true
		}
	})
	return has
}

func mapAtoms(q Qy, f func(*E) *E) Qy {
	var out Qy
	for _, c := range q {
		var nc Cj
		for _, e := range c {
			nc = append(nc, mapAtomsE(e, f))
		}
		out = append(out, nc)
	}
	return out
}

func mapAtomsE(e *E, f func(*E) *E) *E {
	switch e.Kind {
	case "atom":
		return f(e)
	case "neg":
		c := *e
		c.Sub = mapAtomsE(e.Sub, f)
		return &c
	case "grp":
		c := *e
		c.Q = mapAtoms(e.Q, f)
		return &c
	}
	return e
}

func Bits(b []bool) string {
	if len(b) == 0 {
		return "-"
	}
	var sb strings.Builder
	for _, x := range b {
		if x {
			sb.WriteByte('1')
		} else {
			sb.WriteByte('0')
		}
	}
	return sb.String()
}

// TruthRows: for every atom of the tree, its truth on every document under both case readings, keyed the way
// C06/Model.lean `AtomKey` keys it (kind letter, text, meta name).
func TruthRows(q Qy, docs []FlatDoc) (string, bool) {
	seen := map[string]bool{}
	var rows []string
	okAll := true
	q.Atoms(func(e *E) {
		kind, text, name := "", e.Text, ""
		switch e.Field {
		case "text":
			kind = "t"
		case "regex":
			kind = "c"
			// the parser builds the same node as for a bare pattern (name or content): the model's tree asks for kind t
			kt := "t\x00" + e.Text + "\x00"
			if !seen[kt] {
				seen[kt] = true
				cs := make([]bool, len(docs))
				ci := make([]bool, len(docs))
				for i := range docs {
					cs[i], _ = AtomTruth("text", e.Text, "", true, &docs[i])
					ci[i], _ = AtomTruth("text", e.Text, "", false, &docs[i])
				}
				rows = append(rows, fmt.Sprintf("t.%s.-.%s.%s", gen.Hex([]byte(e.Text)), Bits(cs), Bits(ci)))
			}
		case "content":
			kind = "c"
		case "file":
			kind = "f"
		case "sym":
			kind = "s"
		case "repo":
			kind = "r"
		case "branch":
			kind = "b"
		case "lang":
			c, ok := canonicalLang(e.Text)
			if !ok {
				return
			}
			kind, text = "l", c
		case "archived", "fork", "public":
			n := map[string]int{"publicyes": 1, "publicno": 2, "forkyes": 4, "forkno": 8, "archivedyes": 16, "archivedno": 32}[e.Field+e.Text]
			if n == 0 {
				okAll = false
				return
			}
			kind, text = "k", fmt.Sprint(n)
		case "meta":
			kind, name = "m", e.Name
		}
		k := kind + "\x00" + text + "\x00" + name
		if seen[k] {
			return
		}
		seen[k] = true
		cs := make([]bool, len(docs))
		ci := make([]bool, len(docs))
		for i := range docs {
			a, ok1 := AtomTruth(e.Field, e.Text, e.Name, true, &docs[i])
			b, ok2 := AtomTruth(e.Field, e.Text, e.Name, false, &docs[i])
			if !ok1 || !ok2 {
				okAll = false
			}
			cs[i], ci[i] = a, b
		}
		rows = append(rows, fmt.Sprintf("%s.%s.%s.%s.%s", kind, gen.Hex([]byte(text)), gen.Hex([]byte(name)), Bits(cs), Bits(ci)))
	})
	// a group written without blanks around one bare pattern — `(foo|bar)`, `((a))` — is one regexp token whose text
	// includes the parentheses; the parsed atom is keyed by that text, with the truth of the regexp it denotes.
	var walkQ func(Qy)
	var walkE func(*E)
	walkE = func(e *E) {
		switch e.Kind {
		case "neg":
			walkE(e.Sub)
		case "grp":
			if text, ok := oneTokenText(e); ok {
				k := "t\x00" + text + "\x00"
				if !seen[k] {
					seen[k] = true
					cs := make([]bool, len(docs))
					ci := make([]bool, len(docs))
					for i := range docs {
						cs[i], _ = AtomTruth("text", text, "", true, &docs[i])
						ci[i], _ = AtomTruth("text", text, "", false, &docs[i])
					}
					rows = append(rows, fmt.Sprintf("t.%s.-.%s.%s", gen.Hex([]byte(text)), Bits(cs), Bits(ci)))
				}
			}
			walkQ(e.Q)
		}
	}
	walkQ = func(q Qy) {
		for _, c := range q {
			for _, e := range c {
				walkE(e)
			}
		}
	}
	walkQ(q)
	if len(rows) == 0 {
		return "-", okAll
	}
	return strings.Join(rows, ","), okAll
}

// oneTokenText: a group written without blanks (outside quoted strings) is read by the tokenizer as one text token;
// its text (quotes and escapes processed) is what the parsed atom is keyed by.
func oneTokenText(e *E) (string, bool) {
	if e.Kind != "grp" || !tightAllTheWay(e) {
		return "", false
	}
	r := []byte(e.Render())
	tok, ok, err := query.VerifNextToken(r)
	if err != nil || !ok || len(tok.Input) != len(r) || tok.Type != 0 {
		return "", false
	}
	return string(tok.Text), true
}

// isBareTight: `(` … `)` without blanks around one bare unquoted pattern (or around such a group).
func isBareTight(e *E) bool {
	if e.Kind != "grp" || e.PadL || e.PadR || len(e.Q) != 1 || len(e.Q[0]) != 1 {
		return false
	}
	in := e.Q[0][0]
	if in.Kind == "atom" {
		return in.Field == "text" && !in.Quoted
	}
	return isBareTight(in)
}
