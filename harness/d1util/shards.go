// Package d1util: helpers shared by the C15 and C38 harnesses (reading documents back from real shards).
package d1util

import (
	"context"
	"fmt"
	"os"
	"path/filepath"
	"regexp/syntax"
	"sort"
	"strings"

	"github.com/sourcegraph/zoekt"
	"github.com/sourcegraph/zoekt/index"
	"github.com/sourcegraph/zoekt/query"
)

// Doc is one document as a searcher returns it.
type Doc struct {
	Name     string
	Content  []byte
	Branches []string
	Language string
	Symbols  []string // "line:sym:kind" of every symbol match (only filled by ReadDocsWithSymbols)
}

const NotIndexed = "NOT-INDEXED: "

// SkipTag maps the marker content of a skipped document to the tag the C15 model prints ("" = not a marker).
func SkipTag(content []byte) string {
	s := string(content)
	if !strings.HasPrefix(s, NotIndexed) {
		return ""
	}
	switch strings.TrimPrefix(s, NotIndexed) {
	case "exceeds the maximum size limit":
		return "large"
	case "contains too few trigrams":
		return "small"
	case "contains binary content":
		return "binary"
	case "contains too many trigrams":
		return "trigrams"
	case "object missing from repository":
		return "missing"
	}
	return "unknown"
}

// ShardFiles lists the *.zoekt files of a directory, sorted.
func ShardFiles(dir string) []string {
	m, _ := filepath.Glob(filepath.Join(dir, "*.zoekt"))
	sort.Strings(m)
	return m
}

// ReadDocs opens every shard of dir with the real reader and returns every document (whole content) by a
// constant-true search.
func ReadDocs(dir string) ([]Doc, error) {
	var out []Doc
	for _, fn := range ShardFiles(dir) {
		ds, err := ReadShard(fn, false)
		if err != nil {
			return nil, err
		}
		out = append(out, ds...)
	}
	return out, nil
}

func ReadDocsWithSymbols(dir string) ([]Doc, error) {
	var out []Doc
	for _, fn := range ShardFiles(dir) {
		ds, err := ReadShard(fn, true)
		if err != nil {
			return nil, err
		}
		out = append(out, ds...)
	}
	return out, nil
}

func ReadShard(fn string, symbols bool) ([]Doc, error) {
	f, err := os.Open(fn)
	if err != nil {
		return nil, err
	}
	ifile, err := index.NewIndexFile(f)
	if err != nil {
		f.Close()
		return nil, err
	}
	s, err := index.NewSearcher(ifile)
	if err != nil {
		ifile.Close()
		return nil, fmt.Errorf("NewSearcher(%s): %w", fn, err)
	}
	defer s.Close()
	opts := &zoekt.SearchOptions{Whole: true, ShardMaxMatchCount: 1 << 30, TotalMaxMatchCount: 1 << 30}
	res, err := s.Search(context.Background(), &query.Const{Value: true}, opts)
	if err != nil {
		return nil, err
	}
	var out []Doc
	byName := map[string][]int{}
	for _, fm := range res.Files {
		byName[fm.FileName] = append(byName[fm.FileName], len(out))
		// copy everything: the searcher hands out slices of the mmapped shard, which Close unmaps
		out = append(out, Doc{Name: strings.Clone(fm.FileName), Content: append([]byte{}, fm.Content...),
			Branches: append([]string(nil), fm.Branches...), Language: strings.Clone(fm.Language)})
	}
	if symbols {
		sres, err := s.Search(context.Background(), &query.Symbol{Expr: &query.Regexp{Regexp: mustParse(".")}},
			&zoekt.SearchOptions{ShardMaxMatchCount: 1 << 30, TotalMaxMatchCount: 1 << 30, ChunkMatches: true})
		if err != nil {
			return nil, err
		}
		for _, fm := range sres.Files {
			var syms []string
			for _, cm := range fm.ChunkMatches {
				for i, r := range cm.Ranges {
					kind := ""
					if i < len(cm.SymbolInfo) && cm.SymbolInfo[i] != nil {
						kind = cm.SymbolInfo[i].Sym + "/" + cm.SymbolInfo[i].Kind
					}
					syms = append(syms, fmt.Sprintf("%d:%d-%d:%s", r.Start.LineNumber, r.Start.ByteOffset, r.End.ByteOffset, kind))
				}
			}
			sort.Strings(syms)
			for _, i := range byName[fm.FileName] {
				out[i].Symbols = syms
			}
		}
	}
	return out, nil
}

func mustParse(re string) *syntax.Regexp {
	r, err := syntax.Parse(re, syntax.Perl)
	if err != nil {
		panic(err)
	}
	return r
}
