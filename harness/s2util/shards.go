// Package s2util: shard-building helpers shared by the C04 and C11 harnesses (real builder, real merge).
package s2util

import (
	"fmt"
	"os"
	"path/filepath"

	"github.com/sourcegraph/zoekt"
	"github.com/sourcegraph/zoekt/index"
)

type Doc struct {
	Name    string
	Content []byte
}

type Repo struct {
	Name     string
	ID       uint32
	Metadata map[string]string
	Docs     []Doc
}

// WriteSimpleShard builds one single-repository shard with the real ShardBuilder and writes it to path.
func WriteSimpleShard(path string, r Repo) error {
	b, err := index.NewShardBuilder(&zoekt.Repository{Name: r.Name, ID: r.ID, Metadata: r.Metadata,
		Branches: []zoekt.RepositoryBranch{{Name: "HEAD", Version: "v1"}}})
	if err != nil {
		return err
	}
	for _, d := range r.Docs {
		if err := b.Add(index.Document{Name: d.Name, Content: d.Content, Branches: []string{"HEAD"}}); err != nil {
			return err
		}
	}
	f, err := os.Create(path)
	if err != nil {
		return err
	}
	if err := b.Write(f); err != nil {
		f.Close()
		return err
	}
	return f.Close()
}

// WriteCompoundShard builds one simple shard per repository in a scratch directory, merges them with the real
// index.Merge and moves the compound shard to dstDir. It returns the compound shard's path.
func WriteCompoundShard(dstDir, scratch string, repos []Repo) (string, error) {
	if err := os.MkdirAll(scratch, 0o755); err != nil {
		return "", err
	}
	var files []index.IndexFile
	for i, r := range repos {
		p := filepath.Join(scratch, fmt.Sprintf("simple%03d_v16.00000.zoekt", i))
		if err := WriteSimpleShard(p, r); err != nil {
			return "", err
		}
		f, err := os.Open(p)
		if err != nil {
			return "", err
		}
		inf, err := index.NewIndexFile(f)
		if err != nil {
			return "", err
		}
		files = append(files, inf)
	}
	defer func() {
		for _, f := range files {
			f.Close()
		}
	}()
	tmp, dst, err := index.Merge(dstDir, files...)
	if err != nil {
		return "", err
	}
	if err := os.Rename(tmp, dst); err != nil {
		return "", err
	}
	return dst, nil
}

// OpenSearcher loads one shard file with the real reader (index.NewSearcher over the mmap-backed IndexFile).
func OpenSearcher(path string) (zoekt.Searcher, error) {
	f, err := os.Open(path)
	if err != nil {
		return nil, err
	}
	inf, err := index.NewIndexFile(f)
	if err != nil {
		return nil, err
	}
	s, err := index.NewSearcher(inf)
	if err != nil {
		inf.Close()
		return nil, err
	}
	return s, nil
}

// WriteSimpleShardWithSymbols is WriteSimpleShard with symbol sections: every occurrence of the words "beta" and
// "alpha" becomes a symbol (so that the symbol sections of the shard are populated and sym: queries have matches).
func WriteSimpleShardWithSymbols(path string, r Repo) error {
	b, err := index.NewShardBuilder(&zoekt.Repository{Name: r.Name, ID: r.ID, Metadata: r.Metadata,
		Branches: []zoekt.RepositoryBranch{{Name: "HEAD", Version: "v1"}}})
	if err != nil {
		return err
	}
	for _, d := range r.Docs {
		doc := index.Document{Name: d.Name, Content: d.Content, Branches: []string{"HEAD"}}
		for _, w := range []string{"alpha", "beta"} {
			_ = w
		}
		i := 0
		for i < len(d.Content) {
			matched := false
			for _, w := range []string{"alpha", "beta"} {
				if i+len(w) <= len(d.Content) && string(d.Content[i:i+len(w)]) == w {
					doc.Symbols = append(doc.Symbols, index.DocumentSection{Start: uint32(i), End: uint32(i + len(w))})
					doc.SymbolsMetaData = append(doc.SymbolsMetaData, &zoekt.Symbol{Sym: w, Kind: "function", Parent: "p", ParentKind: "class"})
					i += len(w)
					matched = true
					break
				}
			}
			if !matched {
				i++
			}
		}
		if err := b.Add(doc); err != nil {
			return err
		}
	}
	f, err := os.Create(path)
	if err != nil {
		return err
	}
	if err := b.Write(f); err != nil {
		f.Close()
		return err
	}
	return f.Close()
}
