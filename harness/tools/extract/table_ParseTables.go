package main

// ParseTables: the tokenizer tables of query/parse.go — the `prefixes` and `reservedWords` map literals and the
// tok* const block. Expected shape: `var prefixes = map[string]int{ "lit": tokIdent, ... }`, same for
// reservedWords; `const ( tokX = <int literal> ... )`. Used by C06/C07.

import (
	"fmt"
	"go/ast"
	"go/token"
	"strconv"
	"strings"
)

func init() { register("ParseTables", tableParseTables) }

func q2MapLiteral(f *file, name string) ([][2]string, error) {
	for _, d := range f.f.Decls {
		gd, ok := d.(*ast.GenDecl)
		if !ok || gd.Tok != token.VAR {
			continue
		}
		for _, s := range gd.Specs {
			vs := s.(*ast.ValueSpec)
			for i, n := range vs.Names {
				if n.Name != name || i >= len(vs.Values) {
					continue
				}
				cl, ok := vs.Values[i].(*ast.CompositeLit)
				if !ok {
					return nil, fmt.Errorf("%s is not a composite literal", name)
				}
				mt, ok := cl.Type.(*ast.MapType)
				if !ok || f.str(mt.Key) != "string" || f.str(mt.Value) != "int" {
					return nil, fmt.Errorf("%s is not a map[string]int literal", name)
				}
				var out [][2]string
				for _, e := range cl.Elts {
					kv, ok := e.(*ast.KeyValueExpr)
					if !ok {
						return nil, fmt.Errorf("%s: element is not key:value", name)
					}
					k, ok := kv.Key.(*ast.BasicLit)
					if !ok || k.Kind != token.STRING {
						return nil, fmt.Errorf("%s: key is not a string literal", name)
					}
					v, ok := kv.Value.(*ast.Ident)
					if !ok {
						return nil, fmt.Errorf("%s: value is not an identifier", name)
					}
					out = append(out, [2]string{unquote(k.Value), v.Name})
				}
				if len(out) == 0 {
					return nil, fmt.Errorf("%s is empty", name)
				}
				return out, nil
			}
		}
	}
	return nil, fmt.Errorf("map literal %s not found", name)
}

func tableParseTables(repo string) (string, error) {
	f, err := parseFile(repo, "query/parse.go")
	if err != nil {
		return "", err
	}
	// tok* constants with integer literal values
	kinds := map[string]int{}
	var kindOrder []string
	for _, d := range f.f.Decls {
		gd, ok := d.(*ast.GenDecl)
		if !ok || gd.Tok != token.CONST {
			continue
		}
		for _, s := range gd.Specs {
			vs := s.(*ast.ValueSpec)
			for i, n := range vs.Names {
				if !strings.HasPrefix(n.Name, "tok") {
					continue
				}
				if i >= len(vs.Values) {
					return "", fmt.Errorf("const %s has no explicit value (iota?): shape changed", n.Name)
				}
				bl, ok := vs.Values[i].(*ast.BasicLit)
				if !ok || bl.Kind != token.INT {
					return "", fmt.Errorf("const %s is not an integer literal", n.Name)
				}
				v, err := strconv.Atoi(bl.Value)
				if err != nil {
					return "", err
				}
				kinds[n.Name] = v
				kindOrder = append(kindOrder, n.Name)
			}
		}
	}
	if len(kindOrder) < 10 {
		return "", fmt.Errorf("found only %d tok* constants", len(kindOrder))
	}
	emit := func(name string, kv [][2]string) (string, error) {
		var parts []string
		for _, e := range kv {
			v, ok := kinds[e[1]]
			if !ok {
				return "", fmt.Errorf("%s: %q maps to unknown constant %s", name, e[0], e[1])
			}
			parts = append(parts, fmt.Sprintf("(%s, %d)", strconv.Quote(e[0]), v))
		}
		return fmt.Sprintf("def %s : List (String × Nat) := [%s]\n", name, strings.Join(parts, ", ")), nil
	}
	pre, err := q2MapLiteral(f, "prefixes")
	if err != nil {
		return "", err
	}
	res, err := q2MapLiteral(f, "reservedWords")
	if err != nil {
		return "", err
	}
	var sb strings.Builder
	sb.WriteString("namespace ZoektModel.Gen\n")
	s, err := emit("parsePrefixes", pre)
	if err != nil {
		return "", err
	}
	sb.WriteString(s)
	s, err = emit("parseReservedWords", res)
	if err != nil {
		return "", err
	}
	sb.WriteString(s)
	var parts []string
	for _, k := range kindOrder {
		parts = append(parts, fmt.Sprintf("(%s, %d)", strconv.Quote(k), kinds[k]))
	}
	sb.WriteString(fmt.Sprintf("def parseTokKinds : List (String × Nat) := [%s]\n", strings.Join(parts, ", ")))
	sb.WriteString("end ZoektModel.Gen\n")
	return sb.String(), nil
}
