package main

// QSwitchCases: the case lists of the type switches over query nodes that C07 depends on.
//   toProtoCases        – query/query_proto.go QToProto: `switch v := q.(type)`; must have a panicking default
//   fromProtoCases      – query/query_proto.go QFromProto: `switch v := p.Query.(type)`
//   newMatchTreeCases   – index/matchtree.go (*indexData).newMatchTree: the top-level `switch s := q.(type)`
//   newMatchTreeTypeArms– inside its `case *query.Type:` clause, the case constants of `switch s.Type { … }`
//                         (arms that build a match tree; anything else falls to the error return after the switch)
//   setCaserKinds       – receiver types in package query with a `setCase(string)` method
// Names are normalised: leading `*` and `query.`/`webserverv1.` qualifiers are stripped.

import (
	"fmt"
	"go/ast"
	"strings"
)

func init() { register("QSwitchCases", tableQSwitchCases) }

func q2Norm(s string) string {
	s = strings.TrimPrefix(s, "*")
	s = strings.TrimPrefix(s, "query.")
	s = strings.TrimPrefix(s, "webserverv1.")
	return s
}

func q2FirstTypeSwitch(f *file, fd *ast.FuncDecl) (*ast.TypeSwitchStmt, error) {
	for _, st := range fd.Body.List {
		if ts, ok := st.(*ast.TypeSwitchStmt); ok {
			return ts, nil
		}
	}
	return nil, fmt.Errorf("%s: no top-level type switch", fd.Name.Name)
}

func q2Cases(f *file, ts *ast.TypeSwitchStmt) (cases []string, hasDefault bool, clauses map[string]*ast.CaseClause) {
	clauses = map[string]*ast.CaseClause{}
	for _, c := range ts.Body.List {
		cc := c.(*ast.CaseClause)
		if cc.List == nil {
			hasDefault = true
			clauses["default"] = cc
		}
		for _, t := range cc.List {
			n := q2Norm(f.str(t))
			cases = append(cases, n)
			clauses[n] = cc
		}
	}
	return
}

func tableQSwitchCases(repo string) (string, error) {
	var sb strings.Builder
	sb.WriteString("namespace ZoektModel.Gen\n")

	qp, err := parseFile(repo, "query/query_proto.go")
	if err != nil {
		return "", err
	}
	for _, it := range []struct{ fn, lean string }{{"QToProto", "toProtoCases"}, {"QFromProto", "fromProtoCases"}} {
		fd := qp.funcDecl(it.fn)
		if fd == nil {
			return "", fmt.Errorf("%s not found", it.fn)
		}
		ts, err := q2FirstTypeSwitch(qp, fd)
		if err != nil {
			return "", err
		}
		cases, hasDefault, clauses := q2Cases(qp, ts)
		if len(cases) < 10 || !hasDefault {
			return "", fmt.Errorf("%s: expected a type switch with ≥10 cases and a default, got %d/%v", it.fn, len(cases), hasDefault)
		}
		// QToProto's default clause panics (the model's Outcome.panic for kinds without a case); since the fix
		// "QFromProto returns an error for a missing query or an unset oneof" QFromProto's default returns an error.
		def := qp.str(clauses["default"])
		if it.fn == "QToProto" && !strings.Contains(def, "panic(") {
			return "", fmt.Errorf("%s: default clause no longer panics; re-read the function and update the model", it.fn)
		}
		if it.fn == "QFromProto" && (strings.Contains(def, "panic(") || !strings.Contains(def, "return nil, ")) {
			return "", fmt.Errorf("%s: default clause no longer returns an error; re-read the function and update the model", it.fn)
		}
		sb.WriteString(fmt.Sprintf("def %s : List String := %s\n", it.lean, leanStrList(cases)))
	}

	mt, err := parseFile(repo, "index/matchtree.go")
	if err != nil {
		return "", err
	}
	fd := mt.funcDecl("(*indexData).newMatchTree")
	if fd == nil {
		return "", fmt.Errorf("newMatchTree not found")
	}
	ts, err := q2FirstTypeSwitch(mt, fd)
	if err != nil {
		return "", err
	}
	cases, hasDefault, clauses := q2Cases(mt, ts)
	if len(cases) < 10 || hasDefault {
		return "", fmt.Errorf("newMatchTree: expected a type switch with ≥10 cases and no default, got %d/%v", len(cases), hasDefault)
	}
	// after the switch: log.Panicf
	last := mt.str(fd.Body)
	if !strings.Contains(last, "log.Panicf(\"type %T\", q)") {
		return "", fmt.Errorf("newMatchTree: the fall-through log.Panicf is gone; re-read the function and update the model")
	}
	sb.WriteString(fmt.Sprintf("def newMatchTreeCases : List String := %s\n", leanStrList(cases)))
	tc, ok := clauses["Type"]
	if !ok {
		return "", fmt.Errorf("newMatchTree: no case *query.Type")
	}
	var arms []string
	var inner *ast.SwitchStmt
	for _, st := range tc.Body {
		if sw, ok := st.(*ast.SwitchStmt); ok && sw.Tag != nil && mt.str(sw.Tag) == "s.Type" {
			inner = sw
		}
	}
	if inner == nil {
		return "", fmt.Errorf("newMatchTree: case *query.Type has no `switch s.Type` (shape changed: every type must be handled or rejected without leaving the outer switch)")
	}
	for _, c := range inner.Body.List {
		cc := c.(*ast.CaseClause)
		if cc.List == nil {
			return "", fmt.Errorf("newMatchTree: `switch s.Type` grew a default clause; update the model")
		}
		body := mt.str(cc)
		if !strings.Contains(body, "return") || strings.Contains(body, "break") {
			return "", fmt.Errorf("newMatchTree: an arm of `switch s.Type` does not return")
		}
		for _, t := range cc.List {
			arms = append(arms, q2Norm(mt.str(t)))
		}
	}
	// the clause must end in a return (no way to reach log.Panicf from a *query.Type)
	if len(tc.Body) == 0 {
		return "", fmt.Errorf("newMatchTree: empty Type clause")
	}
	if _, ok := tc.Body[len(tc.Body)-1].(*ast.ReturnStmt); !ok {
		return "", fmt.Errorf("newMatchTree: case *query.Type does not end in a return")
	}
	sb.WriteString(fmt.Sprintf("def newMatchTreeTypeArms : List String := %s\n", leanStrList(arms)))

	// setCase receivers
	qfiles, err := parseDir(repo, "query")
	if err != nil {
		return "", err
	}
	var setCasers []string
	for _, f := range qfiles {
		for _, d := range f.f.Decls {
			fd, ok := d.(*ast.FuncDecl)
			if !ok || fd.Recv == nil || fd.Name.Name != "setCase" {
				continue
			}
			setCasers = append(setCasers, q2Norm(f.str(fd.Recv.List[0].Type)))
		}
	}
	if len(setCasers) == 0 {
		return "", fmt.Errorf("no setCase methods found")
	}
	sb.WriteString(fmt.Sprintf("def setCaserKinds : List String := %s\n", leanStrList(setCasers)))
	sb.WriteString("end ZoektModel.Gen\n")
	return sb.String(), nil
}
