package main

import (
	"fmt"
	"go/ast"
	"strings"
)

// C31LockSites: which operations of cmd/zoekt-sourcegraph-indexserver run under which lock of the index directory.
//
//	c31WithKeys  (enclosing function, key expression) of every `….muIndexDir.With(key, f)` call
//	c31Globals   enclosing function of every `….muIndexDir.Global(f)` call
//	c31DirOps    (enclosing function, operation, lock) for every call of an operation that works on the index directory —
//	             index (the index job), cleanup, removeTombstones, purgeTenantShards, explodeTenantCompoundShards,
//	             loadCandidates, mergeCmd — where lock is "With" / "Global" if the call is lexically inside the function
//	             literal passed to that method, "none" otherwise
//
// Expected shape: at least two With sites (the queue worker and the forced re-index) and at least four Global sites
// (periodic cleanup, vacuum, merge, data deletion); every listed operation is called somewhere.
func init() {
	register("C31LockSites", func(repo string) (string, error) {
		files, err := parseDir(repo, "cmd/zoekt-sourcegraph-indexserver")
		if err != nil {
			return "", err
		}
		ops := map[string]bool{"index": true, "cleanup": true, "removeTombstones": true, "purgeTenantShards": true,
			"explodeTenantCompoundShards": true, "loadCandidates": true, "mergeCmd": true}
		seenOp := map[string]bool{}
		var withRows, globalRows, opRows []string
		for _, f := range files {
			for _, d := range f.f.Decls {
				fn, ok := d.(*ast.FuncDecl)
				if !ok || fn.Body == nil {
					continue
				}
				name := fn.Name.Name
				var walk func(n ast.Node, lock string)
				walk = func(n ast.Node, lock string) {
					ast.Inspect(n, func(x ast.Node) bool {
						call, ok := x.(*ast.CallExpr)
						if !ok {
							return true
						}
						if sel, ok := call.Fun.(*ast.SelectorExpr); ok {
							if inner, ok := sel.X.(*ast.SelectorExpr); ok && inner.Sel.Name == "muIndexDir" && (sel.Sel.Name == "With" || sel.Sel.Name == "Global") {
								if sel.Sel.Name == "With" {
									if len(call.Args) != 2 {
										return true
									}
									withRows = append(withRows, fmt.Sprintf("  (%q, %q)", name, f.str(call.Args[0])))
								} else {
									globalRows = append(globalRows, fmt.Sprintf("  %q", name))
								}
								for _, a := range call.Args {
									if lit, ok := a.(*ast.FuncLit); ok {
										walk(lit.Body, sel.Sel.Name)
									} else {
										walk(a, lock)
									}
								}
								return false
							}
						}
						callee := ""
						switch fun := call.Fun.(type) {
						case *ast.Ident:
							callee = fun.Name
						case *ast.SelectorExpr:
							callee = fun.Sel.Name
						}
						if ops[callee] && callee != name {
							seenOp[callee] = true
							opRows = append(opRows, fmt.Sprintf("  (%q, %q, %q)", name, callee, lock))
						}
						return true
					})
				}
				walk(fn.Body, "none")
			}
		}
		if len(withRows) < 2 || len(globalRows) < 4 {
			return "", fmt.Errorf("expected >= 2 muIndexDir.With and >= 4 muIndexDir.Global call sites, found %d and %d: the locking moved", len(withRows), len(globalRows))
		}
		for op := range ops {
			if !seenOp[op] {
				return "", fmt.Errorf("operation %s is not called anywhere any more: the table of directory operations is out of date", op)
			}
		}
		var sb strings.Builder
		sb.WriteString("namespace ZoektModel.Gen\n\n")
		sb.WriteString("/-- (enclosing function, key expression) of every muIndexDir.With call -/\ndef c31WithKeys : List (String × String) := [\n" + strings.Join(withRows, ",\n") + "\n]\n\n")
		sb.WriteString("/-- enclosing function of every muIndexDir.Global call -/\ndef c31Globals : List String := [\n" + strings.Join(globalRows, ",\n") + "\n]\n\n")
		sb.WriteString("/-- (enclosing function, directory operation, lock it is called under) -/\ndef c31DirOps : List (String × String × String) := [\n" + strings.Join(opRows, ",\n") + "\n]\n\nend ZoektModel.Gen\n")
		return sb.String(), nil
	})
}
