package main

import (
	"fmt"
	"go/ast"
	"math/big"
	"strings"
)

// C29Consts: the scoring constants as exact fractions. Expected shape: the named constants are basic literals in
// const blocks of index/contentprovider.go and index/score.go; `k, b := 1.2, 0.75` in scoreLineBM25 and scoreFileBM25;
// SortFiles calls boostNovelExtension(ms, <int literal>, <float literal>); tfs are divided by the literal 100.0 line length.
func init() {
	register("C29Consts", func(repo string) (string, error) {
		files, err := parseDir(repo, "index")
		if err != nil {
			return "", err
		}
		type row struct{ name, lit string }
		var rows []row
		for _, n := range []string{"scorePartialWordMatch", "scoreWordMatch", "scoreBase", "scorePartialBase", "scoreSymbol", "scorePartialSymbol",
			"scoreKindMatch", "scoreFactorAtomMatch", "scoreLineOrderFactor", "scoreRepoRankFactor", "scoreFileOrderFactor", "ScoreOffset",
			"importantTermBoost", "lowPriorityFilePenalty"} {
			v, err := constValue(files, n)
			if err != nil {
				return "", err
			}
			rows = append(rows, row{n, v})
		}
		// k, b := 1.2, 0.75 in both BM25 functions
		for _, fn := range []string{"(*contentProvider).scoreLineBM25", "(*indexData).scoreFileBM25"} {
			f, fd := findFunc(files, fn)
			if fd == nil {
				return "", fmt.Errorf("function %s not found", fn)
			}
			found := false
			ast.Inspect(fd.Body, func(n ast.Node) bool {
				as, ok := n.(*ast.AssignStmt)
				if !ok || len(as.Lhs) != 2 || len(as.Rhs) != 2 {
					return true
				}
				if f.str(as.Lhs[0]) == "k" && f.str(as.Lhs[1]) == "b" {
					rows = append(rows, row{fn + ".k", f.str(as.Rhs[0])}, row{fn + ".b", f.str(as.Rhs[1])})
					found = true
				}
				return true
			})
			if !found {
				return "", fmt.Errorf("%s: `k, b := …` not found", fn)
			}
		}
		// SortFiles: boostNovelExtension(ms, 2, 0.9)
		{
			f, fd := findFunc(files, "SortFiles")
			if fd == nil {
				return "", fmt.Errorf("SortFiles not found")
			}
			found := false
			ast.Inspect(fd.Body, func(n ast.Node) bool {
				ce, ok := n.(*ast.CallExpr)
				if ok && f.str(ce.Fun) == "boostNovelExtension" && len(ce.Args) == 3 {
					rows = append(rows, row{"SortFiles.boostOffset", f.str(ce.Args[1])}, row{"SortFiles.minScoreRatio", f.str(ce.Args[2])})
					found = true
				}
				return true
			})
			if !found {
				return "", fmt.Errorf("SortFiles no longer calls boostNovelExtension(ms, offset, ratio)")
			}
		}
		var out []string
		for _, r := range rows {
			lit := strings.ReplaceAll(r.lit, "_", "")
			q, ok := new(big.Rat).SetString(lit)
			if !ok {
				return "", fmt.Errorf("constant %s = %q is not a numeric literal", r.name, r.lit)
			}
			out = append(out, fmt.Sprintf("  (%q, (%s : Int), (%s : Nat))", r.name, q.Num().String(), q.Denom().String()))
		}
		var sb strings.Builder
		sb.WriteString("namespace ZoektModel.Gen\n\n")
		sb.WriteString("/-- scoring constants of index/contentprovider.go and index/score.go as exact fractions (name, num, den) -/\n")
		sb.WriteString("def c29Consts : List (String × Int × Nat) := [\n")
		sb.WriteString(strings.Join(out, ",\n"))
		sb.WriteString("\n]\n\nend ZoektModel.Gen\n")
		return sb.String(), nil
	})
}
