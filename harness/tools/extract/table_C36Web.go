package main

// Table C36Web: what html/template does with zoekt's web templates, and what package web could do to bypass it.
//
//	c36Actions        (template, action source, escaper functions html/template inserted) for every {{action}} of every
//	                  template reachable from web.Top, read back from the rewritten parse trees after escaping
//	                  (including the context-specific copies "name$htmltemplate_…" that html/template derives)
//	c36IntActions     the actions whose value is an int by the Go types of the data structs (checked by reflection)
//	c36TemplateImports  import path of the package that parses web.Top (must be html/template)
//	c36BypassUses     occurrences in package web of the types that switch escaping off
//	                  (template.HTML, HTMLAttr, JS, JSStr, CSS, URL, Srcset)
//	c36TextTemplateUses  identifiers of package web bound to text/template, with the functions they are used in
//
// Expected shapes: web.Top is an *html/template.Template whose templates all escape without error; the derived template
// set is reachable through the unexported `text` field (read with reflect/unsafe — the only way to see what html/template
// did to `{{template "q" .}}` inside an href).

import (
	"fmt"
	"go/ast"
	htmltemplate "html/template"
	"io"
	"reflect"
	"sort"
	"strconv"
	"strings"
	texttemplate "text/template"
	"text/template/parse"
	"unsafe"

	"github.com/sourcegraph/zoekt/web"
)

func init() { register("C36Web", tableC36Web) }

func c36Walk(n parse.Node, f func(parse.Node)) {
	if n == nil {
		return
	}
	switch x := n.(type) {
	case *parse.ListNode:
		if x == nil {
			return
		}
		for _, c := range x.Nodes {
			c36Walk(c, f)
		}
		return
	case *parse.IfNode:
		f(n)
		c36Walk(x.List, f)
		c36Walk(x.ElseList, f)
		return
	case *parse.RangeNode:
		f(n)
		c36Walk(x.List, f)
		c36Walk(x.ElseList, f)
		return
	case *parse.WithNode:
		f(n)
		c36Walk(x.List, f)
		c36Walk(x.ElseList, f)
		return
	}
	f(n)
}

func tableC36Web(repo string) (string, error) {
	// the compiled-in package is the working tree's (the harness module replaces zoekt by -repo's tree); refuse a mismatch
	top := web.Top
	if reflect.TypeOf(top) != reflect.TypeOf((*htmltemplate.Template)(nil)) {
		return "", fmt.Errorf("web.Top is a %T, not *html/template.Template", top)
	}
	roots := []string{"results", "repolist", "print", "search", "about", "robots"}
	for _, name := range roots {
		t := top.Lookup(name)
		if t == nil {
			return "", fmt.Errorf("template %q missing from web.Top", name)
		}
		// html/template escapes on first execution; the data-dependent execution error that follows is irrelevant
		err := t.Execute(io.Discard, nil)
		if err != nil && strings.Contains(err.Error(), "html/template") && !strings.Contains(err.Error(), "executing") {
			return "", fmt.Errorf("template %q does not escape: %v", name, err)
		}
	}
	// the underlying text/template set holds the derived templates
	f := reflect.ValueOf(top).Elem().FieldByName("text")
	if !f.IsValid() || f.Kind() != reflect.Ptr {
		return "", fmt.Errorf("html/template.Template has no field text")
	}
	txt := *(**texttemplate.Template)(unsafe.Pointer(f.UnsafeAddr()))
	if txt == nil {
		return "", fmt.Errorf("html/template.Template.text is nil")
	}
	type action struct{ tmpl, src string; funcs []string }
	var actions []action
	called := map[string]bool{}
	for _, r := range roots {
		called[r] = true
	}
	var tmpls []*texttemplate.Template
	for _, t := range txt.Templates() {
		tmpls = append(tmpls, t)
	}
	sort.Slice(tmpls, func(i, j int) bool { return tmpls[i].Name() < tmpls[j].Name() })
	// templates reachable from the roots through {{template}} calls (an unescaped original such as "q" is never executed)
	byName := map[string]*texttemplate.Template{}
	for _, t := range tmpls {
		byName[t.Name()] = t
	}
	for changed := true; changed; {
		changed = false
		for name := range called {
			t := byName[name]
			if t == nil || t.Tree == nil {
				continue
			}
			c36Walk(t.Tree.Root, func(n parse.Node) {
				if tn, ok := n.(*parse.TemplateNode); ok && !called[tn.Name] {
					called[tn.Name] = true
					changed = true
				}
			})
		}
	}
	for _, t := range tmpls {
		if !called[t.Name()] || t.Tree == nil {
			continue
		}
		c36Walk(t.Tree.Root, func(n parse.Node) {
			a, ok := n.(*parse.ActionNode)
			if !ok {
				return
			}
			var src, funcs []string
			for _, c := range a.Pipe.Cmds {
				s := c.String()
				if strings.HasPrefix(s, "_html_template_") {
					funcs = append(funcs, s)
				} else {
					src = append(src, s)
				}
			}
			text := strings.Join(src, " | ")
			if len(a.Pipe.Decl) > 0 {
				// a variable declaration writes nothing to the page; html/template leaves it alone
				text = a.Pipe.Decl[0].String() + " := " + text
				if len(funcs) == 0 {
					funcs = []string{"declaration"}
				}
			}
			actions = append(actions, action{t.Name(), text, funcs})
		})
	}
	if len(actions) < 60 {
		return "", fmt.Errorf("only %d actions found in the web templates", len(actions))
	}
	for _, name := range roots {
		if byName[name] == nil {
			return "", fmt.Errorf("template %q not in the text template set", name)
		}
	}

	// int-valued actions, by the types of the data structs
	intFields := [][2]string{}
	for _, c := range []struct {
		action string
		typ    reflect.Type
		path   []string
	}{
		{".Last.Num", reflect.TypeOf(web.ResultInput{}), []string{"Last", "Num"}},
	} {
		t := c.typ
		for _, p := range c.path {
			sf, ok := t.FieldByName(p)
			if !ok {
				return "", fmt.Errorf("%s: no field %s", c.typ, p)
			}
			t = sf.Type
		}
		intFields = append(intFields, [2]string{c.action, t.Kind().String()})
	}

	// static scan of package web
	files, err := parseDir(repo, "web")
	if err != nil {
		return "", err
	}
	bypassTypes := map[string]bool{"HTML": true, "HTMLAttr": true, "JS": true, "JSStr": true, "CSS": true, "URL": true, "Srcset": true}
	var bypass, textUses, topImports []string
	for _, f := range files {
		htmlNames, textNames := map[string]bool{}, map[string]bool{}
		for _, im := range f.f.Imports {
			path, _ := strconv.Unquote(im.Path.Value)
			name := path[strings.LastIndex(path, "/")+1:]
			if im.Name != nil {
				name = im.Name.Name
			}
			switch path {
			case "html/template":
				htmlNames[name] = true
			case "text/template":
				textNames[name] = true
			}
		}
		fname := f.fset.Position(f.f.Pos()).Filename
		fname = fname[strings.LastIndex(fname, "/")+1:]
		ast.Inspect(f.f, func(n ast.Node) bool {
			se, ok := n.(*ast.SelectorExpr)
			if !ok {
				return true
			}
			id, ok := se.X.(*ast.Ident)
			if !ok {
				return true
			}
			if htmlNames[id.Name] && bypassTypes[se.Sel.Name] {
				bypass = append(bypass, fmt.Sprintf("%s:%d %s.%s", fname, f.fset.Position(se.Pos()).Line, id.Name, se.Sel.Name))
			}
			if textNames[id.Name] {
				textUses = append(textUses, fmt.Sprintf("%s %s.%s", fname, id.Name, se.Sel.Name))
			}
			return true
		})
		// var Top = template.New("top")…
		for _, d := range f.f.Decls {
			gd, ok := d.(*ast.GenDecl)
			if !ok {
				continue
			}
			for _, sp := range gd.Specs {
				vs, ok := sp.(*ast.ValueSpec)
				if !ok {
					continue
				}
				for i, n := range vs.Names {
					if n.Name != "Top" || i >= len(vs.Values) {
						continue
					}
					ast.Inspect(vs.Values[i], func(x ast.Node) bool {
						if se, ok := x.(*ast.SelectorExpr); ok {
							if id, ok := se.X.(*ast.Ident); ok && se.Sel.Name == "New" {
								switch {
								case htmlNames[id.Name]:
									topImports = append(topImports, "html/template")
								case textNames[id.Name]:
									topImports = append(topImports, "text/template")
								}
							}
						}
						return true
					})
				}
			}
		}
	}
	if len(topImports) == 0 {
		return "", fmt.Errorf("`var Top = template.New(…)` not found in package web")
	}
	sort.Strings(textUses)
	textUses = compactStrings(textUses)

	var sb strings.Builder
	sb.WriteString("namespace ZoektModel.Gen\n\n")
	sb.WriteString("def c36Actions : List (String × String × List String) := [\n")
	for i, a := range actions {
		sep := ","
		if i == len(actions)-1 {
			sep = ""
		}
		fmt.Fprintf(&sb, "  (%s, %s, %s)%s\n", strconv.Quote(a.tmpl), strconv.Quote(a.src), leanStrList(a.funcs), sep)
	}
	sb.WriteString("]\n")
	pairs := make([]string, len(intFields))
	for i, p := range intFields {
		pairs[i] = fmt.Sprintf("(%s, %s)", strconv.Quote(p[0]), strconv.Quote(p[1]))
	}
	fmt.Fprintf(&sb, "def c36IntActions : List (String × String) := [%s]\n", strings.Join(pairs, ", "))
	fmt.Fprintf(&sb, "def c36TemplateImports : List String := %s\n", leanStrList(topImports))
	fmt.Fprintf(&sb, "def c36BypassUses : List String := %s\n", leanStrList(bypass))
	fmt.Fprintf(&sb, "def c36TextTemplateUses : List String := %s\n", leanStrList(textUses))
	sb.WriteString("\nend ZoektModel.Gen\n")
	return sb.String(), nil
}

func compactStrings(xs []string) []string {
	var out []string
	for i, x := range xs {
		if i == 0 || x != xs[i-1] {
			out = append(out, x)
		}
	}
	return out
}
