package main

import (
	"fmt"
	"strings"
)

// C23Fields: every field (name, type) of the structs through which a search or a listing returns data:
// SearchResult, FileMatch, RepoList, RepoListEntry, MinimalRepoListEntry and the statistics structs embedded in them.
// Expected shape: all are struct types declared in api.go; SearchResult has the fields Files, RepoURLs and
// LineFragments and RepoList has Repos and ReposMap (the channels the C23 theorems are about).
func init() {
	register("C23Fields", func(repo string) (string, error) {
		f, err := parseFile(repo, "api.go")
		if err != nil {
			return "", err
		}
		files := []*file{f}
		structs := []string{"SearchResult", "FileMatch", "RepoList", "RepoListEntry", "MinimalRepoListEntry", "Stats", "Progress", "RepoStats"}
		var rows []string
		have := map[string]bool{}
		for _, st := range structs {
			names, types, err := structFields(files, st)
			if err != nil {
				return "", err
			}
			if len(names) == 0 {
				return "", fmt.Errorf("struct %s has no fields", st)
			}
			for i := range names {
				have[st+"."+names[i]] = true
				rows = append(rows, fmt.Sprintf("  (%q, %q, %q)", st, names[i], types[i]))
			}
		}
		for _, must := range []string{"SearchResult.Files", "SearchResult.RepoURLs", "SearchResult.LineFragments", "RepoList.Repos", "RepoList.ReposMap",
			"FileMatch.Repository", "FileMatch.FileName", "RepoListEntry.Repository"} {
			if !have[must] {
				return "", fmt.Errorf("expected field %s is gone: the result types changed shape", must)
			}
		}
		var sb strings.Builder
		sb.WriteString("namespace ZoektModel.Gen\n\n")
		sb.WriteString("/-- (struct, field, Go type) of every field of the result types of Search and List (api.go) -/\n")
		sb.WriteString("def c23Fields : List (String × String × String) := [\n")
		sb.WriteString(strings.Join(rows, ",\n"))
		sb.WriteString("\n]\n\nend ZoektModel.Gen\n")
		return sb.String(), nil
	})
}
