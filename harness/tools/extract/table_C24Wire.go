package main

// Table C24Wire: facts about the wire converters (query/query_proto.go, api_proto.go) for property C24.
//   Gen.C24.qKinds          exported types of package query that implement Q (have a String() string method)
//   Gen.C24.toProtoCases    (Go kind, oneof arm built in that case) for every case of QToProto's type switch
//   Gen.C24.fromProtoCases  (oneof arm, Go kind constructed) for every case of QFromProto's type switch
//   Gen.C24.oneofArms       every arm of the protobuf oneof Q.query (types with an isQ_Query method)
//   Gen.C24.toProtoDefaultPanics / fromProtoDefaultPanics / fromProtoChecksNil   shape of the two switches
//   Gen.C24.fieldTable      per converted struct: its fields, the fields read by ToProto, the fields written by FromProto
//   Gen.C24.protoFieldTable per protobuf message: its fields, the fields set by ToProto, the fields read by FromProto

import (
	"fmt"
	"go/ast"
	"go/token"
	"sort"
	"strings"
)

func init() { register("C24Wire", tableC24Wire) }

type convPair struct {
	goType   string // zoekt / query struct
	pkgDir   string
	toProto  string // method name "(*T).ToProto" or func
	fromFunc string
	protoMsg string
}

func leanPairList(xs [][2]string) string {
	var p []string
	for _, x := range xs {
		p = append(p, fmt.Sprintf("(%q, %q)", x[0], x[1]))
	}
	return "[" + strings.Join(p, ", ") + "]"
}

// compositeKeys returns the keys of the first composite literal of type typ (T, &T, pkg.T) inside node.
func compositeKeys(f *file, node ast.Node, typ string) ([]string, bool) {
	var keys []string
	found := false
	ast.Inspect(node, func(n ast.Node) bool {
		cl, ok := n.(*ast.CompositeLit)
		if !ok || cl.Type == nil {
			return true
		}
		t := f.str(cl.Type)
		if i := strings.LastIndex(t, "."); i >= 0 {
			t = t[i+1:]
		}
		if t != typ {
			return true
		}
		found = true
		var ks []string
		for _, e := range cl.Elts {
			if kv, ok := e.(*ast.KeyValueExpr); ok {
				ks = append(ks, f.str(kv.Key))
			}
		}
		if len(ks) > len(keys) { // the literal with the most keys (error paths return an empty one)
			keys = ks
		}
		return true
	})
	return keys, found
}

// getterCalls lists X for every call p.GetX() (or field p.X) on identifier p inside node.
func getterCalls(node ast.Node, p string) []string {
	seen := map[string]bool{}
	var out []string
	for _, s := range selectorsOn(node, p) {
		s = strings.TrimPrefix(s, "Get")
		if !seen[s] {
			seen[s] = true
			out = append(out, s)
		}
	}
	return out
}

func pbMessageFields(files []*file, msg string) ([]string, error) {
	names, _, err := structFields(files, msg)
	if err != nil {
		return nil, err
	}
	var out []string
	for _, n := range names {
		if n == "state" || n == "sizeCache" || n == "unknownFields" {
			continue
		}
		out = append(out, n)
	}
	return out, nil
}

func tableC24Wire(repo string) (string, error) {
	qfiles, err := parseDir(repo, "query")
	if err != nil {
		return "", err
	}
	zfiles, err := parseDir(repo, ".")
	if err != nil {
		return "", err
	}
	pbfiles, err := parseDir(repo, "grpc/protos/zoekt/webserver/v1")
	if err != nil {
		return "", err
	}

	// ---- qKinds: exported types with a String() string method
	var qKinds []string
	for _, f := range qfiles {
		for _, d := range f.f.Decls {
			fd, ok := d.(*ast.FuncDecl)
			if !ok || fd.Recv == nil || fd.Name.Name != "String" || len(fd.Type.Params.List) != 0 {
				continue
			}
			if fd.Type.Results == nil || len(fd.Type.Results.List) != 1 || f.str(fd.Type.Results.List[0].Type) != "string" {
				continue
			}
			t := strings.TrimPrefix(f.str(fd.Recv.List[0].Type), "*")
			if ast.IsExported(t) {
				qKinds = append(qKinds, t)
			}
		}
	}
	sort.Strings(qKinds)
	if len(qKinds) < 15 {
		return "", fmt.Errorf("expected at least 15 exported query kinds with a String method, found %v", qKinds)
	}

	// ---- the two type switches
	pf, toFn := findFunc(qfiles, "QToProto")
	_, fromFn := findFunc(qfiles, "QFromProto")
	if toFn == nil || fromFn == nil {
		return "", fmt.Errorf("QToProto / QFromProto not found in package query")
	}
	_, toSw := pf.typeSwitchCases(toFn, 0)
	_, fromSw := pf.typeSwitchCases(fromFn, 0)
	if toSw == nil || fromSw == nil {
		return "", fmt.Errorf("QToProto / QFromProto no longer contain a type switch")
	}
	armOf := func(n ast.Node) string { // first webserverv1.Q_Xxx mentioned
		arm := ""
		ast.Inspect(n, func(x ast.Node) bool {
			if se, ok := x.(*ast.SelectorExpr); ok && arm == "" && strings.HasPrefix(se.Sel.Name, "Q_") {
				arm = strings.TrimPrefix(se.Sel.Name, "Q_")
			}
			return arm == ""
		})
		return arm
	}
	containsPanic := func(stmts []ast.Stmt) bool {
		p := false
		for _, s := range stmts {
			ast.Inspect(s, func(x ast.Node) bool {
				if c, ok := x.(*ast.CallExpr); ok {
					if id, ok := c.Fun.(*ast.Ident); ok && id.Name == "panic" {
						p = true
					}
				}
				return true
			})
		}
		return p
	}
	var toCases, fromCases [][2]string
	toDefaultPanics, fromDefaultPanics := false, false
	sawToDefault, sawFromDefault := false, false
	for _, c := range toSw.Body.List {
		cc := c.(*ast.CaseClause)
		if cc.List == nil {
			sawToDefault = true
			toDefaultPanics = containsPanic(cc.Body)
			continue
		}
		for _, t := range cc.List {
			kind := strings.TrimPrefix(pf.str(t), "*")
			arm := ""
			for _, s := range cc.Body {
				if a := armOf(s); a != "" {
					arm = a
					break
				}
			}
			toCases = append(toCases, [2]string{kind, arm})
		}
	}
	for _, c := range fromSw.Body.List {
		cc := c.(*ast.CaseClause)
		if cc.List == nil {
			sawFromDefault = true
			fromDefaultPanics = containsPanic(cc.Body)
			continue
		}
		for _, t := range cc.List {
			arm := armOf(t)
			// the Go kind constructed: XxxFromProto(...) or &Xxx{...}
			kind := ""
			for _, s := range cc.Body {
				ast.Inspect(s, func(x ast.Node) bool {
					if kind != "" {
						return false
					}
					switch v := x.(type) {
					case *ast.CallExpr:
						if id, ok := v.Fun.(*ast.Ident); ok && strings.HasSuffix(id.Name, "FromProto") {
							kind = strings.TrimSuffix(id.Name, "FromProto")
						}
					case *ast.CompositeLit:
						if id, ok := v.Type.(*ast.Ident); ok {
							kind = id.Name
						}
					}
					return true
				})
			}
			fromCases = append(fromCases, [2]string{arm, kind})
		}
	}
	if len(toCases) < 15 || len(fromCases) < 15 || !sawToDefault || !sawFromDefault {
		return "", fmt.Errorf("unexpected shape of the QToProto/QFromProto switches: %d/%d cases", len(toCases), len(fromCases))
	}
	// does QFromProto test p == nil before the switch?
	checksNil := false
	for _, s := range fromFn.Body.List {
		if _, ok := s.(*ast.TypeSwitchStmt); ok {
			break
		}
		if is, ok := s.(*ast.IfStmt); ok {
			c := pf.str(is.Cond)
			if strings.Contains(c, "== nil") {
				checksNil = true
			}
		}
	}

	// ---- oneof arms
	var arms []string
	for _, f := range pbfiles {
		for _, d := range f.f.Decls {
			fd, ok := d.(*ast.FuncDecl)
			if ok && fd.Recv != nil && fd.Name.Name == "isQ_Query" {
				arms = append(arms, strings.TrimPrefix(strings.TrimPrefix(f.str(fd.Recv.List[0].Type), "*"), "Q_"))
			}
		}
	}
	if len(arms) < 15 {
		return "", fmt.Errorf("expected the oneof arms of Q in query.pb.go, found %v", arms)
	}

	// ---- field tables
	pairs := []convPair{
		{"FileMatch", ".", "(*FileMatch).ToProto", "FileMatchFromProto", "FileMatch"},
		{"ChunkMatch", ".", "(*ChunkMatch).ToProto", "ChunkMatchFromProto", "ChunkMatch"},
		{"Range", ".", "(*Range).ToProto", "RangeFromProto", "Range"},
		{"Location", ".", "(*Location).ToProto", "LocationFromProto", "Location"},
		{"LineMatch", ".", "(*LineMatch).ToProto", "LineMatchFromProto", "LineMatch"},
		{"Symbol", ".", "(*Symbol).ToProto", "SymbolFromProto", "SymbolInfo"},
		{"LineFragmentMatch", ".", "(*LineFragmentMatch).ToProto", "LineFragmentMatchFromProto", "LineFragmentMatch"},
		{"Stats", ".", "(*Stats).ToProto", "StatsFromProto", "Stats"},
		{"Progress", ".", "(*Progress).ToProto", "ProgressFromProto", "Progress"},
		{"SearchResult", ".", "(*SearchResult).ToProto", "SearchResultFromProto", "SearchResponse"},
		{"RepositoryBranch", ".", "(*RepositoryBranch).ToProto", "RepositoryBranchFromProto", "RepositoryBranch"},
		{"Repository", ".", "(*Repository).ToProto", "RepositoryFromProto", "Repository"},
		{"IndexMetadata", ".", "(*IndexMetadata).ToProto", "IndexMetadataFromProto", "IndexMetadata"},
		{"RepoStats", ".", "(*RepoStats).ToProto", "RepoStatsFromProto", "RepoStats"},
		{"RepoListEntry", ".", "(*RepoListEntry).ToProto", "RepoListEntryFromProto", "RepoListEntry"},
		{"MinimalRepoListEntry", ".", "(*MinimalRepoListEntry).ToProto", "MinimalRepoListEntryFromProto", "MinimalRepoListEntry"},
		{"RepoList", ".", "(*RepoList).ToProto", "RepoListFromProto", "ListResponse"},
		{"ListOptions", ".", "(*ListOptions).ToProto", "ListOptionsFromProto", "ListOptions"},
		{"SearchOptions", ".", "(*SearchOptions).ToProto", "SearchOptionsFromProto", "SearchOptions"},
		{"Regexp", "query", "(*Regexp).ToProto", "RegexpFromProto", "Regexp"},
		{"Symbol", "query", "(*Symbol).ToProto", "SymbolFromProto", "Symbol"},
		{"Language", "query", "(*Language).ToProto", "LanguageFromProto", "Language"},
		{"Repo", "query", "(*Repo).ToProto", "RepoFromProto", "Repo"},
		{"RepoRegexp", "query", "(*RepoRegexp).ToProto", "RepoRegexpFromProto", "RepoRegexp"},
		{"BranchesRepos", "query", "(*BranchesRepos).ToProto", "BranchesReposFromProto", "BranchesRepos"},
		{"BranchRepos", "query", "(*BranchRepos).ToProto", "BranchReposFromProto", "BranchRepos"},
		{"RepoIDs", "query", "(*RepoIDs).ToProto", "RepoIDsFromProto", "RepoIds"},
		{"RepoSet", "query", "(*RepoSet).ToProto", "RepoSetFromProto", "RepoSet"},
		{"FileNameSet", "query", "(*FileNameSet).ToProto", "FileNameSetFromProto", "FileNameSet"},
		{"Type", "query", "(*Type).ToProto", "TypeFromProto", "Type"},
		{"Substring", "query", "(*Substring).ToProto", "SubstringFromProto", "Substring"},
		{"And", "query", "(*And).ToProto", "AndFromProto", "And"},
		{"Or", "query", "(*Or).ToProto", "OrFromProto", "Or"},
		{"Not", "query", "(*Not).ToProto", "NotFromProto", "Not"},
		{"Branch", "query", "(*Branch).ToProto", "BranchFromProto", "Branch"},
		{"Boost", "query", "(*Boost).ToProto", "BoostFromProto", "Boost"},
		{"Meta", "query", "(*Meta).ToProto", "MetaFromProto", "Meta"},
	}
	var fieldRows, protoRows, missing []string
	for _, p := range pairs {
		files := zfiles
		if p.pkgDir == "query" {
			files = qfiles
		}
		name := p.goType
		if p.pkgDir == "query" {
			name = "query." + p.goType
		}
		fields, _, err := structFields(files, p.goType)
		if err != nil {
			return "", err
		}
		pfields, err := pbMessageFields(pbfiles, p.protoMsg)
		if err != nil {
			return "", err
		}
		tf, toFn := findFunc(files, p.toProto)
		ff, fromFn := findFunc(files, p.fromFunc)
		var read, written, set, got []string
		if toFn == nil {
			missing = append(missing, name+".ToProto")
		} else {
			recv := toFn.Recv.List[0].Names[0].Name
			for _, sel := range selectorsOn(toFn.Body, recv) {
				// a method of the same type called on the receiver reads what that method reads
				isField := false
				for _, fl := range fields {
					if fl == sel {
						isField = true
					}
				}
				if !isField {
					if _, m := findFunc(files, "(*"+p.goType+")."+sel); m != nil && m.Recv != nil && len(m.Recv.List[0].Names) > 0 {
						read = append(read, selectorsOn(m.Body, m.Recv.List[0].Names[0].Name)...)
						continue
					}
				}
				read = append(read, sel)
			}
			var ok bool
			set, ok = compositeKeys(tf, toFn.Body, p.protoMsg)
			if !ok {
				return "", fmt.Errorf("%s: no composite literal of webserverv1.%s", p.toProto, p.protoMsg)
			}
		}
		if fromFn == nil {
			missing = append(missing, name+".FromProto")
		} else {
			var ok bool
			written, ok = compositeKeys(ff, fromFn.Body, p.goType)
			if !ok {
				return "", fmt.Errorf("%s: no composite literal of %s", p.fromFunc, p.goType)
			}
			if len(fromFn.Type.Params.List) == 0 || len(fromFn.Type.Params.List[0].Names) == 0 {
				return "", fmt.Errorf("%s: no parameter", p.fromFunc)
			}
			got = getterCalls(fromFn.Body, fromFn.Type.Params.List[0].Names[0].Name)
		}
		// embedded fields are written by their type name; keep as is
		fieldRows = append(fieldRows, fmt.Sprintf("  (%q, %s, %s, %s)", name, leanStrList(fields), leanStrList(read), leanStrList(written)))
		protoRows = append(protoRows, fmt.Sprintf("  (%q, %s, %s, %s)", name, leanStrList(pfields), leanStrList(set), leanStrList(got)))
	}
	_ = token.NoPos

	var sb strings.Builder
	sb.WriteString("namespace ZoektModel.Gen.C24\n")
	fmt.Fprintf(&sb, "def qKinds : List String := %s\n", leanStrList(qKinds))
	fmt.Fprintf(&sb, "def toProtoCases : List (String × String) := %s\n", leanPairList(toCases))
	fmt.Fprintf(&sb, "def fromProtoCases : List (String × String) := %s\n", leanPairList(fromCases))
	fmt.Fprintf(&sb, "def oneofArms : List String := %s\n", leanStrList(arms))
	fmt.Fprintf(&sb, "def toProtoDefaultPanics : Bool := %v\n", toDefaultPanics)
	fmt.Fprintf(&sb, "def fromProtoDefaultPanics : Bool := %v\n", fromDefaultPanics)
	fmt.Fprintf(&sb, "def fromProtoChecksNil : Bool := %v\n", checksNil)
	fmt.Fprintf(&sb, "def missingConverters : List String := %s\n", leanStrList(missing))
	sb.WriteString("/-- (struct, its fields, fields read by ToProto, fields written by FromProto) -/\n")
	fmt.Fprintf(&sb, "def fieldTable : List (String × List String × List String × List String) := [\n%s]\n", strings.Join(fieldRows, ",\n"))
	sb.WriteString("/-- (struct, fields of its protobuf message, message fields set by ToProto, message fields read by FromProto) -/\n")
	fmt.Fprintf(&sb, "def protoFieldTable : List (String × List String × List String × List String) := [\n%s]\n", strings.Join(protoRows, ",\n"))
	sb.WriteString("end ZoektModel.Gen.C24\n")
	return sb.String(), nil
}
