package main

import (
	"fmt"
	"go/ast"
	"go/parser"
	"go/printer"
	"go/token"
	"path/filepath"
	"sort"
	"strconv"
	"strings"
)

type file struct {
	fset *token.FileSet
	f    *ast.File
}

func parseFile(repo, rel string) (*file, error) {
	fset := token.NewFileSet()
	f, err := parser.ParseFile(fset, filepath.Join(repo, rel), nil, parser.ParseComments)
	if err != nil {
		return nil, err
	}
	return &file{fset, f}, nil
}

// parseDir parses every non-test .go file of a directory (build tags ignored, zz_verif_ files skipped).
func parseDir(repo, rel string) ([]*file, error) {
	matches, err := filepath.Glob(filepath.Join(repo, rel, "*.go"))
	if err != nil {
		return nil, err
	}
	sort.Strings(matches)
	var out []*file
	for _, m := range matches {
		b := filepath.Base(m)
		if strings.HasSuffix(b, "_test.go") || strings.HasPrefix(b, "zz_verif") {
			continue
		}
		fset := token.NewFileSet()
		f, err := parser.ParseFile(fset, m, nil, parser.ParseComments)
		if err != nil {
			return nil, err
		}
		out = append(out, &file{fset, f})
	}
	if len(out) == 0 {
		return nil, fmt.Errorf("no go files in %s", rel)
	}
	return out, nil
}

func (f *file) str(n ast.Node) string {
	var sb strings.Builder
	printer.Fprint(&sb, f.fset, n)
	return sb.String()
}

// funcDecl finds a function or method: name "F" or "(T).M" / "(*T).M".
func (f *file) funcDecl(name string) *ast.FuncDecl {
	for _, d := range f.f.Decls {
		fd, ok := d.(*ast.FuncDecl)
		if !ok {
			continue
		}
		n := fd.Name.Name
		if fd.Recv != nil && len(fd.Recv.List) == 1 {
			n = "(" + f.str(fd.Recv.List[0].Type) + ")." + n
		}
		if n == name {
			return fd
		}
	}
	return nil
}

func findFunc(files []*file, name string) (*file, *ast.FuncDecl) {
	for _, f := range files {
		if fd := f.funcDecl(name); fd != nil {
			return f, fd
		}
	}
	return nil, nil
}

// typeSwitchCases returns, for the n-th (0-based) type switch directly or indirectly inside fn, the printed types of
// every case clause, in order ("default" for the default clause).
func (f *file) typeSwitchCases(fn *ast.FuncDecl, n int) ([]string, *ast.TypeSwitchStmt) {
	var found []*ast.TypeSwitchStmt
	ast.Inspect(fn.Body, func(x ast.Node) bool {
		if ts, ok := x.(*ast.TypeSwitchStmt); ok {
			found = append(found, ts)
		}
		return true
	})
	if n >= len(found) {
		return nil, nil
	}
	var out []string
	for _, c := range found[n].Body.List {
		cc := c.(*ast.CaseClause)
		if cc.List == nil {
			out = append(out, "default")
		}
		for _, t := range cc.List {
			out = append(out, f.str(t))
		}
	}
	return out, found[n]
}

// structFields lists the field names of a named struct type (embedded fields by their type name).
func structFields(files []*file, typeName string) ([]string, []string, error) {
	for _, f := range files {
		for _, d := range f.f.Decls {
			gd, ok := d.(*ast.GenDecl)
			if !ok || gd.Tok != token.TYPE {
				continue
			}
			for _, s := range gd.Specs {
				ts := s.(*ast.TypeSpec)
				if ts.Name.Name != typeName {
					continue
				}
				st, ok := ts.Type.(*ast.StructType)
				if !ok {
					return nil, nil, fmt.Errorf("%s is not a struct", typeName)
				}
				var names, types []string
				for _, fl := range st.Fields.List {
					if len(fl.Names) == 0 {
						names = append(names, f.str(fl.Type))
						types = append(types, f.str(fl.Type))
					}
					for _, n := range fl.Names {
						names = append(names, n.Name)
						types = append(types, f.str(fl.Type))
					}
				}
				return names, types, nil
			}
		}
	}
	return nil, nil, fmt.Errorf("struct %s not found", typeName)
}

// constValue finds `const name = <basic literal>` (or inside a const block) and returns the literal text.
func constValue(files []*file, name string) (string, error) {
	for _, f := range files {
		for _, d := range f.f.Decls {
			gd, ok := d.(*ast.GenDecl)
			if !ok || (gd.Tok != token.CONST && gd.Tok != token.VAR) {
				continue
			}
			for _, s := range gd.Specs {
				vs := s.(*ast.ValueSpec)
				for i, n := range vs.Names {
					if n.Name == name && i < len(vs.Values) {
						return f.str(vs.Values[i]), nil
					}
				}
			}
		}
	}
	return "", fmt.Errorf("constant %s not found", name)
}

// selectorsOn lists the distinct field names x.F used inside node for the identifier x.
func selectorsOn(node ast.Node, x string) []string {
	seen := map[string]bool{}
	var out []string
	ast.Inspect(node, func(n ast.Node) bool {
		if se, ok := n.(*ast.SelectorExpr); ok {
			if id, ok := se.X.(*ast.Ident); ok && id.Name == x && !seen[se.Sel.Name] {
				seen[se.Sel.Name] = true
				out = append(out, se.Sel.Name)
			}
		}
		return true
	})
	return out
}

func leanStrList(xs []string) string {
	q := make([]string, len(xs))
	for i, x := range xs {
		q[i] = strconv.Quote(x)
	}
	return "[" + strings.Join(q, ", ") + "]"
}

func unquote(s string) string {
	u, err := strconv.Unquote(s)
	if err != nil {
		return s
	}
	return u
}
