package main

// QuerySwitches: the node kinds of package query and the case lists of the type switches of the rewrites C05 models
// (query.Map, flatten, evalConstants, ExpandFileContent, stripCaseScopes, indexData.simplify) and of the shard
// pre-selection C18 models (search.doSelectRepoSet). Shape expected: each function contains the type switch at the
// stated position; a kind is a type of package query with a `String() string` method; a composite kind is one with
// a field of type Q or []Q.

import (
	"fmt"
	"go/ast"
	"sort"
	"strings"
)

func init() { register("QuerySwitches", tableQuerySwitches) }

func tableQuerySwitches(repo string) (string, error) {
	qfiles, err := parseDir(repo, "query")
	if err != nil {
		return "", err
	}
	var sb strings.Builder
	sb.WriteString("namespace ZoektModel.Gen\n")

	// kinds: receiver types of String() string methods
	kinds := map[string]bool{}
	for _, f := range qfiles {
		for _, d := range f.f.Decls {
			fd, ok := d.(*ast.FuncDecl)
			if !ok || fd.Recv == nil || fd.Name.Name != "String" || len(fd.Recv.List) != 1 {
				continue
			}
			if fd.Type.Params.NumFields() != 0 || fd.Type.Results.NumFields() != 1 || f.str(fd.Type.Results.List[0].Type) != "string" {
				continue
			}
			kinds[strings.TrimPrefix(f.str(fd.Recv.List[0].Type), "*")] = true
		}
	}
	var kindList []string
	for k := range kinds {
		kindList = append(kindList, k)
	}
	sort.Strings(kindList)
	if len(kindList) < 15 {
		return "", fmt.Errorf("only %d query kinds with a String method found: %v", len(kindList), kindList)
	}
	fmt.Fprintf(&sb, "def qKinds : List String := %s\n", leanStrList(kindList))

	// composite kinds: struct kinds with a field of type Q or []Q
	var comps []string
	for _, k := range kindList {
		names, types, err := structFields(qfiles, k)
		if err != nil {
			continue // not a struct (RawConfig)
		}
		for i, t := range types {
			if t == "Q" || t == "[]Q" {
				comps = append(comps, fmt.Sprintf("(%q, %q)", k, names[i]))
			}
		}
	}
	if len(comps) < 5 {
		return "", fmt.Errorf("only %d composite fields found: %v", len(comps), comps)
	}
	fmt.Fprintf(&sb, "def qCompositeFields : List (String × String) := [%s]\n", strings.Join(comps, ", "))

	emit := func(leanName string, files []*file, fn string, n int, min int) error {
		f, fd := findFunc(files, fn)
		if fd == nil {
			return fmt.Errorf("function %s not found", fn)
		}
		cases, ts := f.typeSwitchCases(fd, n)
		if ts == nil || len(cases) < min {
			return fmt.Errorf("%s: type switch #%d not found or has only %d cases", fn, n, len(cases))
		}
		fmt.Fprintf(&sb, "def %s : List String := %s\n", leanName, leanStrList(cases))
		return nil
	}
	if err := emit("mapCases", qfiles, "Map", 0, 5); err != nil {
		return "", err
	}
	if err := emit("flattenCases", qfiles, "flatten", 0, 5); err != nil {
		return "", err
	}
	if err := emit("evalConstantsCases", qfiles, "evalConstants", 0, 10); err != nil {
		return "", err
	}
	if err := emit("expandFileContentCases", qfiles, "ExpandFileContent", 0, 2); err != nil {
		return "", err
	}
	if err := emit("stripCaseScopesCases", qfiles, "stripCaseScopes", 0, 6); err != nil {
		return "", err
	}
	if err := emit("queryChildrenCases", qfiles, "queryChildren", 0, 2); err != nil {
		return "", err
	}
	ifiles, err := parseDir(repo, "index")
	if err != nil {
		return "", err
	}
	if err := emit("simplifyCases", ifiles, "(*indexData).simplify", 0, 8); err != nil {
		return "", err
	}
	sfiles, err := parseDir(repo, "search")
	if err != nil {
		return "", err
	}
	if err := emit("selectRepoSetCases", sfiles, "doSelectRepoSet", 0, 5); err != nil {
		return "", err
	}
	if err := emit("selectRepoSetRewriteCases", sfiles, "doSelectRepoSet", 1, 5); err != nil {
		return "", err
	}
	sb.WriteString("end ZoektModel.Gen\n")
	return sb.String(), nil
}
