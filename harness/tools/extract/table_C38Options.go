package main

// Table C38Options — facts about index.Options / HashOptions / GetHash / IndexState and zoekt.Repository.MergeMutable.
//
// Expected shapes (extraction fails loudly when one is lost):
//   * `type Options struct{…}` and `type HashOptions struct{…}` in index/builder.go
//   * `func (o *Options) HashOptions() HashOptions { return HashOptions{ k: o.F, … } }`  — one composite literal,
//     every value a selector on the receiver
//   * `func (o *Options) GetHash() string`: `h := o.HashOptions()`, then a sequence of `hasher.Write(X)` where X is
//     `[]byte(h.f)` or `fmt.Appendf(nil, "<verb>", h.f)`
//   * `func (o *Options) IndexState()`: the IndexState constants in its return statements, in source order
//   * `func (r *Repository) MergeMutable(x *Repository)`: `if r.F != x.F { return …errors.New }` / `!reflect.DeepEqual(r.F, x.F)`
//     guards (immutable fields), `r.F = x.F` assignments (merged fields), one `range x.RawConfig` loop with the skipped keys
//   * `type Repository struct{…}` in api.go

import (
	"fmt"
	"go/ast"
	"go/token"
	"strings"
)

func init() { register("C38Options", tableC38Options) }

func c38LeanPairList(ps [][2]string) string {
	q := make([]string, len(ps))
	for i, p := range ps {
		q[i] = fmt.Sprintf("(%q, %q)", p[0], p[1])
	}
	return "[" + strings.Join(q, ", ") + "]"
}

func tableC38Options(repo string) (string, error) {
	idx, err := parseDir(repo, "index")
	if err != nil {
		return "", err
	}
	api, err := parseFile(repo, "api.go")
	if err != nil {
		return "", err
	}

	optNames, optTypes, err := structFields(idx, "Options")
	if err != nil {
		return "", err
	}
	hoNames, _, err := structFields(idx, "HashOptions")
	if err != nil {
		return "", err
	}
	repoNames, repoTypes, err := structFields([]*file{api}, "Repository")
	if err != nil {
		return "", err
	}
	if len(optNames) < 10 || len(hoNames) < 3 || len(repoNames) < 10 {
		return "", fmt.Errorf("implausibly small structs: Options %d HashOptions %d Repository %d", len(optNames), len(hoNames), len(repoNames))
	}

	// HashOptions(): composite literal key -> receiver field
	f, fd := findFunc(idx, "(*Options).HashOptions")
	if fd == nil {
		return "", fmt.Errorf("(*Options).HashOptions not found")
	}
	recv := fd.Recv.List[0].Names[0].Name
	var hashMap [][2]string
	if len(fd.Body.List) != 1 {
		return "", fmt.Errorf("HashOptions(): expected a single return statement")
	}
	ret, ok := fd.Body.List[0].(*ast.ReturnStmt)
	if !ok || len(ret.Results) != 1 {
		return "", fmt.Errorf("HashOptions(): expected `return HashOptions{…}`")
	}
	cl, ok := ret.Results[0].(*ast.CompositeLit)
	if !ok {
		return "", fmt.Errorf("HashOptions(): expected a composite literal")
	}
	for _, e := range cl.Elts {
		kv, ok := e.(*ast.KeyValueExpr)
		if !ok {
			return "", fmt.Errorf("HashOptions(): expected key: value elements")
		}
		se, ok := kv.Value.(*ast.SelectorExpr)
		if !ok {
			return "", fmt.Errorf("HashOptions(): value %s is not a selector", f.str(kv.Value))
		}
		if id, ok := se.X.(*ast.Ident); !ok || id.Name != recv {
			return "", fmt.Errorf("HashOptions(): value %s is not a field of the receiver", f.str(kv.Value))
		}
		hashMap = append(hashMap, [2]string{f.str(kv.Key), se.Sel.Name})
	}
	if len(hashMap) != len(hoNames) {
		return "", fmt.Errorf("HashOptions(): literal sets %d of %d fields", len(hashMap), len(hoNames))
	}

	// GetHash(): the sequence of writes
	f, fd = findFunc(idx, "(*Options).GetHash")
	if fd == nil {
		return "", fmt.Errorf("(*Options).GetHash not found")
	}
	var writes [][2]string
	hvar := ""
	for _, st := range fd.Body.List {
		if as, ok := st.(*ast.AssignStmt); ok && len(as.Lhs) == 1 && len(as.Rhs) == 1 {
			if strings.HasSuffix(f.str(as.Rhs[0]), ".HashOptions()") {
				hvar = f.str(as.Lhs[0])
			}
		}
		es, ok := st.(*ast.ExprStmt)
		if !ok {
			continue
		}
		call, ok := es.X.(*ast.CallExpr)
		if !ok || !strings.HasSuffix(f.str(call.Fun), ".Write") || len(call.Args) != 1 {
			continue
		}
		arg, ok := call.Args[0].(*ast.CallExpr)
		if !ok {
			return "", fmt.Errorf("GetHash(): unexpected Write argument %s", f.str(call.Args[0]))
		}
		field := func(e ast.Expr) (string, error) {
			se, ok := e.(*ast.SelectorExpr)
			if !ok {
				return "", fmt.Errorf("GetHash(): %s is not a field of the HashOptions value", f.str(e))
			}
			if id, ok := se.X.(*ast.Ident); !ok || id.Name != hvar {
				return "", fmt.Errorf("GetHash(): %s is not a field of %s", f.str(e), hvar)
			}
			return se.Sel.Name, nil
		}
		switch fn := f.str(arg.Fun); {
		case fn == "[]byte" && len(arg.Args) == 1:
			n, err := field(arg.Args[0])
			if err != nil {
				return "", err
			}
			writes = append(writes, [2]string{"raw", n})
		case fn == "fmt.Appendf" && len(arg.Args) == 3:
			n, err := field(arg.Args[2])
			if err != nil {
				return "", err
			}
			writes = append(writes, [2]string{unquote(f.str(arg.Args[1])), n})
		default:
			return "", fmt.Errorf("GetHash(): unexpected Write argument %s", f.str(arg))
		}
	}
	if hvar == "" || len(writes) == 0 {
		return "", fmt.Errorf("GetHash(): no `h := o.HashOptions()` / hasher.Write sequence found")
	}

	// IndexState(): returned constants in source order
	f, fd = findFunc(idx, "(*Options).IndexState")
	if fd == nil {
		return "", fmt.Errorf("(*Options).IndexState not found")
	}
	var ladder []string
	ast.Inspect(fd.Body, func(n ast.Node) bool {
		if r, ok := n.(*ast.ReturnStmt); ok && len(r.Results) == 2 {
			ladder = append(ladder, f.str(r.Results[0]))
		}
		return true
	})
	if len(ladder) < 7 {
		return "", fmt.Errorf("IndexState(): only %d return statements", len(ladder))
	}

	// MergeMutable
	fd = api.funcDecl("(*Repository).MergeMutable")
	if fd == nil {
		return "", fmt.Errorf("(*Repository).MergeMutable not found")
	}
	r := fd.Recv.List[0].Names[0].Name
	x := fd.Type.Params.List[0].Names[0].Name
	var immutable, merged, skipKeys []string
	returnsErr := func(b *ast.BlockStmt) bool {
		for _, st := range b.List {
			if rs, ok := st.(*ast.ReturnStmt); ok && len(rs.Results) == 2 && strings.Contains(api.str(rs.Results[1]), "errors.New") {
				return true
			}
		}
		return false
	}
	assigns := func(b *ast.BlockStmt) []string {
		var out []string
		for _, st := range b.List {
			if as, ok := st.(*ast.AssignStmt); ok && len(as.Lhs) == 1 {
				if se, ok := as.Lhs[0].(*ast.SelectorExpr); ok {
					if id, ok := se.X.(*ast.Ident); ok && id.Name == r && api.str(as.Rhs[0]) == x+"."+se.Sel.Name {
						out = append(out, se.Sel.Name)
					}
				}
			}
		}
		return out
	}
	rangeSeen := false
	for _, st := range fd.Body.List {
		switch s := st.(type) {
		case *ast.IfStmt:
			fr := selectorsOn(s.Cond, r)
			fx := selectorsOn(s.Cond, x)
			if len(fr) != 1 || len(fx) != 1 || fr[0] != fx[0] {
				return "", fmt.Errorf("MergeMutable: unexpected condition %s", api.str(s.Cond))
			}
			if returnsErr(s.Body) {
				immutable = append(immutable, fr[0])
			} else if a := assigns(s.Body); len(a) == 1 && a[0] == fr[0] {
				merged = append(merged, fr[0])
			} else {
				return "", fmt.Errorf("MergeMutable: if on %s neither returns an error nor assigns it", fr[0])
			}
		case *ast.RangeStmt:
			if api.str(s.X) != x+".RawConfig" || rangeSeen {
				return "", fmt.Errorf("MergeMutable: unexpected range over %s", api.str(s.X))
			}
			rangeSeen = true
			merged = append(merged, "RawConfig")
			ast.Inspect(s.Body, func(n ast.Node) bool {
				if be, ok := n.(*ast.BinaryExpr); ok && be.Op == token.EQL {
					if bl, ok := be.Y.(*ast.BasicLit); ok && bl.Kind == token.STRING {
						skipKeys = append(skipKeys, unquote(bl.Value))
					}
				}
				return true
			})
		case *ast.ReturnStmt:
		default:
			return "", fmt.Errorf("MergeMutable: unexpected statement %s", api.str(st))
		}
	}
	if len(immutable) == 0 || len(merged) == 0 || !rangeSeen {
		return "", fmt.Errorf("MergeMutable: lost its shape (immutable %v merged %v)", immutable, merged)
	}

	pairs := func(a, b []string) [][2]string {
		out := make([][2]string, len(a))
		for i := range a {
			out[i] = [2]string{a[i], b[i]}
		}
		return out
	}
	var sb strings.Builder
	sb.WriteString("namespace ZoektModel.Gen\n\n")
	sb.WriteString("/-- fields of index.Options (name, type), in declaration order -/\n")
	sb.WriteString("def optionsFields : List (String × String) := " + c38LeanPairList(pairs(optNames, optTypes)) + "\n\n")
	sb.WriteString("/-- fields of index.HashOptions -/\n")
	sb.WriteString("def hashOptionsFields : List String := " + leanStrList(hoNames) + "\n\n")
	sb.WriteString("/-- Options.HashOptions(): (HashOptions field, Options field it copies) -/\n")
	sb.WriteString("def hashOptionsMap : List (String × String) := " + c38LeanPairList(hashMap) + "\n\n")
	sb.WriteString("/-- Options.GetHash(): the hasher.Write sequence as (format verb | \"raw\", HashOptions field) -/\n")
	sb.WriteString("def hashWrites : List (String × String) := " + c38LeanPairList(writes) + "\n\n")
	sb.WriteString("/-- Options.IndexState(): the state returned by each return statement, in source order -/\n")
	sb.WriteString("def indexStateReturns : List String := " + leanStrList(ladder) + "\n\n")
	sb.WriteString("/-- fields of zoekt.Repository (name, type) -/\n")
	sb.WriteString("def repositoryFields : List (String × String) := " + c38LeanPairList(pairs(repoNames, repoTypes)) + "\n\n")
	sb.WriteString("/-- Repository.MergeMutable: fields whose change is an error (forces a re-index) -/\n")
	sb.WriteString("def mergeImmutableFields : List String := " + leanStrList(immutable) + "\n\n")
	sb.WriteString("/-- Repository.MergeMutable: fields merged from the new description, in source order -/\n")
	sb.WriteString("def mergeMutableFields : List String := " + leanStrList(merged) + "\n\n")
	sb.WriteString("/-- Repository.MergeMutable: RawConfig keys that are not merged -/\n")
	sb.WriteString("def mergeSkippedRawConfigKeys : List String := " + leanStrList(skipKeys) + "\n\n")
	sb.WriteString("end ZoektModel.Gen\n")
	return sb.String(), nil
}
