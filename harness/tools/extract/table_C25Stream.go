package main

// Table C25Stream: the facts of api.go / api_proto.go / sampling.go / chunker.go that the C25 model takes for granted.
//
//	c25StatsFields        (name, type) of every field of struct zoekt.Stats
//	c25StatsAddFields     the fields X with a statement `s.X += o.X` in (*Stats).Add
//	c25StatsAddOther      the fields Add touches in any other way (expected: exactly the sticky FlushReason)
//	c25StatsZeroFields    the fields X with a disjunct `s.X > 0` in (*Stats).Zero
//	c25StatsToProto       the fields of s read by (*Stats).ToProto
//	c25StatsFromProto     the fields of Stats set by StatsFromProto
//	c25MaxMessageSize     grpc/chunk: const maxMessageSize
//	c25SamplingPeriod     sampling.go: the N of `s.aggCount%N == 0`
//	c25ChunkerErrorOrigins  grpc/chunk/chunker.go: every `return` of an error value that the chunker makes up itself
//	                      (anything but nil, a propagated `err`, or the result of one of its own methods): the model's
//	                      chunker cannot fail, and a failure of its own would refuse an item
//	c25SendAllErrorUses   server.go: how gRPCChunkSender uses the error of chunk.SendAll ("discarded" = `_ = …`)
//
// Expected shapes (anything else fails the extraction loudly):
//	Add  = a list of `s.X += o.X` statements plus one `if s.FlushReason == 0 { s.FlushReason = o.FlushReason }`
//	Zero = `if s == nil { return true }; return !(s.A > 0 || s.B > 0 || …)`

import (
	"fmt"
	"go/ast"
	"go/token"
	"strconv"
	"strings"
)

func init() { register("C25Stream", tableC25Stream) }

func c25EvalInt(e ast.Expr) (int64, error) {
	switch x := e.(type) {
	case *ast.BasicLit:
		if x.Kind != token.INT {
			return 0, fmt.Errorf("not an int literal: %s", x.Value)
		}
		return strconv.ParseInt(strings.ReplaceAll(x.Value, "_", ""), 0, 64)
	case *ast.ParenExpr:
		return c25EvalInt(x.X)
	case *ast.BinaryExpr:
		a, err := c25EvalInt(x.X)
		if err != nil {
			return 0, err
		}
		b, err := c25EvalInt(x.Y)
		if err != nil {
			return 0, err
		}
		switch x.Op {
		case token.MUL:
			return a * b, nil
		case token.ADD:
			return a + b, nil
		case token.SUB:
			return a - b, nil
		case token.SHL:
			return a << uint(b), nil
		}
		return 0, fmt.Errorf("operator %s not supported", x.Op)
	}
	return 0, fmt.Errorf("constant expression of unsupported form")
}

func c25Sel(e ast.Expr, recv string) (string, bool) {
	se, ok := e.(*ast.SelectorExpr)
	if !ok {
		return "", false
	}
	id, ok := se.X.(*ast.Ident)
	if !ok || id.Name != recv {
		return "", false
	}
	return se.Sel.Name, true
}

func c25OrLeaves(e ast.Expr, out *[]ast.Expr) {
	if p, ok := e.(*ast.ParenExpr); ok {
		c25OrLeaves(p.X, out)
		return
	}
	if b, ok := e.(*ast.BinaryExpr); ok && b.Op == token.LOR {
		c25OrLeaves(b.X, out)
		c25OrLeaves(b.Y, out)
		return
	}
	*out = append(*out, e)
}

func tableC25Stream(repo string) (string, error) {
	api, err := parseFile(repo, "api.go")
	if err != nil {
		return "", err
	}
	apiProto, err := parseFile(repo, "api_proto.go")
	if err != nil {
		return "", err
	}
	names, types, err := structFields([]*file{api}, "Stats")
	if err != nil {
		return "", err
	}
	if len(names) < 10 {
		return "", fmt.Errorf("struct Stats has only %d fields", len(names))
	}

	// ---- Add
	add := api.funcDecl("(*Stats).Add")
	if add == nil || len(add.Type.Params.List) != 1 || len(add.Type.Params.List[0].Names) != 1 {
		return "", fmt.Errorf("(*Stats).Add(o Stats) not found in api.go")
	}
	recv := add.Recv.List[0].Names[0].Name
	arg := add.Type.Params.List[0].Names[0].Name
	var addFields, addOther []string
	for _, st := range add.Body.List {
		switch s := st.(type) {
		case *ast.AssignStmt:
			if s.Tok != token.ADD_ASSIGN || len(s.Lhs) != 1 || len(s.Rhs) != 1 {
				return "", fmt.Errorf("Stats.Add: unexpected assignment %s", api.str(s))
			}
			l, ok1 := c25Sel(s.Lhs[0], recv)
			r, ok2 := c25Sel(s.Rhs[0], arg)
			if !ok1 || !ok2 || l != r {
				return "", fmt.Errorf("Stats.Add: statement is not `%s.X += %s.X`: %s", recv, arg, api.str(s))
			}
			addFields = append(addFields, l)
		case *ast.IfStmt:
			// if s.F == 0 { s.F = o.F }
			cond, ok := s.Cond.(*ast.BinaryExpr)
			if !ok || cond.Op != token.EQL || s.Else != nil || s.Init != nil || len(s.Body.List) != 1 {
				return "", fmt.Errorf("Stats.Add: unexpected if statement %s", api.str(s))
			}
			f, ok := c25Sel(cond.X, recv)
			as, ok2 := s.Body.List[0].(*ast.AssignStmt)
			if !ok || !ok2 || as.Tok != token.ASSIGN || len(as.Lhs) != 1 {
				return "", fmt.Errorf("Stats.Add: unexpected if statement %s", api.str(s))
			}
			l, ok1 := c25Sel(as.Lhs[0], recv)
			r, ok3 := c25Sel(as.Rhs[0], arg)
			if !ok1 || !ok3 || l != f || r != f || api.str(cond.Y) != "0" {
				return "", fmt.Errorf("Stats.Add: if statement is not the sticky-field pattern: %s", api.str(s))
			}
			addOther = append(addOther, f)
		default:
			return "", fmt.Errorf("Stats.Add: unexpected statement %s", api.str(st))
		}
	}

	// ---- Zero
	zero := api.funcDecl("(*Stats).Zero")
	if zero == nil || len(zero.Body.List) != 2 {
		return "", fmt.Errorf("(*Stats).Zero does not have the shape `if s == nil {…}; return !(…)`")
	}
	zrecv := zero.Recv.List[0].Names[0].Name
	if ifs, ok := zero.Body.List[0].(*ast.IfStmt); !ok || api.str(ifs.Cond) != zrecv+" == nil" {
		return "", fmt.Errorf("Stats.Zero: first statement is not the nil check")
	}
	ret, ok := zero.Body.List[1].(*ast.ReturnStmt)
	if !ok || len(ret.Results) != 1 {
		return "", fmt.Errorf("Stats.Zero: second statement is not a return")
	}
	not, ok := ret.Results[0].(*ast.UnaryExpr)
	if !ok || not.Op != token.NOT {
		return "", fmt.Errorf("Stats.Zero: return value is not a negation")
	}
	var leaves []ast.Expr
	c25OrLeaves(not.X, &leaves)
	var zeroFields []string
	for _, l := range leaves {
		b, ok := l.(*ast.BinaryExpr)
		if !ok || b.Op != token.GTR || api.str(b.Y) != "0" {
			return "", fmt.Errorf("Stats.Zero: disjunct is not `s.X > 0`: %s", api.str(l))
		}
		f, ok := c25Sel(b.X, zrecv)
		if !ok {
			return "", fmt.Errorf("Stats.Zero: disjunct is not `s.X > 0`: %s", api.str(l))
		}
		zeroFields = append(zeroFields, f)
	}

	// ---- wire conversion
	toProto := apiProto.funcDecl("(*Stats).ToProto")
	if toProto == nil {
		return "", fmt.Errorf("(*Stats).ToProto not found")
	}
	toFields := selectorsOn(toProto.Body, toProto.Recv.List[0].Names[0].Name)
	fromProto := apiProto.funcDecl("StatsFromProto")
	if fromProto == nil || len(fromProto.Body.List) != 1 {
		return "", fmt.Errorf("StatsFromProto is not a single return statement")
	}
	var fromFields []string
	fret, ok := fromProto.Body.List[0].(*ast.ReturnStmt)
	if !ok || len(fret.Results) != 1 {
		return "", fmt.Errorf("StatsFromProto is not a single return statement")
	}
	cl, ok := fret.Results[0].(*ast.CompositeLit)
	if !ok || apiProto.str(cl.Type) != "Stats" {
		return "", fmt.Errorf("StatsFromProto does not return a Stats literal")
	}
	for _, el := range cl.Elts {
		kv, ok := el.(*ast.KeyValueExpr)
		if !ok {
			return "", fmt.Errorf("StatsFromProto: positional literal")
		}
		fromFields = append(fromFields, apiProto.str(kv.Key))
	}

	// ---- constants
	chunker, err := parseFile(repo, "grpc/chunk/chunker.go")
	if err != nil {
		return "", err
	}
	var maxExpr ast.Expr
	for _, d := range chunker.f.Decls {
		if gd, ok := d.(*ast.GenDecl); ok && gd.Tok == token.CONST {
			for _, s := range gd.Specs {
				vs := s.(*ast.ValueSpec)
				for i, n := range vs.Names {
					if n.Name == "maxMessageSize" && i < len(vs.Values) {
						maxExpr = vs.Values[i]
					}
				}
			}
		}
	}
	if maxExpr == nil {
		return "", fmt.Errorf("const maxMessageSize not found in grpc/chunk/chunker.go")
	}
	maxSize, err := c25EvalInt(maxExpr)
	if err != nil {
		return "", fmt.Errorf("maxMessageSize: %v", err)
	}
	sampling, err := parseFile(repo, "cmd/zoekt-webserver/grpc/server/sampling.go")
	if err != nil {
		return "", err
	}
	send := sampling.funcDecl("(*samplingSender).Send")
	if send == nil {
		return "", fmt.Errorf("(*samplingSender).Send not found")
	}
	var periods []int64
	ast.Inspect(send.Body, func(n ast.Node) bool {
		if b, ok := n.(*ast.BinaryExpr); ok && b.Op == token.REM && strings.HasSuffix(sampling.str(b.X), ".aggCount") {
			if v, err := c25EvalInt(b.Y); err == nil {
				periods = append(periods, v)
			}
		}
		return true
	})
	if len(periods) != 1 {
		return "", fmt.Errorf("samplingSender.Send: expected exactly one `aggCount %% N`, found %d", len(periods))
	}

	// ---- errors the chunker originates, and what the only caller does with SendAll's error
	var errOrigins []string
	for _, d := range chunker.f.Decls {
		fd, ok := d.(*ast.FuncDecl)
		if !ok || fd.Body == nil || fd.Type.Results == nil {
			continue
		}
		res := fd.Type.Results.List
		if len(res) == 0 || chunker.str(res[len(res)-1].Type) != "error" {
			continue
		}
		ast.Inspect(fd.Body, func(n ast.Node) bool {
			if _, ok := n.(*ast.FuncLit); ok {
				return false
			}
			ret, ok := n.(*ast.ReturnStmt)
			if !ok || len(ret.Results) == 0 {
				return true
			}
			e := ret.Results[len(ret.Results)-1]
			switch x := e.(type) {
			case *ast.Ident:
				if x.Name == "nil" || x.Name == "err" {
					return true
				}
			case *ast.CallExpr:
				if se, ok := x.Fun.(*ast.SelectorExpr); ok {
					if id, ok := se.X.(*ast.Ident); ok && id.Name == "c" {
						return true // c.Send / c.sendOne / c.sendResponseMsg / c.Flush / c.sendFunc: propagated
					}
				}
			}
			errOrigins = append(errOrigins, fd.Name.Name+": return "+chunker.str(e))
			return true
		})
	}
	serverGo, err := parseFile(repo, "cmd/zoekt-webserver/grpc/server/server.go")
	if err != nil {
		return "", err
	}
	var sendAllUses []string
	ast.Inspect(serverGo.f, func(n ast.Node) bool {
		switch x := n.(type) {
		case *ast.AssignStmt:
			if len(x.Rhs) == 1 && strings.HasPrefix(serverGo.str(x.Rhs[0]), "chunk.SendAll(") {
				if len(x.Lhs) == 1 && serverGo.str(x.Lhs[0]) == "_" {
					sendAllUses = append(sendAllUses, "discarded")
				} else {
					sendAllUses = append(sendAllUses, "assigned to "+serverGo.str(x.Lhs[0]))
				}
			}
		case *ast.ExprStmt:
			if strings.HasPrefix(serverGo.str(x.X), "chunk.SendAll(") {
				sendAllUses = append(sendAllUses, "discarded")
			}
		case *ast.ReturnStmt:
			for _, r := range x.Results {
				if strings.HasPrefix(serverGo.str(r), "chunk.SendAll(") {
					sendAllUses = append(sendAllUses, "returned")
				}
			}
		}
		return true
	})
	if len(sendAllUses) == 0 {
		return "", fmt.Errorf("server.go: no call of chunk.SendAll found in statement position")
	}

	var sb strings.Builder
	sb.WriteString("namespace ZoektModel.Gen\n\n")
	pairs := make([]string, len(names))
	for i := range names {
		pairs[i] = fmt.Sprintf("(%s, %s)", strconv.Quote(names[i]), strconv.Quote(types[i]))
	}
	fmt.Fprintf(&sb, "def c25StatsFields : List (String × String) := [%s]\n", strings.Join(pairs, ", "))
	fmt.Fprintf(&sb, "def c25StatsAddFields : List String := %s\n", leanStrList(addFields))
	fmt.Fprintf(&sb, "def c25StatsAddOther : List String := %s\n", leanStrList(addOther))
	fmt.Fprintf(&sb, "def c25StatsZeroFields : List String := %s\n", leanStrList(zeroFields))
	fmt.Fprintf(&sb, "def c25StatsToProto : List String := %s\n", leanStrList(toFields))
	fmt.Fprintf(&sb, "def c25StatsFromProto : List String := %s\n", leanStrList(fromFields))
	fmt.Fprintf(&sb, "def c25MaxMessageSize : Nat := %d\n", maxSize)
	fmt.Fprintf(&sb, "def c25SamplingPeriod : Nat := %d\n", periods[0])
	fmt.Fprintf(&sb, "def c25ChunkerErrorOrigins : List String := %s\n", leanStrList(errOrigins))
	fmt.Fprintf(&sb, "def c25SendAllErrorUses : List String := %s\n", leanStrList(sendAllUses))
	sb.WriteString("\nend ZoektModel.Gen\n")
	return sb.String(), nil
}
