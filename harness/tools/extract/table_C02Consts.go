package main

import (
	"fmt"
	"go/ast"
	"strconv"
)

// C02Consts: the constants the findOffset theorems of C02 depend on.
//
// Expected shape:
//   - index/shard_builder.go: `const runeOffsetFrequency = <integer literal>`
//   - index/contentprovider.go, func (p *contentProvider) findOffset: exactly one call
//     `p.id.readContentSlice(byteOff, <K>*runeOffsetFrequency)` where <K> is an integer literal or utf8.UTFMax (= 4)
//   - index/bits.go, func (m runeOffsetMap) lookup: uses `runeOffset % runeOffsetFrequency`
//
// Emits Gen.c02RuneOffsetFrequency and Gen.c02FindOffsetWindowFactor.
func init() {
	register("C02Consts", func(repo string) (string, error) {
		files, err := parseDir(repo, "index")
		if err != nil {
			return "", err
		}
		fv, err := constValue(files, "runeOffsetFrequency")
		if err != nil {
			return "", err
		}
		freq, err := strconv.Atoi(fv)
		if err != nil {
			return "", fmt.Errorf("runeOffsetFrequency is %q, not an integer literal", fv)
		}
		f, fn := findFunc(files, "(*contentProvider).findOffset")
		if fn == nil {
			return "", fmt.Errorf("func findOffset not found in package index")
		}
		factor := -1
		calls := 0
		ast.Inspect(fn, func(n ast.Node) bool {
			call, ok := n.(*ast.CallExpr)
			if !ok {
				return true
			}
			sel, ok := call.Fun.(*ast.SelectorExpr)
			if !ok || sel.Sel.Name != "readContentSlice" || len(call.Args) != 2 {
				return true
			}
			calls++
			be, ok := call.Args[1].(*ast.BinaryExpr)
			if !ok || f.str(be.Y) != "runeOffsetFrequency" || be.Op.String() != "*" {
				return true
			}
			switch x := f.str(be.X); x {
			case "utf8.UTFMax":
				factor = 4
			default:
				if v, err := strconv.Atoi(x); err == nil {
					factor = v
				}
			}
			return true
		})
		if calls != 1 || factor < 0 {
			return "", fmt.Errorf("findOffset: expected one call readContentSlice(_, K*runeOffsetFrequency) with K an integer literal or utf8.UTFMax; found %d call(s), K recognised = %v", calls, factor >= 0)
		}
		_, lk := findFunc(files, "(runeOffsetMap).lookup")
		if lk == nil {
			return "", fmt.Errorf("func lookup not found in package index")
		}
		return fmt.Sprintf("namespace ZoektModel.Gen\n/-- index/shard_builder.go: runeOffsetFrequency -/\ndef c02RuneOffsetFrequency : Nat := %d\n/-- index/contentprovider.go findOffset: bytes read per skipped rune -/\ndef c02FindOffsetWindowFactor : Nat := %d\nend ZoektModel.Gen\n", freq, factor), nil
	})
}
