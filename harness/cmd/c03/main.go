// C03 harness: match locations and context. Component correspondences through the verif hooks (newlines.atOffset /
// lineStart / offsetRangeToLineRange / getLines, chunkCandidates, columnHelper.get, fillMatches / fillChunkMatches on
// real shards with synthetic sorted non-overlapping candidates) and end-to-end searches on real shards in line and
// chunk mode with 0–3 context lines, checked by a naive Go oracle and by the Lean model/spec.
package main

import (
	"encoding/json"
	"fmt"
	"os"
	"path/filepath"
	"sort"
	"strings"
	"unicode/utf8"

	"github.com/sourcegraph/zoekt"
	"github.com/sourcegraph/zoekt/index"

	"verifharness/e2lib"
	"verifharness/gen"
)

func toLib(cs []index.VerifC02Cand) []e2lib.Cand {
	var out []e2lib.Cand
	for _, c := range cs {
		out = append(out, e2lib.Cand{FileName: c.FileName, Off: int(c.Off), Sz: int(c.Sz)})
	}
	return out
}

func nlLocs(data []byte) []uint32 {
	var locs []uint32
	for i, b := range data {
		if b == '\n' {
			locs = append(locs, uint32(i))
		}
	}
	return locs
}

func genData(r *gen.Rand) []byte {
	if r.Chance(1, 6) {
		return []byte(gen.Pick(r, []string{"", "\n", "\n\n", "a", "a\n", "\na", "a\n\nb", "a\r\nb\r\n", "é\n日本\n"}))
	}
	p := e2lib.RandProfile(r, r.Chance(1, 8))
	p.Heavy4 = false
	return e2lib.GenText(r, p)
}

// sorted, non-overlapping, in-bounds content candidates (what gatherMatches hands to the fill functions);
// rune-aligned when aligned is set
func genSortedCands(r *gen.Rand, data []byte, n int, allowEmpty, aligned bool) []index.VerifC02Cand {
	var cs []index.VerifC02Cand
	pos := 0
	align := func(i int) int {
		for aligned && i < len(data) && !utf8.RuneStart(data[i]) {
			i++
		}
		return i
	}
	for i := 0; i < n && pos <= len(data); i++ {
		off := align(pos + r.Intn(min(len(data)-pos, 12)+1))
		if off > len(data) {
			break
		}
		var sz int
		switch r.Intn(6) {
		case 0:
			if allowEmpty {
				sz = 0
			} else {
				sz = 1
			}
		case 1:
			sz = r.Range(1, 30) // often spans lines
		default:
			sz = r.Range(1, 5)
		}
		end := align(min(off+sz, len(data)))
		if end == off && !(allowEmpty && sz == 0) {
			if off >= len(data) {
				break
			}
			end = align(off + 1)
		}
		cs = append(cs, index.VerifC02Cand{Off: uint32(off), Sz: uint32(end - off)})
		pos = end
	}
	return cs
}

// ---- newlines ----

type nlDetail struct {
	Data []byte   `json:"data"`
	Offs []uint32 `json:"offs"`
	Lns  []int    `json:"lns"`
}

func nlCase(w *gen.Writer, r *gen.Rand) {
	data := genData(r)
	locs := nlLocs(data)
	var offs []uint32
	for i := 0; i < 6; i++ {
		offs = append(offs, uint32(r.Intn(len(data)+2)))
	}
	for _, l := range locs { // on, before and after newlines
		if r.Chance(1, 2) {
			offs = append(offs, l, l+1)
			if l > 0 {
				offs = append(offs, l-1)
			}
		}
	}
	offs = append(offs, 0, uint32(len(data)))
	gen.Shuffle(r, offs)
	var lns []int
	for i := 0; i < 8; i++ {
		lns = append(lns, r.Range(-3, len(locs)+4))
	}
	nlRun(w, nlDetail{data, offs, lns}, "newlines")
}

func nlRunUnguarded(w *gen.Writer, d nlDetail, class string) {
	data, offs, lns := d.Data, d.Offs, d.Lns
	locs := nlLocs(data)
	n := index.VerifC03Newlines{Locs: locs, FileSize: uint32(len(data))}
	var at, ls []int
	var rl, gl []string
	for _, o := range offs {
		at = append(at, n.AtOffset(o))
	}
	for _, l := range lns {
		ls = append(ls, int(n.LineStart(l)))
	}
	for i := 0; i+1 < len(offs); i++ {
		a, b := n.OffsetRangeToLineRange(offs[i], offs[i+1])
		rl = append(rl, fmt.Sprintf("%d.%d", a, b))
	}
	for i := 0; i+1 < len(lns); i++ {
		gl = append(gl, gen.Hex(n.GetLines(data, lns[i], lns[i+1])))
	}
	// Go oracle: atOffset = 1 + number of newlines before the offset; lineStart by scanning
	verdict, key := "", ""
	for i, o := range offs {
		want := 1
		for _, l := range locs {
			if l < o {
				want++
			}
		}
		if at[i] != want {
			verdict, key = fmt.Sprintf("atOffset(%d) = %d, there are %d newlines before it", o, at[i], want-1), "atoffset"
		}
	}
	for i, l := range lns {
		want := 0
		if l >= 2 {
			want = len(data)
			if l-2 < len(locs) {
				want = int(locs[l-2]) + 1
			}
		}
		if ls[i] != want {
			verdict, key = fmt.Sprintf("lineStart(%d) = %d, want %d", l, ls[i], want), "linestart"
		}
	}
	lnsStr := make([]string, len(lns))
	for i, l := range lns {
		lnsStr[i] = fmt.Sprint(l)
	}
	in := fmt.Sprintf("nl %s %d %s %s %s", gen.NatList(locs), len(data), gen.Hex(data), gen.NatList(offs), strings.Join(lnsStr, ","))
	join := func(x []string) string {
		if len(x) == 0 {
			return "-"
		}
		return strings.Join(x, ",")
	}
	impl := fmt.Sprintf("at=%s ls=%s rl=%s gl=%s", gen.NatList(at), gen.NatList(ls), join(rl), join(gl))
	w.Emit(gen.Case{In: in, Impl: impl, Go: verdict, Key: key, Class: class, Nontrivial: len(locs) >= 2, Detail: gen.Detail(struct {
		Nl nlDetail `json:"nl"`
	}{d})})
}

// ---- chunkCandidates ----

type chunkDetail struct {
	Data  []byte               `json:"data"`
	Cands []index.VerifC02Cand `json:"cands"`
	Ctx   int                  `json:"ctx"`
}

func chunkCase(w *gen.Writer, r *gen.Rand) {
	data := genData(r)
	cs := genSortedCands(r, data, r.Range(0, 8), true, false)
	ctx := r.Intn(4)
	chunkRun(w, chunkDetail{data, cs, ctx}, "chunkCandidates")
}

func chunkRunUnguarded(w *gen.Writer, d chunkDetail, class string) {
	data, cs, ctx := d.Data, d.Cands, d.Ctx
	locs := nlLocs(data)
	got := index.VerifC03ChunkCandidates(cs, index.VerifC03Newlines{Locs: locs, FileSize: uint32(len(data))}, ctx)
	var parts []string
	for _, c := range got {
		var cc []string
		for _, x := range toLib(c.Cands) {
			cc = append(cc, fmt.Sprintf("%d.%d.%d", 0, x.Off, x.Sz))
		}
		parts = append(parts, fmt.Sprintf("%d.%d.%d.%d:%s", c.FirstLine, c.LastLine, c.MinOffset, c.MaxOffset, strings.Join(cc, "+")))
	}
	impl := "-"
	if len(parts) > 0 {
		impl = strings.Join(parts, "|")
	}
	in := fmt.Sprintf("chunk %s %d %d %s", gen.NatList(locs), len(data), ctx, e2lib.ShowCands(toLib(cs)))
	w.Emit(gen.Case{In: in, Impl: impl, Class: class, Nontrivial: len(got) >= 2 && len(cs) > len(got), Detail: gen.Detail(struct {
		Chunk chunkDetail `json:"chunk"`
	}{d})})
}

// ---- columnHelper ----

func colCase(w *gen.Writer, r *gen.Rand) {
	var data []byte
	if r.Chance(1, 3) {
		data = gen.Text(r, 30, true) // invalid UTF-8 too
	} else {
		data = genData(r)
	}
	// queries as fillContentChunkMatches makes them: (start of the line of the offset, offset), increasing offsets,
	// sometimes a restart (a smaller offset) and sometimes an offset inside a rune
	locs := nlLocs(data)
	n := index.VerifC03Newlines{Locs: locs, FileSize: uint32(len(data))}
	var qs [][2]uint32
	pos := 0
	for i, k := 0, r.Range(1, 10); i < k; i++ {
		if r.Chance(1, 8) {
			pos = r.Intn(len(data) + 1)
		} else {
			pos = min(pos+r.Intn(6), len(data))
		}
		lo := n.LineStart(n.AtOffset(uint32(pos)))
		if r.Chance(1, 10) && pos > 0 {
			lo = uint32(r.Intn(pos + 1)) // not a line start
		}
		qs = append(qs, [2]uint32{lo, uint32(pos)})
	}
	colRun(w, colDetail{data, qs}, "columnHelper")
}

type colDetail struct {
	Data []byte      `json:"data"`
	Qs   [][2]uint32 `json:"qs"`
}

func colRunUnguarded(w *gen.Writer, d colDetail, class string) {
	data, qs := d.Data, d.Qs
	got := index.VerifC03Columns(data, qs)
	var qss []string
	for _, q := range qs {
		qss = append(qss, fmt.Sprintf("%d.%d", q[0], q[1]))
	}
	in := fmt.Sprintf("col %s %s", gen.Hex(data), strings.Join(qss, ","))
	w.Emit(gen.Case{In: in, Impl: gen.NatList(got), Class: class, Nontrivial: len(qs) >= 3 && len(data) > utf8.RuneCount(data), Detail: gen.Detail(struct {
		Col colDetail `json:"col"`
	}{d})})
}

// ---- fillMatches / fillChunkMatches on a real shard with synthetic candidates ----

type fillDetail struct {
	Docs   []e2lib.Doc          `json:"docs"`
	Doc    int                  `json:"doc"`
	Cands  []index.VerifC02Cand `json:"cands"`
	Chunks bool                 `json:"chunks"`
	Ctx    int                  `json:"ctx"`
}

func fillRun(w *gen.Writer, s zoekt.Searcher, d fillDetail, class string) {
	doc := d.Docs[d.Doc]
	name := []byte(doc.Name)
	var impl, verdict, key string
	func() {
		defer func() {
			if r := recover(); r != nil {
				impl, verdict, key = "PANIC", fmt.Sprintf("panic: %v", r), "fill-panic"
			}
		}()
		lm, cm, err := index.VerifC02Fill(s, uint32(d.Doc), d.Cands, d.Ctx, d.Chunks)
		if err != nil {
			impl, verdict, key = "ERR", "fill error: "+err.Error(), "fill-error"
			return
		}
		if d.Chunks {
			impl = e2lib.RenderChunks(cm)
			verdict, key = e2lib.CheckChunks(doc.Content, name, cm)
		} else {
			impl = e2lib.RenderLines(lm)
			verdict, key = e2lib.CheckLines(doc.Content, name, d.Ctx, lm)
		}
	}()
	mode := "l"
	if d.Chunks {
		mode = "c"
	}
	in := fmt.Sprintf("fill %s %d %s %s %s", mode, d.Ctx, gen.Hex(doc.Content), gen.Hex(name), e2lib.ShowCands(toLib(d.Cands)))
	w.Emit(gen.Case{In: in, Impl: impl, Go: verdict, Key: key, Class: class + "/" + mode, Nontrivial: len(d.Cands) >= 2, Detail: gen.Detail(d)})
}

func fillCases(w *gen.Writer, r *gen.Rand, perShard int) {
	n := r.Range(1, 3)
	var docs []e2lib.Doc
	for i := 0; i < n; i++ {
		docs = append(docs, e2lib.Doc{Name: e2lib.GenName(r, i, r.Bool()), Content: genData(r)})
	}
	s, err := e2lib.BuildShard(docs)
	if err != nil {
		w.Emit(gen.Case{Go: "cannot build shard: " + err.Error(), Key: "harness-build", Class: "fill"})
		return
	}
	defer s.Close()
	for k := 0; k < perShard; k++ {
		di := r.Intn(n)
		data := docs[di].Content
		d := fillDetail{Docs: docs, Doc: di, Chunks: r.Bool(), Ctx: r.Intn(4)}
		switch {
		case r.Chance(1, 8): // file-name candidates only
			nm := []byte(docs[di].Name)
			for _, c := range genSortedCands(r, nm, r.Range(1, 3), false, true) {
				c.FileName = true
				d.Cands = append(d.Cands, c)
			}
		default:
			d.Cands = genSortedCands(r, data, r.Range(1, 8), d.Chunks, true)
			if r.Chance(1, 6) { // a file-name candidate in front: content matches win
				d.Cands = append([]index.VerifC02Cand{{FileName: true, Off: 0, Sz: 1}}, d.Cands...)
			}
		}
		if len(d.Cands) == 0 {
			continue
		}
		fillRun(w, s, d, "fill")
	}
}

// ---- corpus / replay ----

type corpusEntry struct {
	Kind string           `json:"kind"`
	E2E  *e2lib.E2ECase   `json:"e2e,omitempty"`
	Fill *fillDetail      `json:"fill,omitempty"`
	Case *json.RawMessage `json:"case,omitempty"`
}

func runEntry(w *gen.Writer, path string, class string) {
	b, err := os.ReadFile(path)
	if err != nil {
		panic(err)
	}
	var e corpusEntry
	if err := json.Unmarshal(b, &e); err != nil {
		panic(fmt.Sprintf("%s: %v", path, err))
	}
	var comp struct {
		Nl    *nlDetail    `json:"nl"`
		Chunk *chunkDetail `json:"chunk"`
		Col   *colDetail   `json:"col"`
	}
	if e.Case != nil {
		var c struct {
			Detail json.RawMessage `json:"detail"`
		}
		if err := json.Unmarshal(*e.Case, &c); err != nil {
			panic(err)
		}
		var ec e2lib.E2ECase
		var fd fillDetail
		if json.Unmarshal(c.Detail, &ec) == nil && ec.Q.Op != "" {
			e.E2E = &ec
		} else if json.Unmarshal(c.Detail, &fd) == nil && len(fd.Docs) > 0 {
			e.Fill = &fd
		} else {
			json.Unmarshal(c.Detail, &comp)
		}
	}
	switch {
	case e.E2E != nil:
		e2lib.RunE2E(w, "C03", *e.E2E, class)
	case e.Fill != nil:
		s, err := e2lib.BuildShard(e.Fill.Docs)
		if err != nil {
			panic(err)
		}
		defer s.Close()
		fillRun(w, s, *e.Fill, class)
	case comp.Nl != nil:
		nlRun(w, *comp.Nl, class)
	case comp.Chunk != nil:
		chunkRun(w, *comp.Chunk, class)
	case comp.Col != nil:
		colRun(w, *comp.Col, class)
	default:
		panic(path + ": nothing to run")
	}
}

func main() {
	f := gen.ParseFlags()
	w := gen.NewWriter(f.Out)
	defer w.Close()
	if f.Replay != "" {
		runEntry(w, f.Replay, "replay")
		return
	}
	if f.Corpus != "" {
		files, _ := filepath.Glob(filepath.Join(f.Corpus, "*.json"))
		sort.Strings(files)
		for _, p := range files {
			runEntry(w, p, "corpus")
		}
	}
	r := gen.NewRand(f.Seed)
	for i, n := 0, f.N(800, 10000); i < n; i++ {
		nlCase(w, r)
	}
	for i, n := 0, f.N(800, 10000); i < n; i++ {
		chunkCase(w, r)
	}
	for i, n := 0, f.N(800, 10000); i < n; i++ {
		colCase(w, r)
	}
	for i, n := 0, f.N(150, 1500); i < n; i++ {
		fillCases(w, r, 8)
	}
	files := 0
	for i, n := 0, f.N(100, 800); i < n; i++ {
		docs := e2lib.GenCorpus(r)
		for k := 0; k < 6; k++ {
			q, class := e2lib.GenQuery(r, docs)
			c := e2lib.E2ECase{Docs: docs, Query: e2lib.PrintQ(q), Q: e2lib.ToJSON(q), Chunks: r.Bool(), Ctx: r.Intn(4)}
			files += e2lib.RunE2E(w, "C03", c, "e2e/"+class)
		}
	}
	w.Count("e2e-files-reported", files)
}

func nlRun(w *gen.Writer, d nlDetail, class string) {
	e2lib.Guard(w, class, struct {
		Nl nlDetail `json:"nl"`
	}{d}, func() { nlRunUnguarded(w, d, class) })
}

func chunkRun(w *gen.Writer, d chunkDetail, class string) {
	e2lib.Guard(w, class, struct {
		Chunk chunkDetail `json:"chunk"`
	}{d}, func() { chunkRunUnguarded(w, d, class) })
}

func colRun(w *gen.Writer, d colDetail, class string) {
	e2lib.Guard(w, class, struct {
		Col colDetail `json:"col"`
	}{d}, func() { colRunUnguarded(w, d, class) })
}
