package main

// Parser for the canonical terms (corpus and replay files store cases as terms).

import (
	"encoding/hex"
	"math"
	"regexp/syntax"
	"strconv"
	"strings"

	"github.com/RoaringBitmap/roaring/v2"
	"github.com/grafana/regexp"
	webserverv1 "github.com/sourcegraph/zoekt/grpc/protos/zoekt/webserver/v1"
	"github.com/sourcegraph/zoekt/query"
)

type term struct {
	name string // "" for lists and atoms
	atom string
	list bool
	args []*term
}

func parseTerm(s string) (*term, string, bool) {
	i := 0
	for i < len(s) && !strings.ContainsRune("(),[]", rune(s[i])) {
		i++
	}
	word, rest := s[:i], s[i:]
	if strings.HasPrefix(rest, "(") || (word == "" && strings.HasPrefix(rest, "[")) {
		closer := byte(')')
		if rest[0] == '[' {
			closer = ']'
		}
		t := &term{name: word, list: rest[0] == '['}
		rest = rest[1:]
		for {
			if rest == "" {
				return nil, "", false
			}
			if rest[0] == closer {
				return t, rest[1:], true
			}
			a, r2, ok := parseTerm(rest)
			if !ok {
				return nil, "", false
			}
			t.args = append(t.args, a)
			rest = r2
			if strings.HasPrefix(rest, ",") {
				rest = rest[1:]
			}
		}
	}
	if word == "" {
		return nil, "", false
	}
	return &term{atom: word}, rest, true
}

func unx(t *term) string {
	b, _ := hex.DecodeString(strings.TrimPrefix(t.atom, "x"))
	return string(b)
}
func tb(t *term) bool { return t.atom == "1" }

func parsePQ(s string) (*webserverv1.Q, bool) {
	t, rest, ok := parseTerm(s)
	if !ok || rest != "" {
		return nil, false
	}
	return termToPQ(t), true
}

func termToPQ(t *term) *webserverv1.Q {
	if t.atom == "absent" {
		return nil
	}
	if t.atom == "unset" {
		return &webserverv1.Q{}
	}
	a := t.args
	switch t.name {
	case "raw":
		var fl []webserverv1.RawConfig_Flag
		for _, x := range a[0].args {
			n, _ := strconv.Atoi(x.atom)
			fl = append(fl, webserverv1.RawConfig_Flag(n))
		}
		return &webserverv1.Q{Query: &webserverv1.Q_RawConfig{RawConfig: &webserverv1.RawConfig{Flags: fl}}}
	case "re":
		return &webserverv1.Q{Query: &webserverv1.Q_Regexp{Regexp: &webserverv1.Regexp{Regexp: unx(a[0]), FileName: tb(a[1]), Content: tb(a[2]), CaseSensitive: tb(a[3])}}}
	case "sym":
		return &webserverv1.Q{Query: &webserverv1.Q_Symbol{Symbol: &webserverv1.Symbol{Expr: termToPQ(a[0])}}}
	case "lang":
		return &webserverv1.Q{Query: &webserverv1.Q_Language{Language: &webserverv1.Language{Language: unx(a[0])}}}
	case "const":
		return &webserverv1.Q{Query: &webserverv1.Q_Const{Const: tb(a[0])}}
	case "repo":
		return &webserverv1.Q{Query: &webserverv1.Q_Repo{Repo: &webserverv1.Repo{Regexp: unx(a[0])}}}
	case "reporx":
		return &webserverv1.Q{Query: &webserverv1.Q_RepoRegexp{RepoRegexp: &webserverv1.RepoRegexp{Regexp: unx(a[0])}}}
	case "brs":
		var l []*webserverv1.BranchRepos
		for _, p := range a[0].args {
			l = append(l, &webserverv1.BranchRepos{Branch: unx(p.args[0]), Repos: []byte(unx(p.args[1]))})
		}
		return &webserverv1.Q{Query: &webserverv1.Q_BranchesRepos{BranchesRepos: &webserverv1.BranchesRepos{List: l}}}
	case "ids":
		return &webserverv1.Q{Query: &webserverv1.Q_RepoIds{RepoIds: &webserverv1.RepoIds{Repos: []byte(unx(a[0]))}}}
	case "rset":
		m := map[string]bool{}
		for _, p := range a[0].args {
			m[unx(p.args[0])] = tb(p.args[1])
		}
		return &webserverv1.Q{Query: &webserverv1.Q_RepoSet{RepoSet: &webserverv1.RepoSet{Set: m}}}
	case "fset":
		var l []string
		for _, x := range a[0].args {
			l = append(l, unx(x))
		}
		return &webserverv1.Q{Query: &webserverv1.Q_FileNameSet{FileNameSet: &webserverv1.FileNameSet{Set: l}}}
	case "type":
		n, _ := strconv.Atoi(a[1].atom)
		return &webserverv1.Q{Query: &webserverv1.Q_Type{Type: &webserverv1.Type{Child: termToPQ(a[0]), Type: webserverv1.Type_Kind(n)}}}
	case "sub":
		return &webserverv1.Q{Query: &webserverv1.Q_Substring{Substring: &webserverv1.Substring{Pattern: unx(a[0]), CaseSensitive: tb(a[1]), FileName: tb(a[2]), Content: tb(a[3])}}}
	case "and", "or":
		var cs []*webserverv1.Q
		for _, x := range a[0].args {
			c := termToPQ(x)
			if c == nil {
				c = &webserverv1.Q{}
			}
			cs = append(cs, c)
		}
		if t.name == "and" {
			return &webserverv1.Q{Query: &webserverv1.Q_And{And: &webserverv1.And{Children: cs}}}
		}
		return &webserverv1.Q{Query: &webserverv1.Q_Or{Or: &webserverv1.Or{Children: cs}}}
	case "not":
		return &webserverv1.Q{Query: &webserverv1.Q_Not{Not: &webserverv1.Not{Child: termToPQ(a[0])}}}
	case "branch":
		return &webserverv1.Q{Query: &webserverv1.Q_Branch{Branch: &webserverv1.Branch{Pattern: unx(a[0]), Exact: tb(a[1])}}}
	case "boost":
		return &webserverv1.Q{Query: &webserverv1.Q_Boost{Boost: &webserverv1.Boost{Child: termToPQ(a[0]), Boost: fbitsParse(a[1].atom)}}}
	case "meta":
		return &webserverv1.Q{Query: &webserverv1.Q_Meta{Meta: &webserverv1.Meta{Key: unx(a[0]), Value: unx(a[1])}}}
	}
	return &webserverv1.Q{}
}

func fbitsParse(s string) float64 {
	u, _ := strconv.ParseUint(strings.TrimPrefix(s, "f"), 16, 64)
	return math.Float64frombits(u)
}

func parseQ(s string) (query.Q, bool) {
	t, rest, ok := parseTerm(s)
	if !ok || rest != "" {
		return nil, false
	}
	return termToQ(t), true
}

func bmOf(t *term) *roaring.Bitmap {
	bm := roaring.New()
	bm.UnmarshalBinary([]byte(unx(t)))
	return bm
}

func termToQ(t *term) query.Q {
	if t.atom == "nil" {
		return nil
	}
	a := t.args
	switch t.name {
	case "raw":
		n, _ := strconv.ParseUint(a[0].atom, 10, 64)
		return query.RawConfig(n)
	case "re":
		re, err := syntax.Parse(unx(a[0]), regexpFlags)
		if err != nil {
			re, _ = syntax.Parse("x", regexpFlags)
		}
		return &query.Regexp{Regexp: re, FileName: tb(a[1]), Content: tb(a[2]), CaseSensitive: tb(a[3])}
	case "sym":
		return &query.Symbol{Expr: termToQ(a[0])}
	case "lang":
		return &query.Language{Language: unx(a[0])}
	case "const":
		return &query.Const{Value: tb(a[0])}
	case "repo":
		return &query.Repo{Regexp: regexp.MustCompile(unx(a[0]))}
	case "reporx":
		return &query.RepoRegexp{Regexp: regexp.MustCompile(unx(a[0]))}
	case "brs":
		var l []query.BranchRepos
		for _, p := range a[0].args {
			l = append(l, query.BranchRepos{Branch: unx(p.args[0]), Repos: bmOf(p.args[1])})
		}
		return &query.BranchesRepos{List: l}
	case "ids":
		return &query.RepoIDs{Repos: bmOf(a[0])}
	case "rset":
		m := map[string]bool{}
		for _, p := range a[0].args {
			m[unx(p.args[0])] = tb(p.args[1])
		}
		return &query.RepoSet{Set: m}
	case "fset":
		m := map[string]struct{}{}
		for _, x := range a[0].args {
			m[unx(x)] = struct{}{}
		}
		return &query.FileNameSet{Set: m}
	case "type":
		n, _ := strconv.Atoi(a[1].atom)
		return &query.Type{Child: termToQ(a[0]), Type: uint8(n)}
	case "sub":
		return &query.Substring{Pattern: unx(a[0]), CaseSensitive: tb(a[1]), FileName: tb(a[2]), Content: tb(a[3])}
	case "and", "or":
		var cs []query.Q
		for _, x := range a[0].args {
			cs = append(cs, termToQ(x))
		}
		if t.name == "and" {
			return &query.And{Children: cs}
		}
		return &query.Or{Children: cs}
	case "not":
		return &query.Not{Child: termToQ(a[0])}
	case "branch":
		return &query.Branch{Pattern: unx(a[0]), Exact: tb(a[1])}
	case "boost":
		return &query.Boost{Child: termToQ(a[0]), Boost: fbitsParse(a[1].atom)}
	case "meta":
		return &query.Meta{Field: unx(a[0]), Value: regexp.MustCompile(unx(a[1]))}
	}
	return nil
}
