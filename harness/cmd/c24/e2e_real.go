package main

// End to end: real shards (index.Builder), a real searcher (search.NewDirectorySearcher), the real gRPC server as
// zoekt-webserver configures it (grpc/defaults.NewServer: no recovery interceptor) in a child process, and a real gRPC
// client. The same query is evaluated directly and through the wire; results must be equal. Requests with unset
// fields are sent over the wire; the server must answer with a status and stay alive.

import (
	"bufio"
	"context"
	"encoding/hex"
	"fmt"
	"io"
	"net"
	"os"
	"os/exec"
	"path/filepath"
	"reflect"
	"sort"
	"strings"
	"time"

	"github.com/RoaringBitmap/roaring/v2"
	"github.com/grafana/regexp"
	sglog "github.com/sourcegraph/log"
	"google.golang.org/grpc"
	"google.golang.org/grpc/codes"
	"google.golang.org/grpc/credentials/insecure"
	"google.golang.org/grpc/status"
	"google.golang.org/protobuf/proto"

	"github.com/sourcegraph/zoekt"
	grpcserver "github.com/sourcegraph/zoekt/cmd/zoekt-webserver/grpc/server"
	"github.com/sourcegraph/zoekt/grpc/defaults"
	webserverv1 "github.com/sourcegraph/zoekt/grpc/protos/zoekt/webserver/v1"
	"github.com/sourcegraph/zoekt/index"
	"github.com/sourcegraph/zoekt/query"
	"github.com/sourcegraph/zoekt/search"

	"verifharness/gen"
)

func init() {
	if dir := os.Getenv("C24_SERVER"); dir != "" {
		serverMain(dir)
		os.Exit(0)
	}
}

func endToEnd(w *gen.Writer, r *gen.Rand, f gen.Flags) { endToEndReal(w, r, f) }

// ---- child: the server

func serverMain(dir string) {
	streamer, err := search.NewDirectorySearcher(dir)
	if err != nil {
		fmt.Println("ERR", err)
		os.Exit(1)
	}
	s := defaults.NewServer(sglog.NoOp())
	webserverv1.RegisterWebserverServiceServer(s, grpcserver.NewServer(streamer))
	lis, err := net.Listen("tcp", "127.0.0.1:0")
	if err != nil {
		fmt.Println("ERR", err)
		os.Exit(1)
	}
	fmt.Println("PORT", lis.Addr().(*net.TCPAddr).Port)
	go func() { // die with the parent
		io.Copy(io.Discard, os.Stdin)
		os.Exit(0)
	}()
	s.Serve(lis)
}

type child struct {
	cmd    *exec.Cmd
	stdin  io.WriteCloser
	conn   *grpc.ClientConn
	client webserverv1.WebserverServiceClient
	done   chan struct{}
	stderr *strings.Builder
}

func startChild(dir string) (*child, error) {
	self, _ := os.Executable()
	cmd := exec.Command(self)
	cmd.Env = append(os.Environ(), "C24_SERVER="+dir, "GOTRACEBACK=single", "GOMAXPROCS=4")
	stdin, _ := cmd.StdinPipe()
	out, _ := cmd.StdoutPipe()
	var eb strings.Builder
	cmd.Stderr = &eb
	if err := cmd.Start(); err != nil {
		return nil, err
	}
	br := bufio.NewReader(out)
	line, err := br.ReadString('\n')
	if err != nil || !strings.HasPrefix(line, "PORT ") {
		cmd.Process.Kill()
		cmd.Wait()
		return nil, fmt.Errorf("server child did not start: %q %v %s", line, err, eb.String())
	}
	port := strings.TrimSpace(strings.TrimPrefix(line, "PORT "))
	conn, err := grpc.NewClient("127.0.0.1:"+port, grpc.WithTransportCredentials(insecure.NewCredentials()))
	if err != nil {
		return nil, err
	}
	c := &child{cmd: cmd, stdin: stdin, conn: conn, client: webserverv1.NewWebserverServiceClient(conn), done: make(chan struct{}), stderr: &eb}
	go func() { io.Copy(io.Discard, br); cmd.Wait(); close(c.done) }()
	return c, nil
}

func (c *child) alive() bool {
	select {
	case <-c.done:
		return false
	case <-time.After(300 * time.Millisecond): // a crashing process needs a moment to go away
		select {
		case <-c.done:
			return false
		default:
			return true
		}
	}
}

func (c *child) stop() {
	c.conn.Close()
	c.stdin.Close()
	select {
	case <-c.done:
	case <-time.After(5 * time.Second):
		c.cmd.Process.Kill()
		<-c.done
	}
}

// ---- corpus

func buildShards(dir string) error {
	type doc struct {
		name, content string
		syms          []string // symbol names to mark (first occurrence)
		branches      []string
		lang          string
	}
	repos := []struct {
		repo zoekt.Repository
		docs []doc
	}{
		{zoekt.Repository{ID: 7, Name: "github.com/a/alpha", URL: "https://example.com/alpha", Branches: []zoekt.RepositoryBranch{{Name: "HEAD", Version: "v1"}, {Name: "dev", Version: "v2"}},
			RawConfig: map[string]string{"public": "1", "fork": "0"}, Metadata: map[string]string{"k": "v", "team": "search"},
			CommitURLTemplate: "{{.Version}}", FileURLTemplate: "{{.Path}}", LineFragmentTemplate: "#L{{.LineNumber}}"},
			[]doc{
				{"main.go", "package main\n\nfunc Foo() int {\n\treturn foo + bar\n}\n\nfunc Bar() {}\n", []string{"Foo", "Bar"}, []string{"HEAD", "dev"}, "Go"},
				{"util/strings.go", "package util\n\n// foo helper\nfunc Helper(s string) string { return s + \"foo\" }\n", []string{"Helper"}, []string{"HEAD"}, "Go"},
				{"README.md", "# alpha\nfoo bar baz\n日本語 text é\n", nil, []string{"HEAD", "dev"}, "Markdown"},
				{"bin\xff\xfename.txt", "non utf8 file name, foo inside\n", nil, []string{"HEAD"}, "Text"},
				{"empty.txt", "", nil, []string{"dev"}, "Text"},
			}},
		{zoekt.Repository{ID: 70000, Name: "github.com/b/beta", URL: "https://example.com/beta", Branches: []zoekt.RepositoryBranch{{Name: "HEAD", Version: "abc"}},
			RawConfig: map[string]string{"public": "0", "fork": "1", "archived": "1"}},
			[]doc{
				{"lib.py", "def foo():\n    return 'barfoo'\n\nclass Foo:\n    pass\n", []string{"foo", "Foo"}, []string{"HEAD"}, "Python"},
				{"notes.txt", strings.Repeat("line with foo and more text\n", 40), nil, []string{"HEAD"}, "Text"},
			}},
	}
	for _, rp := range repos {
		opts := index.Options{IndexDir: dir, RepositoryDescription: rp.repo, DisableCTags: true}
		opts.SetDefaults()
		b, err := index.NewBuilder(opts)
		if err != nil {
			return err
		}
		for _, d := range rp.docs {
			doc := index.Document{Name: d.name, Content: []byte(d.content), Branches: d.branches, Language: d.lang}
			for _, s := range d.syms {
				if i := strings.Index(d.content, s); i >= 0 {
					doc.Symbols = append(doc.Symbols, index.DocumentSection{Start: uint32(i), End: uint32(i + len(s))})
					doc.SymbolsMetaData = append(doc.SymbolsMetaData, &zoekt.Symbol{Sym: s, Kind: "function", Parent: "p", ParentKind: "package"})
				}
			}
			sort.Slice(doc.Symbols, func(i, j int) bool { return doc.Symbols[i].Start < doc.Symbols[j].Start })
			if err := b.Add(doc); err != nil {
				return err
			}
		}
		if err := b.Finish(); err != nil {
			return err
		}
	}
	return nil
}

func e2eQueries(r *gen.Rand, n int) []query.Q {
	re := func(s string) *query.Regexp {
		q, _ := parseQ("re(" + xs(s) + ",0,1,0)")
		return q.(*query.Regexp)
	}
	qs := []query.Q{
		&query.Substring{Pattern: "foo"},
		&query.Substring{Pattern: "Foo", CaseSensitive: true, Content: true},
		&query.Substring{Pattern: "main", FileName: true},
		re("fo+"),
		// two matches on one line, only one of them a symbol: the real searcher returns SymbolInfo = [sym, nil]
		// (known finding C24-symbolinfo-nil, here reached through a real search); placed where ChunkMatches is on
		&query.Or{Children: []query.Q{&query.Symbol{Expr: &query.Substring{Pattern: "Foo", CaseSensitive: true}}, &query.Substring{Pattern: "int", CaseSensitive: true}}},
		re("(?i)BAR"),
		&query.Symbol{Expr: &query.Substring{Pattern: "Foo", CaseSensitive: true}},
		&query.Or{Children: []query.Q{&query.Symbol{Expr: &query.Substring{Pattern: "Foo"}}, &query.Substring{Pattern: "return"}}},
		&query.And{Children: []query.Q{&query.Substring{Pattern: "foo"}, &query.Not{Child: &query.Substring{Pattern: "baz"}}}},
		&query.And{Children: []query.Q{&query.Substring{Pattern: "foo"}, &query.Branch{Pattern: "dev"}}},
		&query.And{Children: []query.Q{&query.Substring{Pattern: "foo"}, &query.Branch{Pattern: "HEAD", Exact: true}}},
		&query.Type{Type: query.TypeRepo, Child: &query.Substring{Pattern: "foo"}},
		&query.Type{Type: query.TypeFileName, Child: &query.Substring{Pattern: "foo"}},
		&query.And{Children: []query.Q{&query.Repo{Regexp: regexp.MustCompile("alpha")}, &query.Substring{Pattern: "foo"}}},
		&query.And{Children: []query.Q{&query.RepoRegexp{Regexp: regexp.MustCompile("b/be")}, &query.Substring{Pattern: "foo"}}},
		&query.And{Children: []query.Q{&query.RepoSet{Set: map[string]bool{"github.com/a/alpha": true}}, &query.Substring{Pattern: "foo"}}},
		&query.And{Children: []query.Q{query.NewRepoIDs(70000), &query.Substring{Pattern: "foo"}}},
		&query.And{Children: []query.Q{query.NewSingleBranchesRepos("HEAD", 7, 70000), &query.Substring{Pattern: "foo"}}},
		&query.And{Children: []query.Q{query.NewFileNameSet("main.go", "lib.py"), &query.Substring{Pattern: "foo"}}},
		&query.And{Children: []query.Q{&query.Language{Language: "Go"}, &query.Substring{Pattern: "foo"}}},
		&query.Const{Value: true}, &query.Const{Value: false},
		&query.Boost{Boost: 2.5, Child: &query.Substring{Pattern: "foo"}},
		&query.And{Children: []query.Q{query.RcOnlyPublic, &query.Substring{Pattern: "foo"}}},
		&query.And{Children: []query.Q{query.RcOnlyForks | query.RcOnlyArchived, &query.Substring{Pattern: "foo"}}},
		&query.And{Children: []query.Q{&query.Meta{Field: "team", Value: regexp.MustCompile("sea.*")}, &query.Substring{Pattern: "foo"}}},
		&query.Substring{Pattern: "\xff\xfename", FileName: true},
		&query.Substring{Pattern: "日本"},
	}
	for i := 0; i < n; i++ {
		qs = append(qs, genQ(r, 2, true))
	}
	return qs
}

func zeroTimings(s *zoekt.Stats) {
	s.Duration, s.Wait, s.MatchTreeConstruction, s.MatchTreeSearch = 0, 0, 0, 0
}

func endToEndReal(w *gen.Writer, r *gen.Rand, f gen.Flags) {
	base := os.Getenv("VERIF_WORK")
	if base == "" {
		base = os.TempDir()
	}
	dir := filepath.Join(base, "c24-index")
	os.RemoveAll(dir)
	os.MkdirAll(dir, 0o755)
	defer os.RemoveAll(dir)
	fail := func(why string) {
		w.Emit(gen.Case{Go: why, Key: "e2e-setup", Class: "e2e:setup", Detail: gen.Detail(map[string]any{"kind": "e2e"})})
	}
	if err := buildShards(dir); err != nil {
		fail("building shards: " + err.Error())
		return
	}
	direct, err := search.NewDirectorySearcher(dir)
	if err != nil {
		fail("searcher: " + err.Error())
		return
	}
	defer direct.Close()
	ch, err := startChild(dir)
	if err != nil {
		fail(err.Error())
		return
	}
	defer func() { ch.stop() }()
	ctx := context.Background()

	emit := func(class, desc string, ds []difference, err error) {
		c := gen.Case{Class: "e2e:" + class, Nontrivial: true, Detail: gen.Detail(map[string]any{"kind": "e2e", "what": desc})}
		if err != nil {
			c.Go, c.Key = desc+": "+err.Error(), "e2e-error:"+class
			w.Emit(c)
			return
		}
		if len(ds) == 0 {
			w.Emit(c)
			return
		}
		seen := map[string]bool{}
		for _, d := range ds {
			if seen[d.key] {
				continue
			}
			seen[d.key] = true
			cc := c
			cc.Go = fmt.Sprintf("%s: %s differs between the direct call and the gRPC call (%s)", desc, d.path, d.what)
			cc.Key = "field-changed:" + d.key
			w.Emit(cc)
		}
	}
	// crashed reports a dead server and replaces it
	crashed := func(class, desc string, gerr error) bool {
		// a server that answered (with a response or a status of its own) is alive; only a broken transport
		// warrants the slower look at the process
		if gerr == nil || status.Code(gerr) != codes.Unavailable || ch.alive() {
			return false
		}
		msg := firstLine(ch.stderr.String())
		w.Emit(gen.Case{Class: "e2e:" + class + ":server-crashed", Nontrivial: true,
			Go:  fmt.Sprintf("%s: the server process died (%s)", desc, msg),
			Key: "server-crashed:" + class, Detail: gen.Detail(map[string]any{"kind": "e2e", "what": desc})})
		ch.stop()
		if nc, err := startChild(dir); err == nil {
			ch = nc
		}
		return true
	}

	optsList := []*zoekt.SearchOptions{
		nil, {}, {ChunkMatches: true}, {ChunkMatches: true, NumContextLines: 1}, {NumContextLines: 2}, {Whole: true},
		{DebugScore: true, ChunkMatches: true}, {UseBM25Scoring: true}, {EstimateDocCount: true},
		// display limits are left out: which matches survive them depends on the order in which shards finish
	}
	fileKey := func(fm zoekt.FileMatch) string { return fm.Repository + "\x00" + fm.FileName + "\x00" + strings.Join(fm.Branches, ",") }
	sortFiles := func(fs []zoekt.FileMatch) { // the order of equally ranked files is not deterministic across searcher instances
		sort.SliceStable(fs, func(a, b int) bool { return fileKey(fs[a]) < fileKey(fs[b]) })
	}
	qs := e2eQueries(r, f.N(40, 600))
	for i, q := range qs {
		opts := optsList[i%len(optsList)]
		if i < 2*len(optsList) {
			opts = optsList[(i/2)%len(optsList)]
		}
		desc := fmt.Sprintf("Search %s opts=%+v", showQ(q), opts)
		// direct (the in-process searcher requires non-nil options; on the wire the field is simply left unset)
		dopts := opts
		if dopts == nil {
			dopts = &zoekt.SearchOptions{}
		}
		want, werr := direct.Search(ctx, q, dopts)
		// through the wire
		var po *webserverv1.SearchOptions
		if opts != nil {
			po = opts.ToProto()
		}
		pq := query.QToProto(q)
		if _, merr := proto.Marshal(pq); merr != nil {
			// proto3 `string` fields must be valid UTF-8: such a query cannot be put on the wire at all
			w.Emit(gen.Case{Class: "e2e:search:not-marshallable", Nontrivial: true, Go: desc + ": " + merr.Error(),
				Key: "not-marshallable:non-utf8-string:query", Detail: gen.Detail(map[string]any{"kind": "e2e", "what": desc})})
			continue
		}
		resp, gerr := ch.client.Search(ctx, &webserverv1.SearchRequest{Query: pq, Opts: po})
		if crashed("search", desc, gerr) {
			continue
		}
		switch {
		case werr != nil && gerr != nil:
			emit("search:both-error", desc, nil, nil)
		case werr != nil || gerr != nil:
			emit("search", desc, nil, fmt.Errorf("direct error %v, gRPC error %v", werr, gerr))
		default:
			got := zoekt.SearchResultFromProto(resp, nil, nil)
			zeroTimings(&want.Stats)
			zeroTimings(&got.Stats)
			want.RepoURLs, want.LineFragments = nil, nil // known finding C24-repourls-dropped, reported by the value cases
			sortFiles(want.Files)
			sortFiles(got.Files)
			var ds []difference
			diff(reflect.ValueOf(want).Elem(), reflect.ValueOf(got).Elem(), "SearchResult", "SearchResult", &ds)
			cls := "search:no-files"
			if len(want.Files) > 0 {
				cls = "search:files"
			}
			emit(cls, desc, ds, nil)
		}

		// streaming: same files, whatever the chunking
		if i%3 == 0 {
			var wantFiles []zoekt.FileMatch
			werr := direct.StreamSearch(ctx, q, dopts, zoekt.SenderFunc(func(sr *zoekt.SearchResult) { wantFiles = append(wantFiles, sr.Files...) }))
			var gotFiles []zoekt.FileMatch
			stream, gerr := ch.client.StreamSearch(ctx, &webserverv1.StreamSearchRequest{Request: &webserverv1.SearchRequest{Query: query.QToProto(q), Opts: po}})
			if gerr == nil {
				for {
					m, err := stream.Recv()
					if err == io.EOF {
						break
					}
					if err != nil {
						gerr = err
						break
					}
					gotFiles = append(gotFiles, zoekt.SearchResultFromStreamProto(m, nil, nil).Files...)
				}
			}
			if crashed("stream", desc, gerr) {
				continue
			}
			if (werr != nil) != (gerr != nil) {
				emit("stream", "Stream"+desc, nil, fmt.Errorf("direct error %v, gRPC error %v", werr, gerr))
			} else {
				sortFiles(wantFiles)
				sortFiles(gotFiles)
				var ds []difference
				diff(reflect.ValueOf(&wantFiles).Elem(), reflect.ValueOf(&gotFiles).Elem(), "Files", "SearchResult.Files", &ds)
				emit("stream", "Stream"+desc, ds, nil)
			}
		}
	}

	// List, both field modes, a few repository queries
	for _, lq := range []query.Q{&query.Const{Value: true}, &query.Repo{Regexp: regexp.MustCompile("alpha")}, &query.Const{Value: false},
		query.NewRepoIDs(7), query.RcOnlyPublic, &query.Meta{Field: "k", Value: regexp.MustCompile("v")}} {
		for _, lo := range []*zoekt.ListOptions{nil, {Field: zoekt.RepoListFieldRepos}, {Field: zoekt.RepoListFieldReposMap}} {
			desc := fmt.Sprintf("List %s opts=%+v", showQ(lq), lo)
			want, werr := direct.List(ctx, lq, lo)
			resp, gerr := ch.client.List(ctx, &webserverv1.ListRequest{Query: query.QToProto(lq), Opts: lo.ToProto()})
			if crashed("list", desc, gerr) {
				continue
			}
			if werr != nil || gerr != nil {
				if (werr != nil) != (gerr != nil) {
					emit("list", desc, nil, fmt.Errorf("direct error %v, gRPC error %v", werr, gerr))
				}
				continue
			}
			got := zoekt.RepoListFromProto(resp)
			sort.Slice(want.Repos, func(a, b int) bool { return want.Repos[a].Repository.Name < want.Repos[b].Repository.Name })
			sort.Slice(got.Repos, func(a, b int) bool { return got.Repos[a].Repository.Name < got.Repos[b].Repository.Name })
			var ds []difference
			diff(reflect.ValueOf(want).Elem(), reflect.ValueOf(got).Elem(), "RepoList", "RepoList", &ds)
			emit("list", desc, ds, nil)
		}
	}

	// requests with holes, and syntactically valid but structurally invalid bitmaps, against the real server
	zeroRuns, _ := hex.DecodeString("3b30000001010028140000497a2814") // roaring run container with zero runs (see C26)
	_ = roaring.New
	holes := []struct {
		name string
		q    *webserverv1.Q
	}{
		{"absent-query", nil},
		{"unset-oneof", &webserverv1.Q{}},
		{"not-without-child", &webserverv1.Q{Query: &webserverv1.Q_Not{Not: &webserverv1.Not{}}}},
		{"and-with-empty-child", &webserverv1.Q{Query: &webserverv1.Q_And{And: &webserverv1.And{Children: []*webserverv1.Q{{}}}}}},
		{"type-without-child", &webserverv1.Q{Query: &webserverv1.Q_Type{Type: &webserverv1.Type{Type: webserverv1.Type_KIND_REPO}}}},
		{"bad-regexp", &webserverv1.Q{Query: &webserverv1.Q_Regexp{Regexp: &webserverv1.Regexp{Regexp: "("}}}},
		{"garbage-bitmap", &webserverv1.Q{Query: &webserverv1.Q_RepoIds{RepoIds: &webserverv1.RepoIds{Repos: []byte{1, 2, 3}}}}},
		{"invalid-roaring-repoids", &webserverv1.Q{Query: &webserverv1.Q_RepoIds{RepoIds: &webserverv1.RepoIds{Repos: zeroRuns}}}},
		{"invalid-roaring-branchesrepos", &webserverv1.Q{Query: &webserverv1.Q_BranchesRepos{BranchesRepos: &webserverv1.BranchesRepos{List: []*webserverv1.BranchRepos{{Branch: "HEAD", Repos: zeroRuns}}}}}},
	}
	holes = append(holes, struct {
		name string
		q    *webserverv1.Q
	}{"valid-query", query.QToProto(&query.Substring{Pattern: "foo"})})
	for hi, h := range holes {
		for wi, which := range []string{"search", "stream", "list", "search-noopts", "stream-noopts"} {
			desc := which + " with " + h.name
			var po *webserverv1.SearchOptions
			if !strings.HasSuffix(which, "-noopts") {
				po = &webserverv1.SearchOptions{ChunkMatches: (hi+wi)%2 == 0}
			}
			var gerr error
			switch strings.TrimSuffix(which, "-noopts") {
			case "search":
				_, gerr = ch.client.Search(ctx, &webserverv1.SearchRequest{Query: h.q, Opts: po})
			case "stream":
				var st webserverv1.WebserverService_StreamSearchClient
				st, gerr = ch.client.StreamSearch(ctx, &webserverv1.StreamSearchRequest{Request: &webserverv1.SearchRequest{Query: h.q, Opts: po}})
				if gerr == nil {
					for {
						if _, err := st.Recv(); err != nil {
							if err != io.EOF {
								gerr = err
							}
							break
						}
					}
				}
			case "list":
				_, gerr = ch.client.List(ctx, &webserverv1.ListRequest{Query: h.q})
			}
			crashClass := "hole:" + h.name
			if h.name == "valid-query" {
				crashClass = "unset-options"
			}
			if crashed(crashClass, desc, gerr) {
				continue
			}
			c := gen.Case{Class: "e2e:hole:" + h.name + ":" + status.Code(gerr).String(), Nontrivial: true, Detail: gen.Detail(map[string]any{"kind": "e2e", "what": desc})}
			if h.name == "valid-query" {
				if gerr != nil {
					c.Go, c.Key = fmt.Sprintf("%s: %v", desc, gerr), "e2e-error:unset-options"
				}
			} else if strings.HasPrefix(h.name, "invalid-roaring") {
				// whatever the answer, the server must survive (checked above)
			} else if status.Code(gerr) != codes.InvalidArgument {
				c.Go = fmt.Sprintf("%s: expected InvalidArgument, got %v", desc, gerr)
				c.Key = "hole-not-rejected:" + h.name
			}
			w.Emit(c)
		}
	}
	// arbitrary well-formed wire messages (the generator of the converter cases: holes, bad regexps, garbage bitmaps,
	// every arm) against the real server with the real searcher behind it: a response or a status, and a live server
	for i, n := 0, f.N(150, 3000); i < n; i++ {
		p := genPQ(r, 3)
		if r.Chance(1, 20) {
			p = nil
		}
		if p != nil {
			if _, err := proto.Marshal(p); err != nil {
				continue
			}
		}
		desc := "random request " + showPQ(p)
		var gerr error
		which := []string{"search", "list", "stream"}[i%3]
		switch which {
		case "search":
			var po *webserverv1.SearchOptions
			if r.Bool() {
				po = &webserverv1.SearchOptions{ChunkMatches: r.Bool(), Whole: r.Chance(1, 4), NumContextLines: int64(r.Intn(3))}
			}
			_, gerr = ch.client.Search(ctx, &webserverv1.SearchRequest{Query: p, Opts: po})
		case "list":
			_, gerr = ch.client.List(ctx, &webserverv1.ListRequest{Query: p})
		case "stream":
			var st webserverv1.WebserverService_StreamSearchClient
			st, gerr = ch.client.StreamSearch(ctx, &webserverv1.StreamSearchRequest{Request: &webserverv1.SearchRequest{Query: p}})
			if gerr == nil {
				for {
					if _, err := st.Recv(); err != nil {
						if err != io.EOF {
							gerr = err
						}
						break
					}
				}
			}
		}
		if crashed("random-request:"+which, desc, gerr) {
			continue
		}
		w.Emit(gen.Case{Class: "e2e:random-request:" + which + ":" + status.Code(gerr).String(), Nontrivial: true,
			Detail: gen.Detail(map[string]any{"kind": "e2e", "what": desc})})
	}

	if which := "stream"; true { // an entirely empty StreamSearchRequest
		st, gerr := ch.client.StreamSearch(ctx, &webserverv1.StreamSearchRequest{})
		if gerr == nil {
			_, gerr = st.Recv()
		}
		if !crashed("hole:empty-stream-request", which, gerr) {
			c := gen.Case{Class: "e2e:hole:empty-stream-request:" + status.Code(gerr).String(), Nontrivial: true, Detail: gen.Detail(map[string]any{"kind": "e2e"})}
			if status.Code(gerr) != codes.InvalidArgument {
				c.Go, c.Key = fmt.Sprintf("empty StreamSearchRequest: expected InvalidArgument, got %v", gerr), "hole-not-rejected:empty-stream-request"
			}
			w.Emit(c)
		}
	}
}
