package main

import (
	"verifharness/gen"
)

// endToEnd is filled in by e2e_real.go (real shards, real searcher, real gRPC server and client).
var endToEnd = func(w *gen.Writer, r *gen.Rand, f gen.Flags) {}
