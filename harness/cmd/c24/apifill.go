package main

// Reflection-based generator and comparator for the API value types (SearchOptions, SearchResult, RepoList, …):
// every field of every struct gets a random value (unexported ones through unsafe), so that a field a converter
// forgets shows up as a difference after the round trip. Shares no code with api_proto.go.

import (
	"fmt"
	"math"
	"reflect"
	"strings"
	"time"
	"unsafe"

	"verifharness/gen"
)

var utf8Words = []string{"", "a", "main", "HEAD", "日本語", "é", "foo/bar.go", "x y", "{{.Version}}", "ü-ñ", "\u0000", "https://example.com/r"}

func settable(v reflect.Value) reflect.Value {
	if v.CanSet() {
		return v
	}
	return reflect.NewAt(v.Type(), unsafe.Pointer(v.UnsafeAddr())).Elem()
}

var timeType = reflect.TypeOf(time.Time{})

// fill assigns a random value to v (addressable). depth bounds recursive types (Repository.SubRepoMap).
func fill(r *gen.Rand, v reflect.Value, depth int, path string) {
	v = settable(v)
	t := v.Type()
	switch {
	case t == timeType:
		switch r.Intn(4) {
		case 0:
			v.Set(reflect.ValueOf(time.Time{}))
		case 1:
			v.Set(reflect.ValueOf(time.Unix(int64(r.Intn(2000000000)), int64(r.Intn(1000000000))).In(time.FixedZone("x", 3600))))
		default:
			v.Set(reflect.ValueOf(time.Unix(int64(r.Intn(2000000000)), int64(r.Intn(1000000000))).UTC()))
		}
		return
	case t.Name() == "FlushReason":
		v.SetUint(uint64(gen.Pick(r, []int{0, 1, 2, 4})))
		return
	case t.Name() == "RepoListField":
		v.SetInt(int64(gen.Pick(r, []int{0, 2})))
		return
	}
	switch t.Kind() {
	case reflect.Bool:
		v.SetBool(r.Bool())
	case reflect.Int, reflect.Int8, reflect.Int16, reflect.Int32, reflect.Int64:
		var x int64
		switch r.Intn(5) {
		case 0:
			x = 0
		case 1:
			x = -int64(r.Intn(1000)) - 1
		case 2:
			x = int64(r.U64()) // full range
		default:
			x = int64(r.Intn(100000)) + 1
		}
		bits := t.Bits()
		if bits < 64 {
			x = x % (1 << (bits - 1))
		}
		v.SetInt(x)
	case reflect.Uint, reflect.Uint8, reflect.Uint16, reflect.Uint32, reflect.Uint64:
		x := r.U64()
		if r.Bool() {
			x = uint64(r.Intn(70000))
		}
		bits := t.Bits()
		if bits < 64 {
			x &= (1 << bits) - 1
		}
		v.SetUint(x)
	case reflect.Float32, reflect.Float64:
		switch r.Intn(6) {
		case 0:
			v.SetFloat(0)
		case 1:
			v.SetFloat(math.Inf(-1))
		case 2:
			v.SetFloat(math.NaN())
		default:
			v.SetFloat(float64(r.Intn(1000000))/7 - 500)
		}
	case reflect.String:
		s := gen.Pick(r, utf8Words)
		if r.Chance(1, 3) {
			s += fmt.Sprint(r.Intn(100))
		}
		v.SetString(s)
	case reflect.Slice:
		if t.Elem().Kind() == reflect.Uint8 { // []byte: arbitrary bytes
			n := r.Intn(6)
			if n == 0 && r.Bool() {
				v.Set(reflect.Zero(t))
				return
			}
			b := make([]byte, n)
			for i := range b {
				b[i] = byte(r.Intn(256))
			}
			v.SetBytes(b)
			return
		}
		n := r.Intn(4)
		if depth <= 0 {
			n = 0
		}
		if n == 0 && r.Bool() {
			v.Set(reflect.Zero(t)) // nil
			return
		}
		s := reflect.MakeSlice(t, n, n)
		for i := 0; i < n; i++ {
			// []*Symbol legitimately holds nil entries (ChunkMatch.SymbolInfo: "nil if the range is not a symbol")
			if t.Elem().Kind() == reflect.Ptr && t.Elem().Elem().Name() == "Symbol" && r.Chance(1, 3) {
				continue
			}
			fill(r, s.Index(i), depth-1, fmt.Sprintf("%s[%d]", path, i))
		}
		v.Set(s)
	case reflect.Map:
		n := r.Intn(3)
		if depth <= 0 {
			n = 0
		}
		if n == 0 && r.Bool() {
			v.Set(reflect.Zero(t))
			return
		}
		m := reflect.MakeMapWithSize(t, n)
		for i := 0; i < n; i++ {
			k := reflect.New(t.Key()).Elem()
			fill(r, k, depth-1, path+"{key}")
			e := reflect.New(t.Elem()).Elem()
			fill(r, e, depth-1, path+"{val}")
			m.SetMapIndex(k, e)
		}
		v.Set(m)
	case reflect.Ptr:
		if depth <= 0 {
			v.Set(reflect.Zero(t))
			return
		}
		// optional pointers: *Symbol in LineFragmentMatch may be nil; container elements are filled by the caller
		if t.Elem().Name() == "Symbol" && strings.HasSuffix(path, ".SymbolInfo") && r.Chance(1, 3) {
			v.Set(reflect.Zero(t))
			return
		}
		p := reflect.New(t.Elem())
		fill(r, p.Elem(), depth-1, path)
		v.Set(p)
	case reflect.Struct:
		for i := 0; i < t.NumField(); i++ {
			fill(r, v.Field(i), depth, path+"."+t.Field(i).Name)
		}
	case reflect.Struct + 100:
	default:
		panic("fill: unsupported kind " + t.String())
	}
}

type difference struct {
	path string // SearchResult.Files[0].LineMatches[1].Line
	key  string // LineMatch.Line
	what string
}

func readable(v reflect.Value) reflect.Value {
	if v.CanInterface() || !v.CanAddr() {
		return v
	}
	return reflect.NewAt(v.Type(), unsafe.Pointer(v.UnsafeAddr())).Elem()
}

// diff lists the differences between a (sent) and b (received); nil and empty collections are identified, floats
// compare by bits (NaN = NaN), times by instant.
func diff(a, b reflect.Value, path, key string, out *[]difference) {
	a, b = readable(a), readable(b)
	t := a.Type()
	add := func(what string) { *out = append(*out, difference{path, key, what}) }
	if t == timeType {
		ta, tb := a.Interface().(time.Time), b.Interface().(time.Time)
		if !ta.Equal(tb) {
			add(fmt.Sprintf("%v != %v", ta, tb))
		}
		return
	}
	switch t.Kind() {
	case reflect.Bool:
		if a.Bool() != b.Bool() {
			add("bool")
		}
	case reflect.Int, reflect.Int8, reflect.Int16, reflect.Int32, reflect.Int64:
		if a.Int() != b.Int() {
			add(fmt.Sprintf("%d != %d", a.Int(), b.Int()))
		}
	case reflect.Uint, reflect.Uint8, reflect.Uint16, reflect.Uint32, reflect.Uint64:
		if a.Uint() != b.Uint() {
			add(fmt.Sprintf("%d != %d", a.Uint(), b.Uint()))
		}
	case reflect.Float32, reflect.Float64:
		if math.Float64bits(a.Float()) != math.Float64bits(b.Float()) && !(math.IsNaN(a.Float()) && math.IsNaN(b.Float())) {
			add(fmt.Sprintf("%v != %v", a.Float(), b.Float()))
		}
	case reflect.String:
		if a.String() != b.String() {
			add(fmt.Sprintf("%q != %q", a.String(), b.String()))
		}
	case reflect.Slice:
		if a.Len() != b.Len() {
			add(fmt.Sprintf("len %d != %d", a.Len(), b.Len()))
			return
		}
		for i := 0; i < a.Len(); i++ {
			diff(a.Index(i), b.Index(i), fmt.Sprintf("%s[%d]", path, i), key, out)
		}
	case reflect.Map:
		if a.Len() != b.Len() {
			add(fmt.Sprintf("len %d != %d", a.Len(), b.Len()))
			return
		}
		for _, k := range a.MapKeys() {
			bv := b.MapIndex(k)
			if !bv.IsValid() {
				add(fmt.Sprintf("key %v lost", k))
				continue
			}
			av := a.MapIndex(k)
			// map values are not addressable: copy
			ac := reflect.New(av.Type()).Elem()
			ac.Set(av)
			bc := reflect.New(bv.Type()).Elem()
			bc.Set(bv)
			diff(ac, bc, fmt.Sprintf("%s{%v}", path, k), key, out)
		}
	case reflect.Ptr:
		switch {
		case a.IsNil() && b.IsNil():
		case a.IsNil() != b.IsNil():
			add(fmt.Sprintf("nil-ness: sent nil=%v, received nil=%v", a.IsNil(), b.IsNil()))
			(*out)[len(*out)-1].key = key + "[nil]"
		default:
			diff(a.Elem(), b.Elem(), path, key, out)
		}
	case reflect.Struct:
		for i := 0; i < t.NumField(); i++ {
			diff(a.Field(i), b.Field(i), path+"."+t.Field(i).Name, t.Name()+"."+t.Field(i).Name, out)
		}
	default:
		panic("diff: unsupported kind " + t.String())
	}
}
