package main

// Canonical term rendering of query.Q and *webserverv1.Q, shared with the Lean driver (ZoektModel/C24/Driver.lean).
// Hand-written over the exported fields; shares no code with query_proto.go.

import (
	"encoding/hex"
	"fmt"
	"math"
	"reflect"
	"sort"
	"strings"

	"github.com/RoaringBitmap/roaring/v2"
	webserverv1 "github.com/sourcegraph/zoekt/grpc/protos/zoekt/webserver/v1"
	"github.com/sourcegraph/zoekt/query"
)

func xs(s string) string  { return "x" + hex.EncodeToString([]byte(s)) }
func xb(b []byte) string  { return "x" + hex.EncodeToString(b) }
func fbits(f float64) string { return fmt.Sprintf("f%016x", math.Float64bits(f)) }
func b01(b bool) string {
	if b {
		return "1"
	}
	return "0"
}
func bl(items []string) string { return "[" + strings.Join(items, ",") + "]" }

func bitmapTok(bm *roaring.Bitmap) string {
	if bm == nil {
		return "xNILBITMAP"
	}
	b, err := bm.ToBytes()
	if err != nil {
		return "xERR"
	}
	return xb(b)
}

func isNilQ(q query.Q) bool {
	if q == nil {
		return true
	}
	v := reflect.ValueOf(q)
	return v.Kind() == reflect.Ptr && v.IsNil()
}

func showQ(q query.Q) string {
	if isNilQ(q) {
		return "nil"
	}
	switch v := q.(type) {
	case query.RawConfig:
		return fmt.Sprintf("raw(%d)", uint64(v))
	case *query.Regexp:
		return fmt.Sprintf("re(%s,%s,%s,%s)", xs(v.RegexpString()), b01(v.FileName), b01(v.Content), b01(v.CaseSensitive))
	case *query.Symbol:
		return "sym(" + showQ(v.Expr) + ")"
	case *query.Language:
		return "lang(" + xs(v.Language) + ")"
	case *query.Const:
		return "const(" + b01(v.Value) + ")"
	case *query.Repo:
		return "repo(" + xs(v.Regexp.String()) + ")"
	case *query.RepoRegexp:
		return "reporx(" + xs(v.Regexp.String()) + ")"
	case *query.BranchesRepos:
		var p []string
		for _, br := range v.List {
			p = append(p, fmt.Sprintf("p(%s,%s)", xs(br.Branch), bitmapTok(br.Repos)))
		}
		return "brs(" + bl(p) + ")"
	case *query.RepoIDs:
		return "ids(" + bitmapTok(v.Repos) + ")"
	case *query.RepoSet:
		var p []string
		for k, b := range v.Set {
			p = append(p, fmt.Sprintf("p(%s,%s)", xs(k), b01(b)))
		}
		sort.Strings(p)
		return "rset(" + bl(p) + ")"
	case *query.FileNameSet:
		var p []string
		for k := range v.Set {
			p = append(p, xs(k))
		}
		sort.Strings(p)
		return "fset(" + bl(p) + ")"
	case *query.Type:
		return fmt.Sprintf("type(%s,%d)", showQ(v.Child), v.Type)
	case *query.Substring:
		return fmt.Sprintf("sub(%s,%s,%s,%s)", xs(v.Pattern), b01(v.CaseSensitive), b01(v.FileName), b01(v.Content))
	case *query.And:
		var p []string
		for _, c := range v.Children {
			p = append(p, showQ(c))
		}
		return "and(" + bl(p) + ")"
	case *query.Or:
		var p []string
		for _, c := range v.Children {
			p = append(p, showQ(c))
		}
		return "or(" + bl(p) + ")"
	case *query.Not:
		return "not(" + showQ(v.Child) + ")"
	case *query.Branch:
		return fmt.Sprintf("branch(%s,%s)", xs(v.Pattern), b01(v.Exact))
	case *query.Boost:
		return fmt.Sprintf("boost(%s,%s)", showQ(v.Child), fbits(v.Boost))
	case *query.Meta:
		return fmt.Sprintf("meta(%s,%s)", xs(v.Field), xs(v.Value.String()))
	}
	// package-internal node kinds (query.caseQ): no exported type to switch on
	t := fmt.Sprintf("%T", q)
	if t == "*query.caseQ" {
		return "case(" + xs(reflect.ValueOf(q).Elem().FieldByName("Flavor").String()) + ")"
	}
	return "UNKNOWN-KIND-" + strings.NewReplacer("*", "", ".", "-").Replace(t)
}

func showPQ(p *webserverv1.Q) string {
	if p == nil {
		return "absent"
	}
	switch v := p.Query.(type) {
	case nil:
		return "unset"
	case *webserverv1.Q_RawConfig:
		var fl []string
		for _, f := range v.RawConfig.GetFlags() {
			fl = append(fl, fmt.Sprint(int32(f)))
		}
		return "raw(" + bl(fl) + ")"
	case *webserverv1.Q_Regexp:
		m := v.Regexp
		return fmt.Sprintf("re(%s,%s,%s,%s)", xs(m.GetRegexp()), b01(m.GetFileName()), b01(m.GetContent()), b01(m.GetCaseSensitive()))
	case *webserverv1.Q_Symbol:
		return "sym(" + showPQ(v.Symbol.GetExpr()) + ")"
	case *webserverv1.Q_Language:
		return "lang(" + xs(v.Language.GetLanguage()) + ")"
	case *webserverv1.Q_Const:
		return "const(" + b01(v.Const) + ")"
	case *webserverv1.Q_Repo:
		return "repo(" + xs(v.Repo.GetRegexp()) + ")"
	case *webserverv1.Q_RepoRegexp:
		return "reporx(" + xs(v.RepoRegexp.GetRegexp()) + ")"
	case *webserverv1.Q_BranchesRepos:
		var ps []string
		for _, br := range v.BranchesRepos.GetList() {
			ps = append(ps, fmt.Sprintf("p(%s,%s)", xs(br.GetBranch()), xb(br.GetRepos())))
		}
		return "brs(" + bl(ps) + ")"
	case *webserverv1.Q_RepoIds:
		return "ids(" + xb(v.RepoIds.GetRepos()) + ")"
	case *webserverv1.Q_RepoSet:
		var ps []string
		for k, b := range v.RepoSet.GetSet() {
			ps = append(ps, fmt.Sprintf("p(%s,%s)", xs(k), b01(b)))
		}
		sort.Strings(ps)
		return "rset(" + bl(ps) + ")"
	case *webserverv1.Q_FileNameSet:
		var ps []string
		for _, k := range v.FileNameSet.GetSet() {
			ps = append(ps, xs(k))
		}
		sort.Strings(ps)
		return "fset(" + bl(ps) + ")"
	case *webserverv1.Q_Type:
		return fmt.Sprintf("type(%s,%d)", showPQ(v.Type.GetChild()), int32(v.Type.GetType()))
	case *webserverv1.Q_Substring:
		m := v.Substring
		return fmt.Sprintf("sub(%s,%s,%s,%s)", xs(m.GetPattern()), b01(m.GetCaseSensitive()), b01(m.GetFileName()), b01(m.GetContent()))
	case *webserverv1.Q_And:
		var ps []string
		for _, c := range v.And.GetChildren() {
			ps = append(ps, showPQ(c))
		}
		return "and(" + bl(ps) + ")"
	case *webserverv1.Q_Or:
		var ps []string
		for _, c := range v.Or.GetChildren() {
			ps = append(ps, showPQ(c))
		}
		return "or(" + bl(ps) + ")"
	case *webserverv1.Q_Not:
		return "not(" + showPQ(v.Not.GetChild()) + ")"
	case *webserverv1.Q_Branch:
		return fmt.Sprintf("branch(%s,%s)", xs(v.Branch.GetPattern()), b01(v.Branch.GetExact()))
	case *webserverv1.Q_Boost:
		return fmt.Sprintf("boost(%s,%s)", showPQ(v.Boost.GetChild()), fbits(v.Boost.GetBoost()))
	case *webserverv1.Q_Meta:
		return fmt.Sprintf("meta(%s,%s)", xs(v.Meta.GetKey()), xs(v.Meta.GetValue()))
	}
	return fmt.Sprintf("UNKNOWN-ARM-%T", p.Query)
}
