// C24 harness: the real wire converters (query/query_proto.go, api_proto.go) and the real gRPC handlers
// (cmd/zoekt-webserver/grpc/server) against the Lean model and independent Go oracles.
package main

import (
	"context"
	"encoding/json"
	"fmt"
	"os"
	"path/filepath"
	"reflect"
	"regexp/syntax"
	"sort"
	"strings"
	"time"

	"github.com/RoaringBitmap/roaring/v2"
	"github.com/grafana/regexp"
	"google.golang.org/grpc"
	"google.golang.org/grpc/codes"
	"google.golang.org/grpc/metadata"
	"google.golang.org/grpc/status"
	"google.golang.org/protobuf/proto"
	"google.golang.org/protobuf/types/known/durationpb"

	"github.com/sourcegraph/zoekt"
	grpcserver "github.com/sourcegraph/zoekt/cmd/zoekt-webserver/grpc/server"
	webserverv1 "github.com/sourcegraph/zoekt/grpc/protos/zoekt/webserver/v1"
	"github.com/sourcegraph/zoekt/query"

	"verifharness/gen"
)

const regexpFlags = syntax.ClassNL | syntax.PerlX | syntax.UnicodeGroups // query/parse.go

// ---------------------------------------------------------------- generators: query.Q

var goodPatterns = []string{"foo", "a.*b", "(?i)x+y", "[a-z]+\\d", "^x$", "a|bc", "\\bfoo\\b", "日本", "(ab)+c?", "\\.go$", "x{2,3}", "[^\\n]", ""}
var badPatterns = []string{"(", "a(b", "[a", "x{3,2}", "\\", "(?P<n", "*a"}
var words = []string{"", "a", "main", "HEAD", "日本語", "é", "foo/bar.go", "x y", "github.com/a/b", "Go", "x,y(z)[w]"}

func genBitmap(r *gen.Rand) *roaring.Bitmap {
	bm := roaring.New()
	switch r.Intn(5) {
	case 0:
	case 1:
		bm.AddRange(uint64(r.Intn(1000)), uint64(1000+r.Intn(3000)))
		bm.RunOptimize()
	default:
		for i, n := 0, r.Range(1, 6); i < n; i++ {
			bm.Add(uint32(r.Intn(3)<<16 + r.Intn(200)))
		}
	}
	return bm
}

// genQ: a random query tree. wellFormed = only values the property quantifies over (no nil child, no internal node,
// defined Type constants and RawConfig flags).
func genQ(r *gen.Rand, depth int, wellFormed bool) query.Q {
	k := r.Intn(21)
	if depth <= 0 && (k == 2 || k >= 12 && k <= 16) {
		k = 11
	}
	child := func() query.Q {
		if !wellFormed && r.Chance(1, 12) {
			switch r.Intn(3) {
			case 0:
				return nil
			case 1:
				var p *query.Substring
				return p // typed nil
			default:
				// the package-internal caseQ, as the parser produces it for "-case:yes"
				if q, err := query.Parse("-case:yes"); err == nil {
					if n, ok := q.(*query.Not); ok {
						return n.Child
					}
				}
				return nil
			}
		}
		return genQ(r, depth-1, wellFormed)
	}
	switch k {
	case 0:
		rc := query.RawConfig(r.Intn(64))
		if !wellFormed && r.Chance(1, 4) {
			rc |= query.RawConfig(1) << uint(6+r.Intn(58))
		}
		return rc
	case 1:
		re, err := syntax.Parse(gen.Pick(r, goodPatterns), regexpFlags)
		if err != nil {
			panic(err)
		}
		return &query.Regexp{Regexp: re, FileName: r.Bool(), Content: r.Bool(), CaseSensitive: r.Bool()}
	case 2:
		return &query.Symbol{Expr: child()}
	case 3:
		return &query.Language{Language: gen.Pick(r, words)}
	case 4:
		return &query.Const{Value: r.Bool()}
	case 5:
		return &query.Repo{Regexp: regexp.MustCompile(gen.Pick(r, goodPatterns))}
	case 6:
		return &query.RepoRegexp{Regexp: regexp.MustCompile(gen.Pick(r, goodPatterns))}
	case 7:
		n := r.Intn(4)
		var l []query.BranchRepos
		if n > 0 || r.Bool() {
			l = make([]query.BranchRepos, n)
		}
		for i := range l {
			l[i] = query.BranchRepos{Branch: gen.Pick(r, words), Repos: genBitmap(r)}
		}
		return &query.BranchesRepos{List: l}
	case 8:
		return &query.RepoIDs{Repos: genBitmap(r)}
	case 9:
		var m map[string]bool
		if n := r.Intn(4); n > 0 || r.Bool() {
			m = map[string]bool{}
			for i := 0; i < n; i++ {
				m[gen.Pick(r, words)] = r.Bool()
			}
		}
		return &query.RepoSet{Set: m}
	case 10:
		var m map[string]struct{}
		if n := r.Intn(4); n > 0 || r.Bool() {
			m = map[string]struct{}{}
			for i := 0; i < n; i++ {
				m[gen.Pick(r, words)] = struct{}{}
			}
		}
		return &query.FileNameSet{Set: m}
	case 11:
		return &query.Substring{Pattern: gen.Pick(r, words), CaseSensitive: r.Bool(), FileName: r.Bool(), Content: r.Bool()}
	case 12:
		t := uint8(r.Intn(3))
		if !wellFormed && r.Chance(1, 5) {
			t = uint8(3 + r.Intn(5))
		}
		return &query.Type{Child: child(), Type: t}
	case 13, 14:
		n := r.Intn(4)
		var cs []query.Q
		if n > 0 || r.Bool() {
			cs = make([]query.Q, n)
		}
		for i := range cs {
			cs[i] = child()
		}
		if k == 13 {
			return &query.And{Children: cs}
		}
		return &query.Or{Children: cs}
	case 15:
		return &query.Not{Child: child()}
	case 16:
		b := gen.Pick(r, []float64{0, 1, 0.5, 2.25, -3, 1e300})
		return &query.Boost{Child: child(), Boost: b}
	case 17:
		return &query.Branch{Pattern: gen.Pick(r, words), Exact: r.Bool()}
	case 18, 19:
		return &query.Meta{Field: gen.Pick(r, words), Value: regexp.MustCompile(gen.Pick(r, goodPatterns))}
	default:
		return &query.Substring{Pattern: gen.Pick(r, words) + "z", CaseSensitive: r.Bool()}
	}
}

// ---------------------------------------------------------------- generators: *webserverv1.Q as it can arrive from the wire

func genPQ(r *gen.Rand, depth int) *webserverv1.Q {
	k := r.Intn(22)
	if depth <= 0 && (k == 2 || k >= 12 && k <= 16) {
		k = 11
	}
	child := func() *webserverv1.Q {
		switch r.Intn(10) {
		case 0:
			return nil // message field not set
		case 1:
			return &webserverv1.Q{} // oneof not set
		}
		return genPQ(r, depth-1)
	}
	pat := func() string {
		if r.Chance(1, 5) {
			return gen.Pick(r, badPatterns)
		}
		return gen.Pick(r, goodPatterns)
	}
	bm := func() []byte {
		switch r.Intn(5) {
		case 0:
			return nil
		case 1:
			b := make([]byte, r.Range(1, 12))
			for i := range b {
				b[i] = byte(r.Intn(256))
			}
			return b
		case 2: // truncated valid serialisation
			b, _ := genBitmap(r).ToBytes()
			return b[:r.Intn(len(b))]
		}
		b, _ := genBitmap(r).ToBytes()
		return b
	}
	switch k {
	case 0:
		var fl []webserverv1.RawConfig_Flag
		for i, n := 0, r.Intn(5); i < n; i++ {
			fl = append(fl, webserverv1.RawConfig_Flag(gen.Pick(r, []int{0, 1, 2, 4, 8, 16, 32, 3, 64, 5})))
		}
		return &webserverv1.Q{Query: &webserverv1.Q_RawConfig{RawConfig: &webserverv1.RawConfig{Flags: fl}}}
	case 1:
		return &webserverv1.Q{Query: &webserverv1.Q_Regexp{Regexp: &webserverv1.Regexp{Regexp: pat(), FileName: r.Bool(), Content: r.Bool(), CaseSensitive: r.Bool()}}}
	case 2:
		return &webserverv1.Q{Query: &webserverv1.Q_Symbol{Symbol: &webserverv1.Symbol{Expr: child()}}}
	case 3:
		return &webserverv1.Q{Query: &webserverv1.Q_Language{Language: &webserverv1.Language{Language: gen.Pick(r, words)}}}
	case 4:
		return &webserverv1.Q{Query: &webserverv1.Q_Const{Const: r.Bool()}}
	case 5:
		return &webserverv1.Q{Query: &webserverv1.Q_Repo{Repo: &webserverv1.Repo{Regexp: pat()}}}
	case 6:
		return &webserverv1.Q{Query: &webserverv1.Q_RepoRegexp{RepoRegexp: &webserverv1.RepoRegexp{Regexp: pat()}}}
	case 7:
		var l []*webserverv1.BranchRepos
		for i, n := 0, r.Intn(4); i < n; i++ {
			l = append(l, &webserverv1.BranchRepos{Branch: gen.Pick(r, words), Repos: bm()})
		}
		return &webserverv1.Q{Query: &webserverv1.Q_BranchesRepos{BranchesRepos: &webserverv1.BranchesRepos{List: l}}}
	case 8:
		return &webserverv1.Q{Query: &webserverv1.Q_RepoIds{RepoIds: &webserverv1.RepoIds{Repos: bm()}}}
	case 9:
		m := map[string]bool{}
		for i, n := 0, r.Intn(4); i < n; i++ {
			m[gen.Pick(r, words)] = r.Bool()
		}
		return &webserverv1.Q{Query: &webserverv1.Q_RepoSet{RepoSet: &webserverv1.RepoSet{Set: m}}}
	case 10:
		var l []string
		for i, n := 0, r.Intn(5); i < n; i++ {
			l = append(l, gen.Pick(r, words[:5])) // duplicates likely
		}
		return &webserverv1.Q{Query: &webserverv1.Q_FileNameSet{FileNameSet: &webserverv1.FileNameSet{Set: l}}}
	case 11:
		return &webserverv1.Q{Query: &webserverv1.Q_Substring{Substring: &webserverv1.Substring{Pattern: gen.Pick(r, words), CaseSensitive: r.Bool(), FileName: r.Bool(), Content: r.Bool()}}}
	case 12:
		return &webserverv1.Q{Query: &webserverv1.Q_Type{Type: &webserverv1.Type{Child: child(), Type: webserverv1.Type_Kind(r.Intn(6))}}}
	case 13, 14:
		var cs []*webserverv1.Q
		for i, n := 0, r.Intn(4); i < n; i++ {
			c := child()
			if c == nil {
				c = &webserverv1.Q{} // a repeated field cannot hold an absent message on the wire
			}
			cs = append(cs, c)
		}
		if k == 13 {
			return &webserverv1.Q{Query: &webserverv1.Q_And{And: &webserverv1.And{Children: cs}}}
		}
		return &webserverv1.Q{Query: &webserverv1.Q_Or{Or: &webserverv1.Or{Children: cs}}}
	case 15:
		return &webserverv1.Q{Query: &webserverv1.Q_Not{Not: &webserverv1.Not{Child: child()}}}
	case 16:
		return &webserverv1.Q{Query: &webserverv1.Q_Boost{Boost: &webserverv1.Boost{Child: child(), Boost: gen.Pick(r, []float64{0, 1, 2.5, -1})}}}
	case 17:
		return &webserverv1.Q{Query: &webserverv1.Q_Branch{Branch: &webserverv1.Branch{Pattern: gen.Pick(r, words), Exact: r.Bool()}}}
	case 18, 19:
		return &webserverv1.Q{Query: &webserverv1.Q_Meta{Meta: &webserverv1.Meta{Key: gen.Pick(r, words), Value: pat()}}}
	case 20:
		return &webserverv1.Q{}
	default:
		return &webserverv1.Q{Query: &webserverv1.Q_Const{Const: true}}
	}
}

// overWire marshals and unmarshals a message: what a handler receives is always the result of proto.Unmarshal.
func overWire[M proto.Message](m M, fresh M) (M, error) {
	b, err := proto.Marshal(m)
	if err != nil {
		return fresh, err
	}
	if err := proto.Unmarshal(b, fresh); err != nil {
		return fresh, err
	}
	return fresh, nil
}

// ---------------------------------------------------------------- the external parsers' behaviour (model parameter Env)

type envTable struct {
	seen map[string]bool
	rows []string
}

func (t *envTable) add(row string) {
	if t.seen == nil {
		t.seen = map[string]bool{}
	}
	if !t.seen[row] {
		t.seen[row] = true
		t.rows = append(t.rows, row)
	}
}

func (t *envTable) re(s string) {
	out := "E"
	if p, err := query.RegexpFromProto(&webserverv1.Regexp{Regexp: s}); err == nil {
		out = xs(p.RegexpString())
	}
	t.add(fmt.Sprintf("re(%s,%s)", xs(s), out))
}
func (t *envTable) cre(s string) {
	ok := "1"
	if _, err := regexp.Compile(s); err != nil {
		ok = "0"
	}
	t.add(fmt.Sprintf("cre(%s,%s)", xs(s), ok))
}
func (t *envTable) bm(b []byte) {
	out := "E"
	bmp := roaring.NewBitmap()
	if err := bmp.UnmarshalBinary(b); err == nil {
		out = bitmapTok(bmp)
	}
	t.add(fmt.Sprintf("bm(%s,%s)", xb(b), out))
}
func (t *envTable) String() string { return bl(t.rows) }

func (t *envTable) walkPQ(p *webserverv1.Q) {
	if p == nil {
		return
	}
	switch v := p.Query.(type) {
	case *webserverv1.Q_Regexp:
		t.re(v.Regexp.GetRegexp())
	case *webserverv1.Q_Symbol:
		t.walkPQ(v.Symbol.GetExpr())
	case *webserverv1.Q_Repo:
		t.cre(v.Repo.GetRegexp())
	case *webserverv1.Q_RepoRegexp:
		t.cre(v.RepoRegexp.GetRegexp())
	case *webserverv1.Q_BranchesRepos:
		for _, br := range v.BranchesRepos.GetList() {
			t.bm(br.GetRepos())
		}
	case *webserverv1.Q_RepoIds:
		t.bm(v.RepoIds.GetRepos())
	case *webserverv1.Q_Type:
		t.walkPQ(v.Type.GetChild())
	case *webserverv1.Q_And:
		for _, c := range v.And.GetChildren() {
			t.walkPQ(c)
		}
	case *webserverv1.Q_Or:
		for _, c := range v.Or.GetChildren() {
			t.walkPQ(c)
		}
	case *webserverv1.Q_Not:
		t.walkPQ(v.Not.GetChild())
	case *webserverv1.Q_Boost:
		t.walkPQ(v.Boost.GetChild())
	case *webserverv1.Q_Meta:
		t.cre(v.Meta.GetValue())
	}
}

func (t *envTable) walkQ(q query.Q) {
	if isNilQ(q) {
		return
	}
	switch v := q.(type) {
	case *query.Regexp:
		t.re(v.RegexpString())
	case *query.Symbol:
		t.walkQ(v.Expr)
	case *query.Repo:
		t.cre(v.Regexp.String())
	case *query.RepoRegexp:
		t.cre(v.Regexp.String())
	case *query.BranchesRepos:
		for _, br := range v.List {
			b, _ := br.Repos.ToBytes()
			t.bm(b)
		}
	case *query.RepoIDs:
		b, _ := v.Repos.ToBytes()
		t.bm(b)
	case *query.Type:
		t.walkQ(v.Child)
	case *query.And:
		for _, c := range v.Children {
			t.walkQ(c)
		}
	case *query.Or:
		for _, c := range v.Children {
			t.walkQ(c)
		}
	case *query.Not:
		t.walkQ(v.Child)
	case *query.Boost:
		t.walkQ(v.Child)
	case *query.Meta:
		t.cre(v.Value.String())
	}
}

// ---------------------------------------------------------------- cases: converters

func kindOf(s string) string {
	if i := strings.IndexAny(s, "(["); i >= 0 {
		return s[:i]
	}
	return s
}

func toProtoCase(w *gen.Writer, q query.Q, class string) {
	in := "toproto " + showQ(q)
	impl := "panic"
	msg := ""
	func() {
		defer func() {
			if r := recover(); r != nil {
				msg = fmt.Sprint(r)
			}
		}()
		impl = showPQ(query.QToProto(q))
	}()
	c := gen.Case{In: in, Impl: impl, Class: "toproto:" + class + ":" + kindOf(showQ(q)), Nontrivial: strings.Count(in, "(") >= 2}
	if impl == "panic" && class == "public" {
		// every exported node kind (with non-nil children) must be convertible
		c.Go = "QToProto panics on a query built from exported node kinds: " + msg
		c.Key = "toproto-panics:" + kindOfPanic(msg)
	}
	c.Detail = gen.Detail(map[string]any{"kind": "toproto", "q": showQ(q)})
	w.Emit(c)
}

func kindOfPanic(msg string) string {
	if i := strings.Index(msg, "*query."); i >= 0 {
		return strings.Fields(msg[i+len("*query."):])[0]
	}
	if strings.Contains(msg, "<nil>") {
		return "nil"
	}
	return "other"
}

// roundTripCase: q → proto → bytes → proto → q'.
func roundTripCase(w *gen.Writer, q query.Q) {
	var t envTable
	t.walkQ(q)
	in := fmt.Sprintf("rt %s %s", showQ(q), t.String())
	c := gen.Case{In: in, Class: "rt:" + kindOf(showQ(q)), Nontrivial: strings.Count(in, "(") >= 3}
	impl := ""
	func() {
		defer func() {
			if r := recover(); r != nil {
				impl = "panic|panic"
				c.Go = fmt.Sprint("conversion panics: ", r)
				c.Key = "toproto-panics:" + kindOfPanic(fmt.Sprint(r))
			}
		}()
		p := query.QToProto(q)
		p2, err := overWire(p, &webserverv1.Q{})
		if err != nil {
			impl = "marshal-error|err"
			c.Go, c.Key = "the converted query cannot be marshalled: "+err.Error(), "not-marshallable:non-utf8-string:query"
			c.In = "" // outside the model: strings are opaque tokens there
			return
		}
		q2, err := query.QFromProto(p2)
		if err != nil {
			impl = showPQ(p2) + "|err"
			c.Go, c.Key = "QFromProto rejects what QToProto produced: "+err.Error(), "roundtrip:query:"+kindOf(showQ(q))
			return
		}
		impl = showPQ(p2) + "|" + showQ(q2)
		// independent oracle: same canonical term, and for regexps the standard library's own printer agrees
		if showQ(q2) != showQ(q) || stdRegexps(q) != stdRegexps(q2) {
			c.Go, c.Key = "query changed by the round trip", "roundtrip:query:"+kindOf(showQ(q))
		}
	}()
	c.Impl = impl
	c.Detail = gen.Detail(map[string]any{"kind": "rt", "q": showQ(q)})
	w.Emit(c)
}

// stdRegexps prints every regexp of the tree with regexp/syntax's printer (not zoekt's).
func stdRegexps(q query.Q) string {
	var sb strings.Builder
	var walk func(q query.Q)
	walk = func(q query.Q) {
		if isNilQ(q) {
			return
		}
		switch v := q.(type) {
		case *query.Regexp:
			sb.WriteString(v.Regexp.String() + "\x00")
		case *query.Symbol:
			walk(v.Expr)
		case *query.Type:
			walk(v.Child)
		case *query.And:
			for _, c := range v.Children {
				walk(c)
			}
		case *query.Or:
			for _, c := range v.Children {
				walk(c)
			}
		case *query.Not:
			walk(v.Child)
		case *query.Boost:
			walk(v.Child)
		}
	}
	walk(q)
	return sb.String()
}

func fromProtoCase(w *gen.Writer, p *webserverv1.Q) {
	var t envTable
	t.walkPQ(p)
	in := fmt.Sprintf("fromproto %s %s", showPQ(p), t.String())
	impl := "panic"
	msg := ""
	func() {
		defer func() {
			if r := recover(); r != nil {
				msg = fmt.Sprint(r)
			}
		}()
		q, err := query.QFromProto(p)
		if err != nil {
			impl = "err"
		} else {
			impl = showQ(q)
		}
	}()
	c := gen.Case{In: in, Impl: impl, Class: "fromproto:" + kindOf(showPQ(p)) + ":" + kindOf(impl), Nontrivial: strings.Count(in, "(") >= 3}
	if impl == "panic" {
		c.Go = "QFromProto panics on a well-formed wire message: " + firstLine(msg)
		c.Key = "fromproto-panics:" + panicClass(p)
	}
	c.Detail = gen.Detail(map[string]any{"kind": "fromproto", "p": showPQ(p)})
	w.Emit(c)
}

func firstLine(s string) string {
	if i := strings.IndexByte(s, '\n'); i >= 0 {
		s = s[:i]
	}
	if len(s) > 160 {
		s = s[:160]
	}
	return s
}

// panicClass: which kind of hole the message has
func panicClass(p *webserverv1.Q) string {
	s := showPQ(p)
	switch {
	case strings.Contains(s, "absent"):
		return "absent-query"
	case strings.Contains(s, "unset"):
		return "unset-oneof"
	}
	return "other"
}

// ---------------------------------------------------------------- cases: handlers

type fakeStreamer struct {
	gotQ    query.Q
	gotOpts any
	called  bool
}

func (f *fakeStreamer) Search(ctx context.Context, q query.Q, opts *zoekt.SearchOptions) (*zoekt.SearchResult, error) {
	f.called, f.gotQ, f.gotOpts = true, q, opts
	return &zoekt.SearchResult{Files: []zoekt.FileMatch{{FileName: "f"}}}, nil
}
func (f *fakeStreamer) StreamSearch(ctx context.Context, q query.Q, opts *zoekt.SearchOptions, sender zoekt.Sender) error {
	f.called, f.gotQ, f.gotOpts = true, q, opts
	sender.Send(&zoekt.SearchResult{Files: []zoekt.FileMatch{{FileName: "f"}}})
	return nil
}
func (f *fakeStreamer) List(ctx context.Context, q query.Q, opts *zoekt.ListOptions) (*zoekt.RepoList, error) {
	f.called, f.gotQ, f.gotOpts = true, q, opts
	return &zoekt.RepoList{}, nil
}
func (f *fakeStreamer) Close()         {}
func (f *fakeStreamer) String() string { return "fake" }

type fakeStream struct {
	grpc.ServerStream
	sent int
}

func (s *fakeStream) Send(*webserverv1.StreamSearchResponse) error { s.sent++; return nil }
func (s *fakeStream) Context() context.Context                      { return context.Background() }
func (s *fakeStream) SetHeader(metadata.MD) error                   { return nil }
func (s *fakeStream) SendHeader(metadata.MD) error                  { return nil }
func (s *fakeStream) SetTrailer(metadata.MD)                        {}

func genSearchOpts(r *gen.Rand) (*webserverv1.SearchOptions, *zoekt.SearchOptions) {
	if r.Chance(1, 3) {
		return nil, &zoekt.SearchOptions{} // unset on the wire: the searcher gets the zero options, never nil
	}
	p := &webserverv1.SearchOptions{}
	want := &zoekt.SearchOptions{}
	if r.Bool() {
		p.EstimateDocCount, want.EstimateDocCount = true, true
	}
	if r.Bool() {
		p.Whole, want.Whole = true, true
	}
	if r.Bool() {
		n := int64(r.Intn(1000))
		p.ShardMaxMatchCount, want.ShardMaxMatchCount = n, int(n)
	}
	if r.Bool() {
		n := int64(r.Intn(1000))
		p.TotalMaxMatchCount, want.TotalMaxMatchCount = n, int(n)
	}
	if r.Bool() { // sub-message set
		d := durationpb.New(1234567)
		p.MaxWallTime, want.MaxWallTime = d, 1234567
	}
	if r.Bool() {
		p.NumContextLines, want.NumContextLines = 3, 3
	}
	if r.Bool() {
		p.ChunkMatches, want.ChunkMatches = true, true
	}
	if r.Bool() {
		p.UseBm25Scoring, want.UseBM25Scoring = true, true
	}
	return p, want
}

func handlerCase(w *gen.Writer, r *gen.Rand, which string, p *webserverv1.Q) {
	var t envTable
	t.walkPQ(p)
	fs := &fakeStreamer{}
	optsSet := false
	srv := grpcserver.NewServer(fs)
	impl, msg, optsNote := "panic", "", ""
	func() {
		defer func() {
			if rec := recover(); rec != nil {
				msg = fmt.Sprint(rec)
			}
		}()
		var err error
		switch which {
		case "search":
			po, want := genSearchOpts(r)
			optsSet = po != nil
			req, e := overWire(&webserverv1.SearchRequest{Query: p, Opts: po}, &webserverv1.SearchRequest{})
			if e != nil {
				panic("harness: request not marshallable: " + e.Error())
			}
			var resp *webserverv1.SearchResponse
			resp, err = srv.Search(context.Background(), req)
			if err == nil && (resp == nil || len(resp.GetFiles()) != 1) {
				optsNote = "response lost the streamer's result"
			}
			if fs.called && !reflect.DeepEqual(fs.gotOpts, want) {
				optsNote = fmt.Sprintf("options changed on the way to the streamer: %+v vs %+v", fs.gotOpts, want)
			}
		case "stream":
			po, want := genSearchOpts(r)
			var inner *webserverv1.SearchRequest
			if !(p == nil && r.Chance(1, 3)) { // sometimes the whole inner request is unset
				inner = &webserverv1.SearchRequest{Query: p, Opts: po}
				optsSet = po != nil
			} else {
				want = &zoekt.SearchOptions{}
			}
			req, e := overWire(&webserverv1.StreamSearchRequest{Request: inner}, &webserverv1.StreamSearchRequest{})
			if e != nil {
				panic("harness: request not marshallable: " + e.Error())
			}
			st := &fakeStream{}
			err = srv.StreamSearch(req, st)
			if err == nil && st.sent == 0 {
				optsNote = "stream delivered nothing"
			}
			if fs.called && !reflect.DeepEqual(fs.gotOpts, want) {
				optsNote = fmt.Sprintf("options changed on the way to the streamer: %+v vs %+v", fs.gotOpts, want)
			}
		case "list":
			var po *webserverv1.ListOptions
			var want *zoekt.ListOptions
			switch r.Intn(4) {
			case 0:
			case 1:
				po, want = &webserverv1.ListOptions{}, &zoekt.ListOptions{Field: zoekt.RepoListFieldRepos}
			case 2:
				po, want = &webserverv1.ListOptions{Field: webserverv1.ListOptions_REPO_LIST_FIELD_REPOS_MAP}, &zoekt.ListOptions{Field: zoekt.RepoListFieldReposMap}
			case 3:
				po, want = &webserverv1.ListOptions{Field: webserverv1.ListOptions_REPO_LIST_FIELD_REPOS}, &zoekt.ListOptions{Field: zoekt.RepoListFieldRepos}
			}
			optsSet = po != nil
			req, e := overWire(&webserverv1.ListRequest{Query: p, Opts: po}, &webserverv1.ListRequest{})
			if e != nil {
				panic("harness: request not marshallable: " + e.Error())
			}
			_, err = srv.List(context.Background(), req)
			if fs.called && !reflect.DeepEqual(fs.gotOpts, want) {
				optsNote = fmt.Sprintf("options changed on the way to the streamer: %+v vs %+v", fs.gotOpts, want)
			}
		}
		switch {
		case err == nil && fs.called:
			ov := reflect.ValueOf(fs.gotOpts)
			o := "wire"
			switch {
			case ov.IsNil():
				o = "nil"
			case !optsSet && ov.Elem().IsZero():
				o = "zero"
			}
			impl = "ok " + showQ(fs.gotQ) + " opts=" + o
		case err == nil:
			impl = "ok-without-streamer"
		default:
			impl = "status:" + status.Code(err).String()
			if status.Code(err) == codes.Unknown {
				impl = "status:Unknown"
			}
		}
	}()
	in := fmt.Sprintf("handler %s %s %s %s", which, showPQ(p), b01(optsSet), t.String())
	c := gen.Case{In: in, Impl: impl, Class: "handler:" + which + ":" + strings.Fields(impl)[0], Nontrivial: true}
	switch {
	case impl == "panic":
		c.Go = "handler panics on a well-formed request: " + firstLine(msg)
		c.Key = "handler-panics:" + panicClass(p)
	case optsNote != "":
		c.Go, c.Key = optsNote, "handler-options:"+which
	}
	c.Detail = gen.Detail(map[string]any{"kind": "handler", "which": which, "p": showPQ(p)})
	w.Emit(c)
}

// ---------------------------------------------------------------- cases: API values (Go oracle only)

type apiType struct {
	name string
	rt   func(r *gen.Rand, variant int) (sent, received any, err error)
}

func emitDiffs(w *gen.Writer, name, variant string, sent, received any, err error) {
	c := gen.Case{Class: "api:" + name + ":" + variant, Nontrivial: true, Detail: gen.Detail(map[string]any{"kind": "api", "type": name, "variant": variant})}
	if err != nil {
		c.Go, c.Key = "conversion failed: "+err.Error(), "api-error:"+name
		w.Emit(c)
		return
	}
	var ds []difference
	diff(reflect.ValueOf(sent).Elem(), reflect.ValueOf(received).Elem(), name, name, &ds)
	if len(ds) == 0 {
		w.Emit(c)
		return
	}
	seen := map[string]bool{}
	for _, d := range ds {
		if seen[d.key] {
			continue
		}
		seen[d.key] = true
		cc := c
		cc.Go = fmt.Sprintf("%s changed by the round trip (%s)", d.path, d.what)
		cc.Key = "field-changed:" + d.key
		w.Emit(cc)
	}
}

func apiCases(w *gen.Writer, r *gen.Rand, n int) {
	for i := 0; i < n; i++ {
		// SearchOptions
		for variant := 0; variant < 2; variant++ {
			var o zoekt.SearchOptions
			fill(r, reflect.ValueOf(&o).Elem(), 3, "SearchOptions")
			vn := "wire-fields"
			if variant == 0 {
				o.SpanContext = nil // not part of the protobuf message (tracing travels in gRPC metadata)
			} else {
				vn = "all-fields"
				o.SpanContext = map[string]string{"k": "v"}
			}
			p, err := overWire(o.ToProto(), &webserverv1.SearchOptions{})
			var back *zoekt.SearchOptions
			if err == nil {
				back = zoekt.SearchOptionsFromProto(p)
			}
			emitDiffs(w, "SearchOptions", vn, &o, back, err)
		}
		// SearchResult
		for variant := 0; variant < 2; variant++ {
			var sr zoekt.SearchResult
			fill(r, reflect.ValueOf(&sr).Elem(), 4, "SearchResult")
			vn := "wire-fields"
			if variant == 0 {
				sr.RepoURLs, sr.LineFragments = nil, nil // FromProto takes them as arguments; not on the wire
			} else {
				vn = "all-fields"
				sr.RepoURLs = map[string]string{"r": "u"}
				sr.LineFragments = map[string]string{"r": "f"}
			}
			p, err := overWire(sr.ToProto(), &webserverv1.SearchResponse{})
			var back *zoekt.SearchResult
			if err == nil {
				back = zoekt.SearchResultFromProto(p, nil, nil)
			}
			emitDiffs(w, "SearchResult", vn, &sr, back, err)
			// the stream wrapper
			if variant == 0 {
				ps, err := overWire(sr.ToStreamProto(), &webserverv1.StreamSearchResponse{})
				var back2 *zoekt.SearchResult
				if err == nil {
					back2 = zoekt.SearchResultFromStreamProto(ps, nil, nil)
				}
				emitDiffs(w, "SearchResult", "stream", &sr, back2, err)
			}
		}
		// RepoList
		{
			var rl zoekt.RepoList
			fill(r, reflect.ValueOf(&rl).Elem(), 4, "RepoList")
			p, err := overWire(rl.ToProto(), &webserverv1.ListResponse{})
			var back *zoekt.RepoList
			if err == nil {
				back = zoekt.RepoListFromProto(p)
			}
			emitDiffs(w, "RepoList", "all-fields", &rl, back, err)
		}
		// ListOptions
		{
			var lo zoekt.ListOptions
			fill(r, reflect.ValueOf(&lo).Elem(), 2, "ListOptions")
			p, err := overWire(lo.ToProto(), &webserverv1.ListOptions{})
			var back *zoekt.ListOptions
			if err == nil {
				back = zoekt.ListOptionsFromProto(p)
			}
			emitDiffs(w, "ListOptions", "all-fields", &lo, back, err)
		}
	}
}

// nonUTF8Cases: protobuf `string` fields only carry valid UTF-8 (FileMatch.FileName is `bytes` for that reason); values
// whose other string fields hold arbitrary bytes — file paths, patterns — cannot be marshalled at all.
func nonUTF8Cases(w *gen.Writer) {
	bad := "dir\xff\xfe/name"
	try := func(field string, m proto.Message) {
		c := gen.Case{Class: "non-utf8:" + field, Nontrivial: true, Detail: gen.Detail(map[string]any{"kind": "api", "type": field})}
		if _, err := proto.Marshal(m); err != nil {
			c.Go = field + " holding a non-UTF-8 string cannot be marshalled: " + err.Error()
			c.Key = "not-marshallable:non-utf8-string:" + field
		}
		w.Emit(c)
	}
	try("FileMatch.FileName", (&zoekt.FileMatch{FileName: bad}).ToProto())
	try("FileMatch.SubRepositoryPath", (&zoekt.FileMatch{SubRepositoryPath: bad}).ToProto())
	try("Repository.FileTombstones", (&zoekt.Repository{FileTombstones: map[string]struct{}{bad: {}}}).ToProto())
	try("RepositoryBranch.Name", (&zoekt.RepositoryBranch{Name: bad}).ToProto())
	try("query", query.QToProto(&query.Substring{Pattern: bad}))
	try("query", query.QToProto(query.NewFileNameSet(bad)))
	try("query", query.QToProto(&query.Branch{Pattern: bad}))
}

// enumCases: the value conversions that are not plain copies, against the Lean model (ZoektModel/C24/ApiModel.lean)
func enumCases(w *gen.Writer, r *gen.Rand, n int) {
	for fr := 0; fr < 256; fr++ { // every uint8
		p := zoekt.FlushReason(fr).ToProto()
		back := zoekt.FlushReasonFromProto(p)
		w.Emit(gen.Case{In: fmt.Sprintf("flush %d", fr), Impl: fmt.Sprintf("%d %d", int32(p), uint8(back)), Class: "enum:flush", Nontrivial: fr == 1 || fr == 2 || fr == 4})
	}
	for p := -1; p < 8; p++ {
		if p >= 0 {
			w.Emit(gen.Case{In: fmt.Sprintf("flushfrom %d", p), Impl: fmt.Sprint(uint8(zoekt.FlushReasonFromProto(webserverv1.FlushReason(p)))), Class: "enum:flushfrom"})
			lo := zoekt.ListOptionsFromProto(&webserverv1.ListOptions{Field: webserverv1.ListOptions_RepoListField(p)})
			w.Emit(gen.Case{In: fmt.Sprintf("listfieldfrom %d", p), Impl: fmt.Sprint(int(lo.Field)), Class: "enum:listfieldfrom"})
		}
		lp := (&zoekt.ListOptions{Field: zoekt.RepoListField(p)}).ToProto()
		back := zoekt.ListOptionsFromProto(lp)
		w.Emit(gen.Case{In: fmt.Sprintf("listfield %d", p), Impl: fmt.Sprintf("%d %d", int32(lp.Field), int(back.Field)), Class: "enum:listfield", Nontrivial: p == 0 || p == 2})
	}
	for i := 0; i < n; i++ {
		var d int64
		switch r.Intn(6) {
		case 0:
			d = int64(r.U64())
		case 1:
			d = -int64(r.Intn(2000000000))
		case 2:
			d = []int64{0, 1, -1, 999999999, 1000000000, -999999999, -1000000000, 1<<63 - 1, -1 << 63}[r.Intn(9)]
		default:
			d = int64(r.Intn(2000000000)) * int64(r.Intn(1000))
		}
		o := zoekt.SearchOptions{MaxWallTime: time.Duration(d)}
		p := o.ToProto()
		back := zoekt.SearchOptionsFromProto(p)
		w.Emit(gen.Case{In: fmt.Sprintf("duration %d", d), Impl: fmt.Sprintf("%d %d %d", p.MaxWallTime.Seconds, p.MaxWallTime.Nanos, int64(back.MaxWallTime)), Class: "enum:duration", Nontrivial: d < 0})
		rank := uint16(r.U64())
		rp := (&zoekt.Repository{Rank: rank}).ToProto()
		rb := zoekt.RepositoryFromProto(rp)
		w.Emit(gen.Case{In: fmt.Sprintf("rank %d", rank), Impl: fmt.Sprint(rb.Rank), Class: "enum:rank"})
	}
}

// ---------------------------------------------------------------- corpus / replay / main

type stored struct {
	Kind  string `json:"kind"`
	Which string `json:"which,omitempty"`
	P     string `json:"p,omitempty"` // term of a *webserverv1.Q
	Q     string `json:"q,omitempty"` // term of a query.Q
	Note  string `json:"note,omitempty"`
}

func runStored(w *gen.Writer, r *gen.Rand, s stored) {
	switch s.Kind {
	case "fromproto":
		if p, ok := parsePQ(s.P); ok {
			fromProtoCase(w, p)
		}
	case "handler":
		if p, ok := parsePQ(s.P); ok {
			handlerCase(w, r, s.Which, p)
		}
	case "toproto", "rt":
		if q, ok := parseQ(s.Q); ok {
			if s.Kind == "rt" {
				roundTripCase(w, q)
			} else {
				toProtoCase(w, q, "public")
			}
		}
	}
}

func main() {
	f := gen.ParseFlags()
	w := gen.NewWriter(f.Out)
	defer w.Close()
	r := gen.NewRand(f.Seed)

	if f.Replay != "" {
		var rp struct {
			Case struct {
				Detail stored `json:"detail"`
			} `json:"case"`
			FirstDisagreement *struct {
				Detail stored `json:"detail"`
			} `json:"first_disagreement"`
		}
		b, err := os.ReadFile(f.Replay)
		if err != nil {
			panic(err)
		}
		json.Unmarshal(b, &rp)
		d := rp.Case.Detail
		if d.Kind == "" && rp.FirstDisagreement != nil {
			d = rp.FirstDisagreement.Detail
		}
		if d.Kind == "" {
			json.Unmarshal(b, &d)
		}
		if d.Kind != "" && d.Kind != "api" && d.Kind != "e2e" {
			runStored(w, r, d)
			return
		}
	}
	if f.Corpus != "" {
		files, _ := filepath.Glob(filepath.Join(f.Corpus, "*.json"))
		sort.Strings(files)
		for _, p := range files {
			b, err := os.ReadFile(p)
			if err != nil {
				continue
			}
			var s stored
			if json.Unmarshal(b, &s) == nil && s.Kind != "" {
				runStored(w, r, s)
			}
		}
	}

	nQ := f.N(1500, 60000)
	for i := 0; i < nQ; i++ {
		q := genQ(r, 3, true)
		roundTripCase(w, q)
		if i%2 == 0 {
			toProtoCase(w, q, "public")
		} else {
			toProtoCase(w, genQ(r, 3, false), "any")
		}
	}
	nP := f.N(2500, 100000)
	for i := 0; i < nP; i++ {
		p := genPQ(r, 3)
		if r.Chance(1, 15) {
			p = nil
		}
		var err error
		if p != nil {
			p, err = overWire(p, &webserverv1.Q{})
			if err != nil {
				panic("harness: generated message not marshallable: " + err.Error())
			}
		}
		fromProtoCase(w, p)
		handlerCase(w, r, []string{"search", "stream", "list"}[i%3], p)
	}
	apiCases(w, r, f.N(150, 5000))
	nonUTF8Cases(w)
	enumCases(w, r, f.N(200, 5000))
	endToEnd(w, r, f)
}
