package main

import (
	"fmt"
	"math"
	"reflect"
	"strconv"
	"time"

	"github.com/sourcegraph/zoekt"
)

// counterFields: every field of zoekt.Stats that is a statistics counter, found by reflection so that a field added to
// the struct is covered without touching the harness. Duration (wall clock of the whole search; by the code's own
// definition not summed by Stats.Add) and FlushReason (an enum) are the two non-counters.
var counterFields []int
var counterNames []string

func init() {
	t := reflect.TypeOf(zoekt.Stats{})
	for i := 0; i < t.NumField(); i++ {
		f := t.Field(i)
		if f.Name == "Duration" || f.Name == "FlushReason" {
			continue
		}
		switch f.Type.Kind() {
		case reflect.Int, reflect.Int64, reflect.Int32, reflect.Uint64, reflect.Uint32, reflect.Uint:
			counterFields = append(counterFields, i)
			counterNames = append(counterNames, f.Name)
		default:
			panic(fmt.Sprintf("zoekt.Stats.%s has kind %s: the C25 harness does not know whether it is a counter", f.Name, f.Type.Kind()))
		}
	}
	if len(counterFields) < 10 {
		panic("zoekt.Stats lost its counters")
	}
}

func setCounters(s *zoekt.Stats, c []int64) {
	v := reflect.ValueOf(s).Elem()
	for k, i := range counterFields {
		if k >= len(c) {
			break
		}
		f := v.Field(i)
		if f.CanInt() {
			f.SetInt(c[k])
		} else {
			f.SetUint(uint64(c[k]))
		}
	}
}

func getCounters(s zoekt.Stats) []int64 {
	v := reflect.ValueOf(s)
	out := make([]int64, len(counterFields))
	for k, i := range counterFields {
		f := v.Field(i)
		if f.CanInt() {
			out[k] = f.Int()
		} else {
			out[k] = int64(f.Uint())
		}
	}
	return out
}

func durationOf(ns int64) time.Duration { return time.Duration(ns) }

func parsePri(s string) float64 {
	switch s {
	case "-inf":
		return math.Inf(-1)
	case "+inf":
		return math.Inf(1)
	}
	i, err := strconv.Atoi(s)
	if err != nil {
		panic(err)
	}
	return float64(i)
}

func showPri(f float64) string {
	switch {
	case math.IsInf(f, -1):
		return "-inf"
	case math.IsInf(f, 1):
		return "+inf"
	case f == math.Trunc(f) && math.Abs(f) < 1e15:
		return strconv.FormatInt(int64(f), 10)
	}
	return "bad-priority-" + strconv.FormatFloat(f, 'g', -1, 64)
}
