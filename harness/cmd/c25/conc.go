package main

import (
	"context"
	"fmt"
	"io"
	"strings"
	"sync"
	"time"

	"github.com/sourcegraph/zoekt"
	grpcserver "github.com/sourcegraph/zoekt/cmd/zoekt-webserver/grpc/server"
	webserverv1 "github.com/sourcegraph/zoekt/grpc/protos/zoekt/webserver/v1"
	"github.com/sourcegraph/zoekt/query"
	"github.com/sourcegraph/zoekt/search"
	"google.golang.org/grpc/metadata"
	"google.golang.org/protobuf/proto"

	"verifharness/gen"
)

// The collector with its two goroutines (search loop, FlushWallTime timer) and a downstream sender that blocks — a slow
// client. The interleavings are forced, not hoped for: the downstream sender holds the timer's aggregate at a gate; while
// it is held the search loop's next call (a Send, or the final flush) is started and given `grace` to get anywhere. In the
// code as written it cannot (it waits for mu), whatever the timing; so a correct tree never produces a false alarm, and
// a tree where the call does get through is caught as soon as the goroutine is scheduled within `grace`.

const (
	concWall  = 25 * time.Millisecond
	concGrace = 400 * time.Millisecond
)

type concTrace struct {
	mu     sync.Mutex
	tokens []string
}

func (t *concTrace) add(s string) {
	t.mu.Lock()
	t.tokens = append(t.tokens, s)
	t.mu.Unlock()
}

// gatedSender: records B<n>/E<n> around every downstream Send (n = results in it) and holds the first aggregate flushed
// by the timer until released.
type gatedSender struct {
	tr      *concTrace
	once    sync.Once
	entered chan struct{}
	release chan struct{}
}

func (g *gatedSender) Send(r *zoekt.SearchResult) {
	n := getCounters(r.Stats)[0]
	g.tr.add(fmt.Sprintf("B%d", n))
	if r.Stats.FlushReason == zoekt.FlushReasonTimerExpired {
		first := false
		g.once.Do(func() { first = true })
		if first {
			close(g.entered)
			<-g.release
		}
	}
	g.tr.add(fmt.Sprintf("E%d", n))
}

func markedEvent(id int) *zoekt.SearchResult {
	e := eventSpec{C: make([]int64, len(counterFields)), Prio: "1", MaxP: "1", Files: []fileSpec{{ID: id, Pad: 5, Score: scoreKey(id)}}}
	e.C[0] = 1
	return mkEvent(e)
}

// runConcScenario: k results are collected, the timer flushes them and is held downstream; then
//   "send":  the search loop sends one more result (while the flush is in flight), later the final flush;
//   "final": the search loop is done and calls the final flush (while the flush is in flight).
// Returns the schedule that was forced, in the model's alphabet, and the observed trace.
func runConcScenario(kind string, k int) (sched string, tokens []string, err error) {
	tr := &concTrace{}
	g := &gatedSender{tr: tr, entered: make(chan struct{}), release: make(chan struct{})}
	sender, final := search.VerifNewFlushCollectSender(&zoekt.SearchOptions{FlushWallTime: concWall}, g)
	var sb strings.Builder
	for i := 0; i < k; i++ {
		sender.Send(markedEvent(i + 1))
		tr.add("R")
		sb.WriteString("mmmm") // call, lock, collect, return
	}
	select {
	case <-g.entered:
	case <-time.After(30 * time.Second):
		return "", nil, fmt.Errorf("the FlushWallTime timer did not flush")
	}
	// the k results may have been split if the timer fired early: read the real flush point from the trace
	sb.WriteString("ttt") // fire, lock, begin the downstream Send of the aggregate (held at the gate)
	done := make(chan struct{})
	go func() {
		if kind == "send" {
			sender.Send(markedEvent(k + 1))
			tr.add("R")
		} else {
			final()
			tr.add("F")
		}
		close(done)
	}()
	sb.WriteString("mmm") // call, and two attempts to take mu
	select {
	case <-done:
	case <-time.After(concGrace):
	}
	close(g.release)
	sb.WriteString("tt") // the downstream Send ends, the timer goroutine unlocks
	<-done
	if kind == "send" {
		sb.WriteString("mmmm") // lock, begin direct Send, end, return
		final()
		tr.add("F")
		sb.WriteString("mmmm") // call, lock, nothing to flush, return
	} else {
		sb.WriteString("mmm") // lock, nothing left to flush, return
	}
	tr.mu.Lock()
	defer tr.mu.Unlock()
	return sb.String(), append([]string(nil), tr.tokens...), nil
}

func emitConc(w *gen.Writer, kind string, k int) {
	sched, tokens, err := runConcScenario(kind, k)
	n := k
	if kind == "send" {
		n = k + 1
	}
	c := gen.Case{Class: "concurrent-" + kind + "-during-timer-flush", Nontrivial: true,
		Detail: gen.Detail(map[string]any{"op": "conc", "kind": kind, "k": k})}
	if err != nil {
		c.Go, c.Key = err.Error(), "harness-conc-timer"
		w.Emit(c)
		return
	}
	// the timer may have fired before all k results were in (a loaded machine): then this is not the forced schedule
	agg := 0
	for _, t := range tokens {
		if strings.HasPrefix(t, "B") {
			fmt.Sscanf(t, "B%d", &agg)
			break
		}
	}
	if agg != k {
		w.Count("concurrent-scenario-timer-fired-early", 1)
		return
	}
	c.In = fmt.Sprintf("sched %d %s", n, sched)
	c.Impl = strings.Join(tokens, ",")
	c.Go, c.Key = concOracle(tokens)
	w.Emit(c)
}

// concOracle: the statement on the observed trace, independent of the model: no downstream Send begins while another is in
// progress; when the final flush returns every result whose Send had returned has been delivered.
func concOracle(tokens []string) (string, string) {
	inFlight, delivered, returned := 0, 0, 0
	for _, t := range tokens {
		var n int
		switch {
		case strings.HasPrefix(t, "B"):
			if inFlight > 0 {
				return "a downstream Send began while another was in progress: " + strings.Join(tokens, " "), "collector-downstream-sends-overlap"
			}
			inFlight++
		case strings.HasPrefix(t, "E"):
			fmt.Sscanf(t, "E%d", &n)
			inFlight--
			delivered += n
		case t == "R":
			returned++
		case t == "F":
			if inFlight > 0 || delivered != returned {
				return fmt.Sprintf("the final flush returned with %d of %d results delivered: %s", delivered, returned, strings.Join(tokens, " ")), "collector-final-flush-returns-before-everything-is-delivered"
			}
		}
	}
	return "ok", ""
}

// ---- the same through the whole server: Server.StreamSearch over a searcher that wraps its sender the way
// shardedSearcher.StreamSearch does, and a client that is slow to take the aggregate ----

type slowStream struct {
	ctx     context.Context
	mu      sync.Mutex
	wire    [][]byte
	closed  bool
	late    int
	once    sync.Once
	entered chan struct{}
	release chan struct{}
}

func (r *slowStream) Send(m *webserverv1.StreamSearchResponse) error {
	b, err := proto.Marshal(m)
	if err != nil {
		return err
	}
	if len(m.GetResponseChunk().GetFiles()) > 0 {
		first := false
		r.once.Do(func() { first = true })
		if first { // flow control: the client does not take the first file message yet
			close(r.entered)
			<-r.release
		}
	}
	r.mu.Lock()
	defer r.mu.Unlock()
	if r.closed {
		r.late++ // the RPC is over: this message never reaches the client
		return nil
	}
	r.wire = append(r.wire, b)
	return nil
}

type collectingStreamer struct {
	fakeStreamer
	afterFirst func() // called once the k-th result has been sent and the timer flush is in flight
	k          int
}

func (c *collectingStreamer) StreamSearch(ctx context.Context, q query.Q, opts *zoekt.SearchOptions, sender zoekt.Sender) error {
	sender, flush := search.VerifNewFlushCollectSender(&zoekt.SearchOptions{FlushWallTime: concWall}, sender)
	for i, e := range c.events {
		if i == c.k {
			c.afterFirst()
		}
		sender.Send(mkEvent(e))
	}
	if c.k >= len(c.events) {
		c.afterFirst()
	}
	flush()
	return nil
}

// runSlowClient: k results collected, timer flush held by the slow client, then the rest of the search; what the client has
// when the RPC handler returns is what it gets.
func runSlowClient(w *gen.Writer, events []eventSpec, k int, class string) {
	st := &slowStream{ctx: context.Background(), entered: make(chan struct{}), release: make(chan struct{})}
	timedOut := false
	cs := &collectingStreamer{fakeStreamer: fakeStreamer{events: events}, k: k}
	cs.afterFirst = func() {
		select {
		case <-st.entered:
		case <-time.After(30 * time.Second):
			timedOut = true
		}
		// the client takes the message only after a while; the search goes on meanwhile
		go func() {
			time.Sleep(concGrace)
			close(st.release)
		}()
	}
	srv := grpcserver.NewServer(cs)
	err := srv.StreamSearch(constTrueReq, st)
	st.mu.Lock()
	st.closed = true
	wire := st.wire
	st.mu.Unlock()
	select { // let the held Send finish before the next case
	case <-st.release:
	case <-time.After(2 * concGrace):
	}
	time.Sleep(5 * time.Millisecond)
	c := gen.Case{Class: class, Nontrivial: true, Detail: gen.Detail(map[string]any{"op": "slowclient", "k": k, "events": events})}
	if err != nil || timedOut {
		c.Go, c.Key = fmt.Sprintf("harness: err=%v timedOut=%v", err, timedOut), "harness-slow-client"
		w.Emit(c)
		return
	}
	got := make([]received, len(wire))
	for i, b := range wire {
		got[i] = decode(b)
	}
	// files exactly once (the collected part is ranked: compare as sets), counters conserved, budget
	verdict, key := collOracle(events, got)
	c.Go, c.Key = verdict, key
	if key != "" {
		c.Key = "slow-client-" + key
	}
	w.Emit(c)
}

func genSlowClientCase(r *gen.Rand) ([]eventSpec, int) {
	g := &idgen{}
	n := r.Range(1, 6)
	budget := 1 << 20
	var evs []eventSpec
	for i := 0; i < n; i++ {
		var e eventSpec
		e.Prio, e.MaxP = genPri(r), genPri(r)
		genStats(r, &e, false)
		e.FR = 0
		e.C[0] = 1
		if i == 0 || r.Chance(1, 2) {
			e.Files = genFiles(r, g, false, &budget)
			for j := range e.Files {
				e.Files[j].Score = scoreKey(e.Files[j].ID)
			}
		}
		evs = append(evs, e)
	}
	return evs, r.Range(1, n)
}

func (r *slowStream) SetHeader(metadata.MD) error  { return nil }
func (r *slowStream) SendHeader(metadata.MD) error { return nil }
func (r *slowStream) SetTrailer(metadata.MD)       {}
func (r *slowStream) Context() context.Context     { return r.ctx }
func (r *slowStream) SendMsg(m any) error          { return r.Send(m.(*webserverv1.StreamSearchResponse)) }
func (r *slowStream) RecvMsg(m any) error          { return io.EOF }
