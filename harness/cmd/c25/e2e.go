package main

import "verifharness/gen"

func runEndToEnd(w *gen.Writer, r *gen.Rand, f gen.Flags) {}
