package main

import (
	"bytes"
	"context"
	"fmt"
	"io"
	"os"
	"path/filepath"
	"reflect"
	"strings"
	"sync"
	"time"

	"github.com/sourcegraph/zoekt"
	"github.com/sourcegraph/zoekt/index"
	webserverv1 "github.com/sourcegraph/zoekt/grpc/protos/zoekt/webserver/v1"
	"github.com/sourcegraph/zoekt/query"
	"github.com/sourcegraph/zoekt/search"
	"google.golang.org/protobuf/proto"

	"verifharness/gen"
)

// End to end: real shards → search.NewDirectorySearcher (the sharded searcher of zoekt-webserver, with its collecting /
// flush-timer senders of search/aggregate.go and sendByRepository) → grpcserver.Server.StreamSearch → real gRPC → client.
// A tap between the searcher and the gRPC layer records what the shards produced. Oracles:
//   (1) the client received exactly the tapped file matches, in the tapped order (repository, name, content compared);
//   (2) every statistics counter: sum over received messages = sum over tapped events;
//   (3) independent of all zoekt code: the received (repository, file) multiset and the FileCount / MatchCount totals
//       equal what a plain bytes.Count scan of the corpus predicts;
//   (4) no multi-file message reaches the size budget.

type corpusFile struct {
	name    string
	content []byte
}

type shardKind struct {
	repo   string
	files  []corpusFile
	copies int
}

type tapEvent struct {
	stats zoekt.Stats
	files []string // repo \x00 name \x00 len(content) \x00 number of matches
}

type tapStreamer struct {
	zoekt.Streamer
	mu     sync.Mutex
	events []tapEvent
}

func fileKey(repo, name string, content []byte, nmatch int) string {
	return fmt.Sprintf("%s\x00%s\x00%d\x00%d", repo, name, len(content), nmatch)
}

func (t *tapStreamer) StreamSearch(ctx context.Context, q query.Q, opts *zoekt.SearchOptions, sender zoekt.Sender) error {
	return t.Streamer.StreamSearch(ctx, q, opts, zoekt.SenderFunc(func(r *zoekt.SearchResult) {
		ev := tapEvent{stats: r.Stats}
		for _, f := range r.Files {
			ev.files = append(ev.files, fileKey(f.Repository, f.FileName, f.Content, len(f.LineMatches)+len(f.ChunkMatches)))
		}
		t.mu.Lock()
		t.events = append(t.events, ev)
		t.mu.Unlock()
		sender.Send(r)
	}))
}

func writeShard(dir string, k shardKind) error {
	b, err := index.NewShardBuilder(&zoekt.Repository{Name: k.repo})
	if err != nil {
		return err
	}
	for _, f := range k.files {
		if err := b.AddFile(f.name, f.content); err != nil {
			return err
		}
	}
	first := filepath.Join(dir, fmt.Sprintf("%s_v16.%05d.zoekt", k.repo, 0))
	fh, err := os.Create(first)
	if err != nil {
		return err
	}
	if err := b.Write(fh); err != nil {
		return err
	}
	if err := fh.Close(); err != nil {
		return err
	}
	// further shards of the same repository: byte copies (a ShardBuilder allocates tens of megabytes; the copies are
	// independent shards for the searcher)
	raw, err := os.ReadFile(first)
	if err != nil {
		return err
	}
	for i := 1; i < k.copies; i++ {
		if err := os.WriteFile(filepath.Join(dir, fmt.Sprintf("%s_v16.%05d.zoekt", k.repo, i)), raw, 0o644); err != nil {
			return err
		}
	}
	return nil
}

func genCorpus(r *gen.Rand, big bool) []shardKind {
	pad := func(n int) []byte {
		var sb bytes.Buffer
		for sb.Len() < n {
			fmt.Fprintf(&sb, "filler line %d of some text without the word\n", sb.Len())
		}
		return sb.Bytes()
	}
	var kinds []shardKind
	// shards without a match: many of them, so that long runs of stats-only events reach the sampling period
	kinds = append(kinds, shardKind{repo: "empty-a", copies: r.Range(60, 130), files: []corpusFile{{"a.txt", []byte("nothing to see here\n")}}})
	kinds = append(kinds, shardKind{repo: "empty-b", copies: r.Range(1, 60), files: []corpusFile{{"b.txt", []byte("neither here, but with the letters N E E D L E spread\n")}}})
	// shards with matches
	for i, n := 0, r.Range(1, 3); i < n; i++ {
		k := shardKind{repo: fmt.Sprintf("hit-%d", i), copies: r.Range(1, 6)}
		for j, m := 0, r.Range(1, 5); j < m; j++ {
			size := r.Range(0, 2000)
			if big {
				size = r.Range(100_000, 600_000)
			}
			body := append(pad(size), []byte(strings.Repeat("x NEEDLE y\n", r.Range(1, 4)))...)
			k.files = append(k.files, corpusFile{fmt.Sprintf("dir%d/file%d.txt", i, j), body})
		}
		k.files = append(k.files, corpusFile{"nomatch.txt", []byte("plain\n")})
		kinds = append(kinds, k)
	}
	if big {
		// one shard whose result holds a file beyond gRPC's default 4 MiB receive limit between ordinary ones (the search
		// returns whole file contents in these modes): it travels alone in its message and takes nothing with it
		hugeBody := append(pad(4<<20+r.Range(1, 300_000)), []byte("x NEEDLE y\n")...)
		kinds = append(kinds, shardKind{repo: "hit-huge", copies: 1, files: []corpusFile{
			{"a-small.txt", []byte("a NEEDLE\n")},
			{"b-huge.txt", hugeBody},
			{"c-small.txt", []byte("c NEEDLE\nd NEEDLE\n")},
		}})
	}
	return kinds
}

func runEndToEnd(w *gen.Writer, r *gen.Rand, f gen.Flags) {
	root := os.Getenv("VERIF_WORK")
	if root == "" {
		root = os.TempDir()
	}
	n := f.N(2, 12)
	for i := 0; i < n; i++ {
		dir, err := os.MkdirTemp(root, "c25-e2e-")
		if err != nil {
			panic(err)
		}
		mode := []string{"stream", "collect-whole", "stream-whole"}[i%3]
		runEndToEndOne(w, r, dir, mode)
		os.RemoveAll(dir)
	}
}

func runEndToEndOne(w *gen.Writer, r *gen.Rand, dir, mode string) {
	kinds := genCorpus(r, mode != "stream")
	for _, k := range kinds {
		if err := writeShard(dir, k); err != nil {
			panic(err)
		}
	}
	ss, err := search.NewDirectorySearcher(dir)
	if err != nil {
		panic(err)
	}
	defer ss.Close()
	tap := &tapStreamer{Streamer: ss}

	opts := zoekt.SearchOptions{}
	switch mode {
	case "collect-whole": // everything is collected by newFlushCollectSender and flushed once: one huge event, chunked
		opts.Whole = true
		opts.FlushWallTime = time.Hour
	case "stream-whole":
		opts.Whole = true
	}
	req := &webserverv1.StreamSearchRequest{Request: &webserverv1.SearchRequest{
		Query: query.QToProto(&query.Substring{Pattern: "NEEDLE", CaseSensitive: true, Content: true}),
		Opts:  opts.ToProto(),
	}}
	got, err := streamFilesOverGRPC(tap, req)
	c := gen.Case{Class: "e2e-" + mode, Nontrivial: true, Go: "ok", Detail: gen.Detail(map[string]any{"op": "e2e", "mode": mode})}
	fail := func(key, msg string) {
		if c.Go == "ok" {
			c.Go, c.Key = msg, key
		}
	}
	if err != nil {
		fail("e2e-rpc-failed", err.Error())
		w.Emit(c)
		return
	}
	// (1) files exactly once in the produced order
	var wantFiles, haveFiles []string
	for _, ev := range tap.events {
		wantFiles = append(wantFiles, ev.files...)
	}
	for _, m := range got {
		haveFiles = append(haveFiles, m.files...)
	}
	if strings.Join(wantFiles, "\x01") != strings.Join(haveFiles, "\x01") {
		fail("files-not-exactly-once-in-order", fmt.Sprintf("client received %d file matches, the searcher produced %d (or in another order)", len(haveFiles), len(wantFiles)))
	}
	// (2) every counter conserved
	sumP := make([]int64, len(counterFields))
	sumD := make([]int64, len(counterFields))
	for _, ev := range tap.events {
		for k, v := range getCounters(ev.stats) {
			sumP[k] += v
		}
	}
	for _, m := range got {
		for k, v := range getCounters(m.stats) {
			sumD[k] += v
		}
	}
	for k := range sumP {
		if sumP[k] != sumD[k] {
			fail("counter-not-conserved:"+counterNames[k], fmt.Sprintf("counter %s: delivered %d, produced %d", counterNames[k], sumD[k], sumP[k]))
		}
	}
	// (3) against the corpus, with no zoekt code
	want := map[string]int{}
	wantFileCount, wantMatchCount := 0, 0
	for _, k := range kinds {
		for _, cf := range k.files {
			if n := bytes.Count(cf.content, []byte("NEEDLE")); n > 0 {
				want[k.repo+"\x00"+cf.name] += k.copies
				wantFileCount += k.copies
				wantMatchCount += n * k.copies
			}
		}
	}
	have := map[string]int{}
	for _, fk := range haveFiles {
		p := strings.SplitN(fk, "\x00", 3)
		have[p[0]+"\x00"+p[1]]++
	}
	if !reflect.DeepEqual(want, have) {
		fail("e2e-result-set-differs-from-corpus-scan", fmt.Sprintf("received %d distinct files, corpus scan expects %d", len(have), len(want)))
	}
	fcIdx, mcIdx := -1, -1
	for k, nme := range counterNames {
		if nme == "FileCount" {
			fcIdx = k
		}
		if nme == "MatchCount" {
			mcIdx = k
		}
	}
	if fcIdx < 0 || mcIdx < 0 {
		panic("zoekt.Stats lost FileCount / MatchCount")
	}
	if sumD[fcIdx] != int64(wantFileCount) {
		fail("counter-not-conserved:FileCount", fmt.Sprintf("delivered FileCount %d, corpus scan expects %d", sumD[fcIdx], wantFileCount))
	}
	if sumD[mcIdx] != int64(wantMatchCount) {
		fail("counter-not-conserved:MatchCount", fmt.Sprintf("delivered MatchCount %d, corpus scan expects %d", sumD[mcIdx], wantMatchCount))
	}
	// (4) budget
	multi := 0
	for i, m := range got {
		if len(m.files) > 1 {
			multi++
			if m.itemBytes >= maxMsg {
				fail("message-over-budget", fmt.Sprintf("message %d carries %d files totalling %d >= %d", i, len(m.files), m.itemBytes, maxMsg))
			}
		}
	}
	statsOnly := 0
	for _, ev := range tap.events {
		if len(ev.files) == 0 {
			statsOnly++
		}
	}
	w.Count("e2e-events-produced", len(tap.events))
	w.Count("e2e-stats-only-events-produced", statsOnly)
	w.Count("e2e-messages-received", len(got))
	w.Count("e2e-multi-file-messages", multi)
	w.Count("e2e-files-received", len(haveFiles))
	w.Emit(c)
}

type e2eMsg struct {
	files     []string
	stats     zoekt.Stats
	itemBytes int
}

func streamFilesOverGRPC(st zoekt.Streamer, req *webserverv1.StreamSearchRequest) ([]e2eMsg, error) {
	startGRPC()
	grpcSwitch.set(st)
	cs, err := grpcClient.StreamSearch(context.Background(), req)
	if err != nil {
		return nil, err
	}
	var out []e2eMsg
	for {
		m, err := cs.Recv()
		if err == io.EOF {
			return out, nil
		}
		if err != nil {
			return out, err
		}
		sr := zoekt.SearchResultFromStreamProto(m, nil, nil)
		em := e2eMsg{stats: sr.Stats}
		for i, f := range sr.Files {
			em.files = append(em.files, fileKey(f.Repository, f.FileName, f.Content, len(f.LineMatches)+len(f.ChunkMatches)))
			em.itemBytes += proto.Size(m.GetResponseChunk().GetFiles()[i])
		}
		out = append(out, em)
	}
}
