package main

import (
	"fmt"
	"sort"
	"strings"
	"sync"
	"time"

	"github.com/sourcegraph/zoekt"
	"github.com/sourcegraph/zoekt/search"
	"google.golang.org/protobuf/proto"

	"verifharness/gen"
)

// the collecting / flush-timer sender of search/aggregate.go (newFlushCollectSender), upstream of the gRPC layer.

const collWall = 30 * time.Millisecond

func scoreKey(id int) float64 { return float64((id * 7919) % 10007) }

// runCollector sends events[:flushAt], waits for the FlushWallTime timer to flush, sends the rest, then calls the final
// flush. The flush point that actually happened is read back from the output (every event carries counter[0] = 1, the
// timer aggregate carries FlushReason 1): "none" = the timer did not fire before the final flush.
func runCollector(events []eventSpec, flushAt int) (out []received, flushPoint string) {
	var mu sync.Mutex
	next := zoekt.SenderFunc(func(r *zoekt.SearchResult) {
		rc := received{HasStats: true, Stats: r.Stats, Prio: r.Progress.Priority, MaxP: r.Progress.MaxPendingPriority}
		for _, f := range r.Files {
			var id int
			fmt.Sscanf(f.FileName, "f%d", &id)
			rc.IDs = append(rc.IDs, id)
			rc.Sizes = append(rc.Sizes, proto.Size(f.ToProto()))
		}
		mu.Lock()
		out = append(out, rc)
		mu.Unlock()
	})
	wall := time.Hour
	if flushAt >= 0 {
		wall = collWall
	}
	sender, final := search.VerifNewFlushCollectSender(&zoekt.SearchOptions{FlushWallTime: wall}, next)
	sent := 0
	for ; sent < len(events) && (flushAt < 0 || sent < flushAt); sent++ {
		sender.Send(mkEvent(events[sent]))
	}
	if flushAt >= 0 {
		deadline := time.Now().Add(20 * time.Second)
		for time.Now().Before(deadline) {
			time.Sleep(collWall / 3)
			mu.Lock()
			n := len(out)
			mu.Unlock()
			if n > 0 || (sent == 0 && time.Now().After(deadline.Add(-20*time.Second+4*collWall))) {
				break
			}
		}
		for ; sent < len(events); sent++ {
			sender.Send(mkEvent(events[sent]))
		}
	}
	final()
	mu.Lock()
	defer mu.Unlock()
	flushPoint = "none"
	for _, o := range out {
		if o.Stats.FlushReason == zoekt.FlushReasonTimerExpired {
			flushPoint = fmt.Sprint(getCounters(o.Stats)[0])
			return out, flushPoint
		}
	}
	hasFinal := false
	for _, o := range out {
		if o.Stats.FlushReason == zoekt.FlushReasonFinalFlush {
			hasFinal = true
		}
	}
	if !hasFinal && flushAt >= 0 {
		flushPoint = "0" // the timer fired before anything was collected: nothing to flush, everything streams
	}
	return out, flushPoint
}

func bucket(k string, n int) string {
	switch k {
	case "none":
		return "none"
	case "0":
		return "start"
	case fmt.Sprint(n):
		return "end"
	}
	return "middle"
}

// collOracle: counters conserved; every file exactly once (ranking may reorder the collected part).
func collOracle(events []eventSpec, got []received) (string, string) {
	var want, have []int
	sumP := make([]int64, len(counterFields))
	sumD := make([]int64, len(counterFields))
	for _, e := range events {
		for _, f := range e.Files {
			want = append(want, f.ID)
		}
		for k := range sumP {
			sumP[k] += e.C[k]
		}
	}
	for _, m := range got {
		have = append(have, m.IDs...)
		for k, v := range getCounters(m.Stats) {
			sumD[k] += v
		}
	}
	sort.Ints(want)
	sort.Ints(have)
	if !equalInts(want, have) {
		return fmt.Sprintf("collector delivered files %v, received %v", clip(have), clip(want)), "collector-files-not-exactly-once"
	}
	for k := range sumP {
		if sumP[k] != sumD[k] {
			return fmt.Sprintf("collector: counter %s delivered %d, produced %d", counterNames[k], sumD[k], sumP[k]), "collector-counter-not-conserved:" + counterNames[k]
		}
	}
	return "ok", ""
}

func genCollCase(r *gen.Rand, timer bool) (caseSpec, string) {
	g := &idgen{}
	cs := caseSpec{Op: "coll", FlushAt: -1}
	n := r.Range(0, 14)
	budget := 1 << 20
	for i := 0; i < n; i++ {
		var e eventSpec
		e.Prio, e.MaxP = genPri(r), genPri(r)
		genStats(r, &e, r.Chance(1, 3))
		e.FR = 0
		e.C[0] = 1 // marks how many results an aggregate holds
		if r.Chance(2, 3) {
			e.Files = genFiles(r, g, false, &budget)
			for j := range e.Files {
				e.Files[j].Score = scoreKey(e.Files[j].ID)
				if e.Files[j].Score == 0 {
					e.Files[j].Score = 10007
				}
			}
		}
		cs.Events = append(cs.Events, e)
	}
	if timer {
		cs.FlushAt = r.Range(0, n)
	}
	return cs, "collector"
}

// ---- sendByRepository (search/shards.go): one shard result split by repository ----

func runByRepo(cs caseSpec) (in, impl, verdict, key string) {
	e := cs.Events[0]
	sr := mkEvent(e)
	sr.RepoURLs = map[string]string{"r0": "u0"}
	if cs.Multi {
		sr.RepoURLs["r1"] = "u1"
	}
	sr.LineFragments = map[string]string{}
	var rf []string
	for i, f := range e.Files {
		sr.Files[i].RepositoryID = uint32(f.Repo)
		sr.Files[i].Repository = fmt.Sprintf("r%d", f.Repo)
		sr.Files[i].RepositoryPriority = float64(f.Repo)
		sr.RepoURLs[sr.Files[i].Repository] = "u"
		rf = append(rf, fmt.Sprintf("%d:%d", f.ID, f.Repo))
	}
	if !cs.Multi { // exactly one entry, whatever the files say
		sr.RepoURLs = map[string]string{"r0": "u0"}
	}
	multi := len(sr.RepoURLs) > 1
	type outEv struct {
		ids   []int
		stats zoekt.Stats
	}
	var outs []outEv
	search.VerifSendByRepository(sr, &zoekt.SearchOptions{}, zoekt.SenderFunc(func(r *zoekt.SearchResult) {
		o := outEv{stats: r.Stats}
		for _, f := range r.Files {
			var id int
			fmt.Sscanf(f.FileName, "f%d", &id)
			o.ids = append(o.ids, id)
		}
		outs = append(outs, o)
	}))
	files := "-"
	if len(rf) > 0 {
		files = joinComma(rf)
	}
	st := zoekt.Stats{}
	setCounters(&st, e.C)
	st.Duration = durationOf(e.Dur)
	st.FlushReason = zoekt.FlushReason(e.FR)
	m := "0"
	if multi {
		m = "1"
	}
	in = fmt.Sprintf("byrepo %s %s %s", m, showStats(st), files)
	var parts []string
	var have, want []int
	sumD := make([]int64, len(counterFields))
	for _, o := range outs {
		parts = append(parts, fmt.Sprintf("%s/%s", gen.NatList(o.ids), showStats(o.stats)))
		have = append(have, o.ids...)
		for k, v := range getCounters(o.stats) {
			sumD[k] += v
		}
	}
	impl = "-"
	if len(parts) > 0 {
		impl = joinSemi(parts)
	}
	for _, f := range e.Files {
		want = append(want, f.ID)
	}
	sort.Ints(have)
	sort.Ints(want)
	verdict = "ok"
	if !equalInts(have, want) {
		verdict, key = fmt.Sprintf("sendByRepository delivered files %v of %v", clip(have), clip(want)), "byrepo-files-not-exactly-once"
	}
	for k := range sumD {
		if sumD[k] != e.C[k] && verdict == "ok" {
			verdict, key = fmt.Sprintf("sendByRepository: counter %s delivered %d, produced %d", counterNames[k], sumD[k], e.C[k]), "byrepo-counter-not-conserved:"+counterNames[k]
		}
	}
	return
}

func joinComma(x []string) string { return strings.Join(x, ",") }
func joinSemi(x []string) string  { return strings.Join(x, ";") }

func genByRepoCase(r *gen.Rand) (caseSpec, string) {
	g := &idgen{}
	var e eventSpec
	e.Prio, e.MaxP = "0", "0"
	genStats(r, &e, r.Chance(1, 5))
	n := r.Range(0, 10)
	repo := r.Range(0, 3)
	for i := 0; i < n; i++ {
		f := g.file(r)
		f.Pad = r.Intn(20)
		f.Score = scoreKey(f.ID)
		if f.Score == 0 {
			f.Score = 10007
		}
		if r.Chance(1, 3) {
			repo = r.Range(0, 3) // runs of the same repository; a repository may come back later
		}
		f.Repo = repo
		e.Files = append(e.Files, f)
	}
	return caseSpec{Op: "byrepo", Events: []eventSpec{e}, Multi: r.Chance(3, 4)}, "byrepo"
}
