package main

import (
	"fmt"

	"verifharness/gen"
)

// Very large single files. "Messages stay within the size budget unless a single file exceeds it" has no upper end, and
// other layers have limits of their own (gRPC's default receive limit and grpc/messagesize's smallest configurable
// maximum are 4 MiB): a file beyond any of them must still be delivered, alone in its message, and must not take the
// rest of its result (or the statistics that travel with the first chunk) with it. Every landmark size is placed at every
// position of a result: alone, first, in the middle of small files (nothing flushed before it), after a flushed chunk,
// last, twice.

func landmarkShapes(L int) [][]int {
	small, part := 300, 700<<10
	return [][]int{
		{L},
		{L, small},
		{small, small + 1, L, small + 2},
		{part, part, L, small},
		{small, L},
		{L, L},
		{part, L, part, part, L, small},
	}
}

func landmarkCases(w *gen.Writer, f gen.Flags) {
	n := 0
	for _, L := range sizeLandmarks {
		for si, shape := range landmarkShapes(L) {
			// chunk.SendAll on protobuf items of these sizes (no copying)
			cs := caseSpec{Op: "chunk"}
			for _, sz := range shape {
				cs.Sizes = append(cs.Sizes, clampPad(bytesLenForSize(sz)))
			}
			emit(w, cs, "landmark-chunk")
			n++
			if L > 8<<20+1 && f.Tier != "thorough" {
				continue // the pipeline serialises every message: the largest sizes through it only in the thorough tier
			}
			// one result through gRPCChunkSender
			g := &idgen{}
			var e eventSpec
			e.C = make([]int64, len(counterFields))
			for k := range e.C {
				e.C[k] = int64(k + 1)
			}
			e.Prio, e.MaxP = "3", "5"
			for _, sz := range shape {
				fs := fileSpec{ID: g.next + 1, Kind: (si + g.next) % 3}
				g.next++
				fs.Pad = clampPad(padForSize(fs, sz))
				e.Files = append(e.Files, fs)
			}
			emit(w, caseSpec{Op: "grpc", Events: []eventSpec{e}}, "landmark-grpc")
			n++
			if L > 5<<20 && f.Tier != "thorough" {
				continue
			}
			// the whole pipeline: stats-only results before it (their statistics are merged into this result by the sampler
			// and travel on its first chunk), a small result after it
			if si == 2 || si == 3 || si == 4 {
				one := eventSpec{C: make([]int64, len(counterFields)), Prio: "1", MaxP: "2"}
				one.C[si] = 7
				tail := eventSpec{C: make([]int64, len(counterFields)), Prio: "0", MaxP: "0", Files: []fileSpec{{ID: 900, Pad: 11}}}
				tail.C[0] = 1
				op := "pipe"
				if si == 3 && (L == 4<<20+1 || L == 5<<20) {
					op = "pipe-grpc" // and over a real gRPC connection
				}
				emit(w, caseSpec{Op: op, Events: []eventSpec{one, one, e, tail}}, "landmark-"+op)
				n++
			}
		}
	}
	w.Count("landmark-cases", n)
	w.Count(fmt.Sprintf("landmark-sizes-up-to-%dMiB", sizeLandmarks[len(sizeLandmarks)-1]>>20), len(sizeLandmarks))
}
