package main

import (
	"fmt"

	"verifharness/gen"
)

func varintLen(n int) int {
	l := 1
	for n >= 128 {
		n >>= 7
		l++
	}
	return l
}

// bytesLenForSize: value length of a BytesValue whose proto.Size is (as close as possible to) target.
func bytesLenForSize(target int) int {
	if target <= 0 {
		return 0
	}
	for o := 2; o <= 6; o++ {
		n := target - o
		if n > 0 && 1+varintLen(n)+n == target {
			return n
		}
	}
	if target > 6 {
		return target - 4
	}
	return 1
}

// padForSize: Content length that gives the file match a proto.Size of (as close as possible to) target.
func padForSize(fs fileSpec, target int) int {
	fs.Pad = 0
	base := fileSize(fs)
	if target <= base {
		return 0
	}
	for o := 2; o <= 6; o++ {
		n := target - base - o
		if n > 0 {
			fs.Pad = n
			if fileSize(fs) == target {
				return n
			}
		}
	}
	n := target - base - 4
	if n < 0 {
		n = 0
	}
	return n
}

func clampPad(n int) int {
	if n < 0 {
		return 0
	}
	if n > len(zeros)-1024 {
		return len(zeros) - 1024
	}
	return n
}

// nextSize picks an item size given the sum already in the current chunk: boundary values are frequent.
func nextSize(r *gen.Rand, cur int) (size int, tag string) {
	rem := maxMsg - cur
	switch r.Intn(14) {
	case 0:
		return 0, "zero"
	case 1, 2, 3:
		return r.Range(1, 3000), "small"
	case 4:
		return maxMsg/3 + r.Range(-3, 3), "third"
	case 5:
		return maxMsg/2 + r.Range(-2, 2), "half"
	case 6:
		return rem - 1, "rem-1"
	case 7:
		return rem, "rem"
	case 8:
		return rem + 1, "rem+1"
	case 9:
		return rem - 2, "rem-2"
	case 10:
		return maxMsg + r.Range(-1, 1), "max"
	case 11:
		if r.Chance(1, 3) {
			return sizeLandmark(r), "landmark"
		}
		return maxMsg + r.Range(2, 200000), "huge"
	case 12:
		return r.Range(1, maxMsg-1), "uniform"
	default:
		return r.Range(100000, 400000), "mid"
	}
}

// sizeLandmarks: sizes far beyond the budget, at the limits other layers know about — "unless a single file exceeds it"
// has no upper end: 2x/3x the budget, gRPC's default receive limit of 4 MiB (and the smallest limit grpc/messagesize lets
// operators configure) minus/plus one, 8, 16 and 32 MiB
var sizeLandmarks = []int{2 << 20, 3<<20 + 7, 4<<20 - 1, 4 << 20, 4<<20 + 1, 4<<20 + 4097, 5 << 20, 8<<20 + 1, 16<<20 + 1, 32<<20 + 3}

func sizeLandmark(r *gen.Rand) int {
	// the largest ones are rare: a pipeline case serialises every message once
	if r.Chance(3, 4) {
		return sizeLandmarks[r.Intn(7)]
	}
	return gen.Pick(r, sizeLandmarks)
}

// track the chunker's greedy rule to know the current partial sum (only to aim the generator; not an oracle)
func advance(cur, size int) int {
	if size+cur >= maxMsg {
		return size
	}
	return cur + size
}

func genChunkCase(r *gen.Rand) (caseSpec, string) {
	n := r.Range(0, 12)
	if r.Chance(1, 10) {
		n = r.Range(13, 60)
	}
	cs := caseSpec{Op: "chunk"}
	cur := 0
	class := "chunk"
	for i := 0; i < n; i++ {
		target, tag := nextSize(r, cur)
		if n > 12 && r.Chance(2, 3) {
			target, tag = r.Range(0, 60000), "small"
		}
		l := bytesLenForSize(target)
		l = clampPad(l)
		cs.Sizes = append(cs.Sizes, l)
		sz := 0
		if l > 0 {
			sz = 1 + varintLen(l) + l
		}
		cur = advance(cur, sz)
		if i == 0 && sz >= maxMsg {
			class = "chunk-first-item-over-budget"
		}
		_ = tag
	}
	return cs, class
}

func genPri(r *gen.Rand) string {
	switch r.Intn(20) {
	case 0:
		return "-inf"
	case 1:
		return "+inf"
	}
	return fmt.Sprint(r.Range(-5, 20))
}

// genStats: zeroish = the counters are all zero (the event may still carry Duration / FlushReason)
func genStats(r *gen.Rand, e *eventSpec, zeroish bool) {
	e.C = make([]int64, len(counterFields))
	if !zeroish {
		switch r.Intn(4) {
		case 0: // a single counter
			e.C[r.Intn(len(e.C))] = int64(r.Range(1, 9))
		default:
			for k := range e.C {
				switch r.Intn(10) {
				case 0, 1, 2:
					e.C[k] = int64(r.Range(1, 9))
				case 3:
					e.C[k] = int64(r.Range(1000, 1<<30)) * int64(r.Range(1, 1000))
				}
			}
		}
	}
	if r.Chance(1, 4) {
		e.Dur = int64(r.Range(1, 5_000_000))
	}
	if r.Chance(1, 5) {
		e.FR = gen.Pick(r, []uint8{1, 2, 4})
	}
}

type idgen struct{ next int }

func (g *idgen) file(r *gen.Rand) fileSpec {
	g.next++
	return fileSpec{ID: g.next, Kind: r.Intn(3)}
}

// genFiles: the files of one event. big = aim at the size budget.
func genFiles(r *gen.Rand, g *idgen, big bool, budget *int) []fileSpec {
	var out []fileSpec
	if !big {
		for i, n := 0, r.Range(1, 6); i < n; i++ {
			f := g.file(r)
			f.Pad = r.Intn(300)
			out = append(out, f)
		}
		return out
	}
	cur := 0
	for i, n := 0, r.Range(1, 7); i < n; i++ {
		f := g.file(r)
		target, _ := nextSize(r, cur)
		f.Pad = clampPad(padForSize(f, target))
		if f.Pad > *budget {
			f.Pad = r.Intn(300)
		}
		*budget -= f.Pad
		cur = advance(cur, fileSize(f))
		out = append(out, f)
	}
	return out
}

func genGRPCCase(r *gen.Rand) (caseSpec, string) {
	g := &idgen{}
	var e eventSpec
	genStats(r, &e, r.Chance(1, 5))
	e.Prio, e.MaxP = genPri(r), genPri(r)
	class := "grpc-files"
	budget := 24 << 20
	switch r.Intn(8) {
	case 0:
		class = "grpc-stats-only"
	case 1:
		e.Files = genFiles(r, g, false, &budget)
		class = "grpc-small-files"
	default:
		e.Files = genFiles(r, g, true, &budget)
	}
	return caseSpec{Op: "grpc", Events: []eventSpec{e}}, class
}

// genSeqCase: an event sequence for the sampler alone ("samp") or the whole pipeline ("pipe", "pipe-grpc").
func genSeqCase(r *gen.Rand, op string) (caseSpec, string) {
	g := &idgen{}
	cs := caseSpec{Op: op}
	budget := 12 << 20 // bytes of file content per case
	var n int
	var pStatsOnly, pZero, pBig int // percentages
	class := ""
	switch r.Intn(6) {
	case 0:
		n, pStatsOnly, pZero, pBig, class = r.Range(90, 250), 97, 50, 10, "long-stats-run"
	case 1:
		n, pStatsOnly, pZero, pBig, class = gen.Pick(r, []int{99, 100, 101, 199, 200, 201, 250}), 100, 100, 0, "period-boundary"
	case 2:
		n, pStatsOnly, pZero, pBig, class = r.Range(0, 40), 100, 30, 0, "stats-only"
	case 3:
		n, pStatsOnly, pZero, pBig, class = r.Range(1, 12), 30, 30, 60, "big-files"
	default:
		n, pStatsOnly, pZero, pBig, class = r.Range(0, 40), 60, 40, 15, "mixed"
	}
	for i := 0; i < n; i++ {
		var e eventSpec
		e.Prio, e.MaxP = genPri(r), genPri(r)
		if r.Intn(100) < pStatsOnly {
			genStats(r, &e, r.Intn(100) < pZero)
		} else {
			genStats(r, &e, r.Chance(1, 3))
			big := r.Intn(100) < pBig && op != "samp"
			e.Files = genFiles(r, g, big, &budget)
		}
		cs.Events = append(cs.Events, e)
	}
	if class == "period-boundary" && n > 0 {
		// all-zero stats-only events except at chosen positions around the sampling period
		for _, pos := range []int{0, 98, 99, 100, 198, 199, n - 1} {
			if pos < n && r.Chance(1, 3) {
				genStats(r, &cs.Events[pos], false)
			}
		}
		if r.Chance(1, 3) {
			var e eventSpec
			e.Prio, e.MaxP = genPri(r), genPri(r)
			genStats(r, &e, true)
			e.Files = genFiles(r, g, false, &budget)
			pos := r.Intn(n)
			cs.Events = append(cs.Events[:pos], append([]eventSpec{e}, cs.Events[pos:]...)...)
		}
	}
	return cs, class
}

// singleCounterCases: for every counter separately, a stats-only event carrying only that counter must survive
// (a) the final Flush, (b) the merge into the next file event, (c) the 100th-event rule.
func singleCounterCases(w *gen.Writer) {
	for k := range counterFields {
		one := func() eventSpec {
			e := eventSpec{C: make([]int64, len(counterFields)), Prio: "1", MaxP: "2"}
			e.C[k] = 1
			return e
		}
		zero := eventSpec{C: make([]int64, len(counterFields)), Prio: "0", MaxP: "0"}
		fileEv := zero
		fileEv.Files = []fileSpec{{ID: 1, Pad: 10}}
		emit(w, caseSpec{Op: "pipe", Events: []eventSpec{one()}}, "single-counter")
		emit(w, caseSpec{Op: "pipe", Events: []eventSpec{one(), fileEv}}, "single-counter")
		evs := []eventSpec{}
		for i := 0; i < 99; i++ {
			evs = append(evs, zero)
		}
		evs = append(evs, one(), zero)
		emit(w, caseSpec{Op: "pipe", Events: evs}, "single-counter")
	}
}
