package main

import "fmt"

// oracle evaluates the statement of C25 on (produced events, messages received by the client) independently of the
// implementation and of the Lean spec: plain sums over reflection-enumerated counters, id lists, size sums.
func oracle(events []eventSpec, got []received, withBudget bool) (verdict, key string) {
	// every file exactly once, in the order produced
	var want, have []int
	for _, e := range events {
		for _, f := range e.Files {
			want = append(want, f.ID)
		}
	}
	for _, m := range got {
		have = append(have, m.IDs...)
	}
	if !equalInts(want, have) {
		return fmt.Sprintf("files delivered %v, produced %v", clip(have), clip(want)), "files-not-exactly-once-in-order"
	}
	// every counter conserved
	sumP := make([]int64, len(counterFields))
	sumD := make([]int64, len(counterFields))
	for _, e := range events {
		for k := range sumP {
			if k < len(e.C) {
				sumP[k] += e.C[k]
			}
		}
	}
	for _, m := range got {
		for k, v := range getCounters(m.Stats) {
			sumD[k] += v
		}
	}
	for k := range sumP {
		if sumP[k] != sumD[k] {
			return fmt.Sprintf("counter %s: delivered %d, produced %d", counterNames[k], sumD[k], sumP[k]), "counter-not-conserved:" + counterNames[k]
		}
	}
	if !withBudget {
		return "ok", ""
	}
	for i, m := range got {
		total := 0
		for _, s := range m.Sizes {
			total += s
		}
		if len(m.IDs) > 1 && total >= maxMsg {
			return fmt.Sprintf("message %d carries %d files totalling %d >= %d", i, len(m.IDs), total, maxMsg), "message-over-budget"
		}
		// the accounting above is in item sizes (what the chunker measures); the serialised message adds framing per
		// file (tag + length ≤ 6 bytes) and the stats/progress sub-messages (≤ 1024 bytes): a multi-file message that is
		// far over the budget on the wire would be a defect that the item accounting hides.
		if len(m.IDs) > 1 && m.WireSize >= maxMsg+6*len(m.IDs)+1024 {
			return fmt.Sprintf("message %d is %d bytes on the wire", i, m.WireSize), "message-over-budget-on-the-wire"
		}
	}
	return "ok", ""
}

func chunkOracle(sizes []int, chunks [][]int) (verdict, key string) {
	var have []int
	for _, c := range chunks {
		have = append(have, c...)
		total := 0
		for _, id := range c {
			total += sizes[id]
		}
		if len(c) > 1 && total >= maxMsg {
			return fmt.Sprintf("chunk %v totals %d >= %d", c, total, maxMsg), "chunker-message-over-budget"
		}
	}
	want := make([]int, len(sizes))
	for i := range want {
		want[i] = i
	}
	if !equalInts(want, have) {
		return fmt.Sprintf("chunks carry %v of %d items", clip(have), len(sizes)), "chunker-files-not-exactly-once-in-order"
	}
	return "ok", ""
}

func equalInts(a, b []int) bool {
	if len(a) != len(b) {
		return false
	}
	for i := range a {
		if a[i] != b[i] {
			return false
		}
	}
	return true
}

func clip(a []int) []int {
	if len(a) > 24 {
		return a[:24]
	}
	return a
}
