package main

import (
	"context"
	"io"
	"net"
	"sync"

	"github.com/sourcegraph/zoekt"
	grpcserver "github.com/sourcegraph/zoekt/cmd/zoekt-webserver/grpc/server"
	webserverv1 "github.com/sourcegraph/zoekt/grpc/protos/zoekt/webserver/v1"
	"github.com/sourcegraph/zoekt/query"
	"google.golang.org/grpc"
	"google.golang.org/grpc/credentials/insecure"
	"google.golang.org/grpc/metadata"
	"google.golang.org/protobuf/proto"
)

// recStream is a WebserverService_StreamSearchServer that does what the transport does with a message: serialise it
// before Send returns (the chunker reuses its buffer afterwards), and nothing else.
type recStream struct {
	ctx  context.Context
	wire [][]byte
}

func (r *recStream) Send(m *webserverv1.StreamSearchResponse) error {
	b, err := proto.Marshal(m)
	if err != nil {
		return err
	}
	r.wire = append(r.wire, b)
	return nil
}
func (r *recStream) SetHeader(metadata.MD) error  { return nil }
func (r *recStream) SendHeader(metadata.MD) error { return nil }
func (r *recStream) SetTrailer(metadata.MD)       {}
func (r *recStream) Context() context.Context     { return r.ctx }
func (r *recStream) SendMsg(m any) error          { return r.Send(m.(*webserverv1.StreamSearchResponse)) }
func (r *recStream) RecvMsg(m any) error          { return io.EOF }

func (r *recStream) decoded() []received {
	out := make([]received, len(r.wire))
	for i, b := range r.wire {
		out[i] = decode(b)
	}
	return out
}

// ---- a real gRPC server and client over loopback TCP ----

// switchStreamer delegates to the streamer of the current case.
type switchStreamer struct {
	mu  sync.Mutex
	cur zoekt.Streamer
}

func (s *switchStreamer) get() zoekt.Streamer { s.mu.Lock(); defer s.mu.Unlock(); return s.cur }
func (s *switchStreamer) set(x zoekt.Streamer) { s.mu.Lock(); s.cur = x; s.mu.Unlock() }
func (s *switchStreamer) Search(ctx context.Context, q query.Q, opts *zoekt.SearchOptions) (*zoekt.SearchResult, error) {
	return s.get().Search(ctx, q, opts)
}
func (s *switchStreamer) StreamSearch(ctx context.Context, q query.Q, opts *zoekt.SearchOptions, sender zoekt.Sender) error {
	return s.get().StreamSearch(ctx, q, opts, sender)
}
func (s *switchStreamer) List(ctx context.Context, q query.Q, opts *zoekt.ListOptions) (*zoekt.RepoList, error) {
	return s.get().List(ctx, q, opts)
}
func (s *switchStreamer) Close()         {}
func (s *switchStreamer) String() string { return "switchStreamer" }

var (
	grpcOnce   sync.Once
	grpcSwitch = &switchStreamer{}
	grpcSrv    *grpc.Server
	grpcConn   *grpc.ClientConn
	grpcClient webserverv1.WebserverServiceClient
)

func startGRPC() {
	grpcOnce.Do(func() {
		lis, err := net.Listen("tcp", "127.0.0.1:0")
		if err != nil {
			panic(err)
		}
		grpcSrv = grpc.NewServer()
		webserverv1.RegisterWebserverServiceServer(grpcSrv, grpcserver.NewServer(grpcSwitch))
		go grpcSrv.Serve(lis)
		cc, err := grpc.NewClient(lis.Addr().String(), grpc.WithTransportCredentials(insecure.NewCredentials()),
			// the client's receive limit is the client's business (gRPC's default is 4 MiB); the property is about what the
			// server sends, so the test client takes anything
			grpc.WithDefaultCallOptions(grpc.MaxCallRecvMsgSize(128<<20)))
		if err != nil {
			panic(err)
		}
		grpcConn = cc
		grpcClient = webserverv1.NewWebserverServiceClient(cc)
	})
}

func stopGRPC() {
	if grpcConn != nil {
		grpcConn.Close()
	}
	if grpcSrv != nil {
		grpcSrv.Stop()
	}
}

// streamOverGRPC runs one StreamSearch RPC against the current streamer and returns the messages the client received.
func streamOverGRPC(st zoekt.Streamer, req *webserverv1.StreamSearchRequest) ([]received, error) {
	startGRPC()
	grpcSwitch.set(st)
	cs, err := grpcClient.StreamSearch(context.Background(), req)
	if err != nil {
		return nil, err
	}
	var out []received
	for {
		m, err := cs.Recv()
		if err == io.EOF {
			return out, nil
		}
		if err != nil {
			return out, err
		}
		out = append(out, decodeMsg(m, proto.Size(m)))
	}
}

func runPipeOverGRPC(events []eventSpec) []received {
	got, err := streamOverGRPC(&fakeStreamer{events: events}, constTrueReq)
	if err != nil {
		panic(err)
	}
	return got
}
