// C25 harness: the real streaming pipeline of zoekt-webserver
//
//	Server.StreamSearch → samplingSender → gRPCChunkSender → chunk.SendAll → stream
//
// driven with generated event sequences through a fake zoekt.Streamer and observed (a) on a recording stream that
// serialises every message exactly as the wire would, and (b) on a real gRPC client over loopback TCP. The model
// (lean/ZoektModel/C25) predicts the exact message sequence; the property's statement is evaluated on what the client
// received, both by the Lean `checkP` and by an independent Go oracle (oracle.go) that uses reflection over zoekt.Stats.
// A last group of cases builds real shards and streams real searches through the gRPC server.
package main

import (
	"context"
	"encoding/json"
	"fmt"
	"os"
	"path/filepath"
	"sort"
	"strings"

	"github.com/sourcegraph/zoekt"
	grpcserver "github.com/sourcegraph/zoekt/cmd/zoekt-webserver/grpc/server"
	"github.com/sourcegraph/zoekt/grpc/chunk"
	webserverv1 "github.com/sourcegraph/zoekt/grpc/protos/zoekt/webserver/v1"
	"github.com/sourcegraph/zoekt/query"
	"google.golang.org/protobuf/proto"
	"google.golang.org/protobuf/types/known/wrapperspb"

	"verifharness/gen"
)

const samplingPeriod = 100 // the literal in samplingSender.Send; the model takes it as a parameter

var maxMsg = chunk.VerifMaxMessageSize

// ---------- case description (also the replay format) ----------

type fileSpec struct {
	ID   int `json:"id"`
	Pad  int `json:"pad"`            // length of Content
	Kind int `json:"kind,omitempty"` // 0 = content only, 1 = with a line match, 2 = with a chunk match
	Score float64 `json:"score,omitempty"`
	Repo  int     `json:"repo,omitempty"` // byrepo: RepositoryID
}

type eventSpec struct {
	C     []int64    `json:"c"` // counters, in counterFields order
	Dur   int64      `json:"dur,omitempty"`
	FR    uint8      `json:"fr,omitempty"`
	Prio  string     `json:"prio"`
	MaxP  string     `json:"maxp"`
	Files []fileSpec `json:"files,omitempty"`
}

type caseSpec struct {
	Op     string      `json:"op"` // pipe | pipe-grpc | grpc | samp | chunk | coll
	Kind    string     `json:"kind,omitempty"`     // conc: send | final
	K       int        `json:"k,omitempty"`        // conc / slowclient: results collected before the timer flush
	Multi   bool       `json:"multi,omitempty"`    // byrepo: more than one entry in RepoURLs
	FlushAt int        `json:"flush_at,omitempty"` // coll: number of results sent before waiting for the timer; -1 = no timer
	Events []eventSpec `json:"events,omitempty"`
	Sizes  []int       `json:"sizes,omitempty"` // chunk op: value lengths of BytesValue items
}

// zeros backs every large payload (file contents, BytesValue items) without copying; it bounds the largest item: 40 MiB,
// ten times gRPC's default receive limit
var zeros = make([]byte, 40<<20+4096)

func mkFile(fs fileSpec) zoekt.FileMatch {
	fm := zoekt.FileMatch{FileName: fmt.Sprintf("f%d", fs.ID), Repository: "r", Content: zeros[:fs.Pad]}
	switch fs.Kind {
	case 1:
		fm.LineMatches = []zoekt.LineMatch{{Line: []byte("needle here"), LineNumber: 3, LineFragments: []zoekt.LineFragmentMatch{{LineOffset: 0, MatchLength: 6}}}}
		fm.Language = "Go"
	case 2:
		fm.ChunkMatches = []zoekt.ChunkMatch{{Content: []byte("a needle\nb"), ContentStart: zoekt.Location{LineNumber: 1, Column: 1}, Ranges: []zoekt.Range{{Start: zoekt.Location{ByteOffset: 2, LineNumber: 1, Column: 3}, End: zoekt.Location{ByteOffset: 8, LineNumber: 1, Column: 9}}}}}
		fm.Branches = []string{"HEAD"}
		fm.Score = 12.5
	}
	if fs.Score != 0 {
		fm.Score = fs.Score
	}
	return fm
}

func fileSize(fs fileSpec) int {
	fm := mkFile(fs)
	return proto.Size(fm.ToProto())
}

func mkEvent(e eventSpec) *zoekt.SearchResult {
	sr := &zoekt.SearchResult{}
	setCounters(&sr.Stats, e.C)
	sr.Stats.Duration = durationOf(e.Dur)
	sr.Stats.FlushReason = zoekt.FlushReason(e.FR)
	sr.Progress = zoekt.Progress{Priority: parsePri(e.Prio), MaxPendingPriority: parsePri(e.MaxP)}
	for _, f := range e.Files {
		sr.Files = append(sr.Files, mkFile(f))
	}
	return sr
}

// ---------- line protocol ----------

func showFiles(ids, sizes []int) string {
	if len(ids) == 0 {
		return "-"
	}
	p := make([]string, len(ids))
	for i := range ids {
		p[i] = fmt.Sprintf("%d:%d", ids[i], sizes[i])
	}
	return strings.Join(p, ",")
}

func showEventSpec(e eventSpec) string {
	ids, sizes := []int{}, []int{}
	for _, f := range e.Files {
		ids = append(ids, f.ID)
		sizes = append(sizes, fileSize(f))
	}
	return fmt.Sprintf("%s/%d/%d/%s/%s/%s", gen.NatList(e.C), e.Dur, e.FR, e.Prio, e.MaxP, showFiles(ids, sizes))
}

func showEventSpecs(es []eventSpec) string {
	if len(es) == 0 {
		return "-"
	}
	p := make([]string, len(es))
	for i, e := range es {
		p[i] = showEventSpec(e)
	}
	return strings.Join(p, ";")
}

// received is what a client sees of one message (decoded from the wire form)
type received struct {
	IDs, Sizes []int
	HasStats   bool
	Stats      zoekt.Stats
	Prio, MaxP float64
	WireSize   int
}

func decode(wire []byte) received {
	var m webserverv1.StreamSearchResponse
	if err := proto.Unmarshal(wire, &m); err != nil {
		panic(err)
	}
	return decodeMsg(&m, len(wire))
}

func decodeMsg(m *webserverv1.StreamSearchResponse, wireSize int) received {
	r := received{WireSize: wireSize}
	ch := m.GetResponseChunk()
	for _, f := range ch.GetFiles() {
		var id int
		if _, err := fmt.Sscanf(string(f.GetFileName()), "f%d", &id); err != nil {
			id = -1
		}
		r.IDs = append(r.IDs, id)
		r.Sizes = append(r.Sizes, proto.Size(f))
	}
	r.HasStats = ch.GetStats() != nil
	// exactly what a zoekt client does with the message
	sr := zoekt.SearchResultFromStreamProto(m, nil, nil)
	r.Stats = sr.Stats
	r.Prio, r.MaxP = sr.Progress.Priority, sr.Progress.MaxPendingPriority
	return r
}

func showStats(s zoekt.Stats) string {
	return fmt.Sprintf("%s~%d~%d", gen.NatList(getCounters(s)), int64(s.Duration), uint8(s.FlushReason))
}

func showReceived(rs []received) string {
	if len(rs) == 0 {
		return "-"
	}
	p := make([]string, len(rs))
	for i, r := range rs {
		st := "nil"
		if r.HasStats {
			st = showStats(r.Stats)
		}
		p[i] = fmt.Sprintf("%s/%s/%s/%s", showFiles(r.IDs, r.Sizes), st, showPri(r.Prio), showPri(r.MaxP))
	}
	return strings.Join(p, ";")
}

// ---------- running the real code ----------

// fakeStreamer produces a fixed event sequence, the way a sharded searcher hands results to its sender.
type fakeStreamer struct {
	events []eventSpec
}

func (f *fakeStreamer) Search(ctx context.Context, q query.Q, opts *zoekt.SearchOptions) (*zoekt.SearchResult, error) {
	return &zoekt.SearchResult{}, nil
}

func (f *fakeStreamer) StreamSearch(ctx context.Context, q query.Q, opts *zoekt.SearchOptions, sender zoekt.Sender) error {
	for _, e := range f.events {
		sender.Send(mkEvent(e))
	}
	return nil
}

func (f *fakeStreamer) List(ctx context.Context, q query.Q, opts *zoekt.ListOptions) (*zoekt.RepoList, error) {
	return &zoekt.RepoList{}, nil
}
func (f *fakeStreamer) Close()         {}
func (f *fakeStreamer) String() string { return "fakeStreamer" }

var constTrueReq = &webserverv1.StreamSearchRequest{Request: &webserverv1.SearchRequest{Query: query.QToProto(&query.Const{Value: true})}}

// runPipeRecorded: Server.StreamSearch with a recording server stream.
func runPipeRecorded(events []eventSpec) []received {
	rec := &recStream{ctx: context.Background()}
	srv := grpcserver.NewServer(&fakeStreamer{events: events})
	if err := srv.StreamSearch(constTrueReq, rec); err != nil {
		panic(err)
	}
	return rec.decoded()
}

func runGRPCSender(e eventSpec) []received {
	rec := &recStream{ctx: context.Background()}
	grpcserver.VerifGRPCChunkSender(rec).Send(mkEvent(e))
	return rec.decoded()
}

// runSampler: the sampler alone; the forwarded events are copied at Send time (the sampler reuses its aggregate).
func runSampler(events []eventSpec) []received {
	var out []received
	next := zoekt.SenderFunc(func(r *zoekt.SearchResult) {
		rc := received{HasStats: true, Stats: r.Stats, Prio: r.Progress.Priority, MaxP: r.Progress.MaxPendingPriority}
		for _, f := range r.Files {
			var id int
			fmt.Sscanf(f.FileName, "f%d", &id)
			rc.IDs = append(rc.IDs, id)
			rc.Sizes = append(rc.Sizes, proto.Size(f.ToProto()))
		}
		out = append(out, rc)
	})
	send, flush := grpcserver.VerifNewSamplingSender(next)
	for _, e := range events {
		send(mkEvent(e))
	}
	flush()
	return out
}

func showForwarded(rs []received) string {
	if len(rs) == 0 {
		return "-"
	}
	p := make([]string, len(rs))
	for i, r := range rs {
		p[i] = fmt.Sprintf("%s/%d/%d/%s/%s/%s", gen.NatList(getCounters(r.Stats)), int64(r.Stats.Duration), uint8(r.Stats.FlushReason),
			showPri(r.Prio), showPri(r.MaxP), showFiles(r.IDs, r.Sizes))
	}
	return strings.Join(p, ";")
}

// runChunker: chunk.SendAll on BytesValue items of the given value lengths.
var chunkerErrors int // chunk.SendAll returned an error although sendFunc never fails

func runChunker(lens []int) (sizes []int, chunks [][]int) {
	items := make([]*wrapperspb.BytesValue, len(lens))
	index := map[*wrapperspb.BytesValue]int{}
	for i, n := range lens {
		items[i] = &wrapperspb.BytesValue{Value: zeros[:n]}
		index[items[i]] = i
		sizes = append(sizes, proto.Size(items[i]))
	}
	err := chunk.SendAll(func(c []*wrapperspb.BytesValue) error {
		ids := []int{}
		for _, it := range c {
			ids = append(ids, index[it])
		}
		chunks = append(chunks, ids)
		return nil
	}, items...)
	if err != nil {
		// the only caller (gRPCChunkSender) discards this error: what was handed to sendFunc so far is all the client gets
		chunkerErrors++
	}
	return sizes, chunks
}

// ---------- emitting cases ----------

func emit(w *gen.Writer, cs caseSpec, class string) {
	detail := gen.Detail(cs)
	switch cs.Op {
	case "pipe", "pipe-grpc":
		var got []received
		if cs.Op == "pipe" {
			got = runPipeRecorded(cs.Events)
		} else {
			got = runPipeOverGRPC(cs.Events)
		}
		verdict, key := oracle(cs.Events, got, true)
		w.Emit(gen.Case{
			In:   fmt.Sprintf("pipe %d %d %s", maxMsg, samplingPeriod, showEventSpecs(cs.Events)),
			Impl: showReceived(got), Go: verdict, Key: key, Class: class,
			Nontrivial: len(cs.Events) >= 2 && len(got) >= 1, Detail: detail,
		})
	case "grpc":
		got := runGRPCSender(cs.Events[0])
		verdict, key := oracle(cs.Events[:1], got, true)
		w.Emit(gen.Case{
			In:   fmt.Sprintf("grpc %d %s", maxMsg, showEventSpec(cs.Events[0])),
			Impl: showReceived(got), Go: verdict, Key: key, Class: class,
			Nontrivial: len(got) >= 2, Detail: detail,
		})
	case "samp":
		got := runSampler(cs.Events)
		verdict, key := oracle(cs.Events, got, false)
		w.Emit(gen.Case{
			In:   fmt.Sprintf("samp %d %s", samplingPeriod, showEventSpecs(cs.Events)),
			Impl: showForwarded(got), Go: verdict, Key: key, Class: class,
			Nontrivial: len(cs.Events) >= 2, Detail: detail,
		})
	case "coll":
		got, k := runCollector(cs.Events, cs.FlushAt)
		verdict, key := collOracle(cs.Events, got)
		w.Emit(gen.Case{
			In:   fmt.Sprintf("coll %s %s", k, showEventSpecs(cs.Events)),
			Impl: showForwarded(got), Go: verdict, Key: key, Class: class + "-flush@" + bucket(k, len(cs.Events)),
			Nontrivial: len(cs.Events) >= 2, Detail: detail,
		})
	case "byrepo":
		in, impl, verdict, key := runByRepo(cs)
		w.Emit(gen.Case{In: in, Impl: impl, Go: verdict, Key: key, Class: class, Nontrivial: len(cs.Events[0].Files) >= 2, Detail: detail})
	case "conc":
		emitConc(w, cs.Kind, cs.K)
	case "slowclient":
		runSlowClient(w, cs.Events, cs.K, class)
	case "chunk":
		errsBefore := chunkerErrors
		sizes, chunks := runChunker(cs.Sizes)
		ids := make([]int, len(sizes))
		for i := range ids {
			ids[i] = i
		}
		impl := "none"
		if len(chunks) > 0 {
			p := make([]string, len(chunks))
			for i, c := range chunks {
				sz := make([]int, len(c))
				for j, id := range c {
					sz[j] = sizes[id]
				}
				p[i] = showFiles(c, sz)
			}
			impl = strings.Join(p, "|")
		}
		verdict, key := chunkOracle(sizes, chunks)
		if chunkerErrors > errsBefore && verdict == "ok" {
			verdict, key = "chunk.SendAll failed although the stream did not", "chunker-refuses-items"
		}
		w.Emit(gen.Case{
			In:   fmt.Sprintf("chunk %d %s", maxMsg, showFiles(ids, sizes)),
			Impl: impl, Go: verdict, Key: key, Class: class, Nontrivial: len(chunks) >= 2, Detail: detail,
		})
	default:
		panic("unknown op " + cs.Op)
	}
}

func runCorpus(w *gen.Writer, dir string) {
	files, _ := filepath.Glob(filepath.Join(dir, "*.json"))
	sort.Strings(files)
	for _, f := range files {
		b, err := os.ReadFile(f)
		if err != nil {
			panic(err)
		}
		var cs caseSpec
		if err := json.Unmarshal(b, &cs); err != nil {
			panic(fmt.Sprintf("%s: %v", f, err))
		}
		emit(w, cs, "corpus")
	}
}

func runReplay(w *gen.Writer, path string, seed uint64) {
	b, err := os.ReadFile(path)
	if err != nil {
		panic(err)
	}
	var rp struct {
		Case struct {
			Detail json.RawMessage `json:"detail"`
		} `json:"case"`
		First struct {
			Detail json.RawMessage `json:"detail"`
		} `json:"first_disagreement"`
	}
	if err := json.Unmarshal(b, &rp); err != nil {
		panic(err)
	}
	d := rp.Case.Detail
	if len(d) == 0 {
		d = rp.First.Detail
	}
	var cs caseSpec
	if err := json.Unmarshal(d, &cs); err != nil || cs.Op == "" {
		panic("replay file has no replayable case detail")
	}
	if cs.Op == "e2e" { // an end-to-end case is a whole corpus: it is re-generated from the seed, in the stored mode
		var m struct {
			Mode string `json:"mode"`
		}
		json.Unmarshal(d, &m)
		dir, err := os.MkdirTemp(os.TempDir(), "c25-e2e-replay-")
		if err != nil {
			panic(err)
		}
		defer os.RemoveAll(dir)
		runEndToEndOne(w, gen.NewRand(seed), dir, m.Mode)
		return
	}
	emit(w, cs, "replay")
}

func main() {
	f := gen.ParseFlags()
	w := gen.NewWriter(f.Out)
	defer w.Close()
	defer stopGRPC()
	if f.Replay != "" {
		runReplay(w, f.Replay, f.Seed)
		return
	}
	runCorpus(w, f.Corpus)
	r := gen.NewRand(f.Seed)

	for i, n := 0, f.N(1500, 60000); i < n; i++ {
		cs, class := genChunkCase(r)
		emit(w, cs, class)
	}
	for i, n := 0, f.N(400, 8000); i < n; i++ {
		cs, class := genGRPCCase(r)
		emit(w, cs, class)
	}
	for i, n := 0, f.N(400, 8000); i < n; i++ {
		cs, class := genSeqCase(r, "samp")
		emit(w, cs, class)
	}
	for i, n := 0, f.N(300, 6000); i < n; i++ {
		cs, class := genSeqCase(r, "pipe")
		emit(w, cs, class)
	}
	for i, n := 0, f.N(25, 300); i < n; i++ {
		cs, class := genSeqCase(r, "pipe-grpc")
		emit(w, cs, "grpc-"+class)
	}
	for i, n := 0, f.N(160, 3000); i < n; i++ {
		cs, class := genCollCase(r, i%3 != 0)
		emit(w, cs, class)
	}
	for i, n := 0, f.N(300, 6000); i < n; i++ {
		cs, class := genByRepoCase(r)
		emit(w, cs, class)
	}
	// the collector's two goroutines with a slow consumer: forced interleavings
	for rep, n := 0, f.N(1, 6); rep < n; rep++ {
		for _, k := range []int{1, 3} {
			emitConc(w, "send", k)
			emitConc(w, "final", k)
		}
	}
	for i, n := 0, f.N(4, 40); i < n; i++ {
		evs, k := genSlowClientCase(r)
		runSlowClient(w, evs, k, "slow-client-during-timer-flush")
	}
	landmarkCases(w, f)
	singleCounterCases(w)
	runEndToEnd(w, r, f)
}
