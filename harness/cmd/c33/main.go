// C33 harness: zoekt-local-sync previews are side-effect free and faithful.
//
// The real command (cmd/zoekt-local-sync built with -tags verif, execute() run in-process through the hook driver)
// runs on generated root / index states built with real git repositories: for every state the preview and then the
// same command with -f. Observed: snapshots of the index directory (names, sizes, mtimes, hashes) around the preview,
// both outputs, and the inventory (index.ReadMetadataPathAlive) before and after. Each round goes to the Lean model
// (runSync / runRemove, preview and forced) for the correspondence and to the executable statement `faithful`.
// A second stream compares planPrune alone with the model on synthetic inventories with awkward source paths.
package main

import (
	"fmt"
	"os"
	"path/filepath"
	"strings"
	"time"

	"verifharness/gen"
	"verifharness/l1sync"
)

var sources = []string{"/r/a", "/r/a/", "/r/a/.git", "/r/./a", "/r/b/../a", "/r/b", "/r/b/.git", "", "rel/a", "./rel/a/.git", "/", "/.git",
	".git", "..", "/r/a/.git/.git", "/r/é", "/r/a//", "/q/team/a", "../up", "/r/a/..", "/.."}
var names = []string{"a", "b", "team/a", "é", "x", "", "a.git"}

func planCase(t *l1sync.Tool, cwd string, r *gen.Rand) gen.Case {
	var desired []map[string]string
	var mrepos []l1sync.ModelRepo
	for i, n := 0, r.Intn(5); i < n; i++ {
		name, src := gen.Pick(r, names), gen.Pick(r, sources)
		desired = append(desired, map[string]string{"Name": name, "Source": src})
		mrepos = append(mrepos, l1sync.ModelRepo{Name: name, Source: src, Head: "h", Shard0: "/i/x"})
	}
	var shards []map[string]string
	var mshards []l1sync.ModelShard
	perm := []int{0, 1, 2, 3, 4, 5, 6}
	gen.Shuffle(r, perm)
	for i, n := 0, r.Intn(7); i < n; i++ {
		p := fmt.Sprintf("/i/p%d_v16.0000%d.zoekt", perm[i], r.Intn(2))
		name, src := gen.Pick(r, names), gen.Pick(r, sources)
		if len(desired) > 0 && r.Chance(1, 2) {
			d := gen.Pick(r, desired)
			src = d["Source"]
			if r.Chance(2, 3) {
				name = d["Name"]
			}
			if r.Chance(1, 4) && src != "" {
				src += "/.git"
			}
		}
		shards = append(shards, map[string]string{"path": p, "name": name, "source": src})
		mshards = append(mshards, l1sync.ModelShard{Path: p, Name: name, Source: src, Ver: "v", OptOk: true, MetaOk: true})
	}
	resp := t.Call(map[string]any{"op": "plan", "desired": desired, "shards": shards})
	var xs []string
	nRenamed := 0
	for _, a := range resp.Actions {
		reason := l1sync.ParseReason(a.Reason)
		if strings.HasPrefix(reason, "renamed:") {
			nRenamed++
		}
		xs = append(xs, strings.Join([]string{l1sync.Hx(a.Shard), l1sync.Hx(a.Name), l1sync.Hx(a.Source), l1sync.Hx(reason)}, "/"))
	}
	c := gen.Case{
		In:    fmt.Sprintf("plan %s %s %s", l1sync.Hx(cwd), l1sync.EncRepos(mrepos), l1sync.EncShards(mshards)),
		Impl:  l1sync.JoinL(",", xs),
		Class: fmt.Sprintf("plan:actions=%d", min(len(resp.Actions), 3)),
	}
	if resp.Panic != "" || resp.Crashed {
		c.Go, c.Key = "planPrune panicked: "+resp.Panic+resp.Err, "panic"
	}
	c.Nontrivial = len(resp.Actions) > 0 && len(resp.Actions) < len(shards)
	return c
}

func main() {
	f := gen.ParseFlags()
	w := gen.NewWriter(f.Out)
	defer w.Close()
	env := l1sync.Setup("c33")
	defer l1sync.Cleanup(env)

	runScript := func(tag string, i int, script []string) []gen.Case {
		base := l1sync.ScenarioDir(env, tag, i)
		t, err := l1sync.StartTool(env.Bin, env.Mode, base)
		if err != nil {
			panic(err)
		}
		defer t.Close()
		var cs []gen.Case
		err = l1sync.RunScript(base, env.Tmpls, t, script, true, func(rd *l1sync.Round) {
			cs = append(cs, l1sync.WithOrigin(rd.Case33(), 0, 0, script))
		})
		if err != nil {
			fmt.Fprintln(os.Stderr, "script:", err)
			os.Exit(3)
		}
		os.RemoveAll(base)
		return cs
	}
	runScenario := func(seed uint64, i, rounds int) []gen.Case {
		base := l1sync.ScenarioDir(env, "s", i)
		t, err := l1sync.StartTool(env.Bin, env.Mode, base)
		if err != nil {
			panic(err)
		}
		defer t.Close()
		r := gen.NewRand(seed*1000003 + uint64(i))
		var cs []gen.Case
		l1sync.RunScenario(base, env.Tmpls, t, r, rounds, true, func(rd *l1sync.Round) {
			cs = append(cs, l1sync.WithOrigin(rd.Case33(), seed, i, nil))
		})
		os.RemoveAll(base)
		return cs
	}

	if f.Replay != "" {
		if rs := l1sync.ReadReplay(f.Replay); rs.OK {
			var cs []gen.Case
			if rs.Script != nil {
				cs = runScript("replay", 0, rs.Script)
			} else {
				cs = runScenario(rs.Seed, rs.Scenario, f.N(3, 4))
			}
			for _, c := range cs {
				w.Emit(c)
			}
			return
		}
	}

	// 1. corpus witnesses
	for i, e := range l1sync.ReadCorpus(f.Corpus) {
		for _, c := range runScript("corpus", i, e.Script) {
			if c.Class != "" {
				c.Class = "corpus:" + c.Class
			}
			w.Emit(c)
		}
	}

	// 2. generated histories on real repositories and real index directories
	tPhase := time.Now()
	rounds := f.N(3, 4)
	l1sync.Parallel(f.N(20, 120), f.N(4, 8), func(i int) []gen.Case { return runScenario(f.Seed, i, rounds) }, w)

	// 3. planPrune alone on synthetic inventories
	l1sync.Phase("scenarios", tPhase)
	tPhase = time.Now()
	cwd := filepath.Join(env.Work, "plancwd")
	os.MkdirAll(cwd, 0o755)
	t, err := l1sync.StartTool(env.Bin, env.Mode, cwd)
	if err != nil {
		panic(err)
	}
	defer t.Close()
	r := gen.NewRand(f.Seed ^ 0x33)
	for i, n := 0, f.N(1500, 40000); i < n; i++ {
		w.Emit(planCase(t, cwd, r))
	}
	l1sync.Phase("plan", tPhase)
}
