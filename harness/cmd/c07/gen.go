package main

import (
	"encoding/json"
	"strings"

	"verifharness/gen"
	"verifharness/q2lib"
)

// every prefix of query/parse.go, plus near misses
var prefixWords = []string{"archived:", "b:", "branch:", "c:", "case:", "content:", "f:", "file:", "fork:", "public:", "r:", "regex:",
	"repo:", "lang:", "sym:", "t:", "type:", "meta.", "meta.k:", "meta.license:", "metax:", "cas:", "or:", ":"}

var values = []string{"yes", "no", "auto", "filematch", "filename", "file", "repo", "", "foo", "Foo", "main", "go", "python", "HEAD", "dev",
	"a{3}", "x{2,}", "fo{1,2}o", "a.*b", "[a-z]+", "[A-Z]+", "[xY]z", "(P|Q)r", "(", ")", "[", "a|b", "(?i)x", "\\", "\"", "x:y", ":", "Apache-.*", "*", "+", "\\d", "\\S+", "(a)(b)", "a b", "é", "\xff", "\xc3"}

var words = []string{"OR", "Or", "oR", "AND", "Not", "[A-Z]oo", "(X|Y)z", "ba[RZ]", "foo", "bar", "Foo", "or", "and", "main", "x", "a.b", "fo*", "(foo)", "(foo|bar)", "\\(", "\\\\", "[a-c]", "^a$", "é", "日本"}

func fixedStrings() []string {
	out := []string{"", " ", "-", "--", "- ", "(", ")", "()", "( )", "(())", "or", "or or", "a or", "or a", "a or or b", "-or", "(or)", "( or )", "\"", "\"\"", "\\", "a\\",
		"\"(\"", "\")\"", "(a \")\"", "-(", "-)", "--a", "- a", "a\nb", "a\tb", "\n", "meta.x:y", "meta.x", "meta.:", "meta.:y", "-case:yes", "-type:repo", "--type:file",
		"type:filematch foo", "type:repo foo", "type:repo", "t:file", "case:yes", "case:maybe", "type:xyz", "(type:repo a) or b", "-(type:repo a)", "-(case:yes a)",
		"sym:", "sym:foo", "sym:a.*b", "sym:(", "lang:", "lang:go", "lang:nosuch", "r:", "r:(", "f:", "c:", "b:", "regex:", "archived:", "archived:maybe", "fork:yes", "public:no",
		"(a", "a)", "(a b", "(a b)", "(a b))", "((a b) c)", "foo(a b)", "\"a b\"c", "a\"b c\"d", "f:\"a b\"", "\"f:a\"", "(?i)foo", "a or b c", "(a or b) c", "-(a or b)",
		"case:no Foo (case:yes Bar) baz", "type:repo a or b", "\xff\xfe", "a\xffb", "f:\xff", "r:\xff", "meta.\xff:\xff", "lang:\xff", "b:\xff", "sym:\xff",
	}
	for _, p := range prefixWords {
		out = append(out, p, "-"+p, p+"\"\"", p+"(", p+")", "("+p+")", p+" x", "-"+p+"yes", "-"+p+"repo")
	}
	return out
}

var gvocab = &q2lib.Vocab{
	Words:     []string{"foo", "Foo", "bar", "a{3}", "x{2,}", "fo{1,2}o", "a.*b", "[a-z]+", "(foo|bar)", "x\\.y", "\\w+", "main", "(?i)x", "é"},
	Spaced:    []string{"foo bar", "a \"b\"", "x  y", "(a) (b)"},
	Files:     []string{"\\.go$", "main", "README"},
	Repos:     []string{"github\\.com", "one$", "b/two"},
	Branches:  []string{"main", "dev", "HEAD", ""},
	Langs:     []string{"go", "python", "nosuch"},
	MetaNames: []string{"license", "k"},
	MetaVals:  []string{"Apache-.*", "v", "("},
	Syms:      []string{"foo", "Fo+", "bar"},
}

func genString(r *gen.Rand) []byte {
	switch r.Intn(14) {
	case 10, 11, 12, 13: // a query of the documented grammar (all spellings), sometimes damaged
		g := q2lib.GenQuery(r, gvocab, q2lib.GenOpts{MaxDepth: 3, TightGroup: true}, 0)
		b := []byte(g.Render())
		if r.Chance(1, 4) && len(b) > 0 {
			i := r.Intn(len(b))
			switch r.Intn(3) {
			case 0:
				b = append(b[:i], b[i+1:]...)
			case 1:
				b[i] = []byte("()\"\\- :")[r.Intn(7)]
			default:
				b = b[:i]
			}
		}
		return b
	case 0, 1: // raw byte soup over a weighted alphabet
		n := r.Range(0, 24)
		alpha := []byte("ab or()\"\\-:. \t\n*[]|f:r:c:\xff\xc3\xa9(-")
		b := make([]byte, n)
		for i := range b {
			if r.Chance(1, 12) {
				b[i] = byte(r.Intn(256))
			} else {
				b[i] = alpha[r.Intn(len(alpha))]
			}
		}
		return b
	case 2: // mutate a fixed string
		fs := fixedStrings()
		b := []byte(fs[r.Intn(len(fs))])
		for k := r.Range(1, 3); k > 0 && len(b) > 0; k-- {
			i := r.Intn(len(b))
			switch r.Intn(3) {
			case 0:
				b = append(b[:i], b[i+1:]...)
			case 1:
				b[i] = []byte("()\"\\- :o")[r.Intn(8)]
			default:
				b = append(b[:i], append([]byte{[]byte("()\"\\- ")[r.Intn(6)]}, b[i:]...)...)
			}
		}
		return b
	default: // token soup
		var sb strings.Builder
		n := r.Range(1, 9)
		for i := 0; i < n; i++ {
			switch r.Intn(14) {
			case 0:
				sb.WriteString("(")
			case 1:
				sb.WriteString(")")
			case 2:
				sb.WriteString("or")
			case 3:
				sb.WriteString("-")
				continue
			case 4, 5, 6, 7:
				sb.WriteString(gen.Pick(r, prefixWords))
				v := gen.Pick(r, values)
				if r.Chance(1, 4) {
					v = "\"" + strings.ReplaceAll(v, "\"", "\\\"") + "\""
				}
				sb.WriteString(v)
			case 8:
				sb.WriteString("\"" + gen.Pick(r, words) + " " + gen.Pick(r, words) + "\"")
			case 9:
				sb.WriteString("-(")
			default:
				sb.WriteString(gen.Pick(r, words))
			}
			if r.Chance(5, 6) {
				sb.WriteString(gen.Pick(r, []string{" ", " ", " ", "  ", "\t", "\n"}))
			}
		}
		return []byte(sb.String())
	}
}

// genExtra: other fields of a well-formed request.
func genExtra(r *gen.Rand, kind string) map[string]any {
	m := map[string]any{}
	if kind == "search" {
		if r.Chance(1, 3) {
			ids := []uint32{}
			for k := r.Intn(3); k > 0; k-- {
				ids = append(ids, uint32(r.Intn(4)))
			}
			m["RepoIDs"] = ids
		}
		if r.Chance(1, 2) {
			o := map[string]any{}
			for _, f := range []string{"MaxDocDisplayCount", "ShardMaxMatchCount", "TotalMaxMatchCount", "NumContextLines", "MaxMatchDisplayCount", "ShardRepoMaxMatchCount"} {
				if r.Chance(1, 3) {
					o[f] = gen.Pick(r, []int{0, 1, 2, 7, -1, 100000, -100})
				}
			}
			for _, f := range []string{"EstimateDocCount", "Whole", "ChunkMatches", "UseBM25Scoring", "DebugScore"} {
				if r.Chance(1, 4) {
					o[f] = r.Bool()
				}
			}
			if r.Chance(1, 4) {
				o["MaxWallTime"] = gen.Pick(r, []int64{0, 1, 1000000000, -5})
			}
			m["Opts"] = o
		}
	} else if r.Chance(1, 2) {
		m["Opts"] = map[string]any{"Field": gen.Pick(r, []int{0, 1, 2, 3, 99, -1})}
	}
	return m
}

// genBody: arbitrary / mutated request bodies.
func genBody(r *gen.Rand, q []byte) []byte {
	switch r.Intn(8) {
	case 0:
		n := r.Range(0, 40)
		b := make([]byte, n)
		for i := range b {
			b[i] = byte(r.Intn(256))
		}
		return b
	case 1:
		return []byte(gen.Pick(r, []string{"", "null", "[]", "{}", "0", "\"x\"", "{\"Q\":null}", "{\"Q\":1}", "{\"Q\":[\"a\"]}", "{\"Q\":{}}", "{\"q\":\"lower\"}",
			"{\"Q\":\"a\",\"Opts\":null}", "{\"Q\":\"a\",\"Opts\":[]}", "{\"Q\":\"a\",\"RepoIDs\":null}", "{\"Q\":\"a\",\"RepoIDs\":[-1]}", "{\"Q\":\"a\",\"RepoIDs\":[4294967296]}",
			"{\"Q\":\"a\",\"RepoIDs\":\"x\"}", "{\"Q\":\"a\"}{\"Q\":\"b\"}", "{\"Q\":\"a\",\"Opts\":{\"MaxWallTime\":\"1s\"}}", "{\"Q\":\"a\",\"Opts\":{\"NumContextLines\":1e99}}",
			"{\"Q\":\"a\",\"Opts\":{\"Field\":\"x\"}}", "{\"Q\":\"type:repo a\"}", "{\"Q\":\"\\ud800\"}", "{\"Q\":\"a\\u0000b\"}"}))
	default:
		raw, _ := json.Marshal(map[string]any{"Q": string(q), "Opts": genExtra(r, "search")["Opts"], "RepoIDs": []int{r.Intn(3)}})
		// mutate
		for k := r.Intn(4); k > 0 && len(raw) > 0; k-- {
			i := r.Intn(len(raw))
			switch r.Intn(4) {
			case 0:
				raw = raw[:i]
			case 1:
				raw[i] = byte(r.Intn(256))
			case 2:
				raw = append(raw[:i], raw[i+1:]...)
			default:
				raw = append(raw[:i], append([]byte(gen.Pick(r, []string{"\"", "{", "}", "[", ",", ":", "null", "\\"})), raw[i:]...)...)
			}
		}
		return raw
	}
}

// blankVariants: s with one blank replaced by two blanks, a tab, a newline.
func blankVariants(r *gen.Rand, s []byte) [][]byte {
	var pos []int
	for i, c := range s {
		if c == ' ' {
			pos = append(pos, i)
		}
	}
	if len(pos) == 0 {
		return nil
	}
	i := pos[r.Intn(len(pos))]
	var out [][]byte
	for _, rep := range []string{"  ", "\t", "\n"} {
		v := append([]byte{}, s[:i]...)
		v = append(v, rep...)
		v = append(v, s[i+1:]...)
		out = append(out, v)
	}
	return out
}
