// C07 harness: query.Parse on arbitrary byte strings (real code, panics caught), then String / QToProto /
// newMatchTree / Search / List on every parsed query, and the internal/json handlers on arbitrary request bodies;
// against the Lean port of the parser (ZoektModel/C07).
package main

import (
	"bytes"
	"context"
	"encoding/json"
	"fmt"
	"io"
	"log"
	"net/http"
	"net/http/httptest"
	"os"
	"path/filepath"
	"sort"
	"strings"

	"github.com/sourcegraph/zoekt"
	"github.com/sourcegraph/zoekt/index"
	"github.com/sourcegraph/zoekt/query"
	"github.com/sourcegraph/zoekt/search"
	"github.com/sourcegraph/zoekt/verifhooks"

	"verifharness/gen"
	"verifharness/q2lib"
)

type env struct {
	bare    []zoekt.Searcher // index.NewSearcher per shard
	sharded zoekt.Streamer   // search.NewDirectorySearcher (the public entry point; wraps typeRepoSearcher)
	jsonH   http.Handler
}

func guard(f func()) (outcome string) {
	defer func() {
		if r := recover(); r != nil {
			s := fmt.Sprint(r)
			s = strings.Map(func(c rune) rune {
				if c == ' ' || c == '\t' || c == '\n' {
					return '_'
				}
				return c
			}, s)
			if len(s) > 80 {
				s = s[:80]
			}
			outcome = "panic:" + s
		}
	}()
	f()
	return "ok"
}

func setup() (*env, func()) {
	dir, err := os.MkdirTemp(os.Getenv("VERIF_WORK"), "c07idx")
	if err != nil {
		panic(err)
	}
	repos := []q2lib.Repo{
		{Name: "github.com/a/one", ID: 1, Branches: []string{"main", "dev"}, RawConfig: map[string]string{"public": "1", "fork": "0", "archived": "0"},
			Metadata: map[string]string{"license": "Apache-2.0"},
			Docs: []q2lib.Doc{
				{Name: "main.go", Content: "package main\nfunc Foo() { bar() }\n", Language: "Go", Symbols: []string{"Foo"}},
				{Name: "README.md", Content: "foo bar (baz)\nyes no auto\n", Branches: []string{"dev"}},
			}},
		{Name: "github.com/b/two", ID: 2, Branches: []string{"HEAD"}, RawConfig: map[string]string{"public": "0", "fork": "1", "archived": "1"},
			Docs: []q2lib.Doc{
				{Name: "x.py", Content: "def foo():\n  return 'or'\n", Language: "Python", Symbols: []string{"foo"}},
			}},
	}
	if err := q2lib.BuildShards(dir, repos); err != nil {
		panic(err)
	}
	bare, err := q2lib.OpenShardSearchers(dir)
	if err != nil || len(bare) != 2 {
		panic(fmt.Sprint("open shards: ", err, len(bare)))
	}
	sharded, err := search.NewDirectorySearcher(dir)
	if err != nil {
		panic(err)
	}
	e := &env{bare: bare, sharded: sharded, jsonH: verifhooks.JSONServer(sharded)}
	return e, func() {
		sharded.Close()
		for _, b := range bare {
			b.Close()
		}
		os.RemoveAll(dir)
	}
}

// runParse exercises one input string through every consumer.
func (e *env) runParse(s []byte) gen.Case {
	in := fmt.Sprintf("parse %s %s", gen.Hex(s), q2lib.OracleTable(q2lib.CollectTexts(s)))
	var q query.Q
	var perr error
	p := guard(func() { q, perr = query.Parse(string(s)) })
	c := gen.Case{In: in, Detail: gen.Detail(map[string]string{"query": string(s), "hex": gen.Hex(s)})}
	if p != "ok" {
		c.Impl = "P=" + p
		c.Class = "parse-panic"
		return c
	}
	if perr != nil {
		c.Impl = "P=err"
		c.Class = "parse-err"
		return c
	}
	c.Class = "parse-ok"
	tree := q2lib.Canon(q)
	st := guard(func() { _ = q.String() })
	w := guard(func() { query.QToProto(q) })
	m := guard(func() { _ = index.VerifNewMatchTree(e.bare[0], q) })
	c.Impl = fmt.Sprintf("P=ok T=%s W=%s M=%s S=%s", tree, w, m, st)
	c.Nontrivial = strings.Count(tree, "(") >= 2

	// Go-side oracle: Search and List through the bare shard searcher and through the public sharded searcher,
	// and the wire round trip. Any panic, or a shard crash reported in the statistics, fails the property.
	var fails []string
	note := func(what, out string) {
		if out != "ok" {
			fails = append(fails, what+":"+out)
		}
	}
	ctx := context.Background()
	for _, b := range e.bare {
		note("shard.Search", guard(func() { b.Search(ctx, q, &zoekt.SearchOptions{}) }))
		note("shard.List", guard(func() { b.List(ctx, q, nil) }))
	}
	note("sharded.Search", guard(func() {
		r, err := e.sharded.Search(ctx, q, &zoekt.SearchOptions{})
		if err == nil && r.Stats.Crashes > 0 {
			panic("shard crashed (Stats.Crashes > 0)")
		}
	}))
	note("sharded.List", guard(func() {
		r, err := e.sharded.List(ctx, q, nil)
		if err == nil && r.Crashes > 0 {
			panic("shard crashed (RepoList.Crashes > 0)")
		}
	}))
	if w == "ok" {
		note("QFromProto", guard(func() {
			q2, err := query.QFromProto(query.QToProto(q))
			if err == nil {
				_ = q2.String()
			}
		}))
	}
	if len(fails) > 0 {
		c.Go = strings.Join(fails, ";")
		c.Key = keyOf(fails[0])
	}
	return c
}

// keyOf reduces a failure description to its class (consumer + panic message without addresses).
func keyOf(f string) string {
	if len(f) > 100 {
		f = f[:100]
	}
	return f
}

func (e *env) post(path string, method string, body []byte) (status int, respBody []byte, out string) {
	out = guard(func() {
		req := httptest.NewRequest(method, path, bytes.NewReader(body))
		rec := httptest.NewRecorder()
		e.jsonH.ServeHTTP(rec, req)
		status = rec.Code
		respBody = rec.Body.Bytes()
	})
	return
}

// runJSON: a well-formed request whose Q field the harness chose: the model predicts 400 vs "run".
func (e *env) runJSON(kind string, qs []byte, extra map[string]any) gen.Case {
	body := map[string]any{"Q": string(qs)}
	for k, v := range extra {
		body[k] = v
	}
	raw, err := json.Marshal(body)
	if err != nil {
		panic(err)
	}
	// encoding/json replaces invalid UTF-8 by U+FFFD when marshalling: the Q the handler sees is the decoded one
	var back struct{ Q string }
	json.Unmarshal(raw, &back)
	seen := []byte(back.Q)
	status, resp, out := e.post("/"+kind, "POST", raw)
	c := gen.Case{In: fmt.Sprintf("json %s %s %s", kind, gen.Hex(seen), q2lib.OracleTable(q2lib.CollectTexts(seen))),
		Class: "json-" + kind, Detail: gen.Detail(map[string]any{"body": string(raw)})}
	switch {
	case out != "ok":
		c.Impl = out
	case status == 400:
		c.Impl = "400"
	case status == 200 || status == 500:
		c.Impl = "run"
		if crashed(resp) {
			c.Go = "json." + kind + ":shard crashed"
			c.Key = "json." + kind + ":shard-crash"
		}
	default:
		c.Impl = fmt.Sprintf("status%d", status)
	}
	if out == "ok" && !json.Valid(resp) {
		c.Go = "response is not JSON"
		c.Key = "json:bad-response"
	}
	return c
}

func crashed(resp []byte) bool {
	return bytes.Contains(resp, []byte(`"Crashes":1`)) || bytes.Contains(resp, []byte(`"Crashes":2`))
}

// runRawBody: arbitrary bytes as a request body; Go oracle only.
func (e *env) runRawBody(kind, method string, body []byte) gen.Case {
	status, resp, out := e.post("/"+kind, method, body)
	c := gen.Case{Class: "rawbody-" + kind, Detail: gen.Detail(map[string]any{"kind": kind, "method": method, "bodyhex": gen.Hex(body)})}
	switch {
	case out != "ok":
		c.Go = "json." + kind + ":" + out
		c.Key = keyOf(c.Go)
	case status != 200 && status != 400 && status != 405 && status != 500:
		c.Go = fmt.Sprintf("json.%s:unexpected status %d", kind, status)
		c.Key = "json:status"
	case !json.Valid(resp):
		c.Go = "json." + kind + ":response is not JSON"
		c.Key = "json:bad-response"
	case crashed(resp):
		c.Go = "json." + kind + ":shard crashed"
		c.Key = "json." + kind + ":shard-crash"
	default:
		c.Go = "ok"
	}
	return c
}

func (e *env) runTok(s []byte) gen.Case {
	var tok query.VerifToken
	var ok bool
	var err error
	out := guard(func() { tok, ok, err = query.VerifNextToken(s) })
	c := gen.Case{In: "tok " + gen.Hex(s), Class: "tok"}
	switch {
	case out != "ok":
		c.Impl = out
	case err != nil:
		c.Impl = "err"
	case !ok:
		c.Impl = "nil"
	default:
		c.Impl = fmt.Sprintf("ok %d %s %d", tok.Type, gen.Hex(tok.Text), len(tok.Input))
	}
	return c
}

func (e *env) runPSL(s []byte) gen.Case {
	var lit []byte
	var n int
	var err error
	out := guard(func() { lit, n, err = query.VerifParseStringLiteral(s) })
	c := gen.Case{In: "psl " + gen.Hex(s), Class: "psl"}
	switch {
	case out != "ok":
		c.Impl = out
	case err != nil:
		c.Impl = "err"
	default:
		c.Impl = fmt.Sprintf("ok %s %d", gen.Hex(lit), n)
	}
	return c
}

func loadCorpus(dir string) [][]byte {
	var out [][]byte
	names, _ := filepath.Glob(filepath.Join(dir, "*.json"))
	sort.Strings(names)
	for _, n := range names {
		b, err := os.ReadFile(n)
		if err != nil {
			continue
		}
		var w struct {
			Queries []string `json:"queries"`
			Hex     []string `json:"hex"`
		}
		if json.Unmarshal(b, &w) != nil {
			continue
		}
		for _, q := range w.Queries {
			out = append(out, []byte(q))
		}
		for _, h := range w.Hex {
			out = append(out, gen.UnHex(h))
		}
	}
	return out
}

func main() {
	log.SetOutput(io.Discard) // the index builder and the shard loader log every shard
	f := gen.ParseFlags()
	w := gen.NewWriter(f.Out)
	defer w.Close()
	e, cleanup := setup()
	defer cleanup()
	r := gen.NewRand(f.Seed)

	if f.Replay != "" {
		b, err := os.ReadFile(f.Replay)
		if err != nil {
			panic(err)
		}
		var rp struct {
			Case struct {
				In     string          `json:"in"`
				Detail json.RawMessage `json:"detail"`
			} `json:"case"`
		}
		if err := json.Unmarshal(b, &rp); err != nil {
			panic(err)
		}
		var d struct {
			Hex     string `json:"hex"`
			Body    string `json:"body"`
			BodyHex string `json:"bodyhex"`
			Kind    string `json:"kind"`
			Method  string `json:"method"`
		}
		json.Unmarshal(rp.Case.Detail, &d)
		switch {
		case d.Hex != "":
			w.Emit(e.runParse(gen.UnHex(d.Hex)))
		case d.BodyHex != "" || d.Kind != "":
			w.Emit(e.runRawBody(d.Kind, d.Method, gen.UnHex(d.BodyHex)))
		case d.Body != "":
			for _, k := range []string{"search", "list"} {
				w.Emit(e.runRawBody(k, "POST", []byte(d.Body)))
			}
		default:
			fl := strings.Fields(rp.Case.In)
			if len(fl) >= 2 && fl[0] == "tok" {
				w.Emit(e.runTok(gen.UnHex(fl[1])))
			} else if len(fl) >= 2 && fl[0] == "psl" {
				w.Emit(e.runPSL(gen.UnHex(fl[1])))
			}
		}
		return
	}

	for _, s := range loadCorpus(f.Corpus) {
		c := e.runParse(s)
		c.Class = "corpus"
		w.Emit(c)
		w.Emit(e.runJSON("search", s, nil))
		w.Emit(e.runJSON("list", s, nil))
	}
	for _, s := range fixedStrings() {
		w.Emit(e.runParse([]byte(s)))
	}

	n := f.N(10000, 400000)
	for i := 0; i < n; i++ {
		s := genString(r)
		w.Emit(e.runParse(s))
		// history independence: strings that differ from s only in one run of blanks (doubled, a tab, a newline),
		// parsed right after it in the same process; each is judged against the model on its own
		if i%5 == 0 {
			for _, v := range blankVariants(r, s) {
				c := e.runParse(v)
				c.Class = "blank-variant-" + c.Class
				w.Emit(c)
			}
		}
		if i%4 == 0 {
			w.Emit(e.runTok(s))
			// a tokenizer call at a random offset, and a string literal at each quote
			if len(s) > 0 {
				w.Emit(e.runTok(s[r.Intn(len(s)):]))
			}
			if j := bytes.IndexByte(s, '"'); j >= 0 {
				w.Emit(e.runPSL(s[j:]))
			}
		}
		if i%6 == 0 {
			kind := gen.Pick(r, []string{"search", "list"})
			w.Emit(e.runJSON(kind, s, genExtra(r, kind)))
		}
		if i%6 == 3 {
			kind := gen.Pick(r, []string{"search", "list"})
			method := "POST"
			if r.Chance(1, 10) {
				method = gen.Pick(r, []string{"GET", "PUT", "DELETE"})
			}
			w.Emit(e.runRawBody(kind, method, genBody(r, s)))
		}
	}
}
