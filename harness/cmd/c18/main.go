// C18 harness.
//   sel    : the real search.selectRepoSet on shards described by their cached repository lists, against the Lean model;
//            the executable statement (selected ∧ rewritten matches ⇔ original matches, on every live document) is
//            evaluated on the implementation's selection and rewritten tree.
//   search : end to end. Real simple and compound shards (index.NewShardBuilder / index.Merge / index.SetTombstone) in a
//            directory, searched through search.NewDirectorySearcher (or the same searcher stack over the loaded
//            shards), compared (a) by Lean with the reference evaluation of the original tree on every document,
//            incl. type:repo, and (b) by a Go oracle with the union of per-shard index.NewSearcher results for the
//            original query (files, line matches).
//   list   : the sharded List against the reference answer and against per-shard List results (each repository once,
//            statistics summed).
//   agg    : shardedSearcher.List's aggregation driven with fake shards returning chosen entry lists.
package main

import (
	"context"
	"encoding/json"
	"fmt"
	"os"
	"path/filepath"
	"sort"
	"strings"
	"time"

	"github.com/RoaringBitmap/roaring/v2"
	"github.com/grafana/regexp"
	"github.com/sourcegraph/zoekt"
	"github.com/sourcegraph/zoekt/query"
	"github.com/sourcegraph/zoekt/search"

	"verifharness/gen"
	"verifharness/q1q"
)

type detail struct {
	Op      string       `json:"op"`
	Ctx     []*q1q.Shard `json:"ctx,omitempty"`
	Q       string       `json:"q,omitempty"`
	Dir     bool         `json:"dir,omitempty"`     // search/list: through NewDirectorySearcher (else loaded shards)
	Prev    []*q1q.Shard `json:"prev,omitempty"`    // search/list after a reload: the corpus that was loaded before, under the same keys
	Entries [][]entry    `json:"entries,omitempty"` // agg
	Note    string       `json:"note,omitempty"`
}

type entry struct {
	Name  string `json:"name"`
	ID    uint32 `json:"id,omitempty"` // repository id reported by the (fake) shard; 0 = shard indexed without ids
	Stats []int  `json:"stats"`
}

type runner struct {
	w    *gen.Writer
	work string
	n    int
}

func encShards(ctx []*q1q.Shard) string {
	parts := []string{fmt.Sprint(len(ctx))}
	for _, s := range ctx {
		f := "0"
		if s.ListFailed {
			f = "1"
		}
		parts = append(parts, f, q1q.EncShard(s))
	}
	return strings.Join(parts, " ")
}

func clean(s string) string { return strings.NewReplacer("\t", " ", "\n", " ").Replace(s) }

// ---------------------------------------------------------------- sel

func (rn *runner) sel(d detail) {
	q, err := q1q.DecQ(d.Q)
	if err != nil {
		panic(err)
	}
	u := q1q.UniverseOf(d.Ctx)
	in := "sel " + encShards(d.Ctx) + " " + u.EncQ(q)
	lists := make([][]*zoekt.Repository, len(d.Ctx))
	for i, s := range d.Ctx {
		if s.ListFailed {
			continue // nil: rankedShard.repos == nil
		}
		lists[i] = []*zoekt.Repository{}
		for _, r := range s.Repos {
			if !r.Tombstone { // what mkRankedShard caches: List(TRUE) skips tombstoned repositories
				z := q1q.ZRepo(r)
				lists[i] = append(lists[i], &z)
			}
		}
	}
	var impl string
	rewritten := false
	func() {
		defer func() {
			if r := recover(); r != nil {
				impl = clean(fmt.Sprintf("panic:%v", r))
			}
		}()
		sel, q2 := search.VerifSelectRepoSet(lists, q)
		impl = gen.NatList(sel) + " " + u.EncQ(q2)
		rewritten = u.EncQ(q2) != u.EncQ(q)
	}()
	class := "sel:kept"
	switch {
	case strings.HasPrefix(impl, "- "):
		class = "sel:none-selected"
	case rewritten:
		class = "sel:rewritten"
	case strings.Count(strings.Fields(impl)[0], ",")+1 < len(d.Ctx):
		class = "sel:subset"
	}
	rn.w.Emit(gen.Case{In: in, Impl: impl, Class: class, Nontrivial: class == "sel:rewritten" || class == "sel:subset", Detail: gen.Detail(d)})
}

// ---------------------------------------------------------------- search / list on real shards

func shardKey(i int) string { return fmt.Sprintf("shard%03d", i) }

type realCorpus struct {
	loaded  int          // number of keys currently loaded (in-memory stack only)
	prev    []*q1q.Shard // set after a reload: what was loaded before
	dir     string
	actual  []*q1q.Shard
	paths   []string
	single  []zoekt.Searcher // per-shard index.NewSearcher
	sharded zoekt.Streamer
	closeFn func()
}

func (rn *runner) build(ctx []*q1q.Shard, viaDir bool) *realCorpus {
	rn.n++
	dir := filepath.Join(rn.work, fmt.Sprintf("c18-corpus-%d", rn.n))
	if err := os.MkdirAll(dir, 0o755); err != nil {
		panic(err)
	}
	rc := &realCorpus{dir: dir}
	for i, s := range ctx {
		p, actual, err := q1q.BuildShardFile(dir, fmt.Sprintf("s%d", i), s)
		if err != nil {
			panic(fmt.Sprintf("build shard %d: %v", i, err))
		}
		rc.paths = append(rc.paths, p)
		rc.actual = append(rc.actual, actual)
		one, err := q1q.OpenShard(p)
		if err != nil {
			panic(err)
		}
		rc.single = append(rc.single, one)
	}
	if viaDir {
		ss, err := search.NewDirectorySearcher(dir)
		if err != nil {
			panic(err)
		}
		rc.sharded = ss
		rc.closeFn = ss.Close
	} else {
		m := map[string]zoekt.Searcher{}
		for i, p := range rc.paths {
			s, err := q1q.OpenShard(p)
			if err != nil {
				panic(err)
			}
			m[shardKey(i)] = s
		}
		rc.loaded = len(rc.paths)
		ss := search.VerifShardedSearcherC18(m)
		rc.sharded = ss
		rc.closeFn = ss.Close
	}
	return rc
}

// reload replaces the loaded shards by those of ctx2 under the same keys (shard i of ctx2 replaces shard i; surplus
// keys are dropped, new ones added), the way the directory watcher's loader does after a re-index, and makes the
// per-shard searchers and descriptions follow. Only for the in-memory stack (deterministic, no watcher timing).
func (rn *runner) reload(rc *realCorpus, ctx1, ctx2 []*q1q.Shard) {
	rn.n++
	dir := filepath.Join(rn.work, fmt.Sprintf("c18-corpus-%d", rn.n))
	if err := os.MkdirAll(dir, 0o755); err != nil {
		panic(err)
	}
	for _, s := range rc.single {
		s.Close()
	}
	os.RemoveAll(rc.dir)
	rc.dir, rc.actual, rc.paths, rc.single = dir, nil, nil, nil
	m := map[string]zoekt.Searcher{}
	for i, s := range ctx2 {
		p, actual, err := q1q.BuildShardFile(dir, fmt.Sprintf("s%d", i), s)
		if err != nil {
			panic(fmt.Sprintf("build shard %d: %v", i, err))
		}
		rc.paths = append(rc.paths, p)
		rc.actual = append(rc.actual, actual)
		one, err := q1q.OpenShard(p)
		if err != nil {
			panic(err)
		}
		rc.single = append(rc.single, one)
		two, err := q1q.OpenShard(p)
		if err != nil {
			panic(err)
		}
		m[shardKey(i)] = two
	}
	for i := len(ctx2); i < rc.loaded; i++ {
		m[shardKey(i)] = nil
	}
	if !search.VerifShardedReplaceC18(rc.sharded, m) {
		panic("not the in-memory searcher stack")
	}
	rc.loaded = len(ctx2)
	rc.prev = ctx1
}

// reindexed returns the corpus after some repositories were re-indexed: same names and ids, new branch lists, raw
// config and metadata (and documents moved to the new branches); sometimes a shard disappears or a new one arrives.
func reindexed(r *gen.Rand, sg *q1q.SGen, ctx []*q1q.Shard) []*q1q.Shard {
	var out []*q1q.Shard
	for _, s := range ctx {
		c := *s
		c.Repos = append([]q1q.Repo(nil), s.Repos...)
		c.Docs = append([]q1q.Doc(nil), s.Docs...)
		for i := range c.Repos {
			if r.Chance(2, 3) {
				n := sg.Repo(c.Repos[i].Name, c.Repos[i].ID)
				n.Tombstone = c.Repos[i].Tombstone
				c.Repos[i] = n
			}
		}
		for j := range c.Docs {
			d := c.Docs[j]
			d.Branches = nil
			for b := range c.Repos[d.Repo].Branches {
				if r.Chance(2, 3) {
					d.Branches = append(d.Branches, b)
				}
			}
			c.Docs[j] = d
		}
		out = append(out, &c)
	}
	if len(out) > 1 && r.Chance(1, 4) {
		out = out[:len(out)-1]
	}
	return out
}

func (rc *realCorpus) close() {
	rc.closeFn()
	for _, s := range rc.single {
		s.Close()
	}
	os.RemoveAll(rc.dir)
}

// resolveTypeRepo is the oracle's own reading of type:repo: the repositories (by name) that some shard lists for the
// child, computed innermost first from the individually loaded shards.
func resolveTypeRepo(single []zoekt.Searcher, q query.Q) (out query.Q, err error) {
	out = query.Map(q, func(q query.Q) query.Q {
		t, ok := q.(*query.Type)
		if !ok || t.Type != query.TypeRepo || err != nil {
			return q
		}
		set := map[string]bool{}
		for _, one := range single {
			l, lerr := listRepos(one, t.Child)
			if lerr != nil {
				err = lerr
				return q
			}
			for _, e := range l.Repos {
				set[e.Repository.Name] = true
			}
		}
		return &query.RepoSet{Set: set}
	})
	return out, err
}

// streamFiles collects the files of a StreamSearch.
func streamFiles(s zoekt.Streamer, q query.Q) (files []zoekt.FileMatch, err error) {
	defer func() {
		if r := recover(); r != nil {
			err = fmt.Errorf("panic: %v", r)
		}
	}()
	err = s.StreamSearch(context.Background(), q, &zoekt.SearchOptions{}, zoekt.SenderFunc(func(r *zoekt.SearchResult) {
		files = append(files, r.Files...)
	}))
	return files, err
}

func hasTypeRepo(q query.Q) bool {
	found := false
	query.Map(q, func(q query.Q) query.Q {
		if t, ok := q.(*query.Type); ok && t.Type == query.TypeRepo {
			found = true
		}
		return q
	})
	return found
}

// canonical form of a result file for the Go oracle: repository, name, line numbers + lines of its matches
func canonFile(f zoekt.FileMatch) string {
	var ls []string
	for _, l := range f.LineMatches {
		ls = append(ls, fmt.Sprintf("%d:%q:%v", l.LineNumber, l.Line, l.FileName))
	}
	sort.Strings(ls)
	return fmt.Sprintf("%s\x00%s\x00%s", f.Repository, f.FileName, strings.Join(ls, "|"))
}

func (rn *runner) searchList(rc *realCorpus, ctx []*q1q.Shard, q query.Q, viaDir bool, note string) {
	q1q.Hits(rc.actual, q)
	setHeadFirst(rc.actual)
	u := q1q.UniverseOf(rc.actual)
	wire := u.EncQ(q)
	det := detail{Op: "search", Ctx: ctx, Prev: rc.prev, Q: wire, Dir: viaDir, Note: note}

	// ---- search
	in := "search " + encShards(rc.actual) + " " + wire
	pos := map[string][2]int{}
	for i, s := range rc.actual {
		for j, d := range s.Docs {
			k := q1q.FileKey(s.Repos[d.Repo].Name, d.Name)
			if _, dup := pos[k]; dup {
				panic("file names must be unique in the corpus: " + k)
			}
			pos[k] = [2]int{i, j}
		}
	}
	var files []zoekt.FileMatch
	var err error
	if rn.n%2 == 0 {
		files, err = q1q.SearchFiles(rc.sharded, q, nil)
	} else {
		files, err = streamFiles(rc.sharded, q)
	}
	var impl, goVerdict, key string
	if err != nil {
		impl = "error:" + clean(err.Error())
	} else {
		var ps [][2]int
		seen := map[string]bool{}
		for _, f := range files {
			k := q1q.FileKey(f.Repository, f.FileName)
			p, ok := pos[k]
			if !ok || seen[k] {
				impl = "error:unknown or duplicate file " + clean(f.Repository+":"+f.FileName)
				break
			}
			seen[k] = true
			ps = append(ps, p)
		}
		if impl == "" {
			sort.Slice(ps, func(a, b int) bool { return ps[a][0] < ps[b][0] || ps[a][0] == ps[b][0] && ps[a][1] < ps[b][1] })
			var parts []string
			for _, p := range ps {
				parts = append(parts, fmt.Sprintf("%d:%d", p[0], p[1]))
			}
			impl = strings.Join(parts, ",")
			if impl == "" {
				impl = "-"
			}
		}
		// Go oracle: union of the per-shard answers for the original query (no shared code with the sharded searcher)
		{
			// type:repo sub-queries are resolved by the oracle itself, innermost first, from per-shard List calls on the
			// individually loaded shards (union of the listed names); nothing of search/ is involved
			oq, oerr := resolveTypeRepo(rc.single, q)
			var want, got []string
			failed := ""
			if oerr != nil {
				failed = oerr.Error()
			}
			for _, one := range rc.single {
				if failed != "" {
					break
				}
				fs, err := q1q.SearchFiles(one, oq, nil)
				if err != nil {
					failed = err.Error()
					break
				}
				for _, f := range fs {
					want = append(want, canonFile(f))
				}
			}
			for _, f := range files {
				got = append(got, canonFile(f))
			}
			sort.Strings(want)
			sort.Strings(got)
			if failed != "" {
				goVerdict = "" // per-shard search itself failed: nothing to compare with
			} else if strings.Join(want, "\n") != strings.Join(got, "\n") {
				goVerdict = fmt.Sprintf("sharded search returned %d files, the union of per-shard searches %d (or their matches differ)", len(got), len(want))
				key = goKey(q)
			} else {
				goVerdict = "ok"
				// the files agree; do their Branches fields?
				wb, gb := map[string]string{}, map[string]string{}
				for _, one := range rc.single {
					fs, _ := q1q.SearchFiles(one, oq, nil)
					for _, f := range fs {
						wb[q1q.FileKey(f.Repository, f.FileName)] = strings.Join(f.Branches, ",")
					}
				}
				for _, f := range files {
					gb[q1q.FileKey(f.Repository, f.FileName)] = strings.Join(f.Branches, ",")
				}
				for k, b := range wb {
					if gb[k] != b {
						goVerdict = fmt.Sprintf("FileMatch.Branches of %s: sharded search [%s], per-shard search of the original query [%s]", strings.ReplaceAll(k, "\x00", ":"), gb[k], b)
						key = "filematch-branches-field"
						if goKey(q) != "union-differs" || firstFilterIsSingleBranchesRepos(q) {
							key = "filematch-branches-field-after-branchesrepos-rewrite"
						}
					}
				}
			}
		}
	}
	class := "search:some"
	if impl == "-" {
		class = "search:none"
	}
	if hasTypeRepo(q) {
		class += "+typerepo"
	}
	rn.w.Emit(gen.Case{In: in, Impl: impl, Go: goVerdict, Key: key, Class: class, Nontrivial: impl != "-", Detail: gen.Detail(det)})

	// ---- list
	det.Op = "list"
	in = "list " + encShards(rc.actual) + " " + wire
	goVerdict, key = "", ""
	rl, err := listRepos(rc.sharded, q)
	if err != nil {
		impl = "error:" + clean(err.Error())
	} else {
		var names []string
		for _, e := range rl.Repos {
			names = append(names, e.Repository.Name)
		}
		sort.Strings(names)
		var hs []string
		for _, n := range names {
			hs = append(hs, gen.Hex([]byte(n)))
		}
		impl = strings.Join(hs, ",")
		if impl == "" {
			impl = "-"
		}
		// Go oracle: each repository once; statistics summed over the per-shard lists of the original query
		if loq, oerr := resolveTypeRepo(rc.single, q); oerr == nil {
			want := map[string]zoekt.RepoStats{}
			wantIDs, wantNoID := map[uint32]bool{}, map[string]bool{}
			failed := false
			for _, one := range rc.single {
				l, err := listRepos(one, loq)
				if err != nil {
					failed = true
					break
				}
				for _, e := range l.Repos {
					if e.Repository.ID != 0 {
						wantIDs[e.Repository.ID] = true
					} else {
						wantNoID[e.Repository.Name] = true
					}
					st := want[e.Repository.Name]
					st.Shards += e.Stats.Shards
					st.Documents += e.Stats.Documents
					st.IndexBytes += e.Stats.IndexBytes
					st.ContentBytes += e.Stats.ContentBytes
					st.NewLinesCount += e.Stats.NewLinesCount
					st.DefaultBranchNewLinesCount += e.Stats.DefaultBranchNewLinesCount
					st.OtherBranchesNewLinesCount += e.Stats.OtherBranchesNewLinesCount
					want[e.Repository.Name] = st
				}
			}
			if !failed {
				goVerdict = "ok"
				got := map[string]zoekt.RepoStats{}
				for _, e := range rl.Repos {
					if _, dup := got[e.Repository.Name]; dup {
						goVerdict = "repository listed twice: " + e.Repository.Name
					}
					got[e.Repository.Name] = e.Stats
				}
				if len(got) != len(want) {
					goVerdict = fmt.Sprintf("sharded list has %d repositories, per-shard lists %d", len(got), len(want))
				}
				for n, st := range want {
					if g, ok := got[n]; !ok || g != st {
						goVerdict = fmt.Sprintf("repository %s: statistics %+v, sum over shards %+v", n, g, st)
					}
				}
				if rl.Stats.Repos != len(got) {
					goVerdict = fmt.Sprintf("Stats.Repos = %d, %d repositories", rl.Stats.Repos, len(got))
				}
				// the ReposMap form of the same listing: the repositories with an id, by id, each once; those without an
				// id (ID 0) stay in Repos, by name, each once — computed from the per-shard lists of the oracle
				if goVerdict == "ok" {
					rm, err := func() (rl *zoekt.RepoList, err error) {
						defer func() {
							if r := recover(); r != nil {
								err = fmt.Errorf("panic: %v", r)
							}
						}()
						return rc.sharded.List(context.Background(), q, &zoekt.ListOptions{Field: zoekt.RepoListFieldReposMap})
					}()
					if err != nil {
						goVerdict = "ReposMap listing failed: " + clean(err.Error())
					} else {
						gotNoID := map[string]bool{}
						for _, e := range rm.Repos {
							if gotNoID[e.Repository.Name] {
								goVerdict = "ReposMap listing: id-less repository listed twice: " + e.Repository.Name
							}
							gotNoID[e.Repository.Name] = true
						}
						if len(rm.ReposMap) != len(wantIDs) || len(gotNoID) != len(wantNoID) || rm.Stats.Repos != len(wantIDs)+len(wantNoID) {
							goVerdict = fmt.Sprintf("ReposMap listing: %d map entries, %d id-less entries, Stats.Repos=%d; per-shard lists have %d ids and %d id-less repositories", len(rm.ReposMap), len(gotNoID), rm.Stats.Repos, len(wantIDs), len(wantNoID))
						}
						for id := range rm.ReposMap {
							if !wantIDs[id] {
								goVerdict = fmt.Sprintf("ReposMap listing has repository id %d, no shard lists it", id)
							}
						}
						for n := range gotNoID {
							if !wantNoID[n] {
								goVerdict = fmt.Sprintf("ReposMap listing has id-less repository %s, no shard lists it", n)
							}
						}
					}
				}
				if goVerdict != "ok" {
					key = goKey(q)
					if key == "union-differs" {
						key = "list-differs"
					}
				}
			}
		}
	}
	class = "list:some"
	if impl == "-" {
		class = "list:none"
	}
	rn.w.Emit(gen.Case{In: in, Impl: impl, Go: goVerdict, Key: key, Class: class, Nontrivial: impl != "-", Detail: gen.Detail(det)})
}

// goKey classifies a Go-oracle failure: the known class (first top-level filter is a single-entry BranchesRepos
// with branch "HEAD" or "") or anything else.
// allHeadFirst: in the corpus being searched every live repository has HEAD as its first and only so-named branch
// (then the BranchesRepos[HEAD] rewrite is proved sound and a difference is NOT the known finding).
var allHeadFirst bool

func setHeadFirst(ctx []*q1q.Shard) {
	allHeadFirst = true
	for _, s := range ctx {
		for _, r := range s.Repos {
			if r.Tombstone {
				continue
			}
			ok := len(r.Branches) > 0 && r.Branches[0] == "HEAD"
			for _, b := range r.Branches[min(1, len(r.Branches)):] {
				ok = ok && b != "HEAD"
			}
			allHeadFirst = allHeadFirst && ok
		}
	}
}

func goKey(q query.Q) string {
	q = query.Simplify(q)
	kids := []query.Q{q}
	if a, ok := q.(*query.And); ok {
		kids = a.Children
	}
	for _, c := range kids {
		switch s := c.(type) {
		case *query.BranchesRepos:
			if len(s.List) == 1 && s.List[0].Branch == "HEAD" && !allHeadFirst {
				return "branchesrepos-head-rewrite"
			}
			if len(s.List) == 1 && s.List[0].Branch == "" {
				return "branchesrepos-empty-branch-rewrite"
			}
			return "union-differs"
		case *query.RepoSet, *query.RepoIDs, *query.Repo, *query.Meta:
			return "union-differs"
		}
	}
	return "union-differs"
}

func firstFilterIsSingleBranchesRepos(q query.Q) bool {
	q = query.Simplify(q)
	kids := []query.Q{q}
	if a, ok := q.(*query.And); ok {
		kids = a.Children
	}
	for _, c := range kids {
		switch s := c.(type) {
		case *query.BranchesRepos:
			return len(s.List) == 1
		case *query.RepoSet, *query.RepoIDs, *query.Repo, *query.Meta:
			return false
		}
	}
	return false
}

func listRepos(s zoekt.Searcher, q query.Q) (rl *zoekt.RepoList, err error) {
	defer func() {
		if r := recover(); r != nil {
			err = fmt.Errorf("panic: %v", r)
		}
	}()
	return s.List(context.Background(), q, nil)
}

// ---------------------------------------------------------------- agg

type fakeShard struct {
	entries []entry
}

func (f *fakeShard) Search(ctx context.Context, q query.Q, opts *zoekt.SearchOptions) (*zoekt.SearchResult, error) {
	return &zoekt.SearchResult{}, nil
}

func (f *fakeShard) List(ctx context.Context, q query.Q, opts *zoekt.ListOptions) (*zoekt.RepoList, error) {
	rl := &zoekt.RepoList{}
	for _, e := range f.entries {
		rl.Repos = append(rl.Repos, &zoekt.RepoListEntry{Repository: zoekt.Repository{Name: e.Name, ID: e.ID}, Stats: toStats(e.Stats)})
		rl.Stats.Add(&rl.Repos[len(rl.Repos)-1].Stats)
	}
	rl.Stats.Repos = len(rl.Repos)
	return rl, nil
}
func (f *fakeShard) Close()         {}
func (f *fakeShard) String() string { return "fake" }

func toStats(v []int) zoekt.RepoStats {
	return zoekt.RepoStats{Shards: v[0], IndexBytes: int64(v[1]), Documents: v[2], ContentBytes: int64(v[3]),
		NewLinesCount: uint64(v[4]), DefaultBranchNewLinesCount: uint64(v[5]), OtherBranchesNewLinesCount: uint64(v[6])}
}

func fromStats(s zoekt.RepoStats) []int {
	return []int{s.Shards, int(s.IndexBytes), s.Documents, int(s.ContentBytes), int(s.NewLinesCount), int(s.DefaultBranchNewLinesCount), int(s.OtherBranchesNewLinesCount)}
}

func encEntries(es []entry) string {
	if len(es) == 0 {
		return "-"
	}
	var parts []string
	for _, e := range es {
		parts = append(parts, gen.Hex([]byte(e.Name))+":"+gen.NatList(e.Stats))
	}
	return strings.Join(parts, ";")
}

func (rn *runner) agg(d detail) {
	m := map[string]zoekt.Searcher{}
	var ins []string
	for i, es := range d.Entries {
		m[fmt.Sprintf("shard%03d", i)] = &fakeShard{entries: es}
		ins = append(ins, encEntries(es))
	}
	in := strings.TrimSpace("agg " + strings.Join(ins, " "))
	ss := search.VerifShardedSearcherC18(m)
	defer ss.Close()
	rl, err := ss.List(context.Background(), &query.Const{Value: true}, nil)
	var impl string
	goVerdict := "ok"
	if err != nil {
		impl = "error:" + clean(err.Error())
	} else {
		var out []entry
		for _, e := range rl.Repos {
			out = append(out, entry{Name: e.Repository.Name, Stats: fromStats(e.Stats)})
		}
		sort.Slice(out, func(a, b int) bool { return out[a].Name < out[b].Name })
		impl = encEntries(out)
		if rl.Stats.Repos != len(out) {
			goVerdict = fmt.Sprintf("Stats.Repos = %d for %d repositories", rl.Stats.Repos, len(out))
		}
		// aggregate statistics = sum over all entries
		var tot zoekt.RepoStats
		for _, es := range d.Entries {
			for _, e := range es {
				st := toStats(e.Stats)
				tot.Add(&st)
			}
		}
		tot.Repos = rl.Stats.Repos
		if rl.Stats != tot {
			goVerdict = fmt.Sprintf("RepoList.Stats = %+v, sum over entries %+v", rl.Stats, tot)
		}
	}
	dup := false
	seen := map[string]bool{}
	for _, es := range d.Entries {
		for _, e := range es {
			dup = dup || seen[e.Name]
			seen[e.Name] = true
		}
	}
	key := ""
	if goVerdict != "ok" {
		key = "aggregate-stats"
	}
	rn.w.Emit(gen.Case{In: in, Impl: impl, Go: goVerdict, Key: key, Class: map[bool]string{true: "agg:dup", false: "agg:nodup"}[dup], Nontrivial: dup, Detail: gen.Detail(d)})
}

// ---------------------------------------------------------------- replay / corpus

func (rn *runner) replay(d detail) {
	switch d.Op {
	case "sel":
		rn.sel(d)
	case "agg":
		rn.agg(d)
	case "search", "list":
		q, err := q1q.DecQ(d.Q)
		if err != nil {
			panic(err)
		}
		var rc *realCorpus
		if d.Prev != nil {
			rc = rn.build(d.Prev, false)
			rn.reload(rc, d.Prev, d.Ctx)
		} else {
			rc = rn.build(d.Ctx, d.Dir)
		}
		rn.searchList(rc, d.Ctx, q, d.Dir, d.Note)
		rc.close()
	default:
		panic("unknown op " + d.Op)
	}
}

func loadDetails(path string) []detail {
	b, err := os.ReadFile(path)
	if err != nil {
		panic(err)
	}
	var wrap struct {
		Case struct {
			Detail *detail `json:"detail"`
		} `json:"case"`
		FirstDisagreement struct {
			Detail *detail `json:"detail"`
		} `json:"first_disagreement"`
		Cases []detail `json:"cases"`
	}
	if err := json.Unmarshal(b, &wrap); err != nil {
		panic(fmt.Sprintf("%s: %v", path, err))
	}
	var out []detail
	if wrap.Case.Detail != nil {
		out = append(out, *wrap.Case.Detail)
	}
	if wrap.FirstDisagreement.Detail != nil {
		out = append(out, *wrap.FirstDisagreement.Detail)
	}
	return append(out, wrap.Cases...)
}

// topQuery generates a query of the shape the property quantifies over: a top level combining repository filters
// (sets, ids, branch-repository lists, regexps, metadata) and type:repo with content atoms.
func topQuery(r *gen.Rand, qg *q1q.QGen, typeRepo bool) query.Q {
	content := func() query.Q { return qg.Tree(r.Range(0, 2)) }
	filter := func() query.Q {
		if typeRepo && r.Chance(1, 5) {
			return &query.Type{Type: query.TypeRepo, Child: qg.Tree(r.Range(0, 2))}
		}
		return qg.RepoFilter()
	}
	switch r.Intn(10) {
	case 0:
		return filter()
	case 1:
		return qg.Tree(3)
	case 2:
		return &query.Or{Children: []query.Q{filter(), content()}}
	case 3:
		return &query.And{Children: []query.Q{content(), &query.Not{Child: filter()}}}
	default:
		kids := []query.Q{}
		for i := r.Range(1, 2); i > 0; i-- {
			kids = append(kids, filter())
		}
		for i := r.Range(0, 2); i > 0; i-- {
			kids = append(kids, content())
		}
		gen.Shuffle(r, kids)
		return &query.And{Children: kids}
	}
}

// typeRepoSiblings generates a query with two or three type:repo sub-queries whose children are variants of one
// another: same shape, different parameters drawn from the repositories that exist — in particular children whose
// debug rendering (String()) coincides although they select different repositories (RepoIDs of equal cardinality ≥ 2
// print only their size, RepoSets of equal size > 5 too, BranchesRepos print cardinalities), and identical children.
// Anything that shares state between the evaluations of the sub-queries of one request (memo tables keyed by a lossy
// key, reuse of a result buffer, evaluation order) shows up here. class: "identical", "same-rendering", "distinct".
func typeRepoSiblings(r *gen.Rand, qg *q1q.QGen, ctx []*q1q.Shard) (query.Q, string) {
	var ids []uint32
	var names []string
	for _, s := range ctx {
		for _, rp := range s.Repos {
			ids = append(ids, rp.ID)
			names = append(names, rp.Name)
		}
	}
	gen.Shuffle(r, ids)
	gen.Shuffle(r, names)
	n := r.Range(2, 3)
	pick := func(k, size int) []int { // k-th window of `size` positions, windows overlap but differ
		out := []int{}
		for j := 0; j < size; j++ {
			out = append(out, (k+j)%max(len(ids), 1))
		}
		return out
	}
	var kids []query.Q
	kind := r.Intn(5)
	size := r.Range(2, 3)
	var extra query.Q
	if r.Chance(1, 3) {
		extra = &query.Substring{Pattern: gen.Pick(r, []string{"foo", "bar", "fo"}), Content: r.Bool()}
	}
	identical := r.Chance(1, 6)
	for k := 0; k < n; k++ {
		kk := k
		if identical {
			kk = 0
		}
		var c query.Q
		switch kind {
		case 0: // RepoIDs of equal cardinality
			bm := roaring.New()
			for _, p := range pick(kk, size) {
				if len(ids) > 0 {
					bm.Add(ids[p])
				}
			}
			c = &query.RepoIDs{Repos: bm}
		case 1: // RepoSets of equal size > 5 (padded with names that do not exist)
			set := map[string]bool{}
			for _, p := range pick(kk, size) {
				if len(names) > 0 {
					set[names[p%len(names)]] = true
				}
			}
			for j := 0; len(set) < 6; j++ {
				set[fmt.Sprintf("absent/%d", j)] = true
			}
			c = &query.RepoSet{Set: set}
		case 2: // BranchesRepos with equal cardinalities
			bm := roaring.New()
			for _, p := range pick(kk, size) {
				if len(ids) > 0 {
					bm.Add(ids[p])
				}
			}
			c = &query.BranchesRepos{List: []query.BranchRepos{{Branch: gen.Pick(r, []string{"HEAD", "main", "dev"}), Repos: bm}}}
		case 3: // small RepoSets (renderings differ)
			set := map[string]bool{}
			if len(names) > 0 {
				set[names[kk%len(names)]] = true
			}
			c = &query.RepoSet{Set: set}
		default: // content children
			c = &query.Substring{Pattern: gen.Pick(r, []string{"foo", "bar", "fo", "main", "zz"}), Content: r.Bool(), CaseSensitive: kk%2 == 1}
		}
		if extra != nil {
			c = &query.And{Children: []query.Q{c, extra}}
		}
		kids = append(kids, &query.Type{Type: query.TypeRepo, Child: c})
	}
	class := "distinct"
	u := q1q.UniverseOf(ctx)
	for i := 0; i < len(kids); i++ {
		for j := i + 1; j < len(kids); j++ {
			ci, cj := kids[i].(*query.Type).Child, kids[j].(*query.Type).Child
			if u.EncQ(ci) == u.EncQ(cj) {
				if class == "distinct" {
					class = "identical"
				}
			} else if ci.String() == cj.String() {
				class = "same-rendering"
			}
		}
	}
	var q query.Q
	switch r.Intn(5) {
	case 0:
		q = &query.Or{Children: kids}
	case 1:
		q = &query.And{Children: append([]query.Q{kids[0], &query.Not{Child: kids[1]}}, kids[2:]...)}
	case 2:
		q = &query.And{Children: []query.Q{&query.Or{Children: []query.Q{kids[0], qg.Tree(1)}}, &query.Or{Children: kids[1:]}}}
	case 3: // nested: the inner one is evaluated first
		inner := kids[1]
		outer := &query.Type{Type: query.TypeRepo, Child: &query.And{Children: []query.Q{inner, kids[0].(*query.Type).Child}}}
		q = &query.And{Children: append([]query.Q{outer, kids[0]}, kids[2:]...)}
	default:
		q = &query.And{Children: append(append([]query.Q{}, kids...), qg.Tree(1))}
	}
	return q, class
}

func main() {
	f := gen.ParseFlags()
	w := gen.NewWriter(f.Out)
	defer w.Close()
	work := os.Getenv("VERIF_WORK")
	if work == "" {
		work = os.TempDir()
	}
	rn := &runner{w: w, work: work}
	if f.Replay != "" {
		for _, d := range loadDetails(f.Replay) {
			rn.replay(d)
		}
		return
	}
	if f.Corpus != "" {
		files, _ := filepath.Glob(filepath.Join(f.Corpus, "*.json"))
		sort.Strings(files)
		for _, p := range files {
			for _, d := range loadDetails(p) {
				rn.replay(d)
			}
		}
	}
	r := gen.NewRand(f.Seed)
	ids := []uint32{1, 2, 3, 4, 5, 6, 7}
	sg := &q1q.SGen{R: r, IDs: ids}

	// ---- sel: abstract shards
	nSel := f.N(2500, 80000)
	for i := 0; i < nSel; i++ {
		ctx := sg.Corpus(4, true)
		for _, s := range ctx {
			if r.Chance(1, 25) {
				s.ListFailed = true
			}
		}
		qg := &q1q.QGen{R: r, IDs: ids, TypeKinds: []uint8{0, 1}, NoCaseScope: true, NoEmptyBranch: true}
		q := topQuery(r, qg, false)
		// bias filters towards the repositories that exist, so that "all selected repositories satisfy it" is frequent
		if r.Chance(1, 3) && len(ctx) > 0 && len(ctx[0].Repos) > 0 {
			s := ctx[r.Intn(len(ctx))]
			if len(s.Repos) > 0 {
				bm := roaring.New()
				set := map[string]bool{}
				for _, rp := range s.Repos {
					bm.Add(rp.ID)
					set[rp.Name] = true
				}
				var flt query.Q
				switch r.Intn(4) {
				case 0:
					flt = &query.RepoSet{Set: set}
				case 1:
					flt = &query.RepoIDs{Repos: bm}
				default:
					b := gen.Pick(r, []string{"HEAD", "main", "dev", "", "HEADx"})
					flt = &query.BranchesRepos{List: []query.BranchRepos{{Branch: b, Repos: bm}}}
				}
				q = &query.And{Children: []query.Q{flt, qg.Tree(2)}}
				if r.Chance(1, 4) {
					q = flt
				}
			}
		}
		q1q.RandomHits(r, ctx, q)
		u := q1q.UniverseOf(ctx)
		rn.sel(detail{Op: "sel", Ctx: ctx, Q: u.EncQ(q)})
	}

	// ---- agg: fake shards
	nAgg := f.N(300, 3000)
	for i := 0; i < nAgg; i++ {
		var es [][]entry
		for s := r.Range(0, 5); s > 0; s-- {
			var l []entry
			names := append([]string(nil), q1q.RepoNames...)
			gen.Shuffle(r, names)
			for k := r.Range(0, 3); k > 0; k-- {
				st := make([]int, 7)
				for j := range st {
					st[j] = r.Intn(50)
				}
				// ids are drawn independently of the names: the same id under different names (a renamed repository
				// whose old shard is still loaded, colliding ids), the same name under different ids, and id 0
				l = append(l, entry{Name: names[k], ID: uint32(r.Intn(4)), Stats: st})
			}
			es = append(es, l)
		}
		byID := map[uint32]string{}
		coll := false
		for _, l := range es {
			for _, e := range l {
				if n, ok := byID[e.ID]; ok && n != e.Name && e.ID != 0 {
					coll = true
				}
				byID[e.ID] = e.Name
			}
		}
		if coll {
			w.Count("agg:same-id-different-name", 1)
		}
		rn.agg(detail{Op: "agg", Entries: es})
	}

	// ---- search / list: real shards
	nCorpora := f.N(10, 200)
	for i := 0; i < nCorpora; i++ {
		names := append([]string(nil), q1q.RepoNames...)
		gen.Shuffle(r, names)
		sids := append([]uint32(nil), ids...)
		gen.Shuffle(r, sids)
		var ctx []*q1q.Shard
		k := 0
		for s := r.Range(1, 4); s > 0 && k < len(names); s-- {
			nr := 1
			if r.Chance(1, 2) {
				nr = r.Range(2, 3)
			}
			if k+nr > len(names) {
				nr = len(names) - k
			}
			ctx = append(ctx, q1q.RealShard(r, sg, names[k:k+nr], sids[k:k+nr], true, fmt.Sprintf("s%d/", len(ctx))))
			k += nr
		}
		// a repository split over two shards
		if len(ctx) >= 2 && r.Chance(1, 3) {
			src := ctx[0].Repos[0]
			src.Tombstone = false
			extra := q1q.RealShard(r, sg, []string{src.Name}, []uint32{src.ID}, false, fmt.Sprintf("s%d/", len(ctx)))
			extra.Repos[0].Branches = src.Branches
			extra.Repos[0].RawConfig, extra.Repos[0].Metadata = src.RawConfig, src.Metadata
			for j := range extra.Docs {
				extra.Docs[j].Branches = nil
				if len(src.Branches) > 0 {
					extra.Docs[j].Branches = []int{0}
				}
			}
			ctx = append(ctx, extra)
		}
		// repository identity: name and id are independent. Layouts in which they disagree between shards —
		// the same id under another name (a renamed repository whose old shard is still loaded, colliding ids),
		// the same name under another id, and a repository indexed without an id (ID 0).
		{
			src := ctx[r.Intn(len(ctx))].Repos[0]
			switch i % 3 {
			case 0:
				ctx = append(ctx, q1q.RealShard(r, sg, []string{"renamed/" + src.Name}, []uint32{src.ID}, false, fmt.Sprintf("s%d/", len(ctx))))
				w.Count("layout:same-id-different-name", 1)
			case 1:
				ctx = append(ctx, q1q.RealShard(r, sg, []string{src.Name}, []uint32{uint32(20 + r.Intn(3))}, false, fmt.Sprintf("s%d/", len(ctx))))
				w.Count("layout:same-name-different-id", 1)
			default:
				ctx = append(ctx, q1q.RealShard(r, sg, []string{"noid/" + src.Name}, []uint32{0}, false, fmt.Sprintf("s%d/", len(ctx))))
				w.Count("layout:id-0", 1)
			}
		}
		viaDir := i%5 == 0
		t0 := time.Now()
		rc := rn.build(ctx, viaDir)
		w.Count(fmt.Sprintf("ms:build(dir=%v)", viaDir), int(time.Since(t0).Milliseconds()))
		t0 = time.Now()
		qg := &q1q.QGen{R: r, IDs: ids, TypeKinds: []uint8{1}, NoCaseScope: true, SafeSymbol: true, NoEmptyBranch: true}
		for k := 0; k < 40; k++ {
			q := topQuery(r, qg, true)
			if k%4 == 3 {
				// the common Sourcegraph shape: BranchesRepos[HEAD: ids] ∧ content
				bm := roaring.New()
				for _, s := range ctx {
					for _, rp := range s.Repos {
						if r.Chance(2, 3) {
							bm.Add(rp.ID)
						}
					}
				}
				b := gen.Pick(r, []string{"HEAD", "HEAD", "main", "dev", ""})
				q = &query.And{Children: []query.Q{&query.BranchesRepos{List: []query.BranchRepos{{Branch: b, Repos: bm}}}, qg.Tree(1)}}
			}
			if k%5 == 2 {
				// several type:repo sub-queries in one request, children that are variants of one another
				var cl string
				q, cl = typeRepoSiblings(r, qg, ctx)
				w.Count("typerepo-siblings:"+cl, 1)
			}
			rn.searchList(rc, ctx, q, viaDir, "")
		}
		// history: some repositories are re-indexed (same names and ids; new branches, raw config, metadata) and the
		// shards are reloaded under the same keys; the answers must be those of the shards that are loaded NOW
		if !viaDir {
			ctx2 := reindexed(r, sg, ctx)
			rn.reload(rc, ctx, ctx2)
			w.Count("history:reloaded-corpora", 1)
			var allIDs []uint32
			for _, s := range ctx2 {
				for _, rp := range s.Repos {
					allIDs = append(allIDs, rp.ID)
				}
			}
			for k := 0; k < 24; k++ {
				q := topQuery(r, qg, true)
				switch k % 4 {
				case 0: // metadata filter at the top level
					q = &query.And{Children: []query.Q{&query.Meta{Field: gen.Pick(r, q1q.MetaFields), Value: regexp.MustCompile(gen.Pick(r, q1q.ValRegexps))}, qg.Tree(1)}}
				case 1: // branch-repository list at the top level
					bm := roaring.New()
					for _, id := range allIDs {
						if r.Chance(3, 4) {
							bm.Add(id)
						}
					}
					q = &query.And{Children: []query.Q{&query.BranchesRepos{List: []query.BranchRepos{{Branch: gen.Pick(r, []string{"HEAD", "HEAD", "main", "dev"}), Repos: bm}}}, qg.Tree(1)}}
				case 2:
					q = &query.Meta{Field: gen.Pick(r, q1q.MetaFields), Value: regexp.MustCompile(gen.Pick(r, q1q.ValRegexps))}
				}
				rn.searchList(rc, ctx2, q, false, "")
				w.Count("history:queries-after-reload", 1)
			}
		}
		w.Count("ms:queries", int(time.Since(t0).Milliseconds()))
		t0 = time.Now()
		rc.close()
		w.Count("ms:close", int(time.Since(t0).Milliseconds()))
	}
}
