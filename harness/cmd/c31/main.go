// C31 harness: generated goroutine workloads on the real indexMutex (through the indexserver's verif driver, in
// subprocesses with different GOMAXPROCS), the logged critical-section trace validated (a) as a trace of the Lean
// small-step model, (b) by the Lean executable statement, (c) by an independent interval oracle here.
package main

import (
	"encoding/json"
	"fmt"
	"os"
	"path/filepath"
	"sort"
	"strconv"
	"strings"

	"verifharness/gen"
)

type opSpec struct {
	Global bool
	Name   int
	Work   int
}

type workload [][]opSpec

func (w workload) spec() string {
	var gs []string
	for _, ops := range w {
		var os []string
		for _, o := range ops {
			if o.Global {
				os = append(os, fmt.Sprintf("G.%d", o.Work))
			} else {
				os = append(os, fmt.Sprintf("Wr%d.%d", o.Name, o.Work))
			}
		}
		gs = append(gs, strings.Join(os, ","))
	}
	return strings.Join(gs, "/")
}

type event struct {
	G, K int
	Kind string
}

func parseEvents(s string) []event {
	if s == "" {
		return nil
	}
	var out []event
	for _, e := range strings.Split(s, ",") {
		p := strings.Split(e, ".")
		if len(p) != 3 {
			panic("event " + e)
		}
		g, _ := strconv.Atoi(p[0])
		k, _ := strconv.Atoi(p[1])
		out = append(out, event{g, k, p[2]})
	}
	return out
}

// interval oracle: reconstructs [begin,end] and [call,ret] intervals per operation and checks the statement directly
func oracle(w workload, evs []event, left int, free bool) string {
	type iv struct{ call, begin, end, ret int; ran, hasRet bool }
	ivs := map[[2]int]*iv{}
	get := func(e event) *iv {
		k := [2]int{e.G, e.K}
		if ivs[k] == nil {
			ivs[k] = &iv{call: -1, begin: -1, end: -1, ret: -1}
		}
		return ivs[k]
	}
	for i, e := range evs {
		v := get(e)
		switch e.Kind {
		case "c":
			v.call = i
		case "b":
			v.begin = i
		case "e":
			v.end = i
		case "t", "r":
			v.ret, v.ran, v.hasRet = i, true, true
		case "f":
			v.ret, v.ran, v.hasRet = i, false, true
		default:
			return "malformed-event"
		}
	}
	total := 0
	for g, ops := range w {
		for k, o := range ops {
			total++
			v := ivs[[2]int{g, k}]
			if v == nil || !v.hasRet || v.call < 0 || v.ret < v.call {
				return "operation-did-not-return"
			}
			if v.ran != (v.begin >= 0) || (v.begin >= 0) != (v.end >= 0) {
				return "misreported" // returned true without running f, or false although f ran
			}
			if v.begin >= 0 && !(v.call < v.begin && v.begin < v.end && v.end < v.ret) {
				return "malformed-order"
			}
			if o.Global && !v.ran {
				return "global-skipped"
			}
		}
	}
	if len(ivs) != total {
		return "spurious-operation"
	}
	for g, ops := range w {
		for k, o := range ops {
			v := ivs[[2]int{g, k}]
			for g2, ops2 := range w {
				for k2, o2 := range ops2 {
					if g2 == g {
						continue
					}
					v2 := ivs[[2]int{g2, k2}]
					if v.begin >= 0 && v2.begin >= 0 && v.begin < v2.end && v2.begin < v.end {
						if o.Global || o2.Global {
							return "overlap-global"
						}
						if o.Name == o2.Name {
							return "overlap-same-repo"
						}
					}
				}
			}
			if !o.Global && !v.ran {
				ok := false
				for g2, ops2 := range w {
					for k2, o2 := range ops2 {
						v2 := ivs[[2]int{g2, k2}]
						if g2 != g && !o2.Global && o2.Name == o.Name && v2.call < v.ret && v2.ret > v.call {
							ok = true
						}
					}
				}
				if !ok {
					return "skip-unjustified"
				}
			}
		}
	}
	if left != 0 || !free {
		return "not-quiescent"
	}
	return ""
}

func leanTrace(w workload, evs []event) string {
	var p []string
	for _, e := range evs {
		switch e.Kind {
		case "c":
			o := w[e.G][e.K]
			if o.Global {
				p = append(p, fmt.Sprintf("c%d:G", e.G))
			} else {
				p = append(p, fmt.Sprintf("c%d:W%d", e.G, o.Name))
			}
		default:
			p = append(p, fmt.Sprintf("%s%d", e.Kind, e.G))
		}
	}
	if len(p) == 0 {
		return "-"
	}
	return strings.Join(p, ",")
}

func genWorkload(r *gen.Rand, big bool) workload {
	ng := r.Range(2, 5)
	maxOps := 3
	if big {
		ng = r.Range(5, 12)
		maxOps = 6
	}
	names := r.Range(1, 3)
	pg := gen.Pick(r, []int{0, 10, 25, 50})
	var w workload
	for g := 0; g < ng; g++ {
		var ops []opSpec
		for k := r.Range(1, maxOps); k > 0; k-- {
			work := r.Intn(6)
			if r.Chance(1, 3) {
				work = r.Range(20, 400)
			}
			ops = append(ops, opSpec{Global: r.Intn(100) < pg, Name: r.Intn(names), Work: work})
		}
		w = append(w, ops)
	}
	return w
}

func main() {
	f := gen.ParseFlags()
	w := gen.NewWriter(f.Out)
	defer w.Close()
	bin := gen.BuildIndexserver("c31")
	var procs []*gen.IxsLineProc
	for _, p := range []string{"", "1", "2", "4"} {
		env := []string{"ZOEKT_VERIF_DRIVER=c31"}
		if p != "" {
			env = append(env, "GOMAXPROCS="+p)
		}
		procs = append(procs, gen.StartIxsLineProc(bin, env...))
	}
	defer func() {
		for _, p := range procs {
			p.Close()
		}
	}()

	run := func(wl workload, pi int, detail json.RawMessage, tag string) {
		ans, ok := procs[pi%len(procs)].Do("run " + wl.spec())
		if !ok || strings.HasPrefix(ans, "ERR") {
			// a deadlock or crash of the code under test would show up here
			w.Emit(gen.Case{Go: tag + ": driver died or rejected the workload: " + ans, Key: "driver-died", Detail: detail})
			fmt.Fprintln(os.Stderr, "driver died:", ans)
			os.Exit(4)
		}
		fs := strings.Fields(ans)
		evs, left, free := "", 0, false
		for _, x := range fs {
			switch {
			case strings.HasPrefix(x, "left="):
				left, _ = strconv.Atoi(x[5:])
			case strings.HasPrefix(x, "free="):
				free = x[5:] == "true"
			default:
				evs = x
			}
		}
		es := parseEvents(evs)
		verdict := oracle(wl, es, left, free)
		nOps, skips, globals := 0, 0, 0
		for _, ops := range wl {
			nOps += len(ops)
			for _, o := range ops {
				if o.Global {
					globals++
				}
			}
		}
		for _, e := range es {
			if e.Kind == "f" {
				skips++
			}
		}
		op := "trace"
		impl := fmt.Sprintf("admitted left=%d free=%d", left, map[bool]int{false: 0, true: 1}[free])
		if len(wl) > 5 || nOps > 10 {
			op, impl = "spec", "spec-only"
		}
		c := gen.Case{In: fmt.Sprintf("%s %d %s", op, len(wl), leanTrace(wl, es)), Impl: impl, Detail: detail,
			Class: fmt.Sprintf("skips=%d", min(skips, 3)), Nontrivial: skips > 0 || globals > 0}
		if verdict != "" {
			c.Go, c.Key = tag+": interval oracle: "+verdict, verdict
		}
		w.Emit(c)
		w.Count("ops", nOps)
		w.Count("skipped-ops", skips)
		w.Count("global-ops", globals)
	}

	if files, _ := filepath.Glob(filepath.Join(f.Corpus, "*.json")); len(files) > 0 {
		sort.Strings(files)
		for _, p := range files {
			b, _ := os.ReadFile(p)
			var wl workload
			if json.Unmarshal(b, &wl) != nil {
				fmt.Fprintln(os.Stderr, "bad corpus file", p)
				os.Exit(5)
			}
			for i := 0; i < 20; i++ {
				run(wl, i, gen.Detail(map[string]any{"corpus": filepath.Base(p), "workload": wl}), "corpus "+filepath.Base(p))
			}
		}
	}
	if f.Replay != "" {
		var rp struct {
			Case struct {
				Detail struct {
					Workload workload      `json:"workload"`
					Site     *siteScenario `json:"site"`
				} `json:"detail"`
			} `json:"case"`
		}
		b, err := os.ReadFile(f.Replay)
		if err == nil && json.Unmarshal(b, &rp) == nil && rp.Case.Detail.Site != nil {
			siteProc := gen.StartIxsLineProc(bin, "ZOEKT_VERIF_DRIVER=c31")
			for i := 0; i < 5; i++ {
				runSite(w, siteProc, *rp.Case.Detail.Site, "replay")
			}
			siteProc.Close()
			return
		}
		if err == nil && json.Unmarshal(b, &rp) == nil && len(rp.Case.Detail.Workload) > 0 {
			for i := 0; i < 200; i++ { // schedules are not reproducible: run the same workload many times
				run(rp.Case.Detail.Workload, i, gen.Detail(map[string]any{"workload": rp.Case.Detail.Workload}), "replay")
			}
		}
		return
	}
	r := gen.NewRand(f.Seed)
	siteProc := gen.StartIxsLineProc(bin, "ZOEKT_VERIF_DRIVER=c31")
	for i, sc := range siteScenarios(r.Fork(), f.Tier == "thorough") {
		runSite(w, siteProc, sc, fmt.Sprintf("site scenario %d", i))
	}
	siteProc.Close()
	n := f.N(1500, 12000)
	for i := 0; i < n; i++ {
		wl := genWorkload(r, i%5 == 4)
		run(wl, i, gen.Detail(map[string]any{"workload": wl}), fmt.Sprintf("workload %d", i))
	}
}

// ---------- call sites: the operations of the server themselves (index jobs, data deletion) ----------

// siteScenario: holder H is parked inside its critical section through a gate that needs no source change (the fake
// Sourcegraph's UpdateIndexStatus for index jobs, the request context for DeleteAllData); then contender C is started.
type siteScenario struct {
	MT   int    // 1 = multi-tenant instance (WORKSPACES_API_URL set: shards are named by tenant and repository id)
	H, C string // q:<repo> queue worker, f:<repo> forced re-index, d:<tenant>:<k> data deletion parked at its k-th pass,
	// m:0 a merge run (Server.merge), v:0 a vacuum run (Server.vacuum)
}

func siteKind(op string) (kind byte, id int) {
	p := strings.Split(op, ":")
	id, _ = strconv.Atoi(p[1])
	return op[0], id
}

func siteLeanOp(op string) string {
	k, id := siteKind(op)
	if k == 'd' || k == 'm' || k == 'v' {
		return "G"
	}
	return fmt.Sprintf("W%d", id)
}

func runSite(w *gen.Writer, proc *gen.IxsLineProc, sc siteScenario, tag string) {
	const wait = 200
	cmd := fmt.Sprintf("sites mt=%d wait=%d H=%s C=%s", sc.MT, wait, sc.H, sc.C)
	detail := gen.Detail(map[string]any{"site": sc})
	ans, ok := proc.Do(cmd)
	if !ok || strings.HasPrefix(ans, "ERR") {
		w.Emit(gen.Case{Go: tag + ": driver died or rejected: " + ans, Key: "driver-died", Detail: detail})
		fmt.Fprintln(os.Stderr, "driver died:", cmd, ans)
		os.Exit(4)
	}
	kv := map[string]string{}
	for _, f := range strings.Fields(ans) {
		if i := strings.IndexByte(f, '='); i > 0 {
			kv[f[:i]] = f[i+1:]
		}
	}
	hk, hid := siteKind(sc.H)
	ck, cid := siteKind(sc.C)
	isGlobal := func(k byte) bool { return k == 'd' || k == 'm' || k == 'v' }
	global := isGlobal(hk) || isGlobal(ck)
	conflict := global || hid == cid
	hIn, cPause, cLater := kv["H"] == "1", kv["Cpause"] == "1", kv["Clater"] == "1"
	// oracle, from the statement alone
	verdict := ""
	switch {
	case !hIn || kv["Hdone"] != "1":
		verdict = "site-holder-never-inside-or-stuck"
	case conflict && cPause && global:
		verdict = "site-operation-runs-beside-a-global-operation"
	case conflict && cPause:
		verdict = "site-two-index-jobs-for-one-repository"
	case !global && conflict && (cLater || (ck == 'f' && kv["Cret"] != "skipped")):
		verdict = "site-skip-not-reported-as-skipped"
	case global && !cLater:
		verdict = "site-contender-never-ran-after-the-global-operation"
	case kv["left"] != "0" || kv["free"] != "1":
		verdict = "site-not-quiescent"
	}
	if !conflict && !cPause {
		w.Count("sites-independent-operations-serialised", 1)
	}
	// the same observation as a trace of two goroutines for the Lean model and statement
	ret := func(g int, op string) string {
		if isGlobal(op[0]) {
			return fmt.Sprintf("r%d", g)
		}
		return fmt.Sprintf("t%d", g)
	}
	ev := []string{"c0:" + siteLeanOp(sc.H), "b0", "c1:" + siteLeanOp(sc.C)}
	switch {
	case cPause:
		ev = append(ev, "b1", "e0", ret(0, sc.H), "e1", ret(1, sc.C))
	case cLater:
		ev = append(ev, "e0", ret(0, sc.H), "b1", "e1", ret(1, sc.C))
	case isGlobal(ck):
		ev = append(ev, "e0", ret(0, sc.H)) // the global operation never got going: reported by the oracle above
	default:
		ev = append(ev, "e0", ret(0, sc.H), "f1")
	}
	c := gen.Case{In: "trace 2 " + strings.Join(ev, ","), Impl: fmt.Sprintf("admitted left=%s free=%s", kv["left"], kv["free"]),
		Class: fmt.Sprintf("site-%c-vs-%c", hk, ck), Nontrivial: conflict, Detail: detail}
	if verdict != "" {
		c.Go, c.Key = fmt.Sprintf("%s: %s (driver: %s)", tag, verdict, ans), verdict
	}
	w.Emit(c)
	if hk == 'd' || ck == 'd' {
		w.Count("sites-data-deletion-passes-seen:"+kv["touches"], 1)
	}
}

func siteScenarios(r *gen.Rand, thorough bool) []siteScenario {
	var out []siteScenario
	for mt := 0; mt <= 1; mt++ {
		for _, p := range [][2]string{
			{"q:3", "f:3"}, {"f:3", "q:3"}, {"f:4", "f:4"}, {"q:4", "q:4"}, // two index jobs for one repository
			{"q:3", "f:4"}, {"f:3", "f:4"}, // independent repositories
			{"d:1:2", "f:3"}, {"d:1:3", "f:3"}, {"d:1:4", "f:3"}, {"d:2:3", "q:4"}, {"d:2:4", "q:4"}, {"d:2:4", "d:1:2"}, // a global operation is running
			{"q:3", "d:1:2"}, {"f:4", "d:2:2"}, // a global operation arrives while an index job runs
			{"m:0", "f:3"}, {"v:0", "q:3"}, {"f:3", "m:0"}, {"q:4", "v:0"}, {"m:0", "v:0"}, {"v:0", "d:1:2"}, {"d:1:3", "m:0"}, {"d:2:4", "v:0"}, // merge and vacuum
		} {
			out = append(out, siteScenario{MT: mt, H: p[0], C: p[1]})
		}
	}
	extra := 0
	if thorough {
		extra = 150
	}
	op := func() string {
		switch r.Intn(5) {
		case 3:
			return "m:0"
		case 4:
			return "v:0"
		case 0:
			return fmt.Sprintf("q:%d", r.Range(3, 5))
		case 1:
			return fmt.Sprintf("f:%d", r.Range(3, 5))
		}
		return fmt.Sprintf("d:%d:%d", r.Range(1, 2), r.Range(2, 4))
	}
	for i := 0; i < extra; i++ {
		sc := siteScenario{MT: r.Intn(2), H: op(), C: op()}
		// two merge runs exclude each other by their own flag (the second returns at once), and the vacuum gate
		// (mockMerger) is one per process: such pairs say nothing about the index-directory lock
		if (sc.H[0] == 'm' || sc.H[0] == 'v') && sc.H[0] == sc.C[0] {
			sc.C = "f:3"
		}
		out = append(out, sc)
	}
	return out
}
