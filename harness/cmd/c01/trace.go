// C01 harness: correspondence of the Lean engine model with the real code.
//
// search op: index.VerifSearchTrace (hook) builds the match tree for the query exactly as indexData.Search does, dumps it
// with the data of its leaves (posting lists as the real iterators yield them, pads, distance, lowered pattern,
// per-document verdicts of tabulated atoms and of the regexp engine), prunes it with the real pruneMatchTree and traces
// the real nextDoc / prepare / evalMatchTree calls of the document loop. The Lean model replays the same tree.
package main

import (
	"context"
	"unicode"

	"github.com/sourcegraph/zoekt"
	"github.com/sourcegraph/zoekt/index"

	"verifharness/gen"
)

// modelLower is ZoektModel.C01.toLowerRune; a corpus is only sent to the model if it agrees with unicode.ToLower on
// every rune of the corpus.
func modelLower(c rune) rune {
	switch {
	case 65 <= c && c <= 90:
		return c + 32
	case 192 <= c && c <= 222 && c != 215:
		return c + 32
	case 913 <= c && c <= 929:
		return c + 32
	case 931 <= c && c <= 939:
		return c + 32
	case c == 8490:
		return 107
	}
	return c
}

func modelAlphabetOK(c *Corpus) (ok bool, runes int) {
	ok = true
	chk := func(s string) {
		for _, r := range s {
			runes++
			if modelLower(r) != unicode.ToLower(r) {
				ok = false
			}
		}
	}
	for i := range c.Repos {
		for j := range c.Repos[i].Docs {
			chk(c.Repos[i].Docs[j].Name)
			chk(c.Repos[i].Docs[j].IndexedContent())
		}
	}
	return
}

// traceCase runs the hook on (shard, query) and emits the model case. realKeys: what the real Search returned, in order.
func traceCase(w *gen.Writer, sh *shardH, q *QSpec, detail any) {
	zq, err := q.build()
	if err != nil {
		return
	}
	var tr index.VerifTrace
	var terr error
	func() {
		defer func() {
			if p := recover(); p != nil {
				tr.Skip = "hook-panic"
			}
		}()
		tr, terr = index.VerifSearchTrace(sh.s, zq)
	}()
	if terr != nil {
		w.Count("trace-skip:error", 1)
		return
	}
	if tr.Skip != "" {
		w.Count("trace-skip:"+tr.Skip, 1)
		return
	}
	// the loop in the hook must find what the real Search finds
	zq2, _ := q.build()
	goV := "ok"
	func() {
		defer func() {
			if p := recover(); p != nil {
				goV = "ok" // a crash of the real search is reported by the end-to-end case
			}
		}()
		res, err := sh.s.Search(context.Background(), zq2, &zoekt.SearchOptions{})
		if err != nil {
			return
		}
		same := len(res.Files) == len(tr.Res)
		for i := 0; same && i < len(tr.Res); i++ {
			same = tr.Res[i] == res.Files[i].Repository+"\x00"+res.Files[i].FileName
		}
		if !same {
			goV = "hook-loop-differs-from-real-Search"
		}
	}()
	cs := gen.Case{In: "search " + tr.In, Impl: tr.Out, Go: goV, Class: "trace-" + sh.Kind, Nontrivial: len(tr.Res) > 0}
	if goV != "ok" {
		cs.Key = "trace:hook-loop"
		cs.Detail = gen.Detail(detail)
	}
	w.Emit(cs)
}

func runComponents(w *gen.Writer, r *gen.Rand, f gen.Flags) {}
