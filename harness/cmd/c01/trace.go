// C01 harness: component correspondences against the Lean model.
package main

import (
	"verifharness/gen"
)

func runComponents(w *gen.Writer, r *gen.Rand, f gen.Flags) {}

func replayModelCase(w *gen.Writer, in string) {}
