// C01 harness: correspondence of the Lean engine model with the real code.
//
// search op: index.VerifSearchTrace (hook) builds the match tree for the query exactly as indexData.Search does, dumps it
// with the data of its leaves (posting lists as the real iterators yield them, pads, distance, lowered pattern,
// per-document verdicts of tabulated atoms and of the regexp engine), prunes it with the real pruneMatchTree and traces
// the real nextDoc / prepare / evalMatchTree calls of the document loop. The Lean model replays the same tree.
package main

import (
	"context"
	"fmt"
	"os"
	"regexp"
	"regexp/syntax"
	"sort"
	"strings"
	"unicode"

	"github.com/sourcegraph/zoekt"
	"github.com/sourcegraph/zoekt/index"
	"github.com/sourcegraph/zoekt/query"

	"verifharness/gen"
)

// modelLower is ZoektModel.C01.toLowerRune; a corpus is only sent to the model if it agrees with unicode.ToLower on
// every rune of the corpus.
func modelLower(c rune) rune {
	switch {
	case 65 <= c && c <= 90:
		return c + 32
	case 192 <= c && c <= 222 && c != 215:
		return c + 32
	case 913 <= c && c <= 929:
		return c + 32
	case 931 <= c && c <= 939:
		return c + 32
	case 8544 <= c && c <= 8559:
		return c + 16
	case 9398 <= c && c <= 9423:
		return c + 26
	case c == 8490:
		return 107
	}
	return c
}

func modelAlphabetOK(c *Corpus) (ok bool, runes int) {
	ok = true
	chk := func(s string) {
		for _, r := range s {
			runes++
			if modelLower(r) != unicode.ToLower(r) {
				ok = false
			}
		}
	}
	for i := range c.Repos {
		for j := range c.Repos[i].Docs {
			chk(c.Repos[i].Docs[j].Name)
			chk(c.Repos[i].Docs[j].IndexedContent())
		}
	}
	return
}

// traceCase runs the hook on (shard, query) and emits the model case. realKeys: what the real Search returned, in order.
func traceCase(w *gen.Writer, sh *shardH, q *QSpec, detail any) {
	zq, err := q.build()
	if err != nil {
		return
	}
	var tr index.VerifTrace
	var terr error
	func() {
		defer func() {
			if p := recover(); p != nil {
				tr.Skip = "hook-panic"
			}
		}()
		tr, terr = index.VerifSearchTrace(sh.s, zq)
	}()
	if terr != nil {
		w.Count("trace-skip:error", 1)
		return
	}
	if tr.Skip != "" {
		w.Count("trace-skip:"+tr.Skip, 1)
		return
	}
	// the loop in the hook must find what the real Search finds
	zq2, _ := q.build()
	goV := "ok"
	func() {
		defer func() {
			if p := recover(); p != nil {
				goV = "ok" // a crash of the real search is reported by the end-to-end case
			}
		}()
		res, err := sh.s.Search(context.Background(), zq2, &zoekt.SearchOptions{})
		if err != nil {
			return
		}
		same := len(res.Files) == len(tr.Res)
		for i := 0; same && i < len(tr.Res); i++ {
			same = tr.Res[i] == res.Files[i].Repository+"\x00"+res.Files[i].FileName
		}
		if !same {
			goV = "hook-loop-differs-from-real-Search"
		}
	}()
	cs := gen.Case{In: "search " + tr.In, Impl: tr.Out, Go: goV, Class: "trace-" + sh.Kind, Nontrivial: len(tr.Res) > 0}
	if goV != "ok" {
		cs.Key = "trace:hook-loop"
		cs.Detail = gen.Detail(detail)
	}
	w.Emit(cs)
}

// runComponents: component correspondences that do not need a shard.
func runComponents(w *gen.Writer, r *gen.Rand, f gen.Flags) {
	runBtree(w, r.Fork(), f)
	runWord(w, r.Fork(), f)
	runSelect(w, r.Fork(), f)
	runCaseNgrams(w, r.Fork(), f)
	runExtract(w, r.Fork(), f)
}

// runExtract: L9. The real regexpToMatchTreeRecursive on generated and hand-picked regexps (parsed with zoekt's flags,
// raw or optimised as the query front ends do) against the Lean model: extracted literal tree, isEqual, singleLine.
func runExtract(w *gen.Writer, r *gen.Rand, f gen.Flags) {
	dir, err := os.MkdirTemp(os.Getenv("VERIF_WORK"), "c01x-")
	if err != nil {
		panic(err)
	}
	defer os.RemoveAll(dir)
	c := genCorpus(r.Fork(), false)
	p, err := buildSimpleShard(dir, 0, &c.Repos[0])
	if err != nil {
		panic(err)
	}
	s, err := openSearcher(p)
	if err != nil {
		panic(err)
	}
	defer s.Close()
	fixed := []string{"foo.*bar", "(foo|bar)baz", "fo+", "(abc){2,}", "(abc){1,3}", "(abc){0,2}x", "abc|", "a.c", "^foo$", "foo\\nbar",
		"(?i)foo", "foo(?s:.*)bar", `\bfoo\b`, "[a-c]def", "(foo)(bar)?", "x*", "(?:abc)+def", "éa.*日本語", "foo|bar|ba", "(foo|bar)|baz",
		"abc(def|ghi)jkl", "abc.*", ".*", "(?i:abc)def", "ab", "abcd", "foo\\s+bar", "(a|b)cdef", "日本語|abc", "(abc)+", "((abc))", "abc{2}", "(abcabc|xyz)", "a|b", "(?s)abc.def"}
	g := newQGen(r.Fork(), c)
	n := f.N(600, 20000)
	for i := 0; i < n; i++ {
		var pat string
		if i < len(fixed) {
			pat = fixed[i]
		} else {
			pat = g.regexSource()
		}
		re, err := syntax.Parse(pat, zoektRegexpFlags)
		if err != nil {
			continue
		}
		if r.Chance(2, 3) {
			re = query.OptimizeRegexp(re, zoektRegexpFlags)
		}
		cs := r.Bool()
		ast, out, err := index.VerifExtract(s, re, cs)
		if err != nil {
			w.Count("extract-error", 1)
			continue
		}
		b := "0"
		if cs {
			b = "1"
		}
		class := "extract-brute"
		if strings.Contains(out, "S:") {
			class = "extract-literals"
		}
		if strings.Contains(out, "eq=1") {
			class = "extract-isEqual"
		}
		w.Emit(gen.Case{In: "extract " + b + " " + ast, Impl: out, Class: class, Nontrivial: strings.Contains(out, "S:")})
	}
}

// runCaseNgrams: the real generateCaseNgrams against the Lean odometer model; unicode.SimpleFold enters the model as
// the table of the successor of every member of the three runes' fold orbits.
func runCaseNgrams(w *gen.Writer, r *gen.Rand, f gen.Flags) {
	n := f.N(600, 20000)
	pool := []rune("abkKsSσΣς-_9éÉ日ßẞǅǆ\u212a\u017fİıθϑ\u2167\u2177\u216b\u24b6\u24d0\u24e9\u0345 .")
	for c := 0; c < n; c++ {
		var rs [3]rune
		for i := range rs {
			rs[i] = gen.Pick(r, pool)
			if r.Chance(1, 10) {
				rs[i] = rune(r.Range(32, 0x2000))
			}
		}
		table := map[rune]rune{}
		for _, x := range rs {
			for y := unicode.SimpleFold(x); ; y = unicode.SimpleFold(y) {
				table[y] = unicode.SimpleFold(y)
				if y == x {
					break
				}
			}
		}
		var keys []int
		for k := range table {
			keys = append(keys, int(k))
		}
		sort.Ints(keys)
		var tb []string
		for _, k := range keys {
			tb = append(tb, fmt.Sprintf("%d:%d", k, table[rune(k)]))
		}
		vs := index.VerifCaseNgrams(rs[0], rs[1], rs[2])
		var out []string
		for _, v := range vs {
			out = append(out, fmt.Sprintf("%d.%d.%d", v[0], v[1], v[2]))
		}
		class := fmt.Sprintf("case-variants-%d", len(vs))
		if hasCasedNonLetterTrigram(string(rs[:])) {
			w.Count("case-variants-of-a-cased-non-letter-trigram", 1)
		}
		w.Emit(gen.Case{In: fmt.Sprintf("casengrams %d,%d,%d %s", rs[0], rs[1], rs[2], strings.Join(tb, ",")),
			Impl: "variants=" + strings.Join(out, "|"), Class: class, Nontrivial: len(vs) > 1})
	}
}

// runSelect: L5. The real trigram selection (splitNGrams, sort, indexMap, findSelectiveNgrams) with ARBITRARY
// frequencies against the Lean model.
func runSelect(w *gen.Writer, r *gen.Rand, f gen.Flags) {
	n := f.N(1500, 40000)
	alphabet := []rune("abcabAé日-_")
	for c := 0; c < n; c++ {
		ln := r.Range(3, 12)
		if r.Chance(1, 10) {
			ln = r.Range(3, 40)
		}
		pat := make([]rune, ln)
		for i := range pat {
			pat[i] = gen.Pick(r, alphabet)
		}
		nt := ln - 2
		freqs := make([]uint32, nt)
		for i := range freqs {
			switch r.Intn(4) {
			case 0:
				freqs[i] = uint32(1 + r.Intn(3))
			case 1:
				freqs[i] = uint32(1 + r.Intn(1000))
			case 2:
				freqs[i] = 7
			default:
				freqs[i] = uint32(1 + r.Intn(5)*1000)
			}
		}
		first, last, genuine := index.VerifSelectNgrams(string(pat), freqs)
		g := 0
		if genuine {
			g = 1
		}
		var runes []int
		for _, x := range pat {
			runes = append(runes, int(x))
		}
		class := "select-apart"
		if last-first < 3 {
			class = "select-close"
		}
		if first == last {
			class = "select-same"
		}
		w.Emit(gen.Case{In: "select " + intList(runes) + " " + gen.NatList(freqs), Impl: fmt.Sprintf("first=%d last=%d genuine=%d", first, last, g),
			Class: class, Nontrivial: first != last})
	}
}

// runWord: L10. The real wordMatchTree.matches on generated bytes against the Lean transcription; the Go oracle is the
// standard library's regexp for \b<word>\b whenever newMatchTree would take the fast path for that word.
func runWord(w *gen.Writer, r *gen.Rand, f gen.Flags) {
	n := f.N(1500, 40000)
	pieces := []string{"foo", "foo", "bar", "-", "_", " ", "\n", "x", "foo-foo", "a", "é", "9", ".", "Foo", "ab"}
	wordsL := []string{"foo", "foo-foo", "a", "ab", "aa", "foo_", "x-x", "9", "-foo", "foo-", "é", "a.a", "aba"}
	for c := 0; c < n; c++ {
		var sb strings.Builder
		for i := r.Range(1, 8); i > 0; i-- {
			sb.WriteString(gen.Pick(r, pieces))
		}
		data := []byte(sb.String())
		word := gen.Pick(r, wordsL)
		if r.Chance(1, 4) && len(data) > 1 {
			a := r.Intn(len(data))
			b := a + 1 + r.Intn(min(4, len(data)-a))
			word = string(data[a:b])
		}
		if r.Chance(1, 5) {
			// a failing occurrence that overlaps a passing one: <word byte> w w[k:] for a self-overlapping w
			ov := gen.Pick(r, [][2]string{{"aba", "ba"}, {"foo-foo", "-foo"}, {"aa", "a"}, {"a_a", "_a"}, {"x-x", "-x"}, {"abab", "ab"}})
			word = ov[0]
			data = []byte(gen.Pick(r, []string{"x", "9", "_", ""}) + ov[0] + ov[1] + gen.Pick(r, []string{"", " ", "-", "z"}))
		}
		offs := index.VerifWordMatches(data, word)
		goV := "ok"
		fast := index.VerifWordFastPath(word)
		if fast {
			want := regexp.MustCompile(`\b` + regexp.QuoteMeta(word) + `\b`).Match(data)
			if want != (len(offs) > 0) {
				goV = fmt.Sprintf("word fast path says %v, regexp \\b%s\\b says %v on %q", len(offs) > 0, word, want, data)
			}
		}
		class := "word-not-eligible"
		if fast {
			class = "word-fastpath"
		}
		cs := gen.Case{In: "word " + gen.Hex(data) + " " + gen.Hex([]byte(word)), Impl: "found=" + gen.NatList(offs), Go: goV,
			Class: class, Nontrivial: len(offs) > 0}
		if goV != "ok" {
			cs.Key = "word-fastpath-vs-regexp"
			cs.Detail = gen.Detail(map[string]string{"data": string(data), "word": word})
		}
		w.Emit(cs)
	}
}

// runBtree: L12. The real b-tree (index.VerifBtree: newBtree/insert/freeze, find, btreeIndex.Get over an in-memory
// index file) against the Lean model, for small bucket sizes and fan-outs (so that leaf and inner-node splits, exact
// bucket multiples and the oversized last bucket all occur) and once with the production options.
func runBtree(w *gen.Writer, r *gen.Rand, f gen.Flags) {
	n := f.N(400, 6000)
	for c := 0; c < n; c++ {
		B := 2 * r.Range(1, 4)
		v := r.Range(2, 4)
		h := B / 2
		var cnt int
		switch r.Intn(4) {
		case 0:
			cnt = r.Intn(3 * B)
		case 1:
			cnt = h*r.Range(0, 4*v*v) + r.Range(-1, 1)
		case 2:
			cnt = r.Intn(h * v * v * 6)
		default:
			cnt = B*r.Range(0, 2*v) + r.Range(-1, 1)
		}
		if cnt < 0 {
			cnt = 0
		}
		if c == 0 {
			B, v, cnt = 1024, 50, 2600 // production options (one leaf split level)
		}
		ngs := make([]uint64, 0, cnt)
		cur := uint64(r.Intn(5))
		for i := 0; i < cnt; i++ {
			cur += uint64(1 + r.Intn(4))
			ngs = append(ngs, cur)
		}
		var qs []uint64
		qs = append(qs, 0, cur+3)
		step := 1
		if cnt > 200 {
			step = cnt / 100
		}
		for i := 0; i < cnt; i += step {
			qs = append(qs, ngs[i])
			if r.Chance(1, 2) {
				qs = append(qs, ngs[i]+1)
			}
			if r.Chance(1, 4) && ngs[i] > 0 {
				qs = append(qs, ngs[i]-1)
			}
		}
		shape, finds, gets := index.VerifBtree(B, v, ngs, qs)
		var fs []string
		for _, x := range finds {
			fs = append(fs, fmt.Sprintf("%d:%d", x[0], x[1]))
		}
		found := 0
		for _, g := range gets {
			if g >= 0 {
				found++
			}
		}
		in := fmt.Sprintf("btree %d %d %s %s", B, v, gen.NatList(ngs), gen.NatList(qs))
		impl := fmt.Sprintf("shape=%s find=%s get=%s", strings.ReplaceAll(shape, " ", "_"), strings.Join(fs, ","), intList(gets))
		class := "btree-leaf-root"
		if strings.Contains(shape, "[") {
			class = "btree-inner"
			if strings.Count(shape, "[") > 1 {
				class = "btree-inner-multi"
			}
		}
		w.Emit(gen.Case{In: in, Impl: impl, Class: class, Nontrivial: found > 0 && found < len(gets)})
	}
}

func intList(xs []int) string {
	if len(xs) == 0 {
		return "-"
	}
	var ss []string
	for _, x := range xs {
		ss = append(ss, fmt.Sprint(x))
	}
	return strings.Join(ss, ",")
}
