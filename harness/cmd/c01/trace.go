// C01 harness: correspondence of the Lean engine model with the real code.
//
// search op: index.VerifSearchTrace (hook) builds the match tree for the query exactly as indexData.Search does, dumps it
// with the data of its leaves (posting lists as the real iterators yield them, pads, distance, lowered pattern,
// per-document verdicts of tabulated atoms and of the regexp engine), prunes it with the real pruneMatchTree and traces
// the real nextDoc / prepare / evalMatchTree calls of the document loop. The Lean model replays the same tree.
package main

import (
	"context"
	"fmt"
	"strings"
	"unicode"

	"github.com/sourcegraph/zoekt"
	"github.com/sourcegraph/zoekt/index"

	"verifharness/gen"
)

// modelLower is ZoektModel.C01.toLowerRune; a corpus is only sent to the model if it agrees with unicode.ToLower on
// every rune of the corpus.
func modelLower(c rune) rune {
	switch {
	case 65 <= c && c <= 90:
		return c + 32
	case 192 <= c && c <= 222 && c != 215:
		return c + 32
	case 913 <= c && c <= 929:
		return c + 32
	case 931 <= c && c <= 939:
		return c + 32
	case c == 8490:
		return 107
	}
	return c
}

func modelAlphabetOK(c *Corpus) (ok bool, runes int) {
	ok = true
	chk := func(s string) {
		for _, r := range s {
			runes++
			if modelLower(r) != unicode.ToLower(r) {
				ok = false
			}
		}
	}
	for i := range c.Repos {
		for j := range c.Repos[i].Docs {
			chk(c.Repos[i].Docs[j].Name)
			chk(c.Repos[i].Docs[j].IndexedContent())
		}
	}
	return
}

// traceCase runs the hook on (shard, query) and emits the model case. realKeys: what the real Search returned, in order.
func traceCase(w *gen.Writer, sh *shardH, q *QSpec, detail any) {
	zq, err := q.build()
	if err != nil {
		return
	}
	var tr index.VerifTrace
	var terr error
	func() {
		defer func() {
			if p := recover(); p != nil {
				tr.Skip = "hook-panic"
			}
		}()
		tr, terr = index.VerifSearchTrace(sh.s, zq)
	}()
	if terr != nil {
		w.Count("trace-skip:error", 1)
		return
	}
	if tr.Skip != "" {
		w.Count("trace-skip:"+tr.Skip, 1)
		return
	}
	// the loop in the hook must find what the real Search finds
	zq2, _ := q.build()
	goV := "ok"
	func() {
		defer func() {
			if p := recover(); p != nil {
				goV = "ok" // a crash of the real search is reported by the end-to-end case
			}
		}()
		res, err := sh.s.Search(context.Background(), zq2, &zoekt.SearchOptions{})
		if err != nil {
			return
		}
		same := len(res.Files) == len(tr.Res)
		for i := 0; same && i < len(tr.Res); i++ {
			same = tr.Res[i] == res.Files[i].Repository+"\x00"+res.Files[i].FileName
		}
		if !same {
			goV = "hook-loop-differs-from-real-Search"
		}
	}()
	cs := gen.Case{In: "search " + tr.In, Impl: tr.Out, Go: goV, Class: "trace-" + sh.Kind, Nontrivial: len(tr.Res) > 0}
	if goV != "ok" {
		cs.Key = "trace:hook-loop"
		cs.Detail = gen.Detail(detail)
	}
	w.Emit(cs)
}

// runComponents: component correspondences that do not need a shard.
func runComponents(w *gen.Writer, r *gen.Rand, f gen.Flags) {
	runBtree(w, r.Fork(), f)
}

// runBtree: L12. The real b-tree (index.VerifBtree: newBtree/insert/freeze, find, btreeIndex.Get over an in-memory
// index file) against the Lean model, for small bucket sizes and fan-outs (so that leaf and inner-node splits, exact
// bucket multiples and the oversized last bucket all occur) and once with the production options.
func runBtree(w *gen.Writer, r *gen.Rand, f gen.Flags) {
	n := f.N(400, 6000)
	for c := 0; c < n; c++ {
		B := 2 * r.Range(1, 4)
		v := r.Range(2, 4)
		h := B / 2
		var cnt int
		switch r.Intn(4) {
		case 0:
			cnt = r.Intn(3 * B)
		case 1:
			cnt = h*r.Range(0, 4*v*v) + r.Range(-1, 1)
		case 2:
			cnt = r.Intn(h * v * v * 6)
		default:
			cnt = B*r.Range(0, 2*v) + r.Range(-1, 1)
		}
		if cnt < 0 {
			cnt = 0
		}
		if c == 0 {
			B, v, cnt = 1024, 50, 2600 // production options (one leaf split level)
		}
		ngs := make([]uint64, 0, cnt)
		cur := uint64(r.Intn(5))
		for i := 0; i < cnt; i++ {
			cur += uint64(1 + r.Intn(4))
			ngs = append(ngs, cur)
		}
		var qs []uint64
		qs = append(qs, 0, cur+3)
		step := 1
		if cnt > 200 {
			step = cnt / 100
		}
		for i := 0; i < cnt; i += step {
			qs = append(qs, ngs[i])
			if r.Chance(1, 2) {
				qs = append(qs, ngs[i]+1)
			}
			if r.Chance(1, 4) && ngs[i] > 0 {
				qs = append(qs, ngs[i]-1)
			}
		}
		shape, finds, gets := index.VerifBtree(B, v, ngs, qs)
		var fs []string
		for _, x := range finds {
			fs = append(fs, fmt.Sprintf("%d:%d", x[0], x[1]))
		}
		found := 0
		for _, g := range gets {
			if g >= 0 {
				found++
			}
		}
		in := fmt.Sprintf("btree %d %d %s %s", B, v, gen.NatList(ngs), gen.NatList(qs))
		impl := fmt.Sprintf("shape=%s find=%s get=%s", strings.ReplaceAll(shape, " ", "_"), strings.Join(fs, ","), intList(gets))
		class := "btree-leaf-root"
		if strings.Contains(shape, "[") {
			class = "btree-inner"
			if strings.Count(shape, "[") > 1 {
				class = "btree-inner-multi"
			}
		}
		w.Emit(gen.Case{In: in, Impl: impl, Class: class, Nontrivial: found > 0 && found < len(gets)})
	}
}

func intList(xs []int) string {
	if len(xs) == 0 {
		return "-"
	}
	var ss []string
	for _, x := range xs {
		ss = append(ss, fmt.Sprint(x))
	}
	return strings.Join(ss, ",")
}
