// C01 harness: the naive scan oracle. It decides every atom by scanning the whole file content or file name
// (strings.Contains, rune-wise lower-casing, the Go standard library's regexp engine) and shares nothing with the
// index: no trigrams, no postings, no match trees, no zoekt code.
package main

import (
	"fmt"
	"regexp"
	"regexp/syntax"
	"strings"
	"unicode"
)

type oracle struct {
	c       *Corpus
	reCache map[string]*regexp.Regexp
}

func newOracle(c *Corpus) *oracle { return &oracle{c: c, reCache: map[string]*regexp.Regexp{}} }

func lowerRunes(s string) string {
	var sb strings.Builder
	for _, c := range s {
		sb.WriteRune(unicode.ToLower(c))
	}
	return sb.String()
}

func containsFold(text, pat string, caseSens bool) bool {
	if caseSens {
		return strings.Contains(text, pat)
	}
	return strings.Contains(lowerRunes(text), lowerRunes(pat))
}

// compile gives the standard-library regexp for a regex atom: the language of the syntax tree the query carries
// (printed by regexp/syntax itself), with (?i) when the atom is not case sensitive.
func (o *oracle) compile(q *QSpec) (*regexp.Regexp, error) {
	key := fmt.Sprintf("%v|%v|%s", q.CaseSens, q.Raw, q.Pat)
	if re, ok := o.reCache[key]; ok {
		return re, nil
	}
	st, err := parseRegex(q)
	if err != nil {
		return nil, err
	}
	src := st.String()
	if !q.CaseSens {
		src = "(?i)" + src
	}
	re, err := regexp.Compile(src)
	if err != nil {
		return nil, err
	}
	o.reCache[key] = re
	return re, nil
}

func (o *oracle) plainRe(src string) *regexp.Regexp {
	if re, ok := o.reCache["plain|"+src]; ok {
		return re
	}
	re := regexp.MustCompile(src)
	o.reCache["plain|"+src] = re
	return re
}

// live: the repository is not tombstoned and the path is not file-tombstoned.
func live(rp *RepoSpec, d *DocSpec) bool {
	if rp.Tombstone {
		return false
	}
	for _, n := range rp.FileTombstones {
		if n == d.Name {
			return false
		}
	}
	return true
}

func hasBranch(d *DocSpec, b string) bool {
	for _, x := range d.Branches {
		if x == b {
			return true
		}
	}
	return false
}

func (o *oracle) textMatch(q *QSpec, text string) (bool, error) {
	if q.Kind == "substr" {
		return containsFold(text, q.Pat, q.CaseSens), nil
	}
	st, err := parseRegex(q)
	if err != nil {
		return false, err
	}
	if !q.Raw && st.Op == syntax.OpLiteral { // the front end makes this a Substring atom
		return containsFold(text, string(st.Rune), q.CaseSens), nil
	}
	re, err := o.compile(q)
	if err != nil {
		return false, err
	}
	return re.MatchString(text), nil
}

// eval: is q true of document d of repository rp, each atom decided by a scan.
func (o *oracle) eval(q *QSpec, rp *RepoSpec, d *DocSpec) (bool, error) {
	switch q.Kind {
	case "and":
		for i := range q.Ch {
			v, err := o.eval(&q.Ch[i], rp, d)
			if err != nil {
				return false, err
			}
			if !v {
				return false, nil
			}
		}
		return true, nil
	case "or":
		for i := range q.Ch {
			v, err := o.eval(&q.Ch[i], rp, d)
			if err != nil {
				return false, err
			}
			if v {
				return true, nil
			}
		}
		return false, nil
	case "not":
		v, err := o.eval(&q.Ch[0], rp, d)
		return !v, err
	case "type", "boost":
		return o.eval(&q.Ch[0], rp, d)
	case "substr", "regex":
		name, content := q.FileName, q.Content
		if name == content { // neither or both: file name or content
			name, content = true, true
		}
		if name {
			v, err := o.textMatch(q, d.Name)
			if err != nil || v {
				return v, err
			}
		}
		if content {
			return o.textMatch(q, d.IndexedContent())
		}
		return false, nil
	case "sym":
		// a symbol atom is true when the expression matches inside the text of one of the document's symbol ranges
		sub := q.Ch[0]
		if d.Skip != 0 {
			return false, nil
		}
		for _, s := range d.Syms {
			v, err := o.textMatch(&sub, d.Content[s.Start:s.End])
			if err != nil || v {
				return v, err
			}
		}
		return false, nil
	case "branch":
		if q.Pat == "HEAD" { // documented: HEAD is the repository's default (first) branch
			return len(rp.Branches) > 0 && hasBranch(d, rp.Branches[0]), nil
		}
		for _, b := range d.Branches {
			if (q.Exact && b == q.Pat) || (!q.Exact && strings.Contains(b, q.Pat)) {
				return true, nil
			}
		}
		return false, nil
	case "branchesrepos":
		for _, br := range q.BRs {
			for _, id := range br.IDs {
				if id == rp.ID && hasBranch(d, br.Branch) {
					return true, nil
				}
			}
		}
		return false, nil
	case "reposet":
		for _, n := range q.Names {
			if n == rp.Name {
				return true, nil
			}
		}
		return false, nil
	case "repoids":
		for _, id := range q.IDs {
			if id == rp.ID {
				return true, nil
			}
		}
		return false, nil
	case "repo", "reporegexp":
		return o.plainRe(q.Pat).MatchString(rp.Name), nil
	case "rawconfig":
		ok := true
		chk := func(only, no uint64, v bool) {
			if q.Flags&only != 0 && !v {
				ok = false
			}
			if q.Flags&no != 0 && v {
				ok = false
			}
		}
		chk(1, 2, rp.Public)
		chk(4, 8, rp.Fork)
		chk(16, 32, rp.Archived)
		return ok, nil
	case "lang":
		return d.Lang == q.Pat, nil
	case "meta":
		v, ok := rp.Meta[q.Field]
		if !ok {
			return false, nil
		}
		return o.plainRe(q.Pat).MatchString(v), nil
	case "filenameset":
		for _, n := range q.Names {
			if n == d.Name {
				return true, nil
			}
		}
		return false, nil
	case "const":
		return q.Value, nil
	}
	return false, fmt.Errorf("oracle: unknown kind %q", q.Kind)
}

// expected: the identities (repo, name, content) of the live documents of the given repositories on which q is true.
func (o *oracle) expected(q *QSpec, member []int) ([]string, error) {
	var out []string
	for _, ri := range member {
		rp := &o.c.Repos[ri]
		for di := range rp.Docs {
			d := &rp.Docs[di]
			if !live(rp, d) {
				continue
			}
			v, err := o.eval(q, rp, d)
			if err != nil {
				return nil, err
			}
			if v {
				out = append(out, docKey(rp.Name, d.Name, d.IndexedContent()))
			}
		}
	}
	return sortedCopy(out), nil
}

func docKey(repo, name, content string) string {
	return repo + "\x00" + name + "\x00" + content
}
