// C01 harness: corpus model (plain data, JSON-serialisable for replays), generator, and the construction of REAL shards
// (simple shards through index.NewShardBuilder/Add/Write, compound shards through index.Merge, tombstones through the
// .meta sidecar that the real reader picks up).
package main

import (
	"encoding/json"
	"fmt"
	"os"
	"path/filepath"
	"sort"
	"strings"
	"unicode"
	"unicode/utf8"

	"github.com/sourcegraph/zoekt"
	"github.com/sourcegraph/zoekt/index"

	"verifharness/gen"
)

type Sec struct{ Start, End uint32 }

type DocSpec struct {
	Name     string
	Content  string
	Branches []string
	Lang     string
	Skip     int // index.SkipReason; 0 = indexed normally
	Syms     []Sec
}

type RepoSpec struct {
	Name           string
	ID             uint32
	Branches       []string
	Public         bool
	Fork           bool
	Archived       bool
	Meta           map[string]string
	Tombstone      bool
	FileTombstones []string
	Docs           []DocSpec
}

type Corpus struct {
	Repos []RepoSpec
}

// the NOT-INDEXED marker (property quantifier: "skipped documents whose content is the NOT-INDEXED marker").
// Written out here, independent of index/document.go.
var skipText = map[int]string{
	1: "exceeds the maximum size limit",
	2: "contains too few trigrams",
	3: "contains binary content",
	4: "contains too many trigrams",
	5: "object missing from repository",
}

// IndexedContent is what a search is specified to see as the document's content.
func (d *DocSpec) IndexedContent() string {
	if d.Skip != 0 {
		return "NOT-INDEXED: " + skipText[d.Skip]
	}
	return d.Content
}

// ---------------------------------------------------------------- generator

// Alphabet: every rune used satisfies "lower-casing and simple case folding agree" (property quantifier):
// for every member d of the SimpleFold orbit of c, unicode.ToLower(d) == unicode.ToLower(c).  checked in init (main.go).
var words = []string{
	"foo", "bar", "Foo", "baz", "qux", "ab", "main", "func", "a_b", "FOO", "fooBar", "x", "y", "z", "if", "for",
	"é", "É", "日本", "€", "K", "über", "Über", "foo-bar", "-foo", "foo-", "Bar", "barbaz", "aaa", "aa", "abab", "a",
	"Zoekt", "zoekt", "index", "Index", "日", "本語", "δ", "Δ", "k", "\u212a", "ok", "OK", "\u212aelvin",
}
var puncts = []string{" ", " ", " ", "\n", "\n", ".", "-", "=", "(", ")", "_", "\t", ", ", "::", "/", "+"}

var exoticCased = []string{"\u01c4x", "\u01c5x", "\u01c6x", "\U00010400\U00010401\U00010402", "\U00010428\U00010429\U0001042a",
	"a\U00010400b", "\u13a0\u13a1\u13a2", "\uab70\uab71\uab72", "\u1e9e\u1e9e", "\u00dfa\u00df", "\u2126m", "\u03c9m", "\u212bx", "\u00e5x"}

// cnlWords: per-corpus tokens of cased non-letters (set by genCorpus for about one corpus in three, each token in
// several casings so that documents differ from one another and from the queries only in case)
var cnlWords []string

func genText(r *gen.Rand, maxTok int) string {
	var sb strings.Builder
	n := r.Intn(maxTok + 1)
	for i := 0; i < n; i++ {
		if len(cnlWords) > 0 && r.Chance(1, 6) {
			sb.WriteString(gen.Pick(r, cnlWords))
			continue
		}
		switch r.Intn(10) {
		case 0, 1, 2, 3, 4, 5:
			sb.WriteString(gen.Pick(r, words))
		case 6, 7, 8:
			sb.WriteString(gen.Pick(r, puncts))
		case 9:
			sb.WriteByte(byte('a' + r.Intn(6)))
		}
	}
	return sb.String()
}

var repoNames = []string{"repoA", "github.com/x/b", "gitlab.com/Org/Proj", "foo", "x/foo-bar", "zoekt", "repoA2"}
var branchNames = []string{"main", "dev", "release/1", "feature-x", "HEAD2", "ma"}
var langs = []string{"Go", "Python", "Text", "C++"}
var fileDirs = []string{"", "src/", "cmd/foo/", "a/b/", "Foo/"}
var fileBases = []string{"main.go", "foo.py", "README", "bar_test.go", "x", "é.txt", "Makefile", "foo-bar.c", "a.b.c", "日本.md", "FOO.go", "ab"}

func genCorpus(r *gen.Rand, big bool) *Corpus {
	c := &Corpus{}
	cnlWords = nil
	if r.Chance(1, 7) {
		// other cased runes inside the quantifier that are easy to mishandle: a three-member fold orbit (DŽ / Dž / dž),
		// four-byte letters (Deseret), letters whose case pair lives in another block (Cherokee). The Lean model's
		// lower-casing table does not know them, so such corpora are checked end to end only.
		cnlWords = append(cnlWords, gen.Pick(r, exoticCased), gen.Pick(r, exoticCased), gen.Pick(r, exoticCased))
	} else if r.Chance(1, 3) {
		for i := r.Range(1, 3); i > 0; i-- {
			tok := casedNonLetterToken(r)
			up, lo := []rune(tok), []rune(tok)
			for k := range up {
				if l := unicode.ToLower(up[k]); l != up[k] {
					lo[k] = l
				} else {
					up[k] = otherCase(up[k])
					if unicode.ToLower(up[k]) == up[k] { // no upper form: keep
						up[k] = lo[k]
					}
				}
			}
			cnlWords = append(cnlWords, tok, string(up), string(lo))
		}
	}
	nRepos := r.Range(1, 4)
	names := append([]string(nil), repoNames...)
	gen.Shuffle(r, names)
	for i := 0; i < nRepos; i++ {
		rp := RepoSpec{Name: names[i], ID: uint32(10 + r.Intn(5)*7 + i*100)}
		if r.Chance(1, 8) {
			rp.ID = 0
		}
		nb := r.Range(1, 3)
		bs := append([]string(nil), branchNames...)
		gen.Shuffle(r, bs)
		rp.Branches = bs[:nb]
		if r.Chance(1, 3) {
			rp.Branches[0] = "HEAD"
		}
		rp.Public, rp.Fork, rp.Archived = r.Bool(), r.Chance(1, 3), r.Chance(1, 4)
		if r.Chance(1, 2) {
			rp.Meta = map[string]string{}
			if r.Bool() {
				rp.Meta["team"] = gen.Pick(r, []string{"search", "infra", "Search-core"})
			}
			if r.Bool() {
				rp.Meta["tier"] = gen.Pick(r, []string{"1", "2", "10"})
			}
		}
		nd := r.Range(0, 6)
		if big {
			nd = r.Range(3, 14)
		}
		used := map[string]bool{}
		for j := 0; j < nd; j++ {
			var d DocSpec
			d.Name = gen.Pick(r, fileDirs) + gen.Pick(r, fileBases)
			if len(cnlWords) > 0 && r.Chance(1, 4) {
				d.Name = gen.Pick(r, fileDirs) + "notes-" + strings.ReplaceAll(gen.Pick(r, cnlWords), " ", "_") + ".md"
			}
			if used[d.Name] && r.Chance(3, 4) {
				d.Name = fmt.Sprintf("%s%d", d.Name, j)
			}
			used[d.Name] = true
			mt := 30
			if big && r.Chance(1, 4) {
				mt = 400 // crosses the 100-rune sampling boundaries of the rune offset map several times
			}
			d.Content = genText(r, mt)
			if r.Chance(1, 12) {
				d.Content = ""
			}
			if r.Chance(1, 6) && len(d.Content) > 0 && !strings.HasSuffix(d.Content, "\n") {
				d.Content += "\n"
			}
			for _, b := range rp.Branches {
				if r.Chance(2, 3) {
					d.Branches = append(d.Branches, b)
				}
			}
			if len(d.Branches) == 0 && r.Chance(5, 6) {
				d.Branches = []string{rp.Branches[0]}
			}
			d.Lang = gen.Pick(r, langs)
			if r.Chance(1, 10) {
				d.Skip = r.Range(1, 5)
			} else if r.Chance(1, 25) {
				d.Content += "\x00bin"
				d.Skip = 3 // ShardBuilder.Add itself marks content with a NUL byte as binary
			}
			if d.Skip == 0 && r.Chance(1, 2) {
				d.Syms = genSyms(r, d.Content)
			}
			rp.Docs = append(rp.Docs, d)
		}
		if r.Chance(1, 6) {
			rp.Tombstone = true
		}
		if len(rp.Docs) > 0 && r.Chance(1, 4) {
			rp.FileTombstones = append(rp.FileTombstones, rp.Docs[r.Intn(len(rp.Docs))].Name)
			if r.Chance(1, 3) {
				rp.FileTombstones = append(rp.FileTombstones, "no/such/file")
			}
		}
		c.Repos = append(c.Repos, rp)
	}
	return c
}

// genSyms picks non-overlapping, rune-aligned byte ranges (identifier-like runs) of content, sorted.
func genSyms(r *gen.Rand, content string) []Sec {
	var secs []Sec
	i := 0
	for i < len(content) {
		c := content[i]
		if c == ' ' || c == '\n' || c == '\t' {
			i++
			continue
		}
		j := i
		for j < len(content) && content[j] != ' ' && content[j] != '\n' && content[j] != '\t' {
			_, sz := utf8.DecodeRuneInString(content[j:])
			j += sz
		}
		if r.Chance(1, 3) {
			secs = append(secs, Sec{uint32(i), uint32(j)})
		}
		i = j
	}
	return secs
}

// ---------------------------------------------------------------- real shards

type Shard struct {
	Path  string
	Repos []int // indices into Corpus.Repos of the repositories this shard holds, in shard order is NOT assumed
	Kind  string
}

func zoektRepo(rp *RepoSpec) *zoekt.Repository {
	zr := &zoekt.Repository{Name: rp.Name, ID: rp.ID}
	for i, b := range rp.Branches {
		zr.Branches = append(zr.Branches, zoekt.RepositoryBranch{Name: b, Version: fmt.Sprintf("v%d", i)})
	}
	yn := func(b bool) string {
		if b {
			return "1"
		}
		return "0"
	}
	zr.RawConfig = map[string]string{"public": yn(rp.Public), "fork": yn(rp.Fork), "archived": yn(rp.Archived)}
	if rp.Meta != nil {
		zr.Metadata = map[string]string{}
		for k, v := range rp.Meta {
			zr.Metadata[k] = v
		}
	}
	return zr
}

func addDocs(b *index.ShardBuilder, rp *RepoSpec) error {
	for i := range rp.Docs {
		d := &rp.Docs[i]
		doc := index.Document{Name: d.Name, Content: []byte(d.Content), Branches: d.Branches, Language: d.Lang,
			SkipReason: index.SkipReason(d.Skip)}
		if d.Skip == 3 && strings.Contains(d.Content, "\x00") {
			doc.SkipReason = index.SkipReasonNone // let Add detect the NUL byte itself
		}
		for _, s := range d.Syms {
			doc.Symbols = append(doc.Symbols, index.DocumentSection{Start: s.Start, End: s.End})
			doc.SymbolsMetaData = append(doc.SymbolsMetaData, &zoekt.Symbol{Kind: "k"})
		}
		if err := b.Add(doc); err != nil {
			return fmt.Errorf("Add(%q): %w", d.Name, err)
		}
	}
	return nil
}

func writeBuilder(b *index.ShardBuilder, p string) (string, error) {
	f, err := os.Create(p)
	if err != nil {
		return "", err
	}
	if err := b.Write(f); err != nil {
		f.Close()
		return "", err
	}
	return p, f.Close()
}

func buildSimpleShard(dir string, idx int, rp *RepoSpec) (string, error) {
	b, err := index.VerifNewShardBuilder(zoektRepo(rp), false)
	if err != nil {
		return "", err
	}
	if err := addDocs(b, rp); err != nil {
		return "", err
	}
	return writeBuilder(b, filepath.Join(dir, fmt.Sprintf("r%d_v16.00000.zoekt", idx)))
}

// buildCompoundDirect builds a compound shard the way merge() does (setRepository per repository, then Add per
// document) but straight from the corpus, so that repositories without documents are part of the shard as well.
func buildCompoundDirect(dir string, c *Corpus) (string, error) {
	b, err := index.VerifNewShardBuilder(zoektRepo(&c.Repos[0]), true)
	if err != nil {
		return "", err
	}
	for i := range c.Repos {
		if i > 0 {
			if err := index.VerifStartRepository(b, zoektRepo(&c.Repos[i])); err != nil {
				return "", err
			}
		}
		if err := addDocs(b, &c.Repos[i]); err != nil {
			return "", err
		}
	}
	if err := os.MkdirAll(filepath.Join(dir, "compound"), 0o755); err != nil {
		return "", err
	}
	return writeBuilder(b, filepath.Join(dir, "compound", "compound-direct_v17.00000.zoekt"))
}

// writeMeta applies Tombstone / FileTombstones through the .meta sidecar, which the real reader merges over the
// shard's own repository metadata (index/read.go parseMetadata). SetTombstone is the real entry point for Tombstone.
func writeMeta(shardPath string, c *Corpus, member []int) error {
	byName := map[string]*RepoSpec{}
	needFile := false
	for _, i := range member {
		byName[c.Repos[i].Name] = &c.Repos[i]
		if len(c.Repos[i].FileTombstones) > 0 {
			needFile = true
		}
	}
	simple := !strings.Contains(filepath.Base(shardPath), "compound")
	if !simple {
		for _, i := range member {
			rp := &c.Repos[i]
			if rp.Tombstone && rp.ID != 0 {
				if err := index.SetTombstone(shardPath, rp.ID); err != nil {
					return err
				}
			}
		}
	}
	// Tombstone for ID 0 repos and FileTombstones: rewrite the sidecar from the shard's current metadata.
	repos, _, err := index.ReadMetadataPath(shardPath)
	if err != nil {
		return err
	}
	changed := false
	for _, zr := range repos {
		rp := byName[zr.Name]
		if rp == nil {
			return fmt.Errorf("shard %s has unexpected repo %q", shardPath, zr.Name)
		}
		if rp.Tombstone && !zr.Tombstone {
			zr.Tombstone = true
			changed = true
		}
		if len(rp.FileTombstones) > 0 {
			zr.FileTombstones = map[string]struct{}{}
			for _, n := range rp.FileTombstones {
				zr.FileTombstones[n] = struct{}{}
			}
			changed = true
		}
	}
	if changed || needFile {
		var payload any = repos
		if simple { // a v16 simple shard's sidecar holds one repository object (as index.Builder writes it)
			payload = repos[0]
		}
		tmp, final, err := index.JsonMarshalRepoMetaTemp(shardPath, payload)
		if err != nil {
			return err
		}
		return os.Rename(tmp, final)
	}
	return nil
}

// buildShards writes one simple shard per repository and (when there are ≥ 2 repositories, or on request) one compound
// shard merged from the simple shards by the real index.Merge.
func buildShards(dir string, c *Corpus, mode string) ([]Shard, error) {
	var shards []Shard
	var simple []string
	for i := range c.Repos {
		p, err := buildSimpleShard(dir, i, &c.Repos[i])
		if err != nil {
			return nil, err
		}
		simple = append(simple, p)
	}
	if mode == "direct" {
		p, err := buildCompoundDirect(dir, c)
		if err != nil {
			return nil, err
		}
		var member []int
		for i := range c.Repos {
			member = append(member, i)
		}
		if err := writeMeta(p, c, member); err != nil {
			return nil, err
		}
		shards = append(shards, Shard{Path: p, Repos: member, Kind: "compound"})
	}
	if mode == "merge" {
		var files []index.IndexFile
		var member []int
		for i, p := range simple {
			if len(c.Repos[i].Docs) == 0 {
				continue // merge drops repositories without documents (documented TODO in merge.go)
			}
			f, err := os.Open(p)
			if err != nil {
				return nil, err
			}
			inf, err := index.NewIndexFile(f)
			if err != nil {
				return nil, err
			}
			files = append(files, inf)
			member = append(member, i)
		}
		if len(files) > 0 {
			cdir := filepath.Join(dir, "compound")
			tmp, dst, err := index.Merge(cdir, files...)
			for _, f := range files {
				f.Close()
			}
			if err != nil {
				return nil, fmt.Errorf("merge: %w", err)
			}
			if err := os.Rename(tmp, dst); err != nil {
				return nil, err
			}
			if err := writeMeta(dst, c, member); err != nil {
				return nil, err
			}
			shards = append(shards, Shard{Path: dst, Repos: member, Kind: "compound"})
		}
	}
	for i, p := range simple {
		if err := writeMeta(p, c, []int{i}); err != nil {
			return nil, err
		}
		shards = append(shards, Shard{Path: p, Repos: []int{i}, Kind: "simple"})
	}
	return shards, nil
}

func openSearcher(path string) (zoekt.Searcher, error) {
	f, err := os.Open(path)
	if err != nil {
		return nil, err
	}
	inf, err := index.NewIndexFile(f)
	if err != nil {
		return nil, err
	}
	return index.NewSearcher(inf)
}

func corpusJSON(c *Corpus) json.RawMessage { return gen.Detail(c) }

func sortedCopy(xs []string) []string {
	ys := append([]string(nil), xs...)
	sort.Strings(ys)
	return ys
}
