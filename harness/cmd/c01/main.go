// C01 harness.
//
//	F (end to end): generated corpora -> REAL shards (simple: NewShardBuilder/Add/Write; compound: index.Merge; tombstones
//	  and file tombstones through the .meta sidecar; skipped documents) -> index.NewSearcher(...).Search with no limits
//	  on generated query trees -> the returned (repo, name, content) multiset is compared with a naive scan oracle
//	  (oracle.go) that shares nothing with the index.
//	C (correspondence): component hooks against the Lean model (trace.go).
package main

import (
	"context"
	"encoding/json"
	"fmt"
	"io"
	"log"
	"os"
	"path/filepath"
	"regexp"
	"regexp/syntax"
	"runtime/debug"
	"runtime/pprof"
	"sort"
	"strings"
	"time"
	"unicode"

	gregexp "github.com/grafana/regexp"
	"github.com/sourcegraph/zoekt"

	"verifharness/gen"
)

type e2eDetail struct {
	Corpus   *Corpus
	Query    QSpec
	MinQuery *QSpec   `json:",omitempty"`
	Shard    string   // "simple:<repo index>" | "compound"
	Mode     string   // how the compound shard was built: "merge" (index.Merge) | "direct"
	Missing  []string `json:",omitempty"`
	Extra    []string `json:",omitempty"`
	Err      string   `json:",omitempty"`
}

type shardH struct {
	Shard
	s zoekt.Searcher
}

// searchKeys runs the real search (no limits, whole content returned so that documents are identified by
// repo+name+content) and returns the sorted identities.
func searchKeys(s zoekt.Searcher, q *QSpec) (keys []string, err error) {
	zq, err := q.build()
	if err != nil {
		return nil, fmt.Errorf("build: %w", err)
	}
	type out struct {
		keys []string
		err  error
	}
	ch := make(chan out, 1)
	go func() {
		var o out
		defer func() {
			if p := recover(); p != nil {
				o = out{err: fmt.Errorf("panic: %v", p)}
			}
			ch <- o
		}()
		res, err := s.Search(context.Background(), zq, &zoekt.SearchOptions{Whole: true})
		if err != nil {
			o.err = fmt.Errorf("search error: %w", err)
			return
		}
		for _, f := range res.Files {
			o.keys = append(o.keys, docKey(f.Repository, f.FileName, string(f.Content)))
		}
		sort.Strings(o.keys)
	}()
	select {
	case o := <-ch:
		return o.keys, o.err
	case <-time.After(searchTimeout):
		// the search goroutine keeps spinning; the run stops after reporting this case
		hung = true
		return nil, fmt.Errorf("hang: the search did not return within %v", searchTimeout)
	}
}

const searchTimeout = 60 * time.Second

var hung bool

func diffKeys(got, want []string) (missing, extra []string) {
	i, j := 0, 0
	for i < len(got) || j < len(want) {
		switch {
		case j >= len(want) || (i < len(got) && got[i] < want[j]):
			extra = append(extra, got[i])
			i++
		case i >= len(got) || want[j] < got[i]:
			missing = append(missing, want[j])
			j++
		default:
			i++
			j++
		}
	}
	return
}

func short(keys []string) []string {
	var out []string
	for _, k := range keys {
		p := strings.SplitN(k, "\x00", 3)
		out = append(out, p[0]+":"+p[1])
	}
	return out
}

// check runs one (shard, query) pair; verdict "" = agrees with the oracle.
func check(o *oracle, sh *shardH, q *QSpec) (verdict string, missing, extra []string, nres int) {
	want, err := o.expected(q, sh.Repos)
	if err != nil {
		return "oracle-error: " + err.Error(), nil, nil, 0
	}
	got, err := searchKeys(sh.s, q)
	if err != nil {
		return err.Error(), nil, nil, 0
	}
	missing, extra = diffKeys(got, want)
	if len(missing)+len(extra) > 0 {
		return fmt.Sprintf("mismatch missing=%d extra=%d", len(missing), len(extra)), missing, extra, len(got)
	}
	return "", nil, nil, len(got)
}

// shrink: smallest sub-tree of q (then with and/or children dropped) that still fails on the shard.
func shrink(o *oracle, sh *shardH, q QSpec) QSpec {
	fails := func(x *QSpec) bool {
		v, _, _, _ := check(o, sh, x)
		return v != "" && !strings.HasPrefix(v, "oracle-error")
	}
	cur := q
	for changed := true; changed; {
		changed = false
		for i := range cur.Ch {
			if cur.Kind != "sym" && fails(&cur.Ch[i]) {
				cur = cur.Ch[i]
				changed = true
				break
			}
		}
		if changed {
			continue
		}
		if (cur.Kind == "and" || cur.Kind == "or") && len(cur.Ch) > 1 {
			for i := range cur.Ch {
				x := cur
				x.Ch = append(append([]QSpec(nil), cur.Ch[:i]...), cur.Ch[i+1:]...)
				if fails(&x) {
					cur = x
					changed = true
					break
				}
			}
		}
	}
	return cur
}

func isWordByte(c byte) bool {
	return (c >= 'a' && c <= 'z') || (c >= 'A' && c <= 'Z') || (c >= '0' && c <= '9') || c == '_'
}

// classify names the failure class of a minimised failing query (the key matched against known findings).
func classify(c *Corpus, q *QSpec, verdict string, missing, extra []string) string {
	if len(extra) == 0 && engineKelvin(c, q, missing) {
		kelvin := strings.ContainsRune(q.Pat, 0x212a)
		if q.Kind == "sym" {
			kelvin = strings.ContainsRune(q.Ch[0].Pat, 0x212a)
		}
		for _, k := range missing {
			kelvin = kelvin || strings.ContainsRune(k, 0x212a)
		}
		if kelvin {
			return "mismatch:engine-kelvin-fold"
		}
		return "mismatch:engine-fold-orbit"
	}
	pre := "mismatch"
	if strings.HasPrefix(verdict, "hang") {
		return "hang"
	}
	if strings.HasPrefix(verdict, "panic") {
		pre = "panic"
	} else if strings.HasPrefix(verdict, "search error") {
		pre = "error"
	}
	switch q.Kind {
	case "regex":
		if re, err := parseRegex(q); err == nil && q.CaseSens && re.Flags&syntax.FoldCase == 0 && re.Op == syntax.OpConcat && len(re.Sub) == 3 &&
			re.Sub[0].Op == syntax.OpWordBoundary && re.Sub[1].Op == syntax.OpLiteral && re.Sub[2].Op == syntax.OpWordBoundary {
			w := string(re.Sub[1].Rune)
			if len(w) > 0 && (!isWordByte(w[0]) || !isWordByte(w[len(w)-1])) {
				return pre + ":word-fastpath:nonword-edge"
			}
			return pre + ":word-fastpath:overlap"
		}
		return pre + ":regex"
	case "sym":
		return pre + ":sym:" + q.Ch[0].Kind
	}
	return pre + ":" + q.Kind
}

// hasFoldOnlyUpper: s holds a rune that is an upper-case member of a fold orbit without being the ToUpper of its own
// lower-casing (U+212A KELVIN SIGN -> k -> K, U+1E9E CAPITAL SHARP S -> U+00DF -> U+00DF, U+2126 OHM SIGN, U+212B
// ANGSTROM SIGN): the runes a ToUpper/ToLower-based fold comparison cannot reach.
func hasFoldOnlyUpper(s string) bool {
	for _, c := range s {
		if l := unicode.ToLower(c); l != c && unicode.ToUpper(l) != c {
			return true
		}
	}
	return false
}

// engineKelvin: the failure is the regexp engine's: for a case-insensitive atom that goes through the engine, the
// grafana/regexp fork zoekt uses does not match a document text that the standard library's engine matches, and
// a rune of the hasFoldOnlyUpper class (e.g. U+212A KELVIN SIGN, whose simple-fold orbit is k, K, U+212A) is involved.
func engineKelvin(c *Corpus, q *QSpec, missing []string) bool {
	sym := false
	if q.Kind == "sym" { // the same engine runs on the text of each symbol range
		q = &q.Ch[0]
		sym = true
	}
	var src string
	switch q.Kind {
	case "substr":
		src = regexp.QuoteMeta(q.Pat)
	case "regex":
		st, err := parseRegex(q)
		if err != nil {
			return false
		}
		src = st.String()
	default:
		return false
	}
	if !q.CaseSens {
		src = "(?i)" + src
	}
	g, err1 := gregexp.Compile(src)
	st, err2 := regexp.Compile(src)
	if err1 != nil || err2 != nil || len(missing) == 0 {
		return false
	}
	for _, k := range missing {
		p := strings.SplitN(k, "\x00", 3)
		texts := p[1:]
		if sym {
			texts = nil
			for i := range c.Repos {
				for j := range c.Repos[i].Docs {
					d := &c.Repos[i].Docs[j]
					if c.Repos[i].Name == p[0] && d.Name == p[1] && d.IndexedContent() == p[2] {
						for _, sec := range d.Syms {
							texts = append(texts, d.Content[sec.Start:sec.End])
						}
					}
				}
			}
		}
		hit := false
		for _, text := range texts {
			if st.MatchString(text) && !g.MatchString(text) && (hasFoldOnlyUpper(text) || hasFoldOnlyUpper(q.Pat)) {
				hit = true
			}
		}
		if !hit {
			return false
		}
	}
	return true
}

type runner struct {
	w    *gen.Writer
	tmp  string
	nDir int
}

// runCorpus builds the shards of c and runs the queries produced by next (until it returns false).
func (rn *runner) runCorpus(c *Corpus, mode string, next func() (QSpec, bool)) error {
	rn.nDir++
	dir := filepath.Join(rn.tmp, fmt.Sprintf("c%d", rn.nDir))
	if err := os.MkdirAll(dir, 0o755); err != nil {
		return err
	}
	defer os.RemoveAll(dir)
	shards, err := buildShards(dir, c, mode)
	if err != nil {
		return fmt.Errorf("building shards: %w", err)
	}
	var hs []*shardH
	for _, sh := range shards {
		s, err := openSearcher(sh.Path)
		if err != nil {
			return fmt.Errorf("open %s: %w", sh.Path, err)
		}
		hs = append(hs, &shardH{Shard: sh, s: s})
	}
	defer func() {
		for _, h := range hs {
			h.s.Close()
		}
	}()
	o := newOracle(c)
	alphaOK, nrunes := modelAlphabetOK(c)
	nq := 0
	for {
		q, ok := next()
		if !ok {
			break
		}
		for _, sh := range hs {
			name := sh.Kind
			if sh.Kind == "simple" {
				name = fmt.Sprintf("simple:%d", sh.Repos[0])
			}
			verdict, missing, extra, nres := check(o, sh, &q)
			total := 0
			for _, ri := range sh.Repos {
				total += len(c.Repos[ri].Docs)
			}
			cs := gen.Case{Class: "e2e-" + sh.Kind + "-" + resultClass(nres, total), Nontrivial: nres > 0 && nres < total}
			if verdict == "" {
				cs.Go = "ok"
				// identify the case for the distinct-nontrivial count without storing the corpus for every passing case
				cs.Detail = gen.Detail(map[string]any{"q": q.String(), "shard": name, "corpus": rn.nDir, "n": nres})
			} else if strings.HasPrefix(verdict, "oracle-error") {
				cs.Go = "ok"
				cs.Class = "e2e-oracle-error"
				rn.w.Count("oracle-error:"+verdict, 1)
			} else {
				mq := q
				v2, m2, e2 := verdict, missing, extra
				if !hung {
					mq = shrink(o, sh, q)
					v2, m2, e2, _ = check(o, sh, &mq)
				}
				if v2 == "" { // cannot happen (shrink only keeps failing trees); keep the original
					mq, v2, m2, e2 = q, verdict, missing, extra
				}
				cs.Go = v2 + " query=" + mq.String()
				cs.Key = classify(c, &mq, v2, m2, e2)
				cs.Detail = gen.Detail(e2eDetail{Corpus: c, Query: q, MinQuery: &mq, Shard: name, Mode: mode, Missing: short(m2), Extra: short(e2), Err: v2})
			}
			rn.w.Emit(cs)
			if hung {
				rn.w.Close()
				os.Exit(0) // the failing case is on record; a search that does not terminate cannot be waited for
			}
			// correspondence with the Lean engine model on the same (shard, query)
			if alphaOK && (nrunes < 1500 || nq%6 == 0) {
				traceCase(rn.w, sh, &q, e2eDetail{Corpus: c, Query: q, Shard: name, Mode: mode})
			}
		}
		nq++
	}
	return nil
}

func resultClass(n, total int) string {
	switch {
	case n == 0:
		return "none"
	case n == total:
		return "all"
	default:
		return "some"
	}
}

type corpusFile struct {
	Corpus  *Corpus
	Queries []QSpec
}

func main() {
	f := gen.ParseFlags()
	if pp := os.Getenv("C01_CPUPROFILE"); pp != "" {
		pf, _ := os.Create(pp)
		pprof.StartCPUProfile(pf)
		defer pprof.StopCPUProfile()
	}
	log.SetOutput(io.Discard) // the real merge logs one line per shard
	debug.SetGCPercent(400)
	checkAlphabet()
	w := gen.NewWriter(f.Out)
	defer w.Close()
	tmp, err := os.MkdirTemp(os.Getenv("VERIF_WORK"), "c01-")
	if err != nil {
		panic(err)
	}
	defer os.RemoveAll(tmp)
	rn := &runner{w: w, tmp: tmp}

	if f.Replay != "" {
		var rp struct {
			Case struct {
				Detail json.RawMessage `json:"detail"`
			} `json:"case"`
			First struct {
				Detail json.RawMessage `json:"detail"`
				In     string          `json:"in"`
			} `json:"first_disagreement"`
		}
		b, err := os.ReadFile(f.Replay)
		if err != nil {
			panic(err)
		}
		if err := json.Unmarshal(b, &rp); err != nil {
			panic(err)
		}
		var d e2eDetail
		if len(rp.Case.Detail) > 0 && json.Unmarshal(rp.Case.Detail, &d) == nil && d.Corpus != nil {
			qs := []QSpec{d.Query}
			if d.MinQuery != nil {
				qs = append(qs, *d.MinQuery)
			}
			i := 0
			if err := rn.runCorpus(d.Corpus, d.Mode, func() (QSpec, bool) { i++; return qs[min(i, len(qs))-1], i <= len(qs) }); err != nil {
				panic(err)
			}
			return
		}
		// a model/implementation disagreement is reproduced by the seeded run itself
		fmt.Fprintln(os.Stderr, "replay file has no stored corpus; running the normal seeded search")
	}

	// corpus of witnesses / past failures first
	if f.Corpus != "" {
		files, _ := filepath.Glob(filepath.Join(f.Corpus, "*.json"))
		sort.Strings(files)
		for _, p := range files {
			b, err := os.ReadFile(p)
			if err != nil {
				panic(err)
			}
			var cf corpusFile
			if err := json.Unmarshal(b, &cf); err != nil {
				panic(fmt.Errorf("%s: %w", p, err))
			}
			i := 0
			if err := rn.runCorpus(cf.Corpus, "merge", func() (QSpec, bool) { i++; return cf.Queries[min(i, len(cf.Queries))-1], i <= len(cf.Queries) }); err != nil {
				panic(fmt.Errorf("%s: %w", p, err))
			}
			w.Count("corpus-files", 1)
		}
	}

	r := gen.NewRand(f.Seed)

	// C: component correspondences against the Lean model
	runComponents(w, r.Fork(), f)

	// F: end to end
	nCorpora := f.N(70, 500)
	nQueries := f.N(24, 50)
	for i := 0; i < nCorpora; i++ {
		cr := r.Fork()
		c := genCorpus(cr, i%5 == 4)
		g := newQGen(cr, c)
		k := 0
		mode := "direct"
		if i%10 == 9 {
			mode = "merge" // the real index.Merge (slow: it pre-sizes its builder for 100 MB)
		}
		err := rn.runCorpus(c, mode, func() (QSpec, bool) {
			k++
			if k > nQueries {
				return QSpec{}, false
			}
			q := g.tree(cr.Range(0, 3))
			countKinds(w, &q)
			return q, true
		})
		if err != nil {
			panic(err)
		}
	}
}

func countKinds(w *gen.Writer, q *QSpec) {
	w.Count("qkind:"+q.Kind, 1)
	if (q.Kind == "substr" || q.Kind == "regex") && !q.CaseSens && hasCasedNonLetterTrigram(q.Pat) {
		w.Count("q-case-insensitive-with-cased-non-letter-trigram", 1)
	}
	for i := range q.Ch {
		countKinds(w, &q.Ch[i])
	}
}

// checkAlphabet: every rune the generators can produce satisfies the quantifier's restriction (agreeRune).
func checkAlphabet() {
	var all []string
	all = append(all, words...)
	all = append(all, puncts...)
	all = append(all, wordish...)
	all = append(all, fileBases...)
	all = append(all, fileDirs...)
	all = append(all, exoticCased...)
	all = append(all, string(casedNonLetters))
	for _, s := range all {
		if !agreeString(s) {
			panic(fmt.Sprintf("generator alphabet contains a rune outside the C01 quantifier: %q", s))
		}
	}
}
