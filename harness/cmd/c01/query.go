// C01 harness: serialisable query trees (QSpec), their translation to real query.Q values, and the generator.
package main

import (
	"fmt"
	"regexp/syntax"
	"strings"
	"unicode"
	"unicode/utf8"

	"github.com/RoaringBitmap/roaring/v2"
	gregexp "github.com/grafana/regexp"
	"github.com/sourcegraph/zoekt/query"

	"verifharness/gen"
)

// zoekt's own parse flags (query/parse.go regexpFlags); unexported there, so repeated here.
const zoektRegexpFlags = syntax.ClassNL | syntax.PerlX | syntax.UnicodeGroups

type BR struct {
	Branch string
	IDs    []uint32
}

type QSpec struct {
	Kind string  // and or not substr regex sym branch branchesrepos reposet repoids repo reporegexp rawconfig lang meta filenameset const type boost
	Ch   []QSpec `json:",omitempty"`

	Pat      string   `json:",omitempty"` // substr pattern / regexp source / branch pattern / language / meta value regexp / repo regexp
	CaseSens bool     `json:",omitempty"`
	FileName bool     `json:",omitempty"`
	Content  bool     `json:",omitempty"`
	Raw      bool     `json:",omitempty"` // regex: syntax.Parse only (as QFromProto does) instead of query.RegexpQuery (parse+optimize)
	Exact    bool     `json:",omitempty"`
	Names    []string `json:",omitempty"`
	IDs      []uint32 `json:",omitempty"`
	BRs      []BR     `json:",omitempty"`
	Flags    uint64   `json:",omitempty"`
	Field    string   `json:",omitempty"`
	Value    bool     `json:",omitempty"`
}

func (q QSpec) String() string {
	switch q.Kind {
	case "and", "or":
		var xs []string
		for _, c := range q.Ch {
			xs = append(xs, c.String())
		}
		return "(" + q.Kind + " " + strings.Join(xs, " ") + ")"
	case "not", "type", "boost", "sym":
		return "(" + q.Kind + " " + q.Ch[0].String() + ")"
	case "substr", "regex":
		f := ""
		if q.CaseSens {
			f += "c"
		}
		if q.FileName {
			f += "f"
		}
		if q.Content {
			f += "t"
		}
		if q.Raw {
			f += "r"
		}
		return fmt.Sprintf("%s[%s]:%q", q.Kind, f, q.Pat)
	}
	return fmt.Sprintf("%s:%q%v%v%v%v%v", q.Kind, q.Pat, q.Names, q.IDs, q.BRs, q.Flags, q.Field)
}

// parseRegex returns the syntax tree the query atom carries.
func parseRegex(q *QSpec) (*syntax.Regexp, error) {
	re, err := syntax.Parse(q.Pat, zoektRegexpFlags)
	if err != nil {
		return nil, err
	}
	if !q.Raw {
		re = query.OptimizeRegexp(re, zoektRegexpFlags)
	}
	return re, nil
}

// build translates to the real query type. Regex atoms that the real front ends would turn into Substring
// (query.RegexpQuery: a pure literal) are turned into Substring here as well unless Raw.
func (q *QSpec) build() (query.Q, error) {
	switch q.Kind {
	case "and", "or":
		var ch []query.Q
		for i := range q.Ch {
			c, err := q.Ch[i].build()
			if err != nil {
				return nil, err
			}
			ch = append(ch, c)
		}
		if q.Kind == "and" {
			return &query.And{Children: ch}, nil
		}
		return &query.Or{Children: ch}, nil
	case "not":
		c, err := q.Ch[0].build()
		if err != nil {
			return nil, err
		}
		return &query.Not{Child: c}, nil
	case "type":
		c, err := q.Ch[0].build()
		if err != nil {
			return nil, err
		}
		return &query.Type{Type: query.TypeFileName, Child: c}, nil
	case "boost":
		c, err := q.Ch[0].build()
		if err != nil {
			return nil, err
		}
		return &query.Boost{Boost: 2.5, Child: c}, nil
	case "sym":
		c, err := q.Ch[0].build()
		if err != nil {
			return nil, err
		}
		return &query.Symbol{Expr: c}, nil
	case "substr":
		return &query.Substring{Pattern: q.Pat, CaseSensitive: q.CaseSens, FileName: q.FileName, Content: q.Content}, nil
	case "regex":
		re, err := parseRegex(q)
		if err != nil {
			return nil, err
		}
		if !q.Raw && re.Op == syntax.OpLiteral {
			return &query.Substring{Pattern: string(re.Rune), CaseSensitive: q.CaseSens, FileName: q.FileName, Content: q.Content}, nil
		}
		return &query.Regexp{Regexp: re, CaseSensitive: q.CaseSens, FileName: q.FileName, Content: q.Content}, nil
	case "branch":
		return &query.Branch{Pattern: q.Pat, Exact: q.Exact}, nil
	case "branchesrepos":
		var l []query.BranchRepos
		for _, br := range q.BRs {
			l = append(l, query.BranchRepos{Branch: br.Branch, Repos: roaring.BitmapOf(br.IDs...)})
		}
		return &query.BranchesRepos{List: l}, nil
	case "reposet":
		return query.NewRepoSet(q.Names...), nil
	case "repoids":
		return query.NewRepoIDs(q.IDs...), nil
	case "repo":
		re, err := gregexp.Compile(q.Pat)
		if err != nil {
			return nil, err
		}
		return &query.Repo{Regexp: re}, nil
	case "reporegexp":
		re, err := gregexp.Compile(q.Pat)
		if err != nil {
			return nil, err
		}
		return &query.RepoRegexp{Regexp: re}, nil
	case "rawconfig":
		return query.RawConfig(q.Flags), nil
	case "lang":
		return &query.Language{Language: q.Pat}, nil
	case "meta":
		re, err := gregexp.Compile(q.Pat)
		if err != nil {
			return nil, err
		}
		return &query.Meta{Field: q.Field, Value: re}, nil
	case "filenameset":
		return query.NewFileNameSet(q.Names...), nil
	case "const":
		return &query.Const{Value: q.Value}, nil
	}
	return nil, fmt.Errorf("unknown kind %q", q.Kind)
}

// ---------------------------------------------------------------- generator

type qgen struct {
	r    *gen.Rand
	c    *Corpus
	docs []*DocSpec
	cnl  []string // stretches (>= 3 runes) of content / names of the corpus that hold a cased-non-letter trigram
}

func newQGen(r *gen.Rand, c *Corpus) *qgen {
	g := &qgen{r: r, c: c}
	for i := range c.Repos {
		for j := range c.Repos[i].Docs {
			g.docs = append(g.docs, &c.Repos[i].Docs[j])
		}
	}
	for _, d := range g.docs {
		for _, text := range []string{d.IndexedContent(), d.Name} {
			rs := []rune(text)
			for i := 0; i+3 <= len(rs); i++ {
				if hasCasedNonLetterTrigram(string(rs[i : i+3])) {
					a, b := max(0, i-r.Intn(3)), min(len(rs), i+3+r.Intn(4))
					g.cnl = append(g.cnl, string(rs[a:b]))
				}
			}
		}
	}
	return g
}

// runeSub picks a substring of s of between lo and hi runes (cut on rune boundaries); "" if s is empty.
func runeSub(r *gen.Rand, s string, lo, hi int) string {
	rs := []rune(s)
	if len(rs) == 0 {
		return ""
	}
	n := r.Range(lo, hi)
	if n > len(rs) {
		n = len(rs)
	}
	a := r.Intn(len(rs) - n + 1)
	return string(rs[a : a+n])
}

func flipCase(r *gen.Rand, s string) string {
	rs := []rune(s)
	for i, c := range rs {
		if r.Chance(1, 3) {
			rs[i] = otherCase(c)
		}
	}
	return string(rs)
}

// otherCase: the other member of a two-element case pair inside the C01 quantifier (whatever its Unicode category:
// letters, but also cased non-letters such as Roman numerals and circled letters); c itself otherwise.
func otherCase(c rune) rune {
	if l := unicode.ToLower(c); l != c && agreeRune(l) {
		return l
	}
	if u := unicode.ToUpper(c); u != c && unicode.ToLower(u) == c && agreeRune(u) {
		return u
	}
	return c
}

// casedNonLetters: every rune with a case variant that is not a letter and lies inside the C01 quantifier
// (computed from the Unicode tables: ROMAN NUMERALs U+2160-217F, CIRCLED LATIN LETTERs U+24B6-24E9).
var casedNonLetters = func() []rune {
	var out []rune
	for c := rune(0); c <= 0x1FFFF; c++ {
		if unicode.SimpleFold(c) != c && !unicode.IsLetter(c) && agreeRune(c) {
			out = append(out, c)
		}
	}
	return out
}()

// casedNonLetterToken: 2-5 runes, cased non-letters mixed with digits and punctuation, so that some trigrams contain no
// letter at all but do contain a cased rune ("Ⅷ.Ⅸ", "ⓐⓑⓒ", "3.Ⅲ").
func casedNonLetterToken(r *gen.Rand) string {
	var rs []rune
	n := r.Range(2, 5)
	for i := 0; i < n; i++ {
		switch r.Intn(5) {
		case 0:
			rs = append(rs, gen.Pick(r, []rune(".-:3 ")))
		default:
			rs = append(rs, gen.Pick(r, casedNonLetters))
		}
	}
	return string(rs)
}

// hasCasedNonLetterTrigram: some trigram of s has no letter but a cased rune — the class of trigrams whose case
// variants cannot be found by looking at letters only.
func hasCasedNonLetterTrigram(s string) bool {
	rs := []rune(s)
	for i := 0; i+3 <= len(rs); i++ {
		letter, cased := false, false
		for _, c := range rs[i : i+3] {
			if unicode.IsLetter(c) {
				letter = true
			}
			if unicode.SimpleFold(c) != c {
				cased = true
			}
		}
		if !letter && cased {
			return true
		}
	}
	return false
}

// literal: a piece of text that mostly occurs in the corpus (content or name), sometimes a word that may not.
func (g *qgen) literal(lo, hi int, fromName bool) string {
	r := g.r
	if len(g.docs) > 0 && r.Chance(5, 6) {
		d := gen.Pick(r, g.docs)
		src := d.IndexedContent()
		if fromName {
			src = d.Name
		}
		if s := runeSub(r, src, lo, hi); s != "" {
			return s
		}
	}
	s := gen.Pick(r, words)
	if r.Chance(1, 3) {
		s += gen.Pick(r, puncts) + gen.Pick(r, words)
	}
	return s
}

var wordish = []string{"foo", "bar", "Foo", "baz", "ab", "main", "a_b", "FOO", "-foo", "foo-", "foo-foo", "foo-bar", "x", "aa", "a-a", "ok", "日本", "é", "index", "bar-", "=foo", "foo="}

func (g *qgen) regexSource() string {
	r := g.r
	esc := syntaxQuote
	lit := func(lo, hi int) string { return esc(g.literal(lo, hi, false)) }
	switch r.Intn(16) {
	case 0, 1: // \bLIT\b — the word fast path
		w := gen.Pick(r, wordish)
		if r.Chance(1, 3) {
			w = g.literal(1, 6, false)
		}
		return `\b` + esc(w) + `\b`
	case 2:
		return lit(3, 6) + ".*" + lit(3, 6)
	case 3:
		return lit(3, 5) + `\s*` + lit(1, 4)
	case 4:
		return "(" + lit(3, 6) + "|" + lit(3, 6) + ")"
	case 5:
		return lit(3, 6) + "|" + lit(1, 2)
	case 6:
		return "^" + lit(1, 5)
	case 7:
		return lit(1, 5) + "$"
	case 8:
		return "[a-f]" + lit(2, 5)
	case 9:
		return "(?i)" + lit(3, 6)
	case 10:
		return "(" + lit(3, 4) + "){2,}"
	case 11:
		return lit(3, 5) + "+"
	case 12:
		return lit(3, 4) + `(?s:.*)` + lit(3, 4) // may span lines
	case 13:
		if r.Bool() {
			// a literal that ends with a newline, then a literal further on: cut from a document so that it matches
			for try := 0; try < 8 && len(g.docs) > 0; try++ {
				rs := []rune(gen.Pick(r, g.docs).IndexedContent())
				for p := 3; p+4 <= len(rs); p++ {
					if rs[p] == '\n' && rs[p-1] != '\n' && rs[p-2] != '\n' && rs[p-3] != '\n' {
						e := p + 1
						for e < len(rs) && rs[e] != '\n' {
							e++
						}
						if e-(p+1) >= 3 { // the next line holds a 3-rune literal: `abc\n.*def` (same line AFTER the newline)
							q := p + 1 + r.Intn(e-(p+1)-2)
							return esc(string(rs[p-3:p])) + `\n.*` + esc(string(rs[q:q+3]))
						}
					}
				}
			}
			return lit(3, 4) + `\n.*` + lit(3, 4)
		}
		return lit(3, 4) + `\n` + lit(0, 3)
	case 14:
		return "(" + lit(3, 5) + ")(" + lit(3, 5) + ")?"
	default:
		return lit(3, 5) + "[^x]*" + lit(3, 5) + "(" + lit(3, 4) + "|" + lit(3, 4) + ")"
	}
}

func syntaxQuote(s string) string {
	var sb strings.Builder
	for _, c := range s {
		if strings.ContainsRune(`\.+*?()|[]{}^$`, c) {
			sb.WriteByte('\\')
		}
		if c == '\n' {
			sb.WriteString(`\n`)
			continue
		}
		if c == '\t' {
			sb.WriteString(`\t`)
			continue
		}
		sb.WriteRune(c)
	}
	return sb.String()
}

func (g *qgen) textAtom() QSpec {
	r := g.r
	q := QSpec{}
	switch r.Intn(3) {
	case 0:
		q.FileName = true
	case 1:
		q.Content = true
	}
	q.CaseSens = r.Bool()
	if r.Chance(3, 5) {
		q.Kind = "substr"
		lo, hi := 3, 8
		if r.Chance(1, 4) {
			lo, hi = 1, 2 // < 3 runes: newSubstringMatchTree falls back to a literal regexp
		}
		if r.Chance(1, 6) {
			hi = 20
		}
		q.Pat = g.literal(lo, hi, q.FileName)
		if len(g.cnl) > 0 && r.Chance(1, 5) {
			// a stretch of text around a cased non-letter token of the corpus, case-insensitively, in some other casing
			q.CaseSens = false
			q.Pat = gen.Pick(r, g.cnl)
			if r.Chance(1, 2) {
				q.Pat = string([]rune(q.Pat)[:min(len([]rune(q.Pat)), r.Range(3, 5))])
			}
			rs := []rune(q.Pat)
			for i := range rs {
				if r.Chance(2, 3) {
					rs[i] = otherCase(rs[i])
				}
			}
			q.Pat = string(rs)
		}
		if !q.CaseSens && r.Chance(1, 2) {
			q.Pat = flipCase(r, q.Pat)
		}
		if r.Chance(1, 40) {
			q.Pat = ""
		}
		return q
	}
	q.Kind = "regex"
	q.Raw = r.Chance(1, 4)
	for try := 0; try < 10; try++ {
		q.Pat = g.regexSource()
		if _, err := parseRegex(&q); err == nil {
			return q
		}
	}
	q.Pat = "foo"
	return q
}

func (g *qgen) filterAtom() QSpec {
	r := g.r
	rp := &g.c.Repos[r.Intn(len(g.c.Repos))]
	switch r.Intn(13) {
	case 0:
		pat := gen.Pick(r, append([]string{"HEAD", "ma", "main", "dev", "e", "nosuch"}, rp.Branches...))
		return QSpec{Kind: "branch", Pat: pat, Exact: r.Bool()}
	case 1:
		var brs []BR
		for i := 0; i < r.Range(1, 2); i++ {
			rq := &g.c.Repos[r.Intn(len(g.c.Repos))]
			ids := []uint32{rq.ID}
			if r.Chance(1, 3) {
				ids = append(ids, 9999)
			}
			if r.Chance(1, 3) {
				ids = append(ids, g.c.Repos[r.Intn(len(g.c.Repos))].ID)
			}
			brs = append(brs, BR{Branch: gen.Pick(r, append([]string{"main", "HEAD", "nosuch"}, rq.Branches...)), IDs: ids})
		}
		return QSpec{Kind: "branchesrepos", BRs: brs}
	case 2:
		names := []string{rp.Name}
		if r.Bool() {
			names = append(names, gen.Pick(r, repoNames))
		}
		if r.Chance(1, 5) {
			names = []string{"nosuch"}
		}
		return QSpec{Kind: "reposet", Names: names}
	case 3:
		ids := []uint32{rp.ID}
		if r.Bool() {
			ids = append(ids, uint32(r.Intn(400)))
		}
		return QSpec{Kind: "repoids", IDs: ids}
	case 4, 5:
		k := "repo"
		if r.Bool() {
			k = "reporegexp"
		}
		pat := syntaxQuote(runeSub(r, rp.Name, 1, 6))
		if r.Chance(1, 4) {
			pat = "^" + pat
		}
		if r.Chance(1, 4) {
			pat = "(?i)" + strings.ToUpper(pat[:1]) + pat[1:]
			if _, err := gregexp.Compile(pat); err != nil {
				pat = "foo"
			}
		}
		return QSpec{Kind: k, Pat: pat}
	case 6:
		flags := uint64(0)
		for _, f := range []uint64{1, 2, 4, 8, 16, 32} {
			if r.Chance(1, 4) {
				flags |= f
			}
		}
		if flags == 0 {
			flags = 1 << uint(r.Intn(6))
		}
		return QSpec{Kind: "rawconfig", Flags: flags}
	case 7:
		return QSpec{Kind: "lang", Pat: gen.Pick(r, append([]string{"Rust", "go"}, langs...))}
	case 8:
		return QSpec{Kind: "meta", Field: gen.Pick(r, []string{"team", "tier", "none"}), Pat: gen.Pick(r, []string{"search", "^1", "1", "(?i)search", "infra|2", ".*", "^$"})}
	case 9:
		var names []string
		for i := 0; i < r.Range(1, 3); i++ {
			if len(g.docs) > 0 && r.Chance(4, 5) {
				names = append(names, gen.Pick(r, g.docs).Name)
			} else {
				names = append(names, "nosuch.go")
			}
		}
		return QSpec{Kind: "filenameset", Names: names}
	case 10:
		return QSpec{Kind: "const", Value: r.Bool()}
	default: // symbol
		sub := QSpec{Kind: "substr", CaseSens: r.Bool()}
		sub.Pat = g.literal(1, 6, false)
		if r.Chance(1, 2) {
			// the text of a symbol section (or part of it)
			var cands []string
			for _, d := range g.docs {
				for _, s := range d.Syms {
					cands = append(cands, d.Content[s.Start:s.End])
				}
			}
			if len(cands) > 0 {
				sub.Pat = runeSub(r, gen.Pick(r, cands), 1, 8)
			}
		}
		if !sub.CaseSens && r.Bool() {
			sub.Pat = flipCase(r, sub.Pat)
		}
		if r.Chance(1, 3) {
			sub.Kind = "regex"
			switch r.Intn(5) {
			case 0:
				sub.Pat = "^" + syntaxQuote(sub.Pat)
			case 1:
				sub.Pat = syntaxQuote(sub.Pat) + "$"
			case 2:
				sub.Pat = syntaxQuote(sub.Pat) + "|" + syntaxQuote(g.literal(3, 5, false))
			case 3:
				sub.Pat = ".*"
			default:
				sub.Pat = syntaxQuote(sub.Pat) + "[a-z]*"
			}
			if _, err := parseRegex(&sub); err != nil {
				sub.Pat = "foo.*"
			}
		}
		if sub.Pat == "" {
			sub.Pat = "foo"
		}
		return QSpec{Kind: "sym", Ch: []QSpec{sub}}
	}
}

func (g *qgen) tree(depth int) QSpec {
	r := g.r
	if depth <= 0 || r.Chance(2, 5) {
		if r.Chance(2, 3) {
			return g.textAtom()
		}
		return g.filterAtom()
	}
	switch r.Intn(10) {
	case 0, 1, 2:
		n := r.Range(1, 3)
		if r.Chance(1, 20) {
			n = 0
		}
		q := QSpec{Kind: "and"}
		for i := 0; i < n; i++ {
			q.Ch = append(q.Ch, g.tree(depth-1))
		}
		return q
	case 3, 4, 5:
		n := r.Range(1, 3)
		if r.Chance(1, 20) {
			n = 0
		}
		q := QSpec{Kind: "or"}
		for i := 0; i < n; i++ {
			q.Ch = append(q.Ch, g.tree(depth-1))
		}
		return q
	case 6, 7:
		return QSpec{Kind: "not", Ch: []QSpec{g.tree(depth - 1)}}
	case 8:
		return QSpec{Kind: "type", Ch: []QSpec{g.tree(depth - 1)}}
	default:
		return QSpec{Kind: "boost", Ch: []QSpec{g.tree(depth - 1)}}
	}
}

// agreeRune: lower-casing and simple case folding agree on c (the C01 quantifier's restriction; the rest is C08):
// ToLower(c) lies in c's SimpleFold orbit and equals the lower-casing of the orbit's smallest member. On text made of
// such runes, "same orbit" and "equal after ToLower" coincide. (Excluded e.g.: U+017F ſ, U+03C2 ς, U+0130 İ, U+0131 ı.)
func agreeRune(c rune) bool {
	l := unicode.ToLower(c)
	minr := c
	in := l == c
	for d := unicode.SimpleFold(c); d != c; d = unicode.SimpleFold(d) {
		if d < minr {
			minr = d
		}
		if d == l {
			in = true
		}
	}
	return in && unicode.ToLower(minr) == l
}

func agreeString(s string) bool {
	if !utf8.ValidString(s) {
		return false
	}
	for _, c := range s {
		if !agreeRune(c) {
			return false
		}
	}
	return true
}
