// C15 harness: the real directory indexer (cmd/zoekt-index: indexArg / fileAggregator.add / newIgnoreMatcher, driven
// through the env-guarded line-protocol driver of the verif-tagged binary) and the real archive indexer
// (internal/archive through verifhooks) on generated trees and archives, against the Lean model, the Lean
// statement (checkDir / checkArchive) and Go oracles that share no code with the implementation.
package main

import (
	"archive/tar"
	"archive/zip"
	"bufio"
	"bytes"
	"compress/gzip"
	"encoding/json"
	"fmt"
	"hash/crc32"
	"io"
	"log"
	"os"
	"os/exec"
	"path/filepath"
	"regexp"
	"sort"
	"strings"
	"syscall"
	"time"

	"github.com/sourcegraph/zoekt/ignore"
	"github.com/sourcegraph/zoekt/index"
	"github.com/sourcegraph/zoekt/verifhooks"

	"verifharness/d1util"
	"verifharness/gen"
)

// ---------------------------------------------------------------- trees

type node struct {
	Kind string  `json:"k"` // f, l, o, d
	Name string  `json:"n"`
	Data []byte  `json:"d,omitempty"` // content / link target
	Kids []*node `json:"c,omitempty"`
}

type dirCase struct {
	Op         string   `json:"op"` // walk | dir
	Root       *node    `json:"root"`
	RootKind   string   `json:"root_kind"` // dir | symlink | file
	IgnoreDirs []string `json:"ignore_dirs"`
	SizeMax    int      `json:"size_max"`
	LargeFiles []string `json:"large_files,omitempty"`
}

var namePool = []string{"a", "b", "src", "lib", "main.go", "x.txt", "README.md", "vendor", "node_modules", ".git", ".hg",
	".svn", "build", "foo bar", "日本.txt", "é", "a-b", "a.b", "ab", "abc", "out", "tmp", "Makefile", "t.go", "z", "docs",
	"ignore", "lib2", "vendor2", "x.txt~", "-", "a,b", "nl\nname", "tab\tname", "sp ", " lead", "#hash", "*star", "q?", "[br]", "{c}",
	"back\\slash", strings.Repeat("L", 120) + ".txt"}

var textPool = []string{"package main\n\nfunc main() {}\n", "hello world\n", "needle in a haystack\n", "x := 1\ny := 2\n",
	"# Title\n\nSome text with ünïcödé.\n", "line1\r\nline2\r\n", "no trailing newline", "abc", "日本語のテキスト\n"}

func genContent(r *gen.Rand, sizeMax int) []byte {
	switch r.Intn(12) {
	case 0:
		return nil // empty file
	case 1:
		return []byte(gen.Pick(r, []string{"a", "ab", "\n", "é"})) // shorter than a trigram
	case 2:
		return []byte("bin\x00ary\x00") // binary
	case 3:
		if sizeMax <= 64 {
			return bytes.Repeat([]byte("large file line\n"), sizeMax/16+1) // above the size limit
		}
		return []byte("not so large\n")
	case 4:
		return gen.Text(r, 30, true)
	case 5:
		return []byte("\xff\xfe invalid utf8 \xc0\n")
	default:
		return []byte(gen.Pick(r, textPool))
	}
}

func genKids(r *gen.Rand, depth int, sizeMax int, allNames *[]string) []*node {
	n := r.Range(0, 5)
	if depth == 0 {
		n = r.Range(1, 6)
	}
	seen := map[string]bool{}
	var kids []*node
	for i := 0; i < n; i++ {
		nm := gen.Pick(r, namePool)
		if seen[nm] {
			continue
		}
		seen[nm] = true
		k := &node{Name: nm}
		switch x := r.Intn(20); {
		case x < 9:
			k.Kind = "f"
			k.Data = genContent(r, sizeMax)
		case x < 14 && depth < 3:
			k.Kind = "d"
			k.Kids = genKids(r, depth+1, sizeMax, allNames)
		case x < 19:
			k.Kind = "l"
			// targets: a sibling, a directory, outside the root, dangling, parent, long
			k.Data = []byte(gen.Pick(r, []string{"x.txt", "src", "../", "/etc/passwd", "nowhere", "a", ".", "../../outside",
				"main.go", "lib/../x.txt", strings.Repeat("long/", 30) + "t", "ab"}))
		default:
			k.Kind = "o"
		}
		*allNames = append(*allNames, nm)
		kids = append(kids, k)
	}
	sort.Slice(kids, func(i, j int) bool { return kids[i].Name < kids[j].Name })
	return kids
}

// paths of the tree (relative, slash separated) for pattern generation
func collectPaths(n *node, prefix string, out *[]string) {
	for _, k := range n.Kids {
		p := k.Name
		if prefix != "" {
			p = prefix + "/" + k.Name
		}
		*out = append(*out, p)
		if k.Kind == "d" {
			collectPaths(k, p, out)
		}
	}
}

func genIgnoreFile(r *gen.Rand, root *node) []byte {
	var paths []string
	collectPaths(root, "", &paths)
	if len(paths) == 0 {
		paths = []string{"a"}
	}
	var sb strings.Builder
	n := r.Range(0, 5)
	for i := 0; i < n; i++ {
		p := gen.Pick(r, paths)
		base := p[strings.LastIndex(p, "/")+1:]
		var line string
		switch r.Intn(16) {
		case 0:
			line = "# " + p
		case 1:
			line = ""
		case 2:
			line = "  " + p + " \t"
		case 3:
			line = "/" + p
		case 4:
			line = p + "/"
		case 5:
			line = "*" + filepath.Ext(base)
		case 6:
			line = "**/" + base
		case 7:
			if i := strings.Index(p, "/"); i >= 0 {
				line = p[:i] + "/*"
			} else {
				line = p + "/*"
			}
		case 8:
			if rb := []rune(base); len(rb) >= 2 {
				line = strings.Replace(p, base, string(rb[:len(rb)-1])+"?", 1)
			} else {
				line = "?"
			}
		case 9:
			line = gen.Pick(r, []string{"*", "**", "*/*", "**/*.go", "*.txt", "a*", "*b", "**/lib/**", "src/**/t.go", "***", "a**b", "?*"})
		case 10:
			line = string([]rune(p)[:len([]rune(p))/2]) // a prefix (implicit ** makes it a prefix match when it has no glob character)
		default:
			line = p
		}
		if strings.ContainsAny(line, "[]{}\\!") { // outside the modelled glob subset
			continue
		}
		sb.WriteString(line)
		if r.Chance(1, 8) {
			sb.WriteString("\r")
		}
		if i < n-1 || r.Chance(3, 4) {
			sb.WriteString("\n")
		}
	}
	return []byte(sb.String())
}

func genDirCase(r *gen.Rand, op string) dirCase {
	c := dirCase{Op: op, RootKind: "dir"}
	c.SizeMax = 1 << 20
	if r.Chance(1, 3) {
		c.SizeMax = r.Range(8, 40)
		if r.Chance(2, 3) { // large-file whitelist (doublestar patterns, last match wins, ! negates)
			c.LargeFiles = gen.Pick(r, [][]string{{"*.txt"}, {"**/*.go"}, {"**"}, {"**"}, {"**/*.txt", "!x.txt"}, {"**", "!**/*.md"}, {"src/**", "lib/*"}, {"*"}, {"*"},
				{"**/build", "README.md"}})
		}
	}
	switch r.Intn(6) {
	case 0:
		c.IgnoreDirs = nil
	case 1:
		c.IgnoreDirs = []string{".git", ".hg", ".svn", "node_modules", "build"}
	case 2:
		c.IgnoreDirs = []string{"src", "a"}
	default:
		c.IgnoreDirs = []string{".git", ".hg", ".svn"}
	}
	rootName := "root"
	switch r.Intn(30) {
	case 0:
		rootName = ".git" // the root itself carries an ignored name
	case 1:
		c.RootKind = "symlink"
	case 2:
		c.RootKind = "file"
	}
	var names []string
	root := &node{Kind: "d", Name: rootName}
	root.Kids = genKids(r, 0, c.SizeMax, &names)
	// .sourcegraph/ignore in its variants
	if r.Chance(3, 5) {
		var kids []*node
		for _, k := range root.Kids {
			if k.Name != ".sourcegraph" {
				kids = append(kids, k)
			}
		}
		sg := &node{Name: ".sourcegraph"}
		content := genIgnoreFile(r, root)
		switch x := r.Intn(20); {
		case x < 14:
			sg.Kind = "d"
			sg.Kids = []*node{{Kind: "f", Name: "ignore", Data: content}}
			if r.Chance(1, 4) {
				sg.Kids = append([]*node{{Kind: "f", Name: "extra.txt", Data: []byte("extra\n")}}, sg.Kids...)
			}
		case x < 16:
			sg.Kind = "d" // ignore is a symlink: must not be followed
			sg.Kids = []*node{{Kind: "l", Name: "ignore", Data: []byte("../ign-real")}}
			kids = append(kids, &node{Kind: "f", Name: "ign-real", Data: content})
		case x < 17:
			sg.Kind = "d" // ignore is a directory
			sg.Kids = []*node{{Kind: "d", Name: "ignore", Kids: []*node{{Kind: "f", Name: "x", Data: content}}}}
		case x < 19:
			sg.Kind = "l" // .sourcegraph is a symlink to a directory holding an ignore file: must not be resolved
			sg.Data = []byte("sg-real")
			kids = append(kids, &node{Kind: "d", Name: "sg-real", Kids: []*node{{Kind: "f", Name: "ignore", Data: content}}})
		default:
			sg.Kind = "f"
			sg.Data = content
		}
		kids = append(kids, sg)
		sort.Slice(kids, func(i, j int) bool { return kids[i].Name < kids[j].Name })
		root.Kids = kids
	}
	switch c.RootKind {
	case "symlink":
		c.Root = &node{Kind: "l", Name: "root", Data: []byte("real"), Kids: []*node{{Kind: "d", Name: "real", Kids: root.Kids}}}
	case "file":
		c.Root = &node{Kind: "f", Name: "root", Data: []byte("the root is a file\n")}
	default:
		c.Root = root
	}
	return c
}

// materialise writes the node below parent.
func materialise(parent string, n *node) error {
	p := filepath.Join(parent, n.Name)
	switch n.Kind {
	case "f":
		return os.WriteFile(p, n.Data, 0o644)
	case "l":
		return os.Symlink(string(n.Data), p)
	case "o":
		return syscall.Mkfifo(p, 0o644)
	case "d":
		if err := os.Mkdir(p, 0o755); err != nil {
			return err
		}
		for _, k := range n.Kids {
			if err := materialise(p, k); err != nil {
				return err
			}
		}
		return nil
	}
	return fmt.Errorf("bad kind %q", n.Kind)
}

func hexs(s string) string { return gen.Hex([]byte(s)) }

func encodeTree(n *node, sb *strings.Builder) {
	switch n.Kind {
	case "f":
		fmt.Fprintf(sb, "F%s:%s", hexs(n.Name), gen.Hex(n.Data))
	case "l":
		fmt.Fprintf(sb, "L%s:%s", hexs(n.Name), gen.Hex(n.Data))
	case "o":
		fmt.Fprintf(sb, "O%s", hexs(n.Name))
	case "d":
		fmt.Fprintf(sb, "D%s", hexs(n.Name))
		for _, k := range n.Kids {
			sb.WriteByte(';')
			encodeTree(k, sb)
		}
		sb.WriteString(";E")
	}
}

func hexList(xs []string) string {
	if len(xs) == 0 {
		return "-"
	}
	var o []string
	for _, x := range xs {
		o = append(o, hexs(x))
	}
	return strings.Join(o, ",")
}

// ---------------------------------------------------------------- the zoekt-index driver subprocess

type driver struct {
	bin string
	cmd *exec.Cmd
	in  io.WriteCloser
	out *bufio.Reader
}

type driverResp struct {
	Err   string `json:"err"`
	Panic string `json:"panic"`
	Root  string `json:"root"`
	Files []struct {
		Name    string `json:"name"`
		Size    int64  `json:"size"`
		Symlink bool   `json:"symlink"`
	} `json:"files"`
	dead bool
}

func buildZoektIndex(workDir string) (string, error) {
	root := os.Getenv("VERIF_ROOT")
	if root == "" {
		return "", fmt.Errorf("VERIF_ROOT not set")
	}
	bin := filepath.Join(workDir, "zoekt-index.verif")
	cmd := exec.Command("go", "build", "-tags", "verif", "-o", bin, "github.com/sourcegraph/zoekt/cmd/zoekt-index")
	cmd.Dir = filepath.Join(root, "harness")
	out, err := cmd.CombinedOutput()
	if err != nil {
		return "", fmt.Errorf("go build zoekt-index: %v: %s", err, out)
	}
	return bin, nil
}

func (d *driver) start() error {
	d.cmd = exec.Command(d.bin)
	d.cmd.Env = append(os.Environ(), "ZOEKT_VERIF_DRIVER=c15")
	var err error
	if d.in, err = d.cmd.StdinPipe(); err != nil {
		return err
	}
	o, err := d.cmd.StdoutPipe()
	if err != nil {
		return err
	}
	d.out = bufio.NewReaderSize(o, 1<<20)
	return d.cmd.Start()
}

func (d *driver) stop() {
	if d.cmd != nil {
		d.in.Close()
		done := make(chan struct{})
		go func() { d.cmd.Wait(); close(done) }()
		select {
		case <-done:
		case <-time.After(5 * time.Second):
			d.cmd.Process.Kill()
		}
		d.cmd = nil
	}
}

func (d *driver) call(req map[string]any) driverResp {
	if d.cmd == nil {
		if err := d.start(); err != nil {
			panic(err)
		}
	}
	b, _ := json.Marshal(req)
	d.in.Write(append(b, '\n'))
	type res struct {
		line []byte
		err  error
	}
	ch := make(chan res, 1)
	go func() {
		l, err := d.out.ReadBytes('\n')
		ch <- res{l, err}
	}()
	var resp driverResp
	select {
	case r := <-ch:
		if r.err != nil || json.Unmarshal(r.line, &resp) != nil {
			d.cmd.Process.Kill()
			d.cmd.Wait()
			d.cmd = nil
			resp.dead = true
		}
	case <-time.After(120 * time.Second):
		d.cmd.Process.Kill()
		d.cmd.Wait()
		d.cmd = nil
		resp.dead = true
		resp.Err = "timeout"
	}
	return resp
}

// ---------------------------------------------------------------- independent oracles

// oracleGlob translates one ignore-file pattern (documented semantics: `*` within a path segment, `**` across
// segments, `?` one character of a segment) to an anchored regular expression.
func oracleGlob(pat string) *regexp.Regexp {
	var sb strings.Builder
	sb.WriteString(`\A(?s:`)
	for i := 0; i < len(pat); {
		switch {
		case strings.HasPrefix(pat[i:], "**"):
			sb.WriteString(`.*`)
			i += 2
		case pat[i] == '*':
			sb.WriteString(`[^/]*`)
			i++
		case pat[i] == '?':
			sb.WriteString(`[^/]`)
			i++
		default:
			j := i + 1
			for j < len(pat) && pat[j] != '*' && pat[j] != '?' {
				j++
			}
			sb.WriteString(regexp.QuoteMeta(pat[i:j]))
			i = j
		}
	}
	sb.WriteString(`)\z`)
	return regexp.MustCompile(sb.String())
}

// oracleIgnore: the documented rules of ignore.ParseIgnoreFile, re-implemented.
func oracleIgnore(content []byte) []*regexp.Regexp {
	var out []*regexp.Regexp
	for _, line := range strings.Split(string(content), "\n") {
		line = strings.Trim(line, " \t\r\n\v\f")
		if line == "" || line[0] == '#' {
			continue
		}
		line = strings.TrimPrefix(line, "/")
		if !strings.ContainsAny(line, ".][*?") {
			line += "**"
		}
		out = append(out, oracleGlob(line))
	}
	return out
}

func anyMatch(res []*regexp.Regexp, p string) bool {
	for _, re := range res {
		if re.MatchString(p) {
			return true
		}
	}
	return false
}

func child(n *node, name string) *node {
	for _, k := range n.Kids {
		if k.Name == name {
			return k
		}
	}
	return nil
}

type odoc struct {
	name    string
	payload []byte
}

// oracleDir: the documents the statement asks for.
func oracleDir(c dirCase) []odoc {
	root := c.Root
	var pats []*regexp.Regexp
	if sg := child(root, ".sourcegraph"); sg != nil && sg.Kind == "d" {
		if ig := child(sg, "ignore"); ig != nil && ig.Kind == "f" {
			pats = oracleIgnore(ig.Data)
		}
	}
	ignored := map[string]bool{}
	for _, d := range c.IgnoreDirs {
		ignored[d] = true
	}
	var out []odoc
	var rec func(n *node, rel string)
	rec = func(n *node, rel string) {
		for _, k := range n.Kids {
			p := k.Name
			if rel != "" {
				p = rel + "/" + k.Name
			}
			if anyMatch(pats, p) {
				continue
			}
			switch k.Kind {
			case "d":
				if !ignored[k.Name] {
					rec(k, p)
				}
			case "f", "l":
				out = append(out, odoc{p, k.Data})
			}
		}
	}
	if !ignored[root.Name] {
		rec(root, "")
	}
	return out
}

func oracleStored(payload []byte, sizeMax int, allowLarge bool) string {
	switch {
	case len(payload) > sizeMax && !allowLarge:
		return "!large"
	case len(payload) == 0:
		return "b-"
	case len(payload) < 3:
		return "!small"
	case bytes.IndexByte(payload, 0) >= 0:
		return "!binary"
	}
	return "b" + gen.Hex(payload)
}

func renderImplDocs(docs []d1util.Doc) []string {
	var out []string
	for _, d := range docs {
		st := "b" + gen.Hex(d.Content)
		if tag := d1util.SkipTag(d.Content); tag != "" {
			st = "!" + tag
		}
		out = append(out, hexs(d.Name)+":"+st)
	}
	sort.Strings(out)
	return out
}

func joinOrDash(xs []string) string {
	if len(xs) == 0 {
		return "-"
	}
	return strings.Join(xs, ",")
}

// ---------------------------------------------------------------- directory cases

type env struct {
	w    *gen.Writer
	drv  *driver
	work string
	seq  int
}

func (e *env) tmp(prefix string) string {
	e.seq++
	p := filepath.Join(e.work, fmt.Sprintf("%s-%d", prefix, e.seq))
	os.RemoveAll(p)
	if err := os.MkdirAll(p, 0o755); err != nil {
		panic(err)
	}
	return p
}

func (e *env) runDir(c dirCase) {
	base := e.tmp("dir")
	defer os.RemoveAll(base)
	if err := materialise(base, c.Root); err != nil {
		panic(err)
	}
	if c.RootKind == "symlink" {
		for _, k := range c.Root.Kids { // the real directory the root symlink points to
			if err := materialise(base, k); err != nil {
				panic(err)
			}
		}
	}
	rootPath := filepath.Join(base, c.Root.Name)
	// the model sees the root as Lstat does
	modelRoot := c.Root
	if c.RootKind == "symlink" {
		modelRoot = &node{Kind: "l", Name: c.Root.Name, Data: c.Root.Data}
	}
	var tree strings.Builder
	encodeTree(modelRoot, &tree)
	detail := gen.Detail(c)
	class := "root-" + c.RootKind
	if c.RootKind == "dir" {
		class = c.Op
	}
	if c.Op == "cli" {
		class = "cli-" + class
	}
	switch c.Op {
	case "walk":
		resp := e.drv.call(map[string]any{"op": "walk", "dir": rootPath, "ignore_dirs": c.IgnoreDirs, "size_max": c.SizeMax})
		in := fmt.Sprintf("walk %s %s %s", hexList(c.IgnoreDirs), hexs(rootPath), tree.String())
		var impl string
		goV, key := "", ""
		switch {
		case resp.dead:
			impl, goV, key = "dead", "the driver process died during the walk", "dir-fatal"
		case resp.Panic != "":
			impl, goV, key = "panic", "panic: "+firstLine(resp.Panic), "dir-panic"
		case resp.Err != "":
			impl = "err"
		default:
			var parts []string
			for _, f := range resp.Files {
				rel := ""
				if f.Name != rootPath {
					rel = strings.TrimPrefix(f.Name, rootPath+"/")
				}
				sl := "0"
				if f.Symlink {
					sl = "1"
				}
				parts = append(parts, fmt.Sprintf("%s:%d:%s", hexs(rel), f.Size, sl))
			}
			impl = joinOrDash(parts)
		}
		e.w.Emit(gen.Case{In: in, Impl: impl, Go: goV, Key: key, Class: class, Nontrivial: len(resp.Files) >= 2, Detail: detail})
	case "dir", "cli":
		idx := e.tmp("idx")
		defer os.RemoveAll(idx)
		var resp driverResp
		if c.Op == "cli" {
			// the command itself: flag parsing (-ignore_dirs with padding and empty items, -file_limit, -large_file), main()
			padded := []string{" "}
			for _, d := range c.IgnoreDirs {
				padded = append(padded, " "+d+"\t")
			}
			args := []string{"-index", idx, "-ignore_dirs", strings.Join(padded, ","), "-file_limit", fmt.Sprint(c.SizeMax), "-disable_ctags"}
			for _, lf := range c.LargeFiles {
				args = append(args, "-large_file", lf)
			}
			cmd := exec.Command(e.drv.bin, append(args, rootPath)...)
			cmd.Env = append(os.Environ(), "ZOEKT_VERIF_DRIVER=")
			out, err := cmd.CombinedOutput()
			if err != nil {
				if strings.Contains(string(out), "panic:") || strings.Contains(string(out), "SIGSEGV") {
					resp.Panic = string(out)
				} else {
					resp.Err = fmt.Sprintf("%v: %s", err, lastLine(string(out)))
				}
			}
		} else {
			resp = e.drv.call(map[string]any{"op": "index", "dir": rootPath, "index_dir": idx, "ignore_dirs": c.IgnoreDirs,
				"size_max": c.SizeMax, "name": "repo", "large_files": c.LargeFiles})
		}
		// Options.IgnoreSizeMax (doublestar) is a parameter of model and oracle: the names it whitelists
		allow := map[string]bool{}
		var allowNames []string
		{
			lo := index.Options{LargeFiles: c.LargeFiles}
			var paths []string
			collectPaths(c.Root, "", &paths)
			paths = append(paths, rootPath)
			for _, p := range paths {
				if lo.IgnoreSizeMax(p) {
					allow[p] = true
					allowNames = append(allowNames, p)
				}
			}
		}
		in := fmt.Sprintf("dir %s %d %s %s %s", hexList(c.IgnoreDirs), c.SizeMax, hexList(allowNames), hexs(rootPath), tree.String())
		if c.RootKind == "dir" {
			for _, d := range oracleDir(c) {
				if allow[d.name] && len(d.payload) > c.SizeMax {
					e.w.Count("dir-whitelisted-large-docs", 1)
				}
			}
		}
		goV, key := "", ""
		cls, docsS := "ok", "-"
		var impl []string
		switch {
		case resp.dead:
			cls, goV, key = "dead", "the indexer process died (log.Fatal or crash)", "dir-fatal"
		case resp.Panic != "":
			cls, goV, key = "panic", "panic: "+firstLine(resp.Panic), "dir-panic"
		case resp.Err != "":
			cls, goV, key = "err", "indexArg failed on a well-formed tree: "+resp.Err, "dir-error"
		default:
			docs, err := d1util.ReadDocs(idx)
			if err != nil {
				cls, goV, key = "unreadable", "shards unreadable: "+err.Error(), "dir-shards-unreadable"
			} else {
				impl = renderImplDocs(docs)
				docsS = joinOrDash(impl)
			}
		}
		if goV == "" && c.RootKind == "dir" {
			var want []string
			for _, d := range oracleDir(c) {
				want = append(want, hexs(d.name)+":"+oracleStored(d.payload, c.SizeMax, allow[d.name]))
			}
			sort.Strings(want)
			if strings.Join(want, ",") != strings.Join(impl, ",") {
				goV, key = fmt.Sprintf("documents differ from the source files: want %v got %v", diff(want, impl), diff(impl, want)), "dir-docs"
			}
		}
		e.w.Emit(gen.Case{In: in, Impl: cls + " " + docsS, Go: goV, Key: key, Class: "e2e-" + class, Nontrivial: len(impl) >= 2, Detail: detail})
	}
}

func lastLine(s string) string {
	s = strings.TrimSpace(s)
	if i := strings.LastIndexByte(s, '\n'); i >= 0 {
		return s[i+1:]
	}
	return s
}

func firstLine(s string) string {
	if i := strings.IndexByte(s, '\n'); i >= 0 {
		return s[:i]
	}
	return s
}

// diff: elements of a not in b (first few)
func diff(a, b []string) []string {
	m := map[string]int{}
	for _, x := range b {
		m[x]++
	}
	var out []string
	for _, x := range a {
		if m[x] > 0 {
			m[x]--
			continue
		}
		if len(out) < 4 {
			out = append(out, x)
		}
	}
	return out
}

// ---------------------------------------------------------------- ignore / strip unit correspondences

func (e *env) runIgn(file []byte, path string) {
	m, err := ignore.ParseIgnoreFile(bytes.NewReader(file))
	impl := "err"
	if err == nil {
		impl = "0"
		if m.Match(path) {
			impl = "1"
		}
	}
	goV, key := "", ""
	want := "0"
	if anyMatch(oracleIgnore(file), path) {
		want = "1"
	}
	if impl != want {
		goV, key = fmt.Sprintf("ignore matcher says %s, documented semantics say %s", impl, want), "ignore-match"
	}
	e.w.Emit(gen.Case{In: fmt.Sprintf("ign %s %s", gen.Hex(file), hexs(path)), Impl: impl, Go: goV, Key: key,
		Class: "ign-" + impl, Nontrivial: impl == "1",
		Detail: gen.Detail(map[string]any{"op": "ign", "file": file, "path": path})})
}

func oracleStrip(name string, n int) string {
	if n < 0 {
		n = 0
	}
	parts := strings.Split(name, "/")
	if len(parts) <= n {
		return ""
	}
	return strings.Join(parts[n:], "/")
}

func (e *env) runStrip(name string, n int) {
	got := verifhooks.C15StripComponents(name, n)
	goV, key := "", ""
	if got != oracleStrip(name, n) {
		goV, key = fmt.Sprintf("stripComponents(%q,%d)=%q want %q", name, n, got, oracleStrip(name, n)), "strip"
	}
	e.w.Emit(gen.Case{In: fmt.Sprintf("strip %s %d", hexs(name), n), Impl: hexs(got), Go: goV, Key: key,
		Class: "strip", Nontrivial: got != "" && got != name,
		Detail: gen.Detail(map[string]any{"op": "strip", "name": name, "n": n})})
}

// ---------------------------------------------------------------- archives

type member struct {
	Kind string `json:"k"` // r d s h o
	Name string `json:"n"`
	Data []byte `json:"d,omitempty"`
	// Lie: the member header announces Announce bytes (File.Size) while the archive holds only Data for it — a
	// truncated download, a corrupted or hostile header.  In a tar the stream ends after Data.
	Lie      bool  `json:"lie,omitempty"`
	Announce int64 `json:"announce,omitempty"`
}

// encoding: how the (same) member list is serialised.  Every choice is a valid encoding any compliant reader accepts;
// the resulting index must not depend on it.
type encoding struct {
	TarFormat  string `json:"tar_format,omitempty"`   // "" (writer's choice) | ustar | pax | gnu
	TarPad     int    `json:"tar_pad,omitempty"`      // extra zero blocks after the end-of-archive marker (tar -b blocking)
	GzCutAfter []int  `json:"gz_cut_after,omitempty"` // tar.gz: a new gzip member starts after these entries (entry boundaries)
	GzCutAt    []int  `json:"gz_cut_at,omitempty"`    // tar.gz: a new gzip member starts at these per-mille positions of the tar stream
	GzLevel    int    `json:"gz_level,omitempty"`     // 0 default | 1 stored | 2 fastest | 3 best
	GzHeader   bool   `json:"gz_header,omitempty"`    // gzip header carrying name, comment and extra field
	ZipStore   bool   `json:"zip_store,omitempty"`    // zip: stored instead of deflated entries
}

type archCase struct {
	Op      string   `json:"op"` // members | arch | garbage
	Format  string   `json:"format"`
	Members []member `json:"members"`
	Strip   int      `json:"strip"`
	SizeMax int      `json:"size_max"`
	Enc     encoding `json:"enc"`
	Raw     []byte   `json:"raw,omitempty"` // garbage: the file as is
}

var compPool = []string{"repo-1a2b3c", "src", "lib", "a", "b", "main.go", "x.txt", "README.md", "日本", "foo bar", ".git", "vendor", "t"}

func genMemberName(r *gen.Rand, top string) string {
	n := r.Range(1, 4)
	var parts []string
	if top != "" && r.Chance(5, 6) {
		parts = append(parts, top)
	}
	for i := 0; i < n; i++ {
		parts = append(parts, gen.Pick(r, compPool))
	}
	nm := strings.Join(parts, "/")
	switch r.Intn(24) {
	case 0:
		nm = "./" + nm
	case 1:
		nm = strings.Replace(nm, "/", "//", 1)
	case 2:
		nm = "/" + nm
	case 3:
		nm = nm + "/" + strings.Repeat("long-component-", 9) + "end.txt" // > 100 bytes: PAX / GNU long name
	case 4:
		nm = "../" + nm
	}
	return nm
}

// genEncoding: one of the valid serialisations of a member list.
func genEncoding(r *gen.Rand, format string, nMembers int) encoding {
	var e encoding
	switch format {
	case "tar", "tgz":
		e.TarFormat = gen.Pick(r, []string{"", "", "ustar", "pax", "gnu"})
		if r.Chance(1, 4) {
			e.TarPad = r.Range(1, 18) // e.g. GNU tar's default blocking factor of 20
		}
		if format == "tgz" {
			e.GzLevel = r.Intn(4)
			e.GzHeader = r.Chance(1, 3)
			if r.Chance(3, 5) { // several concatenated gzip members (RFC 1952 §2.2; bgzip, pigz -i, `gzip -c part >> out.tgz`)
				for i := r.Range(1, 3); i > 0; i-- {
					if nMembers > 0 && r.Chance(2, 3) {
						e.GzCutAfter = append(e.GzCutAfter, r.Intn(nMembers))
					} else {
						e.GzCutAt = append(e.GzCutAt, r.Intn(1001))
					}
				}
			}
		}
	case "zip":
		e.ZipStore = r.Chance(1, 3)
	}
	return e
}

func genArchCase(r *gen.Rand, op string) (c archCase) {
	c = archCase{Op: op, Format: gen.Pick(r, []string{"tar", "tgz", "tgz", "zip"})}
	defer func() { c.Enc = genEncoding(r, c.Format, len(c.Members)) }()
	c.SizeMax = 1 << 20
	if r.Chance(1, 5) {
		c.SizeMax = r.Range(8, 40)
	}
	c.Strip = gen.Pick(r, []int{0, 0, 1, 1, 1, 2, 3, 5, -1})
	top := ""
	if r.Chance(2, 3) {
		top = "repo-1a2b3c"
	}
	n := r.Range(0, 8)
	shape := r.Intn(10)
	if shape == 0 {
		n = 0 // empty archive
	}
	for i := 0; i < n; i++ {
		m := member{Name: genMemberName(r, top)}
		x := r.Intn(20)
		if shape == 1 {
			x = 15 + r.Intn(5) // no regular member at all
		}
		switch {
		case x < 13:
			m.Kind = "r"
			m.Data = genContent(r, c.SizeMax)
		case x < 16:
			m.Kind = "d"
			m.Name += "/"
		case x < 18:
			m.Kind = "s"
			m.Data = []byte("x.txt")
		case x < 19:
			m.Kind = "h"
			m.Data = []byte(top + "/x.txt")
		default:
			m.Kind = "o"
		}
		if c.Format == "zip" && (m.Kind == "h" || m.Kind == "o") {
			m.Kind = "d"
			m.Name += "/"
		}
		c.Members = append(c.Members, m)
	}
	return c
}

// what the last writeArchive produced (distribution counters)
var lastGzPieces int
var lastGzBoundaryCut bool

func writeArchive(path string, c archCase) error {
	lastGzPieces, lastGzBoundaryCut = 0, false
	f, err := os.Create(path)
	if err != nil {
		return err
	}
	defer f.Close()
	if c.Raw != nil {
		_, err := f.Write(c.Raw)
		return err
	}
	mt := time.Unix(1700000000, 0)
	switch c.Format {
	case "tar", "tgz":
		// the tar stream first (remembering where every entry ends), then the container around it
		var raw bytes.Buffer
		var bounds []int
		tw := tar.NewWriter(&raw)
		lied := false
		for _, m := range c.Members {
			h := &tar.Header{Name: m.Name, Mode: 0o644, ModTime: mt}
			switch m.Kind {
			case "r":
				h.Typeflag = tar.TypeReg
				h.Size = int64(len(m.Data))
				if m.Lie {
					h.Size = m.Announce
				}
			case "d":
				h.Typeflag = tar.TypeDir
				h.Mode = 0o755
			case "s":
				h.Typeflag = tar.TypeSymlink
				h.Linkname = string(m.Data)
			case "h":
				h.Typeflag = tar.TypeLink
				h.Linkname = string(m.Data)
			case "o":
				h.Typeflag = tar.TypeFifo
			}
			switch c.Enc.TarFormat {
			case "ustar":
				h.Format = tar.FormatUSTAR
			case "pax":
				h.Format = tar.FormatPAX
			case "gnu":
				h.Format = tar.FormatGNU
			}
			if err := tw.WriteHeader(h); err != nil {
				// the requested format cannot represent this header (long or non-ASCII name, huge size): writer's choice
				h.Format = tar.FormatUnknown
				if err := tw.WriteHeader(h); err != nil {
					return err
				}
			}
			if m.Kind == "r" && m.Lie {
				// the body that was really transferred, then the stream simply ends (no padding, no trailer)
				raw.Write(m.Data)
				lied = true
				break
			}
			if m.Kind == "r" {
				if _, err := tw.Write(m.Data); err != nil {
					return err
				}
			}
			if err := tw.Flush(); err != nil { // pads the entry to a block boundary
				return err
			}
			bounds = append(bounds, raw.Len())
		}
		if !lied {
			if err := tw.Close(); err != nil {
				return err
			}
			raw.Write(make([]byte, 512*c.Enc.TarPad))
		}
		data := raw.Bytes()
		if c.Format == "tar" {
			_, err := f.Write(data)
			return err
		}
		// tar.gz: one gzip member per piece
		cutSet := map[int]bool{}
		for _, i := range c.Enc.GzCutAfter {
			if i >= 0 && i < len(bounds) {
				cutSet[bounds[i]] = true
			}
		}
		for _, pm := range c.Enc.GzCutAt {
			cutSet[len(data)*pm/1000] = true
		}
		var cuts []int
		for p := range cutSet {
			if p >= 0 && p <= len(data) {
				cuts = append(cuts, p)
			}
		}
		sort.Ints(cuts)
		cuts = append(cuts, len(data))
		level := []int{gzip.DefaultCompression, gzip.NoCompression, gzip.BestSpeed, gzip.BestCompression}[c.Enc.GzLevel%4]
		prev := 0
		for k, p := range cuts {
			if k > 0 && p == prev {
				continue
			}
			gz, err := gzip.NewWriterLevel(f, level)
			if err != nil {
				return err
			}
			if c.Enc.GzHeader {
				gz.Name, gz.Comment, gz.Extra, gz.ModTime = "part.tar", "written by the C15 harness", []byte{1, 2, 3, 4}, mt
			}
			if _, err := gz.Write(data[prev:p]); err != nil {
				return err
			}
			if err := gz.Close(); err != nil {
				return err
			}
			lastGzPieces++
			for _, b := range bounds {
				if p == b && p < len(data) {
					lastGzBoundaryCut = true
				}
			}
			prev = p
		}
		return nil
	case "zip":
		zw := zip.NewWriter(f)
		for _, m := range c.Members {
			if m.Kind == "r" && m.Lie {
				// stored entry whose size fields say Announce while len(Data) bytes are there
				h := &zip.FileHeader{Name: m.Name, Method: zip.Store, Modified: mt, CRC32: crc32.ChecksumIEEE(m.Data),
					CompressedSize64: uint64(len(m.Data)), UncompressedSize64: uint64(m.Announce)}
				h.SetMode(0o644)
				w, err := zw.CreateRaw(h)
				if err != nil {
					return err
				}
				if _, err := w.Write(m.Data); err != nil {
					return err
				}
				continue
			}
			h := &zip.FileHeader{Name: m.Name, Method: zip.Deflate, Modified: mt}
			if c.Enc.ZipStore {
				h.Method = zip.Store
			}
			switch m.Kind {
			case "r":
				h.SetMode(0o644)
			case "d":
				h.SetMode(os.ModeDir | 0o755)
			case "s":
				h.SetMode(os.ModeSymlink | 0o777)
			}
			w, err := zw.CreateHeader(h)
			if err != nil {
				return err
			}
			if m.Kind == "r" || m.Kind == "s" {
				if _, err := w.Write(m.Data); err != nil {
					return err
				}
			}
		}
		return zw.Close()
	}
	return nil
}

func encodeMembers(ms []member) string {
	if len(ms) == 0 {
		return "-"
	}
	var parts []string
	for _, m := range ms {
		data := m.Data
		if m.Kind != "r" {
			data = nil
		}
		p := fmt.Sprintf("%s:%s:%s", m.Kind, hexs(m.Name), gen.Hex(data))
		if m.Kind == "r" && m.Lie {
			p += fmt.Sprintf(":%d", m.Announce) // what the header announces
		}
		parts = append(parts, p)
	}
	return strings.Join(parts, ",")
}

func archShape(c archCase) string {
	reg := 0
	for _, m := range c.Members {
		if m.Kind == "r" {
			reg++
		}
	}
	for _, m := range c.Members {
		if m.Kind == "r" && m.Lie {
			return "lying-size"
		}
	}
	switch {
	case len(c.Members) == 0:
		return "empty"
	case reg == 0:
		return "no-regular"
	}
	return "files"
}

func (e *env) runArch(c archCase) {
	base := e.tmp("arch")
	defer os.RemoveAll(base)
	path := filepath.Join(base, "a."+c.Format)
	if err := writeArchive(path, c); err != nil {
		panic(err)
	}
	detail := gen.Detail(c)
	shape := archShape(c)
	if c.Format == "tgz" && c.Raw == nil {
		if lastGzPieces > 1 {
			e.w.Count("tgz-multi-member-"+c.Op, 1)
			if lastGzBoundaryCut {
				e.w.Count("tgz-member-ends-at-entry-boundary-"+c.Op, 1)
			}
		} else {
			e.w.Count("tgz-single-member-"+c.Op, 1)
		}
	}
	switch c.Op {
	case "members":
		ms, err := verifhooks.C15Members(path)
		if err != nil {
			e.w.Emit(gen.Case{Go: "a well-formed " + c.Format + " archive is rejected: " + err.Error(),
				Key: "archive-error:" + c.Format + ":" + shape, Class: "members-err", Detail: detail})
			return
		}
		var parts []string
		for _, m := range ms {
			parts = append(parts, hexs(m.Name)+":"+gen.Hex(m.Content))
		}
		e.w.Emit(gen.Case{In: "members " + encodeMembers(c.Members), Impl: joinOrDash(parts), Class: "members-" + c.Format,
			Nontrivial: len(ms) >= 1 && len(ms) < len(c.Members), Detail: detail})
	case "arch", "garbage":
		idx := filepath.Join(base, "idx")
		cls, errText := "ok", ""
		if c.Op == "garbage" || shape == "lying-size" {
			// archives that are not what they claim to be are indexed in a child process with a bounded address
			// space: a run-time panic, a fatal error (an allocation sized by a header field) or a hang is then an
			// observation ("panic" / "crash") instead of the end of the harness
			cls, errText = indexInChild(path, idx, c.Strip, c.SizeMax)
		} else {
			func() {
				defer func() {
					if r := recover(); r != nil {
						cls, errText = "panic", fmt.Sprint(r)
					}
				}()
				err := verifhooks.C15ArchiveIndex(verifhooks.C15ArchiveOptions{Archive: path, Name: "repo", Branch: "main", Strip: c.Strip},
					index.Options{IndexDir: idx, SizeMax: c.SizeMax, DisableCTags: true, ShardMax: 1 << 20})
				if err != nil {
					cls, errText = "err", err.Error()
				}
			}()
		}
		if c.Op == "garbage" {
			goV, key := "", ""
			if cls == "panic" || cls == "crash" {
				goV, key = "archive.Index crashed on a malformed archive: "+errText, "archive-"+cls+":garbage"
			}
			e.w.Emit(gen.Case{Go: goV, Key: key, Class: "garbage-" + cls, Detail: detail})
			return
		}
		if shape == "lying-size" {
			// the model: an error (the data does not amount to the announced size); the statement: no crash
			goV, key := "", ""
			var lm member
			for _, m := range c.Members {
				if m.Kind == "r" && m.Lie {
					lm = m
				}
			}
			if cls == "panic" || cls == "crash" {
				goV = fmt.Sprintf("archive.Index crashed on a %s archive whose member header announces %d bytes while %d are there: %s",
					c.Format, lm.Announce, len(lm.Data), errText)
				key = "archive-" + cls + ":lying-size"
			}
			switch {
			case lm.Announce < 0:
				e.w.Count("lying-size-negative", 1)
			case lm.Announce >= 1<<31:
				e.w.Count("lying-size-huge", 1)
			default:
				e.w.Count("lying-size-moderate", 1)
			}
			in := fmt.Sprintf("arch %d %d %s", c.Strip, c.SizeMax, encodeMembers(c.Members))
			e.w.Emit(gen.Case{In: in, Impl: cls + " -", Go: goV, Key: key, Class: "e2e-arch-" + c.Format + "-lying-size-" + cls,
				Nontrivial: true, Detail: detail})
			return
		}
		if cls == "err" {
			e.w.Emit(gen.Case{Go: "a well-formed " + c.Format + " archive is rejected: " + errText,
				Key: "archive-error:" + c.Format + ":" + shape, Class: "arch-err", Detail: detail})
			return
		}
		var impl []string
		goV, key := "", ""
		if cls == "ok" {
			docs, err := d1util.ReadDocs(idx)
			if err != nil {
				cls, goV, key = "unreadable", "shards unreadable: "+err.Error(), "archive-shards-unreadable"
			}
			impl = renderImplDocs(docs)
			var want []string
			for _, m := range c.Members {
				if m.Kind != "r" {
					continue
				}
				if nm := oracleStrip(m.Name, c.Strip); nm != "" {
					want = append(want, hexs(nm)+":"+oracleStored(m.Data, c.SizeMax, false))
				}
			}
			sort.Strings(want)
			if goV == "" && strings.Join(want, ",") != strings.Join(impl, ",") {
				goV, key = fmt.Sprintf("documents differ from the regular members: missing %v unexpected %v", diff(want, impl), diff(impl, want)), "archive-docs"
			}
			if goV == "" && len(d1util.ShardFiles(idx)) == 0 {
				goV, key = "archive.Index returned nil but wrote no shard", "archive-no-shard:"+shape
			}
		} else {
			goV, key = "archive.Index panicked: "+errText, "archive-panic:"+shape
		}
		in := fmt.Sprintf("arch %d %d %s", c.Strip, c.SizeMax, encodeMembers(c.Members))
		e.w.Emit(gen.Case{In: in, Impl: cls + " " + joinOrDash(impl), Go: goV, Key: key, Class: "e2e-arch-" + c.Format + "-" + shape,
			Nontrivial: len(impl) >= 2, Detail: detail})
	}
}

func genGarbage(r *gen.Rand) archCase {
	c := archCase{Op: "garbage", Format: "bin", SizeMax: 1 << 20, Strip: r.Intn(3)}
	good := genArchCase(r, "arch")
	var buf bytes.Buffer
	tmp := filepath.Join(os.TempDir(), fmt.Sprintf("c15-garbage-%d", os.Getpid()))
	if err := writeArchive(tmp, good); err == nil {
		b, _ := os.ReadFile(tmp)
		buf.Write(b)
	}
	os.Remove(tmp)
	b := buf.Bytes()
	switch r.Intn(6) {
	case 0:
		b = nil
	case 1:
		if len(b) > 0 {
			b = b[:r.Intn(len(b))] // truncated
		}
	case 2:
		for i := 0; i < 8 && len(b) > 0; i++ {
			b[r.Intn(len(b))] ^= byte(1 << r.Intn(8)) // bit flips
		}
	case 3:
		b = gen.Text(r, 200, true)
	case 4:
		b = append([]byte("PK\x03\x04"), gen.Text(r, 100, true)...)
	case 5:
		b = append([]byte("\x1f\x8b\x08"), gen.Text(r, 100, true)...)
	}
	if b == nil {
		b = []byte{}
	}
	c.Raw = b
	return c
}


// ---------------------------------------------------------------- archive.Index in a child process

const childEnv = "ZOEKT_VERIF_C15_CHILD"

type childReq struct {
	Path    string `json:"path"`
	Idx     string `json:"idx"`
	Strip   int    `json:"strip"`
	SizeMax int    `json:"size_max"`
}

type childResp struct {
	Cls string `json:"cls"`
	Err string `json:"err"`
}

// childAddressSpace bounds the child's virtual memory: an allocation sized by a lying header field fails at once.
const childAddressSpace = 6 << 30

// runChild: a line server (one request per line, one response per line) so that the start-up cost is paid once;
// a request that kills the process is seen by the parent as a dead child, which is then restarted.
func runChild() {
	log.SetOutput(io.Discard)
	lim := syscall.Rlimit{Cur: childAddressSpace, Max: childAddressSpace}
	_ = syscall.Setrlimit(syscall.RLIMIT_AS, &lim)
	in := bufio.NewReaderSize(os.Stdin, 1<<20)
	out := bufio.NewWriter(os.Stdout)
	for {
		line, err := in.ReadBytes('\n')
		if len(bytes.TrimSpace(line)) > 0 {
			var req childReq
			resp := childResp{Cls: "ok"}
			if jerr := json.Unmarshal(line, &req); jerr != nil {
				resp = childResp{Cls: "bad-request", Err: jerr.Error()}
			} else {
				func() {
					defer func() {
						if r := recover(); r != nil {
							resp = childResp{Cls: "panic", Err: fmt.Sprint(r)}
						}
					}()
					err := verifhooks.C15ArchiveIndex(verifhooks.C15ArchiveOptions{Archive: req.Path, Name: "repo", Branch: "main", Strip: req.Strip},
						index.Options{IndexDir: req.Idx, SizeMax: req.SizeMax, DisableCTags: true, ShardMax: 1 << 20})
					if err != nil {
						resp = childResp{Cls: "err", Err: err.Error()}
					}
				}()
			}
			b, _ := json.Marshal(resp)
			out.Write(b)
			out.WriteByte('\n')
			out.Flush()
		}
		if err != nil {
			return
		}
	}
}

type childProc struct {
	cmd    *exec.Cmd
	in     io.WriteCloser
	out    *bufio.Reader
	stderr *bytes.Buffer
}

var archChild *childProc

func (c *childProc) kill() {
	if c.cmd != nil {
		c.in.Close()
		c.cmd.Process.Kill()
		c.cmd.Wait()
		c.cmd = nil
	}
}

func stopChild() {
	if archChild != nil {
		archChild.kill()
		archChild = nil
	}
}

// indexInChild: class ok | err | panic (recovered run-time panic) | crash (the process died or hung) and a text.
func indexInChild(path, idx string, strip, sizeMax int) (string, string) {
	if archChild == nil {
		c := &childProc{stderr: &bytes.Buffer{}}
		c.cmd = exec.Command(os.Args[0])
		c.cmd.Env = append(os.Environ(), childEnv+"=1")
		c.cmd.Stderr = c.stderr
		var err error
		if c.in, err = c.cmd.StdinPipe(); err != nil {
			panic(err)
		}
		o, err := c.cmd.StdoutPipe()
		if err != nil {
			panic(err)
		}
		c.out = bufio.NewReaderSize(o, 1<<20)
		if err := c.cmd.Start(); err != nil {
			panic(err)
		}
		archChild = c
	}
	c := archChild
	spec, _ := json.Marshal(childReq{Path: path, Idx: idx, Strip: strip, SizeMax: sizeMax})
	c.in.Write(append(spec, '\n'))
	type res struct {
		line []byte
		err  error
	}
	ch := make(chan res, 1)
	go func() {
		l, err := c.out.ReadBytes('\n')
		ch <- res{l, err}
	}()
	var resp childResp
	select {
	case r := <-ch:
		if r.err == nil && json.Unmarshal(bytes.TrimSpace(r.line), &resp) == nil && resp.Cls != "" {
			return resp.Cls, resp.Err
		}
		c.cmd.Wait() // the child died while serving this request
		why := fmt.Sprintf("%v: %s", c.cmd.ProcessState, firstLine(strings.TrimSpace(c.stderr.String())))
		c.cmd = nil
		archChild = nil
		return "crash", why
	case <-time.After(120 * time.Second):
		c.kill()
		archChild = nil
		return "crash", "no answer within 120s"
	}
}

var announcePool = []int64{1 << 20, 1 << 31, 1<<32 + 5, 1 << 33, 1 << 36, 1 << 40, 1 << 50, 1 << 60, 1 << 62, 1<<63 - 1}

// genLyingArch: an archive one of whose regular members announces more (or, in a zip, a negative number of) bytes than
// it holds.  In a tar the stream ends after that member's data; in a zip the entry can sit anywhere.
func genLyingArch(r *gen.Rand) archCase {
	c := genArchCase(r, "arch")
	data := genContent(r, 1<<20)
	if len(data) > 64 {
		data = data[:64]
	}
	lm := member{Kind: "r", Name: genMemberName(r, "repo-1a2b3c"), Data: data, Lie: true}
	switch r.Intn(8) {
	case 0:
		lm.Announce = int64(len(data)) + 1
	case 1:
		lm.Announce = int64(len(data)) + int64(r.Range(2, 4096))
	default:
		lm.Announce = gen.Pick(r, announcePool)
	}
	if c.Format == "zip" {
		if r.Chance(1, 4) {
			lm.Announce = gen.Pick(r, []int64{-1, -1 << 63, -1 << 40}) // UncompressedSize64 ≥ 2^63: negative after the conversion to int64
		}
		pos := r.Intn(len(c.Members) + 1)
		ms := append([]member{}, c.Members[:pos]...)
		ms = append(ms, lm)
		c.Members = append(ms, c.Members[pos:]...)
	} else {
		keep := r.Intn(len(c.Members) + 1)
		c.Members = append(append([]member{}, c.Members[:keep]...), lm)
	}
	return c
}

// ---------------------------------------------------------------- main

func (e *env) runDetail(raw json.RawMessage) {
	var probe struct {
		Op string `json:"op"`
	}
	if err := json.Unmarshal(raw, &probe); err != nil {
		panic(err)
	}
	switch probe.Op {
	case "walk", "dir", "cli":
		var c dirCase
		if err := json.Unmarshal(raw, &c); err != nil {
			panic(err)
		}
		e.runDir(c)
	case "members", "arch", "garbage":
		var c archCase
		if err := json.Unmarshal(raw, &c); err != nil {
			panic(err)
		}
		e.runArch(c)
	case "ign":
		var c struct {
			File []byte `json:"file"`
			Path string `json:"path"`
		}
		json.Unmarshal(raw, &c)
		e.runIgn(c.File, c.Path)
	case "strip":
		var c struct {
			Name string `json:"name"`
			N    int    `json:"n"`
		}
		json.Unmarshal(raw, &c)
		e.runStrip(c.Name, c.N)
	default:
		panic("unknown op in replay/corpus: " + probe.Op)
	}
}

// detailOf accepts a replay file ({"case":{"detail":…}}) or a bare detail object.
func detailOf(path string) json.RawMessage {
	b, err := os.ReadFile(path)
	if err != nil {
		panic(err)
	}
	var rf struct {
		Case struct {
			Detail json.RawMessage `json:"detail"`
		} `json:"case"`
	}
	if json.Unmarshal(b, &rf) == nil && len(rf.Case.Detail) > 0 {
		return rf.Case.Detail
	}
	return b
}

func main() {
	if os.Getenv(childEnv) != "" {
		runChild()
		return
	}
	f := gen.ParseFlags()
	log.SetOutput(io.Discard) // the builder logs every shard it finishes
	w := gen.NewWriter(f.Out)
	defer w.Close()
	work := os.Getenv("VERIF_WORK")
	if work == "" {
		work = os.TempDir()
	}
	work = filepath.Join(work, "c15tmp")
	os.RemoveAll(work)
	if err := os.MkdirAll(work, 0o755); err != nil {
		panic(err)
	}
	defer os.RemoveAll(work)
	bin, err := buildZoektIndex(work)
	if err != nil {
		fmt.Fprintln(os.Stderr, err)
		w.Close()
		os.Exit(3)
	}
	e := &env{w: w, drv: &driver{bin: bin}, work: work}
	defer e.drv.stop()
	defer stopChild()

	if f.Replay != "" {
		e.runDetail(detailOf(f.Replay))
		return
	}
	if f.Corpus != "" {
		files, _ := filepath.Glob(filepath.Join(f.Corpus, "*.json"))
		sort.Strings(files)
		for _, p := range files {
			e.runDetail(detailOf(p))
		}
	}
	r := gen.NewRand(f.Seed)
	t0 := time.Now()
	phase := func(name string) {
		fmt.Fprintf(os.Stderr, "phase %s done at %.1fs\n", name, time.Since(t0).Seconds())
	}
	defer phase("all")
	// unit correspondences: ignore matcher, stripComponents, member filter
	for i := 0; i < f.N(800, 15000); i++ {
		c := genDirCase(r, "walk")
		file := genIgnoreFile(r, c.Root)
		var paths []string
		collectPaths(c.Root, "", &paths)
		if len(paths) == 0 {
			continue
		}
		e.runIgn(file, gen.Pick(r, paths))
	}
	for i := 0; i < f.N(800, 15000); i++ {
		nm := genMemberName(r, gen.Pick(r, []string{"", "top"}))
		if r.Chance(1, 10) {
			nm = gen.Pick(r, []string{"", "/", "a", "a/", "//", "a//b", "a/b/", "/a", "a/b/c/d/e"})
		}
		e.runStrip(nm, r.Range(-1, 5))
	}
	for i := 0; i < f.N(60, 600); i++ {
		e.runArch(genArchCase(r, "members"))
	}
	phase("units")
	// the walk alone (real newIgnoreMatcher + fileAggregator.add under filepath.Walk)
	for i := 0; i < f.N(200, 1500); i++ {
		e.runDir(genDirCase(r, "walk"))
	}
	phase("walk")
	// end to end: real indexArg / archive.Index, shards read back
	for i := 0; i < f.N(40, 400); i++ {
		c := genDirCase(r, "dir")
		if i%4 == 3 { // a size limit most files exceed, with a whitelist most of them match
			c.SizeMax = r.Range(8, 24)
			c.LargeFiles = gen.Pick(r, [][]string{{"**"}, {"*", "**/*.go"}, {"**", "!**/*.md"}, {"**/*.txt", "*"}})
		}
		e.runDir(c)
	}
	phase("e2e-dir")
	// the command line itself (flag parsing, main): the same oracle and model
	for i := 0; i < f.N(5, 120); i++ {
		e.runDir(genDirCase(r, "cli"))
	}
	phase("e2e-cli")
	for i := 0; i < f.N(50, 500); i++ {
		e.runArch(genArchCase(r, "arch"))
	}
	phase("e2e-arch")
	for i := 0; i < f.N(40, 400); i++ {
		e.runArch(genGarbage(r))
	}
	phase("garbage")
	// archives whose member headers lie about the size (truncated downloads, hostile headers)
	for i := 0; i < f.N(40, 600); i++ {
		e.runArch(genLyingArch(r))
	}
}
