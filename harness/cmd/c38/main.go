// C38 harness: real index.Options.GetHash / IndexState and zoekt.Repository.MergeMutable against the Lean model,
// on indexes built by the real Builder; the Lean statement (`violation`) is evaluated on the implementation's
// IndexState; and a dynamic confirmation per Options field (build twice with only that field changed: if the shard
// contents differ while IndexState says "equal", that pair is a failing input).
package main

import (
	"encoding/hex"
	"encoding/json"
	"fmt"
	"io"
	"log"
	"os"
	"os/exec"
	"path/filepath"
	"reflect"
	"sort"
	"strings"
	"time"

	"github.com/sourcegraph/zoekt"
	"github.com/sourcegraph/zoekt/gitindex"
	"github.com/sourcegraph/zoekt/index"
	"github.com/sourcegraph/zoekt/verifhooks"

	"verifharness/d1util"
	"verifharness/gen"
)

// ---------------------------------------------------------------- descriptions

type repoD struct {
	ID        uint32            `json:"id"`
	Name      string            `json:"name"`
	Branches  [][2]string       `json:"branches"`
	RawConfig map[string]string `json:"raw"` // nil is meaningful
	URL       string            `json:"url"`
	CTpl      string            `json:"ctpl"`
	FTpl      string            `json:"ftpl"`
	LTpl      string            `json:"ltpl"`
	Metadata  map[string]string `json:"metadata"`
}

type optsD struct {
	SizeMax      int              `json:"size_max"`
	TrigramMax   int              `json:"trigram_max"`
	DisableCTags bool             `json:"disable_ctags"`
	CTagsPath    string           `json:"ctags_path"`
	ScipPath     string           `json:"scip_path"`
	MustSucceed  bool             `json:"must_succeed"`
	LargeFiles   []string         `json:"large_files"`
	LanguageMap  map[string]uint8 `json:"language_map"`
	Repo         repoD            `json:"repo"`
}

const shardPrefix = "c38repo"

func (d optsD) options(indexDir string) index.Options {
	o := index.Options{
		IndexDir:            indexDir,
		ShardPrefixOverride: shardPrefix,
		SizeMax:             d.SizeMax,
		TrigramMax:          d.TrigramMax,
		DisableCTags:        d.DisableCTags,
		CTagsPath:           d.CTagsPath,
		ScipCTagsPath:       d.ScipPath,
		CTagsMustSucceed:    d.MustSucceed,
		LargeFiles:          d.LargeFiles,
		LanguageMap:         verifhooks.C38LanguageMap(d.LanguageMap),
	}
	r := &o.RepositoryDescription
	r.ID, r.Name, r.URL = d.Repo.ID, d.Repo.Name, d.Repo.URL
	r.CommitURLTemplate, r.FileURLTemplate, r.LineFragmentTemplate = d.Repo.CTpl, d.Repo.FTpl, d.Repo.LTpl
	for _, b := range d.Repo.Branches {
		r.Branches = append(r.Branches, zoekt.RepositoryBranch{Name: b[0], Version: b[1]})
	}
	if d.Repo.RawConfig != nil {
		r.RawConfig = map[string]string{}
		for k, v := range d.Repo.RawConfig {
			r.RawConfig[k] = v
		}
	}
	if d.Repo.Metadata != nil {
		r.Metadata = map[string]string{}
		for k, v := range d.Repo.Metadata {
			r.Metadata[k] = v
		}
	}
	return o
}

// effective re-reads the fields SetDefaults may have changed (defaults for 0 / "" values).
func effective(d optsD, o index.Options) optsD {
	d.SizeMax, d.TrigramMax, d.CTagsPath, d.ScipPath = o.SizeMax, o.TrigramMax, o.CTagsPath, o.ScipCTagsPath
	d.Repo.Name = o.RepositoryDescription.Name
	return d
}

// ---------------------------------------------------------------- encoding for the Lean driver

func xs(s string) string { return "x" + hex.EncodeToString([]byte(s)) }

func encPairs(m map[string]string, sep string) string {
	if len(m) == 0 {
		return "-"
	}
	var ps []string
	for k, v := range m {
		ps = append(ps, xs(k)+"="+xs(v))
	}
	sort.Strings(ps)
	return strings.Join(ps, sep)
}

type repoEnc struct {
	ID           uint32
	Name         string
	Branches     [][2]string
	Raw          map[string]string
	URL, C, F, L string
	IndexOptions string
	Metadata     map[string]string
}

func (r repoEnc) String() string {
	brs := "-"
	if len(r.Branches) > 0 {
		var ps []string
		for _, b := range r.Branches {
			ps = append(ps, xs(b[0])+"="+xs(b[1]))
		}
		brs = strings.Join(ps, "+")
	}
	raw := "nil"
	if r.Raw != nil {
		raw = encPairs(r.Raw, "+")
	}
	return strings.Join([]string{fmt.Sprint(r.ID), xs(r.Name), brs, raw, xs(r.URL), xs(r.C), xs(r.F), xs(r.L), xs(r.IndexOptions),
		encPairs(r.Metadata, "+")}, "~")
}

func encRepoD(d repoD) repoEnc {
	return repoEnc{d.ID, d.Name, d.Branches, d.RawConfig, d.URL, d.CTpl, d.FTpl, d.LTpl, "", d.Metadata}
}

func encZoektRepo(r *zoekt.Repository) repoEnc {
	e := repoEnc{ID: r.ID, Name: r.Name, Raw: r.RawConfig, URL: r.URL, C: r.CommitURLTemplate, F: r.FileURLTemplate,
		L: r.LineFragmentTemplate, IndexOptions: r.IndexOptions, Metadata: r.Metadata}
	for _, b := range r.Branches {
		e.Branches = append(e.Branches, [2]string{b.Name, b.Version})
	}
	return e
}

func b01(b bool) string {
	if b {
		return "1"
	}
	return "0"
}

func encOpts(d optsD) string {
	lf := "-"
	if len(d.LargeFiles) > 0 {
		var ps []string
		for _, s := range d.LargeFiles {
			ps = append(ps, xs(s))
		}
		lf = strings.Join(ps, ",")
	}
	lm := "-"
	if len(d.LanguageMap) > 0 {
		var ps []string
		for k, v := range d.LanguageMap {
			ps = append(ps, fmt.Sprintf("%s=%d", xs(k), v))
		}
		sort.Strings(ps)
		lm = strings.Join(ps, ",")
	}
	return strings.Join([]string{fmt.Sprint(d.SizeMax), fmt.Sprint(d.TrigramMax), b01(d.DisableCTags), xs(d.CTagsPath), xs(d.ScipPath),
		b01(d.MustSucceed), lf, lm, encRepoD(d.Repo).String()}, "|")
}

// ---------------------------------------------------------------- generators

var lfPool = []string{"*.big", "**/*.min.js", "vendor/**", "!*.small", "a b", `q"uote`, `back\slash`, "tab\tx", "nl\nx", "", "\x01ctl", " lead",
	"x]y", `["a" "b"]`, "true", "5"}
var pathPool = []string{"", "/usr/bin/ctags", "ctagstrue", "ctags", "/opt/scip-ctags", "true", "x5", `p"q`}
var keyPool = []string{"public", "fork", "archived", "name", "id", "web-url", "k"}
var valPool = []string{"1", "0", "", "v", "github", "x y"}

func genRepo(r *gen.Rand) repoD {
	d := repoD{ID: uint32(r.Range(0, 3)), Name: gen.Pick(r, []string{"repo", "github.com/a/b", "r2"})}
	n := r.Range(0, 3)
	for i := 0; i < n; i++ {
		d.Branches = append(d.Branches, [2]string{gen.Pick(r, []string{"HEAD", "main", "dev", "rel"}), gen.Pick(r, []string{"v1", "v2", "0123abc", ""})})
	}
	switch r.Intn(4) {
	case 0: // nil
	case 1:
		d.RawConfig = map[string]string{}
	default:
		d.RawConfig = map[string]string{}
		for i := r.Range(1, 3); i > 0; i-- {
			d.RawConfig[gen.Pick(r, keyPool)] = gen.Pick(r, valPool)
		}
	}
	d.URL = gen.Pick(r, []string{"", "https://github.com/a/b", "u"})
	d.CTpl = gen.Pick(r, []string{"", "{{.Version}}", "c"})
	d.FTpl = gen.Pick(r, []string{"", "{{.Path}}", "f"})
	d.LTpl = gen.Pick(r, []string{"", "#L{{.LineNumber}}", "l"})
	if r.Chance(1, 2) {
		d.Metadata = map[string]string{}
		for i := r.Range(0, 2); i > 0; i-- {
			d.Metadata[gen.Pick(r, []string{"team", "lang", "m"})] = gen.Pick(r, valPool)
		}
	}
	return d
}

func genOpts(r *gen.Rand) optsD {
	d := optsD{SizeMax: gen.Pick(r, []int{0, 1 << 20, 100, 2 << 20}), TrigramMax: gen.Pick(r, []int{0, 20000, 100}),
		DisableCTags: true, Repo: genRepo(r)}
	if r.Chance(1, 3) {
		// ctags enabled but no binary configured (SetDefaults finds none unless the machine has one)
		d.DisableCTags = false
	}
	for i := r.Range(0, 2); i > 0; i-- {
		d.LargeFiles = append(d.LargeFiles, gen.Pick(r, lfPool))
	}
	if r.Chance(1, 3) {
		d.LanguageMap = map[string]uint8{gen.Pick(r, []string{"go", "python"}): uint8(r.Range(1, 2))}
	}
	return d
}

func cloneOpts(d optsD) optsD {
	b, _ := json.Marshal(d)
	var c optsD
	json.Unmarshal(b, &c)
	if d.Repo.RawConfig != nil && c.Repo.RawConfig == nil {
		c.Repo.RawConfig = map[string]string{}
	}
	if d.Repo.Metadata != nil && c.Repo.Metadata == nil {
		c.Repo.Metadata = map[string]string{}
	}
	return c
}

var mutNames = []string{"SizeMax", "TrigramMax", "DisableCTags", "CTagsPath", "ScipCTagsPath", "CTagsMustSucceed", "LargeFiles", "LanguageMap",
	"Branches", "RawConfig", "URL", "CommitURLTemplate", "FileURLTemplate", "LineFragmentTemplate", "Metadata", "ID", "Name"}

func mutate(r *gen.Rand, d *optsD, what string) {
	switch what {
	case "SizeMax":
		d.SizeMax = gen.Pick(r, []int{1 << 20, 100, 2 << 20, 7, -1})
	case "TrigramMax":
		d.TrigramMax = gen.Pick(r, []int{20000, 100, 5})
	case "DisableCTags":
		d.DisableCTags = !d.DisableCTags
	case "CTagsPath":
		d.CTagsPath = gen.Pick(r, pathPool)
	case "ScipCTagsPath":
		d.ScipPath = gen.Pick(r, pathPool)
	case "CTagsMustSucceed":
		d.MustSucceed = !d.MustSucceed
	case "LargeFiles":
		switch r.Intn(4) {
		case 0:
			d.LargeFiles = append(d.LargeFiles, gen.Pick(r, lfPool))
		case 1:
			if len(d.LargeFiles) > 0 {
				d.LargeFiles = d.LargeFiles[1:]
			}
		case 2:
			if len(d.LargeFiles) > 1 {
				d.LargeFiles[0], d.LargeFiles[1] = d.LargeFiles[1], d.LargeFiles[0]
			}
		case 3:
			// split / join an element: ["a b"] vs ["a","b"]
			d.LargeFiles = []string{"a", "b"}
			if r.Bool() {
				d.LargeFiles = []string{"a b"}
			}
		}
	case "LanguageMap":
		if d.LanguageMap == nil {
			d.LanguageMap = map[string]uint8{}
		}
		d.LanguageMap[gen.Pick(r, []string{"go", "python", "c"})] = uint8(r.Range(1, 3))
	case "Branches":
		switch r.Intn(5) {
		case 0:
			d.Repo.Branches = append(d.Repo.Branches, [2]string{"new", "v9"})
		case 1:
			if len(d.Repo.Branches) > 0 {
				d.Repo.Branches = d.Repo.Branches[:len(d.Repo.Branches)-1]
			}
		case 2:
			if len(d.Repo.Branches) > 0 {
				d.Repo.Branches[0][1] += "x" // a new version of the same branch
			}
		case 3:
			if len(d.Repo.Branches) > 0 {
				d.Repo.Branches[0][0] += "x"
			}
		case 4:
			if len(d.Repo.Branches) > 1 {
				d.Repo.Branches[0], d.Repo.Branches[1] = d.Repo.Branches[1], d.Repo.Branches[0]
			}
		}
	case "RawConfig":
		switch r.Intn(5) {
		case 0:
			d.Repo.RawConfig = nil
		case 1:
			if d.Repo.RawConfig == nil {
				d.Repo.RawConfig = map[string]string{}
			}
			d.Repo.RawConfig[gen.Pick(r, keyPool)] = gen.Pick(r, valPool)
		case 2:
			for k := range d.Repo.RawConfig { // remove one key
				delete(d.Repo.RawConfig, k)
				break
			}
		case 3:
			if d.Repo.RawConfig == nil {
				d.Repo.RawConfig = map[string]string{}
			}
			d.Repo.RawConfig["fresh"] = "" // a new key with the empty value
		case 4:
			d.Repo.RawConfig = map[string]string{}
		}
	case "URL":
		d.Repo.URL += "/x"
	case "CommitURLTemplate":
		d.Repo.CTpl += "c"
	case "FileURLTemplate":
		d.Repo.FTpl += "f"
	case "LineFragmentTemplate":
		d.Repo.LTpl += "l"
	case "Metadata":
		switch r.Intn(3) {
		case 0:
			if d.Repo.Metadata == nil {
				d.Repo.Metadata = map[string]string{}
			}
			d.Repo.Metadata[gen.Pick(r, []string{"team", "lang", "m"})] = gen.Pick(r, []string{"new", "other"})
		case 1:
			d.Repo.Metadata = nil
		case 2:
			d.Repo.Metadata = map[string]string{"only": "this"}
		}
	case "ID":
		d.Repo.ID += 1
	case "Name":
		d.Repo.Name += "2"
	}
}

// ---------------------------------------------------------------- building and reading

var corpus = []struct{ name, content string }{
	{"main.go", "package main\n\nfunc main() {\n\tprintln(\"hello\")\n}\n\nfunc helper() int { return 1 }\n"},
	{"lib/util.py", "def util():\n    return 42\n"},
	{"README.md", "# readme\n\nsome text to index, long enough to carry a good number of distinct trigrams: abcdefghijklmnopqrstuvwxyz0123456789\n"},
	{"data.big", strings.Repeat("big file line\n", 20)},
	{"tiny", "ab"},
}

func build(o index.Options) error {
	b, err := index.NewBuilder(o)
	if err != nil {
		return err
	}
	var brs []string
	for _, br := range o.RepositoryDescription.Branches {
		brs = append(brs, br.Name)
	}
	for _, f := range corpus {
		if err := b.Add(index.Document{Name: f.name, Content: []byte(f.content), Branches: brs}); err != nil {
			b.Finish()
			return err
		}
	}
	return b.Finish()
}

func versions() string {
	return fmt.Sprintf("%d:%d:%d", index.IndexFormatVersion, index.NextIndexFormatVersion, index.FeatureVersion)
}

func shard0(dir string) string {
	fs := d1util.ShardFiles(dir)
	if len(fs) == 0 {
		return ""
	}
	return fs[0]
}

func diskOf(dir string) (string, bool) {
	fn := shard0(dir)
	if fn == "" {
		return "noshard", false
	}
	repos, md, err := index.ReadMetadataPathAlive(fn)
	if err != nil {
		return "garbage", false
	}
	var rs []string
	for _, r := range repos {
		rs = append(rs, encZoektRepo(r).String())
	}
	rl := "-"
	if len(rs) > 0 {
		rl = strings.Join(rs, ";")
	}
	return fmt.Sprintf("shard:%d:%d:%s", md.IndexFormatVersion, md.IndexFeatureVersion, rl), true
}

type env struct {
	w    *gen.Writer
	work string
	seq  int
}

func (e *env) tmp(prefix string) string {
	e.seq++
	p := filepath.Join(e.work, fmt.Sprintf("%s-%d", prefix, e.seq))
	os.RemoveAll(p)
	if err := os.MkdirAll(p, 0o755); err != nil {
		panic(err)
	}
	return p
}

type scenario struct {
	Op    string   `json:"op"` // scenario
	A     optsD    `json:"a"`
	Bs    []optsD  `json:"bs"`
	What  []string `json:"what"`
	Break string   `json:"break,omitempty"` // "", "remove", "garbage"
}

// runScenario: build with A (real builder), then for every B the real IndexState / GetHash / MergeMutable.
func (e *env) runScenario(s scenario) {
	dir := e.tmp("idx")
	defer os.RemoveAll(dir)
	oa := s.A.options(dir)
	oa.SetDefaults()
	a := effective(s.A, oa)
	if err := build(oa); err != nil {
		// e.g. CTagsMustSucceed without a binary: nothing was indexed, nothing to compare
		e.w.Emit(gen.Case{Class: "build-failed", Detail: gen.Detail(s)})
		return
	}
	switch s.Break {
	case "remove":
		os.Remove(shard0(dir))
	case "garbage":
		os.WriteFile(shard0(dir), []byte("this is not a shard"), 0o644)
	}
	disk, healthy := diskOf(dir)
	for i, bd := range s.Bs {
		ob := bd.options(dir)
		ob.SetDefaults()
		b := effective(bd, ob)
		what := "none"
		if i < len(s.What) {
			what = s.What[i]
		}
		one := scenario{Op: "scenario", A: s.A, Bs: []optsD{bd}, What: []string{what}, Break: s.Break}
		detail := gen.Detail(one)
		// GetHash
		e.w.Emit(gen.Case{In: "hash " + encOpts(b), Impl: ob.GetHash(), Class: "hash", Nontrivial: true, Detail: detail})
		// IndexState
		st, _ := ob.IndexState()
		h := "0"
		if healthy && a.Repo.Name == b.Repo.Name {
			h = "1" // the statement is evaluated when the index of this repository is present and readable
		}
		e.w.Emit(gen.Case{In: fmt.Sprintf("state %s %s %s %s %s", h, versions(), disk, encOpts(a), encOpts(b)), Impl: string(st),
			Class: "state-" + string(st), Nontrivial: st != index.IndexStateMissing, Detail: detail})
		if skip := ob.IncrementalSkipIndexing(); skip != (st == index.IndexStateEqual) {
			e.w.Emit(gen.Case{Go: "IncrementalSkipIndexing disagrees with IndexState", Key: "skip-vs-state", Class: "skip", Detail: detail})
		}
		// MergeMutable on the stored repository
		if healthy {
			repos, _, err := index.ReadMetadataPathAlive(shard0(dir))
			if err == nil && len(repos) > 0 {
				r := repos[0]
				before := encZoektRepo(r).String()
				x := ob.RepositoryDescription
				mutated, err := r.MergeMutable(&x)
				impl := ""
				if err != nil {
					impl = "err:" + strings.TrimSuffix(err.Error(), " is immutable")
				} else {
					impl = fmt.Sprintf("ok:%s:%s", b01(mutated), encZoektRepo(r).String())
				}
				xe := encRepoD(b.Repo)
				e.w.Emit(gen.Case{In: fmt.Sprintf("merge %s %s", before, xe.String()), Impl: impl, Class: "merge-" + impl[:2] + b01(mutated),
					Nontrivial: mutated, Detail: detail})
			}
		}
	}
}

func genScenario(r *gen.Rand) scenario {
	s := scenario{Op: "scenario", A: genOpts(r)}
	switch r.Intn(12) {
	case 0:
		s.Break = "remove"
	case 1:
		s.Break = "garbage"
	}
	n := r.Range(3, 8)
	for i := 0; i < n; i++ {
		b := cloneOpts(s.A)
		var what []string
		k := gen.Pick(r, []int{0, 1, 1, 1, 1, 1, 2, 3})
		for j := 0; j < k; j++ {
			w := gen.Pick(r, mutNames)
			if w == "Name" && !r.Chance(1, 4) {
				w = "URL"
			}
			mutate(r, &b, w)
			what = append(what, w)
		}
		s.Bs = append(s.Bs, b)
		s.What = append(s.What, strings.Join(what, "+"))
	}
	return s
}

// ---------------------------------------------------------------- dynamic confirmation per Options field

const fakeCtags = `#!/usr/bin/env python3
# fake universal-ctags / scip-ctags for the C38 harness: speaks the interactive JSON protocol of go-ctags.
import sys, json, re, os
flavour = os.path.basename(sys.argv[0])
if "--help" in sys.argv:
    print("fake ctags +interactive"); sys.exit(0)
out = sys.stdout
out.write(json.dumps({"_type": "program", "name": flavour, "version": "0"}) + "\n"); out.flush()
inp = sys.stdin.buffer
while True:
    line = inp.readline()
    if not line:
        break
    req = json.loads(line)
    data = inp.read(req["size"]).decode("utf-8", "replace")
    for i, l in enumerate(data.split("\n")):
        pats = [(r"^func (\w+)", "function"), (r"^def (\w+)", "function")]
        if "scip" in flavour:
            pats = [(r"^func (\w+)", "scipfunc"), (r"^(package) ", "scipkeyword")]
        if "v2" in flavour:
            pats = [(r"^(\w+)", "anyword")]
        for pat, kind in pats:
            m = re.match(pat, l)
            if m:
                out.write(json.dumps({"_type": "tag", "name": m.group(1), "path": req["filename"], "language": "Go", "line": i + 1, "kind": kind}) + "\n")
    out.write(json.dumps({"_type": "completed", "command": "generate-tags"}) + "\n"); out.flush()
`

type dynCase struct {
	Op    string `json:"op"` // dyn
	Field string `json:"field"`
}

func renderDocs(ds []d1util.Doc) []string {
	var out []string
	for _, d := range ds {
		c := "b" + hex.EncodeToString(d.Content)
		if t := d1util.SkipTag(d.Content); t != "" {
			c = "!" + t
		}
		out = append(out, fmt.Sprintf("%s:%s:syms=%s", d.Name, c, strings.Join(d.Symbols, ";")))
	}
	sort.Strings(out)
	return out
}

// fieldMutations: for every field of index.Options, how the dynamic confirmation changes it (nil = the field does not
// describe indexed content and is exercised only for IndexState's verdict).
func (e *env) fieldMutations() map[string]func(base *index.Options) {
	uni := filepath.Join(e.work, "universal-ctags")
	uni2 := filepath.Join(e.work, "universal-ctags-v2")
	scip := filepath.Join(e.work, "scip-ctags")
	scip2 := filepath.Join(e.work, "scip-ctags-v2")
	for _, p := range []string{uni, uni2, scip, scip2} {
		if err := os.WriteFile(p, []byte(fakeCtags), 0o755); err != nil {
			panic(err)
		}
	}
	return map[string]func(*index.Options){
		"SizeMax":    func(o *index.Options) { o.SizeMax = 100 },
		"TrigramMax": func(o *index.Options) { o.TrigramMax = 20 },
		"DisableCTags": func(o *index.Options) {
			o.DisableCTags = false
			o.CTagsPath = uni
		},
		"CTagsPath": func(o *index.Options) {
			if o.CTagsPath == uni {
				o.CTagsPath = uni2
			} else {
				o.DisableCTags = false
				o.CTagsPath = uni
			}
		},
		"ScipCTagsPath": func(o *index.Options) {
			if o.ScipCTagsPath == scip {
				o.ScipCTagsPath = scip2
			} else {
				o.ScipCTagsPath = scip
			}
		},
		"CTagsMustSucceed": func(o *index.Options) { o.CTagsMustSucceed = !o.CTagsMustSucceed },
		"LargeFiles":       func(o *index.Options) { o.LargeFiles = append([]string{"*.big"}, o.LargeFiles...) },
		"LanguageMap": func(o *index.Options) {
			o.LanguageMap = verifhooks.C38LanguageMap(map[string]uint8{"go": 1}) // no ctags for Go
		},
		"Parallelism":             func(o *index.Options) { o.Parallelism = 1 },
		"ShardMax":                func(o *index.Options) { o.ShardMax = 150 },
		"ShardMerging":            func(o *index.Options) { o.ShardMerging = !o.ShardMerging },
		"HeapProfileTriggerBytes": func(o *index.Options) { o.HeapProfileTriggerBytes = 1 << 40 },
		// not options of an incremental comparison: where the index lives, what it is called, the build mode, the
		// repository description (covered field by field by the state cases), data derived by the git indexer
		"IndexDir":              nil,
		"ShardPrefixOverride":   nil,
		"RepositoryDescription": nil,
		"SubRepositories":       nil,
		"IsDelta":               nil,
		"changedOrRemovedFiles": nil,
	}
}

// bases for the dynamic confirmation: the configuration in which a change of the field can show
func (e *env) dynBase(field string, dir string) index.Options {
	o := index.Options{IndexDir: dir, ShardPrefixOverride: shardPrefix, DisableCTags: true, SizeMax: 150}
	o.RepositoryDescription = zoekt.Repository{Name: "repo", Branches: []zoekt.RepositoryBranch{{Name: "main", Version: "v1"}}}
	switch field {
	case "CTagsPath", "CTagsMustSucceed":
		o.DisableCTags = false
		o.CTagsPath = filepath.Join(e.work, "universal-ctags")
	case "ScipCTagsPath":
		o.DisableCTags = false
		o.CTagsPath = filepath.Join(e.work, "universal-ctags")
		o.ScipCTagsPath = filepath.Join(e.work, "scip-ctags")
		o.LanguageMap = verifhooks.C38LanguageMap(map[string]uint8{"go": 3}) // Go files go to scip-ctags
	case "LanguageMap":
		o.DisableCTags = false
		o.CTagsPath = filepath.Join(e.work, "universal-ctags")
	}
	return o
}

func (e *env) runDyn(c dynCase, muts map[string]func(*index.Options)) {
	mut, known := muts[c.Field]
	detail := gen.Detail(c)
	if !known {
		e.w.Emit(gen.Case{Go: "index.Options has a field the check does not classify: " + c.Field, Key: "unclassified-option-field:" + c.Field,
			Class: "dyn-unclassified", Detail: detail})
		return
	}
	if mut == nil {
		e.w.Emit(gen.Case{Class: "dyn-not-an-option-of-content", Detail: detail})
		return
	}
	dirA, dirB := e.tmp("dynA"), e.tmp("dynB")
	defer os.RemoveAll(dirA)
	defer os.RemoveAll(dirB)
	oa := e.dynBase(c.Field, dirA)
	ob := e.dynBase(c.Field, dirB)
	mut(&ob)
	oa.SetDefaults()
	ob.SetDefaults()
	if err := build(oa); err != nil {
		panic(fmt.Sprintf("dyn %s: base build failed: %v", c.Field, err))
	}
	errB := build(ob)
	da, err := d1util.ReadDocsWithSymbols(dirA)
	if err != nil {
		panic(err)
	}
	var db []d1util.Doc
	if errB == nil {
		if db, err = d1util.ReadDocsWithSymbols(dirB); err != nil {
			panic(err)
		}
	}
	ra, rb := renderDocs(da), renderDocs(db)
	differs := errB != nil || strings.Join(ra, "\n") != strings.Join(rb, "\n")
	// what does incremental indexing decide when asked for the changed options on the index built with the base?
	ob.IndexDir = dirA
	st, _ := ob.IndexState()
	goV, key := "", ""
	if differs && (st == index.IndexStateEqual || st == index.IndexStateMeta) {
		goV = fmt.Sprintf("changing only Options.%s changes the indexed content (%s), yet IndexState is %q: the repository would be skipped",
			c.Field, firstDiff(ra, rb), st)
		key = "unhashed:" + c.Field
	}
	cls := fmt.Sprintf("dyn-%s-differs=%v-state=%s", c.Field, differs, st)
	e.w.Emit(gen.Case{Go: goV, Key: key, Class: cls, Nontrivial: differs, Detail: detail})
}

func firstDiff(a, b []string) string {
	m := map[string]bool{}
	for _, x := range b {
		m[x] = true
	}
	for _, x := range a {
		if !m[x] {
			if len(x) > 160 {
				x = x[:160] + "…"
			}
			return "e.g. " + x
		}
	}
	return "document sets differ"
}

func optionFieldNames() []string {
	t := reflect.TypeOf(index.Options{})
	var out []string
	for i := 0; i < t.NumField(); i++ {
		out = append(out, t.Field(i).Name)
	}
	return out
}

// ---------------------------------------------------------------- end to end: one incremental step

type stepCase struct {
	Op   string `json:"op"` // step
	A    optsD  `json:"a"`
	B    optsD  `json:"b"`
	What string `json:"what"`
}

// runStep: index with A; ask for B the way an incremental indexer does (skip on equal, merge metadata on meta,
// re-index otherwise); then the index must describe B: branches, and the metadata B carries.
func (e *env) runStep(c stepCase) {
	dir := e.tmp("step")
	defer os.RemoveAll(dir)
	detail := gen.Detail(c)
	oa := c.A.options(dir)
	oa.SetDefaults()
	if err := build(oa); err != nil {
		e.w.Emit(gen.Case{Class: "step-build-failed", Detail: detail})
		return
	}
	ob := c.B.options(dir)
	ob.SetDefaults()
	st, _ := ob.IndexState()
	var final *zoekt.Repository
	switch st {
	case index.IndexStateEqual:
		repos, _, err := index.ReadMetadataPathAlive(shard0(dir))
		if err != nil || len(repos) == 0 {
			panic("unreadable after equal")
		}
		final = repos[0]
	case index.IndexStateMeta:
		repos, _, err := index.ReadMetadataPathAlive(shard0(dir))
		if err != nil || len(repos) == 0 {
			panic("unreadable after meta")
		}
		final = repos[0]
		x := ob.RepositoryDescription
		if _, err := final.MergeMutable(&x); err != nil { // what mergeMeta writes to the .meta file
			panic(err)
		}
	default:
		if err := build(ob); err != nil {
			e.w.Emit(gen.Case{Class: "step-rebuild-failed", Detail: detail})
			return
		}
		repos, _, err := index.ReadMetadataPathAlive(shard0(dir))
		if err != nil || len(repos) == 0 {
			panic("unreadable after rebuild")
		}
		final = repos[0]
	}
	want := ob.RepositoryDescription
	goV, key := "", ""
	get := func(m map[string]string, k string) string { return m[k] }
	switch {
	case !reflect.DeepEqual(final.Branches, want.Branches):
		goV, key = "after the incremental step the index has other branches than requested", "step-branches"
	case final.URL != want.URL || final.CommitURLTemplate != want.CommitURLTemplate || final.FileURLTemplate != want.FileURLTemplate ||
		final.LineFragmentTemplate != want.LineFragmentTemplate:
		goV, key = "URL/templates not applied", "meta-not-applied:URL"
	default:
		for k, v := range want.RawConfig {
			if k != "name" && k != "id" && get(final.RawConfig, k) != v {
				goV, key = "RawConfig key "+k+" not applied", "meta-not-applied:RawConfig"
			}
		}
		if goV == "" {
			for k, v := range final.RawConfig {
				if _, ok := want.RawConfig[k]; !ok && k != "name" && k != "id" && v != "" {
					goV, key = fmt.Sprintf("RawConfig key %q was removed from the description but stays in the index (state %s)", k, st), "meta-not-applied:RawConfig-removed-key"
				}
			}
		}
		if goV == "" {
			keys := map[string]bool{}
			for k := range want.Metadata {
				keys[k] = true
			}
			for k := range final.Metadata {
				keys[k] = true
			}
			for k := range keys {
				if get(final.Metadata, k) != get(want.Metadata, k) {
					goV, key = fmt.Sprintf("Repository.Metadata[%q] = %q requested, index keeps %q (state %s)", k, want.Metadata[k], final.Metadata[k], st), "meta-not-applied:Metadata"
				}
			}
		}
	}
	e.w.Emit(gen.Case{Go: goV, Key: key, Class: "step-" + string(st), Nontrivial: st != index.IndexStateEqual, Detail: detail})
}


// ---------------------------------------------------------------- end to end through gitindex (real git repository)

type gitCase struct {
	Op     string `json:"op"`     // git
	Change string `json:"change"` // none | commit | branch | sizemax | largefiles | trigrammax | config-add | config-change | config-remove
}

var gitChanges = []string{"none", "commit", "branch", "sizemax", "largefiles", "trigrammax", "config-add", "config-change", "config-remove"}

func git(dir string, args ...string) {
	cmd := exec.Command("git", args...)
	cmd.Dir = dir
	cmd.Env = append(os.Environ(), "GIT_CONFIG_NOSYSTEM=1", "HOME="+dir, "GIT_AUTHOR_DATE=2024-01-01T00:00:00Z", "GIT_COMMITTER_DATE=2024-01-01T00:00:00Z")
	if out, err := cmd.CombinedOutput(); err != nil {
		panic(fmt.Sprintf("git %v: %v: %s", args, err, out))
	}
}

func gitCommitAll(dir, msg string) {
	git(dir, "add", "-A")
	git(dir, "-c", "user.name=verif", "-c", "user.email=verif@example.com", "commit", "-q", "-m", msg)
}

type indexView struct {
	Docs     []string
	Branches []zoekt.RepositoryBranch
	Raw      map[string]string
}

func viewOf(dir string) indexView {
	ds, err := d1util.ReadDocs(dir)
	if err != nil {
		panic(err)
	}
	repos, _, err := index.ReadMetadataPathAlive(shard0(dir))
	if err != nil || len(repos) == 0 {
		panic(fmt.Sprintf("unreadable index in %s: %v", dir, err))
	}
	return indexView{Docs: renderDocs(ds), Branches: repos[0].Branches, Raw: repos[0].RawConfig}
}

// runGit: index a real git repository, change one thing, run the incremental indexer (gitindex.IndexGitRepo with
// Incremental) and compare the resulting index with a from-scratch index of the same request.
func (e *env) runGit(c gitCase) {
	repo, idx, fresh := e.tmp("gitrepo"), e.tmp("gitidx"), e.tmp("gitfresh")
	defer os.RemoveAll(repo)
	defer os.RemoveAll(idx)
	defer os.RemoveAll(fresh)
	detail := gen.Detail(c)
	git(repo, "init", "-q", "-b", "main")
	for _, f := range corpus {
		p := filepath.Join(repo, f.name)
		os.MkdirAll(filepath.Dir(p), 0o755)
		if err := os.WriteFile(p, []byte(f.content), 0o644); err != nil {
			panic(err)
		}
	}
	gitCommitAll(repo, "one")
	git(repo, "config", "zoekt.name", "gitrepo") // without a name or an origin remote gitindex does not read the zoekt section
	git(repo, "config", "zoekt.public", "1")
	if c.Change == "config-remove" || c.Change == "config-change" {
		git(repo, "config", "zoekt.archived", "1")
	}
	mk := func(indexDir string, incremental bool) gitindex.Options {
		o := gitindex.Options{RepoDir: filepath.Join(repo, ".git"), Incremental: incremental, Branches: []string{"HEAD"}}
		o.BuildOptions = index.Options{IndexDir: indexDir, DisableCTags: true, SizeMax: 150}
		o.BuildOptions.RepositoryDescription.Name = "gitrepo"
		return o
	}
	o1 := mk(idx, true)
	if updated, err := gitindex.IndexGitRepo(o1); err != nil || !updated {
		panic(fmt.Sprintf("first IndexGitRepo: updated=%v err=%v", updated, err))
	}
	o2 := mk(idx, true)
	contentChange, metaChange := false, false
	switch c.Change {
	case "none":
	case "commit":
		os.WriteFile(filepath.Join(repo, "new.txt"), []byte("a new file in a new commit\n"), 0o644)
		gitCommitAll(repo, "two")
		contentChange = true
	case "branch":
		o2.Branches = []string{"HEAD", "main"}
		contentChange = true
	case "sizemax":
		o2.BuildOptions.SizeMax = 100
		contentChange = true
	case "largefiles":
		o2.BuildOptions.LargeFiles = []string{"*.big"}
		contentChange = true
	case "trigrammax":
		o2.BuildOptions.TrigramMax = 20
		contentChange = true
	case "config-add":
		git(repo, "config", "zoekt.fork", "1")
		metaChange = true
	case "config-change":
		git(repo, "config", "zoekt.archived", "0")
		metaChange = true
	case "config-remove":
		git(repo, "config", "--unset", "zoekt.archived")
		metaChange = true
	}
	updated, err := gitindex.IndexGitRepo(o2)
	if err != nil {
		panic(fmt.Sprintf("incremental IndexGitRepo: %v", err))
	}
	o3 := o2
	o3.Incremental = false
	o3.BuildOptions.IndexDir = fresh
	if _, err := gitindex.IndexGitRepo(o3); err != nil {
		panic(fmt.Sprintf("fresh IndexGitRepo: %v", err))
	}
	got, want := viewOf(idx), viewOf(fresh)
	goV, key := "", ""
	switch {
	case strings.Join(got.Docs, "\n") != strings.Join(want.Docs, "\n") || !reflect.DeepEqual(got.Branches, want.Branches):
		goV = fmt.Sprintf("after the incremental run (updated=%v) the index differs from a from-scratch index of the same request (%s)", updated, firstDiff(want.Docs, got.Docs))
		key = "git-incremental-differs:" + c.Change
		if c.Change == "trigrammax" {
			key = "unhashed:TrigramMax"
		}
	case !reflect.DeepEqual(got.Raw, want.Raw):
		goV = fmt.Sprintf("after the incremental run (updated=%v) the repository metadata differs from a from-scratch index: have %v want %v", updated, got.Raw, want.Raw)
		key = "git-meta-differs:" + c.Change
		if c.Change == "config-remove" {
			key = "meta-not-applied:RawConfig-removed-key"
		}
	case !contentChange && !metaChange && updated:
		goV, key = "nothing changed, yet the incremental indexer re-indexed", "git-needless-reindex"
	}
	e.w.Emit(gen.Case{Go: goV, Key: key, Class: fmt.Sprintf("git-%s-updated=%v", c.Change, updated), Nontrivial: c.Change != "none", Detail: detail})
}


// ---------------------------------------------------------------- the repository's own test shards (other format / feature versions)

type tdCase struct {
	Op    string `json:"op"` // testdata
	Shard string `json:"shard"`
	B     optsD  `json:"b"`
}

// runTestdata: IndexState against a copy of one of /repo/testdata/shards (format versions 16 and 17, older feature
// versions, stored RawConfig with repoid): model agreement only — the options these shards were built with are unknown.
func (e *env) runTestdata(c tdCase) {
	src := filepath.Join(os.Getenv("VERIF_REPO"), "testdata", "shards", c.Shard)
	b, err := os.ReadFile(src)
	if err != nil {
		e.w.Emit(gen.Case{Class: "testdata-missing", Detail: gen.Detail(c)})
		return
	}
	dir := e.tmp("td")
	defer os.RemoveAll(dir)
	if err := os.WriteFile(filepath.Join(dir, c.Shard), b, 0o644); err != nil {
		panic(err)
	}
	ob := c.B.options(dir)
	ob.ShardPrefixOverride = "" // the shard is found by the repository name
	ob.SetDefaults()
	bd := effective(c.B, ob)
	disk, _ := diskOf(dir)
	if _, err := os.Stat(filepath.Join(dir, fmt.Sprintf("%s_v%d.00000.zoekt", bd.Repo.Name, index.IndexFormatVersion))); err != nil {
		if _, err := os.Stat(filepath.Join(dir, fmt.Sprintf("%s_v%d.00000.zoekt", bd.Repo.Name, index.NextIndexFormatVersion))); err != nil {
			disk = "noshard" // findShard looks for <name>_v16 / <name>_v17 only
		}
	}
	st, _ := ob.IndexState()
	e.w.Emit(gen.Case{In: fmt.Sprintf("state 0 %s %s %s %s", versions(), disk, encOpts(bd), encOpts(bd)), Impl: string(st),
		Class: "testdata-" + string(st), Nontrivial: st != index.IndexStateMissing, Detail: gen.Detail(c)})
}

// ---------------------------------------------------------------- main

func (e *env) runDetail(raw json.RawMessage, muts map[string]func(*index.Options)) {
	var probe struct {
		Op string `json:"op"`
	}
	if err := json.Unmarshal(raw, &probe); err != nil {
		panic(err)
	}
	switch probe.Op {
	case "scenario":
		var s scenario
		if err := json.Unmarshal(raw, &s); err != nil {
			panic(err)
		}
		e.runScenario(s)
	case "dyn":
		var c dynCase
		json.Unmarshal(raw, &c)
		e.runDyn(c, muts)
	case "step":
		var c stepCase
		json.Unmarshal(raw, &c)
		e.runStep(c)
	case "git":
		var c gitCase
		json.Unmarshal(raw, &c)
		e.runGit(c)
	case "testdata":
		var c tdCase
		json.Unmarshal(raw, &c)
		e.runTestdata(c)
	default:
		panic("unknown op in replay/corpus: " + probe.Op)
	}
}

func detailOf(path string) json.RawMessage {
	b, err := os.ReadFile(path)
	if err != nil {
		panic(err)
	}
	var rf struct {
		Case struct {
			Detail json.RawMessage `json:"detail"`
		} `json:"case"`
	}
	if json.Unmarshal(b, &rf) == nil && len(rf.Case.Detail) > 0 {
		return rf.Case.Detail
	}
	return b
}

func main() {
	f := gen.ParseFlags()
	log.SetOutput(io.Discard)
	w := gen.NewWriter(f.Out)
	defer w.Close()
	work := os.Getenv("VERIF_WORK")
	if work == "" {
		work = os.TempDir()
	}
	work = filepath.Join(work, "c38tmp")
	os.RemoveAll(work)
	if err := os.MkdirAll(work, 0o755); err != nil {
		panic(err)
	}
	defer os.RemoveAll(work)
	e := &env{w: w, work: work}
	muts := e.fieldMutations()

	if f.Replay != "" {
		e.runDetail(detailOf(f.Replay), muts)
		return
	}
	if f.Corpus != "" {
		files, _ := filepath.Glob(filepath.Join(f.Corpus, "*.json"))
		sort.Strings(files)
		for _, p := range files {
			e.runDetail(detailOf(p), muts)
		}
	}
	t0 := time.Now()
	phase := func(name string) { fmt.Fprintf(os.Stderr, "phase %s done at %.1fs\n", name, time.Since(t0).Seconds()) }
	defer phase("all")
	// dynamic confirmation: every field of index.Options, as the current source declares them
	for _, name := range optionFieldNames() {
		e.runDyn(dynCase{Op: "dyn", Field: name}, muts)
	}
	phase("dyn")
	// end to end through gitindex on a real git repository: every kind of change once
	for _, ch := range gitChanges {
		e.runGit(gitCase{Op: "git", Change: ch})
	}
	phase("git")
	r := gen.NewRand(f.Seed)
	// the repository's own test shards: format 16 and 17, older feature versions
	if shards, _ := filepath.Glob(filepath.Join(os.Getenv("VERIF_REPO"), "testdata", "shards", "*.zoekt")); len(shards) > 0 {
		for i := 0; i < f.N(40, 400); i++ {
			sh := filepath.Base(gen.Pick(r, shards))
			b := genOpts(r)
			b.Repo.Name = sh[:strings.Index(sh, "_v")]
			if r.Chance(1, 2) {
				b.SizeMax, b.DisableCTags, b.LargeFiles = 2097152, true, nil // the options the repository's tests expect to match
				b.Repo = repoD{Name: b.Repo.Name}
			}
			if r.Chance(1, 8) {
				b.Repo.Name += "x"
			}
			e.runTestdata(tdCase{Op: "testdata", Shard: sh, B: b})
		}
	}
	phase("testdata")
	for i := 0; i < f.N(15, 200); i++ {
		e.runScenario(genScenario(r))
	}
	phase("scenarios")
	for i := 0; i < f.N(20, 250); i++ {
		a := genOpts(r)
		b := cloneOpts(a)
		what := gen.Pick(r, []string{"Branches", "RawConfig", "URL", "CommitURLTemplate", "FileURLTemplate", "LineFragmentTemplate", "Metadata",
			"SizeMax", "LargeFiles", "none"})
		mutate(r, &b, what)
		if r.Chance(1, 4) {
			w2 := gen.Pick(r, []string{"RawConfig", "Metadata", "URL", "Branches"})
			mutate(r, &b, w2)
			what += "+" + w2
		}
		e.runStep(stepCase{Op: "step", A: a, B: b, What: what})
	}
}
