package main

import (
	"fmt"
	"strings"

	"github.com/sourcegraph/zoekt/web"

	"verifharness/gen"
)

// Values at the size boundaries of the template functions: the results template shows at most excerptLimit bytes before
// and after a match (LimitPre / LimitPost cut at a byte offset), so the interesting values are those whose length is
// around the limit and whose bytes around the cut are multi-byte characters, lone continuation bytes (Latin-1 text),
// truncated or invalid sequences — at every phase relative to the cut.
const excerptLimit = 100

func boundaryValues() []string {
	var out []string
	fill := func(n int, unit string) string {
		var sb strings.Builder
		for sb.Len() < n {
			sb.WriteString(unit)
		}
		return sb.String()[:n]
	}
	lengths := []int{excerptLimit - 2, excerptLimit - 1, excerptLimit, excerptLimit + 1, excerptLimit + 2, excerptLimit + 3, excerptLimit + 4, excerptLimit + 7, 2 * excerptLimit, 2*excerptLimit + 1}
	for _, L := range lengths {
		j := L - excerptLimit // offset of the LimitPre cut (may be negative: no cut)
		out = append(out, fill(L, "x"))
		// Latin-1 / continuation bytes: at the very beginning up to the cut, everywhere, and from the LimitPost cut to the end
		for _, h := range []int{1, j, j + 1, j + 2, L} {
			if h >= 1 && h <= L {
				out = append(out, fill(h, "\xa7")+fill(L-h, "x"))
				out = append(out, fill(L-h, "x")+fill(h, "\xa9"))
			}
		}
		// multi-byte characters at every phase relative to both cuts
		for _, unit := range []string{"é", "日", "😀"} {
			for phase := 0; phase < len(unit); phase++ {
				out = append(out, fill(phase, "x")+fill(L-phase, unit))
			}
		}
		// a lead byte without its continuation right at the cuts, an over-long / surrogate sequence across them
		for _, bad := range []string{"\xe2", "\xf0\x9f", "\xc0\x80", "\xed\xa0\x80", "\xff"} {
			if j >= 0 && j+len(bad) <= L {
				out = append(out, fill(j, "x")+bad+fill(L-j-len(bad), "x"))
			}
			if excerptLimit-1+len(bad) <= L {
				out = append(out, fill(excerptLimit-1, "x")+bad+fill(L-excerptLimit+1-len(bad), "x"))
			}
		}
		// markup that the cut could split or leave unbalanced
		out = append(out, fill(L, "<b>&amp;\"'"))
		out = append(out, fill(L-1, "a")+"\n", fill(L, "ab\n"))
	}
	return out
}

func callFn(name string, f func() string) (impl string) {
	defer func() {
		if r := recover(); r != nil {
			impl = "panic"
		}
	}()
	return gen.Hex([]byte(f()))
}

// runFuncmap: the template functions of web.Funcmap called directly on a value, against the Lean model of each.
func runFuncmap(w *gen.Writer, val string, class string) {
	h := gen.Hex([]byte(val))
	nontrivial := len(val) >= excerptLimit
	detail := gen.Detail(map[string]any{"op": "funcmap", "payload": []byte(val)})
	limitPre, ok1 := web.Funcmap["LimitPre"].(func(int, string) string)
	limitPost, ok2 := web.Funcmap["LimitPost"].(func(int, string) string)
	trim, ok3 := web.Funcmap["TrimTrailingNewline"].(func(string) string)
	if !ok1 || !ok2 || !ok3 {
		panic("web.Funcmap: LimitPre / LimitPost / TrimTrailingNewline changed their signatures")
	}
	for _, limit := range []int{excerptLimit, 3} {
		w.Emit(gen.Case{In: fmt.Sprintf("fn limitpre %d %s", limit, h), Impl: callFn("LimitPre", func() string { return limitPre(limit, val) }), Class: class + ":LimitPre", Nontrivial: nontrivial, Detail: detail})
		w.Emit(gen.Case{In: fmt.Sprintf("fn limitpost %d %s", limit, h), Impl: callFn("LimitPost", func() string { return limitPost(limit, val) }), Class: class + ":LimitPost", Nontrivial: nontrivial, Detail: detail})
	}
	w.Emit(gen.Case{In: "fn trimnl " + h, Impl: callFn("TrimTrailingNewline", func() string { return trim(val) }), Class: class + ":TrimTrailingNewline", Nontrivial: strings.HasSuffix(val, "\n"), Detail: detail})
	for _, before := range []bool{true, false} {
		b := "0"
		if before {
			b = "1"
		}
		impl := "panic"
		func() {
			defer func() { recover() }()
			ls := web.AddLineNumbers(val, 7, before)
			var parts []string
			for _, l := range ls {
				parts = append(parts, fmt.Sprintf("%d:%s", l.LineNum, gen.Hex([]byte(l.Content))))
			}
			impl = "-"
			if len(parts) > 0 {
				impl = strings.Join(parts, ",")
			}
		}()
		w.Emit(gen.Case{In: fmt.Sprintf("fn addln 7 %s %s", b, h), Impl: impl, Class: class + ":AddLineNumbers", Nontrivial: strings.Contains(val, "\n"), Detail: detail})
	}
}

// randomBoundaryValue: a random mix of ASCII, multi-byte characters and stray bytes with a length near the limit
func randomBoundaryValue(r *gen.Rand) string {
	target := excerptLimit + r.Range(-3, 8)
	if r.Chance(1, 5) {
		target = 2*excerptLimit + r.Range(-2, 2)
	}
	units := []string{"x", "é", "日", "😀", "\xa7", "\xe2", "\xe2\x82", "\xf0\x9f\x98", "\xff", "\n", "<", "&"}
	var sb strings.Builder
	for sb.Len() < target {
		u := gen.Pick(r, units)
		for k, n := 0, r.Range(1, 6); k < n && sb.Len() < target; k++ {
			sb.WriteString(u)
		}
	}
	return sb.String()[:target]
}
