package main

import (
	"bytes"
	"fmt"
	"strings"

	"github.com/sourcegraph/zoekt"
	"github.com/sourcegraph/zoekt/web"

	"verifharness/gen"
)

// formatResults (web/snippets.go) called directly through the hook: the slice expressions that cut a line into
// Pre / Match / Post pieces, and the sub-repository path cut. The model predicts panic / pieces; the Go oracle checks that
// the pieces of a well-formed line match reassemble the line byte for byte.

type fmtSpec struct {
	N       int      `json:"n"`
	Frags   [][2]int `json:"frags"`
	NameLen int      `json:"name_len"`
	SubLen  int      `json:"sub_len"`
}

func runFormat(w *gen.Writer, fs fmtSpec, class string) {
	line := make([]byte, fs.N) // capacity = length: a slice expression beyond the length panics
	for i := range line {
		line[i] = byte('!' + i%90)
	}
	name := strings.Repeat("n", fs.NameLen)
	sub := strings.Repeat("n", fs.SubLen)
	lm := zoekt.LineMatch{Line: line, LineNumber: 1}
	var fl []string
	for _, f := range fs.Frags {
		lm.LineFragments = append(lm.LineFragments, zoekt.LineFragmentMatch{LineOffset: f[0], MatchLength: f[1]})
		fl = append(fl, fmt.Sprintf("%d:%d", f[0], f[1]))
	}
	res := &zoekt.SearchResult{Files: []zoekt.FileMatch{{FileName: name, Repository: "r", SubRepositoryName: "s", SubRepositoryPath: sub, LineMatches: []zoekt.LineMatch{lm}}}}
	srv := &web.Server{Searcher: &fakeSearcher{}, Top: web.Top, HTML: true}
	if _, err := web.NewMux(srv); err != nil {
		panic(err)
	}
	impl, goVerdict, key := "", "ok", ""
	func() {
		defer func() {
			if r := recover(); r != nil {
				impl = "panic"
			}
		}()
		fms, err := srv.VerifFormatResults(res, "q", true)
		if err != nil || len(fms) != 1 || len(fms[0].Matches) != 1 {
			impl = "panic"
			goVerdict, key = fmt.Sprintf("formatResults returned err=%v files=%d", err, len(fms)), "format-results-error"
			return
		}
		var parts []string
		var re bytes.Buffer
		for _, fr := range fms[0].Matches[0].Fragments {
			parts = append(parts, fmt.Sprintf("%d:%d:%d", len(fr.Pre), len(fr.Match), len(fr.Post)))
			re.WriteString(fr.Pre + fr.Match + fr.Post)
		}
		impl = "ok -"
		if len(parts) > 0 {
			impl = "ok " + strings.Join(parts, ";")
		}
		// independent of the model: for sorted, disjoint, in-range fragments the pieces are the line
		if wellFormed(fs) && len(fs.Frags) > 0 && !bytes.Equal(re.Bytes(), line) {
			goVerdict, key = fmt.Sprintf("pieces %q do not reassemble the line %q", re.String(), line), "snippet-pieces-do-not-tile-the-line"
		}
	}()
	if impl == "panic" && wellFormed(fs) && fs.SubLen <= fs.NameLen && goVerdict == "ok" {
		goVerdict, key = "formatResults panics on a well-formed search result", "format-panics-on-well-formed-result"
	}
	frs := "-"
	if len(fl) > 0 {
		frs = strings.Join(fl, ",")
	}
	w.Emit(gen.Case{In: fmt.Sprintf("fmt %d %s %d %d", fs.N, frs, fs.NameLen, fs.SubLen), Impl: impl, Go: goVerdict, Key: key,
		Class: class, Nontrivial: len(fs.Frags) >= 2, Detail: gen.Detail(map[string]any{"op": "format", "format": fs})})
}

func wellFormed(fs fmtSpec) bool {
	last := 0
	for _, f := range fs.Frags {
		if f[0] < last || f[1] < 0 || f[0]+f[1] > fs.N {
			return false
		}
		last = f[0] + f[1]
	}
	return true
}

func genFormat(r *gen.Rand) (fmtSpec, string) {
	fs := fmtSpec{N: r.Range(0, 40)}
	fs.NameLen = r.Range(0, 8)
	fs.SubLen = r.Range(0, fs.NameLen)
	class := "format-wellformed"
	pos := 0
	for i, k := 0, r.Range(0, 5); i < k; i++ {
		if pos > fs.N {
			break
		}
		off := pos + r.Intn(max(1, (fs.N-pos)/2+1))
		ln := r.Intn(max(1, (fs.N-off)/2+1))
		if off+ln > fs.N {
			break
		}
		fs.Frags = append(fs.Frags, [2]int{off, ln})
		pos = off + ln
	}
	if r.Chance(1, 4) { // malformed: what a corrupted result could look like
		class = "format-malformed"
		switch r.Intn(6) {
		case 0:
			fs.SubLen = fs.NameLen + r.Range(1, 3)
		case 1:
			fs.Frags = append(fs.Frags, [2]int{fs.N + r.Range(0, 2), r.Range(0, 3)})
		case 2:
			fs.Frags = append(fs.Frags, [2]int{r.Range(0, fs.N), -r.Range(1, 3)})
		case 3:
			fs.Frags = append([][2]int{{-r.Range(1, 3), r.Range(0, 3)}}, fs.Frags...)
		case 4:
			if len(fs.Frags) >= 2 {
				fs.Frags[0], fs.Frags[len(fs.Frags)-1] = fs.Frags[len(fs.Frags)-1], fs.Frags[0]
			} else {
				fs.Frags = append(fs.Frags, [2]int{0, fs.N + 1})
			}
		default:
			fs.Frags = append(fs.Frags, [2]int{r.Range(0, fs.N), fs.N})
		}
		if wellFormed(fs) && fs.SubLen <= fs.NameLen {
			class = "format-wellformed"
		}
	}
	return fs, class
}
