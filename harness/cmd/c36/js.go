package main

import "strings"

// jsSkeleton reduces a script (or an event-handler attribute value) to its token structure with the contents of string
// literals removed: if a value substituted into a string literal can end the literal, the skeleton changes.
// Deliberately small: zoekt's inline scripts use identifiers, punctuation, numbers, comments and quoted strings.
func jsSkeleton(src string) string {
	var sb strings.Builder
	i := 0
	for i < len(src) {
		c := src[i]
		switch {
		case c == ' ' || c == '\t' || c == '\n' || c == '\r':
			i++
		case c == '/' && i+1 < len(src) && src[i+1] == '/':
			for i < len(src) && src[i] != '\n' {
				i++
			}
		case c == '/' && i+1 < len(src) && src[i+1] == '*':
			j := strings.Index(src[i+2:], "*/")
			if j < 0 {
				sb.WriteString("«unterminated-comment»")
				return sb.String()
			}
			i += j + 4
		case c == '"' || c == '\'' || c == '`':
			q := c
			j := i + 1
			closed := false
			for j < len(src) {
				if src[j] == '\\' {
					j += 2
					continue
				}
				if src[j] == q {
					closed = true
					break
				}
				if (src[j] == '\n' || src[j] == '\r') && q != '`' {
					break
				}
				j++
			}
			if !closed {
				sb.WriteString("«unterminated-string»")
				return sb.String()
			}
			sb.WriteString("«str»")
			i = j + 1
		case c >= '0' && c <= '9':
			for i < len(src) && (src[i] >= '0' && src[i] <= '9' || src[i] == '.') {
				i++
			}
			sb.WriteString("«num»")
		default:
			sb.WriteByte(c)
			i++
		}
	}
	return sb.String()
}
