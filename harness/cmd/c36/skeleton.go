package main

import (
	"fmt"
	"net/url"
	"sort"
	"strings"

	"golang.org/x/net/html"
)

// skeleton parses a page the way a browser does (golang.org/x/net/html implements the HTML5 tree builder) and returns
// its structure: elements with their attribute names in document order, comments, the token structure of scripts and
// event handlers. Text and attribute *values* are not part of the skeleton — they are where values are supposed to go.
// urlProblems lists link targets with a scheme other than http / https / mailto.
func skeleton(page []byte) (skel string, urlProblems []string, err error) {
	doc, err := html.Parse(strings.NewReader(string(page)))
	if err != nil {
		return "", nil, err
	}
	var sb strings.Builder
	var walk func(n *html.Node, depth int)
	walk = func(n *html.Node, depth int) {
		switch n.Type {
		case html.ElementNode:
			keys := make([]string, 0, len(n.Attr))
			for _, a := range n.Attr {
				k := a.Key
				lk := strings.ToLower(k)
				if strings.HasPrefix(lk, "on") {
					k += "=" + jsSkeleton(a.Val)
				}
				if lk == "href" || lk == "src" || lk == "action" || lk == "formaction" {
					if p := dangerousURL(a.Val); p != "" {
						urlProblems = append(urlProblems, fmt.Sprintf("<%s %s=%q>: %s", n.Data, a.Key, clipStr(a.Val, 80), p))
					}
				}
				if lk == "id" || lk == "type" || lk == "rel" || lk == "class" {
					// template-controlled attributes: no value is ever substituted into them except id="l<N>"
					if !(lk == "id" && strings.HasPrefix(a.Val, "l")) {
						k += "=" + a.Val
					}
				}
				keys = append(keys, k)
			}
			sort.Strings(keys)
			fmt.Fprintf(&sb, "%d<%s %s>", depth, n.Data, strings.Join(keys, " "))
			if n.Data == "script" || n.Data == "style" {
				var txt strings.Builder
				for c := n.FirstChild; c != nil; c = c.NextSibling {
					if c.Type == html.TextNode {
						txt.WriteString(c.Data)
					}
				}
				if n.Data == "script" {
					sb.WriteString("{" + jsSkeleton(txt.String()) + "}")
				} else {
					sb.WriteString("{" + txt.String() + "}")
				}
			}
			sb.WriteByte('\n')
		case html.CommentNode:
			fmt.Fprintf(&sb, "%d<!-->\n", depth)
		case html.DoctypeNode:
			fmt.Fprintf(&sb, "%d<!doctype>\n", depth)
		}
		for c := n.FirstChild; c != nil; c = c.NextSibling {
			walk(c, depth+1)
		}
	}
	walk(doc, 0)
	return sb.String(), urlProblems, nil
}

// dangerousURL: what a browser would do with the attribute value (already entity-decoded by the parser): strip leading
// and trailing C0 control or space, remove tab and newlines, then look for a scheme.
func dangerousURL(v string) string {
	v = strings.TrimFunc(v, func(r rune) bool { return r <= 0x20 })
	v = strings.NewReplacer("\t", "", "\n", "", "\r", "").Replace(v)
	i := strings.IndexByte(v, ':')
	if i <= 0 {
		return ""
	}
	scheme := v[:i]
	for j := 0; j < len(scheme); j++ {
		c := scheme[j]
		alpha := c >= 'a' && c <= 'z' || c >= 'A' && c <= 'Z'
		if !(alpha || j > 0 && (c >= '0' && c <= '9' || c == '+' || c == '-' || c == '.')) {
			return "" // not a scheme: relative reference
		}
	}
	switch strings.ToLower(scheme) {
	case "http", "https", "mailto":
		return ""
	}
	if u, err := url.Parse(v); err == nil && u.Scheme == "" {
		return ""
	}
	return "scheme " + scheme
}

func clipStr(s string, n int) string {
	if len(s) > n {
		return s[:n] + "…"
	}
	return s
}

// domStrings returns what the browser shows as text: the data of every text node outside <script>/<style>, and the values
// of the attributes that hold plain text (not URLs, not event handlers).
func domStrings(page []byte) ([]string, error) {
	doc, err := html.Parse(strings.NewReader(string(page)))
	if err != nil {
		return nil, err
	}
	var out []string
	var walk func(n *html.Node, inScript bool)
	walk = func(n *html.Node, inScript bool) {
		switch n.Type {
		case html.TextNode:
			if !inScript {
				out = append(out, n.Data)
			}
		case html.ElementNode:
			for _, a := range n.Attr {
				lk := strings.ToLower(a.Key)
				if strings.HasPrefix(lk, "on") || lk == "href" || lk == "src" || lk == "action" || lk == "style" {
					continue
				}
				out = append(out, a.Val)
			}
			if n.Data == "script" || n.Data == "style" {
				inScript = true
			}
		}
		for c := n.FirstChild; c != nil; c = c.NextSibling {
			walk(c, inScript)
		}
	}
	walk(doc, false)
	return out, nil
}
