// C36 harness.
//
//	A. probes: one-action templates parsed by the real html/template, one per escaping context that zoekt's templates
//	   use; the text html/template writes for a payload is compared with the Lean port of that escaper chain, and the
//	   Lean safety predicate of the context is evaluated on it.
//	B. pages: the real web.NewMux handlers and the real templates (web.Top) over a Searcher that returns crafted results
//	   with the payload in every index-controlled field, and requests with the payload in every request field.
//	   Oracles (share no code with zoekt): HTTP status, golang.org/x/net/html parse → element/attribute/script skeleton
//	   equal to the skeleton of the same page rendered with inert text, link targets free of script schemes; every
//	   sentinel-delimited piece of the response must be the output of a modelled escaper chain on the payload (Lean).
//	C. end to end: real shards built from files whose names, contents, branches and repository metadata carry payloads,
//	   searched and rendered through the same handlers (e2e.go).
package main

import (
	"bytes"
	"encoding/json"
	"fmt"
	"html/template"
	"net/url"
	"os"
	"path/filepath"
	"sort"
	"strings"
	"text/template/parse"
	"time"
	"unicode/utf8"

	"github.com/sourcegraph/zoekt/query"

	"verifharness/gen"
)

// ---------- A. probes ----------

type probe struct {
	chain          string
	prefix, suffix string
	funcs          []string // the escapers html/template must insert here (= Chain.funcs in the Lean model)
	t              *template.Template
}

var probes = []*probe{
	{chain: "html", prefix: "<p>", suffix: "</p>", funcs: []string{"_html_template_htmlescaper"}},
	{chain: "rcdata", prefix: "<title>", suffix: "</title>", funcs: []string{"_html_template_rcdataescaper"}},
	{chain: "attr", prefix: `<a title="`, suffix: `">x</a>`, funcs: []string{"_html_template_attrescaper"}},
	{chain: "nospace", prefix: "<input value=", suffix: ">", funcs: []string{"_html_template_nospaceescaper"}},
	{chain: "urlattr", prefix: `<a href="`, suffix: `">x</a>`, funcs: []string{"_html_template_urlfilter", "_html_template_urlnormalizer", "_html_template_attrescaper"}},
	{chain: "urlquery", prefix: `<a href="/s?q=`, suffix: `&amp;n=1">x</a>`, funcs: []string{"_html_template_urlescaper", "_html_template_attrescaper"}},
	{chain: "urlquery", prefix: `<a href="#`, suffix: `">x</a>`, funcs: []string{"_html_template_urlescaper", "_html_template_attrescaper"}},
	{chain: "urltail", prefix: `<a href="https://example.com/`, suffix: `">x</a>`, funcs: []string{"_html_template_urlnormalizer", "_html_template_attrescaper"}},
	{chain: "jsstr", prefix: `<script>var x = "`, suffix: `";</script>`, funcs: []string{"_html_template_jsstrescaper"}},
	{chain: "jsstr", prefix: `<button onclick="f('`, suffix: `')">x</button>`, funcs: []string{"_html_template_jsstrescaper"}},
}

func initProbes() {
	for _, p := range probes {
		p.t = template.Must(template.New("probe").Parse(p.prefix + "{{.}}" + p.suffix))
		var buf bytes.Buffer
		if err := p.t.Execute(&buf, "x"); err != nil {
			panic(err)
		}
		// the context html/template inferred, read back from the rewritten parse tree
		var got []string
		for _, n := range p.t.Tree.Root.Nodes {
			if a, ok := n.(*parse.ActionNode); ok {
				for _, c := range a.Pipe.Cmds[1:] {
					got = append(got, c.String())
				}
			}
		}
		if strings.Join(got, "|") != strings.Join(p.funcs, "|") {
			panic(fmt.Sprintf("probe %q: html/template inserted %v, the model expects %v", p.prefix, got, p.funcs))
		}
	}
}

func runProbe(w *gen.Writer, p *probe, payload string, class string) {
	var buf bytes.Buffer
	err := p.t.Execute(&buf, payload)
	out := buf.String()
	c := gen.Case{In: fmt.Sprintf("esc %s %s", p.chain, gen.Hex([]byte(payload))), Class: class, Nontrivial: strings.ContainsAny(payload, "<>\"'&`=\\/:% \n\x00") || !isASCII(payload),
		Detail: gen.Detail(map[string]any{"op": "probe", "chain": p.chain, "prefix": p.prefix, "payload": []byte(payload)})}
	if err != nil || !strings.HasPrefix(out, p.prefix) || !strings.HasSuffix(out, p.suffix) || len(out) < len(p.prefix)+len(p.suffix) {
		c.Impl = "-"
		c.Go = fmt.Sprintf("probe output malformed: err=%v out=%q", err, clipStr(out, 200))
		c.Key = "probe-malformed:" + p.chain
	} else {
		c.Impl = gen.Hex([]byte(out[len(p.prefix) : len(out)-len(p.suffix)]))
	}
	w.Emit(c)
}

func isASCII(s string) bool {
	for i := 0; i < len(s); i++ {
		if s[i] >= 0x80 {
			return false
		}
	}
	return true
}

// ---------- B. pages ----------

type pageSpec struct {
	Page    string `json:"page"` // results-remote results-local repolist print searchbox about
	Payload []byte `json:"payload"`
	Wrapped bool   `json:"wrapped"`
	FileTpl string `json:"file_tpl"`
	FragTpl string `json:"frag_tpl"`
	Commit  string `json:"commit_tpl"`
}

func (ps pageSpec) render(payload string) (rendered, []string) {
	value, pieces := payload, []string(nil)
	if ps.Wrapped {
		value, pieces = wrapLines(payload)
	}
	d := pageData{v: func(string) string { return value }, fileTpl: ps.FileTpl, fragTpl: ps.FragTpl, commit: ps.Commit}
	params := url.Values{}
	switch ps.Page {
	case "results-remote", "results-local":
		mux := newMux(d, ps.Page == "results-local", "search")
		params.Set("q", queryFor(value, false))
		params.Set("num", "3")
		params.Set("ctx", "2")
		params.Set("debug", "1")
		return get(mux, "/search", params), pieces
	case "repolist":
		mux := newMux(d, false, "search")
		params.Set("q", queryFor(value, true))
		params.Set("num", "7")
		return get(mux, "/search", params), pieces
	case "print":
		mux := newMux(d, true, "print")
		params.Set("r", value)
		params.Set("f", value)
		params.Set("q", value)
		params.Set("b", value)
		return get(mux, "/print", params), pieces
	case "searchbox":
		mux := newMux(d, false, "search")
		params.Set("q", value)
		return get(mux, "/", params), pieces
	case "err-query": // the raw value as query: parse errors echo parts of it
		mux := newMux(d, false, "search")
		params.Set("q", value)
		return get(mux, "/search", params), pieces
	case "err-order":
		mux := newMux(d, false, "search")
		params.Set("q", "r:x")
		params.Set("order", value)
		return get(mux, "/search", params), pieces
	case "err-ctx":
		mux := newMux(d, false, "search")
		params.Set("q", "foo")
		params.Set("ctx", value)
		params.Set("num", value)
		return get(mux, "/search", params), pieces
	case "err-print-ambiguous": // two files answer the print query: the error lists their (index-controlled) names
		mux := newMux(d, true, "search")
		params.Set("r", "x")
		params.Set("f", "y")
		return get(mux, "/print", params), pieces
	case "print-raw": // the file content is sent as is: it must not be sniffable as HTML
		mux := newMux(d, true, "print")
		params.Set("r", "x")
		params.Set("f", "y")
		params.Set("format", "raw")
		return get(mux, "/print", params), pieces
	case "about":
		mux := newMux(d, false, "search")
		return get(mux, "/about", params), pieces
	}
	panic("unknown page " + ps.Page)
}

func occurrences(body []byte) [][]byte {
	var out [][]byte
	rest := body
	for {
		i := bytes.Index(rest, []byte(sent1))
		if i < 0 {
			return out
		}
		j := bytes.Index(rest[i+len(sent1):], []byte(sent2))
		if j < 0 {
			return out
		}
		end := i + len(sent1) + j + len(sent2)
		out = append(out, rest[i:end])
		rest = rest[end:]
	}
}

func runPage(w *gen.Writer, ps pageSpec, class string) {
	payload := string(ps.Payload)
	attack, pieces := ps.render(payload)
	calm, _ := ps.render(inert(payload))
	detail := gen.Detail(map[string]any{"op": "page", "spec": ps})
	c := gen.Case{Class: class + ":" + ps.Page, Nontrivial: true, Detail: detail, Go: "ok"}
	fail := func(key, msg string) {
		if c.Go == "ok" {
			c.Go, c.Key = msg, key
		}
	}
	if strings.HasPrefix(ps.Page, "err-") || ps.Page == "print-raw" {
		// error answers and raw content: whatever the status, a body that can contain the value must be plain text that the
		// browser may not sniff into HTML; a 200 HTML answer goes through the skeleton comparison below
		isHTML := attack.status == 200 && ps.Page != "print-raw"
		if !isHTML {
			if !strings.HasPrefix(attack.ctype, "text/plain") || !attack.nosniff {
				fail("value-in-non-html-answer-is-sniffable:"+ps.Page, fmt.Sprintf("status %d Content-Type %q nosniff=%v", attack.status, attack.ctype, attack.nosniff))
			}
			w.Emit(c)
			return
		}
		if calm.status != 200 { // the value happens to be a valid number / sort key: no inert baseline to compare with
			c.Nontrivial = false
			w.Emit(c)
			return
		}
	}
	if calm.status != 200 {
		fail("harness-inert-page-failed:"+ps.Page, fmt.Sprintf("the inert page did not render: %d %s", calm.status, clipStr(string(calm.body), 200)))
	}
	if attack.status != 200 {
		if !strings.HasPrefix(attack.ctype, "text/plain") || !attack.nosniff {
			fail("error-page-not-plain-text:"+ps.Page, fmt.Sprintf("status %d with Content-Type %q", attack.status, attack.ctype))
		}
		key := "render-failed:" + ps.Page
		if ps.Page == "print" && !utf8.Valid(ps.Payload) && bytes.Contains(attack.body, []byte("invalid UTF-8")) {
			key = "print-page-rejects-invalid-utf8-name"
		}
		fail(key, fmt.Sprintf("status %d: %s", attack.status, clipStr(string(attack.body), 200)))
	} else {
		sa, urlsA, errA := skeleton(attack.body)
		sc, _, errC := skeleton(calm.body)
		if errA != nil || errC != nil {
			fail("page-unparsable:"+ps.Page, fmt.Sprint(errA, errC))
		} else if sa != sc {
			fail("skeleton-changed:"+ps.Page, "the page structure depends on the value: "+firstDiff(sc, sa))
		} else if len(urlsA) > 0 {
			fail("dangerous-url:"+ps.Page, strings.Join(urlsA, "; "))
		}
	}
	w.Emit(c)
	if !ps.Wrapped || attack.status != 200 {
		return
	}
	// every sentinel-delimited piece must be the output of a modelled chain on one of the wrapped pieces
	cand := map[string]bool{}
	for _, p := range pieces {
		cand[p] = true
		cand[url.QueryEscape(p)] = true
	}
	var cl []string
	for p := range cand {
		cl = append(cl, gen.Hex([]byte(p)))
	}
	sort.Strings(cl)
	seen := map[string]bool{}
	for _, o := range occurrences(attack.body) {
		if seen[string(o)] {
			continue
		}
		seen[string(o)] = true
		h := gen.Hex(o)
		w.Emit(gen.Case{In: "occ " + strings.Join(cl, ","), Impl: h, Class: "occurrence:" + ps.Page, Nontrivial: true, Detail: detail})
	}
	w.Count("occurrences-checked", len(seen))
	// "renders as text": in the parsed document, every sentinel-delimited piece of a text node or plain-text attribute is
	// exactly the value that was put in (for values the HTML parser does not itself normalise: valid UTF-8, no NUL, no CR)
	clean := true
	for _, p := range pieces {
		if !utf8.ValidString(p) || strings.ContainsAny(p, "\x00\r") {
			clean = false
		}
	}
	if clean {
		ds, err := domStrings(attack.body)
		if err == nil {
			pset := map[string]bool{}
			for _, p := range pieces {
				pset[p] = true
			}
			n := 0
			for _, d := range ds {
				for _, o := range occurrences([]byte(d)) {
					n++
					if !pset[string(o)] {
						w.Emit(gen.Case{Class: "dom-text:" + ps.Page, Go: fmt.Sprintf("the document shows %q where the value was %q", clipStr(string(o), 120), clipStr(pieces[0], 120)),
							Key: "value-not-rendered-as-the-same-text:" + ps.Page, Detail: detail})
						return
					}
				}
			}
			w.Count("dom-text-occurrences-checked", n)
		}
	}
}

func firstDiff(a, b string) string {
	la, lb := strings.Split(a, "\n"), strings.Split(b, "\n")
	for i := 0; i < len(la) && i < len(lb); i++ {
		if la[i] != lb[i] {
			return fmt.Sprintf("line %d: inert %q vs payload %q", i, clipStr(la[i], 160), clipStr(lb[i], 160))
		}
	}
	return fmt.Sprintf("%d vs %d skeleton lines", len(la), len(lb))
}

var pageKinds = []string{"results-remote", "results-local", "repolist", "print", "searchbox", "about", "err-query", "err-order", "err-ctx", "err-print-ambiguous", "print-raw"}

func pagesFor(w *gen.Writer, r *gen.Rand, payload string, class string) {
	for _, page := range pageKinds {
		for _, wrapped := range []bool{false, true} {
			if wrapped && (len(payload) > 60 || strings.Contains(payload, sent1[:3]) || strings.HasPrefix(page, "err-") || page == "print-raw") {
				continue
			}
			ps := pageSpec{Page: page, Payload: []byte(payload), Wrapped: wrapped,
				FileTpl: gen.Pick(r, fileURLTemplates), FragTpl: gen.Pick(r, lineFragmentTemplates), Commit: gen.Pick(r, commitURLTemplates)}
			if wrapped && strings.Contains(ps.FileTpl, "URLJoinPath") { // JoinPath cleans and re-escapes: not a per-piece map
				ps.FileTpl = fileURLTemplates[1]
			}
			runPage(w, ps, class)
		}
	}
}

// ---------- corpus / replay ----------

type replayCase struct {
	Op      string    `json:"op"`
	Chain   string    `json:"chain"`
	Prefix  string    `json:"prefix"`
	Payload []byte    `json:"payload"`
	Spec    *pageSpec `json:"spec"`
	Format  *fmtSpec  `json:"format"`
	RepoValue  []byte `json:"repo_value"`
	LocalPrint bool   `json:"local_print"`
}

func runStored(w *gen.Writer, raw json.RawMessage, class string) {
	var rc replayCase
	if err := json.Unmarshal(raw, &rc); err != nil {
		panic(err)
	}
	switch rc.Op {
	case "probe":
		for _, p := range probes {
			if p.chain == rc.Chain && (rc.Prefix == "" || p.prefix == rc.Prefix) {
				runProbe(w, p, string(rc.Payload), class)
			}
		}
	case "page":
		runPage(w, *rc.Spec, class)
	case "badtemplate":
		runBadTemplate(w, string(rc.Payload), class)
	case "format":
		runFormat(w, *rc.Format, class)
	case "funcmap":
		runFuncmap(w, string(rc.Payload), class)
	case "e2e":
		replayEndToEnd(w, string(rc.Payload), string(rc.RepoValue), rc.LocalPrint)
	default:
		panic("stored case without a replayable op (end-to-end cases are re-generated from the seed)")
	}
}

func main() {
	f := gen.ParseFlags()
	w := gen.NewWriter(f.Out)
	defer w.Close()
	initProbes()
	if f.Replay != "" {
		b, err := os.ReadFile(f.Replay)
		if err != nil {
			panic(err)
		}
		var rp struct {
			Case  struct{ Detail json.RawMessage } `json:"case"`
			First struct{ Detail json.RawMessage } `json:"first_disagreement"`
		}
		if err := json.Unmarshal(b, &rp); err != nil {
			panic(err)
		}
		d := rp.Case.Detail
		if len(d) == 0 {
			d = rp.First.Detail
		}
		runStored(w, d, "replay")
		return
	}
	files, _ := filepath.Glob(filepath.Join(f.Corpus, "*.json"))
	sort.Strings(files)
	for _, fn := range files {
		b, err := os.ReadFile(fn)
		if err != nil {
			panic(err)
		}
		runStored(w, b, "corpus")
	}
	r := gen.NewRand(f.Seed)

	t0 := time.Now()
	lap := func(name string) { w.Count("ms-"+name, int(time.Since(t0).Milliseconds())); t0 = time.Now() }
	// A. probes
	payloads := append([]string{}, fixedPayloads...)
	payloads = append(payloads, everyByte()...)
	for i, n := 0, f.N(600, 30000); i < n; i++ {
		payloads = append(payloads, randomPayload(r))
	}
	for _, p := range payloads {
		for _, pr := range probes {
			runProbe(w, pr, p, "probe:"+pr.chain)
		}
	}

	lap("probes")
	// B. pages
	for _, p := range fixedPayloads {
		pagesFor(w, r, p, "page")
	}
	for i, n := 0, f.N(80, 3000); i < n; i++ {
		pagesFor(w, r, randomPayload(r), "page-random")
	}
	// values at the excerpt-size boundary: template functions directly, and as the text around the matches of result pages
	bvs := boundaryValues()
	for _, p := range append(append([]string{}, fixedPayloads...), bvs...) {
		runFuncmap(w, p, "funcmap")
	}
	for i, n := 0, f.N(200, 20000); i < n; i++ {
		runFuncmap(w, randomBoundaryValue(r), "funcmap-random")
	}
	for i, p := range bvs {
		for _, page := range []string{"results-remote", "results-local", "print"} {
			if page == "print" && i%4 != 0 {
				continue
			}
			runPage(w, pageSpec{Page: page, Payload: []byte(p), FileTpl: fileURLTemplates[1], FragTpl: lineFragmentTemplates[1]}, "page-boundary")
		}
	}
	w.Count("boundary-values", len(bvs))
	for _, t := range badCommitURLTemplates {
		runBadTemplate(w, t, "bad-template")
	}
	_ = query.Parse
	for i, n := 0, f.N(1500, 60000); i < n; i++ {
		fs, class := genFormat(r)
		runFormat(w, fs, class)
	}
	lap("pages")

	// C. real shards
	runEndToEnd(w, r, f)
	lap("e2e")
}
