package main

import (
	"strings"

	"verifharness/gen"
)

// fixedPayloads: markup / script / URL / encoding attacks and every context's terminators.
var fixedPayloads = []string{
	"", "plain", "a b", "a\tb", "a\nb", "a\r\nb", "a\fb", "a\vb", "\x00", "a\x00b",
	"<", ">", "\"", "'", "`", "&", "=", "+", "/", "\\", "%", "#", "?", ":", ";", "(", ")", "{", "}", "[", "]", "$", "!", "*", ",", "@", "|", "^", "~",
	"<script>alert(1)</script>", "</script><script>alert(1)</script>", "</title><script>alert(1)</script>",
	"<img src=x onerror=alert(1)>", "\"><img src=x onerror=alert(1)>", "'><svg/onload=alert(1)>",
	"\" onmouseover=\"alert(1)", "' onmouseover='alert(1)", "x onmouseover=alert(1)", "x` onmouseover=alert(1)", "x\tonfocus=alert(1) autofocus",
	"--><script>alert(1)</script>", "<!--", "-->", "]]>", "<![CDATA[", "</pre>", "</p></pre></td><script>alert(1)</script>", "</a>", "<b>bold</b>",
	"&lt;script&gt;", "&amp;", "&#60;script&#62;", "&#x3c;", "&quot;", "&", "&&", "a&b=c", "&#", "&#x", "&lt",
	"javascript:alert(1)", "JaVaScRiPt:alert(1)", "javascript&colon;alert(1)", "java\tscript:alert(1)", "java\nscript:alert(1)", " javascript:alert(1)",
	"\x01javascript:alert(1)", "data:text/html,<script>alert(1)</script>", "vbscript:msgbox(1)", "http://example.com/a?b=c&d=e#f", "https://example.com/",
	"HTTPS://EXAMPLE.COM", "mailto:a@b.c", "MAILTO:x", "//evil.example/x", "/relative/path", "a/b:c", "a:b/c", "://", ":", "x:", "http:", "ftp://x",
	"http\u017f://example.com/", "\u212aelvin:x", "ht tp://x", "http\x00://x", "%6aavascript:alert(1)", "javascript%3aalert(1)", "#frag", "?q=1", ";l=3",
	"\";alert(1);//", "';alert(1);//", "\\\";alert(1);//", "\\", "\\\\", "a\\", "\\u0022", "\\x22", "</script>", "</SCRIPT>", "<!--<script>", "\u2028", "\u2029", "a\u2028b",
	"${alert(1)}", "`${alert(1)}`", "{{.}}", "{{define \"x\"}}", "{{template \"head\"}}", "<%= x %>",
	"%", "%4", "%41", "%zz", "%%", "%00", "%0a", "%2", "100%", "%c5%bf", "a%20b", "+", "a+b", "a b+c",
	"\xff", "\xc0\x80", "\xe2\x82", "\xed\xa0\x80", "\xf4\x90\x80\x80", "\xc3", "a\xffb", "\xef\xbf\xbd", "\xef\xb7\x90", "\xef\xbf\xbe", "\xef\xbf\xbf", "\xef\xb7\xaf", "\xef\xbf\xb0",
	"é", "日本語", "€", "😀", "\u017f", "\u0130", "\u202e", "\ufeff", "\u00a0",
	"ZgotmplZ", "#ZgotmplZ", "zoektAddQ('x')", "');zoektAddQ('", "lang:\"x\"", "x\" foo", "C++", "C#", "Objective-C++", "F*",
	strings.Repeat("<", 120), strings.Repeat("a", 99) + "<", strings.Repeat("a", 100) + "<script>", strings.Repeat("\"", 101), strings.Repeat("é", 60),
	"line1\nline2\n", "\n", "\n\n", "a\n<b>\n</pre>", "trailing\n", "\r", "x\ry",
}

var tokens = []string{
	"<", ">", "\"", "'", "`", "&", "=", "+", "/", "\\", "%", "#", "?", ":", ";", " ", "\t", "\n", "\r", "\x00", "\f", "\v",
	"script", "javascript", "http", "https", "mailto", "alert(1)", "on", "load", "</", "-->", "<!--", "&#", "&amp;", "&lt;", "x", "a", "Z", "0", "9",
	"%2", "%41", "%", "\\u", "\\x", "\xff", "\xc3", "\xe2\x80", "\xe2\x80\xa8", "\xef\xbf\xbd", "\xef\xb7\x90", "é", "日", "😀", "\u017f", "(", ")", "{", "}", "[", "]", "$", "-", ".", "_", "~", "!", "*", ",", "@",
}

func randomPayload(r *gen.Rand) string {
	var sb strings.Builder
	for i, n := 0, r.Range(1, 12); i < n; i++ {
		if r.Chance(1, 12) {
			sb.WriteByte(byte(r.Intn(256)))
		} else {
			sb.WriteString(gen.Pick(r, tokens))
		}
	}
	return sb.String()
}

// everyByte: each single byte value, alone and between letters
func everyByte() []string {
	var out []string
	for b := 0; b < 256; b++ {
		out = append(out, string([]byte{byte(b)}), "a"+string([]byte{byte(b)})+"b")
	}
	return out
}

// inert replaces a payload by text with the same line structure and emptiness that cannot be markup in any context.
func inert(p string) string {
	var sb strings.Builder
	for i := 0; i < len(p); i++ {
		if p[i] == '\n' {
			sb.WriteByte('\n')
		} else {
			sb.WriteByte('k')
		}
	}
	return sb.String()
}
