package main

import (
	"context"
	"fmt"
	"net/http"
	"net/url"
	"os"
	"path/filepath"
	"sort"
	"strings"
	"unicode/utf8"

	"github.com/sourcegraph/zoekt"
	"github.com/sourcegraph/zoekt/index"
	"github.com/sourcegraph/zoekt/query"
	"github.com/sourcegraph/zoekt/search"
	"github.com/sourcegraph/zoekt/web"
	"golang.org/x/net/html"

	"verifharness/gen"
)

// runBadTemplate: a repository whose CommitURLTemplate parses but cannot be executed on a branch (index-controlled
// metadata) — the repository list must still render.
func runBadTemplate(w *gen.Writer, tpl string, class string) {
	d := pageData{v: func(string) string { return "x" }, commit: tpl}
	mux := newMux(d, false, "search")
	params := url.Values{}
	params.Set("q", "r:x")
	got := get(mux, "/search", params)
	c := gen.Case{Class: class, Nontrivial: true, Go: "ok", Detail: gen.Detail(map[string]any{"op": "badtemplate", "payload": []byte(tpl)})}
	if got.status != 200 {
		c.Go = fmt.Sprintf("repository list fails with status %d for CommitURLTemplate %q: %s", got.status, tpl, clipStr(strings.TrimSpace(string(got.body)), 160))
		c.Key = "repolist-fails-on-unexecutable-commit-url-template"
	}
	w.Emit(c)
}

// ---------- C. real shards ----------

// buildCorpus indexes one repository: its name, URL, branch and version carry repoVal; for every value vals[k] a group of
// three files under "qg<k>q/" carries that value in file names and contents. (One index.Builder per corpus: the builder
// pre-allocates tens of megabytes, so values share corpora.)
func buildCorpus(dir, repoVal string, vals []string) error {
	branch := "b" + repoVal
	opts := index.Options{
		IndexDir: dir,
		RepositoryDescription: zoekt.Repository{
			Name: "repo-" + repoVal, URL: "https://example.com/" + repoVal,
			CommitURLTemplate:    "https://example.com/c/{{.Version}}",
			FileURLTemplate:      "https://example.com/b/{{.Version}}/{{.Path}}",
			LineFragmentTemplate: "#L{{.LineNumber}}",
			Branches:             []zoekt.RepositoryBranch{{Name: branch, Version: "v" + repoVal}},
		},
		DisableCTags: true,
		ShardMax:     1 << 20,
		Parallelism:  1,
	}
	opts.SetDefaults()
	b, err := index.NewBuilder(opts)
	if err != nil {
		return err
	}
	for k, val := range vals {
		// a NUL makes the builder skip the file as binary; binary detection is not the subject here
		val = strings.ReplaceAll(val, "\x00", "0")
		name := val + ".txt" // a fixed extension: language detection by file name is not the subject here
		g := fmt.Sprintf("qg%dq/", k)
		docs := []index.Document{
			{Name: g + "dir/" + name, Content: []byte("alpha NEEDLE beta\n"), Branches: []string{branch}},
			{Name: g + "zzfixed.txt", Content: []byte("l1\nl2 " + val + "\n" + val + " NEEDLE " + val + "\nl4 " + val + "\nl5\n"), Branches: []string{branch}},
			{Name: g + "other-" + name, Content: []byte("NEEDLE"), Branches: []string{branch}},
			// the value directly before and after a match on one line: for values around the excerpt limit this is the
			// LimitPre / LimitPost boundary on a real search result
			{Name: g + "zzlong.txt", Content: []byte(val + "NEEDLE" + val + "\n"), Branches: []string{branch}},
		}
		for _, d := range docs {
			if err := b.Add(d); err != nil {
				return err
			}
		}
	}
	return b.Finish()
}

type e2ePage struct {
	status int
	body   []byte
	hrefs  []string
}

func fetch(mux *http.ServeMux, target string) e2ePage {
	u, err := url.Parse(target)
	if err != nil {
		return e2ePage{status: -1, body: []byte(err.Error())}
	}
	got := get(mux, "/"+strings.TrimPrefix(u.Path, "/"), u.Query())
	p := e2ePage{status: got.status, body: got.body}
	if doc, err := html.Parse(strings.NewReader(string(got.body))); err == nil {
		var walk func(n *html.Node)
		walk = func(n *html.Node) {
			if n.Type == html.ElementNode && n.Data == "a" {
				for _, a := range n.Attr {
					if a.Key == "href" {
						p.hrefs = append(p.hrefs, a.Val)
					}
				}
			}
			for c := n.FirstChild; c != nil; c = c.NextSibling {
				walk(c)
			}
		}
		walk(doc)
	}
	return p
}

func sortedLines(s string) string {
	l := strings.Split(s, "\n")
	sort.Strings(l)
	return strings.Join(l, "\n")
}

var useDirectorySearcher bool

// shardStreamer searches the shard files of a directory directly (index.NewSearcher), one after the other.
type shardStreamer struct{ shards []zoekt.Searcher }

func openShards(dir string) (zoekt.Streamer, error) {
	files, _ := filepath.Glob(filepath.Join(dir, "*.zoekt"))
	if len(files) == 0 {
		return nil, fmt.Errorf("no shard written")
	}
	st := &shardStreamer{}
	for _, fn := range files {
		f, err := os.Open(fn)
		if err != nil {
			return nil, err
		}
		ifile, err := index.NewIndexFile(f)
		if err != nil {
			return nil, err
		}
		s, err := index.NewSearcher(ifile)
		if err != nil {
			return nil, err
		}
		st.shards = append(st.shards, s)
	}
	return st, nil
}

func (s *shardStreamer) Search(ctx context.Context, q query.Q, opts *zoekt.SearchOptions) (*zoekt.SearchResult, error) {
	agg := &zoekt.SearchResult{RepoURLs: map[string]string{}, LineFragments: map[string]string{}}
	for _, sh := range s.shards {
		r, err := sh.Search(ctx, q, opts)
		if err != nil {
			return nil, err
		}
		agg.Files = append(agg.Files, r.Files...)
		agg.Stats.Add(r.Stats)
		for k, v := range r.RepoURLs {
			agg.RepoURLs[k] = v
		}
		for k, v := range r.LineFragments {
			agg.LineFragments[k] = v
		}
	}
	return agg, nil
}
func (s *shardStreamer) StreamSearch(ctx context.Context, q query.Q, opts *zoekt.SearchOptions, sender zoekt.Sender) error {
	r, err := s.Search(ctx, q, opts)
	if err == nil {
		sender.Send(r)
	}
	return err
}
func (s *shardStreamer) List(ctx context.Context, q query.Q, opts *zoekt.ListOptions) (*zoekt.RepoList, error) {
	agg := &zoekt.RepoList{}
	for _, sh := range s.shards {
		r, err := sh.List(ctx, q, opts)
		if err != nil {
			return nil, err
		}
		agg.Repos = append(agg.Repos, r.Repos...)
		agg.Stats.Add(&r.Stats)
	}
	return agg, nil
}
func (s *shardStreamer) Close() {
	for _, sh := range s.shards {
		sh.Close()
	}
}
func (s *shardStreamer) String() string { return "shardStreamer" }

// e2eSite: index, searcher and handlers for one batch of values
func e2eSite(root, tag, repoVal string, vals []string, localPrint bool) (*http.ServeMux, func(), error) {
	dir := filepath.Join(root, tag)
	if err := os.MkdirAll(dir, 0o755); err != nil {
		return nil, nil, err
	}
	if err := buildCorpus(dir, repoVal, vals); err != nil {
		return nil, nil, err
	}
	var ss zoekt.Streamer
	var err error
	if useDirectorySearcher {
		ss, err = search.NewDirectorySearcher(dir) // the searcher zoekt-webserver uses
	} else {
		ss, err = openShards(dir)
	}
	if err != nil {
		return nil, nil, err
	}
	srv := &web.Server{Searcher: ss, Top: web.Top, HTML: true, Print: localPrint}
	mux, err := web.NewMux(srv)
	if err != nil {
		ss.Close()
		return nil, nil, err
	}
	return mux, func() { ss.Close(); os.RemoveAll(dir) }, nil
}

func inertAll(vals []string) []string {
	out := make([]string, len(vals))
	for i, v := range vals {
		out[i] = inert(v)
	}
	return out
}

// comparePages: the same request against the attack site and the inert site
func comparePages(am, im *http.ServeMux, target string, fail func(key, msg string)) (printLinks []string) {
	a, i := fetch(am, target), fetch(im, target)
	if i.status != 200 {
		fail("harness-inert-page-failed:e2e", fmt.Sprintf("%s: %d %s", target, i.status, clipStr(string(i.body), 160)))
		return nil
	}
	if a.status != 200 {
		fail("render-failed:e2e:search", fmt.Sprintf("%s: status %d: %s", target, a.status, clipStr(string(a.body), 160)))
		return nil
	}
	sa, urls, err1 := skeleton(a.body)
	si, _, err2 := skeleton(i.body)
	if err1 != nil || err2 != nil {
		fail("page-unparsable:e2e", fmt.Sprint(err1, err2))
	} else if sortedLines(sa) != sortedLines(si) {
		fail("skeleton-changed:e2e", target+": "+firstDiff(sortedLines(si), sortedLines(sa)))
	} else if len(urls) > 0 {
		fail("dangerous-url:e2e", strings.Join(urls, "; "))
	}
	for _, h := range a.hrefs {
		if strings.HasPrefix(h, "print?") {
			printLinks = append(printLinks, strings.SplitN(h, "#", 2)[0])
		}
	}
	return printLinks
}

func runEndToEndBatch(w *gen.Writer, root string, n int, vals []string, localPrint bool) {
	runEndToEndBatchRepo(w, root, n, vals[0], vals, localPrint)
}

// replayEndToEnd re-runs one stored end-to-end case: the value alone in a corpus with the stored repository value
func replayEndToEnd(w *gen.Writer, payload, repoVal string, localPrint bool) {
	root, err := os.MkdirTemp(os.TempDir(), "c36-e2e-replay-")
	if err != nil {
		panic(err)
	}
	defer os.RemoveAll(root)
	if repoVal == "" {
		repoVal = payload
	}
	runEndToEndBatchRepo(w, root, 0, repoVal, []string{payload}, localPrint)
}

func runEndToEndBatchRepo(w *gen.Writer, root string, n int, repoVal string, vals []string, localPrint bool) {
	am, aclose, err := e2eSite(root, fmt.Sprintf("a%d", n), repoVal, vals, localPrint)
	if err != nil {
		w.Emit(gen.Case{Class: "e2e-build-refused", Go: "the builder refused the batch: " + clipStr(err.Error(), 200), Key: "harness-e2e-build-refused"})
		return
	}
	defer aclose()
	im, iclose, err := e2eSite(root, fmt.Sprintf("i%d", n), inert(repoVal), inertAll(vals), localPrint)
	if err != nil {
		w.Emit(gen.Case{Class: "e2e", Go: err.Error(), Key: "harness-inert-corpus-failed"})
		return
	}
	defer iclose()
	{
		c := gen.Case{Class: "e2e-repolist", Nontrivial: true, Go: "ok", Detail: gen.Detail(map[string]any{"op": "e2e", "repo_value": []byte(repoVal)})}
		comparePages(am, im, "search?q=r%3Arepo", func(key, msg string) {
			if c.Go == "ok" {
				c.Go, c.Key = msg, key
			}
		})
		w.Emit(c)
	}
	for k, val := range vals {
		c := gen.Case{Class: "e2e", Nontrivial: true, Go: "ok", Detail: gen.Detail(map[string]any{"op": "e2e", "payload": []byte(val), "repo_value": []byte(repoVal), "local_print": localPrint})}
		fail := func(key, msg string) {
			if c.Go == "ok" {
				c.Go, c.Key = msg, key
			}
		}
		g := fmt.Sprintf("qg%dq%%2F", k)
		var printLinks []string
		for _, t := range []string{"search?q=NEEDLE+f%3A" + g + "&num=50&ctx=2", "search?q=NEEDLE+f%3A" + g + "zzfixed&ctx=1&debug=1", "search?q=l2+f%3A" + g + "&ctx=3"} {
			printLinks = append(printLinks, comparePages(am, im, t, fail)...)
		}
		// follow the local print links of the result page: every file that is found can be shown
		seen := map[string]bool{}
		for _, h := range printLinks {
			if seen[h] {
				continue
			}
			seen[h] = true
			p := fetch(am, h)
			w.Count("e2e-print-links-followed", 1)
			if p.status != 200 {
				key := "render-failed:e2e:print"
				if (!utf8.ValidString(val) || !utf8.ValidString(repoVal)) && strings.Contains(string(p.body), "invalid UTF-8") {
					key = "print-page-rejects-invalid-utf8-name"
				}
				fail(key, fmt.Sprintf("%s: status %d: %s", clipStr(h, 120), p.status, clipStr(string(p.body), 160)))
				continue
			}
			if _, urls, err := skeleton(p.body); err != nil {
				fail("page-unparsable:e2e", err.Error())
			} else if len(urls) > 0 {
				fail("dangerous-url:e2e", strings.Join(urls, "; "))
			}
			if strings.Contains(strings.ToLower(string(p.body)), "<script>alert") || strings.Contains(string(p.body), "<img src=x") {
				fail("markup-in-print-page:e2e", "payload markup appears verbatim in the print page")
			}
		}
		w.Emit(c)
	}
}

func runEndToEnd(w *gen.Writer, r *gen.Rand, f gen.Flags) {
	root := os.Getenv("VERIF_WORK")
	if root == "" {
		root = os.TempDir()
	}
	root, err := os.MkdirTemp(root, "c36-e2e-")
	if err != nil {
		panic(err)
	}
	defer os.RemoveAll(root)
	var ps []string
	for i, p := range fixedPayloads {
		if p != "" && (f.Tier == "thorough" || i%3 == int(f.Seed%3)) {
			ps = append(ps, p)
		}
	}
	for i, n := 0, f.N(20, 600); i < n; i++ {
		ps = append(ps, randomPayload(r))
	}
	bvs := boundaryValues()
	nbv := 0
	for i, p := range bvs {
		if f.Tier == "thorough" || i%6 == int(f.Seed%6) || (strings.HasPrefix(p, "\xa7") && len(p) <= excerptLimit+1) {
			ps = append(ps, p)
			nbv++
		}
	}
	w.Count("e2e-boundary-values", nbv)
	gen.Shuffle(r, ps)
	nb := f.N(2, 16)
	per := (len(ps) + nb - 1) / nb
	for n := 0; n*per < len(ps); n++ {
		batch := ps[n*per : min((n+1)*per, len(ps))]
		useDirectorySearcher = n%2 == 1
		runEndToEndBatch(w, root, n, batch, n%2 == 0)
	}
}
