package main

import "verifharness/gen"

func runBadTemplate(w *gen.Writer, tpl string, class string) {}
func runEndToEnd(w *gen.Writer, r *gen.Rand, f gen.Flags) {}
