package main

import (
	"context"
	"fmt"
	"net/http"
	"net/http/httptest"
	"net/url"
	"strings"
	"time"

	"github.com/sourcegraph/zoekt"
	"github.com/sourcegraph/zoekt/query"
	"github.com/sourcegraph/zoekt/web"
)

const (
	sent1 = "zq7Aq"
	sent2 = "zq7Zq"
)

// wrapLines wraps every line of the payload in sentinels (the templates split some fields on newlines).
func wrapLines(p string) (value string, pieces []string) {
	lines := strings.Split(p, "\n")
	for i, l := range lines {
		lines[i] = sent1 + l + sent2
		pieces = append(pieces, lines[i])
	}
	return strings.Join(lines, "\n"), pieces
}

// fakeSearcher serves crafted results: the index side of the web UI.
type fakeSearcher struct {
	result func() *zoekt.SearchResult
	repos  func() *zoekt.RepoList
}

func (f *fakeSearcher) Search(ctx context.Context, q query.Q, opts *zoekt.SearchOptions) (*zoekt.SearchResult, error) {
	if opts != nil && opts.EstimateDocCount {
		return &zoekt.SearchResult{}, nil
	}
	return f.result(), nil
}
func (f *fakeSearcher) StreamSearch(ctx context.Context, q query.Q, opts *zoekt.SearchOptions, sender zoekt.Sender) error {
	sender.Send(f.result())
	return nil
}
func (f *fakeSearcher) List(ctx context.Context, q query.Q, opts *zoekt.ListOptions) (*zoekt.RepoList, error) {
	return f.repos(), nil
}
func (f *fakeSearcher) Close()         {}
func (f *fakeSearcher) String() string { return "fake" }

// urlTemplates: repository URL templates (text/template source, taken from the index). The last ones fail at execution.
var fileURLTemplates = []string{
	"", "https://example.com/r/blob/{{.Version}}/{{.Path}}", "{{.Path}}", "https://example.com/{{.Branch}}/{{.Path}}?x=1",
	"{{URLJoinPath \"https://example.com\" \"r\" \"-\" \"blob\" .Version .Path}}", "javascript:alert(1)//{{.Path}}", "{{.Nope.Deeper}}", "{{", "{{URLJoinPath 1}}",
}
var lineFragmentTemplates = []string{"", "#L{{.LineNumber}}", ";l={{.LineNumber}}", "L{{.LineNumber}}", "{{.Nope.Deeper}}", "{{"}
var commitURLTemplates = []string{"", "https://example.com/r/commit/{{.Version}}", "{{.Name}}", "javascript:alert(1)//{{.Version}}", "{{"}

// the ones that parse but cannot be executed on the data they are given: a repository with such metadata must not take
// the page down ("rendering never fails for any search result")
var badCommitURLTemplates = []string{"{{.Path}}", "{{.Nope.Deeper}}", "{{URLJoinPath 1}}"}

type pageData struct {
	v       func(slot string) string // value of a payload slot
	fileTpl string
	fragTpl string
	commit  string
}

func (d pageData) searchResult() *zoekt.SearchResult {
	v := d.v
	// the first match *is* the value (a query can match any text), the second is a fixed word
	line := []byte(v("line-pre") + v("line-match") + v("line-mid") + "NEEDLE" + v("line-post"))
	l1 := len(v("line-pre"))
	m1 := len(v("line-match"))
	l2 := l1 + m1 + len(v("line-mid"))
	mkFile := func(repo, name string, sum byte) zoekt.FileMatch {
		return zoekt.FileMatch{
			FileName: name, Repository: repo, Language: v("language"), Debug: v("file-debug"),
			Branches: []string{v("branch"), "main"}, Version: v("version"), Checksum: []byte{sum}, Score: 1,
			LineMatches: []zoekt.LineMatch{
				{
					Line: line, LineNumber: 7, Before: []byte(v("before")), After: []byte(v("after")), DebugScore: v("line-debug"),
					LineFragments: []zoekt.LineFragmentMatch{{LineOffset: l1, MatchLength: m1}, {LineOffset: l2, MatchLength: 6}},
				},
				{Line: []byte("NEEDLE"), LineNumber: 9, LineFragments: []zoekt.LineFragmentMatch{{LineOffset: 0, MatchLength: 6}}},
				{Line: []byte(v("line-pre")), LineNumber: 11, FileName: true},
				{Line: []byte(""), LineNumber: 0},
			},
		}
	}
	repo := v("repo")
	sub := zoekt.FileMatch{
		FileName: "sub/" + v("filename"), Repository: repo, SubRepositoryName: "subrepo", SubRepositoryPath: "sub",
		Branches: []string{"main"}, Checksum: []byte{9}, Version: v("version"),
		LineMatches: []zoekt.LineMatch{{Line: []byte("NEEDLE"), LineNumber: 1, LineFragments: []zoekt.LineFragmentMatch{{LineOffset: 0, MatchLength: 6}}}},
	}
	return &zoekt.SearchResult{
		Stats: zoekt.Stats{MatchCount: 5, FileCount: 9, FilesSkipped: 1, Crashes: 1, Duration: 12 * time.Millisecond, Wait: 5 * time.Millisecond},
		Files: []zoekt.FileMatch{
			mkFile(repo, v("filename"), 1),
			mkFile(repo, "dup-"+v("filename"), 1), // duplicate checksum → DuplicateID link
			sub,
			{FileName: "no-matches", Repository: "plainrepo", Checksum: []byte{3}},
		},
		RepoURLs:      map[string]string{repo: d.fileTpl, "subrepo": d.fileTpl, "plainrepo": ""},
		LineFragments: map[string]string{repo: d.fragTpl, "subrepo": d.fragTpl},
	}
}

func (d pageData) printResult() *zoekt.SearchResult {
	v := d.v
	return &zoekt.SearchResult{Files: []zoekt.FileMatch{{
		FileName: v("filename"), Repository: v("repo"),
		Content: []byte("first\n" + v("content") + "\n\nlast " + v("line-post")),
	}}}
}

func (d pageData) repoList() *zoekt.RepoList {
	v := d.v
	mk := func(name, u, commit string) *zoekt.RepoListEntry {
		return &zoekt.RepoListEntry{
			Repository: zoekt.Repository{
				Name: name, URL: u, CommitURLTemplate: commit,
				Branches: []zoekt.RepositoryBranch{{Name: v("branch"), Version: v("version")}, {Name: "main", Version: "abc"}},
			},
			IndexMetadata: zoekt.IndexMetadata{IndexTime: time.Unix(1700000000, 0).UTC()},
			Stats:         zoekt.RepoStats{Documents: 3, ContentBytes: 20 << 20, IndexBytes: 30 << 20, Shards: 1},
		}
	}
	return &zoekt.RepoList{
		Repos: []*zoekt.RepoListEntry{
			// the page sorts by name: keep the order independent of the value
			mk("a-"+v("repo"), v("repo-url"), d.commit),
			mk("m-plain", "", ""),
			mk("z-"+v("repo"), "https://example.com/"+v("repo-url"), "https://example.com/c/{{.Version}}"),
		},
		Stats: zoekt.RepoStats{Repos: 3, Documents: 9},
	}
}

type rendered struct {
	status int
	ctype  string
	nosniff bool
	body   []byte
}

func get(mux *http.ServeMux, path string, params url.Values) (out rendered) {
	req := httptest.NewRequest("GET", path+"?"+params.Encode(), nil)
	rec := httptest.NewRecorder()
	defer func() {
		if r := recover(); r != nil { // net/http would abort the connection: the page is not rendered
			out = rendered{status: 500, ctype: "text/plain", nosniff: true, body: []byte(fmt.Sprintf("handler panic: %v", r))}
		}
	}()
	mux.ServeHTTP(rec, req)
	return rendered{status: rec.Code, ctype: rec.Header().Get("Content-Type"), nosniff: rec.Header().Get("X-Content-Type-Options") == "nosniff", body: rec.Body.Bytes()}
}

func newMux(d pageData, localPrint bool, kind string) *http.ServeMux {
	fs := &fakeSearcher{repos: d.repoList}
	if kind == "print" {
		fs.result = d.printResult
	} else {
		fs.result = d.searchResult
	}
	srv := &web.Server{Searcher: fs, Top: web.Top, HTML: true, Print: localPrint, Version: d.v("server-version"),
		HostCustomQueries: map[string]string{"example.com": d.v("host-query")}}
	mux, err := web.NewMux(srv)
	if err != nil {
		panic(err)
	}
	return mux
}

// queryFor: a query string that carries the payload, parses, and selects the wanted page kind.
func queryFor(payload string, repoOnly bool) string {
	cands := []string{payload, "foo " + payload, payload + " foo"}
	if repoOnly {
		cands = []string{"r:" + payload}
	}
	for _, c := range cands {
		if strings.TrimSpace(c) == "" || c == "r:" {
			continue
		}
		q, err := query.Parse(c)
		if err != nil {
			continue
		}
		only := true
		query.VisitAtoms(q, func(q query.Q) {
			_, ok := q.(*query.Repo)
			only = only && ok
		})
		if qt, ok := q.(*query.Type); ok && qt.Type == query.TypeRepo {
			only = true
		}
		if only == repoOnly {
			return c
		}
	}
	if repoOnly {
		return "r:x"
	}
	return "foo"
}
