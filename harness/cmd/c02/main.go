// C02 harness: match ranges. Component correspondences through the verif hooks (gatherMatches on synthetic match
// trees, breakMatchesOnNewlines, makeRuneOffsetMap/lookup, findOffset on real shards) and end-to-end searches on real
// shards in line and chunk mode with 0–3 context lines, checked by a naive Go oracle and by the Lean model/spec.
package main

import (
	"bytes"
	"encoding/json"
	"fmt"
	"os"
	"path/filepath"
	"sort"
	"strings"
	"unicode"
	"unicode/utf8"

	"github.com/sourcegraph/zoekt/index"

	"verifharness/e2lib"
	"verifharness/gen"
)

func showHookCands(cs []index.VerifC02Cand) string {
	var out []e2lib.Cand
	for _, c := range cs {
		out = append(out, e2lib.Cand{FileName: c.FileName, Off: int(c.Off), Sz: int(c.Sz)})
	}
	return e2lib.ShowCands(out)
}

// ---- gather on synthetic match trees ----

func genCands(r *gen.Rand, n, maxOff int, fileNameChance int) []index.VerifC02Cand {
	var cs []index.VerifC02Cand
	for i := 0; i < n; i++ {
		c := index.VerifC02Cand{Off: uint32(r.Intn(maxOff + 1))}
		switch r.Intn(6) {
		case 0:
			c.Sz = 0
		case 1:
			c.Sz = uint32(r.Range(1, 12))
		default:
			c.Sz = uint32(r.Range(1, 4))
		}
		c.FileName = r.Chance(fileNameChance, 10)
		cs = append(cs, c)
	}
	return cs
}

type gatherDetail struct {
	Name   []byte               `json:"name"`
	Atoms  []index.VerifC02Atom `json:"atoms"`
	RootOr bool                 `json:"rootOr"`
}

func gatherRunUnguarded(w *gen.Writer, d gatherDetail, class string) {
	var parts []string
	visited := 0
	for _, a := range d.Atoms {
		if a.Known && a.Wrap != 1 && a.Wrap != 2 && a.Wrap != 3 {
			visited += len(a.Cands)
		}
		parts = append(parts, fmt.Sprintf("%d:%d:%d:%s", a.Kind, a.Wrap, map[bool]int{false: 0, true: 1}[a.Known], showHookCands(a.Cands)))
	}
	as := "-"
	if len(parts) > 0 {
		as = strings.Join(parts, ";")
	}
	in := fmt.Sprintf("gather %s %d %s", gen.Hex(d.Name), map[bool]int{false: 0, true: 1}[d.RootOr], as)
	got := index.VerifC02Gather(d.Name, d.Atoms, d.RootOr)
	if class == "gather" && visited == 0 {
		class = "gather/filename-fallback"
	}
	w.Emit(gen.Case{In: in, Impl: showHookCands(got), Class: class, Nontrivial: visited >= 3, Detail: gen.Detail(struct {
		Gather gatherDetail `json:"gather"`
	}{d})})
}

func gatherCase(w *gen.Writer, r *gen.Rand) {
	d := gatherDetail{Name: []byte(e2lib.GenName(r, r.Intn(3), r.Bool()))}
	na := r.Range(0, 4)
	fnChance := gen.Pick(r, []int{0, 0, 2, 5, 10})
	for i := 0; i < na; i++ {
		a := index.VerifC02Atom{Kind: r.Intn(4), Wrap: gen.Pick(r, []int{0, 0, 0, 1, 2, 3, 4, 5, 6, 7}), Known: r.Chance(4, 5)}
		if a.Wrap == 7 && a.Kind != 0 {
			a.Wrap = 0
		}
		a.Cands = genCands(r, r.Range(0, 6), gen.Pick(r, []int{6, 20, 20, 60}), fnChance)
		if r.Chance(1, 4) { // an atom's own candidates are usually sorted
			sort.Slice(a.Cands, func(i, j int) bool { return a.Cands[i].Off < a.Cands[j].Off })
		}
		d.Atoms = append(d.Atoms, a)
	}
	d.RootOr = r.Bool()
	gatherRun(w, d, "gather")
}

// ---- gather on nested match trees ----

type treeDetail struct {
	Name []byte             `json:"name"`
	Root index.VerifC02Node `json:"root"`
}

func genNode(r *gen.Rand, depth int, fnChance int) index.VerifC02Node {
	n := index.VerifC02Node{KnownSet: r.Chance(9, 10), Known: r.Chance(4, 5)}
	if depth <= 0 || r.Chance(1, 3) {
		if r.Chance(1, 7) {
			n.Op = "other"
			return n
		}
		n.Op, n.Kind = "atom", r.Intn(4)
		n.Cands = genCands(r, r.Range(0, 5), gen.Pick(r, []int{6, 20, 20, 60}), fnChance)
		return n
	}
	switch r.Intn(10) {
	case 0, 1, 2:
		n.Op = "and"
	case 3, 4:
		n.Op = "or"
	case 5:
		n.Op = "andline"
	case 6:
		n.Op = gen.Pick(r, []string{"not", "novisit", "filename"})
		n.Ch = []index.VerifC02Node{genNode(r, depth-1, fnChance)}
		return n
	case 7, 8:
		n.Op = "boost"
		n.Ch = []index.VerifC02Node{genNode(r, depth-1, fnChance)}
		return n
	default:
		n.Op = "symsubstr"
		c := index.VerifC02Node{Op: "atom", Kind: 0, KnownSet: r.Bool(), Known: r.Bool(), Cands: genCands(r, r.Range(0, 5), 20, 0)}
		n.Ch = []index.VerifC02Node{c}
		return n
	}
	for i, k := 0, r.Range(0, 3); i < k; i++ {
		n.Ch = append(n.Ch, genNode(r, depth-1, fnChance))
	}
	return n
}

func showNode(n index.VerifC02Node) string {
	switch n.Op {
	case "atom":
		cs := showHookCands(n.Cands)
		if cs == "-" {
			cs = ""
		}
		return fmt.Sprintf("a%d[%s]", n.Kind, cs)
	case "other":
		return "x"
	case "and", "or", "andline":
		var parts []string
		for _, c := range n.Ch {
			k := "0"
			if c.KnownSet && c.Known {
				k = "1"
			}
			parts = append(parts, k+showNode(c))
		}
		return map[string]string{"and": "A", "or": "O", "andline": "L"}[n.Op] + "(" + strings.Join(parts, ";") + ")"
	}
	return map[string]string{"not": "N", "novisit": "V", "filename": "F", "boost": "B", "symsubstr": "S"}[n.Op] + showNode(n.Ch[0])
}

func countAtoms(n index.VerifC02Node) int {
	c := 0
	if n.Op == "atom" {
		c = len(n.Cands)
	}
	for _, ch := range n.Ch {
		c += countAtoms(ch)
	}
	return c
}

func treeRunUnguarded(w *gen.Writer, d treeDetail, class string) {
	in := fmt.Sprintf("gathert %s %s", gen.Hex(d.Name), showNode(d.Root))
	got := index.VerifC02GatherTree(d.Name, d.Root)
	w.Emit(gen.Case{In: in, Impl: showHookCands(got), Class: class, Nontrivial: len(got) >= 2 && countAtoms(d.Root) > len(got), Detail: gen.Detail(struct {
		Tree treeDetail `json:"tree"`
	}{d})})
}

func treeCase(w *gen.Writer, r *gen.Rand) {
	d := treeDetail{Name: []byte(e2lib.GenName(r, r.Intn(3), r.Bool()))}
	d.Root = genNode(r, 3, gen.Pick(r, []int{0, 0, 2, 5}))
	treeRun(w, d, "gather-tree")
}

// ---- candidateMatch.matchContent: the verification of a substring candidate ----

type verifyDetail struct {
	Pattern []byte `json:"pattern"`
	Content []byte `json:"content"`
	Off     int    `json:"off"`
	CS      bool   `json:"cs"`
}

// naive reference: does the pattern occur at off — byte for byte, or rune for rune up to lower-casing — and how long
func verifyOracle(d verifyDetail) (int, bool) {
	if d.CS {
		if d.Off+len(d.Pattern) > len(d.Content) {
			return 0, false
		}
		for i := range d.Pattern {
			if d.Content[d.Off+i] != d.Pattern[i] {
				return 0, false
			}
		}
		return len(d.Pattern), true
	}
	j := d.Off
	for _, want := range string(d.Pattern) {
		if j >= len(d.Content) {
			return 0, false
		}
		c, sz := utf8.DecodeRune(d.Content[j:])
		if unicode.ToLower(c) != unicode.ToLower(want) {
			return 0, false
		}
		j += sz
	}
	return j - d.Off, true
}

func verifyRunUnguarded(w *gen.Writer, d verifyDetail, class string) {
	sz, ok, panicked := index.VerifC02MatchContent(d.Pattern, d.Content, uint32(d.Off), d.CS)
	impl := "no"
	if panicked {
		impl = "panic"
	} else if ok {
		impl = fmt.Sprintf("ok:%d", sz)
	}
	wsz, wok := verifyOracle(d)
	verdict, key := "", ""
	switch {
	case panicked:
		verdict, key = "matchContent panicked", "verify-panic"
	case ok && !wok:
		verdict, key = fmt.Sprintf("candidate at %d accepted (%d bytes) but the pattern does not occur there", d.Off, sz), "verify-accepts-non-occurrence"
	case !ok && wok:
		verdict, key = fmt.Sprintf("occurrence at %d rejected", d.Off), "verify-rejects-occurrence"
	case ok && int(sz) != wsz:
		verdict, key = fmt.Sprintf("occurrence at %d: match length %d, want %d", d.Off, sz, wsz), "verify-length"
	}
	ascii := true
	for _, b := range append(append([]byte(nil), d.Pattern...), d.Content...) {
		if b >= 0x80 {
			ascii = false
		}
	}
	in := ""
	if ascii { // the Lean model of the verifier covers ASCII texts; the rest is judged by the oracle above
		in = fmt.Sprintf("verify %d %s %s %d", map[bool]int{false: 0, true: 1}[d.CS], gen.Hex(d.Pattern), gen.Hex(d.Content), d.Off)
	}
	w.Emit(gen.Case{In: in, Impl: impl, Go: verdict, Key: key, Class: class, Nontrivial: len(d.Pattern) >= 3, Detail: gen.Detail(struct {
		Verify verifyDetail `json:"verify"`
	}{d})})
}

func verifyRun(w *gen.Writer, d verifyDetail, class string) {
	e2lib.Guard(w, class, struct {
		Verify verifyDetail `json:"verify"`
	}{d}, func() { verifyRunUnguarded(w, d, class) })
}

var verifyPunct = []string{"[", "]", "{", "}", "\\", "|", "^", "~", "@", "`", "_", "\x7f", "\n", "*", "\t", ")", "\r", "-", "(", "0", "1", ";", "=", ".", "!", "\x1b"}

func verifyCase(w *gen.Writer, r *gen.Rand) {
	ascii := r.Chance(3, 4)
	var content []byte
	for i, n := 0, r.Range(2, 12); i < n; i++ {
		switch {
		case r.Chance(1, 3):
			content = append(content, gen.Pick(r, verifyPunct)...)
		case !ascii && r.Chance(1, 3):
			content = append(content, gen.Pick(r, []string{"é", "É", "été", "Жук", "жук", "日本", "K", "😀"})...)
		default:
			content = append(content, gen.Pick(r, []string{"foo", "Foo", "BAR", "bar", "end", "start", "a_b", "k1", "x", "If", "main"})...)
		}
	}
	// a piece of the content on rune boundaries
	off := r.Intn(len(content))
	for off > 0 && !utf8.RuneStart(content[off]) {
		off--
	}
	end := off
	for k, n := 0, r.Range(1, 8); k < n && end < len(content); k++ {
		_, sz := utf8.DecodeRune(content[end:])
		end += sz
	}
	pat := append([]byte(nil), content[off:end]...)
	d := verifyDetail{Content: content, Off: off, CS: r.Chance(1, 3)}
	class := "verify/exact"
	switch r.Intn(8) {
	case 0, 1: // exact
	case 2, 3: // letters in the other case
		class = "verify/other-case"
		if r.Bool() {
			pat = bytes.ToUpper(pat)
		} else {
			pat = bytes.ToLower(pat)
		}
	case 4, 5: // one non-letter byte replaced by its bit-0x20 counterpart: looks like a case pair, is none
		class = "verify/near-miss-bit20"
		var idx []int
		for i, b := range pat {
			if b < 0x80 && !(b >= 'A' && b <= 'Z' || b >= 'a' && b <= 'z') && b^0x20 != 0 {
				idx = append(idx, i)
			}
		}
		if len(idx) > 0 {
			pat[gen.Pick(r, idx)] ^= 0x20
		} else {
			class = "verify/exact"
		}
	case 6: // one ASCII byte off by one, or one multi-byte rune replaced by its successor code point
		class = "verify/near-miss-other"
		rs := []rune(string(pat))
		var nonASCII []int
		for i, c := range rs {
			if c >= 0x80 && utf8.ValidRune(c+1) && utf8.RuneLen(c+1) == utf8.RuneLen(c) {
				nonASCII = append(nonASCII, i)
			}
		}
		if len(nonASCII) > 0 && r.Bool() {
			class = "verify/near-miss-rune"
			rs[gen.Pick(r, nonASCII)]++
			pat = []byte(string(rs))
		} else {
			i := r.Intn(len(pat))
			if pat[i] < 0x7f && pat[i] > 1 {
				pat[i] += byte(1 - 2*r.Intn(2))
			}
		}
	default: // the pattern sticks out of the content (case-insensitive only: the case-sensitive path slices)
		class = "verify/past-end"
		d.Off = len(content) - len(content[off:end])
		for d.Off > 0 && !utf8.RuneStart(content[d.Off]) {
			d.Off--
		}
		pat = append(append([]byte(nil), content[d.Off:]...), 'z')
		d.CS = false
	}
	if !utf8.Valid(pat) {
		pat = append([]byte(nil), content[off:end]...)
		class = "verify/exact"
	}
	d.Pattern = pat
	verifyRun(w, d, class)
}

// ---- breakMatchesOnNewlines ----

type breakDetail struct {
	Text  []byte               `json:"text"`
	Cands []index.VerifC02Cand `json:"cands"`
}

func breakRunUnguarded(w *gen.Writer, d breakDetail, class string) {
	in := fmt.Sprintf("brk %s %s", gen.Hex(d.Text), showHookCands(d.Cands))
	got := index.VerifC02BreakOnNewlines(d.Text, d.Cands)
	w.Emit(gen.Case{In: in, Impl: showHookCands(got), Class: class, Nontrivial: len(got) > len(d.Cands), Detail: gen.Detail(struct {
		Break breakDetail `json:"break"`
	}{d})})
}

func breakCase(w *gen.Writer, r *gen.Rand) {
	text := e2lib.GenText(r, e2lib.Profile{MaxLines: 6, MaxTokens: 3, CRLF: r.Bool()})
	if r.Chance(1, 5) {
		text = []byte(gen.Pick(r, []string{"\n", "\n\n", "a\n", "\na", "a\n\nb\n", "ab"}))
	}
	var cs []index.VerifC02Cand
	n := r.Range(0, 5)
	for i := 0; i < n && len(text) > 0; i++ {
		off := r.Intn(len(text) + 1)
		sz := r.Intn(min(len(text)-off, 14) + 1)
		cs = append(cs, index.VerifC02Cand{Off: uint32(off), Sz: uint32(sz)})
	}
	breakRun(w, breakDetail{text, cs}, "break")
}

// ---- makeRuneOffsetMap / lookup ----

type romDetail struct {
	Offs []uint32 `json:"offs"`
	Rs   []uint32 `json:"rs"`
}

func romRunUnguarded(w *gen.Writer, d romDetail, class string) {
	m, res := index.VerifC02RuneOffsetMap(d.Offs, d.Rs)
	pairs := func(ps [][2]uint32) string {
		if len(ps) == 0 {
			return "-"
		}
		var sb []string
		for _, p := range ps {
			sb = append(sb, fmt.Sprintf("%d.%d", p[0], p[1]))
		}
		return strings.Join(sb, ",")
	}
	in := fmt.Sprintf("rom %s %s", gen.NatList(d.Offs), gen.NatList(d.Rs))
	w.Emit(gen.Case{In: in, Impl: fmt.Sprintf("m=%s res=%s", pairs(m), pairs(res)), Class: class, Nontrivial: len(m) > 0, Detail: gen.Detail(struct {
		Rom romDetail `json:"rom"`
	}{d})})
}

func romCase(w *gen.Writer, r *gen.Rand) {
	n := r.Range(0, 12)
	var offs []uint32
	cur := uint32(0)
	for i := 0; i < n; i++ {
		offs = append(offs, cur)
		switch r.Intn(4) {
		case 0, 1:
			cur += 100 // an all-ASCII span
		case 2:
			cur += uint32(r.Range(100, 400))
		default:
			cur += uint32(gen.Pick(r, []int{101, 200, 300, 400, 199}))
		}
	}
	var rs []uint32
	for i := 0; i < 8; i++ {
		rs = append(rs, uint32(r.Intn(100*(n+1)+1)))
	}
	for i := 0; i <= n; i++ {
		rs = append(rs, uint32(100*i), uint32(100*i+99))
	}
	romRun(w, romDetail{offs, rs}, "runeoffsetmap")
}

// ---- findOffset on a real shard ----

type findoffDetail struct {
	Docs []e2lib.Doc `json:"docs"`
	Doc  int         `json:"doc"`
	Name bool        `json:"name"`
}

func hexList(bs [][]byte) string {
	if len(bs) == 0 {
		return "_"
	}
	var p []string
	for _, b := range bs {
		p = append(p, gen.Hex(b))
	}
	return strings.Join(p, ";")
}

func findoffRunUnguarded(w *gen.Writer, docs []e2lib.Doc, class string) {
	s, err := e2lib.BuildShard(docs)
	if err != nil {
		w.Emit(gen.Case{Go: "cannot build shard: " + err.Error(), Key: "harness-build", Class: class})
		return
	}
	defer s.Close()
	var contents, names [][]byte
	for _, d := range docs {
		contents = append(contents, d.Content)
		names = append(names, []byte(d.Name))
	}
	for i, d := range docs {
		for _, fn := range []bool{false, true} {
			text := d.Content
			if fn {
				text = []byte(d.Name)
			}
			nr := utf8.RuneCount(text)
			// every rune index of the document, and the end-of-document index nr — except at the very end of a
			// corpus whose rune count is a multiple of 100: no sample exists for that index and the search never asks
			// for it (a match starts at an existing rune)
			last := nr
			total := 0
			for _, dd := range docs {
				if fn {
					total += utf8.RuneCountInString(dd.Name)
				} else {
					total += utf8.RuneCount(dd.Content)
				}
			}
			if i == len(docs)-1 && total%100 == 0 && nr > 0 {
				last = nr - 1
			}
			rs := make([]uint32, 0, nr+1)
			for k := 0; k <= last; k++ {
				rs = append(rs, uint32(k))
			}
			offs, _, err := index.VerifC02FindOffsets(s, uint32(i), fn, rs)
			impl := gen.NatList(offs)
			if err != nil {
				impl = "ERR"
			}
			// Go oracle: the byte offset of the r-th rune, by decoding the text from its start
			verdict, key := "", ""
			if err == nil {
				pos := 0
				for k := 0; k <= last; k++ {
					if int(offs[k]) != pos {
						verdict = fmt.Sprintf("findOffset(%v, %d) = %d, the rune starts at byte %d (document %d)", fn, k, offs[k], pos, i)
						key = "findoffset"
						break
					}
					_, sz := utf8.DecodeRune(text[pos:])
					pos += sz
				}
			} else {
				verdict, key = "findOffset failed: "+err.Error(), "findoffset-error"
			}
			in := fmt.Sprintf("findoff %d %d %s %s", map[bool]int{false: 0, true: 1}[fn], i, hexList(contents), hexList(names))
			w.Emit(gen.Case{In: in, Impl: impl, Go: verdict, Key: key, Class: class, Nontrivial: nr > 100 && len(text) > nr,
				Detail: gen.Detail(findoffDetail{docs, i, fn})})
		}
	}
}

func findoffCase(w *gen.Writer, r *gen.Rand) {
	n := r.Range(1, 4)
	var docs []e2lib.Doc
	ascii := r.Chance(1, 6)
	for i := 0; i < n; i++ {
		p := e2lib.RandProfile(r, r.Chance(2, 3))
		if ascii {
			p.ASCII, p.Heavy4 = true, false
		}
		docs = append(docs, e2lib.Doc{Name: e2lib.GenName(r, i, ascii), Content: e2lib.GenText(r, p)})
	}
	findoffRun(w, docs, "findoffset")
}

// ---- corpus / replay ----

type corpusEntry struct {
	Kind    string           `json:"kind"` // "e2e" | "findoff"
	E2E     *e2lib.E2ECase   `json:"e2e,omitempty"`
	Findoff *findoffDetail   `json:"findoff,omitempty"`
	Case    *json.RawMessage `json:"case,omitempty"` // a replay file written by ./check
}

func runEntry(w *gen.Writer, path string, class string) {
	b, err := os.ReadFile(path)
	if err != nil {
		panic(err)
	}
	var e corpusEntry
	if err := json.Unmarshal(b, &e); err != nil {
		panic(fmt.Sprintf("%s: %v", path, err))
	}
	var comp struct {
		Gather *gatherDetail `json:"gather"`
		Break  *breakDetail  `json:"break"`
		Rom    *romDetail    `json:"rom"`
		Tree   *treeDetail   `json:"tree"`
		Verify *verifyDetail `json:"verify"`
	}
	if e.Case != nil { // replay file: the case's detail says what to re-run
		var c struct {
			Detail json.RawMessage `json:"detail"`
		}
		if err := json.Unmarshal(*e.Case, &c); err != nil {
			panic(err)
		}
		var ec e2lib.E2ECase
		var fd findoffDetail
		if json.Unmarshal(c.Detail, &ec) == nil && ec.Q.Op != "" {
			e.E2E = &ec
		} else if json.Unmarshal(c.Detail, &fd) == nil && len(fd.Docs) > 0 {
			e.Findoff = &fd
		} else {
			json.Unmarshal(c.Detail, &comp)
		}
	}
	switch {
	case e.E2E != nil:
		e2lib.RunE2E(w, "C02", *e.E2E, class)
	case e.Findoff != nil:
		findoffRun(w, e.Findoff.Docs, class)
	case comp.Gather != nil:
		gatherRun(w, *comp.Gather, class)
	case comp.Break != nil:
		breakRun(w, *comp.Break, class)
	case comp.Rom != nil:
		romRun(w, *comp.Rom, class)
	case comp.Tree != nil:
		treeRun(w, *comp.Tree, class)
	case comp.Verify != nil:
		verifyRun(w, *comp.Verify, class)
	default:
		panic(path + ": nothing to run")
	}
}

func main() {
	f := gen.ParseFlags()
	w := gen.NewWriter(f.Out)
	defer w.Close()
	if f.Replay != "" {
		runEntry(w, f.Replay, "replay")
		return
	}
	if f.Corpus != "" {
		files, _ := filepath.Glob(filepath.Join(f.Corpus, "*.json"))
		sort.Strings(files)
		for _, p := range files {
			runEntry(w, p, "corpus")
		}
	}
	r := gen.NewRand(f.Seed)
	for i, n := 0, f.N(1500, 40000); i < n; i++ {
		gatherCase(w, r)
	}
	for i, n := 0, f.N(600, 10000); i < n; i++ {
		breakCase(w, r)
	}
	for i, n := 0, f.N(400, 6000); i < n; i++ {
		romCase(w, r)
	}
	for i, n := 0, f.N(60, 500); i < n; i++ {
		findoffCase(w, r)
	}
	// end to end
	files := 0
	for i, n := 0, f.N(120, 1000); i < n; i++ {
		docs := e2lib.GenCorpus(r)
		for k := 0; k < 6; k++ {
			q, class := e2lib.GenQuery(r, docs)
			c := e2lib.E2ECase{Docs: docs, Query: e2lib.PrintQ(q), Q: e2lib.ToJSON(q), Chunks: r.Bool(), Ctx: r.Intn(4)}
			files += e2lib.RunE2E(w, "C02", c, "e2e/"+class)
		}
	}
	// near-miss case-insensitive patterns (one non-letter byte replaced by its bit-0x20 counterpart), with a decoy
	// document that lets the trigram stage propose the near-miss position
	for i, n := 0, f.N(40, 400); i < n; i++ {
		docs := e2lib.GenCorpus(r)
		for k := 0; k < 3; k++ {
			q, docs2, ok := e2lib.GenNearMiss(r, docs)
			if k == 2 { // the multi-byte flavour
				if q2, d2, ok2 := e2lib.GenNearMissRune(r, docs); ok2 {
					q, docs2, ok = q2, d2, true
					w.Count("e2e/near-miss-ci rune flavour", 1)
				}
			}
			if !ok {
				w.Count("e2e/near-miss-ci: no site", 1)
				continue
			}
			w.Count("e2e/near-miss-ci queries", 1)
			c := e2lib.E2ECase{Docs: docs2, Query: e2lib.PrintQ(q), Q: e2lib.ToJSON(q), Chunks: r.Bool(), Ctx: r.Intn(4)}
			files += e2lib.RunE2E(w, "C02", c, "e2e/near-miss-ci")
		}
	}
	w.Count("e2e-files-reported", files)
	for i, n := 0, f.N(1500, 40000); i < n; i++ {
		treeCase(w, r)
	}
	for i, n := 0, f.N(3000, 60000); i < n; i++ {
		verifyCase(w, r)
	}
}

func gatherRun(w *gen.Writer, d gatherDetail, class string) {
	e2lib.Guard(w, class, struct {
		Gather gatherDetail `json:"gather"`
	}{d}, func() { gatherRunUnguarded(w, d, class) })
}

func breakRun(w *gen.Writer, d breakDetail, class string) {
	e2lib.Guard(w, class, struct {
		Break breakDetail `json:"break"`
	}{d}, func() { breakRunUnguarded(w, d, class) })
}

func romRun(w *gen.Writer, d romDetail, class string) {
	e2lib.Guard(w, class, struct {
		Rom romDetail `json:"rom"`
	}{d}, func() { romRunUnguarded(w, d, class) })
}

func treeRun(w *gen.Writer, d treeDetail, class string) {
	e2lib.Guard(w, class, struct {
		Tree treeDetail `json:"tree"`
	}{d}, func() { treeRunUnguarded(w, d, class) })
}

func findoffRun(w *gen.Writer, docs []e2lib.Doc, class string) {
	e2lib.Guard(w, class, findoffDetail{docs, 0, false}, func() { findoffRunUnguarded(w, docs, class) })
}
