// C20 harness: the real multiScheduler (search/sched.go) driven three ways.
//
//	dir    – a director issues Acquire / cancel / deadline / Yield / Release one at a time from generated scripts and
//	         records, after every operation, which calls returned and the exact occupancy of both semaphores; the Lean
//	         director model must predict every observation, and the Lean statement (Spec.checkRun) is evaluated on them.
//	trace  – truly concurrent searches (goroutines) with cancellation and forced time-slice expiry log their
//	         acquire/release events; the Lean driver checks the log is a path of the small-step model and that exact
//	         counter readings agree.
//	e2e    – the real shardedSearcher (Search / StreamSearch / List through the public Streamer API) over stub shards with a
//	         real, tiny interactive time slice, concurrent requests with cancellation; a sampler watches both semaphores;
//	         Go oracle only (bounded occupancy, nothing held or queued at quiescence, uncancelled searches complete).
package main

import (
	"context"
	"encoding/json"
	"fmt"
	"io"
	"log"
	"os"
	"path/filepath"
	"runtime"
	"sort"
	"strings"
	"sync"
	"sync/atomic"
	"time"

	"github.com/sourcegraph/zoekt"
	"github.com/sourcegraph/zoekt/query"
	"github.com/sourcegraph/zoekt/search"

	"verifharness/gen"
)

// ---------------------------------------------------------------------------------------------------------------
// tripwire contexts
//
// lateCtx is an ordinary cancellable context that cancels itself the moment somebody consults Err() while it is not done.
// multiScheduler and semaphore.Weighted consult Err() only on their failure paths (after Done() was seen closed), so on
// the unchanged code a tripwire never fires. Code that looks at the context again after the semaphore granted the slot
// makes the cancellation land exactly between "slot granted" and "Acquire / Yield returns" - the interleaving in which
// a slot is most easily forgotten - deterministically instead of by a lucky race.
type lateCtx struct {
	context.Context
	mu     sync.Mutex
	fired  bool
	onFire func() // cancels the context (and logs, for the trace part); called once, before Err() returns
}

func newLateCtx(parent context.Context) (*lateCtx, context.CancelFunc) {
	ctx, cancel := context.WithCancel(parent)
	lc := &lateCtx{Context: ctx}
	lc.onFire = cancel
	return lc, cancel
}

func (c *lateCtx) Err() error {
	c.mu.Lock()
	if c.Context.Err() == nil && !c.fired {
		c.fired = true
		c.onFire()
	}
	c.mu.Unlock()
	return c.Context.Err()
}

func (c *lateCtx) Fired() bool {
	c.mu.Lock()
	defer c.mu.Unlock()
	return c.fired
}

// ---------------------------------------------------------------------------------------------------------------
// director

type callRes struct {
	proc  *search.VerifProc
	err   error
	panic string
}

type dproc struct {
	ctx     context.Context
	cancel  context.CancelFunc
	proc    *search.VerifProc
	pending chan callRes // outstanding call, nil if none
	pendAcq bool         // the outstanding call is Acquire (else Yield)
	st      string       // idle | run | failed  (valid when pending == nil)
	late    *lateCtx     // non-nil: the search's context is a tripwire
	fireSeen bool
}

type director struct {
	s     *search.VerifSched
	procs []*dproc
	npend int
	stuck bool
	panic string
	nfired int
}

func newDirector(capacity int64, batchdiv int, dones, lates []bool) *director {
	d := &director{s: search.VerifNewMultiScheduler(capacity, batchdiv, time.Hour)}
	for i, dn := range dones {
		if i < len(lates) && lates[i] {
			lc, cancel := newLateCtx(context.Background())
			if dn {
				cancel()
			}
			d.procs = append(d.procs, &dproc{ctx: lc, cancel: cancel, st: "idle", late: lc})
			continue
		}
		ctx, cancel := context.WithCancel(context.Background())
		if dn {
			cancel()
		}
		d.procs = append(d.procs, &dproc{ctx: ctx, cancel: cancel, st: "idle"})
	}
	return d
}

func resLetter(r callRes) string {
	switch {
	case r.panic != "":
		return "P"
	case r.err != nil:
		return "e"
	default:
		return "o"
	}
}

// collect receives the result of p's outstanding call if it is there (block = wait for it, bounded).
func (d *director) collect(i int, block bool) (string, bool) {
	p := d.procs[i]
	if p.pending == nil {
		return "", false
	}
	var r callRes
	if block {
		select {
		case r = <-p.pending:
		case <-time.After(30 * time.Second):
			d.stuck = true
			return "", false
		}
	} else {
		select {
		case r = <-p.pending:
		default:
			return "", false
		}
	}
	p.pending = nil
	d.npend--
	if r.panic != "" && d.panic == "" {
		d.panic = r.panic
	}
	if p.pendAcq {
		if r.err == nil && r.panic == "" {
			p.proc = r.proc
			p.st = "run"
		} else {
			p.st = "failed"
		}
	} else {
		p.st = "run"
	}
	return resLetter(r), true
}

// settle waits until every outstanding call has either returned or is queued on a semaphore.
func (d *director) settle(got map[int]string) search.VerifSemaSnap {
	deadline := time.Now().Add(30 * time.Second)
	for spins := 0; ; spins++ {
		for i := range d.procs {
			if l, ok := d.collect(i, false); ok {
				got[i] = l
			}
		}
		snap := d.s.SnapshotAtomic()
		if d.npend == snap.WaitI+snap.WaitB {
			// re-check that nothing returned in between (a queued call can only return through an operation of the
			// director, so this is stable)
			return snap
		}
		if time.Now().After(deadline) {
			d.stuck = true
			return snap
		}
		if spins < 200 {
			runtime.Gosched()
		} else {
			time.Sleep(50 * time.Microsecond)
		}
	}
}

func guard(f func()) (pan string) {
	defer func() {
		if r := recover(); r != nil {
			pan = fmt.Sprint(r)
		}
	}()
	f()
	return ""
}

// do performs one operation and returns the observation string `<self>/<woke>/<curI>.<curB>.<wI>.<wB>`.
func (d *director) do(op byte, i int) string {
	p := d.procs[i]
	got := map[int]string{}
	self := "-"
	switch op {
	case 'a':
		ch := make(chan callRes, 1)
		p.pending, p.pendAcq = ch, true
		d.npend++
		go func() {
			var r callRes
			r.panic = guard(func() { r.proc, r.err = d.s.Acquire(p.ctx) })
			ch <- r
		}()
	case 'y':
		ch := make(chan callRes, 1)
		p.pending, p.pendAcq = ch, false
		d.npend++
		pr := p.proc
		go func() {
			var r callRes
			r.panic = guard(func() { r.err = pr.Yield(p.ctx) })
			ch <- r
		}()
	case 'c':
		p.cancel()
		if p.pending != nil {
			// a cancelled context makes every blocking call return
			if l, ok := d.collect(i, true); ok {
				got[i] = l
			}
		}
	case 'x':
		p.proc.Expire()
	case 'r':
		if pan := guard(func() { p.proc.Release() }); pan != "" && d.panic == "" {
			d.panic = pan
		}
	}
	snap := d.settle(got)
	if op == 'a' || op == 'y' {
		if l, ok := got[i]; ok {
			self = l
			delete(got, i)
		} else {
			self = "b"
		}
	}
	var ids []int
	for k := range got {
		ids = append(ids, k)
	}
	sort.Ints(ids)
	var woke []string
	for _, k := range ids {
		woke = append(woke, fmt.Sprintf("%d%s", k, got[k]))
	}
	w := "-"
	if len(woke) > 0 {
		w = strings.Join(woke, "+")
	}
	// tripwire contexts that fired during this operation
	var fired []string
	for k, q := range d.procs {
		if q.late != nil && !q.fireSeen && q.late.Fired() {
			q.fireSeen = true
			fired = append(fired, fmt.Sprint(k))
		}
	}
	o := fmt.Sprintf("%s/%s/%d.%d.%d.%d", self, w, snap.CurI, snap.CurB, snap.WaitI, snap.WaitB)
	if len(fired) > 0 {
		d.nfired += len(fired)
		o += "/f" + strings.Join(fired, "+")
	}
	return o
}

type dirCase struct {
	Cap      int64  `json:"cap"`
	Batchdiv int    `json:"batchdiv"`
	Dones    string `json:"dones"`
	Lates    string `json:"lates,omitempty"` // which searches have a tripwire context
	Ops      string `json:"ops"`
}

// legalOps lists the operations the client may issue on search i now.
func (d *director) legalOps(i int, misuse bool) []byte {
	p := d.procs[i]
	if p.pending != nil {
		return []byte{'c'}
	}
	switch p.st {
	case "idle":
		return []byte{'a', 'a', 'a', 'c'}
	case "run":
		return []byte{'x', 'y', 'y', 'r', 'c'}
	}
	return nil
}

func bits(b []bool) string {
	if len(b) == 0 {
		return "-"
	}
	var sb strings.Builder
	for _, x := range b {
		if x {
			sb.WriteByte('1')
		} else {
			sb.WriteByte('0')
		}
	}
	return sb.String()
}

// genDir generates and runs one director script; ops are chosen among the legal ones as the run unfolds.
func genDir(r *gen.Rand, misuse bool) (dirCase, string, *director) {
	capacity := int64(r.Range(1, 4))
	if r.Chance(1, 5) {
		capacity = int64(r.Range(5, 9))
	}
	batchdiv := gen.Pick(r, []int{0, 0, 1, 1, 2, 2, 3, 4, 8})
	n := r.Range(1, int(capacity)*2+4)
	dones := make([]bool, n)
	for i := range dones {
		dones[i] = r.Chance(1, 12)
	}
	lates := make([]bool, n)
	for i := range lates {
		lates[i] = !dones[i] && r.Chance(1, 3)
	}
	d := newDirector(capacity, batchdiv, dones, lates)
	released := make([]bool, n)
	var ops, obs []string
	emit := func(op byte, i int) {
		ops = append(ops, fmt.Sprintf("%c%d", op, i))
		obs = append(obs, d.do(op, i))
		if op == 'r' {
			released[i] = true
		}
	}
	steps := r.Range(1, 40)
	for k := 0; k < steps && !d.stuck; k++ {
		i := r.Intn(n)
		legal := d.legalOps(i, misuse)
		if len(legal) == 0 {
			continue
		}
		op := gen.Pick(r, legal)
		if op == 'c' && !r.Chance(1, 3) {
			continue // keep cancellations rarer than progress
		}
		if !misuse && released[i] && (op == 'y' || op == 'x') {
			continue // protocol: no Yield after Release
		}
		if op == 'r' && !misuse && released[i] && !r.Chance(1, 4) {
			continue
		}
		if op == 'x' {
			// deadline fires, usually followed by the Yield that notices it
			emit('x', i)
			if r.Chance(3, 4) {
				emit('y', i)
			}
			continue
		}
		emit(op, i)
	}
	// wind down: cancel what is blocked, release what runs
	for i := range d.procs {
		if d.stuck {
			break
		}
		if d.procs[i].pending != nil {
			emit('c', i)
		}
	}
	for i := range d.procs {
		if d.stuck {
			break
		}
		if d.procs[i].pending == nil && d.procs[i].st == "run" {
			emit('r', i)
		}
	}
	dc := dirCase{Cap: capacity, Batchdiv: batchdiv, Dones: bits(dones), Lates: bits(lates), Ops: join(ops)}
	snap := d.s.Snapshot()
	impl := fmt.Sprintf("caps=%d.%d obs=%s", snap.SizeI, snap.SizeB, join(obs))
	return dc, impl, d
}

func lateStr(s string) string {
	if s == "" {
		return "-"
	}
	return s
}

func join(x []string) string {
	if len(x) == 0 {
		return "-"
	}
	return strings.Join(x, ",")
}

// replayDir re-runs a stored script. Operations a client cannot issue in the state the real scheduler is in now (the
// script was recorded against a possibly different scheduler) are dropped, so that the replayed case is a legal script.
func replayDir(dc dirCase) (dirCase, string, *director) {
	var dones []bool
	if dc.Dones != "-" {
		for _, c := range dc.Dones {
			dones = append(dones, c == '1')
		}
	}
	var lates []bool
	if dc.Lates != "-" {
		for _, c := range dc.Lates {
			lates = append(lates, c == '1')
		}
	}
	d := newDirector(dc.Cap, dc.Batchdiv, dones, lates)
	var obs, done []string
	if dc.Ops != "-" {
		for _, o := range strings.Split(dc.Ops, ",") {
			var i int
			fmt.Sscanf(o[1:], "%d", &i)
			if i >= len(d.procs) || d.stuck {
				break
			}
			p := d.procs[i]
			switch o[0] {
			case 'a':
				if p.pending != nil || p.st != "idle" {
					continue
				}
			case 'y', 'x', 'r':
				if p.pending != nil || p.st != "run" {
					continue
				}
			}
			done = append(done, o)
			obs = append(obs, d.do(o[0], i))
		}
	}
	// wind down as the generator does
	for i := range d.procs {
		if !d.stuck && d.procs[i].pending != nil {
			done = append(done, fmt.Sprintf("c%d", i))
			obs = append(obs, d.do('c', i))
		}
	}
	for i := range d.procs {
		if !d.stuck && d.procs[i].pending == nil && d.procs[i].st == "run" {
			done = append(done, fmt.Sprintf("r%d", i))
			obs = append(obs, d.do('r', i))
		}
	}
	dc.Ops = join(done)
	snap := d.s.Snapshot()
	return dc, fmt.Sprintf("caps=%d.%d obs=%s", snap.SizeI, snap.SizeB, join(obs)), d
}

func emitDir(w *gen.Writer, dc dirCase, impl string, d *director, class string) {
	c := gen.Case{
		In:     fmt.Sprintf("dir %d %d %s %s late=%s", dc.Cap, dc.Batchdiv, dc.Dones, dc.Ops, lateStr(dc.Lates)),
		Impl:   impl,
		Class:  class,
		Detail: gen.Detail(map[string]any{"kind": "dir", "case": dc}),
	}
	c.Nontrivial = strings.Contains(impl, "b/") && strings.Contains(dc.Ops, "y")
	if d.panic != "" {
		c.Go, c.Key = "panic in scheduler call: "+d.panic, "panic"
	} else if d.stuck {
		c.Go, c.Key = "a call neither returned nor queued within 30s (or a cancelled call did not return)", "stuck"
	}
	if strings.Contains(impl, "b/") {
		w.Count("dir:some-call-blocked", 1)
	}
	if strings.Contains(dc.Lates, "1") {
		w.Count("dir:with-tripwire-contexts", 1)
		// a tripwire search that was granted a slot straight away / after queueing / on its way to batch
		if d.nfired > 0 {
			w.Count("dir:tripwire-fired", 1)
		}
	}
	if strings.Contains(impl, "e/") || strings.Contains(impl, "e+") || strings.Contains(impl, "e,") {
		w.Count("dir:some-call-failed", 1)
	}
	w.Emit(c)
}

// ---------------------------------------------------------------------------------------------------------------
// concurrent trace

type tracer struct {
	mu       sync.Mutex
	s        *search.VerifSched
	ev       []string
	acqIn    int // Acquire / Yield calls in flight (entry logged or counted, return not yet logged)
	relIn    int // Release calls (and the release half of Yield) in flight
	snaps    int
	maxI     int64
	maxB     int64
	overflow string
	fired    atomic.Int64
}

// maybeSnap (mu held): exact reading iff no release is in progress and every in-flight acquire is queued.
func (t *tracer) maybeSnap() {
	if t.relIn != 0 {
		return
	}
	sn := t.s.SnapshotAtomic()
	if sn.CurI > t.maxI {
		t.maxI = sn.CurI
	}
	if sn.CurB > t.maxB {
		t.maxB = sn.CurB
	}
	if sn.CurI > sn.SizeI || sn.CurB > sn.SizeB {
		t.overflow = fmt.Sprintf("occupancy %d/%d interactive, %d/%d batch", sn.CurI, sn.SizeI, sn.CurB, sn.SizeB)
	}
	if t.acqIn == sn.WaitI+sn.WaitB {
		t.ev = append(t.ev, fmt.Sprintf("s%d.%d", sn.CurI, sn.CurB))
		t.snaps++
	}
}

func (t *tracer) log(e string, dAcq, dRel int) {
	t.mu.Lock()
	if e != "" {
		t.ev = append(t.ev, e)
	}
	t.acqIn += dAcq
	t.relIn += dRel
	t.maybeSnap()
	t.mu.Unlock()
}

type traceCfg struct {
	Cap      int64 `json:"cap"`
	Batchdiv int   `json:"batchdiv"`
	Workers  int   `json:"workers"`
	Rounds   int   `json:"rounds"`
	Seed     uint64 `json:"seed"`
}

func runTrace(cfg traceCfg) (in, impl, goVerdict, key string, stats map[string]int) {
	s := search.VerifNewMultiScheduler(cfg.Cap, cfg.Batchdiv, time.Hour)
	t := &tracer{s: s}
	var next atomic.Int64
	var wg sync.WaitGroup
	var panics atomic.Value
	root := gen.NewRand(cfg.Seed)
	for wk := 0; wk < cfg.Workers; wk++ {
		r := root.Fork()
		wg.Add(1)
		go func() {
			defer wg.Done()
			defer func() {
				if e := recover(); e != nil {
					panics.Store(fmt.Sprint(e))
				}
			}()
			think := func() {
				switch r.Intn(4) {
				case 0:
				case 1:
					runtime.Gosched()
				case 2:
					time.Sleep(time.Duration(r.Intn(200)) * time.Microsecond)
				case 3:
					for k := 0; k < r.Intn(2000); k++ {
						_ = k * k
					}
				}
			}
			for round := 0; round < cfg.Rounds; round++ {
				p := int(next.Add(1) - 1)
				var ctx context.Context
				var cancel context.CancelFunc
				var lc *lateCtx
				if r.Chance(1, 4) {
					lc, cancel = newLateCtx(context.Background())
					ctx = lc
				} else {
					ctx, cancel = context.WithCancel(context.Background())
				}
				var cancelOnce sync.Once
				doCancel := func() {
					cancelOnce.Do(func() {
						t.log(fmt.Sprintf("cn%d", p), 0, 0) // logged before the context is done
						cancel()
					})
				}
				if lc != nil {
					lc.onFire = func() { t.fired.Add(1); doCancel() } // a tripwire that fires is a cancellation like any other
				}
				var tm *time.Timer
				switch r.Intn(6) {
				case 0:
					doCancel() // already done at Acquire
				case 1, 2:
					tm = time.AfterFunc(time.Duration(r.Intn(600))*time.Microsecond, doCancel)
				}
				t.log("", 1, 0)
				proc, err := s.Acquire(ctx)
				if err != nil {
					t.log(fmt.Sprintf("ae%d", p), -1, 0)
					if tm != nil {
						tm.Stop()
					}
					doCancel()
					continue
				}
				t.log(fmt.Sprintf("ao%d", p), -1, 0)
				think()
				if r.Chance(2, 3) {
					// not yet expired: Yield must be a no-op
					if r.Chance(1, 3) {
						if err := proc.Yield(ctx); err != nil {
							panics.Store("Yield before the deadline returned an error: " + err.Error())
						}
					}
					proc.Expire()
					// the release half of Yield is over once the search is queued on batch or Yield returned (see maybeSnap)
					t.log(fmt.Sprintf("yb%d", p), 1, 0)
					err := proc.Yield(ctx)
					if err != nil {
						t.log(fmt.Sprintf("ye%d", p), -1, 0)
					} else {
						t.log(fmt.Sprintf("yo%d", p), -1, 0)
						if !proc.Yielded() {
							panics.Store("Yield returned nil after the deadline but the process is not marked yielded")
						}
					}
					think()
					if r.Chance(1, 4) {
						_ = proc.Yield(ctx) // after a successful yield: no-op; after a failed one: retries (ctx done: fails)
					}
				}
				t.log(fmt.Sprintf("rl%d", p), 0, 1)
				proc.Release()
				t.log("", 0, -1)
				if r.Chance(1, 5) {
					t.log(fmt.Sprintf("rl%d", p), 0, 1)
					proc.Release() // Release twice: must not give back a second slot
					t.log("", 0, -1)
				}
				if tm != nil {
					tm.Stop()
				}
				doCancel()
			}
		}()
	}
	waited := make(chan struct{})
	go func() { wg.Wait(); close(waited) }()
	select {
	case <-waited:
	case <-time.After(30 * time.Second):
		// searches are blocked for good (leaked slots): report and abandon them
		t.mu.Lock()
		ev := append([]string(nil), t.ev...)
		t.mu.Unlock()
		sn := s.Snapshot()
		return fmt.Sprintf("trace %d %d %d %s", sn.SizeI, sn.SizeB, int(next.Load()), join(ev)), fmt.Sprintf("cur=%d.%d", sn.CurI, sn.CurB),
			fmt.Sprintf("searches still blocked after 30s with %d interactive / %d batch slots held and %d+%d queued", sn.CurI, sn.CurB, sn.WaitI, sn.WaitB),
			"stuck", map[string]int{}
	}
	final := s.Snapshot()
	n := int(next.Load())
	in = fmt.Sprintf("trace %d %d %d %s", final.SizeI, final.SizeB, n, join(t.ev))
	impl = fmt.Sprintf("cur=%d.%d", final.CurI, final.CurB)
	stats = map[string]int{"trace:exact-snapshots": t.snaps, "trace:events": len(t.ev), "trace:tripwires-fired": int(t.fired.Load())}
	if t.maxI == final.SizeI {
		stats["trace:interactive-saturated"] = 1
	}
	if t.maxB == final.SizeB {
		stats["trace:batch-saturated"] = 1
	}
	if p, _ := panics.Load().(string); p != "" {
		goVerdict, key = "panic/contract: "+p, "panic"
	} else if t.overflow != "" {
		goVerdict, key = t.overflow, "over-capacity"
	} else if final.CurI != 0 || final.CurB != 0 || final.WaitI != 0 || final.WaitB != 0 {
		goVerdict, key = fmt.Sprintf("after all searches released: %+v", final), "leak-at-quiescence"
	}
	return
}

// ---------------------------------------------------------------------------------------------------------------
// end to end through shardedSearcher

type stubShard struct {
	name  string
	id    uint32
	delay time.Duration
	runs  *atomic.Int64
}

// shardFault is carried by a request's context: what every stub shard does for that request.
type shardFaultKey struct{}

func shardFault(ctx context.Context) string {
	f, _ := ctx.Value(shardFaultKey{}).(string)
	return f
}

func (s *stubShard) Search(ctx context.Context, q query.Q, opts *zoekt.SearchOptions) (*zoekt.SearchResult, error) {
	s.runs.Add(1)
	switch shardFault(ctx) {
	case "shard-panic":
		panic("verif: stub shard panics in Search")
	case "shard-error":
		return nil, fmt.Errorf("verif: stub shard fails in Search")
	}
	if s.delay > 0 {
		select {
		case <-ctx.Done():
			return &zoekt.SearchResult{Stats: zoekt.Stats{ShardsSkipped: 1}}, nil
		case <-time.After(s.delay):
		}
	}
	return &zoekt.SearchResult{
		Files:    []zoekt.FileMatch{{FileName: "f", Repository: s.name, RepositoryID: s.id}},
		RepoURLs: map[string]string{s.name: ""}, LineFragments: map[string]string{s.name: ""},
		Stats: zoekt.Stats{FileCount: 1, MatchCount: 1},
	}, nil
}

func (s *stubShard) List(ctx context.Context, q query.Q, opts *zoekt.ListOptions) (*zoekt.RepoList, error) {
	switch shardFault(ctx) {
	case "shard-panic":
		panic("verif: stub shard panics in List")
	case "shard-error":
		return nil, fmt.Errorf("verif: stub shard fails in List")
	}
	return &zoekt.RepoList{Repos: []*zoekt.RepoListEntry{{Repository: zoekt.Repository{Name: s.name, ID: s.id}}}}, nil
}
func (s *stubShard) Close()         {}
func (s *stubShard) String() string { return "stub:" + s.name }

type e2eCfg struct {
	Cap           int64  `json:"cap"`
	Batchdiv      int    `json:"batchdiv"`
	InteractiveUs int    `json:"interactive_us"`
	Shards        int    `json:"shards"`
	Clients       int    `json:"clients"`
	Requests      int    `json:"requests"`
	Seed          uint64 `json:"seed"`
}

type collectSender struct {
	mu    sync.Mutex
	files int
}

func (c *collectSender) Send(r *zoekt.SearchResult) {
	c.mu.Lock()
	c.files += len(r.Files)
	c.mu.Unlock()
}

func runE2E(cfg e2eCfg) (goVerdict, key string, stats map[string]int) {
	vs := search.VerifNewShardedSearcherSched(cfg.Cap, cfg.Batchdiv, time.Duration(cfg.InteractiveUs)*time.Microsecond)
	var runs atomic.Int64
	shards := map[string]zoekt.Searcher{}
	root := gen.NewRand(cfg.Seed)
	for i := 0; i < cfg.Shards; i++ {
		shards[fmt.Sprintf("k%03d", i)] = &stubShard{name: fmt.Sprintf("r%03d", i), id: uint32(i + 1),
			delay: time.Duration(root.Intn(300)) * time.Microsecond, runs: &runs}
	}
	vs.Replace(shards)
	vs.MarkReady()
	sched := vs.Sched()
	ss := vs.Streamer()

	stop := make(chan struct{})
	var sampler sync.WaitGroup
	var maxI, maxB, samples int64
	var overflow atomic.Value
	sampler.Add(1)
	go func() {
		defer sampler.Done()
		for {
			select {
			case <-stop:
				return
			default:
			}
			sn := sched.Snapshot()
			samples++
			if sn.CurI > maxI {
				maxI = sn.CurI
			}
			if sn.CurB > maxB {
				maxB = sn.CurB
			}
			if sn.CurI > sn.SizeI || sn.CurB > sn.SizeB || sn.CurI < 0 || sn.CurB < 0 {
				overflow.Store(fmt.Sprintf("occupancy %d/%d interactive, %d/%d batch", sn.CurI, sn.SizeI, sn.CurB, sn.SizeB))
			}
			runtime.Gosched()
		}
	}()

	var wg sync.WaitGroup
	var bad atomic.Value
	var nCancelled, nFull, nErr atomic.Int64
	for c := 0; c < cfg.Clients; c++ {
		r := root.Fork()
		wg.Add(1)
		go func() {
			defer wg.Done()
			defer func() {
				if e := recover(); e != nil {
					bad.Store("panic: " + fmt.Sprint(e))
				}
			}()
			for k := 0; k < cfg.Requests; k++ {
				ctx, cancel := context.WithCancel(context.Background())
				cancelled := false
				switch r.Intn(5) {
				case 0:
					cancel()
					cancelled = true
				case 1:
					d := time.Duration(r.Intn(1500)) * time.Microsecond
					time.AfterFunc(d, cancel)
					cancelled = true
				}
				// StreamSearch and List hand the caller's context to the scheduler: give some of them a tripwire
				var lc *lateCtx
				if !cancelled && r.Chance(1, 3) {
					var c2 context.CancelFunc
					lc, c2 = newLateCtx(ctx)
					_ = c2 // cancelled with its parent at the end of the request
					ctx = lc
				}
				wasCancelled := func() bool { return cancelled || (lc != nil && lc.Fired()) }
				q := &query.Substring{Pattern: "needle"}
				switch r.Intn(4) {
				case 0, 1:
					res, err := ss.Search(ctx, q, &zoekt.SearchOptions{})
					if err != nil {
						nErr.Add(1)
						if !wasCancelled() {
							bad.Store("Search failed without cancellation: " + err.Error())
						}
					} else if !wasCancelled() {
						nFull.Add(1)
						if len(res.Files) != cfg.Shards {
							bad.Store(fmt.Sprintf("uncancelled Search returned %d files, want %d", len(res.Files), cfg.Shards))
						}
					}
				case 2:
					var cs collectSender
					err := ss.StreamSearch(ctx, q, &zoekt.SearchOptions{}, &cs)
					if err != nil {
						nErr.Add(1)
						if !wasCancelled() {
							bad.Store("StreamSearch failed without cancellation: " + err.Error())
						}
					} else if !wasCancelled() {
						nFull.Add(1)
						if cs.files != cfg.Shards {
							bad.Store(fmt.Sprintf("uncancelled StreamSearch delivered %d files, want %d", cs.files, cfg.Shards))
						}
					}
				case 3:
					rl, err := ss.List(ctx, &query.Const{Value: true}, nil)
					if err != nil {
						nErr.Add(1)
						if !wasCancelled() {
							bad.Store("List failed without cancellation: " + err.Error())
						}
					} else if !wasCancelled() && len(rl.Repos) != cfg.Shards {
						bad.Store(fmt.Sprintf("uncancelled List returned %d repos, want %d", len(rl.Repos), cfg.Shards))
					}
				}
				if wasCancelled() {
					nCancelled.Add(1)
				}
				cancel()
			}
		}()
	}
	done := make(chan struct{})
	go func() { wg.Wait(); close(done) }()
	select {
	case <-done:
	case <-time.After(45 * time.Second):
		close(stop)
		return "requests did not finish within 45s (deadlock or lost wake-up)", "stuck", nil
	}
	close(stop)
	sampler.Wait()
	final := sched.Snapshot()
	stats = map[string]int{"e2e:samples": int(samples), "e2e:max-interactive": int(maxI), "e2e:max-batch": int(maxB),
		"e2e:cancelled-requests": int(nCancelled.Load()), "e2e:full-requests": int(nFull.Load()), "e2e:errors": int(nErr.Load())}
	if maxB > 0 {
		stats["e2e:runs-that-used-batch"] = 1
	}
	if b, _ := bad.Load().(string); b != "" {
		k := "e2e-result"
		if strings.HasPrefix(b, "panic") {
			k = "panic"
		} else if strings.Contains(b, "without cancellation") {
			k = "spurious-failure"
		}
		return b, k, stats
	}
	if o, _ := overflow.Load().(string); o != "" {
		return o, "over-capacity", stats
	}
	if final.CurI != 0 || final.CurB != 0 || final.WaitI != 0 || final.WaitB != 0 {
		return fmt.Sprintf("after all requests returned: %+v", final), "leak-at-quiescence", stats
	}
	return "", "", stats
}

// ---------------------------------------------------------------------------------------------------------------

// ---------------------------------------------------------------------------------------------------------------
// faults: searches that end by a fault between Acquire and Release
//
// "Every acquired slot is released exactly once, whether the search finishes, ..." - a search also finishes when
// something on its request goroutine panics (the client's encoder inside sender.Send, the display truncator on a corrupt
// chunk; net/http recovers per request and the server lives on), when a shard panics (recovered per shard) or fails.
// The scenario sends such requests through the real Search / StreamSearch / List, recovers where a server would, and
// then looks at the scheduler: nothing may be held or queued, and the next requests must be admitted.

type faultCfg struct {
	Cap           int64  `json:"cap"`
	Batchdiv      int    `json:"batchdiv"`
	InteractiveUs int    `json:"interactive_us"`
	Shards        int    `json:"shards"`
	Requests      int    `json:"requests"`
	Seed          uint64 `json:"seed"`
}

var faultKinds = []string{"send1", "send2", "send-files", "send-files", "flush", "shard-panic", "shard-error", "shard-panic", "none"}

// faultSender panics at the chosen event of the stream.
type faultSender struct {
	kind  string
	n     int
	files int
}

func (f *faultSender) Send(r *zoekt.SearchResult) {
	f.n++
	f.files += len(r.Files)
	switch {
	case f.kind == "send1" && f.n == 1, // the initial stats event
		f.kind == "send2" && f.n == 2,
		(f.kind == "send-files" || f.kind == "flush") && len(r.Files) > 0:
		panic("verif: sender fails while streaming (" + f.kind + ")")
	}
}

func runFaults(cfg faultCfg) (goVerdict, key string, stats map[string]int) {
	vs := search.VerifNewShardedSearcherSched(cfg.Cap, cfg.Batchdiv, time.Duration(cfg.InteractiveUs)*time.Microsecond)
	var runs atomic.Int64
	shards := map[string]zoekt.Searcher{}
	for i := 0; i < cfg.Shards; i++ {
		shards[fmt.Sprintf("k%03d", i)] = &stubShard{name: fmt.Sprintf("r%03d", i), id: uint32(i + 1), runs: &runs}
	}
	vs.Replace(shards)
	vs.MarkReady()
	sched := vs.Sched()
	ss := vs.Streamer()
	r := gen.NewRand(cfg.Seed)
	stats = map[string]int{}
	q := &query.Substring{Pattern: "needle"}
	var trail []string
	for i := 0; i < cfg.Requests; i++ {
		api := gen.Pick(r, []string{"stream", "stream", "stream", "search", "list"})
		kind := gen.Pick(r, faultKinds)
		if api != "stream" && !strings.HasPrefix(kind, "shard") {
			kind = gen.Pick(r, []string{"shard-panic", "shard-error", "none"})
		}
		trail = append(trail, api+":"+kind)
		ctx, cancel := context.WithTimeout(context.Background(), 5*time.Second)
		if strings.HasPrefix(kind, "shard") {
			ctx = context.WithValue(ctx, shardFaultKey{}, kind)
		}
		opts := &zoekt.SearchOptions{}
		if kind == "flush" {
			opts.FlushWallTime = time.Hour // results stay in the collect sender until the final flush
		}
		panicked := func() (p bool) {
			defer func() { // where a server recovers: above the searcher
				if e := recover(); e != nil {
					p = true
				}
			}()
			switch api {
			case "stream":
				_ = ss.StreamSearch(ctx, q, opts, &faultSender{kind: kind})
			case "search":
				_, _ = ss.Search(ctx, q, opts)
			case "list":
				_, _ = ss.List(ctx, &query.Const{Value: true}, nil)
			}
			return false
		}()
		cancel()
		if panicked {
			stats["faults:request-goroutine-panics"]++
		}
		stats["faults:"+kind]++
		// the request is over: the scheduler must be empty again (requests are issued one at a time)
		if sn := sched.Snapshot(); sn.CurI != 0 || sn.CurB != 0 || sn.WaitI != 0 || sn.WaitB != 0 {
			return fmt.Sprintf("after requests %v ended (the last one by %s): %d interactive / %d batch slots held, %d+%d queued, although no search is running",
				trail, kind, sn.CurI, sn.CurB, sn.WaitI, sn.WaitB), "leak-at-quiescence", stats
		}
	}
	// and through the API: `capacity` further requests of each kind are admitted and complete
	for i := int64(0); i < cfg.Cap; i++ {
		ctx, cancel := context.WithTimeout(context.Background(), 3*time.Second)
		var cs collectSender
		err := ss.StreamSearch(ctx, q, &zoekt.SearchOptions{}, &cs)
		if err == nil && cs.files != cfg.Shards {
			err = fmt.Errorf("%d files, want %d", cs.files, cfg.Shards)
		}
		if err == nil {
			var rl *zoekt.RepoList
			if rl, err = ss.List(ctx, &query.Const{Value: true}, nil); err == nil && len(rl.Repos) != cfg.Shards {
				err = fmt.Errorf("%d repos, want %d", len(rl.Repos), cfg.Shards)
			}
		}
		cancel()
		if err != nil {
			return fmt.Sprintf("after requests %v: the next request is not served although no search is running: %v", trail, err), "leak-at-quiescence", stats
		}
	}
	return "", "", stats
}

func emitFaults(w *gen.Writer, cfg faultCfg, class string) {
	g, key, stats := runFaults(cfg)
	for k, v := range stats {
		w.Count(k, v)
	}
	w.Emit(gen.Case{Go: g, Key: key, Class: class, Nontrivial: stats["faults:request-goroutine-panics"] > 0,
		Detail: gen.Detail(map[string]any{"kind": "faults", "case": cfg, "stats": stats})})
}

type stored struct {
	Kind  string          `json:"kind"`
	Case  json.RawMessage `json:"case"`
}

func runStored(w *gen.Writer, st stored, class string) {
	switch st.Kind {
	case "dir":
		var dc dirCase
		if err := json.Unmarshal(st.Case, &dc); err != nil {
			panic(err)
		}
		dc2, impl, d := replayDir(dc)
		emitDir(w, dc2, impl, d, class)
	case "trace":
		var cfg traceCfg
		json.Unmarshal(st.Case, &cfg)
		emitTrace(w, cfg, class)
	case "e2e":
		var cfg e2eCfg
		json.Unmarshal(st.Case, &cfg)
		emitE2E(w, cfg, class)
	case "faults":
		var cfg faultCfg
		json.Unmarshal(st.Case, &cfg)
		emitFaults(w, cfg, class)
	}
}

// once searches got stuck for good (leaked slots), further concurrent runs would each sit out their watchdog
var stuckRuns int

func emitTrace(w *gen.Writer, cfg traceCfg, class string) {
	if stuckRuns >= 2 {
		w.Count("skipped-after-stuck-runs", 1)
		return
	}
	in, impl, g, key, stats := runTrace(cfg)
	if key == "stuck" {
		stuckRuns++
	}
	for k, v := range stats {
		w.Count(k, v)
	}
	w.Emit(gen.Case{In: in, Impl: impl, Go: g, Key: key, Class: class, Nontrivial: stats["trace:exact-snapshots"] > 0,
		Detail: gen.Detail(map[string]any{"kind": "trace", "case": cfg})})
}

func emitE2E(w *gen.Writer, cfg e2eCfg, class string) {
	if stuckRuns >= 2 {
		w.Count("skipped-after-stuck-runs", 1)
		return
	}
	g, key, stats := runE2E(cfg)
	if key == "stuck" {
		stuckRuns++
	}
	for k, v := range stats {
		if strings.HasPrefix(k, "e2e:max") {
			continue
		}
		w.Count(k, v)
	}
	w.Emit(gen.Case{Go: g, Key: key, Class: class, Nontrivial: stats["e2e:full-requests"] > 0,
		Detail: gen.Detail(map[string]any{"kind": "e2e", "case": cfg, "stats": stats})})
}

func main() {
	f := gen.ParseFlags()
	log.SetOutput(io.Discard)
	w := gen.NewWriter(f.Out)
	defer w.Close()

	if f.Replay != "" {
		b, err := os.ReadFile(f.Replay)
		if err != nil {
			panic(err)
		}
		var rp struct {
			Case struct {
				Detail stored `json:"detail"`
			} `json:"case"`
			First struct {
				Detail stored `json:"detail"`
			} `json:"first_disagreement"`
		}
		json.Unmarshal(b, &rp)
		st := rp.Case.Detail
		if st.Kind == "" {
			st = rp.First.Detail
		}
		if st.Kind != "" {
			runStored(w, st, "replay")
			return
		}
	}

	if f.Corpus != "" {
		files, _ := filepath.Glob(filepath.Join(f.Corpus, "*.json"))
		sort.Strings(files)
		for _, fn := range files {
			b, err := os.ReadFile(fn)
			if err != nil {
				continue
			}
			var st stored
			if json.Unmarshal(b, &st) == nil && st.Kind != "" {
				runStored(w, st, "corpus")
			}
		}
	}

	r := gen.NewRand(f.Seed)

	// capacity arithmetic of newMultiScheduler
	for capacity := int64(1); capacity <= int64(f.N(12, 40)); capacity++ {
		for _, div := range []int{0, 1, 2, 3, 4, 5, 7, 8, 16, 64} {
			s := search.VerifNewMultiScheduler(capacity, div, time.Hour)
			sn := s.Snapshot()
			w.Emit(gen.Case{In: fmt.Sprintf("caps %d %d", capacity, div), Impl: fmt.Sprintf("caps=%d.%d", sn.SizeI, sn.SizeB), Class: "caps"})
		}
	}

	nd := f.N(2500, 40000)
	for i := 0; i < nd; i++ {
		misuse := i%10 == 9
		dc, impl, d := genDir(r, misuse)
		class := "dir"
		if misuse {
			class = "dir-misuse"
		}
		emitDir(w, dc, impl, d, class)
	}

	nt := f.N(40, 400)
	for i := 0; i < nt; i++ {
		cfg := traceCfg{Cap: int64(r.Range(1, 4)), Batchdiv: gen.Pick(r, []int{0, 1, 2, 4}), Workers: r.Range(2, 12),
			Rounds: r.Range(3, 25), Seed: r.U64()}
		emitTrace(w, cfg, "trace")
	}

	for i := 0; i < f.N(60, 1500); i++ {
		emitFaults(w, faultCfg{Cap: int64(r.Range(1, 3)), Batchdiv: gen.Pick(r, []int{0, 1, 2}), InteractiveUs: gen.Pick(r, []int{0, 0, 50, 3600000000}),
			Shards: r.Range(1, 6), Requests: r.Range(2, 8), Seed: r.U64()}, "faults")
	}

	ne := f.N(12, 100)
	for i := 0; i < ne; i++ {
		cfg := e2eCfg{Cap: int64(r.Range(1, 4)), Batchdiv: gen.Pick(r, []int{0, 1, 2}), InteractiveUs: gen.Pick(r, []int{0, 0, 50, 500}),
			Shards: r.Range(1, 12), Clients: r.Range(2, 10), Requests: r.Range(5, 30), Seed: r.U64()}
		emitE2E(w, cfg, "e2e")
	}
}
