// C13 harness: generated commit histories over several branches in a real Git repository, indexed with the real
// gitindex.IndexGitRepo (full and delta runs, through the spy hook VerifIndexGitRepo), observed with a real
// branch-restricted search over the index directory.
//
//   - correspondence: what the real prepareDeltaBuild / prepareNormalBuild computed in each run ((path, blob) => branches
//     map, changed-or-removed paths, delta vs. fall-back, number of shards) against the Lean model on the same abstract
//     history (trees taken from `git ls-tree`, i.e. not from go-git);
//   - spec: the Lean predicate checkView on the documents the real search returned for each indexed branch;
//   - Go oracle (shares nothing with zoekt): the same view against `git ls-tree` + the blob contents, byte for byte.
package main

import (
	"bytes"
	"context"
	"encoding/json"
	"fmt"
	"os"
	"path/filepath"
	"sort"
	"strings"
	"time"

	"github.com/sourcegraph/zoekt"
	"github.com/sourcegraph/zoekt/gitindex"
	"github.com/sourcegraph/zoekt/ignore"
	"github.com/sourcegraph/zoekt/index"
	"github.com/sourcegraph/zoekt/query"
	"github.com/sourcegraph/zoekt/search"

	"verifharness/gen"
)

type ent struct {
	Content int // index into contents; -1: gitlink
	Mode    string
}

// one step of a history, replayable
type stepRec struct {
	Commits   []commitRec `json:"commits,omitempty"`
	Index     *indexRec   `json:"index,omitempty"`
	Reordered bool        `json:"reordered,omitempty"` // this run lists the previous run's branches in another order
}
type commitRec struct {
	Branch string         `json:"branch"`
	Tree   map[string]ent `json:"tree"`
	Why    string         `json:"why,omitempty"`
}
type indexRec struct {
	Delta    bool     `json:"delta"`
	Thr      uint64   `json:"thr"`
	Branches []string `json:"branches"`
	ShardMax int      `json:"shardmax,omitempty"`
	Repack   bool     `json:"repack,omitempty"` // `git repack -a -d` before this run
}
type history struct {
	Kind     string    `json:"kind"` // "model" (inside the Lean model) | "ignore" | "gitlink"
	Contents []string  `json:"contents"`
	Steps    []stepRec `json:"steps"`
}

// paths include names with 2-, 3- and 4-byte UTF-8 characters: their length in bytes and in runes differs
var allPaths = []string{"a.txt", "b.txt", "dir/c.txt", "dir/sub/d.go", "e", "dir/f.txt", "z/y/x.c", "e2/inner", "README", "dir/g",
	"ä", "docs/übersicht.md", "日本語/ファイル.go", "dir/𝒳.txt"}
var allBranches = []string{"main", "dev", "rel"}

func baseContents() []string {
	var cs []string
	for i := 0; i < 9; i++ {
		cs = append(cs, fmt.Sprintf("content number %d\nsecond line %d\n", i, i*i))
	}
	cs = append(cs, "") // empty file
	// 10..12: ignore files (plain prefixes, a comment, a leading slash)
	cs = append(cs, "dir/sub\n# comment\nREADME\n", "/dir/f\nz\n", "e2\n# x\n")
	// 13..15: files whose content zoekt does not index (binary, over SizeMax, too few trigrams): they still get
	// exactly one document, a placeholder that carries the skip explanation
	cs = append(cs, "bin\x00ary data here\n", strings.Repeat("a long line of a file over the size limit\n", 8), "ab")
	return cs
}

// sizeMax is the SizeMax of every indexing run of this harness (content 14 is larger)
const sizeMax = 200

// rendered: what the one document of a file must contain — its bytes, or the skip explanation (written from the
// property statement and the documented skip reasons, not from the builder's code)
func rendered(content []byte) []byte {
	switch {
	case len(content) > sizeMax:
		return []byte("NOT-INDEXED: exceeds the maximum size limit")
	case len(content) == 0:
		return content
	case len(content) < 3:
		return []byte("NOT-INDEXED: contains too few trigrams")
	case bytes.IndexByte(content, 0) >= 0:
		return []byte("NOT-INDEXED: contains binary content")
	}
	return content
}

func cloneTree(t map[string]ent) map[string]ent {
	n := make(map[string]ent, len(t))
	for k, v := range t {
		n[k] = v
	}
	return n
}

func sortedKeys(t map[string]ent) []string {
	ks := make([]string, 0, len(t))
	for k := range t {
		ks = append(ks, k)
	}
	sort.Strings(ks)
	return ks
}

// conflicts reports whether adding path p to t would put a file where a directory is or vice versa
func conflicts(t map[string]ent, p string) bool {
	for q := range t {
		if q == p {
			continue
		}
		if strings.HasPrefix(q, p+"/") || strings.HasPrefix(p, q+"/") {
			return true
		}
	}
	return false
}

// genHistory generates a history inside the model: files only (regular, executable, symlink), no ignore file.
func genHistory(r *gen.Rand, f gen.Flags) history {
	h := history{Kind: "model", Contents: baseContents()}
	nb := r.Range(1, 3)
	branches := append([]string{}, allBranches[:nb]...)
	state := map[string]map[string]ent{}
	prev := map[string][]map[string]ent{} // earlier trees of each branch (for reverts)
	// initial commits
	var st stepRec
	for _, b := range branches {
		t := map[string]ent{}
		for _, p := range allPaths {
			if r.Chance(1, 3) && !conflicts(t, p) {
				t[p] = ent{Content: r.Intn(4), Mode: "100644"}
			}
		}
		state[b] = t
		st.Commits = append(st.Commits, commitRec{Branch: b, Tree: cloneTree(t), Why: "init"})
	}
	h.Steps = append(h.Steps, st)

	indexed := pickIndexed(r, branches)
	rounds := r.Range(3, 6)
	shardMax := 0
	if r.Chance(1, 5) {
		shardMax = 60 // a few documents per shard: multi-shard builds
	}
	for round := 0; round < rounds; round++ {
		var st stepRec
		if round > 0 {
			next := map[string]map[string]ent{}
			why := map[string][]string{}
			for _, b := range branches {
				next[b] = cloneTree(state[b])
				if !r.Chance(2, 3) {
					continue
				}
				nops := r.Range(1, 3)
				for k := 0; k < nops; k++ {
					why[b] = append(why[b], mutate(r, next[b], b, branches, state, prev[b], &st))
				}
			}
			if r.Chance(1, 2) {
				if w := correlate(r, branches, next); w != "" {
					for _, b := range branches {
						why[b] = append(why[b], w)
					}
				}
			}
			for _, b := range branches {
				if len(why[b]) == 0 {
					continue
				}
				prev[b] = append(prev[b], state[b])
				state[b] = next[b]
				st.Commits = append(st.Commits, commitRec{Branch: b, Tree: cloneTree(next[b]), Why: strings.Join(why[b], ",")})
			}
			// a mutation may have touched other branches (move between branches): commit those too
		}
		delta := round > 0 && r.Chance(4, 5)
		if round == 0 && r.Chance(1, 6) {
			delta = true // delta requested without an index: must fall back
		}
		if r.Chance(1, 10) {
			indexed = pickIndexed(r, branches) // branch set may change: must fall back
		} else if r.Chance(1, 5) {
			// the same branches listed in another order (HEAD stays first): a delta run must fall back as well, the
			// documents of the old shards carry branch bit masks assigned under the old order
			if re, ok := reorder(r, indexed); ok {
				indexed = re
				st.Reordered = true
			}
		}
		thr := uint64(0)
		if r.Chance(1, 5) {
			thr = uint64(r.Range(1, 3))
			if shardMax != 0 {
				thr = uint64(r.Range(2, 8))
			}
		}
		st.Index = &indexRec{Delta: delta, Thr: thr, Branches: append([]string{}, indexed...), ShardMax: shardMax, Repack: r.Chance(1, 5)}
		h.Steps = append(h.Steps, st)
	}
	return h
}

// genMatrix generates the systematic cross-branch history: one path for every combination of per-branch
// (state at the last run, change before the delta run) over {absent/none, absent/add, present/none, present/modify,
// present/delete} — 5^nb paths — so that every pattern of "branch X adds / modifies / deletes P while branch Y adds /
// modifies / deletes / keeps / lacks P in the same delta window" occurs, for the given order of the indexed branches.
// A third run applies the reverse changes (again as a delta).
func genMatrix(r *gen.Rand, branches []string) history {
	h := history{Kind: "matrix", Contents: baseContents()}
	nb := len(branches)
	n := 1
	for i := 0; i < nb; i++ {
		n *= 5
	}
	before := map[string]map[string]ent{}
	after := map[string]map[string]ent{}
	for _, b := range branches {
		before[b], after[b] = map[string]ent{}, map[string]ent{}
	}
	for i := 0; i < n; i++ {
		p := fmt.Sprintf("m/%03d.txt", i)
		code := i
		shared := r.Intn(9) // a content several branches may share
		for _, b := range branches {
			st := code % 5
			code /= 5
			pick := func() int {
				if r.Bool() {
					return shared
				}
				return r.Intn(9)
			}
			switch st {
			case 0: // absent, stays absent
			case 1: // absent, added
				after[b][p] = ent{Content: pick(), Mode: "100644"}
			case 2: // present, unchanged
				e := ent{Content: pick(), Mode: "100644"}
				before[b][p], after[b][p] = e, e
			case 3: // present, modified
				c := pick()
				before[b][p] = ent{Content: c, Mode: "100644"}
				after[b][p] = ent{Content: (c + 1 + r.Intn(7)) % 9, Mode: "100644"}
			case 4: // present, deleted
				before[b][p] = ent{Content: pick(), Mode: "100644"}
			}
		}
	}
	commits := func(trees map[string]map[string]ent, why string) []commitRec {
		var cs []commitRec
		for _, b := range branches {
			cs = append(cs, commitRec{Branch: b, Tree: cloneTree(trees[b]), Why: why})
		}
		return cs
	}
	idx := func(delta bool) *indexRec { return &indexRec{Delta: delta, Branches: append([]string{}, branches...)} }
	h.Steps = []stepRec{
		{Commits: commits(before, "matrix-init"), Index: idx(false)},
		{Commits: commits(after, "matrix-forward"), Index: idx(true)},
		{Commits: commits(before, "matrix-reverse"), Index: idx(true)},
	}
	return h
}

// correlate applies a pair of changes to the same path on two different branches in one round: the change patterns
// a delta build has to get right across branches (X adds P while Y modifies or deletes it, both modify, …).
func correlate(r *gen.Rand, branches []string, trees map[string]map[string]ent) string {
	if len(branches) < 2 {
		return ""
	}
	i := r.Intn(len(branches))
	j := (i + 1 + r.Intn(len(branches)-1)) % len(branches)
	x, y := trees[branches[i]], trees[branches[j]]
	p := gen.Pick(r, allPaths)
	if conflicts(x, p) || conflicts(y, p) {
		return ""
	}
	apply := func(t map[string]ent) string {
		e, ok := t[p]
		switch {
		case !ok:
			t[p] = ent{Content: r.Intn(9), Mode: "100644"}
			return "add"
		case ok && e.Mode == "160000":
			return "keep"
		case r.Bool():
			delete(t, p)
			return "delete"
		default:
			e.Content = (e.Content + 1 + r.Intn(7)) % 9
			t[p] = e
			return "modify"
		}
	}
	a, b := apply(x), apply(y)
	if i > j {
		a, b = b, a
	}
	return "pair:" + a + "+" + b
}

// reorder permutes the non-HEAD part of a branch list; ok is false when there is nothing to permute
func reorder(r *gen.Rand, brs []string) ([]string, bool) {
	out := append([]string{}, brs...)
	lo := 0
	if len(out) > 0 && out[0] == "HEAD" {
		lo = 1
	}
	if len(out)-lo < 2 {
		return out, false
	}
	i := lo + r.Intn(len(out)-lo)
	j := lo + (i-lo+1+r.Intn(len(out)-lo-1))%(len(out)-lo)
	out[i], out[j] = out[j], out[i]
	return out, true
}

// genSpecial generates a short history outside the Lean model: a path changing between file and submodule link
// ("gitlink"), or a repository with an unchanged .sourcegraph/ignore file ("ignore"), or one whose ignore file
// changes ("ignore-change": the documented fall-back to a normal build).
func genSpecial(r *gen.Rand, kind string) history {
	h := history{Kind: kind, Contents: baseContents()}
	if kind == "gitlink" {
		h.Kind = "model" // submodule links are inside the Lean model
	}
	file := func(c int) ent { return ent{Content: c, Mode: "100644"} }
	link := ent{Content: -1, Mode: "160000"}
	idx := func(delta bool) *indexRec { return &indexRec{Delta: delta, Branches: []string{"HEAD"}} }
	base := map[string]ent{"a.txt": file(r.Intn(3)), "dir/c.txt": file(r.Intn(3))}
	switch kind {
	case "branch-reorder":
		// branches with different content; a delta run (with or without new commits) lists them in another order
		h.Kind = "model"
		trees := map[string]map[string]ent{
			"main": {"a.txt": file(0), "only-main.txt": file(1), "shared.txt": file(2)},
			"dev":  {"a.txt": file(3), "only-dev.txt": file(4), "shared.txt": file(2)},
			"rel":  {"a.txt": file(5), "only-rel.txt": file(6)},
		}
		var cs []commitRec
		for _, b := range []string{"main", "dev", "rel"} {
			cs = append(cs, commitRec{Branch: b, Tree: trees[b], Why: "init"})
		}
		order := []string{"HEAD", "main", "dev", "rel"}
		if r.Bool() {
			order = order[1:]
		}
		re, _ := reorder(r, order)
		st2 := stepRec{Index: &indexRec{Delta: true, Branches: re}, Reordered: true}
		if r.Bool() {
			t := cloneTree(trees["dev"])
			t["new-dev.txt"] = file(7)
			st2.Commits = []commitRec{{Branch: "dev", Tree: t, Why: "add"}}
		}
		re2, _ := reorder(r, re)
		h.Steps = []stepRec{
			{Commits: cs, Index: &indexRec{Branches: order}},
			st2,
			{Index: &indexRec{Delta: true, Branches: re2}, Reordered: true},
		}
	case "skipped-content":
		// files whose content is skipped (binary, over the size limit, too few trigrams) change in delta windows:
		// text -> skipped, skipped -> text, skipped -> other skipped, new skipped file, skipped file deleted
		h.Kind = "model"
		t0 := map[string]ent{"a.txt": file(0), "b.txt": file(1), "c.bin": file(13), "d.big": file(14), "gone.bin": file(13)}
		t1 := map[string]ent{"a.txt": file(13), "b.txt": file(14), "c.bin": file(2), "d.big": file(15), "new.tiny": file(15), "new.bin": file(13)}
		t2 := map[string]ent{"a.txt": file(0), "b.txt": file(14), "c.bin": file(14), "d.big": file(3), "new.tiny": file(4)}
		h.Steps = []stepRec{
			{Commits: []commitRec{{Branch: "main", Tree: t0, Why: "init"}}, Index: idx(false)},
			{Commits: []commitRec{{Branch: "main", Tree: t1, Why: "skipped-content"}}, Index: idx(true)},
			{Commits: []commitRec{{Branch: "main", Tree: t2, Why: "skipped-content"}}, Index: idx(true)},
		}
	case "unicode":
		// only paths with multi-byte characters change between the runs: every tombstone is such a path
		h.Kind = "model"
		names := []string{"ä", "docs/übersicht.md", "日本語/ファイル.go", "dir/𝒳.txt", "é/ü.c"}
		gen.Shuffle(r, names)
		t0 := map[string]ent{"a.txt": file(0), "dir/c.txt": file(1)}
		for i, n := range names {
			t0[n] = file(i % 4)
		}
		t1 := cloneTree(t0)
		t1[names[0]] = file(5) // modified
		delete(t1, names[1])   // deleted
		t2 := cloneTree(t1)
		t2[names[2]] = file(6)
		t2[names[1]] = file(7) // re-added
		h.Steps = []stepRec{
			{Commits: []commitRec{{Branch: "main", Tree: t0, Why: "init"}}, Index: idx(false)},
			{Commits: []commitRec{{Branch: "main", Tree: t1, Why: "unicode-modify,unicode-delete"}}, Index: idx(true)},
			{Commits: []commitRec{{Branch: "main", Tree: t2, Why: "unicode-modify,unicode-add"}}, Index: idx(true)},
		}
	case "head-not-first":
		dev := map[string]ent{"a.txt": file(3), "dev-only.txt": file(4)}
		h.Steps = []stepRec{
			{Commits: []commitRec{{Branch: "main", Tree: cloneTree(base), Why: "init"}, {Branch: "dev", Tree: dev, Why: "init"}},
				Index: &indexRec{Branches: []string{"dev", "HEAD"}}},
		}
	case "gitlink":
		t0, t1 := cloneTree(base), cloneTree(base)
		p := gen.Pick(r, []string{"e", "dir/g"})
		if r.Bool() {
			t0[p], t1[p] = file(4), link // file becomes a submodule link
		} else {
			t0[p], t1[p] = link, file(4) // submodule link becomes a file
		}
		if r.Bool() {
			t1["b.txt"] = file(5)
		}
		h.Steps = []stepRec{
			{Commits: []commitRec{{Branch: "main", Tree: t0, Why: "init"}}, Index: idx(false)},
			{Commits: []commitRec{{Branch: "main", Tree: t1, Why: "gitlink-change"}}, Index: idx(true)},
		}
	case "ignore", "ignore-change":
		h.Contents = append(h.Contents, "# comment\nsecret\n\n/dir/sub\n", "other\n")
		ig, ig2 := len(h.Contents)-2, len(h.Contents)-1
		t0 := cloneTree(base)
		t0[".sourcegraph/ignore"] = file(ig)
		t0["secret/x.txt"] = file(1)
		t1 := cloneTree(t0)
		t1[gen.Pick(r, []string{"secret/y.txt", "dir/sub/d.go", "secret2"})] = file(6)
		t1["b.txt"] = file(5)
		if kind == "ignore-change" {
			t1[".sourcegraph/ignore"] = file(ig2)
			t1["other/z"] = file(7)
		}
		h.Steps = []stepRec{
			{Commits: []commitRec{{Branch: "main", Tree: t0, Why: "init"}}, Index: idx(false)},
			{Commits: []commitRec{{Branch: "main", Tree: t1, Why: kind}}, Index: idx(true)},
		}
	}
	return h
}

// pickIndexed chooses the indexed branch list. "HEAD", when indexed, comes first: zoekt evaluates `branch:HEAD`
// as "the first indexed branch" (index/matchtree.go), so a branch named HEAD in any other position cannot be
// searched by name (scripted history "head-not-first", a known finding).
func pickIndexed(r *gen.Rand, branches []string) []string {
	var out []string
	for _, b := range branches {
		if r.Chance(4, 5) {
			out = append(out, b)
		}
	}
	if r.Chance(1, 6) {
		gen.Shuffle(r, out)
	}
	if r.Chance(1, 3) || len(out) == 0 {
		out = append([]string{"HEAD"}, out...)
	}
	return out
}

// mutate changes tree t of branch b in place; returns a label for the distribution counters
func mutate(r *gen.Rand, t map[string]ent, b string, branches []string, state map[string]map[string]ent, prev []map[string]ent, st *stepRec) string {
	keys := sortedKeys(t)
	other := gen.Pick(r, branches)
	switch r.Intn(14) {
	case 13: // a file's content becomes one that is not indexed (binary, too large, too small), or a new such file appears
		p := gen.Pick(r, allPaths)
		if e, ok := t[p]; ok && e.Mode == "160000" || conflicts(t, p) {
			return "noop"
		}
		t[p] = ent{Content: 13 + r.Intn(3), Mode: "100644"}
		return "skipped-content"
	case 12: // the ignore file appears, changes or goes away
		e, ok := t[ignore.IgnoreFile]
		switch {
		case !ok && !r.Chance(1, 3):
			return "noop"
		case !ok:
			t[ignore.IgnoreFile] = ent{Content: 10 + r.Intn(3), Mode: "100644"}
			return "ignore-add"
		case r.Bool():
			delete(t, ignore.IgnoreFile)
			return "ignore-remove"
		default:
			t[ignore.IgnoreFile] = ent{Content: 10 + (e.Content+1)%3, Mode: "100644"}
			return "ignore-modify"
		}
	case 11: // a submodule link appears, changes, or turns into a file; a file turns into a submodule link
		p := gen.Pick(r, allPaths)
		e, ok := t[p]
		switch {
		case !ok && !conflicts(t, p):
			t[p] = ent{Content: r.Intn(3), Mode: "160000"}
			return "gitlink-add"
		case ok && e.Mode == "160000" && r.Bool():
			t[p] = ent{Content: r.Intn(9), Mode: "100644"}
			return "gitlink-to-file"
		case ok && e.Mode == "160000":
			t[p] = ent{Content: e.Content + 1, Mode: "160000"}
			return "gitlink-bump"
		case ok:
			t[p] = ent{Content: r.Intn(3), Mode: "160000"}
			return "file-to-gitlink"
		}
		return "noop"
	case 0, 1: // add
		p := gen.Pick(r, allPaths)
		if _, ok := t[p]; ok || conflicts(t, p) {
			return "noop"
		}
		c := r.Intn(9)
		if o, ok := state[other][p]; ok && r.Chance(1, 2) {
			c = o.Content // same content as another branch has at this path
		}
		t[p] = ent{Content: c, Mode: "100644"}
		return "add"
	case 2, 3: // modify
		if len(keys) == 0 {
			return "noop"
		}
		p := gen.Pick(r, keys)
		e := t[p]
		e.Content = r.Intn(10)
		if o, ok := state[other][p]; ok && r.Chance(1, 3) {
			e = o
		}
		t[p] = e
		return "modify"
	case 4: // delete
		if len(keys) == 0 {
			return "noop"
		}
		delete(t, gen.Pick(r, keys))
		return "delete"
	case 5: // rename
		if len(keys) == 0 {
			return "noop"
		}
		p := gen.Pick(r, keys)
		q := gen.Pick(r, allPaths)
		e := t[p]
		delete(t, p)
		if _, ok := t[q]; ok || conflicts(t, q) {
			t[p] = e
			return "noop"
		}
		t[q] = e
		return "rename"
	case 6: // revert to an earlier tree of this branch (whole tree or one path)
		if len(prev) == 0 {
			return "noop"
		}
		old := gen.Pick(r, prev)
		if r.Bool() {
			for k := range t {
				delete(t, k)
			}
			for k, v := range old {
				t[k] = v
			}
			return "revert-tree"
		}
		ok := sortedKeys(old)
		if len(ok) == 0 {
			return "noop"
		}
		p := gen.Pick(r, ok)
		if conflicts(t, p) {
			return "noop"
		}
		t[p] = old[p]
		return "revert-path"
	case 7: // chmod / symlink
		if len(keys) == 0 {
			return "noop"
		}
		p := gen.Pick(r, keys)
		e := t[p]
		if e.Mode == "160000" {
			return "noop"
		}
		e.Mode = gen.Pick(r, []string{"100644", "100755", "120000"})
		t[p] = e
		return "chmod"
	case 8: // copy the other branch's version of a path
		ok := sortedKeys(state[other])
		if len(ok) == 0 {
			return "noop"
		}
		p := gen.Pick(r, ok)
		if conflicts(t, p) {
			return "noop"
		}
		t[p] = state[other][p]
		return "copy-from-branch"
	case 9: // file <-> directory
		if e, ok := t["e"]; ok {
			delete(t, "e")
			t["e/inner"] = e
			return "file-to-dir"
		}
		if e, ok := t["e/inner"]; ok {
			delete(t, "e/inner")
			if !conflicts(t, "e") {
				t["e"] = e
				return "dir-to-file"
			}
			t["e/inner"] = e
		}
		return "noop"
	default: // swap the contents of two paths
		if len(keys) < 2 {
			return "noop"
		}
		p, q := gen.Pick(r, keys), gen.Pick(r, keys)
		t[p], t[q] = t[q], t[p]
		return "swap"
	}
}

// ---------------------------------------------------------------------------------------------------------------

type runner struct {
	fsck     bool
	w        *gen.Writer
	tmp      string
	paths    *gen.Interner
	blobs    *gen.Interner
	branches *gen.Interner
}

func modeCode(m string) int {
	switch m {
	case "100644":
		return 0
	case "100755":
		return 1
	case "120000":
		return 2
	case "160000":
		return 3 // submodule link
	}
	return 9
}

func joinOr(xs []string, sep string) string {
	if len(xs) == 0 {
		return "-"
	}
	return strings.Join(xs, sep)
}

// run executes one history against the real code and emits its cases.
func (rn *runner) run(h history, id string) {
	dir, err := os.MkdirTemp(rn.tmp, "h")
	if err != nil {
		panic(err)
	}
	defer os.RemoveAll(dir)
	repoDir := filepath.Join(dir, "repo.git")
	indexDir := filepath.Join(dir, "idx")
	os.MkdirAll(indexDir, 0o755)
	g := gen.NewGitRepo(repoDir)
	detail := gen.Detail(h)
	// every generated kind is inside the Lean model, except the scripted known finding about `branch:HEAD`
	// (a property of the search, not of indexing: Go oracle only)
	inModel := h.Kind != "head-not-first"
	emit := func(c gen.Case) {
		c.Detail = detail
		if !inModel {
			c.In, c.Impl = "", ""
		}
		rn.w.Emit(c)
	}
	emit(gen.Case{In: fmt.Sprintf("reset %d", rn.paths.ID(ignore.IgnoreFile)), Impl: "ok", Class: "history:" + h.Kind})
	// every path of the history: the universe over which ignore files are tabulated for the model
	universe := map[string]bool{}
	for _, st := range h.Steps {
		for _, c := range st.Commits {
			for p := range c.Tree {
				universe[p] = true
			}
		}
	}
	igDefined := map[string]bool{}
	seenAt := map[string]map[string]bool{} // path => every blob the history ever had there

	heads := map[string][]gen.GitEntry{} // branch => leaves of its head tree, from git ls-tree
	contentOf := map[string][]byte{}     // blob hash => content (what the harness wrote)
	ignoreOf := map[string][]string{}    // branch => ignore patterns in force (kind "ignore")

	for si, st := range h.Steps {
		for _, c := range st.Commits {
			var es []gen.GitEntry
			for _, p := range sortedKeys(c.Tree) {
				e := c.Tree[p]
				if e.Mode == "160000" { // submodule link: the commit it names need not exist
					es = append(es, gen.GitEntry{Mode: "160000", Hash: fmt.Sprintf("%040x", e.Content+2), Path: p})
					continue
				}
				content := []byte(h.Contents[e.Content])
				hash := g.Blob(content)
				contentOf[hash] = content
				if seenAt[p] == nil {
					seenAt[p] = map[string]bool{}
				}
				seenAt[p][hash] = true
				es = append(es, gen.GitEntry{Mode: e.Mode, Hash: hash, Path: p})
			}
			commit := g.Commit(c.Branch, es, fmt.Sprintf("step %d %s", si, c.Why))
			leaves := g.LsTree(commit)
			heads[c.Branch] = leaves
			for _, w := range strings.Split(c.Why, ",") {
				rn.w.Count("op:"+w, 1)
			}
			names := []string{c.Branch}
			if c.Branch == "main" {
				names = append(names, "HEAD")
				heads["HEAD"] = leaves
			}
			for _, l := range leaves {
				if l.Path != ignore.IgnoreFile || l.Mode == "160000" || igDefined[l.Hash] {
					continue
				}
				igDefined[l.Hash] = true
				m, err := ignore.ParseIgnoreFile(bytes.NewReader(contentOf[l.Hash]))
				if err != nil {
					panic(err)
				}
				var ids []int
				for p := range universe {
					if m.Match(p) {
						ids = append(ids, rn.paths.ID(p))
					}
				}
				sort.Ints(ids)
				emit(gen.Case{In: fmt.Sprintf("igdef %d %s", rn.blobs.ID(l.Hash), gen.NatList(ids)), Impl: "ok"})
			}
			for _, nm := range names {
				var parts []string
				for _, l := range leaves {
					parts = append(parts, fmt.Sprintf("%d:%d:%d", rn.paths.ID(l.Path), rn.blobs.ID(l.Hash), modeCode(l.Mode)))
				}
				emit(gen.Case{In: fmt.Sprintf("commit %d %s", rn.branches.ID(nm), joinOr(parts, ",")), Impl: "ok"})
				ignoreOf[nm] = nil
				for _, l := range leaves {
					if l.Path == ignore.IgnoreFile && l.Mode != "160000" {
						ignoreOf[nm] = strings.Split(string(contentOf[l.Hash]), "\n")
					}
				}
			}
		}
		if st.Index == nil {
			continue
		}
		ix := st.Index
		if st.Reordered {
			rn.w.Count("branch-list:reordered-before-run", 1)
		}
		if ix.Repack {
			g.Repack()
			rn.w.Count("repacked-before-run", 1)
		}
		if rn.fsck && si == len(h.Steps)-1 {
			if msg := g.Fsck(); msg != "" {
				panic("harness wrote a bad repository: " + msg)
			}
		}
		opts := gitindex.Options{
			RepoDir:  repoDir,
			Branches: ix.Branches,
			BuildOptions: index.Options{
				IndexDir:              indexDir,
				RepositoryDescription: zoekt.Repository{Name: "repository"},
				IsDelta:               ix.Delta,
				DisableCTags:          true,
				ShardMax:              ix.ShardMax,
				SizeMax:               sizeMax,
			},
			DeltaShardNumberFallbackThreshold: ix.Thr,
		}
		opts.BuildOptions.SetDefaults()
		before := map[string]bool{}
		if old, _ := filepath.Glob(filepath.Join(indexDir, "*.zoekt")); true {
			for _, fn := range old {
				before[fn] = true
			}
		}
		t0 := time.Now()
		_, prep, err := gitindex.VerifIndexGitRepo(opts)
		tIndex += time.Since(t0)
		if err != nil {
			emit(gen.Case{Go: "IndexGitRepo failed: " + err.Error(), Key: "index-error", Class: "index-error"})
			return
		}
		mode := "full"
		files := prep.NormalFiles
		if prep.DeltaCalled && prep.DeltaErr == "" {
			mode = "delta"
			files = prep.DeltaFiles
		}
		if ix.Delta && mode == "full" {
			rn.w.Count("fallback:"+fallbackClass(prep.DeltaErr), 1)
		}
		type fl struct {
			p, x int
			s    string
		}
		var fls []fl
		for _, f := range files {
			set := map[int]bool{}
			for _, b := range f.Branches {
				set[rn.branches.ID(b)] = true
			}
			var bs []int
			for b := range set {
				bs = append(bs, b)
			}
			sort.Ints(bs)
			var bss []string
			for _, b := range bs {
				bss = append(bss, fmt.Sprint(b))
			}
			p, x := rn.paths.ID(f.Path), rn.blobs.ID(f.ID)
			fls = append(fls, fl{p, x, fmt.Sprintf("%d:%d:%s", p, x, strings.Join(bss, "+"))})
		}
		sort.Slice(fls, func(i, j int) bool {
			if fls[i].p != fls[j].p {
				return fls[i].p < fls[j].p
			}
			return fls[i].x < fls[j].x
		})
		var fstr []string
		for _, f := range fls {
			fstr = append(fstr, f.s)
		}
		var ch []int
		nonASCII := false
		for _, c := range prep.Changed {
			ch = append(ch, rn.paths.ID(c))
			if len([]rune(c)) != len(c) {
				nonASCII = true
			}
		}
		if nonASCII {
			rn.w.Count("run-tombstones-non-ascii-path", 1)
		}
		sort.Ints(ch)
		shards, _ := filepath.Glob(filepath.Join(indexDir, "*.zoekt"))
		var bids []int
		for _, b := range ix.Branches {
			bids = append(bids, rn.branches.ID(b))
		}
		// how the real run cut its documents into shards: document counts of the shards it wrote, all but the last
		sort.Strings(shards)
		var cuts []int
		for _, fn := range shards {
			if mode == "delta" && before[fn] {
				continue
			}
			cuts = append(cuts, shardDocs(fn))
		}
		if len(cuts) > 0 {
			cuts = cuts[:len(cuts)-1]
		}
		if len(cuts) > 0 {
			rn.w.Count("multi-shard-run", 1)
		}
		nshards := fmt.Sprint(len(shards))
		d := 0
		if ix.Delta {
			d = 1
		}
		emit(gen.Case{
			In:    fmt.Sprintf("index %d %d %s %s", d, ix.Thr, gen.NatList(bids), gen.NatList(cuts)),
			Impl:  fmt.Sprintf("%s files=%s changed=%s shards=%s", mode, joinOr(fstr, ","), gen.NatList(ch), nshards),
			Class: fmt.Sprintf("run:%s(requested-delta=%v)", mode, ix.Delta), Nontrivial: mode == "delta" && len(files) > 0,
		})
		rn.w.Count(fmt.Sprintf("shards-on-disk:%d", min(len(shards), 6)), 1)

		// ---- observe: branch-restricted search over the index directory
		t0 = time.Now()
		ss, err := search.NewDirectorySearcher(indexDir)
		if err != nil {
			panic(err)
		}
		tOpen += time.Since(t0)
		for _, b := range ix.Branches {
			q := query.NewAnd(&query.Branch{Pattern: b, Exact: true}, &query.Const{Value: true})
			res, err := ss.Search(context.Background(), q, &zoekt.SearchOptions{Whole: true})
			if err != nil {
				panic(err)
			}
			// expected (Go oracle): the files of the head tree per `git ls-tree`, minus (kind "ignore") what a normal
			// build leaves out
			want := map[string]string{}
			for _, l := range heads[b] {
				if l.Mode == "160000" || ignored(ignoreOf[b], l.Path) {
					continue
				}
				want[l.Path] = l.Hash
			}
			got := map[string]int{}
			verdict, key := "ok", ""
			var pairs [][2]int
			for _, fm := range res.Files {
				got[fm.FileName]++
				// which blob is this document about: the head's blob if the document is what that blob must be rendered
				// as (its bytes or its skip explanation), else an earlier blob of the path rendered like this, else unknown
				wh, ok := want[fm.FileName]
				hash := gen.GitBlobHash(fm.Content)
				if ok && bytes.Equal(rendered(contentOf[wh]), fm.Content) {
					hash = wh
				} else {
					var cands []string
					for hh := range seenAt[fm.FileName] {
						cands = append(cands, hh)
					}
					sort.Strings(cands)
					for _, hh := range cands {
						if bytes.Equal(rendered(contentOf[hh]), fm.Content) {
							hash = hh
							break
						}
					}
				}
				if bytes.HasPrefix(fm.Content, []byte("NOT-INDEXED: ")) {
					rn.w.Count("view-doc:placeholder", 1)
				}
				pairs = append(pairs, [2]int{rn.paths.ID(fm.FileName), rn.blobs.ID(hash)})
				switch {
				case !ok:
					verdict, key = fmt.Sprintf("branch %s: document %q but the head has no such file", b, fm.FileName), "doc-for-absent-path"
				case !bytes.Equal(rendered(contentOf[wh]), fm.Content):
					verdict, key = fmt.Sprintf("branch %s: document %q has content %q, head has %q", b, fm.FileName, fm.Content, contentOf[wh]), "stale-content"
				case !contains(fm.Branches, b):
					verdict, key = fmt.Sprintf("branch %s: document %q reports branches %v", b, fm.FileName, fm.Branches), "branch-list"
				}
			}
			for p := range want {
				if got[p] != 1 && verdict == "ok" {
					verdict, key = fmt.Sprintf("branch %s: %d documents for %q, want exactly one", b, got[p], p), fmt.Sprintf("doc-count-%d", min(got[p], 2))
				}
			}
			if key != "" {
				key = h.Kind + ":" + key
			}
			sort.Slice(pairs, func(i, j int) bool {
				if pairs[i][0] != pairs[j][0] {
					return pairs[i][0] < pairs[j][0]
				}
				return pairs[i][1] < pairs[j][1]
			})
			var ps []string
			for _, pr := range pairs {
				ps = append(ps, fmt.Sprintf("%d:%d", pr[0], pr[1]))
			}
			emit(gen.Case{
				In: fmt.Sprintf("view %d", rn.branches.ID(b)), Impl: joinOr(ps, ","), Go: verdict, Key: key,
				Class: "view:" + mode, Nontrivial: len(want) > 0 && mode == "delta",
			})
		}
		t0 = time.Now()
		ss.Close()
		tClose += time.Since(t0)
	}
}

var tIndex, tOpen, tClose time.Duration

// shardDocs counts the documents of one shard file
func shardDocs(fn string) int {
	f, err := os.Open(fn)
	if err != nil {
		panic(err)
	}
	inf, err := index.NewIndexFile(f)
	if err != nil {
		panic(err)
	}
	s, err := index.NewSearcher(inf)
	if err != nil {
		panic(err)
	}
	defer s.Close()
	rl, err := s.List(context.Background(), &query.Const{Value: true}, nil)
	if err != nil {
		panic(err)
	}
	return rl.Stats.Documents
}

func contains(xs []string, s string) bool {
	for _, x := range xs {
		if x == s {
			return true
		}
	}
	return false
}

// ignored: the documented meaning of .sourcegraph/ignore restricted to the patterns the generator uses here
// (plain path prefixes: "for patterns without any glob-characters, a trailing ** is implicit").
func ignored(patterns []string, path string) bool {
	for _, p := range patterns {
		p = strings.TrimSpace(p)
		if p == "" || strings.HasPrefix(p, "#") {
			continue
		}
		p = strings.TrimPrefix(p, "/")
		if strings.HasPrefix(path, p) {
			return true
		}
	}
	return false
}

func fallbackClass(e string) string {
	switch {
	case strings.Contains(e, "no existing shards"):
		return "no-shards"
	case strings.Contains(e, "shard threshold"):
		return "threshold"
	case strings.Contains(e, "branch set"):
		return "branch-set"
	case strings.Contains(e, "non-file entry"):
		return "file-vs-submodule-link"
	case strings.Contains(e, "not yet supported in delta builds"):
		return "ignore-file"
	case strings.Contains(e, "index options"):
		return "options"
	}
	return "other:" + e
}

func main() {
	f := gen.ParseFlags()
	w := gen.NewWriter(f.Out)
	defer w.Close()
	tmp, err := os.MkdirTemp(os.Getenv("VERIF_WORK"), "c13-")
	if err != nil {
		panic(err)
	}
	defer os.RemoveAll(tmp)
	rn := &runner{fsck: f.Tier == "thorough", w: w, tmp: tmp, paths: gen.NewInterner(), blobs: gen.NewInterner(), branches: gen.NewInterner()}

	if f.Replay != "" {
		var rp struct {
			Case struct {
				Detail history `json:"detail"`
			} `json:"case"`
			First struct {
				Detail history `json:"detail"`
			} `json:"first_disagreement"`
		}
		b, err := os.ReadFile(f.Replay)
		if err != nil {
			panic(err)
		}
		if err := json.Unmarshal(b, &rp); err != nil {
			panic(err)
		}
		h := rp.Case.Detail
		if len(h.Steps) == 0 {
			h = rp.First.Detail
		}
		if len(h.Steps) > 0 {
			rn.run(h, "replay")
		}
		return
	}

	// corpus first
	if f.Corpus != "" {
		files, _ := filepath.Glob(filepath.Join(f.Corpus, "*.json"))
		sort.Strings(files)
		for _, fn := range files {
			b, err := os.ReadFile(fn)
			if err != nil {
				continue
			}
			var h history
			if err := json.Unmarshal(b, &h); err != nil || len(h.Steps) == 0 {
				panic("bad corpus file " + fn)
			}
			rn.run(h, filepath.Base(fn))
			w.Count("corpus", 1)
		}
	}

	r := gen.NewRand(f.Seed)
	n := f.N(5, 90)
	t0 := time.Now()
	if os.Getenv("C13_ONLY_SPECIAL") == "" {
		for i := 0; i < n; i++ {
			rn.run(genHistory(r.Fork(), f), fmt.Sprint(i))
		}
	}
	for i := 0; i < f.N(1, 8); i++ {
		mr := r.Fork()
		rn.run(genMatrix(mr, []string{"main", "dev"}), "matrix")
		rn.run(genMatrix(mr, []string{"dev", "main"}), "matrix")
		if i%2 == 0 {
			three := []string{"main", "dev", "rel"}
			gen.Shuffle(mr, three)
			rn.run(genMatrix(mr, three), "matrix")
		}
	}
	for i := 0; i < f.N(1, 10); i++ {
		for _, kind := range []string{"gitlink", "ignore", "ignore-change", "head-not-first", "branch-reorder", "unicode", "skipped-content"} {
			rn.run(genSpecial(r.Fork(), kind), kind)
		}
	}
	fmt.Fprintf(os.Stderr, "timing: total=%v index=%v open=%v close=%v\n", time.Since(t0), tIndex, tOpen, tClose)
}
