// C34 harness: zoekt-local-sync makes the index match the discovered repositories.
//
// Streams (all through the real code: cmd/zoekt-local-sync built with -tags verif, driven by its hook driver):
//  1. histories on real git repositories and real index directories: `sync -f` / `remove -f` rounds with the roots and the
//     index directory mutated between rounds (added / deleted / updated / moved / renamed repositories, bare and non-bare,
//     nested, repository at a root, overlapping and repeated roots, duplicate names; renamed / deleted / foreign / junk
//     shards, sidecars). After each round: inventory via index.ReadMetadataPathAlive, snapshot diff, search through
//     zoekt's search API (Go oracle), second run is a no-op; the Lean model predicts output and final inventory, and the
//     executable statements `converged` / `removeExact` are evaluated on the implementation's final inventory.
//  2. discoverRepositories on generated directory trees (fake .git / objects markers, files, fifos) against the model
//     and the declarative specification; an independent Go walk is a second oracle.
//  3. selectRecords / normalizeSource on synthetic inventories against the model.
package main

import (
	"fmt"
	"os"
	"path/filepath"
	"strings"
	"syscall"
	"time"

	"verifharness/gen"
	"verifharness/l1sync"
)

var treeNames = []string{"a", "b", "x.git", "team", ".git", "objects", "é", "c.git", "a.git", "refs", "deep", ".config", ".dot.git", ".hidden"}

func makeTree(r *gen.Rand, dir string, depth int) {
	n := r.Range(0, 4)
	if depth == 0 {
		n = r.Range(1, 5)
	}
	for i := 0; i < n; i++ {
		name := gen.Pick(r, treeNames)
		p := filepath.Join(dir, name)
		if _, err := os.Lstat(p); err == nil {
			continue
		}
		k := r.Intn(10)
		switch {
		case name == ".git" && k < 3:
			os.WriteFile(p, []byte("gitdir: /nowhere\n"), 0o644)
		case k == 9:
			syscall.Mkfifo(p, 0o644)
		case k == 8 && name != ".git":
			os.WriteFile(p, []byte("x"), 0o644)
		default:
			os.Mkdir(p, 0o755)
			if depth < 3 && name != ".git" {
				makeTree(r, p, depth+1)
			}
		}
	}
}

// makeTwins puts a work tree "x" and a bare repository "x.git" side by side (both are named "x"), at the top of the root
// or one level down: a name collision inside a single root.
func makeTwins(r *gen.Rand, root string) {
	dir := root
	if r.Bool() {
		dir = filepath.Join(root, gen.Pick(r, []string{"team", "deep", "grp"}))
	}
	n := gen.Pick(r, []string{"proj", "a", "lib", "é"})
	if os.MkdirAll(filepath.Join(dir, n, ".git"), 0o755) != nil {
		return
	}
	os.MkdirAll(filepath.Join(dir, n+".git", "objects"), 0o755)
}

func discoverTreeCase(t *l1sync.Tool, base string, r *gen.Rand, i int) gen.Case {
	top := filepath.Join(base, fmt.Sprintf("d%d", i))
	var rootDirs []string
	for k, n := 0, r.Range(1, 3); k < n; k++ {
		name := gen.Pick(r, []string{"r0", "r1", "r2", "root.git", "r0/team", "r1/deep"})
		d := filepath.Join(top, name)
		if err := os.MkdirAll(d, 0o755); err != nil {
			continue // a file or fifo of an earlier root is in the way
		}
		makeTree(r, d, 0)
		if r.Chance(1, 4) {
			makeTwins(r, d)
		}
		rootDirs = append(rootDirs, d)
	}
	if len(rootDirs) == 0 {
		d := filepath.Join(top, "rx")
		if err := os.MkdirAll(d, 0o755); err != nil {
			panic(err)
		}
		makeTree(r, d, 0)
		rootDirs = append(rootDirs, d)
	}
	// root arguments: the made directories, sometimes a sub-directory or a repeated / parent root
	var abs []string
	for _, d := range rootDirs {
		abs = append(abs, d)
	}
	if r.Chance(1, 4) {
		abs = append(abs, filepath.Join(top, "r0"))
	}
	if r.Chance(1, 5) {
		for _, s := range []string{"team", "a", "deep", ".config"} {
			p := filepath.Join(abs[0], s)
			if st, err := os.Stat(p); err == nil && st.IsDir() {
				abs = append(abs, p)
				break
			}
		}
	}
	var existing []string
	seen := map[string]bool{}
	for _, a := range abs {
		if st, err := os.Stat(a); err == nil && st.IsDir() && (!seen[a] || r.Chance(1, 3)) {
			existing = append(existing, a)
			seen[a] = true
		}
	}
	gen.Shuffle(r, existing)
	var args []string
	for _, a := range existing {
		if r.Chance(1, 4) {
			rel, _ := filepath.Rel(base, a)
			args = append(args, rel)
		} else {
			args = append(args, a)
		}
	}
	c := l1sync.DiscoverCase(t, existing, args)
	os.RemoveAll(top)
	return c
}

var selSources = []string{"/r/a", "/r/a/", "/r/a/.git", "/r/b", "", "rel/a", "/r/b/../a", "a", "/q/a"}
var selNames = []string{"a", "b", "team/a", "/r/a", "rel/a", "x"}

func selectCase(t *l1sync.Tool, cwd string, r *gen.Rand) gen.Case {
	var shards []map[string]string
	var mshards []l1sync.ModelShard
	perm := []int{0, 1, 2, 3, 4, 5, 6}
	gen.Shuffle(r, perm)
	for i, n := 0, r.Intn(7); i < n; i++ {
		p := fmt.Sprintf("/i/p%d_v16.0000%d.zoekt", perm[i]%4, perm[i]/4)
		name, src := gen.Pick(r, selNames), gen.Pick(r, selSources)
		shards = append(shards, map[string]string{"path": p, "name": name, "source": src})
		mshards = append(mshards, l1sync.ModelShard{Path: p, Name: name, Source: src, Ver: "v", OptOk: true, MetaOk: true})
	}
	var sels []string
	for i, n := 0, r.Range(1, 3); i < n; i++ {
		switch {
		case len(shards) > 0 && r.Chance(2, 3):
			s := gen.Pick(r, shards)
			if r.Bool() {
				sels = append(sels, s["name"])
			} else {
				sels = append(sels, s["source"])
			}
		default:
			sels = append(sels, gen.Pick(r, append(append([]string{}, selNames...), selSources...)))
		}
	}
	for i := range sels {
		if sels[i] == "" {
			sels[i] = "nosuch"
		}
	}
	resp := t.Call(map[string]any{"op": "select", "shards": shards, "selectors": sels})
	c := gen.Case{In: fmt.Sprintf("select %s %s %s", l1sync.Hx(cwd), l1sync.EncStrs(sels), l1sync.EncShards(mshards))}
	switch {
	case resp.Panic != "" || resp.Crashed:
		c.Go, c.Key, c.In = "selectRecords panicked: "+resp.Panic, "panic", ""
	case strings.Contains(resp.Err, "not found"):
		c.Impl, c.Class = "err notfound", "select:notfound"
	case strings.Contains(resp.Err, "ambiguous"):
		c.Impl, c.Class = "err ambiguous", "select:ambiguous"
	case resp.Err != "":
		c.Impl, c.Class = "err other", "select:other"
	default:
		var xs []string
		for _, rec := range resp.Records {
			xs = append(xs, l1sync.Hx(rec.Name)+":"+l1sync.Hx(rec.Source)+":"+l1sync.EncStrs(rec.Shards))
		}
		c.Impl, c.Class = "ok "+l1sync.JoinL(";", xs), fmt.Sprintf("select:ok:%d", len(resp.Records))
		c.Nontrivial = true
	}
	return c
}

var normSources = []string{"/r/a", "/r/a/", "/r/a/.git", "/r/./a", "/r/b/../a", "", "rel/a", "./rel/a/.git", "/", "/.git", ".git", "..",
	"/r/a/.git/.git", "/r/é", "/r/a//", "../up", "/r/a/..", "/..", ".", "./", "a/.git/", "//x", "/r/.git/x"}

func normCase(t *l1sync.Tool, cwd string, r *gen.Rand) gen.Case {
	src := gen.Pick(r, normSources)
	if r.Chance(1, 3) {
		src += gen.Pick(r, []string{"/.git", "/x", "/..", "/."})
	}
	resp := t.Call(map[string]any{"op": "normalize", "source": src})
	return gen.Case{In: fmt.Sprintf("norm %s %s", l1sync.Hx(cwd), l1sync.Hx(src)), Impl: l1sync.Hx(resp.Out), Class: "norm"}
}

func main() {
	f := gen.ParseFlags()
	w := gen.NewWriter(f.Out)
	defer w.Close()
	env := l1sync.Setup("c34")
	defer l1sync.Cleanup(env)

	roundCases := func(rd *l1sync.Round) []gen.Case {
		cs := []gen.Case{rd.Case34()}
		if rd.Kind == "sync" {
			cs = append(cs, l1sync.DiscoverCase(rd.Tool, rd.RootsAbs, rd.RootArgs))
		}
		return cs
	}
	runScript := func(tag string, i int, script []string) []gen.Case {
		base := l1sync.ScenarioDir(env, tag, i)
		t, err := l1sync.StartTool(env.Bin, env.Mode, base)
		if err != nil {
			panic(err)
		}
		defer t.Close()
		var cs []gen.Case
		err = l1sync.RunScript(base, env.Tmpls, t, script, false, func(rd *l1sync.Round) {
			for _, c := range roundCases(rd) {
				cs = append(cs, l1sync.WithOrigin(c, 0, 0, script))
			}
		})
		if err != nil {
			fmt.Fprintln(os.Stderr, "script:", err)
			os.Exit(3)
		}
		os.RemoveAll(base)
		return cs
	}
	runScenario := func(seed uint64, i, rounds int) []gen.Case {
		base := l1sync.ScenarioDir(env, "s", i)
		t, err := l1sync.StartTool(env.Bin, env.Mode, base)
		if err != nil {
			panic(err)
		}
		defer t.Close()
		r := gen.NewRand(seed*1000003 + uint64(i) + 0x34)
		var cs []gen.Case
		l1sync.RunScenario(base, env.Tmpls, t, r, rounds, false, func(rd *l1sync.Round) {
			for _, c := range roundCases(rd) {
				cs = append(cs, l1sync.WithOrigin(c, seed, i, nil))
			}
		})
		os.RemoveAll(base)
		return cs
	}

	if f.Replay != "" {
		if rs := l1sync.ReadReplay(f.Replay); rs.OK {
			var cs []gen.Case
			if rs.Script != nil {
				cs = runScript("replay", 0, rs.Script)
			} else {
				cs = runScenario(rs.Seed, rs.Scenario, f.N(4, 5))
			}
			for _, c := range cs {
				w.Emit(c)
			}
			return
		}
	}

	for i, e := range l1sync.ReadCorpus(f.Corpus) {
		for _, c := range runScript("corpus", i, e.Script) {
			if c.Class != "" {
				c.Class = "corpus:" + c.Class
			}
			w.Emit(c)
		}
	}

	tPhase := time.Now()
	rounds := f.N(4, 5)
	l1sync.Parallel(f.N(20, 80), f.N(4, 8), func(i int) []gen.Case { return runScenario(f.Seed, i, rounds) }, w)

	l1sync.Phase("scenarios", tPhase)
	tPhase = time.Now()
	cwd := filepath.Join(env.Work, "cwd")
	os.MkdirAll(cwd, 0o755)
	t, err := l1sync.StartTool(env.Bin, env.Mode, cwd)
	if err != nil {
		panic(err)
	}
	defer t.Close()
	r := gen.NewRand(f.Seed ^ 0x3434)
	for i, n := 0, f.N(250, 3000); i < n; i++ {
		w.Emit(discoverTreeCase(t, cwd, r, i))
	}
	l1sync.Phase("discover-trees", tPhase)
	tPhase = time.Now()
	for i, n := 0, f.N(800, 10000); i < n; i++ {
		w.Emit(selectCase(t, cwd, r))
	}
	for i, n := 0, f.N(200, 2000); i < n; i++ {
		w.Emit(normCase(t, cwd, r))
	}
	l1sync.Phase("select+norm", tPhase)
}
