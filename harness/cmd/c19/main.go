// C19 harness: shard reloads (search/watcher.go, search/shards.go) against the Lean model, plus end-to-end runs.
//
//	vfp   – versionFromPath on generated paths (real function through a recover wrapper) vs the model; Spec.checkVfp.
//	scan  – the real DirectoryWatcher.scan (no goroutines, recording loader) over real temp directories that are edited
//	        between scans (create / replace / delete shards of several format versions, sidecars, odd names, equal and
//	        changed mtimes); the listing given to the model is read independently of the code under test; Spec.checkScan.
//	cow   – the real shardedSearcher.replace / getLoaded with stub searchers, snapshots held like running searches, forced
//	        garbage collections; which shards the finalizers closed is observed and fed to the small-step model, which
//	        must allow it; Spec.checkCow.  Go oracles: every replaced shard is eventually closed exactly once, no loaded one.
//	conc  – one writer replacing whole generations of shards while readers take snapshots, run real Search / List through
//	        the Streamer API and force GCs: every snapshot / result is from one generation, no shard is used after Close.
//	e2e   – a real NewDirectorySearcher (fsnotify watcher, real shards built with ShardBuilder, mmap) under concurrent
//	        directory edits (create, replace by rename, delete, sidecar update, format-version upgrade / downgrade),
//	        searches, listings and GCs; every result has one complete version per repository and no crashed shard; after
//	        the edits stop the loaded set and what Search/List return converge to the directory.  Thorough tier repeats
//	        conc + e2e in a copy of this harness built with -race.
package main

import (
	"bytes"
	"context"
	"encoding/json"
	"fmt"
	"log"
	"os"
	"os/exec"
	"path/filepath"
	"runtime"
	"sort"
	"strconv"
	"strings"
	"sync"
	"sync/atomic"
	"syscall"
	"time"

	"github.com/sourcegraph/zoekt"
	"github.com/sourcegraph/zoekt/index"
	"github.com/sourcegraph/zoekt/query"
	"github.com/sourcegraph/zoekt/search"

	"verifharness/gen"
)

var tmpRoot string

func mkTmp(prefix string) string {
	d, err := os.MkdirTemp(tmpRoot, prefix)
	if err != nil {
		panic(err)
	}
	return d
}

// ---------------------------------------------------------------------------------------------------------------
// versionFromPath

func vfpCase(path string) gen.Case {
	name, version, pan := search.VerifVersionFromPath(path)
	impl := fmt.Sprintf("ok %s %d", gen.Hex([]byte(name)), version)
	class := "vfp:plain"
	if pan != "" {
		impl = "panic"
		class = "vfp:panic"
	} else if version != 0 {
		class = "vfp:versioned"
	}
	return gen.Case{In: "vfp " + gen.Hex([]byte(path)), Impl: impl, Class: class, Nontrivial: version != 0,
		Detail: gen.Detail(map[string]any{"kind": "vfp", "path_hex": gen.Hex([]byte(path))})}
}

func genPath(r *gen.Rand) string {
	switch r.Intn(10) {
	case 0, 1, 2:
		// realistic, with small mutations
		dir := gen.Pick(r, []string{"", "", "/data/index/", "idx_v2.d/", "a_b/", "/x.y/"})
		repo := gen.Pick(r, []string{"github.com%2Fgoogle%2Fzoekt", "foo", "a_b", "x", "compound-0a1b", "000000001_000000042", ""})
		ver := gen.Pick(r, []string{"16", "17", "15", "18", "0", "016", "-1", "+16", "", "9223372036854775807", "9223372036854775808", "99999999999999999999", "1_6", "1x"})
		sep := gen.Pick(r, []string{"_v", "_v", "_v", "_", "_vv", "_V", "__"})
		tail := gen.Pick(r, []string{".00000.zoekt", ".00001.zoekt", ".zoekt", "", ".", "..zoekt", ".00000.zoekt.meta"})
		return dir + repo + sep + ver + tail
	case 3, 4:
		// the bytes that matter, in random order
		alpha := []string{"_", "_", ".", ".", "v", "1", "6", "7", "0", "-", "+", "/", "a", "é", "\xff"}
		n := r.Range(0, 10)
		var sb strings.Builder
		for i := 0; i < n; i++ {
			sb.WriteString(gen.Pick(r, alpha))
		}
		return sb.String()
	case 5:
		return gen.Pick(r, []string{"x_.zoekt", "_.", "_", "", ".", "a_", "a_b", "a_b.", "a_bc.", "foo_v16.00000.zoekt", "/d_1.x/foo.zoekt"})
	default:
		return string(gen.Text(r, 6, true)) + gen.Pick(r, []string{"", "_v16.00000.zoekt", "_.zoekt", "_v.zoekt"})
	}
}

// ---------------------------------------------------------------------------------------------------------------
// scan

type scanEnt struct {
	Fn    string `json:"fn"`
	Mtime int64  `json:"mtime"` // -1 = Lstat failed
	Side  int64  `json:"side"`  // -1 = no sidecar
}

// listDir reads the directory independently of the code under test: names ending in ".zoekt", byte-sorted.
func listDir(dir string) []scanEnt {
	des, err := os.ReadDir(dir)
	if err != nil {
		panic(err)
	}
	var out []scanEnt
	for _, de := range des {
		if !strings.HasSuffix(de.Name(), ".zoekt") {
			continue
		}
		p := filepath.Join(dir, de.Name())
		e := scanEnt{Fn: p, Mtime: -1, Side: -1}
		if fi, err := os.Lstat(p); err == nil {
			e.Mtime = fi.ModTime().UnixNano()
		}
		if fi, err := os.Lstat(p + ".meta"); err == nil {
			e.Side = fi.ModTime().UnixNano()
		}
		out = append(out, e)
	}
	sort.Slice(out, func(i, j int) bool { return out[i].Fn < out[j].Fn })
	return out
}

func optN(v int64) string {
	if v < 0 {
		return "x"
	}
	return strconv.FormatInt(v, 10)
}

func showListing(es []scanEnt) string {
	if len(es) == 0 {
		return "-"
	}
	var p []string
	for _, e := range es {
		p = append(p, fmt.Sprintf("%s:%s:%s", gen.Hex([]byte(e.Fn)), optN(e.Mtime), optN(e.Side)))
	}
	return strings.Join(p, ";")
}

func showTS(m map[string]search.VerifStamp) string {
	if len(m) == 0 {
		return "-"
	}
	var ks []string
	for k := range m {
		ks = append(ks, k)
	}
	sort.Strings(ks)
	var p []string
	for _, k := range ks {
		side := "x"
		if m[k].HasMeta {
			side = strconv.FormatInt(m[k].Meta.UnixNano(), 10)
		}
		p = append(p, fmt.Sprintf("%s:%d:%s", gen.Hex([]byte(k)), m[k].Shard.UnixNano(), side))
	}
	return strings.Join(p, ";")
}

func showKeys(ks []string) string {
	if len(ks) == 0 {
		return "-"
	}
	ks = append([]string(nil), ks...)
	sort.Strings(ks)
	var p []string
	for _, k := range ks {
		p = append(p, gen.Hex([]byte(k)))
	}
	return strings.Join(p, ";")
}

type scanMut struct {
	Op   string `json:"op"` // write | rm | side | rmside | mkdir
	Name string `json:"name"`
	T    int64  `json:"t"` // seconds after the base time
	// At: "" = before the scan starts; "pre" / "post" = while scan is inside loader.load, before resp. after the load
	// itself (an indexer's rename landing during a scan; scan has stat'ed everything by then)
	At string `json:"at,omitempty"`
}

type scanSeq struct {
	Dir   string      `json:"dir"`
	Steps [][]scanMut `json:"steps"`
}

var scanBase = time.Unix(1700000000, 0)

func applyMut(dir string, m scanMut) {
	p := filepath.Join(dir, m.Name)
	t := scanBase.Add(time.Duration(m.T) * time.Second)
	switch m.Op {
	case "write":
		if fi, err := os.Lstat(p); err == nil && fi.IsDir() {
			return
		}
		tmp := p + ".part"
		if err := os.WriteFile(tmp, []byte("x"), 0o644); err != nil {
			panic(err)
		}
		os.Chtimes(tmp, t, t)
		if err := os.Rename(tmp, p); err != nil {
			panic(err)
		}
	case "touch":
		os.Chtimes(p, t, t)
	case "rm":
		os.RemoveAll(p)
	case "side":
		tmp := p + ".meta.part"
		os.WriteFile(tmp, []byte("{}"), 0o644)
		os.Chtimes(tmp, t, t)
		os.Rename(tmp, p+".meta")
	case "rmside":
		os.Remove(p + ".meta")
	case "mkdir":
		os.Mkdir(p, 0o755)
		os.Chtimes(p, t, t)
	}
}

func genScanSeq(r *gen.Rand) scanSeq {
	var sq scanSeq
	sq.Dir = gen.Pick(r, []string{"plain", "plain", "with_under", "idx_v9.d", "idx_v18.bak", "a.b_c", "d_.x"})
	var pool []string
	for _, repo := range []string{"foo", "bar", "a_b"} {
		for _, v := range []int{15, 16, 17, 18, 19} {
			for _, n := range []int{0, 1} {
				pool = append(pool, fmt.Sprintf("%s_v%d.%05d.zoekt", repo, v, n))
			}
		}
	}
	odd := []string{"noversion.zoekt", "neg_v-1.00000.zoekt", "big_v99999999999999999999.00000.zoekt", "y_v16.zoekt",
		"z_16.00000.zoekt", "p_vv16.00000.zoekt", "q_v+16.00000.zoekt", "foo_v0.00000.zoekt", "foo_v016.00000.zoekt", ".zoekt",
		"x_.zoekt", "foo_v16.00000.zoekt.tmp", "other.meta"}
	names := func() string {
		if r.Chance(1, 5) {
			return gen.Pick(r, odd)
		}
		if r.Chance(1, 2) {
			// concentrate on few names so that versions compete and files get replaced
			return gen.Pick(r, pool[:12])
		}
		return gen.Pick(r, pool)
	}
	steps := r.Range(1, 6)
	for s := 0; s < steps; s++ {
		var ms []scanMut
		n := r.Range(0, 5)
		if s == 0 {
			n = r.Range(1, 8)
		}
		for i := 0; i < n; i++ {
			t := int64(r.Range(0, 4))
			switch r.Intn(10) {
			case 0, 1, 2, 3:
				ms = append(ms, scanMut{Op: "write", Name: names(), T: t})
			case 4:
				ms = append(ms, scanMut{Op: "touch", Name: names(), T: t})
			case 5, 6:
				ms = append(ms, scanMut{Op: "rm", Name: names()})
			case 7, 8:
				ms = append(ms, scanMut{Op: "side", Name: names(), T: t})
			case 9:
				if r.Bool() {
					ms = append(ms, scanMut{Op: "rmside", Name: names()})
				} else {
					ms = append(ms, scanMut{Op: "mkdir", Name: "dir_v16.00000.zoekt", T: t})
				}
			}
		}
		// half of the steps: the directory also changes while the scan is loading - mostly the very files it loads
		if r.Bool() {
			var written []string
			for _, m := range ms {
				if m.Op == "write" || m.Op == "side" || m.Op == "touch" {
					written = append(written, m.Name)
				}
			}
			for k := r.Range(1, 2); k > 0; k-- {
				name := names()
				if len(written) > 0 && r.Chance(3, 4) {
					name = gen.Pick(r, written)
				}
				at := gen.Pick(r, []string{"pre", "post", "post"})
				op := gen.Pick(r, []string{"write", "write", "touch", "side", "rmside", "rm"})
				ms = append(ms, scanMut{Op: op, Name: name, T: int64(r.Range(5, 9)), At: at})
			}
		}
		sq.Steps = append(sq.Steps, ms)
	}
	return sq
}

func runScanSeq(w *gen.Writer, sq scanSeq, class string) {
	base := mkTmp("scan")
	defer os.RemoveAll(base)
	dir := filepath.Join(base, sq.Dir)
	if err := os.Mkdir(dir, 0o755); err != nil {
		panic(err)
	}
	sc := search.VerifNewScanner(dir, nil)
	for si, ms := range sq.Steps {
		nmid := 0
		for _, m := range ms {
			if m.At == "" {
				applyMut(dir, m)
			} else {
				nmid++
			}
		}
		old := sc.Timestamps()
		listing := listDir(dir) // what scan will Glob and Lstat: the edits below come after that
		mid := func(at string) func([]string) {
			return func([]string) {
				for _, m := range ms {
					if m.At == at {
						applyMut(dir, m)
					}
				}
			}
		}
		sc.SetLoadHooks(mid("pre"), mid("post"))
		calls, err, pan := sc.Scan()
		sc.SetLoadHooks(nil, nil)
		if nmid > 0 {
			w.Count("scan:directory-changed-during-load", 1)
		}
		in := fmt.Sprintf("scan %d %d %s %s", index.IndexFormatVersion, index.NextIndexFormatVersion, showListing(listing), showTS(old))
		var impl string
		c := gen.Case{In: in, Class: class, Detail: gen.Detail(map[string]any{"kind": "scan", "seq": sq, "step": si})}
		switch {
		case pan != "":
			impl = "panic"
		case err != nil:
			impl = "err"
		default:
			var drop, load []string
			order := ""
			for _, cl := range calls {
				order += cl.Op[:1]
				if cl.Op == "drop" {
					drop = append(drop, cl.Keys...)
				} else {
					load = append(load, cl.Keys...)
				}
			}
			impl = fmt.Sprintf("ok ts=%s drop=%s load=%s calls=%s", showTS(sc.Timestamps()), showKeys(drop), showKeys(load), order)
			if len(load) > 0 {
				w.Count("scan:with-load", 1)
			}
			if len(drop) > 0 {
				w.Count("scan:with-drop", 1)
			}
			if len(load) == 0 && len(drop) == 0 {
				w.Count("scan:no-change", 1)
			}
			c.Nontrivial = len(load)+len(drop) > 0 && len(listing) > len(sc.Timestamps())
		}
		c.Impl = impl
		w.Emit(c)
		if pan != "" {
			return
		}
	}
}

// ---------------------------------------------------------------------------------------------------------------
// stub searchers

type registry struct {
	mu          sync.Mutex
	closed      []int
	doubleClose atomic.Int64
	useAfter    atomic.Int64
}

type stub struct {
	sid, key, gen int
	name          string
	prio          float64
	closed        atomic.Bool
	reg           *registry
}

func (s *stub) Search(ctx context.Context, q query.Q, opts *zoekt.SearchOptions) (*zoekt.SearchResult, error) {
	if s.closed.Load() {
		s.reg.useAfter.Add(1)
	}
	runtime.Gosched()
	if s.closed.Load() {
		s.reg.useAfter.Add(1)
	}
	return &zoekt.SearchResult{
		Files:    []zoekt.FileMatch{{FileName: fmt.Sprintf("k%d-g%d", s.key, s.gen), Repository: s.name, RepositoryID: uint32(s.key + 1)}},
		RepoURLs: map[string]string{s.name: ""}, LineFragments: map[string]string{s.name: ""},
		Stats: zoekt.Stats{FileCount: 1, MatchCount: 1},
	}, nil
}

func (s *stub) List(ctx context.Context, q query.Q, opts *zoekt.ListOptions) (*zoekt.RepoList, error) {
	if s.closed.Load() {
		s.reg.useAfter.Add(1)
	}
	return &zoekt.RepoList{Repos: []*zoekt.RepoListEntry{{Repository: zoekt.Repository{Name: s.name, ID: uint32(s.key + 1),
		RawConfig: map[string]string{"priority": strconv.FormatFloat(s.prio, 'f', 2, 64), "gen": strconv.Itoa(s.gen)}}}}}, nil
}

func (s *stub) Close() {
	if !s.closed.CompareAndSwap(false, true) {
		s.reg.doubleClose.Add(1)
		return
	}
	s.reg.mu.Lock()
	s.reg.closed = append(s.reg.closed, s.sid)
	s.reg.mu.Unlock()
}
func (s *stub) String() string { return fmt.Sprintf("stub(k%d,s%d)", s.key, s.sid) }

func (r *registry) takeClosed() []int {
	r.mu.Lock()
	defer r.mu.Unlock()
	c := r.closed
	r.closed = nil
	sort.Ints(c)
	return c
}

func forceGC() {
	runtime.GC()
	runtime.GC()
	time.Sleep(time.Millisecond)
}

func showSnap(s *search.VerifSnapshot) string {
	type kv struct{ k, v int }
	var l []kv
	for _, x := range s.Searchers() {
		st := x.(*stub)
		l = append(l, kv{st.key, st.sid})
	}
	if len(l) == 0 {
		return "-"
	}
	sort.Slice(l, func(i, j int) bool { return l[i].k < l[j].k || (l[i].k == l[j].k && l[i].v < l[j].v) })
	var p []string
	for _, x := range l {
		p = append(p, fmt.Sprintf("%d:%d", x.k, x.v))
	}
	return strings.Join(p, "+")
}

func rankOK(s *search.VerifSnapshot) bool {
	pr, nm := s.Priorities(), s.FirstRepoNames()
	for i := 1; i < len(pr); i++ {
		if pr[i-1] < pr[i] || (pr[i-1] == pr[i] && nm[i-1] > nm[i]) {
			return false
		}
	}
	return true
}

type cowScript struct {
	Ops []string `json:"ops"` // R…, S, E<i>, G (the ids observed at G are appended when run)
}

func joinInts(xs []int) string {
	if len(xs) == 0 {
		return "-"
	}
	var p []string
	for _, x := range xs {
		p = append(p, strconv.Itoa(x))
	}
	return strings.Join(p, "+")
}

// runCow executes a script (ops without observations) and returns the case.
func runCow(sc cowScript, class string) gen.Case {
	reg := &registry{}
	vs := search.VerifNewShardedSearcher(2)
	cur := map[int]*stub{}
	var replaced []int
	var snaps []*search.VerifSnapshot
	nextSid := 0
	var ops, outs []string
	goV, key := "", ""
	fail := func(v, k string) {
		if goV == "" {
			goV, key = v, k
		}
	}
	for _, op := range sc.Ops {
		switch op[0] {
		case 'R':
			batch := map[string]zoekt.Searcher{}
			if op != "R-" {
				for _, e := range strings.Split(op[1:], "+") {
					kv := strings.Split(e, ":")
					k, _ := strconv.Atoi(kv[0])
					kn := fmt.Sprintf("key%d", k)
					if old := cur[k]; old != nil {
						replaced = append(replaced, old.sid)
					}
					if kv[1] == "1" {
						st := &stub{sid: nextSid, key: k, name: fmt.Sprintf("repo-k%d", k), prio: float64((k*7 + nextSid) % 3), reg: reg}
						nextSid++
						batch[kn] = st
						cur[k] = st
					} else {
						batch[kn] = nil
						delete(cur, k)
					}
				}
			}
			vs.Replace(batch)
			sn := vs.Loaded()
			if !rankOK(sn) {
				fail("published list is not ordered by priority, then name", "rank-order")
			}
			ops = append(ops, op)
			outs = append(outs, showSnap(sn))
		case 'S':
			sn := vs.Loaded()
			snaps = append(snaps, sn)
			ops = append(ops, op)
			outs = append(outs, showSnap(sn))
		case 'E':
			i, _ := strconv.Atoi(op[1:])
			if i < len(snaps) {
				snaps[i] = nil
			}
			ops = append(ops, op)
			outs = append(outs, "-")
		case 'G':
			forceGC()
			ops = append(ops, "G"+joinInts(reg.takeClosed()))
			outs = append(outs, "-")
		}
	}
	// wind down: all searches end; every replaced shard must now get closed, no loaded one
	for i := range snaps {
		if snaps[i] != nil {
			snaps[i] = nil
			ops = append(ops, fmt.Sprintf("E%d", i))
			outs = append(outs, "-")
		}
	}
	closedAll := map[int]bool{}
	for _, o := range ops {
		if o[0] == 'G' && o != "G-" {
			for _, x := range strings.Split(o[1:], "+") {
				v, _ := strconv.Atoi(x)
				closedAll[v] = true
			}
		}
	}
	deadline := time.Now().Add(5 * time.Second)
	for len(closedAll) < len(replaced) && time.Now().Before(deadline) {
		forceGC()
		if c := reg.takeClosed(); len(c) > 0 {
			ops = append(ops, "G"+joinInts(c))
			outs = append(outs, "-")
			for _, x := range c {
				closedAll[x] = true
			}
		}
	}
	for _, sid := range replaced {
		if !closedAll[sid] {
			fail(fmt.Sprintf("replaced shard s%d was never closed (5s of forced GCs after all searches ended)", sid), "shard-never-closed")
		}
	}
	for _, st := range cur {
		if st.closed.Load() {
			fail(fmt.Sprintf("loaded shard s%d was closed", st.sid), "closed-live-shard")
		}
	}
	if reg.doubleClose.Load() > 0 {
		fail("a shard was closed twice", "closed-twice")
	}
	runtime.KeepAlive(vs)
	c := gen.Case{In: "cow " + join(ops), Impl: join(outs), Go: goV, Key: key, Class: class,
		Nontrivial: len(replaced) > 0, Detail: gen.Detail(map[string]any{"kind": "cow", "script": sc})}
	return c
}

func join(x []string) string {
	if len(x) == 0 {
		return "-"
	}
	return strings.Join(x, ",")
}

func genCow(r *gen.Rand) cowScript {
	var sc cowScript
	nsnap := 0
	live := []int{}
	n := r.Range(1, 25)
	for i := 0; i < n; i++ {
		switch r.Intn(10) {
		case 0, 1, 2, 3:
			ks := []int{0, 1, 2, 3, 4}
			gen.Shuffle(r, ks)
			ks = ks[:r.Range(1, 4)]
			var p []string
			for _, k := range ks {
				b := 1
				if r.Chance(1, 4) {
					b = 0
				}
				p = append(p, fmt.Sprintf("%d:%d", k, b))
			}
			sc.Ops = append(sc.Ops, "R"+strings.Join(p, "+"))
		case 4:
			if r.Chance(1, 4) {
				sc.Ops = append(sc.Ops, "R-")
			}
		case 5, 6:
			sc.Ops = append(sc.Ops, "S")
			live = append(live, nsnap)
			nsnap++
		case 7:
			if len(live) > 0 {
				j := r.Intn(len(live))
				sc.Ops = append(sc.Ops, fmt.Sprintf("E%d", live[j]))
				live = append(live[:j], live[j+1:]...)
			}
		default:
			sc.Ops = append(sc.Ops, "G")
		}
	}
	return sc
}

// ---------------------------------------------------------------------------------------------------------------
// concurrent replace / search over stubs

type concCfg struct {
	Keys    int    `json:"keys"`
	Gens    int    `json:"gens"`
	Readers int    `json:"readers"`
	Seed    uint64 `json:"seed"`
}

func genOf(fileName string) int {
	i := strings.LastIndex(fileName, "-g")
	v, _ := strconv.Atoi(fileName[i+2:])
	return v
}

func runConc(cfg concCfg) (verdict, key string, stats map[string]int) {
	reg := &registry{}
	vs := search.VerifNewShardedSearcher(4)
	vs.MarkReady()
	ss := vs.Streamer()
	mk := func(g int) map[string]zoekt.Searcher {
		m := map[string]zoekt.Searcher{}
		for k := 0; k < cfg.Keys; k++ {
			m[fmt.Sprintf("key%d", k)] = &stub{sid: g*1000 + k, key: k, gen: g, name: fmt.Sprintf("repo-k%d", k), prio: float64(k % 3), reg: reg}
		}
		return m
	}
	vs.Replace(mk(0))
	var done atomic.Bool
	var bad atomic.Value
	var nSnap, nSearch, nList atomic.Int64
	var wg sync.WaitGroup
	root := gen.NewRand(cfg.Seed)
	for i := 0; i < cfg.Readers; i++ {
		r := root.Fork()
		wg.Add(1)
		go func() {
			defer wg.Done()
			defer func() {
				if e := recover(); e != nil {
					bad.Store("panic: " + fmt.Sprint(e))
				}
			}()
			for !done.Load() {
				if r.Chance(1, 4) {
					time.Sleep(time.Duration(r.Intn(200)) * time.Microsecond)
				}
				switch r.Intn(4) {
				case 0:
					sn := vs.Loaded()
					if r.Chance(1, 8) {
						runtime.GC()
					}
					ss := sn.Searchers()
					if len(ss) != cfg.Keys {
						bad.Store(fmt.Sprintf("snapshot has %d shards, want %d", len(ss), cfg.Keys))
					}
					g := -1
					for _, x := range ss {
						st := x.(*stub)
						if g >= 0 && st.gen != g {
							bad.Store(fmt.Sprintf("snapshot mixes generations %d and %d (half-applied batch)", g, st.gen))
						}
						g = st.gen
						st.Search(context.Background(), nil, nil)
					}
					runtime.KeepAlive(sn)
					nSnap.Add(1)
				case 1, 2:
					res, err := ss.Search(context.Background(), &query.Substring{Pattern: "x"}, &zoekt.SearchOptions{})
					if err != nil {
						bad.Store("Search: " + err.Error())
						continue
					}
					if len(res.Files) != cfg.Keys {
						bad.Store(fmt.Sprintf("Search returned %d files, want %d", len(res.Files), cfg.Keys))
					}
					if res.Stats.Crashes != 0 {
						bad.Store("Search reported a crashed shard")
					}
					g := -1
					for _, f := range res.Files {
						if g >= 0 && genOf(f.FileName) != g {
							bad.Store(fmt.Sprintf("one Search result mixes generations %d and %d", g, genOf(f.FileName)))
						}
						g = genOf(f.FileName)
					}
					nSearch.Add(1)
				case 3:
					rl, err := ss.List(context.Background(), &query.Const{Value: true}, nil)
					if err != nil {
						bad.Store("List: " + err.Error())
						continue
					}
					if len(rl.Repos) != cfg.Keys || rl.Crashes != 0 {
						bad.Store(fmt.Sprintf("List returned %d repos (crashes %d), want %d", len(rl.Repos), rl.Crashes, cfg.Keys))
					}
					g := ""
					for _, e := range rl.Repos {
						if g != "" && e.Repository.RawConfig["gen"] != g {
							bad.Store("one List result mixes generations " + g + " and " + e.Repository.RawConfig["gen"])
						}
						g = e.Repository.RawConfig["gen"]
					}
					nList.Add(1)
				}
			}
		}()
	}
	for g := 1; g <= cfg.Gens; g++ {
		vs.Replace(mk(g))
		if g%7 == 0 {
			runtime.GC()
		}
		if g%3 == 0 {
			runtime.Gosched()
		}
	}
	done.Store(true)
	wg.Wait()
	// everything but the last generation must get closed, the last must not
	want := cfg.Gens * cfg.Keys
	got := 0
	deadline := time.Now().Add(10 * time.Second)
	for got < want && time.Now().Before(deadline) {
		forceGC()
		got += len(reg.takeClosed())
	}
	stats = map[string]int{"conc:snapshots": int(nSnap.Load()), "conc:searches": int(nSearch.Load()), "conc:lists": int(nList.Load()),
		"conc:closed": got}
	live := vs.Loaded()
	for _, x := range live.Searchers() {
		if x.(*stub).closed.Load() {
			return "a loaded shard was closed", "closed-live-shard", stats
		}
	}
	if b, _ := bad.Load().(string); b != "" {
		k := "conc-inconsistent"
		if strings.Contains(b, "mixes") {
			k = "snapshot-two-versions"
		}
		return b, k, stats
	}
	if reg.useAfter.Load() > 0 {
		return fmt.Sprintf("%d calls on a shard after its Close", reg.useAfter.Load()), "use-after-close", stats
	}
	if reg.doubleClose.Load() > 0 {
		return "a shard was closed twice", "closed-twice", stats
	}
	if got != want {
		return fmt.Sprintf("%d of %d replaced shards were closed after 10s of forced GCs", got, want), "shard-never-closed", stats
	}
	runtime.KeepAlive(vs)
	return "", "", stats
}

// ---------------------------------------------------------------------------------------------------------------
// end to end: real directory searcher, real shards

type e2eCfg struct {
	Repos     int    `json:"repos"`
	Editors   int    `json:"editors"`
	Edits     int    `json:"edits"`
	Searchers int    `json:"searchers"`
	Seed      uint64 `json:"seed"`
}

func buildShard(repo string, id uint32, cv int, ndocs int) []byte {
	b, err := index.NewShardBuilder(&zoekt.Repository{Name: repo, ID: id, RawConfig: map[string]string{"cv": strconv.Itoa(cv)}})
	if err != nil {
		panic(err)
	}
	for j := 0; j < ndocs; j++ {
		if err := b.Add(index.Document{Name: fmt.Sprintf("cv%d_%d.txt", cv, j), Content: []byte(fmt.Sprintf("needle of %s content version %d file %d\n", repo, cv, j))}); err != nil {
			panic(err)
		}
	}
	var buf bytes.Buffer
	if err := b.Write(&buf); err != nil {
		panic(err)
	}
	return buf.Bytes()
}

type diskFile struct {
	cv int // content version
	mv int // sidecar version, 0 = no sidecar
}

type e2eTruth struct {
	mu    sync.Mutex
	clock int64
	files map[string]*diskFile // base name → state
	nextV map[int]int          // repo → next content / sidecar version
	busy  map[int]bool         // repo being edited (one editor per repo at a time keeps the truth linear)
}

const docsPerShard = 3

func cvOf(fileName string) int {
	// cv<N>_<j>.txt
	s := strings.TrimPrefix(fileName, "cv")
	if i := strings.Index(s, "_"); i >= 0 {
		v, _ := strconv.Atoi(s[:i])
		return v
	}
	return -1
}

func shardBase(repo, fv int) string { return fmt.Sprintf("repo%d_v%d.00000.zoekt", repo, fv) }

func runE2E(cfg e2eCfg) (verdict, key string, stats map[string]int) {
	dir := mkTmp("e2e")
	defer os.RemoveAll(dir)
	tr := &e2eTruth{files: map[string]*diskFile{}, nextV: map[int]int{}, busy: map[int]bool{}}
	base := time.Now().Add(-2 * time.Hour)
	tick := func() time.Time { // strictly increasing, distinct mtimes: a new version always has a fresh timestamp
		tr.mu.Lock()
		tr.clock++
		c := tr.clock
		tr.mu.Unlock()
		return base.Add(time.Duration(c) * time.Millisecond)
	}
	var tmpN atomic.Int64
	writeAtomic := func(final string, data []byte) {
		tmp := filepath.Join(dir, fmt.Sprintf("tmp-%d.part", tmpN.Add(1)))
		if err := os.WriteFile(tmp, data, 0o644); err != nil {
			panic(err)
		}
		t := tick()
		os.Chtimes(tmp, t, t)
		if err := os.Rename(tmp, filepath.Join(dir, final)); err != nil {
			panic(err)
		}
	}
	newV := func(repo int) int {
		tr.mu.Lock()
		defer tr.mu.Unlock()
		tr.nextV[repo]++
		return tr.nextV[repo]
	}
	repoName := func(i int) string { return fmt.Sprintf("repo%d", i) }
	// initial content: most repositories have a v16 shard
	root := gen.NewRand(cfg.Seed)
	for i := 0; i < cfg.Repos; i++ {
		if root.Chance(3, 4) {
			cv := newV(i)
			writeAtomic(shardBase(i, 16), buildShard(repoName(i), uint32(i+1), cv, docsPerShard))
			tr.files[shardBase(i, 16)] = &diskFile{cv: cv}
		}
	}
	ds, err := search.NewDirectorySearcher(dir)
	if err != nil {
		return "NewDirectorySearcher: " + err.Error(), "e2e-setup", nil
	}
	defer ds.Close()
	vsh, _ := search.VerifUnwrapDirectorySearcher(ds)

	var bad atomic.Value
	badf := func(k, f string, a ...any) {
		bad.CompareAndSwap(nil, k+"\x00"+fmt.Sprintf(f, a...))
	}
	var stop atomic.Bool
	var wg, ewg sync.WaitGroup
	var nSearch, nList, nEdits, nGC atomic.Int64

	checkSearch := func(res *zoekt.SearchResult) map[string]int {
		if res.Stats.Crashes != 0 {
			badf("search-crash", "Search reported %d crashed shard(s)", res.Stats.Crashes)
		}
		per := map[string]map[int]int{}
		for _, f := range res.Files {
			if per[f.Repository] == nil {
				per[f.Repository] = map[int]int{}
			}
			per[f.Repository][cvOf(f.FileName)]++
		}
		out := map[string]int{}
		for repo, vs := range per {
			if len(vs) != 1 {
				badf("result-two-versions", "one Search result has files of %d versions of %s: %v", len(vs), repo, vs)
			}
			for v, n := range vs {
				if n != docsPerShard {
					badf("result-partial-version", "Search returned %d of %d files of %s version %d", n, docsPerShard, repo, v)
				}
				out[repo] = v
			}
		}
		return out
	}

	for s := 0; s < cfg.Searchers; s++ {
		r := root.Fork()
		wg.Add(1)
		go func() {
			defer wg.Done()
			for !stop.Load() {
				// pace the requests: the point is interleaving with the edits, not throughput (and an oversubscribed
				// machine must leave the editors and the watcher some CPU)
				time.Sleep(time.Duration(100+r.Intn(900)) * time.Microsecond)
				if r.Chance(3, 4) {
					res, err := ds.Search(context.Background(), &query.Substring{Pattern: "needle"}, &zoekt.SearchOptions{})
					if err != nil {
						badf("search-error", "Search: %v", err)
						continue
					}
					seen := checkSearch(res)
					tr.mu.Lock()
					for repo, v := range seen {
						var i int
						fmt.Sscanf(repo, "repo%d", &i)
						if v < 1 || v > tr.nextV[i] {
							badf("result-unknown-version", "Search returned version %d of %s, never written (max %d)", v, repo, tr.nextV[i])
						}
					}
					tr.mu.Unlock()
					nSearch.Add(1)
				} else {
					rl, err := ds.List(context.Background(), &query.Const{Value: true}, nil)
					if err != nil {
						badf("search-error", "List: %v", err)
						continue
					}
					if rl.Crashes != 0 {
						badf("search-crash", "List reported %d crashed shard(s)", rl.Crashes)
					}
					names := map[string]int{}
					for _, e := range rl.Repos {
						names[e.Repository.Name]++
						if e.Stats.Shards != 1 {
							badf("result-two-versions", "List shows %d shards loaded for %s", e.Stats.Shards, e.Repository.Name)
						}
					}
					nList.Add(1)
				}
			}
		}()
	}
	wg.Add(1)
	go func() { // garbage collection of replaced shards (finalizer → munmap) while searches run
		defer wg.Done()
		for !stop.Load() {
			runtime.GC()
			nGC.Add(1)
			time.Sleep(5 * time.Millisecond)
		}
	}()

	for e := 0; e < cfg.Editors; e++ {
		r := root.Fork()
		ewg.Add(1)
		go func() {
			defer ewg.Done()
			for k := 0; k < cfg.Edits; k++ {
				i := r.Intn(cfg.Repos)
				tr.mu.Lock()
				if tr.busy[i] {
					tr.mu.Unlock()
					continue
				}
				tr.busy[i] = true
				has16, has17 := tr.files[shardBase(i, 16)] != nil, tr.files[shardBase(i, 17)] != nil
				tr.mu.Unlock()
				fv := 16
				if r.Chance(1, 3) {
					fv = 17
				}
				name := shardBase(i, fv)
				exists := (fv == 16 && has16) || (fv == 17 && has17)
				switch op := r.Intn(10); {
				case op < 5 || !exists: // create or replace by rename
					cv := newV(i)
					data := buildShard(repoName(i), uint32(i+1), cv, docsPerShard)
					writeAtomic(name, data)
					tr.mu.Lock()
					if f := tr.files[name]; f != nil {
						f.cv = cv
					} else {
						tr.files[name] = &diskFile{cv: cv}
					}
					tr.mu.Unlock()
				case op < 7: // delete (shard and its sidecar)
					os.Remove(filepath.Join(dir, name))
					os.Remove(filepath.Join(dir, name+".meta"))
					tr.mu.Lock()
					delete(tr.files, name)
					tr.mu.Unlock()
				case op < 9: // sidecar update
					mv := newV(i)
					meta, _ := json.Marshal(&zoekt.Repository{Name: repoName(i), ID: uint32(i + 1), RawConfig: map[string]string{"mv": strconv.Itoa(mv)}})
					writeAtomic(name+".meta", meta)
					tr.mu.Lock()
					tr.files[name].mv = mv
					tr.mu.Unlock()
				default: // sidecar removed
					os.Remove(filepath.Join(dir, name+".meta"))
					tr.mu.Lock()
					tr.files[name].mv = 0
					tr.mu.Unlock()
				}
				nEdits.Add(1)
				tr.mu.Lock()
				tr.busy[i] = false
				tr.mu.Unlock()
				if r.Chance(1, 3) {
					time.Sleep(time.Duration(r.Intn(3000)) * time.Microsecond)
				}
			}
		}()
	}
	ewg.Wait()

	// quiescence: the directory no longer changes. Expected: per repository the newest format version present.
	type want struct {
		file   string
		cv, mv int
	}
	expected := map[string]want{}
	var wantKeys []string
	for i := 0; i < cfg.Repos; i++ {
		for _, fv := range []int{17, 16} {
			if f := tr.files[shardBase(i, fv)]; f != nil {
				expected[repoName(i)] = want{shardBase(i, fv), f.cv, f.mv}
				wantKeys = append(wantKeys, filepath.Join(dir, shardBase(i, fv)))
				break
			}
		}
	}
	sort.Strings(wantKeys)
	converged := false
	var lastDiff string
	deadline := time.Now().Add(60 * time.Second)
	for !converged && time.Now().Before(deadline) {
		time.Sleep(15 * time.Millisecond)
		lastDiff = ""
		if got := vsh.Keys(); strings.Join(got, "\n") != strings.Join(wantKeys, "\n") {
			lastDiff = fmt.Sprintf("loaded keys %v, newest files on disk %v", baseNames(got), baseNames(wantKeys))
			continue
		}
		res, err := ds.Search(context.Background(), &query.Substring{Pattern: "needle"}, &zoekt.SearchOptions{})
		if err != nil {
			lastDiff = "Search: " + err.Error()
			continue
		}
		seen := checkSearch(res)
		for repo, w := range expected {
			if seen[repo] != w.cv {
				lastDiff = fmt.Sprintf("Search serves version %d of %s, disk has %d", seen[repo], repo, w.cv)
			}
		}
		for repo := range seen {
			if _, ok := expected[repo]; !ok {
				lastDiff = "Search serves " + repo + ", which is not on disk"
			}
		}
		rl, err := ds.List(context.Background(), &query.Const{Value: true}, nil)
		if err != nil {
			lastDiff = "List: " + err.Error()
			continue
		}
		if len(rl.Repos) != len(expected) {
			lastDiff = fmt.Sprintf("List returns %d repositories, disk has %d", len(rl.Repos), len(expected))
		}
		for _, e := range rl.Repos {
			w, ok := expected[e.Repository.Name]
			mv, _ := strconv.Atoi(e.Repository.RawConfig["mv"])
			if !ok || mv != w.mv {
				lastDiff = fmt.Sprintf("List serves sidecar version %d of %s, disk has %d", mv, e.Repository.Name, w.mv)
			}
		}
		converged = lastDiff == ""
	}
	stop.Store(true)
	wg.Wait()
	stats = map[string]int{"e2e:searches": int(nSearch.Load()), "e2e:lists": int(nList.Load()), "e2e:edits": int(nEdits.Load()),
		"e2e:gcs": int(nGC.Load()), "e2e:repos-at-end": len(expected)}
	if b, _ := bad.Load().(string); b != "" {
		p := strings.SplitN(b, "\x00", 2)
		return p[1], p[0], stats
	}
	if !converged {
		return "60s after the last directory change: " + lastDiff, "not-converged", stats
	}
	return "", "", stats
}

func baseNames(ps []string) []string {
	var o []string
	for _, p := range ps {
		o = append(o, filepath.Base(p))
	}
	return o
}

// ---------------------------------------------------------------------------------------------------------------
// rscan: the real scan + the real loader over real shards, one scan after every directory change (no fsnotify):
// after each scan the loaded set, and what Search / List serve, must equal the directory.

type rscanSeq struct {
	// W<repo>.<fmt> write/replace shard, M… write sidecar, D… remove sidecar, X… remove shard (+sidecar).
	// A trailing '<' or '>' defers the edit into the next scan: it is made while that scan is inside loader.load, before
	// ('<') or after ('>') the shards were opened - an indexer's rename landing during a scan. The scan is then followed
	// by a second one (the fsnotify event of that edit), after which loaded set and directory must agree again.
	Ops []string `json:"ops"`
}

func genRScan(r *gen.Rand) rscanSeq {
	var sq rscanSeq
	n := r.Range(2, 14)
	for i := 0; i < n; i++ {
		repo, fv := r.Intn(2), gen.Pick(r, []int{16, 16, 17})
		op := gen.Pick(r, []string{"W", "W", "W", "M", "M", "D", "X"})
		at := ""
		if i > 0 && r.Chance(1, 3) {
			// usually the file the scan is about to load: the one the previous edit touched
			if r.Chance(2, 3) {
				fmt.Sscanf(sq.Ops[len(sq.Ops)-1][1:], "%d.%d", &repo, &fv)
			}
			at = gen.Pick(r, []string{"<", ">", ">"})
		}
		sq.Ops = append(sq.Ops, fmt.Sprintf("%s%d.%d%s", op, repo, fv, at))
	}
	return sq
}

func runRScan(sq rscanSeq, class string) gen.Case {
	dir := mkTmp("rscan")
	defer os.RemoveAll(dir)
	vs := search.VerifNewShardedSearcher(2)
	vs.MarkReady()
	sc := search.VerifNewScanner(dir, vs)
	ss := vs.Streamer()
	files := map[string]*diskFile{}
	clock, ver := 0, 0
	base := time.Now().Add(-2 * time.Hour)
	write := func(name string, data []byte) {
		tmp := filepath.Join(dir, "tmp.part")
		os.WriteFile(tmp, data, 0o644)
		clock++
		t := base.Add(time.Duration(clock) * time.Millisecond)
		os.Chtimes(tmp, t, t)
		os.Rename(tmp, filepath.Join(dir, name))
	}
	c := gen.Case{Class: class, Detail: gen.Detail(map[string]any{"kind": "rscan", "rseq": sq})}
	fail := func(i int, k, f string, a ...any) gen.Case {
		c.Go = fmt.Sprintf("after scan #%d (ops %v): ", i+1, sq.Ops[:i+1]) + fmt.Sprintf(f, a...)
		c.Key = k
		return c
	}
	reloads := 0
	apply := func(op string) {
		var repo, fv int
		fmt.Sscanf(op[1:], "%d.%d", &repo, &fv)
		name := shardBase(repo, fv)
		rn := fmt.Sprintf("repo%d", repo)
		switch op[0] {
		case 'W':
			ver++
			write(name, buildShard(rn, uint32(repo+1), ver, docsPerShard))
			if f := files[name]; f != nil {
				f.cv = ver
			} else {
				files[name] = &diskFile{cv: ver}
			}
		case 'M':
			if files[name] == nil {
				return
			}
			ver++
			meta, _ := json.Marshal(&zoekt.Repository{Name: rn, ID: uint32(repo + 1), RawConfig: map[string]string{"mv": strconv.Itoa(ver)}})
			write(name+".meta", meta)
			files[name].mv = ver
		case 'D':
			if files[name] == nil {
				return
			}
			os.Remove(filepath.Join(dir, name+".meta"))
			files[name].mv = 0
		case 'X':
			os.Remove(filepath.Join(dir, name))
			os.Remove(filepath.Join(dir, name+".meta"))
			delete(files, name)
		}
	}
	// group the script: every plain edit is followed by a scan; deferred edits ride inside the scan after them
	type step struct {
		plain     string
		pre, post []string
		last      int // index of the last op of this step
	}
	var steps []step
	for i, op := range sq.Ops {
		switch op[len(op)-1] {
		case '<', '>':
			if len(steps) == 0 {
				steps = append(steps, step{})
			}
			st := &steps[len(steps)-1]
			if op[len(op)-1] == '<' {
				st.pre = append(st.pre, op[:len(op)-1])
			} else {
				st.post = append(st.post, op[:len(op)-1])
			}
			st.last = i
		default:
			steps = append(steps, step{plain: op, last: i})
		}
	}
	// deferred edits belong to the scan *after* the plain edit that precedes them in the script
	midScans := 0
	for _, st := range steps {
		i := st.last
		if st.plain != "" {
			apply(st.plain)
		}
		snap := func() map[string]diskFile {
			m := map[string]diskFile{}
			for k, v := range files {
				m[k] = *v
			}
			return m
		}
		atStart := snap() // what scan stats
		var atLoad map[string]diskFile
		run := func(ops []string, isPre bool) func([]string) {
			return func([]string) {
				for _, o := range ops {
					apply(o)
				}
				if isPre {
					atLoad = snap() // what the loader reads
				}
			}
		}
		sc.SetLoadHooks(run(st.pre, true), run(st.post, false))
		calls, err, pan := sc.Scan()
		sc.SetLoadHooks(nil, nil)
		if pan != "" || err != nil {
			return fail(i, "scan-panic", "scan failed: %v %s", err, pan)
		}
		for _, cl := range calls {
			if cl.Op == "load" {
				reloads += len(cl.Keys)
			}
		}
		if len(st.pre)+len(st.post) > 0 {
			// the directory changed while that scan ran: the watcher gets an event and scans again; only then must the
			// loaded set agree with the (now unchanging) directory
			midScans++
			if _, err, pan := sc.Scan(); pan != "" || err != nil {
				return fail(i, "scan-panic", "scan failed: %v %s", err, pan)
			}
		}
		// A-B-A during the load: a file that is, after the scan, exactly as scan stat'ed it, but was different at the moment
		// the loader read it (a sidecar that appeared and vanished again within one scan). mtimes cannot show that.
		aba := func(repoName string) bool {
			var ri int
			fmt.Sscanf(repoName, "repo%d", &ri)
			for _, v := range []int{17, 16} {
				name := shardBase(ri, v)
				if f := files[name]; f != nil {
					s0, ok0 := atStart[name]
					l0, okl := atLoad[name]
					return ok0 && s0 == *f && (!okl || l0 != s0)
				}
			}
			return false
		}
		// expected: newest format version present per repository
		wantKeys := []string{}
		wantCV, wantMV := map[string]int{}, map[string]int{}
		for r := 0; r < 2; r++ {
			for _, v := range []int{17, 16} {
				if f := files[shardBase(r, v)]; f != nil {
					wantKeys = append(wantKeys, filepath.Join(dir, shardBase(r, v)))
					wantCV[fmt.Sprintf("repo%d", r)], wantMV[fmt.Sprintf("repo%d", r)] = f.cv, f.mv
					break
				}
			}
		}
		sort.Strings(wantKeys)
		if got := vs.Keys(); strings.Join(got, ",") != strings.Join(wantKeys, ",") {
			return fail(i, "loaded-set", "loaded %v, newest on disk %v", baseNames(got), baseNames(wantKeys))
		}
		res, err := ss.Search(context.Background(), &query.Substring{Pattern: "needle"}, &zoekt.SearchOptions{})
		if err != nil || res.Stats.Crashes != 0 {
			return fail(i, "search-crash", "Search: %v crashes=%d", err, res.Stats.Crashes)
		}
		gotCV := map[string]int{}
		cnt := map[string]int{}
		for _, f := range res.Files {
			if v, ok := gotCV[f.Repository]; ok && v != cvOf(f.FileName) {
				return fail(i, "result-two-versions", "Search mixes versions %d and %d of %s", v, cvOf(f.FileName), f.Repository)
			}
			gotCV[f.Repository] = cvOf(f.FileName)
			cnt[f.Repository]++
		}
		for rn, v := range wantCV {
			if gotCV[rn] != v || cnt[rn] != docsPerShard {
				key := "stale-shard"
				if aba(rn) {
					key = "aba-during-load"
				}
				return fail(i, key, "Search serves version %d of %s (%d files), disk has version %d", gotCV[rn], rn, cnt[rn], v)
			}
		}
		if len(gotCV) != len(wantCV) {
			return fail(i, "loaded-set", "Search serves %d repositories, disk has %d", len(gotCV), len(wantCV))
		}
		rl, err := ss.List(context.Background(), &query.Const{Value: true}, nil)
		if err != nil || rl.Crashes != 0 || len(rl.Repos) != len(wantCV) {
			return fail(i, "loaded-set", "List: %v, %d repositories, disk has %d", err, len(rl.Repos), len(wantCV))
		}
		for _, e := range rl.Repos {
			mv, _ := strconv.Atoi(e.Repository.RawConfig["mv"])
			if mv != wantMV[e.Repository.Name] {
				key := "stale-sidecar"
				if aba(e.Repository.Name) {
					key = "aba-during-load"
				}
				return fail(i, key, "List serves sidecar version %d of %s, disk has %d (0 = no sidecar)", mv, e.Repository.Name, wantMV[e.Repository.Name])
			}
		}
	}
	c.Nontrivial = reloads >= 2
	if midScans > 0 {
		c.Class = class + ":directory-changed-during-load"
	}
	return c
}

// ---------------------------------------------------------------------------------------------------------------
// slowload: one call of the real loader.load that runs longer than its 5 s progress interval with every load slot busy
// (slow storage), so that it publishes what it has so far *while other shards of the same call are still being loaded*,
// then continues. Whatever is on disk and loadable when the call returns must be loaded.
//
// Slow storage is a named pipe with a shard name: opening it blocks until the harness opens the other end (the load then
// fails, as for any non-shard file). GOMAXPROCS(0) of them occupy every slot; the real shards queue up behind them.
// After 5.5 s the harness frees `first` slots: the loader starts loading the next real shard(s), notices that 5 s
// have passed and publishes the intermediate batch with those loads in flight; then the remaining pipes are freed.

type slowCfg struct {
	Reals   int    `json:"reals"`   // real shards queued behind the slow ones
	First   int    `json:"first"`   // slots freed at 5.5 s (the rest 400 ms later)
	Sidecar bool   `json:"sidecar"` // real shards carry a .meta sidecar
	Seed    uint64 `json:"seed"`
}

// progressLog counts the loader's "still need to load" messages (= intermediate publications).
type progressLog struct{ n atomic.Int64 }

func (p *progressLog) Write(b []byte) (int, error) {
	if bytes.Contains(b, []byte("still need to load")) {
		p.n.Add(1)
	}
	return len(b), nil
}

var loaderLog = &progressLog{}

func openPipeWriter(path string) {
	deadline := time.Now().Add(5 * time.Second)
	for {
		fd, err := syscall.Open(path, syscall.O_WRONLY|syscall.O_NONBLOCK, 0)
		if err == nil {
			syscall.Close(fd)
			return
		}
		if time.Now().After(deadline) {
			return
		}
		time.Sleep(2 * time.Millisecond) // ENXIO: the reader is not blocked in open yet
	}
}

func runSlowLoad(cfg slowCfg, class string) gen.Case {
	dir := mkTmp("slow")
	defer os.RemoveAll(dir)
	c := gen.Case{Class: class, Detail: gen.Detail(map[string]any{"kind": "slowload", "case": cfg})}
	slots := runtime.GOMAXPROCS(0)
	var keys, pipes, reals []string
	for i := 0; i < slots; i++ {
		// loader.load logs its keys through humanTruncateList, which sorts the slice in place: the slow ones must sort first
		p := filepath.Join(dir, fmt.Sprintf("00slow%03d_v16.00000.zoekt", i))
		if err := syscall.Mkfifo(p, 0o644); err != nil {
			c.Go, c.Key = "mkfifo: "+err.Error(), "slowload-setup"
			return c
		}
		pipes = append(pipes, p)
	}
	for i := 0; i < cfg.Reals; i++ {
		p := filepath.Join(dir, shardBase(i, 16))
		if err := os.WriteFile(p, buildShard(fmt.Sprintf("repo%d", i), uint32(i+1), i+1, docsPerShard), 0o644); err != nil {
			panic(err)
		}
		if cfg.Sidecar {
			meta, _ := json.Marshal(&zoekt.Repository{Name: fmt.Sprintf("repo%d", i), ID: uint32(i + 1), RawConfig: map[string]string{"mv": strconv.Itoa(i + 1)}})
			os.WriteFile(p+".meta", meta, 0o644)
		}
		reals = append(reals, p)
	}
	keys = append(append(keys, pipes...), reals...)
	vs := search.VerifNewShardedSearcher(2)
	before := loaderLog.n.Load()
	done := make(chan struct{})
	go func() { vs.Load(keys...); close(done) }() // the real loader.load; marks the searcher ready when it returns
	time.Sleep(5500 * time.Millisecond)
	first := cfg.First
	if first < 1 {
		first = 1
	}
	if first > len(pipes) {
		first = len(pipes)
	}
	for _, p := range pipes[:first] {
		openPipeWriter(p)
	}
	time.Sleep(400 * time.Millisecond)
	for _, p := range pipes[first:] {
		openPipeWriter(p)
	}
	select {
	case <-done:
	case <-time.After(30 * time.Second):
		for _, p := range pipes {
			openPipeWriter(p)
		}
		c.Go, c.Key = "loader.load did not return within 30s after the slow shards became readable", "stuck"
		return c
	}
	published := int(loaderLog.n.Load() - before)
	c.Nontrivial = published > 0
	if published > 0 {
		c.Class = class + ":intermediate-publication"
	}
	// oracle: everything loadable on disk is loaded and served
	sort.Strings(reals)
	if got := vs.Keys(); strings.Join(got, ",") != strings.Join(reals, ",") {
		c.Go = fmt.Sprintf("after a load call that published %d intermediate batch(es): loaded %v, loadable shards on disk %v", published, baseNames(got), baseNames(reals))
		c.Key = "loaded-set"
		return c
	}
	ss := vs.Streamer()
	res, err := ss.Search(context.Background(), &query.Substring{Pattern: "needle"}, &zoekt.SearchOptions{})
	if err != nil || res.Stats.Crashes != 0 {
		c.Go, c.Key = fmt.Sprintf("Search: %v crashes=%d", err, res.Stats.Crashes), "search-crash"
		return c
	}
	cnt := map[string]int{}
	for _, f := range res.Files {
		cnt[f.Repository]++
	}
	for i := 0; i < cfg.Reals; i++ {
		if cnt[fmt.Sprintf("repo%d", i)] != docsPerShard {
			c.Go = fmt.Sprintf("Search serves %d of %d files of repo%d although its shard is on disk and the searcher is ready", cnt[fmt.Sprintf("repo%d", i)], docsPerShard, i)
			c.Key = "loaded-set"
			return c
		}
	}
	rl, err := ss.List(context.Background(), &query.Const{Value: true}, nil)
	if err != nil || len(rl.Repos) != cfg.Reals {
		c.Go, c.Key = fmt.Sprintf("List: %v, %d repositories, disk has %d", err, len(rl.Repos), cfg.Reals), "loaded-set"
	}
	return c
}

// ---------------------------------------------------------------------------------------------------------------
// gated: a shard is replaced and the garbage collector runs *while a search is executing inside that shard* - forced
// from inside the stub shard's Search / List (a gate carried by the request's context), not hoped for. Compound shards
// (several repositories per shard) and queries whose repository atom selects all, some or none of a shard's
// repositories go through the real selectRepoSet; whatever list the search ends up working on must keep the shards it
// is using alive: no Close before the search has left the shard.

type gateKey struct{}

type countSender struct {
	mu    sync.Mutex
	files int
}

func (c *countSender) Send(r *zoekt.SearchResult) {
	c.mu.Lock()
	c.files += len(r.Files)
	c.mu.Unlock()
}

type cstub struct {
	sid, key, gen int
	repos         []string // a compound shard holds several repositories
	ids           []uint32
	prios         []float64
	closed        atomic.Bool
	reg           *registry
}

func (s *cstub) gate(ctx context.Context) {
	if g, ok := ctx.Value(gateKey{}).(func()); ok {
		g() // replaces the shards and forces GCs while we are "searching"
	}
	if s.closed.Load() {
		s.reg.useAfter.Add(1)
	}
}

func (s *cstub) Search(ctx context.Context, q query.Q, opts *zoekt.SearchOptions) (*zoekt.SearchResult, error) {
	if s.closed.Load() {
		s.reg.useAfter.Add(1)
	}
	s.gate(ctx)
	res := &zoekt.SearchResult{RepoURLs: map[string]string{}, LineFragments: map[string]string{}}
	for i, n := range s.repos {
		res.Files = append(res.Files, zoekt.FileMatch{FileName: fmt.Sprintf("k%d-g%d", s.key, s.gen), Repository: n, RepositoryID: s.ids[i]})
		res.RepoURLs[n], res.LineFragments[n] = "", ""
	}
	res.Stats.FileCount, res.Stats.MatchCount = len(s.repos), len(s.repos)
	return res, nil
}

func (s *cstub) List(ctx context.Context, q query.Q, opts *zoekt.ListOptions) (*zoekt.RepoList, error) {
	if s.closed.Load() {
		s.reg.useAfter.Add(1)
	}
	s.gate(ctx)
	rl := &zoekt.RepoList{}
	for i, n := range s.repos {
		rl.Repos = append(rl.Repos, &zoekt.RepoListEntry{Repository: zoekt.Repository{Name: n, ID: s.ids[i],
			RawConfig: map[string]string{"priority": strconv.FormatFloat(s.prios[i], 'f', 2, 64), "gen": strconv.Itoa(s.gen)}}})
	}
	return rl, nil
}

func (s *cstub) Close() {
	if !s.closed.CompareAndSwap(false, true) {
		s.reg.doubleClose.Add(1)
		return
	}
	s.reg.mu.Lock()
	s.reg.closed = append(s.reg.closed, s.sid)
	s.reg.mu.Unlock()
}
func (s *cstub) String() string { return fmt.Sprintf("cstub(k%d,g%d)", s.key, s.gen) }

type gatedCfg struct {
	Shards   int    `json:"shards"`
	PerShard int    `json:"per_shard"` // repositories per shard (>= 2: compound)
	Requests int    `json:"requests"`
	Seed     uint64 `json:"seed"`
}

func runGated(cfg gatedCfg) (verdict, key string, stats map[string]int) {
	reg := &registry{}
	vs := search.VerifNewShardedSearcher(4)
	vs.MarkReady()
	ss := vs.Streamer()
	r := gen.NewRand(cfg.Seed)
	stats = map[string]int{}
	repoName := func(k, j int) string { return fmt.Sprintf("repo-k%d-%d", k, j) }
	repoID := func(k, j int) uint32 { return uint32(k*10 + j + 1) }
	gen_ := 0
	mk := func() map[string]zoekt.Searcher {
		m := map[string]zoekt.Searcher{}
		for k := 0; k < cfg.Shards; k++ {
			st := &cstub{sid: gen_*1000 + k, key: k, gen: gen_, reg: reg}
			for j := 0; j < cfg.PerShard; j++ {
				st.repos = append(st.repos, repoName(k, j))
				st.ids = append(st.ids, repoID(k, j))
				st.prios = append(st.prios, float64((k+2*j)%4))
			}
			m[fmt.Sprintf("key%d", k)] = st
		}
		gen_++
		return m
	}
	vs.Replace(mk())
	var trail []string
	for i := 0; i < cfg.Requests; i++ {
		// which repositories the query names: all of a shard, some of a shard, spread over shards, none
		sel := map[string]bool{}
		var ids []uint32
		shape := gen.Pick(r, []string{"partial", "partial", "whole", "spread", "all", "plain"})
		k0 := r.Intn(cfg.Shards)
		switch shape {
		case "partial":
			j := r.Intn(cfg.PerShard)
			sel[repoName(k0, j)] = true
			ids = append(ids, repoID(k0, j))
		case "whole":
			for j := 0; j < cfg.PerShard; j++ {
				sel[repoName(k0, j)] = true
				ids = append(ids, repoID(k0, j))
			}
		case "spread":
			for k := 0; k < cfg.Shards; k++ {
				sel[repoName(k, k%cfg.PerShard)] = true
				ids = append(ids, repoID(k, k%cfg.PerShard))
			}
		case "all":
			for k := 0; k < cfg.Shards; k++ {
				for j := 0; j < cfg.PerShard; j++ {
					sel[repoName(k, j)] = true
					ids = append(ids, repoID(k, j))
				}
			}
		}
		var q query.Q = &query.Substring{Pattern: "x"}
		atom := "none"
		if shape != "plain" {
			atom = gen.Pick(r, []string{"reposet", "reposet", "repoids", "branchesrepos"})
			var a query.Q
			switch atom {
			case "reposet":
				a = &query.RepoSet{Set: sel}
			case "repoids":
				a = query.NewRepoIDs(ids...)
			case "branchesrepos":
				a = query.NewSingleBranchesRepos("HEAD", ids...)
			}
			q = &query.And{Children: []query.Q{a, q}}
		}
		api := gen.Pick(r, []string{"search", "search", "stream", "list"})
		trail = append(trail, api+":"+shape+":"+atom)
		stats["gated:"+shape]++
		var once sync.Once
		gate := func() {
			once.Do(func() {
				if r.Chance(1, 4) {
					// drop half of the shards instead of replacing them
					m := mk()
					for k := range m {
						if r.Bool() {
							m[k] = nil
						}
					}
					vs.Replace(m)
					vs.Replace(mk())
				} else {
					vs.Replace(mk())
				}
				for g := 0; g < 3; g++ {
					runtime.GC()
					time.Sleep(time.Millisecond)
				}
			})
		}
		ctx := context.WithValue(context.Background(), gateKey{}, gate)
		var err error
		switch api {
		case "search":
			_, err = ss.Search(ctx, q, &zoekt.SearchOptions{})
		case "stream":
			var cs countSender
			err = ss.StreamSearch(ctx, q, &zoekt.SearchOptions{}, &cs)
		case "list":
			lq := q
			if a, ok := q.(*query.And); ok {
				lq = a.Children[0]
			} else {
				lq = &query.Const{Value: true}
			}
			_, err = ss.List(ctx, lq, nil)
		}
		if err != nil {
			return fmt.Sprintf("requests %v: %v", trail, err), "search-error", stats
		}
		if n := reg.useAfter.Load(); n > 0 {
			return fmt.Sprintf("requests %v: the shard the last request was executing in was closed under it (%d observations): it was replaced, a GC ran, and the list the search works on did not keep it alive", trail, n), "use-after-close", stats
		}
	}
	if reg.doubleClose.Load() > 0 {
		return "a shard was closed twice", "closed-twice", stats
	}
	for _, x := range vs.Loaded().Searchers() {
		if x.(*cstub).closed.Load() {
			return "a loaded shard was closed", "closed-live-shard", stats
		}
	}
	runtime.KeepAlive(vs)
	return "", "", stats
}

func emitGated(w *gen.Writer, cfg gatedCfg, class string) {
	v, k, stats := runGated(cfg)
	for a, b := range stats {
		w.Count(a, b)
	}
	w.Emit(gen.Case{Go: v, Key: k, Class: class, Nontrivial: stats["gated:partial"] > 0,
		Detail: gen.Detail(map[string]any{"kind": "gated", "case": cfg, "stats": stats})})
}

// ---------------------------------------------------------------------------------------------------------------
// busyscan: the live watcher (fsnotify, its own goroutines) is kept inside a scan - blocked in loader.load on a named
// pipe with a shard name - while the directory changes; then the pipe is released and the directory stays quiet. The
// event of those changes arrived during the scan and after its Glob/Lstat: the watcher has to scan once more.

type busyCfg struct {
	Repos int    `json:"repos"`
	Edits int    `json:"edits"`
	Seed  uint64 `json:"seed"`
}

func runBusyScan(cfg busyCfg) (verdict, key string, stats map[string]int) {
	dir := mkTmp("busy")
	defer os.RemoveAll(dir)
	stats = map[string]int{}
	r := gen.NewRand(cfg.Seed)
	clock := 0
	base := time.Now().Add(-2 * time.Hour)
	write := func(name string, data []byte) {
		tmp := filepath.Join(dir, fmt.Sprintf("tmp-%d.part", clock))
		os.WriteFile(tmp, data, 0o644)
		clock++
		t := base.Add(time.Duration(clock) * time.Millisecond)
		os.Chtimes(tmp, t, t)
		os.Rename(tmp, filepath.Join(dir, name))
	}
	files := map[string]*diskFile{}
	ver := 0
	for i := 0; i < cfg.Repos; i++ {
		ver++
		write(shardBase(i, 16), buildShard(fmt.Sprintf("repo%d", i), uint32(i+1), ver, docsPerShard))
		files[shardBase(i, 16)] = &diskFile{cv: ver}
	}
	ds, err := search.NewDirectorySearcher(dir)
	if err != nil {
		return "NewDirectorySearcher: " + err.Error(), "e2e-setup", stats
	}
	defer ds.Close()
	vsh, _ := search.VerifUnwrapDirectorySearcher(ds)
	// keep the watcher busy: a scan that blocks in loader.load
	pipe := filepath.Join(dir, "00slow_v16.00000.zoekt")
	if err := syscall.Mkfifo(pipe, 0o644); err != nil {
		return "mkfifo: " + err.Error(), "e2e-setup", stats
	}
	time.Sleep(300 * time.Millisecond) // event -> scan -> Glob/Lstat -> load blocks on the pipe
	var trail []string
	for e := 0; e < cfg.Edits; e++ {
		i := r.Intn(cfg.Repos + 1) // repo cfg.Repos is new
		name := shardBase(i, 16)
		rn := fmt.Sprintf("repo%d", i)
		op := gen.Pick(r, []string{"write", "write", "delete", "sidecar"})
		if files[name] == nil {
			op = "write"
		}
		trail = append(trail, op+":"+rn)
		switch op {
		case "write":
			ver++
			write(name, buildShard(rn, uint32(i+1), ver, docsPerShard))
			if f := files[name]; f != nil {
				f.cv = ver
			} else {
				files[name] = &diskFile{cv: ver}
			}
		case "delete":
			os.Remove(filepath.Join(dir, name))
			os.Remove(filepath.Join(dir, name+".meta"))
			delete(files, name)
		case "sidecar":
			ver++
			meta, _ := json.Marshal(&zoekt.Repository{Name: rn, ID: uint32(i + 1), RawConfig: map[string]string{"mv": strconv.Itoa(ver)}})
			write(name+".meta", meta)
			files[name].mv = ver
		}
		stats["busyscan:"+op]++
	}
	time.Sleep(200 * time.Millisecond) // the events are delivered while the scan is still blocked
	openPipeWriter(pipe)               // the slow load ends (and fails); the directory is quiet from now on
	os.Remove(pipe)                    // (one more event; harmless either way - it is removed after the release)
	// convergence: well before the watcher's one-minute safety ticker
	var wantKeys []string
	for n := range files {
		wantKeys = append(wantKeys, filepath.Join(dir, n))
	}
	sort.Strings(wantKeys)
	deadline := time.Now().Add(8 * time.Second)
	last := ""
	for time.Now().Before(deadline) {
		time.Sleep(20 * time.Millisecond)
		last = ""
		if got := vsh.Keys(); strings.Join(got, ",") != strings.Join(wantKeys, ",") {
			last = fmt.Sprintf("loaded %v, on disk %v", baseNames(got), baseNames(wantKeys))
			continue
		}
		res, err := ds.Search(context.Background(), &query.Substring{Pattern: "needle"}, &zoekt.SearchOptions{})
		if err != nil {
			last = "Search: " + err.Error()
			continue
		}
		got := map[string]int{}
		for _, f := range res.Files {
			got[f.Repository] = cvOf(f.FileName)
		}
		rl, err := ds.List(context.Background(), &query.Const{Value: true}, nil)
		if err != nil {
			last = "List: " + err.Error()
			continue
		}
		mvs := map[string]int{}
		for _, e := range rl.Repos {
			mvs[e.Repository.Name], _ = strconv.Atoi(e.Repository.RawConfig["mv"])
		}
		for n, f := range files {
			var i, fv int
			fmt.Sscanf(n, "repo%d_v%d", &i, &fv)
			rn := fmt.Sprintf("repo%d", i)
			if got[rn] != f.cv {
				last = fmt.Sprintf("Search serves version %d of %s, disk has %d", got[rn], rn, f.cv)
			} else if mvs[rn] != f.mv {
				last = fmt.Sprintf("List serves sidecar version %d of %s, disk has %d", mvs[rn], rn, f.mv)
			}
		}
		if last == "" {
			return "", "", stats
		}
	}
	return fmt.Sprintf("8s after the directory went quiet (changes %v were made while the watcher was inside a scan): %s", trail, last), "not-converged", stats
}

func emitBusy(w *gen.Writer, cfg busyCfg, class string) {
	v, k, stats := runBusyScan(cfg)
	for a, b := range stats {
		w.Count(a, b)
	}
	w.Emit(gen.Case{Go: v, Key: k, Class: class, Nontrivial: true,
		Detail: gen.Detail(map[string]any{"kind": "busyscan", "case": cfg, "stats": stats})})
}

// ---------------------------------------------------------------------------------------------------------------

type stored struct {
	Kind    string          `json:"kind"`
	Path    string          `json:"path,omitempty"`
	PathHex string          `json:"path_hex,omitempty"`
	Seq     *scanSeq        `json:"seq,omitempty"`
	Script  *cowScript      `json:"script,omitempty"`
	RSeq    *rscanSeq       `json:"rseq,omitempty"`
	Case    json.RawMessage `json:"case,omitempty"`
}

func runStored(w *gen.Writer, st stored, class string) {
	switch st.Kind {
	case "vfp":
		if st.PathHex != "" {
			st.Path = string(gen.UnHex(st.PathHex))
		}
		c := vfpCase(st.Path)
		c.Class = class
		w.Emit(c)
	case "scan":
		if st.Seq != nil {
			runScanSeq(w, *st.Seq, class)
		}
	case "cow":
		if st.Script != nil {
			// stored scripts carry the observed G ids; strip them, they are re-observed
			var sc cowScript
			for _, o := range st.Script.Ops {
				if o[0] == 'G' {
					o = "G"
				}
				sc.Ops = append(sc.Ops, o)
			}
			w.Emit(runCow(sc, class))
		}
	case "rscan":
		if st.RSeq != nil {
			w.Emit(runRScan(*st.RSeq, class))
		}
	case "slowload":
		var cfg slowCfg
		json.Unmarshal(st.Case, &cfg)
		w.Emit(runSlowLoad(cfg, class))
	case "gated":
		var cfg gatedCfg
		json.Unmarshal(st.Case, &cfg)
		emitGated(w, cfg, class)
	case "busyscan":
		var cfg busyCfg
		json.Unmarshal(st.Case, &cfg)
		emitBusy(w, cfg, class)
	case "conc":
		var cfg concCfg
		json.Unmarshal(st.Case, &cfg)
		emitConc(w, cfg, class)
	case "e2e":
		var cfg e2eCfg
		json.Unmarshal(st.Case, &cfg)
		emitE2E(w, cfg, class)
	}
}

func emitConc(w *gen.Writer, cfg concCfg, class string) {
	v, k, stats := runConc(cfg)
	for a, b := range stats {
		w.Count(a, b)
	}
	w.Emit(gen.Case{Go: v, Key: k, Class: class, Nontrivial: stats["conc:searches"] > 0 && stats["conc:closed"] > 0,
		Detail: gen.Detail(map[string]any{"kind": "conc", "case": cfg, "stats": stats})})
}

func emitE2E(w *gen.Writer, cfg e2eCfg, class string) {
	v, k, stats := runE2E(cfg)
	for a, b := range stats {
		w.Count(a, b)
	}
	w.Emit(gen.Case{Go: v, Key: k, Class: class, Nontrivial: stats["e2e:searches"] > 0 && stats["e2e:edits"] > 0,
		Detail: gen.Detail(map[string]any{"kind": "e2e", "case": cfg, "stats": stats})})
}

func concAndE2E(w *gen.Writer, r *gen.Rand, nc, ne int, suffix string) {
	for i := 0; i < nc; i++ {
		emitConc(w, concCfg{Keys: r.Range(2, 6), Gens: r.Range(20, 150), Readers: r.Range(2, 5), Seed: r.U64()}, "conc"+suffix)
	}
	for i := 0; i < ne; i++ {
		emitE2E(w, e2eCfg{Repos: r.Range(2, 6), Editors: r.Range(1, 3), Edits: r.Range(10, 40), Searchers: r.Range(2, 4), Seed: r.U64()}, "e2e"+suffix)
	}
}

// phases: the child writes one cases file per phase, so that a crash of the code under test (a use-after-unmap is a
// SIGSEGV, a double SetFinalizer a fatal error: neither can be recovered) loses at most the cases of one phase.
type phaser struct {
	base string
	n    int
	w    *gen.Writer
}

func (p *phaser) next() *gen.Writer {
	if p.w != nil {
		p.w.Close()
	}
	p.w = gen.NewWriter(fmt.Sprintf("%s.phase%02d", p.base, p.n))
	p.n++
	return p.w
}

func (p *phaser) close() {
	if p.w != nil {
		p.w.Close()
		p.w = nil
	}
}

func main() {
	mode := ""
	// private flag for the children: `-mode child|race` must come first
	if len(os.Args) > 2 && os.Args[1] == "-mode" {
		mode = os.Args[2]
		os.Args = append(os.Args[:1], os.Args[3:]...)
	}
	f := gen.ParseFlags()
	log.SetOutput(loaderLog) // discards everything, counts the loader's progress messages
	tmpRoot = os.Getenv("VERIF_WORK")
	if tmpRoot == "" {
		tmpRoot = os.TempDir()
	}
	tmpRoot = filepath.Join(tmpRoot, "tmp-"+mode)
	os.MkdirAll(tmpRoot, 0o755)
	defer os.RemoveAll(tmpRoot)

	switch mode {
	case "race":
		w := gen.NewWriter(f.Out)
		defer w.Close()
		// the race detector slows everything 5-20x: few, small runs
		r := gen.NewRand(f.Seed)
		for i := 0; i < 3; i++ {
			emitConc(w, concCfg{Keys: r.Range(2, 4), Gens: r.Range(15, 40), Readers: r.Range(2, 3), Seed: r.U64()}, "conc-race")
		}
		for i := 0; i < 2; i++ {
			emitE2E(w, e2eCfg{Repos: r.Range(2, 4), Editors: r.Range(1, 2), Edits: r.Range(8, 16), Searchers: 2, Seed: r.U64()}, "e2e-race")
		}
	case "child":
		childMain(f)
	default:
		parentMain(f)
	}
}

// parentMain runs the real work in a child process and turns a crash of the child into a failing case.
func parentMain(f gen.Flags) {
	w := gen.NewWriter(f.Out)
	defer w.Close()
	base := f.Out + ".child"
	old, _ := filepath.Glob(base + ".phase*")
	for _, o := range old {
		os.Remove(o)
	}
	args := []string{"-mode", "child", "-out", base, "-tier", f.Tier, "-seed", fmt.Sprint(f.Seed)}
	if f.Replay != "" {
		args = append(args, "-replay", f.Replay)
	}
	if f.Corpus != "" {
		args = append(args, "-corpus", f.Corpus)
	}
	child := exec.Command(os.Args[0], args...)
	var stderr bytes.Buffer
	child.Stderr = &stderr
	child.Stdout = os.Stdout
	err := child.Run()
	files, _ := filepath.Glob(base + ".phase*")
	sort.Strings(files)
	lastPhase := ""
	for _, fn := range files {
		b, e := os.ReadFile(fn)
		if e != nil {
			continue
		}
		for _, line := range strings.Split(string(b), "\n") {
			var c gen.Case
			var sm struct {
				Summary map[string]int `json:"summary"`
			}
			if json.Unmarshal([]byte(line), &sm) == nil && sm.Summary != nil {
				for k, v := range sm.Summary {
					if !classNames[k] {
						w.Count(k, v)
					}
				}
				continue
			}
			if json.Unmarshal([]byte(line), &c) == nil && (c.Class != "" || c.In != "" || c.Go != "") {
				if c.Class != "" {
					classNames[c.Class] = true
					lastPhase = c.Class
				}
				w.Emit(c)
			}
		}
		os.Remove(fn)
	}
	if err != nil {
		msg := stderr.String()
		key := "crash-panic"
		switch {
		case strings.Contains(msg, "SIGSEGV") || strings.Contains(msg, "SIGBUS"):
			key = "crash-sigsegv" // what a search on an unmapped shard looks like
		case strings.Contains(msg, "fatal error"):
			key = "crash-fatal"
		}
		w.Emit(gen.Case{Go: fmt.Sprintf("the process running the real code crashed (%v) after phase %q: %s", err, lastPhase, tail(msg, 2500)),
			Key: key, Class: "crash", Detail: gen.Detail(map[string]any{"kind": "crash", "seed": f.Seed, "tier": f.Tier, "after": lastPhase})})
	}
}

var classNames = map[string]bool{}

func childMain(f gen.Flags) {
	ph := &phaser{base: f.Out}
	defer ph.close()
	r := gen.NewRand(f.Seed)
	w := ph.next()

	if f.Replay != "" {
		b, err := os.ReadFile(f.Replay)
		if err != nil {
			panic(err)
		}
		var rp struct {
			Case struct {
				Detail stored `json:"detail"`
			} `json:"case"`
			First struct {
				Detail stored `json:"detail"`
			} `json:"first_disagreement"`
		}
		json.Unmarshal(b, &rp)
		st := rp.Case.Detail
		if st.Kind == "" {
			st = rp.First.Detail
		}
		if st.Kind != "" && st.Kind != "crash" {
			runStored(w, st, "replay")
			return
		}
	}
	if f.Corpus != "" {
		files, _ := filepath.Glob(filepath.Join(f.Corpus, "*.json"))
		sort.Strings(files)
		for _, fn := range files {
			b, err := os.ReadFile(fn)
			if err != nil {
				continue
			}
			var st stored
			if json.Unmarshal(b, &st) == nil && st.Kind != "" {
				runStored(w, st, "corpus")
			}
		}
	}

	// slow-load scenarios mostly wait (5.5 s each): run them beside the other phases, emit them at the end
	nslow := f.N(2, 6)
	slowRes := make(chan gen.Case, nslow)
	{
		sr := r.Fork()
		var cfgs []slowCfg
		for i := 0; i < nslow; i++ {
			cfgs = append(cfgs, slowCfg{Reals: sr.Range(2, 5), First: gen.Pick(sr, []int{1, 1, 2, 3}), Sidecar: sr.Bool(), Seed: sr.U64()})
		}
		go func() {
			for _, cfg := range cfgs { // one after the other: each needs every load slot of its own loader only, but also threads
				slowRes <- runSlowLoad(cfg, "slowload")
			}
		}()
	}

	t0 := time.Now()
	lap := func(name string) {
		w.Count("ms:"+name, int(time.Since(t0).Milliseconds()))
		t0 = time.Now()
	}
	w = ph.next()
	for i := 0; i < f.N(4000, 200000); i++ {
		w.Emit(vfpCase(genPath(r)))
	}
	lap("vfp")
	w = ph.next()
	for i := 0; i < f.N(250, 1500); i++ {
		runScanSeq(w, genScanSeq(r), "scan")
	}
	lap("scan")
	w = ph.next()
	for i := 0; i < f.N(60, 600); i++ {
		w.Emit(runCow(genCow(r), "cow"))
	}
	lap("cow")
	w = ph.next()
	for i := 0; i < f.N(25, 250); i++ {
		w.Emit(runRScan(genRScan(r), "rscan"))
	}
	lap("rscan")
	nc, ne := f.N(4, 20), f.N(3, 20)
	for i := 0; i < nc; i++ {
		w = ph.next()
		concAndE2E(w, r, 1, 0, "")
	}
	lap("conc")
	for i := 0; i < ne; i++ {
		w = ph.next()
		concAndE2E(w, r, 0, 1, "")
	}
	lap("e2e")

	w = ph.next()
	for i := 0; i < f.N(40, 250); i++ {
		emitGated(w, gatedCfg{Shards: r.Range(1, 4), PerShard: r.Range(2, 3), Requests: r.Range(3, 10), Seed: r.U64()}, "gated")
	}
	lap("gated")
	w = ph.next()
	for i := 0; i < f.N(4, 20); i++ {
		emitBusy(w, busyCfg{Repos: r.Range(1, 3), Edits: r.Range(1, 3), Seed: r.U64()}, "busyscan")
	}
	lap("busyscan")

	w = ph.next()
	for i := 0; i < nslow; i++ {
		w.Emit(<-slowRes)
	}
	lap("slowload-wait")

	if f.Tier == "thorough" {
		w = ph.next()
		raceChild(w, f)
	}
}

// raceChild builds this harness with -race and runs its conc + e2e part; a report of the race detector fails the case.
func raceChild(w *gen.Writer, f gen.Flags) {
	root := os.Getenv("VERIF_ROOT")
	work := os.Getenv("VERIF_WORK")
	if root == "" || work == "" {
		return
	}
	bin := filepath.Join(work, "harness-race.bin")
	cmd := exec.Command("go", "build", "-race", "-tags", "verif", "-o", bin, "./cmd/c19")
	cmd.Dir = filepath.Join(root, "harness")
	if out, err := cmd.CombinedOutput(); err != nil {
		w.Emit(gen.Case{Go: "cannot build the harness with -race: " + tail(string(out), 400), Key: "race-build", Class: "race"})
		return
	}
	out := filepath.Join(work, "race-cases.jsonl")
	child := exec.Command(bin, "-mode", "race", "-out", out, "-tier", f.Tier, "-seed", fmt.Sprint(f.Seed))
	child.Env = append(os.Environ(), "GORACE=exitcode=66 halt_on_error=1")
	var stderr bytes.Buffer
	child.Stderr = &stderr
	err := child.Run()
	if b, e := os.ReadFile(out); e == nil {
		for _, line := range strings.Split(string(b), "\n") {
			var c gen.Case
			if json.Unmarshal([]byte(line), &c) == nil && c.Class != "" {
				w.Emit(c)
			}
		}
	}
	if err != nil {
		v, k := "race-enabled harness failed: "+err.Error()+": "+tail(stderr.String(), 1500), "race-child"
		if strings.Contains(stderr.String(), "DATA RACE") {
			v, k = "data race reported by the race detector: "+tail(stderr.String(), 2500), "data-race"
		}
		w.Emit(gen.Case{Go: v, Key: k, Class: "race"})
	} else {
		w.Emit(gen.Case{Go: "ok", Class: "race", Detail: gen.Detail(map[string]any{"kind": "race-child", "result": "no report"})})
	}
}

func tail(s string, n int) string {
	s = strings.ReplaceAll(s, "\t", " ")
	if len(s) > n {
		return s[:n]
	}
	return s
}
