// C10 harness: results do not depend on how the index was built.
//
//   - `build` cases: the real index.Builder (Add → flush → buildShard → sortDocuments) on generated documents, shard limits
//     and skip patterns; the document ids found in each written shard, in stored order, are compared with the Lean model,
//     and the Lean `checkP` (partition: every id exactly once) is evaluated on the implementation's shards
//   - `reuse` cases: one real postingsBuilder is filled, reset and refilled; what writePostings emits must equal a fresh
//     builder's output (Go oracle) and the model's
//   - end-to-end (Go oracle): one corpus of repositories built under many configurations — shard limits forcing 1..N shards,
//     parallelism 1/2/4/16, shuffled insertion order, one compound shard (index.Merge) — and searched through
//     search.NewDirectorySearcher with a generated query set; canonical results must equal the baseline's
package main

import (
	"bytes"
	"context"
	"encoding/json"
	"fmt"
	"log"
	"os"
	"path/filepath"
	"sort"
	"strings"
	"unicode"
	"unicode/utf8"

	"github.com/grafana/regexp"
	"github.com/sourcegraph/zoekt"
	"github.com/sourcegraph/zoekt/index"
	"github.com/sourcegraph/zoekt/query"
	"github.com/sourcegraph/zoekt/search"
	"regexp/syntax"

	"verifharness/gen"
)

type harness struct {
	w   *gen.Writer
	tmp string
	seq int
}

func main() {
	f := gen.ParseFlags()
	w := gen.NewWriter(f.Out)
	defer w.Close()
	log.SetOutput(os.Stderr)
	r := gen.NewRand(f.Seed)
	tmp, err := os.MkdirTemp(os.Getenv("VERIF_WORK"), "c10-")
	if err != nil {
		panic(err)
	}
	defer os.RemoveAll(tmp)
	h := &harness{w: w, tmp: tmp}
	if f.Replay != "" {
		h.replay(f.Replay)
		return
	}
	h.corpus(f.Corpus)
	h.buildCases(r.Fork(), f.N(30, 500))
	h.reuseCases(r.Fork(), f.N(60, 1500), f.Tier == "thorough")
	h.e2eCases(r.Fork(), f.N(3, 40), f.Tier == "thorough")
}

// ---------------------------------------------------------------- replay / corpus

type detail struct {
	Kind   string     `json:"kind"`
	Build  *buildCase `json:"build,omitempty"`
	Script string     `json:"script,omitempty"`
	E2E    *e2eCase   `json:"e2e,omitempty"`
}

func (h *harness) runDetail(d detail, class string) {
	switch d.Kind {
	case "build":
		h.buildCase(*d.Build, class)
	case "reuse":
		h.reuseCase(d.Script, class)
	case "e2e":
		h.e2eCase(*d.E2E, class)
	default:
		panic("unknown kind " + d.Kind)
	}
}

func loadDetail(path string) detail {
	b, err := os.ReadFile(path)
	if err != nil {
		panic(err)
	}
	var rf struct {
		Case struct {
			Detail json.RawMessage `json:"detail"`
		} `json:"case"`
		Detail json.RawMessage `json:"detail"`
	}
	if err := json.Unmarshal(b, &rf); err != nil {
		panic(err)
	}
	raw := rf.Case.Detail
	if len(raw) == 0 {
		raw = rf.Detail
	}
	var d detail
	if err := json.Unmarshal(raw, &d); err != nil {
		panic(err)
	}
	return d
}

func (h *harness) replay(path string) { h.runDetail(loadDetail(path), "replay") }

func (h *harness) corpus(dir string) {
	ents, err := os.ReadDir(dir)
	if err != nil {
		return
	}
	for _, e := range ents {
		if strings.HasSuffix(e.Name(), ".json") {
			h.runDetail(loadDetail(filepath.Join(dir, e.Name())), "corpus")
		}
	}
}

// ---------------------------------------------------------------- documents

type doc struct {
	Name     string                  `json:"name"`
	Content  []byte                  `json:"content"`
	Branches []string                `json:"branches"`
	Symbols  []index.DocumentSection `json:"symbols"`
	Skip     index.SkipReason        `json:"skip"` // reason given by the caller (Missing) or none
}

func (d doc) document() index.Document {
	return index.Document{Name: d.Name, Content: append([]byte(nil), d.Content...), Branches: append([]string(nil), d.Branches...),
		Symbols: append([]index.DocumentSection(nil), d.Symbols...), SkipReason: d.Skip}
}

// naive skip rule (the statement of C09), independent of DocChecker
func naiveSkip(d doc, sizeMax, trigramMax int) index.SkipReason {
	c := d.Content
	switch {
	case len(c) > sizeMax:
		return index.SkipReasonTooLarge
	case len(c) == 0:
		return d.Skip
	case len(c) < 3:
		return index.SkipReasonTooSmall
	case bytes.IndexByte(c, 0) >= 0:
		return index.SkipReasonBinary
	}
	var rs []rune
	for i := 0; i < len(c); {
		r, sz := utf8.DecodeRune(c[i:])
		rs = append(rs, r)
		i += sz
	}
	seen := map[[3]rune]bool{}
	for i := 0; i+3 <= len(rs); i++ {
		seen[[3]rune{rs[i], rs[i+1], rs[i+2]}] = true
	}
	if len(seen) > trigramMax {
		return index.SkipReasonTooManyTrigrams
	}
	return d.Skip
}

var branchPool = func() []string {
	p := []string{"main", "dev", "release", "stable", "feature/x"}
	for i := len(p); i < 64; i++ {
		p = append(p, fmt.Sprintf("b%d", i))
	}
	return p
}()

var names = []string{"main.go", "a/b/c.py", "README.md", "vendor/x/y.go", "foo_test.go", ".gitignore", "Makefile", "x", "node_modules/m/i.js",
	"docs/guide.md", "pkg/very/long/path/to/some/file/name.java", "é.txt"}

func runeStarts(b []byte) []int {
	var out []int
	for i := 0; i < len(b); {
		out = append(out, i)
		_, sz := utf8.DecodeRune(b[i:])
		i += sz
	}
	return append(out, len(b))
}

func genDoc(r *gen.Rand, i int, branches []string, maxTokens int) doc {
	d := doc{Name: fmt.Sprintf("%d-%s", i, gen.Pick(r, names))}
	switch r.Intn(12) {
	case 0:
		d.Content = nil
	case 1:
		d.Content = []byte(gen.Pick(r, []string{"a", "ab", "é"}))
	case 2:
		d.Content = gen.Text(r, maxTokens, true)
		if len(d.Content) > 0 {
			d.Content[r.Intn(len(d.Content))] = 0
		}
	case 3:
		d.Skip = index.SkipReasonMissing
	default:
		d.Content = bytes.ReplaceAll(gen.Text(r, maxTokens, r.Chance(1, 5)), []byte{0}, []byte{' '})
	}
	if r.Chance(1, 6) {
		// long, few distinct trigrams: never "too many trigrams", whatever the Builder's reused DocChecker saw before
		unit := gen.Pick(r, []string{"ab", "xyz ", "foo\n", "é", "=-"})
		d.Content = []byte(strings.Repeat(unit, 10+r.Intn(40)))
		d.Skip = index.SkipReasonNone
	}
	for _, b := range branches {
		if r.Chance(2, 3) {
			d.Branches = append(d.Branches, b)
		}
	}
	if len(d.Branches) == 0 && len(branches) > 0 {
		d.Branches = []string{branches[0]}
	}
	if r.Chance(1, 3) && len(d.Content) > 0 && bytes.IndexByte(d.Content, 0) < 0 {
		rs := runeStarts(d.Content)
		n := r.Intn(4)
		idx := make([]int, 2*n)
		for j := range idx {
			idx[j] = rs[r.Intn(len(rs))]
		}
		sort.Ints(idx)
		for j := 0; j < n; j++ {
			if j > 0 && idx[2*j] == idx[2*j-2] {
				continue
			}
			d.Symbols = append(d.Symbols, index.DocumentSection{Start: uint32(idx[2*j]), End: uint32(idx[2*j+1])})
		}
	}
	return d
}

// ---------------------------------------------------------------- build cases (model correspondence)

type buildCase struct {
	ShardMax   int   `json:"shardMax"`
	SizeMax    int   `json:"sizeMax"`
	TrigramMax int   `json:"trigramMax"`
	Docs       []doc `json:"docs"`
}

func shardFiles(dir string) []string {
	files, _ := filepath.Glob(filepath.Join(dir, "*.zoekt"))
	sort.Strings(files)
	return files
}

func loadShard(path string) (zoekt.Searcher, *index.VerifShard, error) {
	f, err := os.Open(path)
	if err != nil {
		return nil, nil, err
	}
	inf, err := index.NewIndexFile(f)
	if err != nil {
		return nil, nil, err
	}
	s, err := index.NewSearcher(inf)
	if err != nil {
		inf.Close()
		return nil, nil, err
	}
	sh, err := index.VerifDumpShard(s)
	if err != nil {
		s.Close()
		return nil, nil, err
	}
	return s, sh, nil
}

func build(dir string, repo zoekt.Repository, docs []doc, shardMax, sizeMax, trigramMax, parallelism int) error {
	b, err := index.NewBuilder(index.Options{IndexDir: dir, RepositoryDescription: repo, ShardMax: shardMax, SizeMax: sizeMax,
		TrigramMax: trigramMax, Parallelism: parallelism, DisableCTags: true})
	if err != nil {
		return err
	}
	for _, d := range docs {
		if err := b.Add(d.document()); err != nil {
			b.Finish()
			return err
		}
	}
	return b.Finish()
}

func (h *harness) dir() string {
	h.seq++
	d := filepath.Join(h.tmp, fmt.Sprintf("d%d", h.seq))
	os.MkdirAll(d, 0o755)
	return d
}

func (h *harness) buildCase(bc buildCase, class string) {
	dir := h.dir()
	defer os.RemoveAll(dir)
	c := gen.Case{Class: class, Detail: gen.Detail(detail{Kind: "build", Build: &bc}), Nontrivial: len(bc.Docs) >= 2}
	var parts []string
	for _, d := range bc.Docs {
		cat := index.Document{Name: d.Name, Content: d.Content, SkipReason: naiveSkip(d, bc.SizeMax, bc.TrigramMax)}
		index.DetermineFileCategory(&cat)
		parts = append(parts, fmt.Sprintf("%s;%s;%d;%d;%d;%d;0", gen.Hex([]byte(d.Name)), gen.Hex(d.Content), int(cat.Category),
			len(d.Symbols), len(d.Branches), int(d.Skip)))
	}
	ds := "_"
	if len(parts) > 0 {
		ds = strings.Join(parts, "|")
	}
	c.In = fmt.Sprintf("build %d %d %d %s", bc.ShardMax, bc.SizeMax, bc.TrigramMax, ds)
	repo := zoekt.Repository{Name: "r"}
	for _, b := range []string{"main", "dev", "rel"} {
		repo.Branches = append(repo.Branches, zoekt.RepositoryBranch{Name: b, Version: "v-" + b})
	}
	if err := build(dir, repo, bc.Docs, bc.ShardMax, bc.SizeMax, bc.TrigramMax, 1); err != nil {
		c.Impl, c.Go, c.Key = "error", "build failed: "+err.Error(), "build-failed"
		h.w.Emit(c)
		return
	}
	id := map[string]int{}
	for i, d := range bc.Docs {
		id[d.Name] = i
	}
	var shards []string
	seen := map[int]int{}
	files := shardFiles(dir)
	for _, fn := range files {
		s, sh, err := loadShard(fn)
		if err != nil {
			c.Impl, c.Go, c.Key = "error", "load: "+err.Error(), "load-failed"
			h.w.Emit(c)
			return
		}
		var ids []int
		for _, d := range sh.Docs {
			i, ok := id[string(d.Name)]
			if !ok {
				i = 999999
			}
			ids = append(ids, i)
			seen[i]++
		}
		s.Close()
		shards = append(shards, gen.NatList(ids))
	}
	c.Impl = strings.Join(shards, "|")
	// Go oracle, independent of the Lean side: every document exactly once
	for i := range bc.Docs {
		if seen[i] != 1 {
			c.Go, c.Key = fmt.Sprintf("document %d (%s) occurs %d times in the written shards", i, bc.Docs[i].Name, seen[i]), "partition"
		}
	}
	h.w.Count("build-shards", len(files))
	if len(files) > 1 {
		c.Class = class + "/multi-shard"
	}
	h.w.Emit(c)
}

func (h *harness) buildCases(r *gen.Rand, n int) {
	for i := 0; i < n; i++ {
		bc := buildCase{ShardMax: gen.Pick(r, []int{0, 1, 30, 100, 300, 1000, 100 << 20}), SizeMax: gen.Pick(r, []int{40, 200, 2 << 20}),
			TrigramMax: gen.Pick(r, []int{4, 25, 20000})}
		if bc.ShardMax == 0 {
			bc.ShardMax = 7 // 0 means "default" to the Builder
		}
		nd := gen.Pick(r, []int{0, 1, 2, 4, 8, 16})
		for j := 0; j < nd; j++ {
			bc.Docs = append(bc.Docs, genDoc(r, j, []string{"main", "dev", "rel"}, gen.Pick(r, []int{3, 15, 40})))
		}
		if len(bc.Docs) > 0 && r.Chance(1, 2) {
			// aim the limit exactly at a cumulative size, so that `size > ShardMax` vs `>=` matters
			k := r.Intn(len(bc.Docs))
			sum := 0
			for j := 0; j <= k; j++ {
				d := bc.Docs[j]
				sum += len(d.Name)
				if naiveSkip(d, bc.SizeMax, bc.TrigramMax) == index.SkipReasonNone {
					sum += len(d.Content)
				}
			}
			if r.Chance(1, 3) && k > 0 {
				// a later flush boundary: size counts from the previous flush, so restart the sum there
				sum = len(bc.Docs[k].Name)
				if naiveSkip(bc.Docs[k], bc.SizeMax, bc.TrigramMax) == index.SkipReasonNone {
					sum += len(bc.Docs[k].Content)
				}
			}
			if sum > 0 {
				bc.ShardMax = sum
			}
		}
		h.buildCase(bc, "build")
	}
}

// ---------------------------------------------------------------- reuse cases

func dumpPB(d index.VerifPostingsDump) string {
	po := "_"
	if len(d.Postings) > 0 {
		p := make([]string, len(d.Postings))
		for i, x := range d.Postings {
			p[i] = gen.Hex(x)
		}
		po = strings.Join(p, ",")
	}
	pl := "0"
	if d.PlainASCII {
		pl = "1"
	}
	return fmt.Sprintf("ng=%s/po=%s/ro=%s/er=%s/pl=%s/eb=%d/rc=%d", gen.NatList(d.Ngrams), po, gen.Hex(d.RuneOffsets),
		gen.Hex(d.EndRunes), pl, d.EndByte, d.RuneCount)
}

func runScript(pb *index.VerifPostings, cmds []string) []string {
	var out []string
	for _, cmd := range cmds {
		switch {
		case cmd == "r":
			pb.Reset()
			out = append(out, "r")
		case cmd == "w":
			d, err := pb.Write()
			if err != nil {
				return append(out, "werr")
			}
			out = append(out, dumpPB(d))
		default:
			parts := strings.SplitN(cmd, ":", 3)
			_, err := pb.Add(gen.UnHex(parts[1]), nil)
			if err != nil {
				return append(out, "err")
			}
			out = append(out, "ok:-")
		}
	}
	return out
}

// reuseCase: script = prefix ~ r ~ adds ~ w ; the last write must equal a fresh builder's for the same adds.
func (h *harness) reuseCase(script, class string) {
	cmds := strings.Split(script, "~")
	out := runScript(index.VerifNewPostings(), cmds)
	last := 0
	for i, c := range cmds {
		if c == "r" {
			last = i
		}
	}
	fresh := runScript(index.VerifNewPostings(), cmds[last+1:])
	goV, key := "", ""
	if out[len(out)-1] != fresh[len(fresh)-1] {
		goV, key = "writePostings after reset differs from a fresh builder: "+out[len(out)-1]+" vs "+fresh[len(fresh)-1], "reuse-visible"
	}
	h.w.Emit(gen.Case{In: "reuse " + script, Impl: strings.Join(out, "~"), Class: class, Nontrivial: true, Go: goV, Key: key,
		Detail: gen.Detail(detail{Kind: "reuse", Script: script})})
}

// heavyUnits: short strings whose repetition makes one trigram's posting list very long — non-ASCII (map-backed posting
// lists) and ASCII (array-backed) alike. Buffer-retention policies in reset() depend on how large a list grew.
var heavyUnits = []string{"═", "日", "é", "a═", "═b", "=", "ab", "日本"}

// heavyText repeats unit so that its dominant trigram gets more than `postings` postings (one varint byte each).
func heavyText(unit string, postings int) []byte {
	runes := utf8.RuneCountInString(unit)
	n := postings/1 + 8
	if runes > 1 {
		n = postings + 8 // the trigram recurs once per unit
	}
	return []byte(strings.Repeat(unit, n))
}

func (h *harness) reuseCases(r *gen.Rand, n int, large bool) {
	text := func() string {
		c := bytes.ReplaceAll(gen.Text(r, 25, r.Chance(1, 4)), []byte{0}, []byte{' '})
		return "a:" + gen.Hex(c) + ":-"
	}
	for i := 0; i < n; i++ {
		var cmds []string
		if i%6 == 0 {
			// a posting list grown past 4 KiB (64 KiB in the thorough tier) before the reset, the same trigram after it
			unit := heavyUnits[(i/6)%len(heavyUnits)]
			size := gen.Pick(r, []int{4100, 4200, 5000})
			if large && i%600 == 0 {
				size = 66000 // the Lean model appends posting bytes to a list: keep the quadratic cases few
			}
			cmds = append(cmds, "a:"+gen.Hex(heavyText(unit, size))+":-")
			if r.Chance(1, 2) {
				cmds = append(cmds, text())
			}
			if r.Chance(1, 2) {
				cmds = append(cmds, "w")
			}
			cmds = append(cmds, "r")
			after := append(bytes.ReplaceAll(gen.Text(r, 10, false), []byte{0}, []byte{' '}), []byte(strings.Repeat(unit, 3+r.Intn(6)))...)
			after = append(after, bytes.ReplaceAll(gen.Text(r, 10, false), []byte{0}, []byte{' '})...)
			cmds = append(cmds, "a:"+gen.Hex(after)+":-")
			if r.Chance(1, 2) {
				cmds = append(cmds, text())
			}
			cmds = append(cmds, "w")
			h.w.Count("reuse-heavy-posting-list", 1)
			h.reuseCase(strings.Join(cmds, "~"), "reuse/heavy")
			continue
		}
		for round := 0; round < 1+r.Intn(3); round++ {
			for j := 0; j < 1+r.Intn(4); j++ {
				cmds = append(cmds, text())
			}
			if r.Chance(1, 2) {
				cmds = append(cmds, "w")
			}
			cmds = append(cmds, "r")
		}
		for j := 0; j < r.Intn(4); j++ {
			cmds = append(cmds, text())
		}
		cmds = append(cmds, "w")
		h.reuseCase(strings.Join(cmds, "~"), "reuse")
	}
}

// ---------------------------------------------------------------- end to end

type repoSpec struct {
	Name     string   `json:"name"`
	ID       uint32   `json:"id"`
	Branches []string `json:"branches"`
	Docs     []doc    `json:"docs"`
}

type e2eCase struct {
	Repos   []repoSpec `json:"repos"`
	Queries []string   `json:"queries"` // textual form, for the replay's reader; queries are regenerated from QSeed
	QSeed   uint64     `json:"qseed"`
	CSeed   uint64     `json:"cseed"`
	// ExtraSubstr: additional case-insensitive substring queries (for hand-written witnesses)
	ExtraSubstr []string `json:"extraSubstr,omitempty"`
}

func (r repoSpec) repository() zoekt.Repository {
	repo := zoekt.Repository{Name: r.Name, ID: r.ID}
	for i, b := range r.Branches {
		repo.Branches = append(repo.Branches, zoekt.RepositoryBranch{Name: b, Version: fmt.Sprintf("v%d", i)})
	}
	return repo
}

type config struct {
	name        string
	shardMax    int
	parallelism int
	shuffle     bool
	compound    bool
}

// canonical result of one query: files sorted by (repository, name); per file its branches and matches. Scores, order and
// statistics are excluded (document order legitimately changes tie-breaks; C29 owns scores).
func canon(res *zoekt.SearchResult) string {
	type fm struct {
		key string
		s   string
	}
	var out []fm
	for _, f := range res.Files {
		var sb strings.Builder
		fmt.Fprintf(&sb, "%s\x00%s br=%v lang=%s sub=%s ver=%s", f.Repository, f.FileName, f.Branches, f.Language, f.SubRepositoryPath, f.Version)
		var lines []string
		for _, lm := range f.LineMatches {
			var fr []string
			for _, x := range lm.LineFragments {
				fr = append(fr, fmt.Sprintf("%d+%d@%d", x.LineOffset, x.MatchLength, x.Offset))
			}
			lines = append(lines, fmt.Sprintf("L%d[%d:%d]fn=%v %q %s", lm.LineNumber, lm.LineStart, lm.LineEnd, lm.FileName, lm.Line, strings.Join(fr, ",")))
		}
		for _, cm := range f.ChunkMatches {
			var rg []string
			for _, x := range cm.Ranges {
				rg = append(rg, fmt.Sprintf("%d-%d", x.Start.ByteOffset, x.End.ByteOffset))
			}
			sort.Strings(rg)
			lines = append(lines, fmt.Sprintf("C%d fn=%v %q %s", cm.ContentStart.ByteOffset, cm.FileName, cm.Content, strings.Join(rg, ",")))
		}
		sort.Strings(lines)
		sb.WriteString(" " + strings.Join(lines, ";"))
		if f.Content != nil {
			fmt.Fprintf(&sb, " content=%x", f.Content)
		}
		out = append(out, fm{f.Repository + "\x00" + f.FileName, sb.String()})
	}
	sort.Slice(out, func(i, j int) bool { return out[i].key < out[j].key })
	var sb strings.Builder
	for _, o := range out {
		sb.WriteString(o.s)
		sb.WriteByte('\n')
	}
	return sb.String()
}

type namedQ struct {
	name string
	q    query.Q
	opts zoekt.SearchOptions
}

func genQueries(r *gen.Rand, repos []repoSpec, n int) []namedQ {
	var words [][]byte
	var fnames []string
	for _, rp := range repos {
		for _, d := range rp.Docs {
			fnames = append(fnames, d.Name)
			rs := runeStarts(d.Content)
			for k := 0; k < 3 && len(rs) > 4; k++ {
				a := r.Intn(len(rs) - 3)
				b := a + 3 + r.Intn(min(6, len(rs)-a-3)+0)
				if b >= len(rs) {
					b = len(rs) - 1
				}
				w := d.Content[rs[a]:rs[b]]
				if utf8.Valid(w) && bytes.IndexByte(w, 0) < 0 {
					words = append(words, w)
				}
			}
		}
	}
	words = append(words, []byte("foo"), []byte("main"), []byte("zzzqqq"), []byte("func"), []byte("NOT-INDEXED"))
	pick := func() string { return string(gen.Pick(r, words)) }
	qs := []namedQ{{"const-true-whole", &query.Const{Value: true}, zoekt.SearchOptions{Whole: true}}}
	for len(qs) < n {
		var q query.Q
		var name string
		switch r.Intn(12) {
		case 0, 1, 2:
			p := pick()
			q, name = &query.Substring{Pattern: p, CaseSensitive: true, Content: true}, fmt.Sprintf("case:yes content:%q", p)
		case 3, 4:
			p := pick()
			q, name = &query.Substring{Pattern: p}, fmt.Sprintf("substr:%q", p)
		case 5:
			p := strings.ToUpper(pick())
			q, name = &query.Substring{Pattern: p}, fmt.Sprintf("substr-upper:%q", p)
		case 6:
			p := gen.Pick(r, fnames)
			if len(p) > 4 {
				p = p[1:4]
			}
			q, name = &query.Substring{Pattern: p, FileName: true}, fmt.Sprintf("file:%q", p)
		case 7:
			p := regexp.QuoteMeta(pick())
			re, err := parseRE(p + "+")
			if err != nil {
				continue
			}
			q, name = &query.Regexp{Regexp: re, CaseSensitive: r.Bool()}, fmt.Sprintf("regex:%q", p+"+")
		case 8:
			br := gen.Pick(r, repos).Branches
			if len(br) == 0 {
				continue
			}
			b := gen.Pick(r, br)
			q, name = query.NewAnd(&query.Branch{Pattern: b, Exact: true}, &query.Substring{Pattern: pick()}), "branch:"+b+" AND substr"
		case 9:
			p1, p2 := pick(), pick()
			q, name = query.NewOr(&query.Substring{Pattern: p1, CaseSensitive: true}, query.NewAnd(&query.Substring{Pattern: p2},
				&query.Not{Child: &query.Substring{Pattern: p1, FileName: true}})), fmt.Sprintf("or(%q, and(%q, not file))", p1, p2)
		case 10:
			p := pick()
			q, name = &query.Symbol{Expr: &query.Substring{Pattern: p, Content: true}}, fmt.Sprintf("sym:%q", p)
		case 11:
			rp := gen.Pick(r, repos)
			q, name = query.NewAnd(&query.Repo{Regexp: regexp.MustCompile("^" + regexp.QuoteMeta(rp.Name) + "$")}, &query.Substring{Pattern: pick()}), "repo:"+rp.Name+" AND substr"
		}
		opts := zoekt.SearchOptions{}
		if r.Chance(1, 2) {
			opts.ChunkMatches = true
		}
		if r.Chance(1, 4) {
			opts.NumContextLines = 1
		}
		qs = append(qs, namedQ{name, q, opts})
	}
	return qs
}

func (h *harness) buildConfig(e e2eCase, cfg config, baselineDir string, r *gen.Rand) (string, error) {
	dir := h.dir()
	if cfg.compound {
		var files []index.IndexFile
		defer func() {
			for _, f := range files {
				f.Close()
			}
		}()
		for _, fn := range shardFiles(baselineDir) {
			f, err := os.Open(fn)
			if err != nil {
				return dir, err
			}
			inf, err := index.NewIndexFile(f)
			if err != nil {
				return dir, err
			}
			files = append(files, inf)
		}
		var err error
		func() {
			defer func() {
				if e := recover(); e != nil {
					err = fmt.Errorf("index.Merge panics: %v", e)
				}
			}()
			var tmpName, dstName string
			tmpName, dstName, err = index.Merge(dir, files...)
			if err == nil {
				err = os.Rename(tmpName, dstName)
			}
		}()
		return dir, err
	}
	for _, rp := range e.Repos {
		docs := append([]doc(nil), rp.Docs...)
		if cfg.shuffle {
			gen.Shuffle(r, docs)
		}
		if err := build(dir, rp.repository(), docs, cfg.shardMax, 2<<20, 20000, cfg.parallelism); err != nil {
			return dir, err
		}
	}
	return dir, nil
}

func runQueries(dir string, qs []namedQ) ([]string, error) {
	ss, err := search.NewDirectorySearcher(dir)
	if err != nil {
		return nil, err
	}
	defer ss.Close()
	var out []string
	for _, nq := range qs {
		opts := nq.opts
		res, err := ss.Search(context.Background(), nq.q, &opts)
		if err != nil {
			out = append(out, "error: "+err.Error())
			continue
		}
		out = append(out, canon(res))
	}
	return out, nil
}

// outsideOrbit: runes whose lower case is not in their own simple-fold orbit (U+0130 İ → i, …). zoekt's case-insensitive
// candidate generation walks SimpleFold orbits while its verification compares unicode.ToLower: for such runes the two
// disagree (C08's subject), and whether a candidate is generated depends on which trigrams a shard makes rarest.
func outsideOrbit(r rune) bool {
	l := unicode.ToLower(r)
	if l == r {
		return false
	}
	for f := unicode.SimpleFold(r); f != r; f = unicode.SimpleFold(f) {
		if f == l {
			return false
		}
	}
	return true
}

func hasOutsideOrbit(b []byte) bool {
	for _, r := range string(b) {
		if outsideOrbit(r) {
			return true
		}
	}
	return false
}

// differingFiles: repository\x00file keys whose canonical line differs between two canonical results
func differingFiles(a, b string) []string {
	idx := func(s string) map[string]string {
		m := map[string]string{}
		for _, ln := range strings.Split(s, "\n") {
			if ln == "" {
				continue
			}
			key := ln
			if i := strings.Index(ln, " br="); i >= 0 {
				key = ln[:i]
			}
			m[key] = ln
		}
		return m
	}
	ma, mb := idx(a), idx(b)
	var out []string
	for k, v := range ma {
		if mb[k] != v {
			out = append(out, k)
		}
	}
	for k := range mb {
		if _, ok := ma[k]; !ok {
			out = append(out, k)
		}
	}
	return out
}

func (h *harness) e2eCase(e e2eCase, class string) {
	qr := gen.NewRand(e.QSeed)
	qs := genQueries(qr, e.Repos, 24)
	for _, p := range e.ExtraSubstr {
		qs = append(qs, namedQ{fmt.Sprintf("substr:%q", p), &query.Substring{Pattern: p}, zoekt.SearchOptions{}})
	}
	e.Queries = nil
	for _, q := range qs {
		e.Queries = append(e.Queries, q.name+" := "+q.q.String())
	}
	cr := gen.NewRand(e.CSeed)
	total := 0
	for _, rp := range e.Repos {
		for _, d := range rp.Docs {
			total += len(d.Name) + len(d.Content)
		}
	}
	cfgs := []config{
		{name: "baseline", shardMax: 100 << 20, parallelism: 1},
		{name: "shard-per-doc", shardMax: 1, parallelism: 1},
		{name: "shards-par4", shardMax: max(total/len(e.Repos)/3, 1), parallelism: 4},
		{name: "shards-par16-shuffled", shardMax: max(total/len(e.Repos)/5, 1), parallelism: 16, shuffle: true},
		{name: "one-shard-par2-shuffled", shardMax: 100 << 20, parallelism: 2, shuffle: true},
		{name: "shards-seq-shuffled", shardMax: max(total/len(e.Repos)/2, 1), parallelism: 1, shuffle: true},
		{name: "compound", compound: true},
	}
	var base []string
	var baseDir string
	var dirs []string
	defer func() {
		for _, d := range dirs {
			os.RemoveAll(d)
		}
	}()
	for ci, cfg := range cfgs {
		c := gen.Case{Class: class + "/" + cfg.name, Nontrivial: true, Detail: gen.Detail(detail{Kind: "e2e", E2E: &e})}
		dir, err := h.buildConfig(e, cfg, baseDir, cr)
		dirs = append(dirs, dir)
		if err != nil {
			c.Go, c.Key = cfg.name+": build failed: "+err.Error(), "build-failed-"+cfg.name
			h.w.Emit(c)
			continue
		}
		h.w.Count("e2e-shards-"+cfg.name, len(shardFiles(dir)))
		got, err := runQueries(dir, qs)
		if err != nil {
			c.Go, c.Key = cfg.name+": searcher: "+err.Error(), "searcher-failed"
			h.w.Emit(c)
			continue
		}
		if ci == 0 {
			base, baseDir = got, dir
			nonEmpty := 0
			for _, g := range got {
				if g != "" {
					nonEmpty++
				}
			}
			h.w.Count("e2e-queries", len(got))
			h.w.Count("e2e-queries-nonempty", nonEmpty)
			h.w.Emit(c)
			continue
		}
		for qi := range qs {
			if got[qi] != base[qi] {
				key := "results-differ"
				if sq, ok := qs[qi].q.(*query.Substring); ok && !sq.CaseSensitive {
					// narrow class: a case-insensitive substring query, and every file whose result differs holds a rune
					// whose lower case lies outside its fold orbit (in its content or name)
					all := true
					diff := differingFiles(base[qi], got[qi])
					for _, k := range diff {
						found := false
						for _, rp := range e.Repos {
							for _, d := range rp.Docs {
								if rp.Name+"\x00"+d.Name == k && (hasOutsideOrbit(d.Content) || hasOutsideOrbit([]byte(d.Name))) {
									found = true
								}
							}
						}
						all = all && found
					}
					if all && len(diff) > 0 {
						key = "results-differ-ci-lower-outside-fold-orbit"
					}
				}
				c.Go = fmt.Sprintf("config %s, query %s: results differ from the baseline build\n--- baseline\n%s--- %s\n%s", cfg.name, e.Queries[qi],
					trunc(base[qi]), cfg.name, trunc(got[qi]))
				c.Key = key
				break
			}
		}
		h.w.Emit(c)
	}
}

func trunc(s string) string {
	if len(s) > 1500 {
		return s[:1500] + "…"
	}
	return s
}

func (h *harness) e2eCases(r *gen.Rand, n int, large bool) {
	for i := 0; i < n; i++ {
		var e e2eCase
		nr := gen.Pick(r, []int{1, 2, 3})
		for j := 0; j < nr; j++ {
			rp := repoSpec{Name: fmt.Sprintf("repo%d", j), ID: uint32(10*i + j + 1)}
			// branch names from one pool, at different positions in different repositories (matters once they share a
			// compound shard)
			nb := gen.Pick(r, []int{1, 2, 3, 40})
			rp.Branches = append(rp.Branches, branchPool[:nb]...)
			if j > 0 && nb > 1 {
				k := 1 + r.Intn(nb-1)
				rp.Branches = append(append([]string(nil), rp.Branches[k:]...), rp.Branches[:k]...)
			} else if r.Chance(1, 2) {
				gen.Shuffle(r, rp.Branches)
			}
			nd := gen.Pick(r, []int{1, 3, 6, 12})
			if large {
				nd = gen.Pick(r, []int{1, 3, 8, 20})
			}
			for k := 0; k < nd; k++ {
				rp.Docs = append(rp.Docs, genDoc(r, k, rp.Branches, gen.Pick(r, []int{10, 40, 120})))
			}
			e.Repos = append(e.Repos, rp)
		}
		if i%3 == 0 {
			// heavy corpus: the first document of the first repository makes one trigram's posting list longer than 4 KiB
			// (64 KiB now and then in the thorough tier); later documents — later shards, built with pooled buffers — use the
			// same trigram, and it is queried
			unit := heavyUnits[(i/3+int(r.U64()%7))%len(heavyUnits)]
			size := 4200
			if large && r.Chance(1, 4) {
				size = 66000
			}
			rp := &e.Repos[0]
			hd := doc{Name: "0-heavy.txt", Content: heavyText(unit, size), Branches: []string{rp.Branches[0]}}
			docs := []doc{hd}
			for k, d := range rp.Docs {
				d.Name = fmt.Sprintf("%d-%s", k+1, d.Name)
				if k%2 == 0 && d.Skip == index.SkipReasonNone && bytes.IndexByte(d.Content, 0) < 0 {
					d.Content = append(append([]byte(nil), d.Content...), []byte("\n// "+strings.Repeat(unit, 3+r.Intn(5))+" needle"+fmt.Sprint(k)+"\n")...)
					d.Symbols = nil
				}
				docs = append(docs, d)
			}
			for len(docs) < 4 {
				k := len(docs)
				docs = append(docs, doc{Name: fmt.Sprintf("%d-extra.go", k), Content: []byte("package x\n// " + strings.Repeat(unit, 4) + " extra" + fmt.Sprint(k) + "\n"),
					Branches: []string{rp.Branches[0]}})
			}
			rp.Docs = docs
			e.ExtraSubstr = []string{strings.Repeat(unit, 3), strings.Repeat(unit, 2) + " needle", strings.Repeat(unit, 4)}
			h.w.Count("e2e-heavy-posting-list-corpora", 1)
		}
		e.QSeed, e.CSeed = r.U64(), r.U64()
		h.e2eCase(e, "e2e")
	}
}

func parseRE(s string) (*syntax.Regexp, error) { return syntax.Parse(s, syntax.Perl) }
