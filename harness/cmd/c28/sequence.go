package main

// What newRegexpMatchTree compiles for a query, asked in long in-process sequences: a small working set of regexp texts is
// searched again and again with different case / file-name settings, under RE2 disabled, always-on and size thresholds.
// The model (C28.matchTreePatterns) knows only the query: any state that survives from one call to the next — a cache of
// compiled regexps keyed by less than the full pattern, a pooled object reused without reset — makes a later call disagree.

import (
	"fmt"
	"regexp/syntax"

	"github.com/sourcegraph/zoekt/index"
	"github.com/sourcegraph/zoekt/query"
	"github.com/sourcegraph/zoekt/verifhooks"

	"verifharness/gen"
)

func (rn *runner) matchTreeSequence(r *gen.Rand, n int) {
	g := &gen.PatGen{R: r.Fork(), NoClass: true}
	var texts []string
	for len(texts) < 24 {
		t := g.Pattern()
		if _, err := syntax.Parse(t, query.VerifRegexpFlags); err == nil && len(t) > 0 {
			texts = append(texts, t)
		}
	}
	texts = append(texts, `val=[a-z]+;`, `[A-Z]\w+`, `foo.*bar`, `(?i)x[a-c]`, `é+`)
	for _, t := range []int64{-1, 0, 64, 1 << 30} {
		verifhooks.HybridSetThreshold(t)
		lo := 0
		for i := 0; i < n; i++ {
			if i%12 == 11 { // slide the working set
				lo = r.Intn(len(texts))
			}
			text := texts[(lo+r.Intn(5))%len(texts)]
			re, err := syntax.Parse(text, query.VerifRegexpFlags)
			if err != nil {
				continue
			}
			cs, fn := r.Bool(), r.Chance(1, 4)
			q := &query.Regexp{Regexp: re, CaseSensitive: cs, FileName: fn, Content: !fn}
			printed := verifhooks.RegexpString(re)
			gp, hp, has := index.VerifRegexpMatchTreePatterns(q)
			impl := "g=" + gen.Hex([]byte(gp)) + " h=none"
			if has {
				impl = "g=" + gen.Hex([]byte(gp)) + " h=" + gen.Hex([]byte(hp))
			}
			b := func(x bool) string {
				if x {
					return "1"
				}
				return "0"
			}
			rn.w.Emit(gen.Case{In: fmt.Sprintf("pat %s %s %s", b(cs), b(fn), gen.Hex([]byte(printed))), Impl: impl,
				Class: fmt.Sprintf("matchtree-sequence-t%d", t), Nontrivial: true,
				Detail: gen.Detail(detail{Pattern: text, Note: fmt.Sprintf("threshold=%d caseSensitive=%v fileName=%v call #%d of the sequence", t, cs, fn, i)})})
		}
	}
	verifhooks.HybridSetThreshold(-1)
}
