// C28 harness: internal/hybridre2 (threshold parsing, dispatch) and the two engines it dispatches between, plus real
// shard searches in child processes under different ZOEKT_RE2_THRESHOLD_BYTES settings.
//
//	correspondence (exact): threshold() for environment values (child processes: the value is read once per process);
//	                        which engine FindAllIndex runs for (threshold, input length), observed through a probe input
//	                        on which the engines are known to differ (invalid UTF-8)
//	failing-input search:   grafana/regexp vs go-re2 FindAllIndex on generated (pattern, valid-UTF-8 subject) pairs — the
//	                        hypothesis of the dispatch theorem — both also checked against the model's match semantics (Lean);
//	                        go-re2 rejecting a pattern grafana accepts; end-to-end: the same shard and queries searched in
//	                        child processes with the variable unset / -1 / 0 / 1 / 64 / 1e9 / malformed, results diffed.
package main

import (
	"bytes"
	"context"
	"encoding/json"
	"fmt"
	"os"
	"os/exec"
	"path/filepath"
	stdregexp "regexp"
	"regexp/syntax"
	"sort"
	"strconv"
	"strings"
	"sync"
	"time"
	"unicode/utf8"

	grafana "github.com/grafana/regexp"
	"github.com/sourcegraph/zoekt"
	"github.com/sourcegraph/zoekt/index"
	"github.com/sourcegraph/zoekt/query"
	"github.com/sourcegraph/zoekt/verifhooks"
	re2 "github.com/wasilibs/go-re2"

	"verifharness/gen"
)

const envName = "ZOEKT_RE2_THRESHOLD_BYTES"

type detail struct {
	Pattern  string   `json:"pattern,omitempty"`  // query-syntax pattern text
	Compiled string   `json:"compiled,omitempty"` // the string zoekt hands to both engines
	Subject  string   `json:"subject,omitempty"`
	Env      string   `json:"env,omitempty"`
	Note     string   `json:"note,omitempty"`
	Docs     []string `json:"docs,omitempty"`
	Queries  []qspec  `json:"queries,omitempty"`
	Spec     *subjSpec  `json:"subject_spec,omitempty"` // recipe of a large generated subject (wrapper cases)
	BigDocs  []subjSpec `json:"big_docs,omitempty"`     // recipes of the large documents of an end-to-end shard (indexed after Docs)
}

type qspec struct {
	Pattern       string `json:"pattern"`
	CaseSensitive bool   `json:"case_sensitive"`
	FileName      bool   `json:"file_name"`
	ViaParser     bool   `json:"via_parser"` // build the query with query.RegexpQuery (the public path incl. OptimizeRegexp)
}

// ---------- child modes ----------

func childMain(mode string) {
	switch mode {
	case "thr":
		fmt.Println(verifhooks.HybridThreshold())
	case "search":
		shard, qfile := os.Args[1], os.Args[2]
		raw, err := os.ReadFile(qfile)
		if err != nil {
			panic(err)
		}
		var qs []qspec
		if err := json.Unmarshal(raw, &qs); err != nil {
			panic(err)
		}
		f, err := os.Open(shard)
		if err != nil {
			panic(err)
		}
		inf, err := index.NewIndexFile(f)
		if err != nil {
			panic(err)
		}
		s, err := index.NewSearcher(inf)
		if err != nil {
			panic(err)
		}
		out := make([]string, len(qs))
		for i, q := range qs {
			out[i] = runQuery(s, q)
		}
		b, _ := json.Marshal(out)
		os.Stdout.Write(b)
	}
}

func buildQuery(q qspec) (query.Q, error) {
	if q.ViaParser {
		qq, err := query.RegexpQuery(q.Pattern, !q.FileName, q.FileName)
		if err != nil {
			return nil, err
		}
		switch x := qq.(type) {
		case *query.Regexp:
			x.CaseSensitive = q.CaseSensitive
		case *query.Substring:
			x.CaseSensitive = q.CaseSensitive
		}
		return qq, nil
	}
	r, err := syntax.Parse(q.Pattern, query.VerifRegexpFlags)
	if err != nil {
		return nil, err
	}
	return &query.Regexp{Regexp: r, Content: !q.FileName, FileName: q.FileName, CaseSensitive: q.CaseSensitive}, nil
}

func runQuery(s zoekt.Searcher, q qspec) (res string) {
	defer func() {
		if r := recover(); r != nil {
			msg := fmt.Sprint(r)
			if len(msg) > 120 {
				msg = msg[:120]
			}
			res = "panic: " + msg
		}
	}()
	qq, err := buildQuery(q)
	if err != nil {
		return "query-error"
	}
	sr, err := s.Search(context.Background(), qq, &zoekt.SearchOptions{ChunkMatches: true})
	if err != nil {
		return "search-error: " + err.Error()
	}
	if sr.Stats.Crashes > 0 {
		return "shard-crash"
	}
	var files []string
	for _, fm := range sr.Files {
		var rs []string
		for _, cm := range fm.ChunkMatches {
			for _, r := range cm.Ranges {
				k := "c"
				if cm.FileName {
					k = "n"
				}
				rs = append(rs, fmt.Sprintf("%s%d-%d", k, r.Start.ByteOffset, r.End.ByteOffset))
			}
		}
		sort.Strings(rs)
		files = append(files, fm.FileName+"["+strings.Join(rs, " ")+"]")
	}
	sort.Strings(files)
	return strings.Join(files, ";")
}

func runChild(mode string, envVal *string, args ...string) (string, error) {
	cmd := exec.Command(os.Args[0], args...)
	env := []string{"C28_CHILD=" + mode}
	for _, e := range os.Environ() {
		if !strings.HasPrefix(e, envName+"=") && !strings.HasPrefix(e, "C28_CHILD=") {
			env = append(env, e)
		}
	}
	if envVal != nil {
		env = append(env, envName+"="+*envVal)
	}
	cmd.Env = env
	var stderr bytes.Buffer
	cmd.Stderr = &stderr
	out, err := cmd.Output()
	if err != nil {
		return string(out), fmt.Errorf("%v: %s", err, tail(stderr.String(), 300))
	}
	return string(out), nil
}

func tail(s string, n int) string {
	if len(s) > n {
		return s[len(s)-n:]
	}
	return s
}

// ---------- parent ----------

func eqSpans(a, b [][]int) bool {
	if len(a) != len(b) {
		return false
	}
	for i := range a {
		if a[i][0] != b[i][0] || a[i][1] != b[i][1] {
			return false
		}
	}
	return true
}

// compiledFor: the pattern string zoekt compiles for a query regexp (newRegexpMatchTree): optional (?i) + RegexpString.
func compiledFor(text string, caseSensitive bool) (string, bool) {
	r, err := syntax.Parse(text, query.VerifRegexpFlags)
	if err != nil {
		return "", false
	}
	p := verifhooks.RegexpString(r)
	if !caseSensitive {
		p = "(?i)" + p
	}
	return p, true
}

// re2ErrorClass buckets go-re2's compile errors for the failure key.
func re2ErrorClass(err error) string {
	m := err.Error()
	for _, k := range []string{"too large", "bad repetition", "invalid UTF-8", "invalid escape", "missing", "invalid character class", "invalid named capture", "invalid perl operator", "unexpected"} {
		if strings.Contains(m, k) {
			return strings.ReplaceAll(k, " ", "-")
		}
	}
	return "other"
}

type runner struct{ w *gen.Writer }

func (rn *runner) enginePair(text string, cs bool, subjects [][]byte) {
	w := rn.w
	compiled, ok := compiledFor(text, cs)
	if !ok {
		w.Count("pattern-rejected-by-parser", 1)
		return
	}
	det := detail{Pattern: text, Compiled: compiled}
	g, err := grafana.Compile(compiled)
	if err != nil {
		// zoekt would panic in regexp.MustCompile regardless of the threshold: not a C28 matter (C27 reports it)
		w.Count("grafana-rejects-printed-pattern", 1)
		return
	}
	r2, err := re2.Compile(compiled)
	if err != nil {
		d := det
		d.Note = "go-re2: " + err.Error()
		w.Emit(gen.Case{Go: "go-re2 rejects a pattern grafana/regexp accepts: hybridre2.MustCompile panics when the threshold is enabled, the search works when it is disabled",
			Key: "re2-rejects-pattern:" + re2ErrorClass(err), Class: "re2-compile-error", Detail: gen.Detail(d)})
		return
	}
	tree, orb := "", "-"
	if t, err := syntax.Parse(compiled, syntax.Perl); err == nil {
		if s, ok := gen.ReTree(t); ok {
			tree, orb = s, gen.Orbits(t)
		}
	}
	for _, subj := range subjects {
		sg := g.FindAllIndex(subj, -1)
		sr := r2.FindAllIndex(subj, -1)
		d := det
		d.Subject = string(subj)
		goV, key := "", ""
		if !eqSpans(sg, sr) {
			goV = fmt.Sprintf("engines differ on valid UTF-8: grafana=%v re2=%v", trunc(sg), trunc(sr))
			key = "engines-differ:" + diffClass(compiled, subj, sg, sr)
		}
		in, impl := "", ""
		if tree != "" && utf8.RuneCount(subj) <= 24 && len(tree) < 6000 {
			a, ok1 := gen.RuneSpans(subj, sg)
			b, ok2 := gen.RuneSpans(subj, sr)
			if ok1 && ok2 {
				in = fmt.Sprintf("fa %s %s %s", tree, orb, gen.SubjectRunes(subj))
				impl = fmt.Sprintf("g=%s r=%s", a, b)
			} else if goV == "" {
				goV, key = "span not on a rune boundary", "span-inside-rune"
			}
		}
		cl := "fa-nomatch"
		if len(sg) > 0 {
			cl = "fa-match"
		}
		if len(subj) > 200 {
			cl += "-long"
		}
		w.Emit(gen.Case{In: in, Impl: impl, Go: goV, Key: key, Class: cl, Nontrivial: len(sg) > 0, Detail: gen.Detail(d)})
	}
}

func trunc(s [][]int) [][]int {
	if len(s) > 6 {
		return s[:6]
	}
	return s
}

// diffClass names the kind of engine disagreement (for known-finding keys). Go's own regexp package is the arbiter of
// which engine deviates; the sub-class is read off observable facts of the witness.
//
//	grafana:foldcase-bytelen   grafana/regexp deviates, the compiled pattern has a case-folded literal and the subject
//	                           contains a rune with a fold partner of a different UTF-8 length (grafana's case-insensitive
//	                           literal-prefix search compares a window of the *prefix's* byte length)
//	re2:span-inside-rune       go-re2 deviates and reports a span boundary that is not a rune boundary (empty-width matches)
func diffClass(compiled string, subj []byte, sg, sr [][]int) string {
	who := "both"
	if std, err := stdregexp.Compile(compiled); err == nil {
		ss := std.FindAllIndex(subj, -1)
		switch {
		case eqSpans(ss, sr):
			who = "grafana"
		case eqSpans(ss, sg):
			who = "re2"
		}
	}
	insideRune := func(spans [][]int) bool {
		for _, sp := range spans {
			for _, o := range sp {
				if o < len(subj) && !utf8.RuneStart(subj[o]) {
					return true
				}
			}
		}
		return false
	}
	foldLit := false
	if t, err := syntax.Parse(compiled, syntax.Perl); err == nil {
		tr, _ := gen.ReTree(t)
		foldLit = strings.Contains(tr, "L1:")
	}
	multiLen := false
	for _, c := range string(subj) {
		for _, o := range gen.Orbit(c) {
			if utf8.RuneLen(o) != utf8.RuneLen(c) {
				multiLen = true
			}
		}
	}
	switch {
	case who == "grafana" && foldLit && multiLen:
		return "grafana:foldcase-bytelen"
	case who == "re2" && insideRune(sr):
		return "re2:span-inside-rune"
	case who == "re2" && hasNullableLoop(compiled) && sameStartDifferentEnd(sg, sr):
		// both engines find a match at the same offset but prefer different ends, and the pattern repeats a sub-expression
		// that can match the empty string (RE2 and Go's regexp resolve the priority of empty iterations differently)
		return "re2:nullable-loop-priority"
	case strings.Contains(compiled, `\p`) || strings.Contains(compiled, `\P`):
		return who + ":unicode-class"
	default:
		return who + ":other"
	}
}

// nullable: the regexp can match the empty string.
func nullable(re *syntax.Regexp) bool {
	switch re.Op {
	case syntax.OpEmptyMatch, syntax.OpStar, syntax.OpQuest, syntax.OpBeginLine, syntax.OpEndLine, syntax.OpBeginText, syntax.OpEndText,
		syntax.OpWordBoundary, syntax.OpNoWordBoundary:
		return true
	case syntax.OpLiteral:
		return len(re.Rune) == 0
	case syntax.OpCapture, syntax.OpPlus:
		return nullable(re.Sub[0])
	case syntax.OpRepeat:
		return re.Min == 0 || nullable(re.Sub[0])
	case syntax.OpConcat:
		for _, s := range re.Sub {
			if !nullable(s) {
				return false
			}
		}
		return true
	case syntax.OpAlternate:
		for _, s := range re.Sub {
			if nullable(s) {
				return true
			}
		}
		return false
	}
	return false
}

// hasNullableLoop: some repetition (*, +, {n,m}) has an operand that can match the empty string.
func hasNullableLoop(compiled string) bool {
	t, err := syntax.Parse(compiled, syntax.Perl)
	if err != nil {
		return false
	}
	var walk func(re *syntax.Regexp) bool
	walk = func(re *syntax.Regexp) bool {
		switch re.Op {
		case syntax.OpStar, syntax.OpPlus, syntax.OpRepeat:
			if nullable(re.Sub[0]) {
				return true
			}
		}
		for _, s := range re.Sub {
			if walk(s) {
				return true
			}
		}
		return false
	}
	return walk(t)
}

// sameStartDifferentEnd: the first differing match starts at the same offset in both lists.
func sameStartDifferentEnd(a, b [][]int) bool {
	for i := 0; i < len(a) && i < len(b); i++ {
		if a[i][0] != b[i][0] {
			return false
		}
		if a[i][1] != b[i][1] {
			return true
		}
	}
	return false
}

func (rn *runner) thresholdParsing(quick bool) {
	vals := []*string{nil}
	all := []string{"", "0", "64", "-5", "+7", "abc", " 7", "9223372036854775808", "1_000", "1", "-1", "7 ", "007", "1e9", "1000000000", "9223372036854775807",
		"-9223372036854775808", "-9223372036854775809", "0x10", "٣", "--1", "+", "-", "32768"}
	if quick {
		all = all[:9]
	}
	for _, v := range all {
		v := v
		vals = append(vals, &v)
	}
	type res struct {
		out string
		err error
	}
	results := make([]res, len(vals))
	var wg sync.WaitGroup
	sem := make(chan struct{}, 6)
	for i, v := range vals {
		wg.Add(1)
		go func(i int, v *string) {
			defer wg.Done()
			sem <- struct{}{}
			defer func() { <-sem }()
			out, err := runChild("thr", v)
			results[i] = res{out, err}
		}(i, v)
	}
	wg.Wait()
	for i, v := range vals {
		out, err := results[i].out, results[i].err
		in := "thr unset"
		d := detail{Env: "unset"}
		if v != nil {
			in = "thr " + gen.Hex([]byte(*v))
			d.Env = *v
		}
		if err != nil {
			rn.w.Emit(gen.Case{Go: "child failed: " + err.Error(), Key: "child-failed", Detail: gen.Detail(d)})
			continue
		}
		rn.w.Emit(gen.Case{In: in, Impl: strings.TrimSpace(out), Class: "thr", Nontrivial: v != nil, Detail: gen.Detail(d)})
	}
}

func (rn *runner) dispatch(r *gen.Rand, n int) {
	// probe: on invalid UTF-8 the engines differ (documented in hybridre2.go), so the engine in use is observable
	const pat = `(?s).`
	g := grafana.MustCompile(pat)
	r2 := re2.MustCompile(pat)
	ts := []int64{-1, -2, 0, 1, 2, 3, 63, 64, 65, 1000, 1 << 40, -1 << 40}
	lens := []int{0, 1, 2, 3, 4, 62, 63, 64, 65, 66, 999, 1000, 1001}
	compiledAt := map[int64]*verifhooks.HybridRegexp{}
	for i := 0; i < n; i++ {
		t := gen.Pick(r, ts)
		l := gen.Pick(r, lens)
		if r.Chance(1, 4) {
			t = int64(r.Range(-3, 70))
			l = r.Range(0, 70)
		}
		verifhooks.HybridSetThreshold(t)
		h := compiledAt[t]
		if h == nil {
			var err error
			h, err = verifhooks.HybridCompile(pat) // Compile consults the threshold: one compilation per setting
			if err != nil {
				panic(err)
			}
			compiledAt[t] = h
		}
		probe := bytes.Repeat([]byte{0xff}, l)
		got := h.FindAllIndex(probe, -1)
		wg, wr := g.FindAllIndex(probe, -1), r2.FindAllIndex(probe, -1)
		impl := ""
		switch {
		case l == 0 || eqSpans(wg, wr):
			// unobservable through results: fall back to the hooks' view of the same condition
			if verifhooks.HybridHasRE2(h) && verifhooks.HybridUseRE2(l) {
				impl = "re2"
			} else {
				impl = "grafana"
			}
			rn.w.Count("dispatch-observed-by-hook", 1)
		case eqSpans(got, wr):
			impl = "re2"
		case eqSpans(got, wg):
			impl = "grafana"
		default:
			impl = "neither"
		}
		rn.w.Emit(gen.Case{In: fmt.Sprintf("disp %d %d", t, l), Impl: impl, Class: "disp-" + impl, Nontrivial: true,
			Detail: gen.Detail(detail{Note: fmt.Sprintf("threshold=%d len=%d", t, l)})})
	}
	verifhooks.HybridSetThreshold(-1)
}

var envSettings = []string{"unset", "-1", "0", "1", "64", "1000000000", "abc"}

// endToEnd builds one shard and runs the same queries in one child process per environment setting.
func (rn *runner) endToEnd(docs [][]byte, qs []qspec, big ...subjSpec) {
	small := docs
	for _, sp := range big {
		docs = append(docs[:len(docs):len(docs)], buildSubject(sp))
	}
	work := os.Getenv("VERIF_WORK")
	if work == "" {
		work = os.TempDir()
	}
	b, err := index.NewShardBuilder(&zoekt.Repository{Name: "r"})
	if err != nil {
		panic(err)
	}
	for i, d := range docs {
		name := fmt.Sprintf("dir/f%03d_%s.txt", i, []string{"foo", "Bar", "ſtop", "日本", "K"}[i%5])
		if err := b.Add(index.Document{Name: name, Content: d}); err != nil {
			panic(err)
		}
	}
	sf, err := os.CreateTemp(work, "c28-*.zoekt")
	if err != nil {
		panic(err)
	}
	defer os.Remove(sf.Name())
	if err := b.Write(sf); err != nil {
		panic(err)
	}
	sf.Close()
	qf := filepath.Join(work, fmt.Sprintf("c28-queries-%d.json", os.Getpid()))
	raw, _ := json.Marshal(qs)
	if err := os.WriteFile(qf, raw, 0o644); err != nil {
		panic(err)
	}
	defer os.Remove(qf)

	results := map[string][]string{}
	type cres struct {
		out string
		err error
	}
	outs := make([]cres, len(envSettings))
	var wg sync.WaitGroup
	for i, e := range envSettings {
		wg.Add(1)
		go func(i int, e string) {
			defer wg.Done()
			var v *string
			if e != "unset" {
				v = &e
			}
			out, err := runChild("search", v, sf.Name(), qf)
			outs[i] = cres{out, err}
		}(i, e)
	}
	wg.Wait()
	for i, e := range envSettings {
		out, err := outs[i].out, outs[i].err
		if err != nil {
			rn.w.Emit(gen.Case{Go: "search child failed under " + e + ": " + err.Error(), Key: "e2e-child-crashed", Class: "e2e",
				Detail: gen.Detail(detail{Env: e, Queries: qs, Docs: docStrings(small), BigDocs: big})})
			return
		}
		var res []string
		if err := json.Unmarshal([]byte(out), &res); err != nil || len(res) != len(qs) {
			rn.w.Emit(gen.Case{Go: "search child output unreadable under " + e, Key: "e2e-child-output", Class: "e2e"})
			return
		}
		results[e] = res
	}
	base := results["unset"]
	loneChecks := 0
	for i, q := range qs {
		goV, key := "", ""
		var d detail
		for _, e := range envSettings[1:] {
			if results[e][i] != base[i] {
				goV = fmt.Sprintf("results under %s=%s differ from unset: %.300q vs %.300q", envName, e, results[e][i], base[i])
				kind := explainE2E(q, docs)
				if strings.HasPrefix(results[e][i], "panic:") {
					kind = "panic"
				}
				seq := []qspec{q}
				if kind == "unexplained" {
					// keep the whole sequence up to this query in the replay: the cause may lie in an earlier search
					seq = append([]qspec(nil), qs[:i+1]...)
				}
				if kind == "unexplained" && loneChecks < 6 {
					// does the same query, run alone in a fresh process under the same setting, agree with the baseline?
					// then the difference depends on the searches that ran before it in this process
					loneChecks++
					ev := e
					if lone, err := runLone(sf.Name(), q, &ev); err == nil && lone == base[i] {
						kind = "depends-on-earlier-searches"
					}
				}
				key = "e2e-threshold-changes-results:" + kind
				d = detail{Env: e, Queries: seq, Docs: docStrings(small), BigDocs: big}
				break
			}
		}
		if goV == "" {
			d = detail{Queries: []qspec{q}}
		}
		cl := "e2e-nomatch"
		if base[i] != "" && !strings.HasPrefix(base[i], "panic") && base[i] != "query-error" {
			cl = "e2e-match"
		}
		rn.w.Emit(gen.Case{Go: goV, Key: key, Class: cl, Nontrivial: cl == "e2e-match", Detail: gen.Detail(d)})
	}
}

// explainE2E classifies an end-to-end difference by the engine disagreement (if any) the query's compiled pattern shows
// on the documents themselves; "unexplained" if the engines agree on every document.
func explainE2E(q qspec, docs [][]byte) string {
	text := q.Pattern
	if q.ViaParser {
		if r, err := syntax.Parse(text, query.VerifRegexpFlags); err == nil {
			text = verifhooks.RegexpString(query.OptimizeRegexp(r, query.VerifRegexpFlags))
		}
	}
	compiled, ok := compiledFor(text, q.CaseSensitive)
	if !ok {
		return "unexplained"
	}
	g, err1 := grafana.Compile(compiled)
	r2, err2 := re2.Compile(compiled)
	if err1 != nil || err2 != nil {
		return "compile"
	}
	for _, d := range docs {
		sg, sr := g.FindAllIndex(d, -1), r2.FindAllIndex(d, -1)
		if !eqSpans(sg, sr) {
			return diffClass(compiled, d, sg, sr)
		}
	}
	// newMatchTree may evaluate a literal sub-expression of fewer than 3 runes with its own regexp (newSubstringMatchTree →
	// newRegexpMatchTree): try every literal of the tree on its own, as that code compiles it
	if t, err := syntax.Parse(text, query.VerifRegexpFlags); err == nil {
		var lits []*syntax.Regexp
		var walk func(re *syntax.Regexp)
		walk = func(re *syntax.Regexp) {
			if re.Op == syntax.OpLiteral {
				lits = append(lits, re)
			}
			for _, s := range re.Sub {
				walk(s)
			}
		}
		walk(t)
		for _, l := range lits {
			p := verifhooks.RegexpString(&syntax.Regexp{Op: syntax.OpLiteral, Rune: l.Rune})
			if !q.CaseSensitive || l.Flags&syntax.FoldCase != 0 {
				p = "(?i)" + p
			}
			g, err1 := grafana.Compile(p)
			r2, err2 := re2.Compile(p)
			if err1 != nil || err2 != nil {
				continue
			}
			for _, d := range docs {
				sg, sr := g.FindAllIndex(d, -1), r2.FindAllIndex(d, -1)
				if !eqSpans(sg, sr) {
					return diffClass(p, d, sg, sr)
				}
			}
		}
	}
	// the engines agree on every document: does the wrapper itself return something else than the engine it selects?
	for _, t := range []int64{0, 1, 64} {
		verifhooks.HybridSetThreshold(t)
		h, err := verifhooks.HybridCompile(compiled)
		verifhooks.HybridSetThreshold(-1)
		if err != nil {
			return "hybrid-compile-error"
		}
		for _, d := range docs {
			verifhooks.HybridSetThreshold(t)
			sh := h.FindAllIndex(d, -1)
			verifhooks.HybridSetThreshold(-1)
			if !eqSpans(sh, g.FindAllIndex(d, -1)) {
				return "hybrid-wrapper"
			}
		}
	}
	return "unexplained"
}

// runLone searches one query in a fresh child process.
func runLone(shard string, q qspec, envVal *string) (string, error) {
	qf, err := os.CreateTemp(filepath.Dir(shard), "c28-lone-*.json")
	if err != nil {
		return "", err
	}
	defer os.Remove(qf.Name())
	raw, _ := json.Marshal([]qspec{q})
	qf.Write(raw)
	qf.Close()
	out, err := runChild("search", envVal, shard, qf.Name())
	if err != nil {
		return "", err
	}
	var res []string
	if err := json.Unmarshal([]byte(out), &res); err != nil || len(res) != 1 {
		return "", fmt.Errorf("unreadable")
	}
	return res[0], nil
}

func docStrings(docs [][]byte) []string {
	var out []string
	for _, d := range docs {
		out = append(out, string(d))
	}
	return out
}

func longSubject(r *gen.Rand, hints []string, size int) []byte {
	var b []byte
	for len(b) < size {
		b = append(b, gen.Subject(r, hints, 30)...)
		if r.Chance(1, 3) {
			b = append(b, '\n')
		}
	}
	return b
}

func main() {
	if mode := os.Getenv("C28_CHILD"); mode != "" {
		childMain(mode)
		return
	}
	f := gen.ParseFlags()
	w := gen.NewWriter(f.Out)
	defer w.Close()
	rn := &runner{w: w}

	replayOne := func(path string) {
		raw, err := os.ReadFile(path)
		if err != nil {
			panic(err)
		}
		var rp struct {
			Case struct {
				Detail detail `json:"detail"`
			} `json:"case"`
			Detail detail `json:"detail"`
		}
		if err := json.Unmarshal(raw, &rp); err != nil {
			panic(err)
		}
		d := rp.Case.Detail
		if d.Pattern == "" && len(d.Queries) == 0 && d.Spec == nil {
			d = rp.Detail
		}
		if d.Spec != nil {
			rn.wrapperCase(d.Compiled, *d.Spec, nil, nil, []int{-1, 3})
			return
		}
		if len(d.Queries) > 0 && (len(d.Docs) > 0 || len(d.BigDocs) > 0) {
			var docs [][]byte
			for _, s := range d.Docs {
				docs = append(docs, []byte(s))
			}
			rn.endToEnd(docs, d.Queries, d.BigDocs...)
		}
		if d.Pattern != "" {
			cs := !strings.HasPrefix(d.Compiled, "(?i)")
			rn.enginePair(d.Pattern, cs, [][]byte{[]byte(d.Subject)})
		}
	}
	if f.Replay != "" {
		replayOne(f.Replay)
		return
	}
	if f.Corpus != "" {
		files, _ := filepath.Glob(filepath.Join(f.Corpus, "*.json"))
		sort.Strings(files)
		for _, p := range files {
			replayOne(p)
		}
	}

	r := gen.NewRand(f.Seed)
	t0 := time.Now()
	rn.thresholdParsing(f.Tier != "thorough")
	rn.dispatch(r.Fork(), f.N(120, 2000))
	rn.matchTreeSequence(r.Fork(), f.N(250, 4000))
	rn.wrapper(r.Fork(), f.Tier == "thorough")
	fmt.Fprintf(os.Stderr, "wrapper sweep %.1fs\n", time.Since(t0).Seconds())

	fmt.Fprintf(os.Stderr, "thr+disp %.1fs\n", time.Since(t0).Seconds())
	g := &gen.PatGen{R: r.Fork()}
	n := f.N(1000, 30000)
	var e2eQs []qspec
	var e2eHints []string
	for i := 0; i < n; i++ {
		g.NoClass = i%4 != 0
		text := g.Pattern()
		hints := append([]string(nil), g.Hints...)
		cs := r.Chance(2, 3)
		subjects := [][]byte{nil}
		for k := 0; k < 3; k++ {
			subjects = append(subjects, gen.Subject(r, hints, 14))
		}
		if i%10 == 0 {
			subjects = append(subjects, longSubject(r, hints, gen.Pick(r, []int{63, 64, 65, 300, 5000})))
		}
		rn.enginePair(text, cs, subjects)
		if i%7 == 0 && len(e2eQs) < f.N(70, 900) {
			q := qspec{Pattern: text, CaseSensitive: cs, FileName: r.Chance(1, 8), ViaParser: r.Bool()}
			e2eQs = append(e2eQs, q)
			// the same regexp text again with other settings, in the same process: anything a search leaves behind for later
			// searches (memoised compilations, pooled state) must not leak from one reading of the text to another
			tw := q
			tw.CaseSensitive = !q.CaseSensitive
			e2eQs = append(e2eQs, tw)
			if r.Chance(1, 3) {
				tw2 := q
				tw2.FileName = !q.FileName
				e2eQs = append(e2eQs, tw2, q)
			}
			e2eHints = append(e2eHints, hints...)
		}
	}
	fmt.Fprintf(os.Stderr, "engine pairs %.1fs\n", time.Since(t0).Seconds())
	// end-to-end: documents of sizes around the thresholds used (0, 1, 63–65 bytes, some KB)
	rounds := f.N(1, 6)
	per := (len(e2eQs) + rounds - 1) / rounds
	for k := 0; k < rounds && k*per < len(e2eQs); k++ {
		var docs [][]byte
		for _, size := range []int{1, 2, 40, 63, 64, 65, 200, 3000, 20, 64, 100} {
			d := longSubject(r, e2eHints, size)
			if size <= 2 {
				d = []byte(gen.Pick(r, []string{"a", "x", "é", "K"}))
			}
			docs = append(docs, bytes.ReplaceAll(d, []byte{0}, []byte{' '}))
		}
		hi := min((k+1)*per, len(e2eQs))
		rn.endToEnd(docs, e2eQs[k*per:hi])
	}
	// one more shard with documents above 1 MiB and multi-line / whole-text queries
	{
		var docs [][]byte
		for _, size := range []int{30, 64, 700} {
			docs = append(docs, bytes.ReplaceAll(longSubject(r, e2eHints, size), []byte{0}, []byte{' '}))
		}
		qs := append([]qspec(nil), bigDocQueries...)
		rn.endToEnd(docs, qs, bigDocSpec(r, f.Tier == "thorough")...)
	}
	fmt.Fprintf(os.Stderr, "e2e %.1fs\n", time.Since(t0).Seconds())
	_ = strconv.Itoa
}
