package main

import (
	"context"
	"fmt"
	"os"
	"path/filepath"
	"sort"

	"github.com/sourcegraph/zoekt"
	"github.com/sourcegraph/zoekt/index"
	"github.com/sourcegraph/zoekt/query"
)

// searcherFor writes the builder's shard to a temporary file and opens it with the real shard reader.
func searcherFor(b *index.ShardBuilder) zoekt.Searcher {
	dir := os.Getenv("VERIF_WORK")
	if dir == "" {
		dir = os.TempDir()
	}
	f, err := os.CreateTemp(dir, "c28-*.zoekt")
	if err != nil {
		panic(err)
	}
	name := f.Name()
	if err := b.Write(f); err != nil {
		panic(err)
	}
	f.Close()
	rf, err := os.Open(name)
	if err != nil {
		panic(err)
	}
	inf, err := index.NewIndexFile(rf)
	if err != nil {
		panic(err)
	}
	s, err := index.NewSearcher(inf)
	if err != nil {
		panic(err)
	}
	os.Remove(filepath.Clean(name)) // the open descriptor / mapping keeps the data
	return s
}

// searchRanges runs q and returns, per file name, the byte ranges of all content matches in order.
func searchRanges(s zoekt.Searcher, q query.Q) (map[string][][]int, error) {
	res, err := s.Search(context.Background(), q, &zoekt.SearchOptions{ChunkMatches: true, Whole: false})
	if err != nil {
		return nil, err
	}
	if res.Stats.Crashes > 0 {
		return nil, fmt.Errorf("shard crashed")
	}
	out := map[string][][]int{}
	for _, fm := range res.Files {
		var rs [][]int
		for _, cm := range fm.ChunkMatches {
			if cm.FileName {
				continue
			}
			for _, r := range cm.Ranges {
				rs = append(rs, []int{int(r.Start.ByteOffset), int(r.End.ByteOffset)})
			}
		}
		sort.Slice(rs, func(i, j int) bool { return rs[i][0] < rs[j][0] || rs[i][0] == rs[j][0] && rs[i][1] < rs[j][1] })
		out[fm.FileName] = rs
	}
	return out, nil
}
