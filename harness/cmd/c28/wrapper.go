package main

// The wrapper itself, at every input size: hybridre2.(*Regexp).FindAllIndex must return exactly what the engine it selects
// returns for the same call (model: C28.hybridSelect) — for inputs from 0 bytes to several MiB, around every power of two
// (any chunking, buffering or size-dependent shortcut inside the wrapper has a boundary somewhere), with subjects in which
// *every* line break lies inside a match, single-line subjects of the same sizes, multi-byte runes everywhere, patterns
// anchored at text start/end, and with a match limit n. The property-level oracle is applied to the same calls: the result
// under every threshold must be the same.

import (
	"bytes"
	"crypto/sha1"
	"encoding/hex"
	"fmt"
	"strings"
	"unicode/utf8"

	grafana "github.com/grafana/regexp"
	"github.com/sourcegraph/zoekt/verifhooks"
	re2 "github.com/wasilibs/go-re2"

	"verifharness/gen"
)

// subjSpec is a reproducible recipe for a (possibly multi-MiB) subject; replay files store the recipe, not the text.
type subjSpec struct {
	Kind string `json:"kind"` // multiline | longline | mixed
	Size int    `json:"size"` // exact byte length
	Seed uint64 `json:"seed"`
}

// buildSubject: valid UTF-8 of exactly spec.Size bytes.
func buildSubject(spec subjSpec) []byte {
	r := gen.NewRand(spec.Seed)
	var b bytes.Buffer
	b.Grow(spec.Size + 64)
	i := 0
	for b.Len() < spec.Size {
		switch spec.Kind {
		case "multiline":
			// Go-looking text: multi-line call statements between ordinary lines, blank lines, multi-byte comments
			switch r.Intn(5) {
			case 0, 1:
				fmt.Fprintf(&b, "\tresult, err := client.call(\n\t\tctx, // é %d\n\t\targ%d,\n\t)\n", i, i%7)
			case 2:
				fmt.Fprintf(&b, "\tlog.Printf(\"step %07d done\", i) // 日本語 padding\n", i)
			case 3:
				b.WriteString("\n")
			default:
				fmt.Fprintf(&b, "x%d := foo(%d)\n", i, i)
			}
		case "grid":
			// ordinary 64-byte lines; at every multiple of 64 KiB a multi-line call statement whose first line ends exactly on
			// the grid offset (any block/buffer size that is a multiple of 64 KiB cuts such a statement in two); few matches
			const grid = 1 << 16
			open := "\tresult, err := client.call(\n"
			next := (b.Len()/grid + 1) * grid
			if room := next - b.Len() - len(open); room >= 0 && room < 64+len(open) {
				if room > 0 {
					b.WriteString(strings.Repeat("/", room-1) + "\n")
				}
				b.WriteString(open)
				fmt.Fprintf(&b, "\t\tctx, // é %d\n\t\targ%d,\n\t)\n", i, i%7)
			} else {
				l := fmt.Sprintf("\tlog.Printf(\"step %07d done\", i) // 日本語 padding padding", i)
				for len(l) < 63 {
					l += "."
				}
				b.WriteString(l[:61] + "..\n")
			}
		case "longline":
			// one enormous line (minified code): no newline at all
			b.WriteString(gen.Pick(r, []string{"αβγ ", "xyz=1;", "foo(bar)", "日本", "a", "call(ctx,arg)"}))
		default: // mixed
			b.Write(gen.Subject(r, []string{"call(", "ctx", "foo", "bar", "ſtop"}, 20))
			if r.Chance(1, 3) {
				b.WriteByte('\n')
			}
		}
		i++
	}
	out := b.Bytes()[:spec.Size]
	// a rune cut by the truncation: overwrite its bytes (keeps the exact size and valid UTF-8)
	for k := 1; k <= 4 && k <= len(out); k++ {
		if utf8.RuneStart(out[len(out)-k]) {
			if !utf8.FullRune(out[len(out)-k:]) {
				for j := len(out) - k; j < len(out); j++ {
					out[j] = '.'
				}
			}
			break
		}
	}
	return out
}

func digest(spans [][]int) string {
	if len(spans) == 0 {
		return "-"
	}
	if len(spans) <= 12 {
		return gen.SpansString(spans)
	}
	h := sha1.New()
	for _, s := range spans {
		fmt.Fprintf(h, "%d:%d,", s[0], s[1])
	}
	return fmt.Sprintf("n=%d:%s", len(spans), hex.EncodeToString(h.Sum(nil))[:16])
}

func firstDiff(a, b [][]int) string {
	for i := 0; i < len(a) || i < len(b); i++ {
		var x, y []int
		if i < len(a) {
			x = a[i]
		}
		if i < len(b) {
			y = b[i]
		}
		if len(x) != len(y) || (len(x) == 2 && (x[0] != y[0] || x[1] != y[1])) {
			return fmt.Sprintf("match #%d: %v vs %v (%d vs %d matches in all)", i, x, y, len(a), len(b))
		}
	}
	return "none"
}

// patterns for the wrapper cases: as zoekt compiles them (printed form); none uses (?i) or \B (the engines' known
// disagreements are the business of the engine-pair cases).
var wrapperPatterns = map[string][]string{
	"multiline": {`\S\n\s*\S`, `call\(\n\s+ctx`, `(?s:ctx,.*?\))`, `\A\s*\S+`, `\S+\s*\z`, `(?m:^)(?m:$)`, `[^\n]+`, `é`},
	"grid":      {`call\(\n\s+ctx`, `\(\n\s+\S+, // é`},
	"longline":  {`[^\n]+`, `(?:[a-z]+\(|日)`, `\S+ `, `\A.`, `.\z`},
	"mixed":     {`foo|ctx`, `\s+`, `(?s:call\(.*?ctx)`, `(?m:^)\S+`},
}

func wrapperThresholds(size int) []int64 {
	ts := []int64{-1, 0, int64(size), int64(size) + 1, 64, 1 << 20}
	if size > 1<<16 {
		// the dispatch boundary itself is the business of the `disp` cases; large inputs: one call per engine path
		ts = []int64{-1, 0}
	}
	var out []int64
	seen := map[int64]bool{}
	for _, t := range ts {
		if !seen[t] {
			seen[t] = true
			out = append(out, t)
		}
	}
	return out
}

type compiledPair struct {
	g  *grafana.Regexp
	r2 *re2.Regexp
}

func (rn *runner) wrapperCase(pattern string, spec subjSpec, subj []byte, cp *compiledPair, limits []int) {
	if subj == nil {
		subj = buildSubject(spec)
	}
	if cp == nil {
		g, err1 := grafana.Compile(pattern)
		r, err2 := re2.Compile(pattern)
		if err1 != nil || err2 != nil {
			rn.w.Count("wrapper-pattern-does-not-compile", 1)
			return
		}
		cp = &compiledPair{g, r}
	}
	sizeClass := "≤64KiB"
	switch {
	case spec.Size > 2<<20:
		sizeClass = ">2MiB"
	case spec.Size > 1<<20:
		sizeClass = "1-2MiB"
	case spec.Size > 1<<16:
		sizeClass = "64KiB-1MiB"
	}
	for _, n := range limits {
		sg := cp.g.FindAllIndex(subj, n)
		sr := cp.r2.FindAllIndex(subj, n)
		gd, rd := digest(sg), digest(sr)
		var base [][]int
		for ti, t := range wrapperThresholds(len(subj)) {
			verifhooks.HybridSetThreshold(t)
			h, err := verifhooks.HybridCompile(pattern)
			if err != nil {
				rn.w.Emit(gen.Case{Go: "hybridre2.Compile rejects a pattern both engines accept: " + err.Error(), Key: "hybrid-compile-error",
					Detail: gen.Detail(detail{Compiled: pattern, Spec: &spec})})
				continue
			}
			sh := h.FindAllIndex(subj, n)
			goV, key := "", ""
			if ti == 0 {
				base = sh
			} else if !eqSpans(base, sh) {
				goV = fmt.Sprintf("hybridre2.FindAllIndex(%d bytes, n=%d) under threshold %d differs from threshold -1: %s", len(subj), n, t, firstDiff(base, sh))
				if eqSpans(sg, sr) {
					// the engines themselves agree on this input: the wrapper changed the result
					key = "hybrid-wrapper-changes-results"
				} else {
					key = "engines-differ:" + diffClass(pattern, subj, sg, sr)
				}
			}
			d := detail{Compiled: pattern, Spec: &spec, Note: fmt.Sprintf("threshold=%d n=%d", t, n)}
			rn.w.Emit(gen.Case{In: fmt.Sprintf("hyb %d %d g=%s r=%s", t, len(subj), gd, rd), Impl: digest(sh), Go: goV, Key: key,
				Class: "wrapper-" + spec.Kind + "-" + sizeClass, Nontrivial: len(sg) > 0, Detail: gen.Detail(d)})
		}
	}
	verifhooks.HybridSetThreshold(-1)
}

// wrapper runs the size sweep.
func (rn *runner) wrapper(r *gen.Rand, thorough bool) {
	sizes := []int{0, 1, 100, 4097, 1<<16 + 1, 1<<20 - 1, 1<<20 + 1, 3 << 19, 3<<20 + 11}
	if thorough {
		sizes = append(sizes, 1<<20, 2<<20+7)
	}
	if thorough {
		for k := 10; k <= 22; k++ {
			sizes = append(sizes, 1<<k-1, 1<<k, 1<<k+1)
		}
		sizes = append(sizes, 5<<20+3)
		for i := 0; i < 12; i++ {
			sizes = append(sizes, r.Range(1<<19, 5<<20))
		}
	}
	kinds := []string{"multiline", "grid", "longline", "mixed"}
	compiled := map[string]*compiledPair{}
	for si, size := range sizes {
		for ki, kind := range kinds {
			// quick tier: every size with the multi-line subjects, the other kinds on alternating sizes
			if !thorough && kind != "multiline" && kind != "grid" && (si+ki)%3 != 0 {
				continue
			}
			spec := subjSpec{Kind: kind, Size: size, Seed: r.U64() % 1000}
			subj := buildSubject(spec)
			pats := wrapperPatterns[kind]
			for pi, p := range pats {
				if !thorough && size > 1<<16 && pi >= 3 && (si+pi)%2 == 0 {
					continue
				}
				cp := compiled[p]
				if cp == nil {
					cp = &compiledPair{grafana.MustCompile(p), re2.MustCompile(p)}
					compiled[p] = cp
				}
				limits := []int{-1}
				if pi == 0 {
					limits = append(limits, 3)
				}
				rn.wrapperCase(p, spec, subj, cp, limits)
			}
		}
	}
}

// bigDoc: a document for the end-to-end shard, larger than 1 MiB (zoekt indexes files up to 2 MiB by default).
func bigDocSpec(r *gen.Rand, thorough bool) []subjSpec {
	specs := []subjSpec{{Kind: "grid", Size: 5<<18 + r.Intn(4096), Seed: r.U64() % 1000}} // ≈1.25 MiB
	if thorough {
		specs = append(specs, subjSpec{Kind: "grid", Size: 2<<20 - r.Intn(4096) - 1, Seed: r.U64() % 1000},
			subjSpec{Kind: "multiline", Size: 1<<20 + 1<<16 + r.Intn(4096), Seed: r.U64() % 1000})
	}
	return specs
}

// multi-line / whole-text queries for the big documents
var bigDocQueries = []qspec{
	{Pattern: `call\(\n\s+ctx`, CaseSensitive: true},
	{Pattern: `(?s)call\(.*?\)`, CaseSensitive: true, ViaParser: true},
	{Pattern: `arg\d,\n\s*\)`, CaseSensitive: false},
	{Pattern: `\)\n\s*\z`, CaseSensitive: true},
	{Pattern: `\(\n\s+\S+, // é`, CaseSensitive: true},
}

var _ = strings.TrimSpace
