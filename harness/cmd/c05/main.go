// C05 harness: the real query rewrites (query.Simplify, evalConstants, flatten, Map(ExpandFileContent),
// stripCaseScopes, indexData.simplify) against the Lean model, on generated trees and repository metadata sets;
// and end to end: real shards built through the public builder API, searched with index.NewSearcher, compared with
// the reference evaluation of the *original* tree (Lean `eval` over hit tables computed by naive scanning).
package main

import (
	"encoding/json"
	"fmt"
	"os"
	"path/filepath"
	"sort"
	"strings"

	"github.com/RoaringBitmap/roaring/v2"
	"github.com/sourcegraph/zoekt"
	"github.com/sourcegraph/zoekt/index"
	"github.com/sourcegraph/zoekt/query"

	"verifharness/gen"
	"verifharness/q1q"
)

// detail is what a replay / corpus file stores for one case.
type detail struct {
	Op    string       `json:"op"`
	Ctx   []*q1q.Shard `json:"ctx"`
	Shard int          `json:"shard,omitempty"`
	Q     string       `json:"q"`              // wire encoding of the query tree
	Real  bool         `json:"real,omitempty"` // build real shards (ops `search`, `ss`)
	Note  string       `json:"note,omitempty"`
}

func nodes(q query.Q) int {
	n := 1
	if c, ok := query.VerifCaseScopeChild(q); ok {
		return 1 + nodes(c)
	}
	switch s := q.(type) {
	case *query.And:
		for _, c := range s.Children {
			n += nodes(c)
		}
	case *query.Or:
		for _, c := range s.Children {
			n += nodes(c)
		}
	case *query.Not:
		n += nodes(s.Child)
	case *query.Type:
		n += nodes(s.Child)
	case *query.Boost:
		n += nodes(s.Child)
	}
	return n
}

func indexMeta(s *q1q.Shard) zoekt.IndexMetadata {
	md := zoekt.IndexMetadata{IndexFeatureVersion: s.FeatureVersion, LanguageMap: map[string]uint16{}}
	for i, l := range s.Langs {
		md.LanguageMap[l] = uint16(i)
	}
	return md
}

func zrepos(s *q1q.Shard) []zoekt.Repository {
	out := make([]zoekt.Repository, 0, len(s.Repos))
	for _, r := range s.Repos {
		if got, want := int(index.VerifEncodeRawConfig(r.RawConfig)), q1q.RawMask(r.RawConfig); got != want {
			panic(fmt.Sprintf("encodeRawConfig(%v) = %d, harness computes %d", r.RawConfig, got, want))
		}
		out = append(out, q1q.ZRepo(r))
	}
	return out
}

type runner struct {
	w    *gen.Writer
	work string
	n    int
}

// abstract runs one rewrite on the real code and emits the case.
func (rn *runner) abstract(d detail) {
	q, err := q1q.DecQ(d.Q)
	if err != nil {
		panic(fmt.Sprintf("bad query %q: %v", d.Q, err))
	}
	u := q1q.UniverseOf(d.Ctx)
	in := d.Op + " " + q1q.EncCtx(d.Ctx)
	if d.Op == "ss" {
		in += fmt.Sprint(" ", d.Shard)
	}
	in += " " + u.EncQ(q)
	var impl string
	var out query.Q
	func() {
		defer func() {
			if r := recover(); r != nil {
				impl = fmt.Sprintf("panic:%v", r)
				impl = strings.NewReplacer("\t", " ", "\n", " ").Replace(impl)
			}
		}()
		switch d.Op {
		case "ec":
			out = query.VerifEvalConstants(q)
		case "fl":
			var ch bool
			out, ch = query.VerifFlatten(q)
			impl = map[bool]string{false: "0 ", true: "1 "}[ch]
		case "simp":
			out = query.Simplify(q)
		case "exp":
			out = query.Map(q, query.ExpandFileContent)
		case "strip":
			out = query.VerifStripCaseScopes(q)
		case "ss":
			s := d.Ctx[d.Shard]
			out = index.VerifSimplifyRepos(zrepos(s), indexMeta(s), q)
		default:
			panic("unknown op " + d.Op)
		}
		impl += u.EncQ(out)
	}()
	changed := out != nil && u.EncQ(out) != u.EncQ(q)
	class := d.Op + ":same"
	if changed {
		class = d.Op + ":rewritten"
	}
	if _, ok := out.(*query.Const); ok {
		class = d.Op + ":const"
	}
	rn.w.Emit(gen.Case{In: in, Impl: impl, Class: class, Nontrivial: changed && nodes(q) >= 3, Detail: gen.Detail(d)})
}

// real builds the real shard of d.Ctx[d.Shard] and runs `search` (real index.Searcher vs reference evaluation of
// the original tree) and `ss` (indexData.simplify of the loaded shard) for every query in qs.
func (rn *runner) real(ctx []*q1q.Shard, si int, qs []query.Q, note string) {
	rn.n++
	dir := filepath.Join(rn.work, fmt.Sprintf("c05-shard-%d", rn.n))
	if err := os.MkdirAll(dir, 0o755); err != nil {
		panic(err)
	}
	defer os.RemoveAll(dir)
	path, actual, err := q1q.BuildShardFile(dir, "s", ctx[si])
	if err != nil {
		panic(fmt.Sprintf("build shard: %v", err))
	}
	searcher, err := q1q.OpenShard(path)
	if err != nil {
		panic(fmt.Sprintf("open shard: %v", err))
	}
	defer searcher.Close()
	actx := append([]*q1q.Shard(nil), ctx...)
	actx[si] = actual
	for _, q := range qs {
		q1q.Hits(actx, q)
		u := q1q.UniverseOf(actx)
		wire := u.EncQ(q)
		// search
		det := detail{Op: "search", Ctx: ctx, Shard: si, Q: wire, Real: true, Note: note}
		in := fmt.Sprintf("search %s %d %s", q1q.EncCtx(actx), si, wire)
		files, err := q1q.SearchFiles(searcher, q, nil)
		var impl string
		if err != nil {
			impl = "error:" + strings.NewReplacer("\t", " ", "\n", " ").Replace(err.Error())
		} else if pos, err := q1q.DocPositions(actual, files); err != nil {
			impl = "error:" + err.Error()
		} else {
			impl = gen.NatList(pos)
		}
		class := "search:some"
		if impl == "-" {
			class = "search:none"
		} else if strings.Count(impl, ",")+1 == liveDocs(actual) {
			class = "search:all"
		}
		rn.w.Emit(gen.Case{In: in, Impl: impl, Class: class, Nontrivial: class == "search:some", Detail: gen.Detail(det)})
		// simplify of the loaded shard
		det.Op = "ss"
		in = fmt.Sprintf("ss %s %d %s", q1q.EncCtx(actx), si, wire)
		out, ok := index.VerifSimplify(searcher, q)
		if !ok {
			panic("not an indexData")
		}
		rn.w.Emit(gen.Case{In: in, Impl: u.EncQ(out), Class: "ss-real", Nontrivial: u.EncQ(out) != wire, Detail: gen.Detail(det)})
	}
}

func liveDocs(s *q1q.Shard) int {
	n := 0
	for _, d := range s.Docs {
		if !s.Repos[d.Repo].Tombstone {
			n++
		}
	}
	return n
}

func (rn *runner) replay(d detail) {
	if d.Real {
		q, err := q1q.DecQ(d.Q)
		if err != nil {
			panic(err)
		}
		rn.real(d.Ctx, d.Shard, []query.Q{q}, d.Note)
		return
	}
	rn.abstract(d)
}

func loadDetails(path string) []detail {
	b, err := os.ReadFile(path)
	if err != nil {
		panic(err)
	}
	var wrap struct {
		Case struct {
			Detail *detail `json:"detail"`
		} `json:"case"`
		FirstDisagreement struct {
			Detail *detail `json:"detail"`
		} `json:"first_disagreement"`
		Cases []detail `json:"cases"`
	}
	if err := json.Unmarshal(b, &wrap); err != nil {
		panic(fmt.Sprintf("%s: %v", path, err))
	}
	var out []detail
	if wrap.Case.Detail != nil {
		out = append(out, *wrap.Case.Detail)
	}
	if wrap.FirstDisagreement.Detail != nil {
		out = append(out, *wrap.FirstDisagreement.Detail)
	}
	out = append(out, wrap.Cases...)
	if len(out) == 0 {
		var d detail
		if err := json.Unmarshal(b, &d); err == nil && d.Op != "" {
			out = append(out, d)
		}
	}
	return out
}

func main() {
	f := gen.ParseFlags()
	w := gen.NewWriter(f.Out)
	defer w.Close()
	work := os.Getenv("VERIF_WORK")
	if work == "" {
		work = os.TempDir()
	}
	rn := &runner{w: w, work: work}

	if f.Replay != "" {
		for _, d := range loadDetails(f.Replay) {
			rn.replay(d)
		}
		return
	}
	if f.Corpus != "" {
		files, _ := filepath.Glob(filepath.Join(f.Corpus, "*.json"))
		sort.Strings(files)
		for _, p := range files {
			for _, d := range loadDetails(p) {
				rn.replay(d)
			}
		}
	}

	r := gen.NewRand(f.Seed)
	ids := []uint32{1, 2, 3, 4, 5, 6, 7}
	sg := &q1q.SGen{R: r, IDs: ids}

	// ---- abstract rewrites ----
	nAbs := f.N(5000, 120000)
	ops := []string{"ec", "fl", "simp", "simp", "exp", "strip", "ss", "ss", "ss"}
	for i := 0; i < nAbs; i++ {
		op := ops[i%len(ops)]
		qg := &q1q.QGen{R: r, IDs: ids, TypeKinds: []uint8{0, 1, 2}, NoCaseScope: op != "strip"}
		ctx := sg.Corpus(3, true)
		q := qg.Tree(r.Range(1, 4))
		if op == "ss" && r.Chance(1, 3) {
			// repository filters at the top, as Sourcegraph sends them
			q = &query.And{Children: []query.Q{qg.RepoFilter(), qg.Tree(2)}}
		}
		q1q.RandomHits(r, ctx, q)
		u := q1q.UniverseOf(ctx)
		rn.abstract(detail{Op: op, Ctx: ctx, Shard: r.Intn(len(ctx)), Q: u.EncQ(q)})
	}

	// ---- real shards ----
	nShards := f.N(40, 500)
	for i := 0; i < nShards; i++ {
		names := append([]string(nil), q1q.RepoNames...)
		gen.Shuffle(r, names)
		sids := append([]uint32(nil), ids...)
		gen.Shuffle(r, sids)
		nr := 1
		if r.Chance(1, 2) {
			nr = r.Range(2, 3)
		}
		s := q1q.RealShard(r, sg, names[:nr], sids[:nr], true, "")
		qg := &q1q.QGen{R: r, IDs: ids, TypeKinds: []uint8{1}, NoCaseScope: true, SafeSymbol: true}
		var qs []query.Q
		for k := 0; k < 12; k++ {
			q := qg.Tree(r.Range(1, 3))
			if r.Chance(1, 3) {
				q = &query.And{Children: []query.Q{qg.RepoFilter(), qg.Tree(2)}}
			}
			qs = append(qs, q)
		}
		// directed: RepoSet with false values over this shard's names (newMatchTree, indexData.simplify and
		// selectRepoSet must read the set the same way), and repository filters that hold for all / some / none
		if len(s.Repos) >= 2 {
			set := map[string]bool{}
			for j, rp := range s.Repos {
				set[rp.Name] = j%2 == 1
			}
			qs = append(qs, &query.RepoSet{Set: set},
				&query.And{Children: []query.Q{&query.RepoSet{Set: set}, &query.Substring{Pattern: "fo"}}},
				&query.Not{Child: &query.RepoSet{Set: set}})
		}
		qs = append(qs, &query.RepoIDs{Repos: roaring.BitmapOf(s.Repos[0].ID)},
			&query.Or{Children: []query.Q{query.NewSingleBranchesRepos("HEAD", s.Repos[len(s.Repos)-1].ID), &query.Substring{Pattern: "zz", Content: true}}})
		rn.real([]*q1q.Shard{s}, 0, qs, "")
	}
}
