package main

// Pipeline cases: the whole path a build takes — parseSymbols (a ctags process answering over go-ctags' interactive
// JSON protocol) → tagsToSections.Convert → doc.Symbols → ShardBuilder.Add — instead of Convert alone. The ctags
// process is a stand-in (a python3 script) that answers each generate-tags request with the entries the harness
// prepared for that file name, so the Lean model sees exactly the entries the real code was given, and the content it
// judges against is the document's content as the builder will store it.

import (
	"encoding/json"
	"fmt"
	"os"
	"path/filepath"
	"strings"

	"github.com/sourcegraph/zoekt/index"

	"verifharness/gen"
)

const fakeCtags = `#!/usr/bin/env python3
import json, os, sys
tagdir = os.environ["VERIF_C37_TAGDIR"]
out = sys.stdout
out.write(json.dumps({"_type": "program", "name": "verif-fake-ctags", "version": "0"}) + "\n"); out.flush()
inp = sys.stdin.buffer
while True:
    line = inp.readline()
    if not line:
        break
    req = json.loads(line)
    size = int(req.get("size", 0))
    body = b""
    while len(body) < size:
        chunk = inp.read(size - len(body))
        if not chunk:
            break
        body += chunk
    p = os.path.join(tagdir, os.path.basename(req.get("filename", "")) + ".tags")
    if os.path.exists(p):
        with open(p) as f:
            out.write(f.read())
    out.write(json.dumps({"_type": "completed", "command": "generate-tags"}) + "\n"); out.flush()
`

type pipeDoc struct {
	name    string
	content []byte
	es      []entry
}

// pipelineCases runs n documents through the real pipeline in batches (one ctags process per batch, as a shard build does).
func pipelineCases(w *gen.Writer, r *gen.Rand, n int) {
	dir, err := os.MkdirTemp("", "c37pipe")
	if err != nil {
		panic(err)
	}
	defer os.RemoveAll(dir)
	bin := filepath.Join(dir, "universal-ctags")
	if err := os.WriteFile(bin, []byte(fakeCtags), 0o755); err != nil {
		panic(err)
	}
	os.Setenv("VERIF_C37_TAGDIR", dir)

	const batch = 100
	for done := 0; done < n; done += batch {
		var docs []*index.Document
		var metas []pipeDoc
		for i := 0; i < batch && done+i < n; i++ {
			content, es := genCase(r, false) // entry names valid UTF-8: they travel as JSON
			var valid []entry
			for _, e := range es {
				if validUTF8(e.Name) {
					valid = append(valid, e)
				}
			}
			es = valid
			// content classes that a pre-processing step between the document and Convert would disturb
			switch r.Intn(6) {
			case 0:
				content = append([]byte("\xef\xbb\xbf"), content...) // leading UTF-8 byte order mark
			case 1:
				content = append([]byte("\r\n"), content...)
			case 2:
				content = append(content, "\n\n"...)
			}
			for j := range es { // the entries were drawn for the unprefixed text: re-draw lines within range
				if es[j].Line > 0 {
					es[j].Line = 1 + (es[j].Line-1)%max(1, strings.Count(string(content), "\n")+1)
				}
			}
			if len(content) == 0 || len(es) == 0 {
				continue // parseSymbols skips empty documents; nothing to observe
			}
			name := fmt.Sprintf("f%06d.go", done+i)
			var sb strings.Builder
			for _, e := range es {
				b, _ := json.Marshal(map[string]any{"_type": "tag", "name": string(e.Name), "path": name, "line": e.Line, "kind": fmt.Sprint(e.Tag), "language": "Go"})
				sb.Write(b)
				sb.WriteByte('\n')
			}
			if err := os.WriteFile(filepath.Join(dir, name+".tags"), []byte(sb.String()), 0o644); err != nil {
				panic(err)
			}
			docs = append(docs, &index.Document{Name: name, Content: content, Language: "go"})
			metas = append(metas, pipeDoc{name, content, es})
		}
		if len(docs) == 0 {
			continue
		}
		perr := safeParseSymbols(docs, bin)
		for k, d := range docs {
			m := metas[k]
			var parts []string
			for _, e := range m.es {
				parts = append(parts, fmt.Sprintf("%d:%s:%d", e.Line, gen.Hex(e.Name), e.Tag))
			}
			in := fmt.Sprintf("conv %s %s", gen.Hex(m.content), strings.Join(parts, ";"))
			c := gen.Case{In: in, Class: "pipeline", Nontrivial: len(m.es) >= 2}
			if strings.HasPrefix(string(m.content), "\xef\xbb\xbf") {
				c.Class = "pipeline/leading-bom"
			}
			if perr != "" {
				c.Impl, c.Go, c.Key = "convert-error", "parseSymbols failed: "+perr, "pipeline-failed"
				w.Emit(c)
				continue
			}
			var ss, ts []string
			for _, s := range d.Symbols {
				ss = append(ss, fmt.Sprintf("%d:%d", s.Start, s.End))
			}
			for _, s := range d.SymbolsMetaData {
				ts = append(ts, s.Kind)
			}
			join := func(x []string) string {
				if len(x) == 0 {
					return "-"
				}
				return strings.Join(x, ",")
			}
			add := "ok"
			b := builder()
			if err := b.Add(*d); err != nil {
				add = "err"
				curBuilder = nil
			}
			c.Impl = fmt.Sprintf("secs=%s syms=%s add=%s", join(ss), join(ts), add)
			os.Remove(filepath.Join(dir, m.name+".tags"))
			w.Emit(c)
		}
	}
}

func safeParseSymbols(docs []*index.Document, bin string) (failed string) {
	defer func() {
		if r := recover(); r != nil {
			failed = fmt.Sprint("panic: ", r)
		}
	}()
	if err := index.VerifParseSymbols(docs, bin); err != nil {
		return err.Error()
	}
	return ""
}
