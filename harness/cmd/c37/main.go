// C37 harness: tagsToSections.Convert (real, with its reused buffer) then the real ShardBuilder.Add,
// against the Lean model of both.
package main

import (
	"bytes"
	"fmt"
	"strings"
	"unicode/utf8"

	goctags "github.com/sourcegraph/go-ctags"
	"github.com/sourcegraph/zoekt"
	"github.com/sourcegraph/zoekt/index"

	"verifharness/gen"
)

type entry struct {
	Line int
	Name []byte
	Tag  int
}

func runCase(conv func([]byte, []*goctags.Entry) ([]index.DocumentSection, []*zoekt.Symbol, error), content []byte, es []entry) (in, impl string) {
	var tags []*goctags.Entry
	var parts []string
	for _, e := range es {
		tags = append(tags, &goctags.Entry{Line: e.Line, Name: string(e.Name), Kind: fmt.Sprint(e.Tag)})
		parts = append(parts, fmt.Sprintf("%d:%s:%d", e.Line, gen.Hex(e.Name), e.Tag))
	}
	entries := "-"
	if len(parts) > 0 {
		entries = strings.Join(parts, ";")
	}
	in = fmt.Sprintf("conv %s %s", gen.Hex(content), entries)

	secs, syms, err, pan := safeConv(conv, content, tags)
	if pan != "" {
		return in, "convert-panic"
	}
	if err != nil {
		return in, "convert-error"
	}
	var ss, ts []string
	for _, s := range secs {
		ss = append(ss, fmt.Sprintf("%d:%d", s.Start, s.End))
	}
	for _, s := range syms {
		ts = append(ts, s.Kind)
	}
	join := func(x []string) string {
		if len(x) == 0 {
			return "-"
		}
		return strings.Join(x, ",")
	}
	// the real builder: must accept the document with the derived sections
	add := "ok"
	b := builder()
	secsCopy := append([]index.DocumentSection(nil), secs...)
	symsCopy := append([]*zoekt.Symbol(nil), syms...)
	if err := b.Add(index.Document{Name: "f", Content: content, Symbols: secsCopy, SymbolsMetaData: symsCopy}); err != nil {
		add = "err"
		curBuilder = nil // a failed Add may leave the builder half-updated
	} else {
		// sort.Sort must not have permuted the (already sorted) sections: metadata stays parallel
		for i := range secsCopy {
			if secsCopy[i] != secs[i] || symsCopy[i] != syms[i] {
				add = "err"
			}
		}
	}
	return in, fmt.Sprintf("secs=%s syms=%s add=%s", join(ss), join(ts), add)
}

// safeConv runs Convert and turns a Go panic into a value ("never failing the build" is part of the property).
func safeConv(conv func([]byte, []*goctags.Entry) ([]index.DocumentSection, []*zoekt.Symbol, error), content []byte, tags []*goctags.Entry) (secs []index.DocumentSection, syms []*zoekt.Symbol, err error, pan string) {
	defer func() {
		if r := recover(); r != nil {
			pan = fmt.Sprint(r)
		}
	}()
	secs, syms, err = conv(content, tags)
	return
}

var (
	curBuilder *index.ShardBuilder
	curUses    int
)

// builder returns a real ShardBuilder, renewed every 256 documents (allocating one per case is slow: the ASCII
// posting table alone is 16 MB).
func builder() *index.ShardBuilder {
	if curBuilder == nil || curUses >= 256 {
		b, err := index.NewShardBuilder(&zoekt.Repository{Name: "r"})
		if err != nil {
			panic(err)
		}
		curBuilder, curUses = b, 0
	}
	curUses++
	return curBuilder
}

func validUTF8(b []byte) bool { return utf8.Valid(b) }

func genCase(r *gen.Rand, malformed bool) ([]byte, []entry) {
	content := gen.Text(r, r.Range(0, 40), malformed)
	if bytes.IndexByte(content, 0) >= 0 {
		content = bytes.ReplaceAll(content, []byte{0}, []byte{' '})
	}
	lines := bytes.Split(content, []byte{'\n'})
	n := r.Range(0, 14)
	var es []entry
	for i := 0; i < n; i++ {
		var e entry
		e.Tag = i
		switch r.Intn(10) {
		case 0:
			e.Line = r.Range(-2, 0)
		case 1:
			e.Line = len(lines) + r.Range(0, 2)
		default:
			e.Line = r.Range(1, len(lines))
		}
		// name: usually a substring of the chosen line (so that it is found), cut on rune boundaries
		// (names reach Convert from encoding/json and are therefore valid UTF-8 — the property's hypothesis)
		var ln []byte
		if e.Line >= 1 && e.Line <= len(lines) {
			ln = lines[e.Line-1]
		}
		switch {
		case len(ln) > 0 && r.Chance(8, 10):
			a := r.Intn(len(ln))
			z := a + r.Range(0, min(6, len(ln)-a))
			nm := ln[a:z]
			// 1 in 12: leave the cut where it fell (possibly inside a rune) — outside the property's hypothesis,
			// used only to tie the model of the builder's rune-boundary check to the real Add
			for !r.Chance(1, 12) && len(nm) > 0 && !utf8.Valid(nm) { // trim to valid UTF-8
				if !utf8.RuneStart(nm[0]) || !utf8.FullRune(nm) {
					nm = nm[1:]
				} else {
					nm = nm[:len(nm)-1]
				}
			}
			e.Name = nm
		case r.Chance(1, 3):
			e.Name = nil // empty name
		default:
			e.Name = []byte(gen.Pick(r, []string{"foo", "zz", "a", "é", "main"}))
		}
		es = append(es, e)
	}
	return content, es
}

func main() {
	f := gen.ParseFlags()
	w := gen.NewWriter(f.Out)
	defer w.Close()
	r := gen.NewRand(f.Seed)
	conv := index.VerifTagsToSections() // one converter for the whole run: exercises nlsBuf reuse
	n := f.N(3000, 200000)
	pipelineCases(w, r.Fork(), f.N(400, 20000))
	for i := 0; i < n; i++ {
		content, es := genCase(r, i%6 == 5)
		in, impl := runCase(conv, content, es)
		class := "placed"
		if strings.Contains(impl, "secs=- ") {
			class = "none-placed"
		}
		if strings.HasSuffix(impl, "add=err") {
			class = "rejected-by-add(invalid-utf8-name)"
		}
		c := gen.Case{In: in, Impl: impl, Class: class, Nontrivial: class == "placed" && len(es) >= 2}
		if impl == "convert-panic" || impl == "convert-error" {
			// Convert must drop what it cannot place, never fail: a property violation whatever the model says
			c.Go, c.Key, c.Class = "Convert failed ("+impl+") instead of dropping the entry", impl, impl
		}
		w.Emit(c)
	}
}
