// C22 harness: display limits return the top of the ranked result.
//
//	hook level  — generated FileMatch lists through the real DisplayTruncator / limitSender (op "trunc") and the
//	              real collectSender (op "agg"), diffed against the Lean model; the Lean statement (checkDisplay)
//	              is evaluated on the implementation's output.
//	end to end  — real shards built with the real ShardBuilder, searched through the real shardedSearcher
//	              (Search and StreamSearch, 1–4 shards, line/chunk mode, 0–3 context lines, all display limits).
//	              The batches the shards really sent are also replayed through the model (ops "agg"/"trunc"), and an
//	              independent Go oracle recomputes the expected result from the unlimited result and the corpus text.
package main

import (
	"bytes"
	"context"
	"encoding/json"
	"fmt"
	"io"
	"log"
	"os"
	"path/filepath"
	"runtime"
	"sort"
	"strconv"
	"strings"
	"time"

	"github.com/sourcegraph/zoekt"
	"github.com/sourcegraph/zoekt/index"
	"github.com/sourcegraph/zoekt/search"

	"verifharness/gen"
)

// ---------- the model's view of a FileMatch ----------

type item struct{ ID, EndLine int }
type unit struct {
	ID, FirstLine int
	Content       []byte
	Items         []item
	Sym           []int
	SymNil        bool
	Bad           bool
}
type file struct {
	ID, Score, Ext int
	Units          []unit
}

var extNames = []string{"", ".go", ".py", ".rb", ".c", ".md", ".go.txt"}

func encItems(its []item) string {
	if len(its) == 0 {
		return "-"
	}
	p := make([]string, len(its))
	for i, it := range its {
		p[i] = fmt.Sprintf("%d.%d", it.ID, it.EndLine)
	}
	return strings.Join(p, "_")
}
func encSym(u unit) string {
	if u.SymNil {
		return "n"
	}
	if len(u.Sym) == 0 {
		return "-"
	}
	p := make([]string, len(u.Sym))
	for i, s := range u.Sym {
		p[i] = strconv.Itoa(s)
	}
	return strings.Join(p, "_")
}
func encUnit(u unit) string {
	bad := "0"
	if u.Bad {
		bad = "1"
	}
	return fmt.Sprintf("%d~%d~%s~%s~%s~%s", u.ID, u.FirstLine, gen.Hex(u.Content), encItems(u.Items), encSym(u), bad)
}
func encFile(f file) string {
	us := "-"
	if len(f.Units) > 0 {
		p := make([]string, len(f.Units))
		for i, u := range f.Units {
			p[i] = encUnit(u)
		}
		us = strings.Join(p, "+")
	}
	return fmt.Sprintf("%d/%d/%d/%s", f.ID, f.Score, f.Ext, us)
}
func encFiles(fs []file) string {
	if len(fs) == 0 {
		return "-"
	}
	p := make([]string, len(fs))
	for i, f := range fs {
		p[i] = encFile(f)
	}
	return strings.Join(p, ",")
}
func encBatches(bs [][]file) string {
	p := make([]string, len(bs))
	for i, b := range bs {
		p[i] = encFiles(b)
	}
	return strings.Join(p, "|")
}

// toFM / fromFM: the hook-level embedding of a model file into a real zoekt.FileMatch and back.
// id → RepositoryID, unit id → LineNumber / BestLineMatch, item id → Offset / Start.ByteOffset, sym id → Symbol.Sym.
func toFM(f file, chunk bool) zoekt.FileMatch {
	fm := zoekt.FileMatch{RepositoryID: uint32(f.ID), Score: float64(f.Score), FileName: fmt.Sprintf("dir.x/f%d%s", f.ID, extNames[f.Ext])}
	for _, u := range f.Units {
		if chunk {
			cm := zoekt.ChunkMatch{Content: append([]byte(nil), u.Content...), ContentStart: zoekt.Location{LineNumber: uint32(u.FirstLine), Column: 1},
				BestLineMatch: uint32(u.ID)}
			for _, it := range u.Items {
				cm.Ranges = append(cm.Ranges, zoekt.Range{Start: zoekt.Location{ByteOffset: uint32(it.ID)}, End: zoekt.Location{LineNumber: uint32(it.EndLine)}})
			}
			if !u.SymNil {
				cm.SymbolInfo = []*zoekt.Symbol{}
				for _, s := range u.Sym {
					cm.SymbolInfo = append(cm.SymbolInfo, &zoekt.Symbol{Sym: strconv.Itoa(s)})
				}
			}
			fm.ChunkMatches = append(fm.ChunkMatches, cm)
		} else {
			lm := zoekt.LineMatch{LineNumber: u.ID}
			for _, it := range u.Items {
				lm.LineFragments = append(lm.LineFragments, zoekt.LineFragmentMatch{Offset: uint32(it.ID)})
			}
			fm.LineMatches = append(fm.LineMatches, lm)
		}
	}
	return fm
}

func fromFM(fm zoekt.FileMatch, ext map[int]int) file {
	f := file{ID: int(fm.RepositoryID), Score: int(fm.Score), Ext: ext[int(fm.RepositoryID)]}
	for _, cm := range fm.ChunkMatches {
		u := unit{ID: int(cm.BestLineMatch), FirstLine: int(cm.ContentStart.LineNumber), Content: cm.Content, SymNil: cm.SymbolInfo == nil}
		for _, r := range cm.Ranges {
			u.Items = append(u.Items, item{int(r.Start.ByteOffset), int(r.End.LineNumber)})
		}
		for _, s := range cm.SymbolInfo {
			n, _ := strconv.Atoi(s.Sym)
			u.Sym = append(u.Sym, n)
		}
		f.Units = append(f.Units, u)
	}
	for _, lm := range fm.LineMatches {
		u := unit{ID: lm.LineNumber, SymNil: true}
		for _, fr := range lm.LineFragments {
			u.Items = append(u.Items, item{int(fr.Offset), 0})
		}
		f.Units = append(f.Units, u)
	}
	return f
}

func toFMs(fs []file, chunk bool) []zoekt.FileMatch {
	out := make([]zoekt.FileMatch, 0, len(fs))
	for _, f := range fs {
		out = append(out, toFM(f, chunk))
	}
	return out
}
func fromFMs(fms []zoekt.FileMatch, ext map[int]int) []file {
	out := make([]file, 0, len(fms))
	for _, fm := range fms {
		out = append(out, fromFM(fm, ext))
	}
	return out
}

// ---------- generators (hook level) ----------

type hookCase struct {
	Op      string   `json:"op"`
	D       int      `json:"d"`
	M       int      `json:"m"`
	Chunk   bool     `json:"chunk"`
	Ctx     int      `json:"ctx"`
	Batches [][]file `json:"batches"`
	Via     string   `json:"via,omitempty"` // trunc: "direct" or "limitSender"
	Arrival string   `json:"arrival,omitempty"`
}

func pickLimit(r *gen.Rand, total int) int {
	switch r.Intn(8) {
	case 0, 1:
		return 0
	case 2:
		return 1
	case 3:
		return 2
	case 4:
		return 3
	case 5:
		return r.Range(1, max(total, 1))
	case 6:
		return total + r.Range(0, 2)
	default:
		return r.Range(1, max(total/2, 1))
	}
}

// genChunkUnits builds the chunk matches of one file the way fillContentChunkMatches lays them out: a text of nLines
// lines, sorted ranges, ranges whose context windows touch share a chunk, Content = whole lines
// [first-ctx, last+ctx] clipped to the file, each line with its '\n' (the last line of the text may lack one).
func genChunkUnits(r *gen.Rand, ctx int, nextID *int, malformed bool) []unit {
	nLines := r.Range(1, 14)
	var text [][]byte
	for i := 0; i < nLines; i++ {
		ln := gen.Pick(r, []string{"", "x", "foo bar", "a b c", "é€", "    y"})
		text = append(text, []byte(ln+"\n"))
	}
	if r.Chance(1, 3) { // no terminating newline at the end of the file
		text[nLines-1] = bytes.TrimSuffix(text[nLines-1], []byte("\n"))
		if len(text[nLines-1]) == 0 {
			text[nLines-1] = []byte("z")
		}
	}
	// ranges: (startLine, endLine), sorted, non-overlapping in lines (several may share a line)
	nr := r.Range(1, 6)
	type rg struct{ s, e int }
	var rs []rg
	cur := r.Range(1, nLines)
	if r.Chance(1, 2) {
		cur = r.Range(1, max(nLines/2, 1))
	}
	for i := 0; i < nr && cur <= nLines; i++ {
		e := cur
		if r.Chance(1, 5) {
			e = min(cur+r.Range(1, 2), nLines)
		}
		rs = append(rs, rg{cur, e})
		cur = e + gen.Pick(r, []int{0, 0, 1, 1, 2, 3, 5})
	}
	var units []unit
	var curU *unit
	lastLine := 0
	flush := func() {
		if curU == nil {
			return
		}
		first := max(curU.FirstLine-ctx, 1)
		last := min(lastLine+ctx, nLines)
		curU.FirstLine = first
		curU.Content = bytes.Join(text[first-1:last], nil)
		units = append(units, *curU)
		curU = nil
	}
	for _, x := range rs {
		if curU != nil && lastLine+ctx >= x.s-ctx {
			curU.Items = append(curU.Items, item{*nextID, x.e})
			lastLine = max(lastLine, x.e)
		} else {
			flush()
			curU = &unit{ID: *nextID, FirstLine: x.s, Items: []item{{*nextID, x.e}}}
			lastLine = x.e
		}
		*nextID++
	}
	flush()
	for i := range units {
		u := &units[i]
		switch r.Intn(3) {
		case 0:
			u.SymNil = true
		default:
			for range u.Items {
				u.Sym = append(u.Sym, *nextID)
				*nextID++
			}
		}
		if malformed {
			switch r.Intn(3) {
			case 0: // end lines out of order
				if len(u.Items) > 1 {
					u.Items[0].EndLine, u.Items[len(u.Items)-1].EndLine = u.Items[len(u.Items)-1].EndLine+1, u.Items[0].EndLine
				}
			case 1: // content lost its tail
				u.Content = u.Content[:len(u.Content)/2]
			case 2:
				u.Content = nil
			}
		}
	}
	gen.Shuffle(r, units) // chunk matches are ordered by score, not by position
	return units
}

func genLineUnits(r *gen.Rand, nextID *int) []unit {
	n := r.Range(1, 5)
	if r.Chance(1, 12) {
		n = 0
	}
	var us []unit
	for i := 0; i < n; i++ {
		u := unit{ID: *nextID, SymNil: true}
		*nextID++
		k := gen.Pick(r, []int{1, 1, 1, 2, 3, 4})
		if r.Chance(1, 25) {
			k = 0
		}
		for j := 0; j < k; j++ {
			u.Items = append(u.Items, item{*nextID, 0})
			*nextID++
		}
		us = append(us, u)
	}
	return us
}

func genHookCase(r *gen.Rand, op string, malformed bool) hookCase {
	c := hookCase{Op: op, Chunk: r.Bool(), Ctx: r.Intn(4)}
	nFiles := r.Range(0, 9)
	if r.Chance(1, 4) {
		nFiles = r.Range(4, 14)
	}
	fullThenLow := op == "agg" && r.Chance(1, 2)
	if fullThenLow {
		nFiles = r.Range(7, 14)
	}
	nextID := 1
	// distinct integral scores; a narrow band makes the 0.9 novelty threshold bite both ways
	base := r.Range(5, 400)
	scores := map[int]bool{}
	var files []file
	nExt := r.Range(1, 4)
	for i := 0; i < nFiles; i++ {
		s := base + r.Intn(max(base/3, nFiles+3))
		for scores[s] {
			s++
		}
		scores[s] = true
		f := file{ID: i + 1, Score: s, Ext: r.Intn(nExt + 1)}
		if r.Chance(1, 10) {
			f.Ext = r.Intn(len(extNames))
		}
		if c.Chunk {
			f.Units = genChunkUnits(r, c.Ctx, &nextID, malformed && r.Chance(1, 3))
		} else {
			f.Units = genLineUnits(r, &nextID)
		}
		files = append(files, f)
	}
	total := 0
	for _, f := range files {
		for _, u := range f.Units {
			total += len(u.Items)
		}
	}
	c.D = pickLimit(r, nFiles)
	c.M = pickLimit(r, total)
	if op == "agg" && c.D == 0 && c.M == 0 && r.Chance(2, 3) {
		c.D = r.Range(1, 5)
	}
	if fullThenLow {
		// "full aggregate, late low batches": the first shard result fills the bounded aggregate with the best files
		// (plus a few stragglers, so that a low-scoring file with a rare extension can sit promoted in third place);
		// the later shard results only bring files that score below everything kept, most of them with extensions the
		// aggregate already holds.  This is where shortcuts for "the aggregate is already full" and incremental
		// (merge instead of re-rank) aggregation go wrong.
		c.Arrival = "full-then-low"
		c.D = r.Range(3, min(6, nFiles-1))
		if r.Chance(1, 3) {
			c.M = 0
		} else {
			c.M = total + r.Range(0, 3) // not the binding limit
		}
		// few extensions, skewed: most files share one, one or two are rare
		common, rare := 1+r.Intn(3), 1+r.Intn(3)
		for i := range files {
			files[i].Ext = common
			if r.Chance(1, 3) {
				files[i].Ext = rare
			}
			if r.Chance(1, 12) {
				files[i].Ext = r.Intn(len(extNames))
			}
		}
		if r.Chance(2, 3) {
			// a tight band: every file is within 10% of the best, so the 0.9 novelty threshold never excludes a candidate
			used := map[int]bool{}
			for i := range files {
				v := 10*base + r.Intn(base)
				for used[v] {
					v++
				}
				used[v] = true
				files[i].Score = v
			}
		}
		byScore := append([]file(nil), files...)
		sort.Slice(byScore, func(i, j int) bool { return byScore[i].Score > byScore[j].Score })
		if r.Chance(2, 3) { // the two best files share the common extension: the rare one is "novel"
			byScore[0].Ext, byScore[1].Ext = common, common
		}
		k := min(c.D+r.Intn(2), nFiles-1)
		nb := r.Range(2, 4)
		c.Batches = make([][]file, nb)
		for i, f := range byScore {
			switch {
			case i < k || r.Chance(1, 4):
				c.Batches[0] = append(c.Batches[0], f)
			default:
				b := 1 + r.Intn(nb-1)
				c.Batches[b] = append(c.Batches[b], f)
			}
		}
		gen.Shuffle(r, c.Batches[0])
	} else {
		// split into batches (some empty)
		nb := r.Range(1, 4)
		c.Batches = make([][]file, nb)
		for _, f := range files {
			b := r.Intn(nb)
			c.Batches[b] = append(c.Batches[b], f)
		}
		if r.Chance(1, 6) {
			c.Batches = append(c.Batches, nil)
		}
	}
	if op == "trunc" {
		c.Via = gen.Pick(r, []string{"direct", "limitSender"})
	}
	return c
}

// ---------- running the real code (hook level) ----------

func extMap(bs [][]file) map[int]int {
	m := map[int]int{}
	for _, b := range bs {
		for _, f := range b {
			m[f.ID] = f.Ext
		}
	}
	return m
}

func (c hookCase) opts() *zoekt.SearchOptions {
	return &zoekt.SearchOptions{MaxDocDisplayCount: c.D, MaxMatchDisplayCount: c.M, ChunkMatches: c.Chunk, NumContextLines: c.Ctx}
}

func (c hookCase) in() string {
	ch := "0"
	if c.Chunk {
		ch = "1"
	}
	return fmt.Sprintf("%s %d %d %s %d %s", c.Op, c.D, c.M, ch, c.Ctx, encBatches(c.Batches))
}

func runTrunc(c hookCase) (impl string) {
	defer func() {
		if e := recover(); e != nil {
			impl = "panic"
		}
	}()
	ext := extMap(c.Batches)
	var outs [][]file
	var bits []byte
	if c.Via == "limitSender" && (c.D > 0 || c.M > 0) {
		cancelled := false
		var got *zoekt.SearchResult
		sender := search.VerifLimitSender(c.opts(), func() { cancelled = true }, zoekt.SenderFunc(func(r *zoekt.SearchResult) { got = r }))
		for _, b := range c.Batches {
			sender.Send(&zoekt.SearchResult{Files: toFMs(b, c.Chunk)})
			outs = append(outs, fromFMs(got.Files, ext))
			if cancelled {
				bits = append(bits, '0')
			} else {
				bits = append(bits, '1')
			}
		}
	} else {
		tr, _ := index.NewDisplayTruncator(c.opts())
		for _, b := range c.Batches {
			after, more := tr(toFMs(b, c.Chunk))
			outs = append(outs, fromFMs(after, ext))
			if more {
				bits = append(bits, '1')
			} else {
				bits = append(bits, '0')
			}
		}
	}
	return fmt.Sprintf("%s more=%s", encBatches(outs), string(bits))
}

func collectReal(c hookCase, D, M int) string {
	o := c.opts()
	o.MaxDocDisplayCount, o.MaxMatchDisplayCount = D, M
	var bs []*zoekt.SearchResult
	for _, b := range c.Batches {
		bs = append(bs, &zoekt.SearchResult{Files: toFMs(b, c.Chunk)})
	}
	res, ok := search.VerifCollect(o, bs)
	if !ok {
		return "none"
	}
	return encFiles(fromFMs(res.Files, extMap(c.Batches)))
}

func runAgg(c hookCase) (impl string) {
	defer func() {
		if e := recover(); e != nil {
			impl = "panic"
		}
	}()
	return fmt.Sprintf("lim=%s unl=%s", collectReal(c, c.D, c.M), collectReal(c, 0, 0))
}

func emitHook(w *gen.Writer, c hookCase, class string) {
	var impl string
	if c.Op == "trunc" {
		impl = runTrunc(c)
	} else {
		impl = runAgg(c)
	}
	n := 0
	for _, b := range c.Batches {
		n += len(b)
	}
	cl := fmt.Sprintf("%s/%s", c.Op, map[bool]string{true: "chunk", false: "line"}[c.Chunk])
	if class != "" {
		cl = class
	}
	if impl == "panic" {
		cl += "/panic"
	}
	if c.Op == "agg" {
		countAggScenario(w, c)
	}
	w.Emit(gen.Case{In: c.in(), Impl: impl, Class: cl, Nontrivial: n >= 2 && (c.D > 0 || c.M > 0), Detail: gen.Detail(map[string]any{"hook": c})})
}

// countAggScenario prints how often the generated arrival orders reach the states in which an incremental aggregation
// can go wrong (computed on the model files by a small simulation of rank + truncate: by score, promotion to third
// place, first D files; match limits are ignored here — this only feeds distribution counters).
func countAggScenario(w *gen.Writer, c hookCase) {
	if c.D <= 0 {
		return
	}
	rank := func(fs []file) ([]file, bool) {
		out := append([]file(nil), fs...)
		sort.SliceStable(out, func(i, j int) bool { return out[i].Score > out[j].Score })
		if len(out) <= 3 {
			return out, false
		}
		for i := 2; i < len(out); i++ {
			if 10*out[i].Score < 9*out[2].Score || out[i].Ext == out[0].Ext || out[i].Ext == out[1].Ext {
				continue
			}
			f := out[i]
			copy(out[3:i+1], out[2:i])
			out[2] = f
			return out, i > 2
		}
		return out, false
	}
	var agg []file
	promotedKept := false
	fullLate, fullLateSameExt, fullLateWithPromoted := false, false, false
	for _, b := range c.Batches {
		if len(b) == 0 {
			continue
		}
		if len(agg) >= c.D {
			low := agg[len(agg)-1].Score
			for _, f := range agg {
				low = min(low, f.Score)
			}
			below, sameExt := true, true
			for _, f := range b {
				if f.Score >= low {
					below = false
				}
				has := false
				for _, g := range agg {
					if g.Ext == f.Ext {
						has = true
					}
				}
				if !has {
					sameExt = false
				}
			}
			if below {
				fullLate = true
				if sameExt {
					fullLateSameExt = true
					if promotedKept {
						fullLateWithPromoted = true
					}
				}
			}
		}
		ranked, promoted := rank(append(append([]file(nil), agg...), b...))
		agg = ranked[:min(c.D, len(ranked))]
		promotedKept = promoted && c.D >= 3
	}
	if all, promoted := rank(flatFiles(c.Batches)); promoted && len(all) > 2 {
		// the unlimited ranking promotes all[2]: did it arrive when the aggregate was already full?
		n := 0
		for _, b := range c.Batches {
			for _, f := range b {
				if f.ID == all[2].ID && n >= c.D {
					w.Count("agg-scenario/the-unlimited-ranking-promotes-a-file-that-arrived-after-the-aggregate-was-full", 1)
				}
			}
			n += len(b)
		}
	}
	if fullLate {
		w.Count("agg-scenario/batch-arrives-below-a-full-aggregate", 1)
	}
	if fullLateSameExt {
		w.Count("agg-scenario/…and-brings-only-extensions-already-kept", 1)
	}
	if fullLateWithPromoted {
		w.Count("agg-scenario/…while-a-promoted-file-sits-in-third-place", 1)
	}
}

func flatFiles(bs [][]file) []file {
	var out []file
	for _, b := range bs {
		out = append(out, b...)
	}
	return out
}

// ---------- main ----------

type replayFile struct {
	Case struct {
		Detail json.RawMessage `json:"detail"`
	} `json:"case"`
	Detail json.RawMessage `json:"detail"` // corpus files carry the detail at top level
}

type detail struct {
	Hook *hookCase `json:"hook,omitempty"`
	E2E  *e2eCase  `json:"e2e,omitempty"`
}

func runDetail(w *gen.Writer, raw json.RawMessage, class string) {
	var d detail
	if err := json.Unmarshal(raw, &d); err != nil {
		panic(err)
	}
	switch {
	case d.Hook != nil:
		emitHook(w, *d.Hook, class)
	case d.E2E != nil:
		runE2E(w, *d.E2E, class)
	}
}

func loadDetail(path string) json.RawMessage {
	b, err := os.ReadFile(path)
	if err != nil {
		panic(err)
	}
	var rf replayFile
	if err := json.Unmarshal(b, &rf); err != nil {
		panic(err)
	}
	if len(rf.Case.Detail) > 0 {
		return rf.Case.Detail
	}
	return rf.Detail
}

func main() {
	f := gen.ParseFlags()
	log.SetOutput(io.Discard)
	runtime.GOMAXPROCS(1) // one streamSearch worker: shard results arrive in shard order
	w := gen.NewWriter(f.Out)
	defer w.Close()

	if f.Replay != "" {
		runDetail(w, loadDetail(f.Replay), "replay")
		return
	}
	if f.Corpus != "" {
		names, _ := filepath.Glob(filepath.Join(f.Corpus, "*.json"))
		sort.Strings(names)
		for _, n := range names {
			runDetail(w, loadDetail(n), "corpus")
		}
	}
	r := gen.NewRand(f.Seed)
	nHook := f.N(1500, 40000)
	for i := 0; i < nHook; i++ {
		op := "trunc"
		if i%2 == 1 {
			op = "agg"
		}
		emitHook(w, genHookCase(r, op, i%20 == 19), "")
	}
	start := time.Now()
	nE2E := f.N(60, 1200)
	budget := 25 * time.Second // quick tier: stay within ~60 s whatever the machine load
	if f.Tier == "thorough" {
		budget = 10 * time.Minute
	}
	for i := 0; i < nE2E; i++ {
		runE2E(w, genE2E(r.Fork()), "")
		if time.Since(start) > budget {
			w.Count("e2e/stopped-early-at", i)
			break
		}
	}
}

var _ = context.Background
