package main

import (
	"bytes"
	"context"
	"fmt"
	"math"
	"os"
	"path/filepath"
	"reflect"
	"strings"
	"time"

	"github.com/sourcegraph/zoekt"
	"github.com/sourcegraph/zoekt/index"
	"github.com/sourcegraph/zoekt/query"
	"github.com/sourcegraph/zoekt/search"

	"verifharness/e3util"
	"verifharness/gen"
)

// ---------- end-to-end cases ----------

type e2eDoc struct {
	Name    string `json:"name"`
	Content string `json:"content"`
}
type e2eRepo struct {
	Name string   `json:"name"`
	ID   uint32   `json:"id"`
	Rank uint16   `json:"rank"`
	Docs []e2eDoc `json:"docs"`
}
type e2eCase struct {
	// Shards[i] lists the repositories of shard i (more than one = a compound shard made with index.Merge)
	Shards [][]e2eRepo `json:"shards"`
	Query  string      `json:"query"`
	Chunk  bool        `json:"chunk"`
	Ctx    int         `json:"ctx"`
	D      int         `json:"d"`
	M      int         `json:"m"`
}

var e2eLines = []string{"", "foo", "foo foo", "bar foo baz", "needle", "xyz", "  foo()", "Foo bar", "é foo €", "qux", "foo needle foo", "bar"}
var e2eExts = []string{".go", ".go", ".py", ".rb", ".md", "", ".c"}
var e2eQueries = []string{"foo", "foo", "needle", "foo or needle", "case:yes foo", "fo+", "bar", "o", "f:file", "foo f:\\.go"}

func genE2E(r *gen.Rand) e2eCase {
	c := e2eCase{Query: gen.Pick(r, e2eQueries), Chunk: r.Chance(2, 3), Ctx: r.Intn(4)}
	nShards := r.Range(1, 4)
	rid := uint32(1)
	ranks := []uint16{0, 100, 200, 300, 400, 500, 600, 700, 800}
	gen.Shuffle(r, ranks)
	total := 0
	sameExt := r.Chance(1, 4)
	for s := 0; s < nShards; s++ {
		nRepos := 1
		if r.Chance(1, 4) {
			nRepos = r.Range(2, 3)
		}
		var repos []e2eRepo
		for k := 0; k < nRepos; k++ {
			repo := e2eRepo{Name: fmt.Sprintf("repo%02d", rid), ID: rid, Rank: ranks[int(rid)%len(ranks)] + uint16(rid)}
			rid++
			nDocs := r.Range(1, 7)
			for d := 0; d < nDocs; d++ {
				nl := r.Range(1, 12)
				var sb strings.Builder
				dense := r.Chance(1, 2)
				for l := 0; l < nl; l++ {
					if dense && r.Chance(1, 2) {
						sb.WriteString(gen.Pick(r, []string{"foo", "foo foo", "foo needle foo"}))
					} else {
						sb.WriteString(gen.Pick(r, e2eLines))
					}
					if l < nl-1 || r.Chance(2, 3) {
						sb.WriteByte('\n')
					}
				}
				ext := gen.Pick(r, e2eExts)
				if sameExt {
					ext = ".go"
				}
				txt := sb.String()
				if txt == "" {
					txt = "foo"
				}
				total += strings.Count(txt, "foo")
				repo.Docs = append(repo.Docs, e2eDoc{Name: fmt.Sprintf("dir%d/file%d%s", d%2, d, ext), Content: txt})
			}
			repos = append(repos, repo)
		}
		c.Shards = append(c.Shards, repos)
	}
	c.D = pickLimit(r, int(rid)*3)
	c.M = pickLimit(r, total)
	if c.D == 0 && c.M == 0 {
		c.M = r.Range(1, max(total, 1))
	}
	return c
}

func scratchDir() string {
	d := os.Getenv("VERIF_WORK")
	if d == "" {
		d = os.TempDir()
	}
	return filepath.Join(d, "c22-scratch")
}

func buildShards(c e2eCase) ([]zoekt.Searcher, map[string]string) {
	texts := map[string]string{}
	var out []zoekt.Searcher
	for i, repos := range c.Shards {
		var parts [][]byte
		for _, rp := range repos {
			var docs []index.Document
			for _, d := range rp.Docs {
				docs = append(docs, index.Document{Name: d.Name, Content: []byte(d.Content)})
				texts[rp.Name+"\x00"+d.Name] = d.Content
			}
			parts = append(parts, e3util.ShardBytes(&zoekt.Repository{Name: rp.Name, ID: rp.ID, Rank: rp.Rank}, docs))
		}
		data := parts[0]
		if len(parts) > 1 {
			data = e3util.Compound(scratchDir(), parts)
		}
		out = append(out, e3util.Open(data, fmt.Sprintf("shard%d", i)))
	}
	return out, texts
}

// own implementation of "the extension of the last path element" (not path.Ext)
func extOf(name string) string {
	if i := strings.LastIndexByte(name, '/'); i >= 0 {
		name = name[i+1:]
	}
	if i := strings.LastIndexByte(name, '.'); i >= 0 {
		return name[i:]
	}
	return ""
}

// realToModel maps real FileMatches to model files; ids are assigned on first sight.
type mapper struct {
	fileID map[string]int
	extID  map[string]int
	symID  map[string]int
}

func newMapper() *mapper {
	return &mapper{fileID: map[string]int{}, extID: map[string]int{}, symID: map[string]int{}}
}
func idOf(m map[string]int, k string) int {
	if v, ok := m[k]; ok {
		return v
	}
	v := len(m) + 1
	m[k] = v
	return v
}

func (mp *mapper) file(fm zoekt.FileMatch) file {
	f := file{ID: idOf(mp.fileID, fm.Repository+"\x00"+fm.FileName), Score: int(math.Round(fm.Score * 1000)), Ext: idOf(mp.extID, extOf(fm.FileName))}
	for _, cm := range fm.ChunkMatches {
		u := unit{ID: int(cm.ContentStart.ByteOffset)*2 + map[bool]int{true: 1, false: 0}[cm.FileName], FirstLine: int(cm.ContentStart.LineNumber), Content: cm.Content, SymNil: cm.SymbolInfo == nil}
		for _, r := range cm.Ranges {
			u.Items = append(u.Items, item{int(r.Start.ByteOffset), int(r.End.LineNumber)})
		}
		for _, s := range cm.SymbolInfo {
			if s == nil {
				u.Sym = append(u.Sym, 0)
			} else {
				u.Sym = append(u.Sym, idOf(mp.symID, s.Sym+"\x00"+s.Kind+"\x00"+s.Parent))
			}
		}
		f.Units = append(f.Units, u)
	}
	for _, lm := range fm.LineMatches {
		u := unit{ID: lm.LineNumber, SymNil: true}
		for _, fr := range lm.LineFragments {
			u.Items = append(u.Items, item{int(fr.Offset), 0})
		}
		f.Units = append(f.Units, u)
	}
	return f
}
func (mp *mapper) files(fms []zoekt.FileMatch) []file {
	out := make([]file, 0, len(fms))
	for _, fm := range fms {
		out = append(out, mp.file(fm))
	}
	return out
}

// ---------- the independent oracle ----------

func splitLinesKeep(s string) []string {
	var out []string
	for len(s) > 0 {
		i := strings.IndexByte(s, '\n')
		if i < 0 {
			out = append(out, s)
			break
		}
		out = append(out, s[:i+1])
		s = s[i+1:]
	}
	return out
}

// expectedDisplay recomputes, from the unlimited ranked result and the corpus text, what a display-limited search must
// return: the first D files, matches counted in order until M, the last file cut there; a cut chunk's Content is the
// text's whole lines from ContentStart.LineNumber through (last remaining range's end line + ctx).
// It also reports whether a cut chunk's original trailing context was clipped by the end of the file.
func expectedDisplay(unl []zoekt.FileMatch, D, M int, chunk bool, ctx int, texts map[string]string) (out []zoekt.FileMatch, cutFile, cutChunk int, clipped bool) {
	cutFile, cutChunk = -1, -1
	n := len(unl)
	if D > 0 && n > D {
		n = D
	}
	out = append(out, unl[:n]...)
	if M <= 0 {
		return
	}
	remaining := M
	for i := range out {
		f := out[i] // copy of the struct; slices are re-sliced, never written through
		if chunk {
			for j, cm := range f.ChunkMatches {
				k := len(cm.Ranges)
				if k < remaining {
					remaining -= k
					continue
				}
				if k > remaining {
					ncm := cm
					ncm.Ranges = cm.Ranges[:remaining:remaining]
					if cm.SymbolInfo != nil {
						ncm.SymbolInfo = cm.SymbolInfo[:remaining:remaining]
					}
					if !cm.FileName {
						lines := splitLinesKeep(texts[f.Repository+"\x00"+f.FileName])
						lastOld, last := 0, 0
						for _, r := range cm.Ranges {
							lastOld = max(lastOld, int(r.End.LineNumber))
						}
						for _, r := range ncm.Ranges {
							last = max(last, int(r.End.LineNumber))
						}
						clipped = lastOld+ctx > len(lines)
						ncm.Content = []byte(strings.Join(lines[cm.ContentStart.LineNumber-1:min(last+ctx, len(lines))], ""))
					}
					cms := append([]zoekt.ChunkMatch(nil), f.ChunkMatches[:j]...)
					f.ChunkMatches = append(cms, ncm)
					cutFile, cutChunk = i, j
				} else {
					f.ChunkMatches = f.ChunkMatches[: j+1 : j+1]
				}
				out[i] = f
				return out[: i+1 : i+1], cutFile, cutChunk, clipped
			}
		} else {
			for j, lm := range f.LineMatches {
				k := len(lm.LineFragments)
				if k < remaining {
					remaining -= k
					continue
				}
				lms := append([]zoekt.LineMatch(nil), f.LineMatches[:j+1]...)
				if k > remaining {
					lms[j].LineFragments = lm.LineFragments[:remaining:remaining]
				}
				f.LineMatches = lms
				out[i] = f
				return out[: i+1 : i+1], cutFile, cutChunk, clipped
			}
		}
	}
	return
}

func normFile(f zoekt.FileMatch) zoekt.FileMatch {
	if len(f.LineMatches) == 0 {
		f.LineMatches = nil
	}
	if len(f.ChunkMatches) == 0 {
		f.ChunkMatches = nil
	}
	return f
}

func sortedDesc(fs []zoekt.FileMatch) bool {
	for i := 1; i < len(fs); i++ {
		if fs[i-1].Score < fs[i].Score {
			return false
		}
	}
	return true
}

func deepCopyFiles(fs []zoekt.FileMatch) []zoekt.FileMatch {
	out := append([]zoekt.FileMatch(nil), fs...)
	for i := range out {
		out[i].LineMatches = append([]zoekt.LineMatch(nil), out[i].LineMatches...)
		out[i].ChunkMatches = append([]zoekt.ChunkMatch(nil), out[i].ChunkMatches...)
	}
	return out
}

// promotionInPlay names the class of a failure (it decides nothing): did the novel-extension promotion change the
// ranking of the final result or of one of the intermediate aggregates that collectSender ranked and truncated?
// The intermediate aggregates are obtained from the real collectSender.
func promotionInPlay(batches [][]zoekt.FileMatch, opts zoekt.SearchOptions) bool {
	promoted := func(fs []zoekt.FileMatch) bool {
		x := deepCopyFiles(fs)
		index.SortFiles(x)
		return !sortedDesc(x)
	}
	if promoted(flat(batches)) {
		return true
	}
	var prev []zoekt.FileMatch
	for i, b := range batches {
		if len(b) == 0 {
			continue
		}
		if promoted(append(deepCopyFiles(prev), b...)) {
			return true
		}
		var rs []*zoekt.SearchResult
		for _, bb := range batches[:i+1] {
			rs = append(rs, &zoekt.SearchResult{Files: deepCopyFiles(bb)})
		}
		o := opts
		if res, ok := search.VerifCollect(&o, rs); ok {
			prev = res.Files
		}
	}
	return false
}

// compareDisplay returns "" if got is the expected display prefix of unl, else a failure key.
// aggBatches (nil for a plain stream) are the shard results collectSender aggregated to produce got.
func compareDisplay(got, unl []zoekt.FileMatch, c e2eCase, texts map[string]string, aggBatches [][]zoekt.FileMatch) string {
	want, cutFile, cutChunk, clipped := expectedDisplay(unl, c.D, c.M, c.Chunk, c.Ctx, texts)
	kind := ""
	if len(got) != len(want) {
		kind = fmt.Sprintf("file-count")
	} else {
		for i := range want {
			g, w := normFile(got[i]), normFile(want[i])
			if i == cutFile && len(g.ChunkMatches) == len(w.ChunkMatches) {
				gc, wc := g.ChunkMatches[cutChunk], w.ChunkMatches[cutChunk]
				// equal, or equal up to the terminator of the last line
				if !bytes.Equal(gc.Content, wc.Content) && !bytes.Equal(append(append([]byte(nil), gc.Content...), '\n'), wc.Content) {
					g2 := gc.Content
					short := clipped && len(g2) < len(wc.Content) && bytes.HasPrefix(wc.Content, g2) &&
						(len(g2) == 0 || g2[len(g2)-1] == '\n' || wc.Content[len(g2)] == '\n')
					if short {
						kind = "chunk-context-short-at-eof"
					} else {
						kind = "chunk-cut-lines"
					}
				}
				// compare the rest with the content taken out
				gcm := append([]zoekt.ChunkMatch(nil), g.ChunkMatches...)
				wcm := append([]zoekt.ChunkMatch(nil), w.ChunkMatches...)
				gcm[cutChunk].Content, wcm[cutChunk].Content = nil, nil
				g.ChunkMatches, w.ChunkMatches = gcm, wcm
			}
			if !reflect.DeepEqual(g, w) {
				kind = "file-differs"
				if os.Getenv("C22_DEBUG") != "" {
					fmt.Fprintf(os.Stderr, "file %d differs:\n got  %+v\n want %+v\n", i, g, w)
				}
				break
			}
		}
	}
	if kind == "" {
		return ""
	}
	if kind != "chunk-context-short-at-eof" && kind != "chunk-cut-lines" && aggBatches != nil {
		o := zoekt.SearchOptions{ChunkMatches: c.Chunk, NumContextLines: c.Ctx, MaxDocDisplayCount: c.D, MaxMatchDisplayCount: c.M}
		if promotionInPlay(aggBatches, o) {
			kind = "novel-extension:" + kind
		}
	}
	return kind
}

// ---------- running ----------

type streamEvents struct {
	n       int
	batches [][]zoekt.FileMatch
}

func (s *streamEvents) Send(r *zoekt.SearchResult) {
	s.n++
	if s.n == 1 {
		return // StreamSearch always sends a progress-only event first
	}
	s.batches = append(s.batches, r.Files)
}

func flat(bs [][]zoekt.FileMatch) []zoekt.FileMatch {
	var out []zoekt.FileMatch
	for _, b := range bs {
		out = append(out, b...)
	}
	return out
}

func hasTies(fs []zoekt.FileMatch) bool {
	seen := map[int]bool{}
	for _, f := range fs {
		k := int(math.Round(f.Score * 1000))
		if seen[k] {
			return true
		}
		seen[k] = true
	}
	return false
}

func runE2E(w *gen.Writer, c e2eCase, class string) {
	shards, texts := buildShards(c)
	ss := search.VerifShardedSearcher(4, shards)
	defer ss.Close()
	q, err := query.Parse(c.Query)
	if err != nil {
		panic(err)
	}
	ctx := context.Background()
	base := zoekt.SearchOptions{ChunkMatches: c.Chunk, NumContextLines: c.Ctx}
	limited := base
	limited.MaxDocDisplayCount, limited.MaxMatchDisplayCount = c.D, c.M
	det := gen.Detail(map[string]any{"e2e": c})
	mode := map[bool]string{true: "chunk", false: "line"}[c.Chunk]
	ch := map[bool]string{true: "1", false: "0"}[c.Chunk]
	if class == "" {
		class = "e2e/" + mode
	}
	fail := func(key string) (string, string) {
		if key == "" {
			return "ok", ""
		}
		return "FAIL " + key, "e2e:" + key
	}

	// (a) the unlimited stream: the batches the shards really send up
	var unlStream streamEvents
	o := base
	if err := ss.StreamSearch(ctx, q, &o, &unlStream); err != nil {
		panic(err)
	}
	// (b) Search, unlimited and limited
	o = base
	unl, err := ss.Search(ctx, q, &o)
	if err != nil {
		panic(err)
	}
	o = limited
	lim, err := ss.Search(ctx, q, &o)
	if err != nil {
		panic(err)
	}
	ties := hasTies(unl.Files)
	if len(unl.Files) == 0 {
		w.Emit(gen.Case{Go: "ok", Class: class + "/no-results", Detail: det})
		return
	}
	{
		mp := newMapper()
		var bs [][]file
		for _, b := range unlStream.batches {
			bs = append(bs, mp.files(b))
		}
		goV, key := fail(compareDisplay(lim.Files, unl.Files, c, texts, unlStream.batches))
		cs := gen.Case{Go: goV, Key: key, Class: class + "/search", Nontrivial: len(unl.Files) >= 2 && len(lim.Files) < len(unl.Files) || matchTotal(lim.Files) < matchTotal(unl.Files), Detail: det}
		if !ties {
			cs.In = fmt.Sprintf("agg %d %d %s %d %s", c.D, c.M, ch, c.Ctx, encBatches(bs))
			cs.Impl = fmt.Sprintf("lim=%s unl=%s", encFiles(mp.files(lim.Files)), encFiles(mp.files(unl.Files)))
		} else {
			cs.Class += "/ties"
			if goV != "ok" { // with equal scores the ranked result itself is not unique: not a case
				cs.Go, cs.Key = "ok", ""
			}
		}
		w.Emit(cs)
	}
	// (c) StreamSearch with display limits against the unlimited stream, without and with FlushWallTime
	for _, flush := range []time.Duration{0, time.Hour} {
		us := unlStream
		if flush > 0 {
			us = streamEvents{}
			o = base
			o.FlushWallTime = flush
			if err := ss.StreamSearch(ctx, q, &o, &us); err != nil {
				panic(err)
			}
		}
		var ls streamEvents
		o = limited
		o.FlushWallTime = flush
		if err := ss.StreamSearch(ctx, q, &o, &ls); err != nil {
			panic(err)
		}
		mp := newMapper()
		var bs, outs [][]file
		for _, b := range us.batches {
			bs = append(bs, mp.files(b))
		}
		for _, b := range ls.batches {
			outs = append(outs, mp.files(b))
		}
		var aggB [][]zoekt.FileMatch
		if flush > 0 {
			aggB = unlStream.batches
		}
		goV, key := fail(compareDisplay(flat(ls.batches), flat(us.batches), c, texts, aggB))
		cl := class + "/stream"
		if flush > 0 {
			cl = class + "/stream-flush"
		}
		cs := gen.Case{Go: goV, Key: key, Class: cl, Nontrivial: len(flat(ls.batches)) < len(flat(us.batches)), Detail: det}
		if len(outs) > len(bs) {
			cs.Go, cs.Key = "FAIL more events than the unlimited stream", "e2e:stream-events"
		} else if flush > 0 {
			// the flushed stream is collectSender's aggregate of the batches of (a), truncated once more by limitSender
			if ties {
				cs.Class += "/ties"
				cs.Go, cs.Key = "ok", ""
			} else {
				mp2 := newMapper()
				var bs2 [][]file
				for _, b := range unlStream.batches {
					bs2 = append(bs2, mp2.files(b))
				}
				cs.In = fmt.Sprintf("agg %d %d %s %d %s", c.D, c.M, ch, c.Ctx, encBatches(bs2))
				cs.Impl = fmt.Sprintf("lim=%s unl=%s", encFiles(mp2.files(flat(ls.batches))), encFiles(mp2.files(flat(us.batches))))
			}
		} else {
			// the limited stream may stop early (limitSender cancels the search): missing events are empty
			more := make([]byte, 0, len(bs))
			run := newTruncSim(c.D, c.M)
			for i := range bs {
				if i >= len(outs) {
					outs = append(outs, nil)
				}
				more = append(more, run.step(outs[i]))
			}
			cs.In = fmt.Sprintf("trunc %d %d %s %d %s", c.D, c.M, ch, c.Ctx, encBatches(bs))
			cs.Impl = fmt.Sprintf("%s more=%s", encBatches(outs), string(more))
		}
		w.Emit(cs)
	}
}

func matchTotal(fs []zoekt.FileMatch) int {
	n := 0
	for _, f := range fs {
		for _, l := range f.LineMatches {
			n += len(l.LineFragments)
		}
		for _, c := range f.ChunkMatches {
			n += len(c.Ranges)
		}
	}
	return n
}

// truncSim reconstructs the hasMore bit a truncator reports from what it *returned* (the stream does not expose
// it): exhausted once the returned files reach D or the returned matches reach M.
type truncSim struct {
	d, m, files, matches int
	done                 bool
}

func newTruncSim(d, m int) *truncSim { return &truncSim{d: d, m: m} }
func (t *truncSim) step(out []file) byte {
	if t.d <= 0 && t.m <= 0 {
		return '1'
	}
	t.files += len(out)
	for _, f := range out {
		for _, u := range f.Units {
			t.matches += len(u.Items)
		}
	}
	if (t.d > 0 && t.files >= t.d) || (t.m > 0 && t.matches >= t.m) {
		t.done = true
	}
	if t.done {
		return '0'
	}
	return '1'
}
