package main

// Full-stack scenarios for C21: the search goes through the stack NewDirectorySearcher builds — typeRepoSearcher
// (which first evaluates `type:repo` sub-expressions with a List over all shards and replaces them by a RepoSet) over
// the shardedSearcher — and the deadline / cancellation hits *during that first phase*.
//
// A shard whose context is done answers List (like Search) with an empty result and no error, so a List that runs
// into a deadline silently yields a partial repository list.  With the caller's own context that is harmless: the
// search proper then runs with the same done context.  But any code that gives a phase its own deadline (a
// per-phase MaxWallTime budget, a detached context, a cached partial list) turns the partial list into a wrong
// query for a search that is still alive: under a negation, `-(type:repo X)`, files of repositories that should have
// been excluded come back — files the same search without the deadline does not return.
//
// The phases are made deterministic with gated shards: List of a non-constant query waits until the harness
// releases the gate or the context ends, whichever is first.
//
//	walltime-during-list      MaxWallTime (10 ms) elapses while every shard is still listing; gate opens at 40 ms
//	walltime-during-list-some the same, but only the later shards are gated (a partial list)
//	deadline-during-list      the caller's own deadline (10 ms) elapses during the List
//	cancel-during-list        the caller cancels once a shard is seen waiting in List
//	walltime-in-search        gates open at once, MaxWallTime 1 ns: the deadline hits the search proper
//
// Oracle: the search returns within `limit`; it returns the context's error, or files that are whole files of the
// result of the same search through the same stack without any deadline.

import (
	"context"
	"encoding/json"
	"errors"
	"fmt"
	"reflect"
	"strings"
	"sync/atomic"
	"time"

	"github.com/sourcegraph/zoekt"
	"github.com/sourcegraph/zoekt/query"
	"github.com/sourcegraph/zoekt/search"

	"verifharness/gen"
)

type listGate struct {
	release chan struct{}
	waiting atomic.Int32
}

type gatedSearcher struct {
	zoekt.Searcher
	gate *listGate // nil: not gated
}

func (g *gatedSearcher) List(ctx context.Context, q query.Q, opts *zoekt.ListOptions) (*zoekt.RepoList, error) {
	if _, isConst := q.(*query.Const); g.gate != nil && !isConst {
		g.gate.waiting.Add(1)
		select {
		case <-ctx.Done():
		case <-g.gate.release:
		}
	}
	return g.Searcher.List(ctx, q, opts)
}

type stackScenario struct {
	name              string
	gateFrom          int           // shards with index >= gateFrom are gated (-1: none)
	releaseAt         time.Duration // the gate opens after this long (0: at once)
	wall              time.Duration // MaxWallTime
	ctxDeadline       time.Duration // the caller's own deadline
	cancelWhenWaiting bool
}

func stackQueries(c c21Case) map[string]query.Q {
	foo := &query.Substring{Pattern: "foo"}
	repoHas := func(p string) query.Q {
		return &query.Type{Type: query.TypeRepo, Child: &query.Substring{Pattern: p}}
	}
	return map[string]query.Q{
		"foo -(type:repo needle)": query.NewAnd(foo, &query.Not{Child: repoHas("needle")}),
		"foo (type:repo needle)":  query.NewAnd(foo, repoHas("needle")),
		"foo -(type:repo xyz)":    query.NewAnd(foo, &query.Not{Child: repoHas("xyz")}),
		"q -(type:repo bar)":      query.NewAnd(parseQuery(c.Query), &query.Not{Child: repoHas("bar")}),
	}
}

func runStack(w *gen.Writer, c c21Case, shards []shardInfo, class string, det json.RawMessage, limit time.Duration) {
	if hungSearches.Load() >= maxHung {
		w.Count("stack/skipped-after-hangs", 1)
		return
	}
	base := zoekt.SearchOptions{ChunkMatches: c.Chunk, NumContextLines: c.Ctx}
	build := func(gateFrom int, gate *listGate) zoekt.Streamer {
		var ws []zoekt.Searcher
		for i, sh := range shards {
			g := &gatedSearcher{Searcher: sh.searcher}
			if gateFrom >= 0 && i >= gateFrom {
				g.gate = gate
			}
			ws = append(ws, g)
		}
		return search.VerifTypeRepoSearcher(search.VerifShardedSearcher(4, ws))
	}
	scenarios := []stackScenario{
		{name: "walltime-during-list", gateFrom: 0, releaseAt: 40 * time.Millisecond, wall: 10 * time.Millisecond},
		{name: "walltime-during-list-some", gateFrom: 1, releaseAt: 40 * time.Millisecond, wall: 10 * time.Millisecond},
		{name: "deadline-during-list", gateFrom: 0, releaseAt: 40 * time.Millisecond, ctxDeadline: 10 * time.Millisecond},
		{name: "cancel-during-list", gateFrom: 0, releaseAt: time.Hour, cancelWhenWaiting: true},
		{name: "walltime-in-search", gateFrom: -1, wall: time.Nanosecond},
	}
	for qname, q := range stackQueries(c) {
		// reference: the same stack, no gate, no deadline
		o := base
		unl, err := build(-1, nil).Search(context.Background(), q, &o)
		if err != nil {
			panic(err)
		}
		unlByKey := map[string]zoekt.FileMatch{}
		for _, f := range unl.Files {
			unlByKey[fmKey(f)] = f
		}
		w.Count(fmt.Sprintf("stack/query/%s/files=%s", strings.SplitN(qname, " ", 2)[1], bucket(len(unl.Files))), 1)
		for _, sc := range scenarios {
			if sc.gateFrom >= len(shards) {
				continue
			}
			for _, streaming := range []bool{false, true} {
				if hungSearches.Load() >= maxHung {
					w.Count("stack/skipped-after-hangs", 1)
					return
				}
				gate := &listGate{release: make(chan struct{})}
				ss := build(sc.gateFrom, gate)
				var timer *time.Timer
				if sc.releaseAt == 0 {
					close(gate.release)
				} else {
					timer = time.AfterFunc(sc.releaseAt, func() { close(gate.release) })
				}
				ctx, cancel := context.WithCancel(context.Background())
				if sc.ctxDeadline > 0 {
					ctx, cancel = context.WithTimeout(context.Background(), sc.ctxDeadline)
				}
				o := base
				o.MaxWallTime = sc.wall
				done := make(chan searchOut, 1)
				go func() {
					var out searchOut
					defer func() {
						if e := recover(); e != nil {
							out.err = fmt.Errorf("PANIC: %v", e)
						}
						done <- out
					}()
					if streaming {
						var ev collectEvents
						out.err = ss.StreamSearch(ctx, q, &o, &ev)
						ev.mu.Lock()
						out.files, out.stats = ev.files, ev.stats
						ev.mu.Unlock()
					} else {
						r, err := ss.Search(ctx, q, &o)
						out.err = err
						if r != nil {
							out.files, out.stats = r.Files, r.Stats
						}
					}
				}()
				var out searchOut
				hung, early := false, false
				if sc.cancelWhenWaiting {
					dl := time.Now().Add(2 * time.Second)
					for gate.waiting.Load() == 0 && time.Now().Before(dl) && !early {
						select {
						case out = <-done:
							early = true
						case <-time.After(200 * time.Microsecond):
						}
					}
					cancel()
				}
				if !early {
					select {
					case out = <-done:
					case <-time.After(sc.releaseAt%time.Hour + limit):
						hung = true
					}
				}
				cancel()
				if timer != nil {
					timer.Stop()
				}
				cs := gen.Case{Class: fmt.Sprintf("%s/stack/%s", class, sc.name), Detail: det, Nontrivial: len(unl.Files) > 0, Go: "ok"}
				goV := ""
				switch {
				case hung:
					hungSearches.Add(1)
					goV = "never-returns"
				case out.err != nil && strings.HasPrefix(out.err.Error(), "PANIC"):
					goV = "panic"
				case out.err != nil && !errors.Is(out.err, context.Canceled) && !errors.Is(out.err, context.DeadlineExceeded):
					goV = "error-is-not-the-context-error"
				case out.stats.Crashes != 0:
					goV = "crash"
				default:
					for _, g := range out.files {
						u, ok := unlByKey[fmKey(g)]
						if !ok {
							goV = "returns-a-file-the-search-without-deadline-does-not"
							break
						}
						if !reflect.DeepEqual(g, u) {
							goV = "file-differs-from-unlimited"
							break
						}
					}
				}
				if goV != "" {
					cs.Go = fmt.Sprintf("FAIL %s [query %s, scenario %s, streaming=%v]", goV, qname, sc.name, streaming)
					cs.Key = "stack:" + goV
				}
				switch {
				case hung:
				case out.err != nil:
					w.Count("stack/"+sc.name+"/returned-context-error", 1)
				case len(out.files) < len(unl.Files):
					w.Count("stack/"+sc.name+"/partial-results", 1)
				default:
					w.Count("stack/"+sc.name+"/all-results", 1)
				}
				if sc.gateFrom >= 0 && gate.waiting.Load() > 0 {
					w.Count("stack/"+sc.name+"/shards-were-waiting-in-List", 1)
				}
				w.Emit(cs)
			}
		}
	}
}

func bucket(n int) string {
	switch {
	case n == 0:
		return "0"
	case n < 4:
		return "1-3"
	default:
		return "4+"
	}
}
