// C21 harness: match limits and cancellation only remove whole files.
//
//	shard level — real shards (simple and compound, some files tombstoned) searched with the real indexData.Search under
//	              ShardMaxMatchCount / ShardRepoMaxMatchCount ∈ {0,1,2,small,large} and a context that turns cancelled
//	              after k polls of Done().  Every returned FileMatch is compared field by field with the unlimited one
//	              (Go oracle), and the loop is replayed in the Lean model (op "shard").
//	end to end  — the real shardedSearcher over several shards with TotalMaxMatchCount, Search and StreamSearch, real
//	              cancellation, past deadlines and MaxWallTime (op "total" + Go oracles).
package main

import (
	"context"
	"encoding/json"
	"fmt"
	"io"
	"log"
	"os"
	"path/filepath"
	"reflect"
	"runtime"
	"sort"
	"strings"
	"sync"
	"time"

	"github.com/sourcegraph/zoekt"
	"github.com/sourcegraph/zoekt/index"
	"github.com/sourcegraph/zoekt/query"
	"github.com/sourcegraph/zoekt/search"

	"verifharness/e3util"
	"verifharness/gen"
)

type cDoc struct {
	Name      string `json:"name"`
	Content   string `json:"content"`
	Tombstone bool   `json:"tombstone,omitempty"`
}
type cRepo struct {
	Name string `json:"name"`
	ID   uint32 `json:"id"`
	Docs []cDoc `json:"docs"`
}
type limits struct {
	ShardMax int `json:"shardMax"`
	RepoMax  int `json:"repoMax"`
	TotalMax int `json:"totalMax"`
	CancelAt int `json:"cancelAt"` // -1: never
}
type c21Case struct {
	Shards [][]cRepo `json:"shards"` // Shards[i] = the repositories of shard i (several = compound shard)
	Query  string    `json:"query"`
	Chunk  bool      `json:"chunk"`
	Ctx    int       `json:"ctx"`
	Limits []limits  `json:"limits"`
	Big    int       `json:"big,omitempty"` // > 0: one document has about this many matching lines
}

var lineVocab = []string{"", "foo", "foo foo", "bar foo baz", "needle", "xyz", "  foo()", "Foo bar", "é foo €", "qux", "foo needle foo", "bar", "foobar"}
var queries = []string{"case:yes foo", "foo", "const", "const", "needle", "foo or needle", "fo+", "foobar", "bar", "f:file1", "foo -needle"}

// queries for which the match tree proposes exactly the matching documents (a 3-byte literal: the trigram index is
// exact; const: every document) — there the model is compared including FilesConsidered / FilesSkipped and
// under cancellation
func tightPredicate(q string) func(d cDoc) bool {
	switch q {
	case "const":
		return func(cDoc) bool { return true }
	case "case:yes foo":
		return func(d cDoc) bool { return strings.Contains(d.Content, "foo") }
	case "foo":
		return func(d cDoc) bool { return strings.Contains(strings.ToLower(d.Content), "foo") }
	case "bar":
		return func(d cDoc) bool { return strings.Contains(strings.ToLower(d.Content), "bar") }
	}
	return nil
}

func parseQuery(s string) query.Q {
	if s == "const" {
		return &query.Const{Value: true}
	}
	q, err := query.Parse(s)
	if err != nil {
		panic(err)
	}
	return q
}

func pickLim(r *gen.Rand, total int) int {
	switch r.Intn(7) {
	case 0, 1:
		return 0
	case 2:
		return 1
	case 3:
		return 2
	case 4:
		return r.Range(1, max(total/2, 1))
	case 5:
		return r.Range(1, max(total, 1))
	default:
		return total + r.Range(0, 3)
	}
}

// bigDocSizes: numbers of matching lines of the "large document" layout — around powers of ten and other round numbers
// where size-dependent code paths (caps, pre-allocation, sampling) switch
var bigDocSizes = []int{64, 300, 999, 1000, 1001, 1500, 4000}

// genBigDocCase: one document has very many matches and the limits lie around its match count: the document that
// crosses a limit must still be returned whole.
func genBigDocCase(r *gen.Rand) c21Case {
	c := genCase(r)
	c.Query = gen.Pick(r, []string{"foo", "case:yes foo", "foo or needle", "fo+"})
	n := gen.Pick(r, bigDocSizes)
	var sb strings.Builder
	for i := 0; i < n; i++ {
		sb.WriteString(gen.Pick(r, []string{"foo\n", "x foo y\n", "foo\n", "foo foo\n"}))
		if r.Chance(1, 20) {
			sb.WriteString("plain\n")
		}
	}
	si := r.Intn(len(c.Shards))
	ri := r.Intn(len(c.Shards[si]))
	repo := &c.Shards[si][ri]
	di := r.Intn(len(repo.Docs))
	repo.Docs[di] = cDoc{Name: repo.Docs[di].Name, Content: sb.String()}
	c.Big = n
	c.Limits = nil
	for _, lim := range []int{1, 2, 10, n / 2, n - 1, n, n + 1, 2 * n} {
		l := limits{ShardMax: lim, CancelAt: -1, TotalMax: gen.Pick(r, []int{0, lim, 3 * n})}
		if r.Chance(1, 3) {
			l.RepoMax = gen.Pick(r, []int{1, lim, n + 5})
		}
		c.Limits = append(c.Limits, l)
	}
	return c
}

func genCase(r *gen.Rand) c21Case {
	c := c21Case{Query: gen.Pick(r, queries), Chunk: r.Bool(), Ctx: r.Intn(3)}
	nShards := r.Range(1, 4)
	rid := uint32(1)
	total := 0
	for s := 0; s < nShards; s++ {
		nRepos := 1
		if r.Chance(1, 2) {
			nRepos = r.Range(2, 4)
		}
		var repos []cRepo
		for k := 0; k < nRepos; k++ {
			repo := cRepo{Name: fmt.Sprintf("repo%02d", rid), ID: rid}
			rid++
			nDocs := r.Range(1, 6)
			for d := 0; d < nDocs; d++ {
				nl := r.Range(1, 8)
				var sb strings.Builder
				dense := r.Chance(2, 3)
				for l := 0; l < nl; l++ {
					if dense && r.Chance(1, 2) {
						sb.WriteString(gen.Pick(r, []string{"foo", "foo foo", "foo needle foo"}))
					} else {
						sb.WriteString(gen.Pick(r, lineVocab))
					}
					sb.WriteByte('\n')
				}
				doc := cDoc{Name: fmt.Sprintf("dir/file%d.go", d), Content: sb.String()}
				if nRepos == 1 && r.Chance(1, 6) {
					doc.Tombstone = true
				}
				total += strings.Count(doc.Content, "foo")
				repo.Docs = append(repo.Docs, doc)
			}
			repos = append(repos, repo)
		}
		c.Shards = append(c.Shards, repos)
	}
	nl := r.Range(3, 6)
	for i := 0; i < nl; i++ {
		l := limits{ShardMax: pickLim(r, total/nShards), RepoMax: pickLim(r, total/int(rid)), TotalMax: pickLim(r, total), CancelAt: -1}
		if r.Chance(1, 2) {
			l.RepoMax = 0
		}
		if r.Chance(1, 2) {
			l.CancelAt = gen.Pick(r, []int{0, 1, 2, 3, r.Range(1, 12), 1000})
		}
		c.Limits = append(c.Limits, l)
	}
	return c
}

func scratchDir() string {
	d := os.Getenv("VERIF_WORK")
	if d == "" {
		d = os.TempDir()
	}
	return filepath.Join(d, "c21-scratch")
}

type shardInfo struct {
	searcher zoekt.Searcher
	docs     []docInfo // in document order
}
type docInfo struct {
	repo int // ordinal of the repository inside the shard
	key  string
	doc  cDoc
}

func buildShard(repos []cRepo, name string) shardInfo {
	var parts [][]byte
	var info shardInfo
	for ri, rp := range repos {
		var docs []index.Document
		repo := &zoekt.Repository{Name: rp.Name, ID: rp.ID}
		for _, d := range rp.Docs {
			docs = append(docs, index.Document{Name: d.Name, Content: []byte(d.Content)})
			if d.Tombstone {
				if repo.FileTombstones == nil {
					repo.FileTombstones = map[string]struct{}{}
				}
				repo.FileTombstones[d.Name] = struct{}{}
			}
			info.docs = append(info.docs, docInfo{repo: ri, key: rp.Name + "\x00" + d.Name, doc: d})
		}
		parts = append(parts, e3util.ShardBytes(repo, docs))
	}
	data := parts[0]
	if len(parts) > 1 {
		data = e3util.Compound(scratchDir(), parts)
	}
	info.searcher = e3util.Open(data, name)
	return info
}

func fmKey(f zoekt.FileMatch) string { return f.Repository + "\x00" + f.FileName }

func fmCount(f zoekt.FileMatch) int {
	n := len(f.LineMatches)
	for _, c := range f.ChunkMatches {
		n += len(c.Ranges)
	}
	return n
}

// checkAgainstUnlimited: every returned file is a file of the unlimited result, identical in every field, in the same
// relative order.  Returns "" or a failure key.
func checkAgainstUnlimited(got, unl []zoekt.FileMatch) string {
	j := 0
	for _, g := range got {
		for j < len(unl) && fmKey(unl[j]) != fmKey(g) {
			j++
		}
		if j == len(unl) {
			return "file-not-in-unlimited-result-or-out-of-order"
		}
		if !reflect.DeepEqual(g, unl[j]) {
			return "file-differs-from-unlimited"
		}
		j++
	}
	return ""
}

func b2s(b bool) string {
	if b {
		return "1"
	}
	return "0"
}

func runShardLevel(w *gen.Writer, c c21Case, si int, sh shardInfo, class string, det json.RawMessage) {
	q := parseQuery(c.Query)
	base := zoekt.SearchOptions{ChunkMatches: c.Chunk, NumContextLines: c.Ctx}
	// document order as the shard has it: a match-all query lists every live document in order
	all, err := sh.searcher.Search(context.Background(), &query.Const{Value: true}, &zoekt.SearchOptions{})
	if err != nil {
		panic(err)
	}
	var live []string
	for _, d := range sh.docs {
		if !d.doc.Tombstone {
			live = append(live, d.key)
		}
	}
	if len(all.Files) != len(live) {
		panic(fmt.Sprintf("harness: shard lists %d live documents, expected %d", len(all.Files), len(live)))
	}
	for i, f := range all.Files {
		if fmKey(f) != live[i] {
			panic("harness: document order differs from construction order")
		}
	}
	o := base
	unl, err := sh.searcher.Search(context.Background(), q, &o)
	if err != nil {
		panic(err)
	}
	counts := map[string]int{}
	for _, f := range unl.Files {
		counts[fmKey(f)] = fmCount(f)
	}
	tight := tightPredicate(c.Query)
	idx := map[string]int{}
	var docFields []string
	for i, d := range sh.docs {
		idx[d.key] = i
		cnt := "x"
		if n, ok := counts[d.key]; ok {
			cnt = fmt.Sprint(n)
		}
		cand := true
		if tight != nil {
			cand = tight(d.doc)
		} else {
			_, cand = counts[d.key]
		}
		docFields = append(docFields, fmt.Sprintf("%d:%s:%s:%s", d.repo, b2s(d.doc.Tombstone), b2s(cand), cnt))
	}
	docsStr := strings.Join(docFields, ",")
	for _, l := range c.Limits {
		o := base
		o.ShardMaxMatchCount, o.ShardRepoMaxMatchCount = l.ShardMax, l.RepoMax
		cctx := e3util.NewCountingCtx(context.Background(), l.CancelAt)
		start := time.Now()
		res, err := sh.searcher.Search(cctx, q, &o)
		el := time.Since(start)
		cs := gen.Case{Class: class + "/shard", Detail: det, Nontrivial: len(unl.Files) >= 2}
		goV := ""
		switch {
		case err != nil:
			goV = "search-error"
		case res.Stats.Crashes != 0:
			goV = "crash"
		case el > 10*time.Second:
			goV = "not-prompt-wallclock"
		default:
			goV = checkAgainstUnlimited(res.Files, unl.Files)
			if goV == "" && l.CancelAt >= 0 && len(res.Files) > max(l.CancelAt-1, 0) {
				goV = "not-prompt"
			}
			if goV == "" && (res.Stats.MatchCount != matchSum(res.Files) || res.Stats.FileCount != len(res.Files)) {
				goV = "stats-disagree-with-files"
			}
		}
		if goV != "" {
			cs.Go, cs.Key = "FAIL "+goV, "shard:"+goV
		} else {
			cs.Go = "ok"
		}
		if err == nil {
			var ids []int
			for _, f := range res.Files {
				ids = append(ids, idx[fmKey(f)])
			}
			ca := "-"
			if l.CancelAt >= 0 {
				ca = fmt.Sprint(l.CancelAt)
			}
			if tight != nil {
				cs.In = fmt.Sprintf("shard %d %d %s full %s", max(l.ShardMax, 0), max(l.RepoMax, 0), ca, docsStr)
				cs.Impl = fmt.Sprintf("files=%s considered=%d skipped=%d shardskipped=%d", gen.NatList(ids), res.Stats.FilesConsidered, res.Stats.FilesSkipped, res.Stats.ShardsSkipped)
				cs.Class += "/full"
			} else if l.CancelAt < 0 {
				cs.In = fmt.Sprintf("shard %d %d %s files %s", max(l.ShardMax, 0), max(l.RepoMax, 0), ca, docsStr)
				cs.Impl = fmt.Sprintf("files=%s", gen.NatList(ids))
				cs.Class += "/files"
			} else {
				cs.Class += "/go-only"
			}
			if len(res.Files) < len(unl.Files) {
				w.Count(fmt.Sprintf("shard/removed-files/shardMax=%v,repoMax=%v,cancel=%v", l.ShardMax > 0, l.RepoMax > 0, l.CancelAt >= 0), 1)
			}
		}
		_ = si
		w.Emit(cs)
	}
}

func matchSum(fs []zoekt.FileMatch) int {
	n := 0
	for _, f := range fs {
		n += fmCount(f)
	}
	return n
}

// countingSearcher wraps a shard and records the order in which Search calls on it complete.
type countingSearcher struct {
	zoekt.Searcher
	idx int
	mu  *sync.Mutex
	log *[]int
}

func (c *countingSearcher) Search(ctx context.Context, q query.Q, opts *zoekt.SearchOptions) (*zoekt.SearchResult, error) {
	res, err := c.Searcher.Search(ctx, q, opts)
	c.mu.Lock()
	*c.log = append(*c.log, c.idx)
	c.mu.Unlock()
	return res, err
}

type collectEvents struct {
	mu    sync.Mutex
	files []zoekt.FileMatch
	stats zoekt.Stats
	on    func(r *zoekt.SearchResult)
}

func (c *collectEvents) Send(r *zoekt.SearchResult) {
	c.mu.Lock()
	c.files = append(c.files, r.Files...)
	c.stats.Add(r.Stats)
	c.mu.Unlock()
	if c.on != nil {
		c.on(r)
	}
}

func runSharded(w *gen.Writer, c c21Case, shards []shardInfo, class string, det json.RawMessage) {
	q := parseQuery(c.Query)
	base := zoekt.SearchOptions{ChunkMatches: c.Chunk, NumContextLines: c.Ctx}
	var mu sync.Mutex
	var order []int
	var wrapped []zoekt.Searcher
	for i, sh := range shards {
		wrapped = append(wrapped, &countingSearcher{Searcher: sh.searcher, idx: i, mu: &mu, log: &order})
	}
	ss := search.VerifShardedSearcher(4, wrapped)
	defer ss.Close()
	// shards are ranked by the name of their first repository: construction order
	o := base
	unl, err := ss.Search(context.Background(), q, &o)
	if err != nil {
		panic(err)
	}
	unlByKey := map[string]zoekt.FileMatch{}
	for _, f := range unl.Files {
		unlByKey[fmKey(f)] = f
	}
	shardOf := map[string]int{}
	for i, sh := range shards {
		for _, d := range sh.docs {
			shardOf[d.key] = i
		}
	}
	workers := min(runtime.GOMAXPROCS(0), len(shards))

	// files must be whole files of the unlimited result; per shard they must be exactly what that shard returns alone
	// under the same options, or nothing
	oracle := func(got []zoekt.FileMatch, perShard []*zoekt.SearchResult, searched map[int]bool, exactShards bool) string {
		byShard := map[int][]zoekt.FileMatch{}
		for _, g := range got {
			u, ok := unlByKey[fmKey(g)]
			if !ok {
				return "file-not-in-unlimited-result"
			}
			// the aggregate re-ranks; everything else must be identical
			if !reflect.DeepEqual(g, u) {
				return "file-differs-from-unlimited"
			}
			byShard[shardOf[fmKey(g)]] = append(byShard[shardOf[fmKey(g)]], g)
		}
		if !exactShards {
			return ""
		}
		for i := range shards {
			want := map[string]bool{}
			if searched[i] {
				for _, f := range perShard[i].Files {
					want[fmKey(f)] = true
				}
			}
			if len(byShard[i]) != len(want) {
				return "shard-result-not-whole"
			}
			for _, f := range byShard[i] {
				if !want[fmKey(f)] {
					return "shard-result-not-whole"
				}
			}
		}
		return ""
	}

	for _, l := range c.Limits {
		o := base
		o.ShardMaxMatchCount, o.ShardRepoMaxMatchCount, o.TotalMaxMatchCount = l.ShardMax, l.RepoMax, l.TotalMax
		// what each shard returns alone under these options
		perShard := make([]*zoekt.SearchResult, len(shards))
		var counts []int
		for i, sh := range shards {
			oo := o
			r, err := sh.searcher.Search(context.Background(), q, &oo)
			if err != nil {
				panic(err)
			}
			perShard[i] = r
			counts = append(counts, r.Stats.MatchCount)
		}
		for _, streaming := range []bool{false, true} {
			mu.Lock()
			order = order[:0]
			mu.Unlock()
			oo := o
			var files []zoekt.FileMatch
			var stats zoekt.Stats
			var err error
			if streaming {
				var ev collectEvents
				err = ss.StreamSearch(context.Background(), q, &oo, &ev)
				files, stats = ev.files, ev.stats
			} else {
				var r *zoekt.SearchResult
				r, err = ss.Search(context.Background(), q, &oo)
				if r != nil {
					files, stats = r.Files, r.Stats
				}
			}
			mu.Lock()
			sent := append([]int(nil), order...)
			mu.Unlock()
			searched := map[int]bool{}
			for _, i := range sent {
				searched[i] = true
			}
			cs := gen.Case{Class: class + "/total", Detail: det, Nontrivial: len(shards) >= 2 && l.TotalMax > 0}
			goV := ""
			if err != nil {
				goV = "search-error"
			} else if stats.Crashes != 0 {
				goV = "crash"
			} else {
				goV = oracle(files, perShard, searched, true)
			}
			if goV != "" {
				cs.Go, cs.Key = "FAIL "+goV, "total:"+goV
			} else {
				cs.Go = "ok"
			}
			if err == nil {
				cs.In = fmt.Sprintf("total %d %d %s %s", max(l.TotalMax, 0), 2*workers, gen.NatList(counts), gen.NatList(sent))
				cs.Impl = fmt.Sprintf("k=%d matches=%d", len(sent), stats.MatchCount)
				if len(sent) < len(shards) {
					w.Count("total/stopped-before-last-shard", 1)
				}
			}
			w.Emit(cs)
		}
	}

	// the same with four streamSearch workers: results arrive in any order; only the oracles apply
	// (whole files of the unlimited result; per shard the whole shard result or nothing)
	if len(shards) >= 2 {
		runtime.GOMAXPROCS(4)
		for _, l := range c.Limits {
			o := base
			o.ShardMaxMatchCount, o.ShardRepoMaxMatchCount, o.TotalMaxMatchCount = l.ShardMax, l.RepoMax, l.TotalMax
			perShard := make([]*zoekt.SearchResult, len(shards))
			for i, sh := range shards {
				oo := o
				r, err := sh.searcher.Search(context.Background(), q, &oo)
				if err != nil {
					panic(err)
				}
				perShard[i] = r
			}
			for _, streaming := range []bool{false, true} {
				mu.Lock()
				order = order[:0]
				mu.Unlock()
				oo := o
				var files []zoekt.FileMatch
				var stats zoekt.Stats
				var err error
				if streaming {
					var ev collectEvents
					err = ss.StreamSearch(context.Background(), q, &oo, &ev)
					files, stats = ev.files, ev.stats
				} else {
					var r *zoekt.SearchResult
					r, err = ss.Search(context.Background(), q, &oo)
					if r != nil {
						files, stats = r.Files, r.Stats
					}
				}
				mu.Lock()
				searched := map[int]bool{}
				for _, i := range order {
					searched[i] = true
				}
				mu.Unlock()
				cs := gen.Case{Class: class + "/total-4-workers", Detail: det, Nontrivial: l.TotalMax > 0, Go: "ok"}
				goV := ""
				if err != nil {
					goV = "search-error"
				} else if stats.Crashes != 0 {
					goV = "crash"
				} else {
					goV = oracle(files, perShard, searched, true)
				}
				if goV != "" {
					cs.Go, cs.Key = "FAIL "+goV, "total:"+goV
				}
				w.Emit(cs)
			}
		}
		runtime.GOMAXPROCS(1)
	}

	// real cancellation: already cancelled, deadline in the past, MaxWallTime, cancel from the first event with files
	type variant struct {
		name string
		ctx  func() (context.Context, context.CancelFunc)
		wall time.Duration
		mid  bool
	}
	variants := []variant{
		{name: "pre-cancelled", ctx: func() (context.Context, context.CancelFunc) {
			c, f := context.WithCancel(context.Background())
			f()
			return c, f
		}},
		{name: "past-deadline", ctx: func() (context.Context, context.CancelFunc) {
			return context.WithDeadline(context.Background(), time.Now().Add(-time.Second))
		}},
		{name: "max-wall-time", ctx: func() (context.Context, context.CancelFunc) { return context.WithCancel(context.Background()) }, wall: time.Nanosecond},
		{name: "cancel-mid-stream", ctx: func() (context.Context, context.CancelFunc) { return context.WithCancel(context.Background()) }, mid: true},
	}
	for _, v := range variants {
		for _, streaming := range []bool{false, true} {
			if v.mid && !streaming {
				continue
			}
			ctx, cancel := v.ctx()
			oo := base
			oo.MaxWallTime = v.wall
			var files []zoekt.FileMatch
			var stats zoekt.Stats
			var err error
			start := time.Now()
			func() {
				defer func() {
					if e := recover(); e != nil {
						err = fmt.Errorf("PANIC: %v", e)
					}
				}()
				if streaming {
					ev := collectEvents{}
					if v.mid {
						ev.on = func(r *zoekt.SearchResult) {
							if len(r.Files) > 0 {
								cancel()
							}
						}
					}
					err = ss.StreamSearch(ctx, q, &oo, &ev)
					files, stats = ev.files, ev.stats
				} else {
					var r *zoekt.SearchResult
					r, err = ss.Search(ctx, q, &oo)
					if r != nil {
						files, stats = r.Files, r.Stats
					}
				}
			}()
			el := time.Since(start)
			cancel()
			cs := gen.Case{Class: class + "/cancel/" + v.name, Detail: det, Nontrivial: true}
			goV := ""
			switch {
			case err != nil && strings.HasPrefix(err.Error(), "PANIC"):
				goV = "panic"
			case err != nil && err != context.Canceled && err != context.DeadlineExceeded && !strings.Contains(err.Error(), "context"):
				goV = "unexpected-error"
			case stats.Crashes != 0:
				goV = "crash"
			case el > 10*time.Second:
				goV = "not-prompt-wallclock"
			default:
				goV = oracle(files, nil, nil, false)
			}
			if goV != "" {
				cs.Go, cs.Key = "FAIL "+goV, "cancel:"+goV
			} else {
				cs.Go = "ok"
			}
			if err != nil {
				w.Count("cancel/returned-context-error", 1)
			} else if len(files) < len(unl.Files) {
				w.Count("cancel/partial-results", 1)
			}
			w.Emit(cs)
		}
	}
}

// schedLimit: how long after its context is done a search may take to return (generous: the machine may be loaded)
var schedLimit = 4 * time.Second

func runCase(w *gen.Writer, c c21Case, class string, withSched, withStack bool) {
	det := gen.Detail(map[string]any{"c21": c})
	if class == "" {
		class = "gen"
		if c.Big > 0 {
			class = "gen-bigdoc"
			w.Count(fmt.Sprintf("bigdoc/%d-matching-lines", c.Big), 1)
		}
	}
	var shards []shardInfo
	for i, repos := range c.Shards {
		shards = append(shards, buildShard(repos, fmt.Sprintf("shard%d", i)))
	}
	for i, sh := range shards {
		runShardLevel(w, c, i, sh, class, det)
	}
	runSharded(w, c, shards, class, det)
	if withSched {
		runSched(w, c, shards, class, det, schedLimit)
	}
	if withStack {
		runStack(w, c, shards, class, det, schedLimit)
	}
}

type replayFile struct {
	Case struct {
		Detail json.RawMessage `json:"detail"`
	} `json:"case"`
	Detail json.RawMessage `json:"detail"`
}

func loadCase(path string) c21Case {
	b, err := os.ReadFile(path)
	if err != nil {
		panic(err)
	}
	var rf replayFile
	if err := json.Unmarshal(b, &rf); err != nil {
		panic(err)
	}
	raw := rf.Case.Detail
	if len(raw) == 0 {
		raw = rf.Detail
	}
	var d struct {
		C *c21Case `json:"c21"`
	}
	if err := json.Unmarshal(raw, &d); err != nil || d.C == nil {
		panic(fmt.Sprintf("no c21 case in %s", path))
	}
	return *d.C
}

func main() {
	f := gen.ParseFlags()
	log.SetOutput(io.Discard)
	runtime.GOMAXPROCS(1) // one streamSearch worker: shards are searched and delivered in rank order
	w := gen.NewWriter(f.Out)
	defer w.Close()
	if f.Replay != "" {
		runCase(w, loadCase(f.Replay), "replay", true, true)
		return
	}
	if f.Corpus != "" {
		names, _ := filepath.Glob(filepath.Join(f.Corpus, "*.json"))
		sort.Strings(names)
		for _, n := range names {
			runCase(w, loadCase(n), "corpus", true, true)
		}
	}
	r := gen.NewRand(f.Seed)
	n := f.N(120, 1500)
	budget := 30 * time.Second // quick tier: stay within ~60 s whatever the machine load
	if f.Tier == "thorough" {
		budget = 12 * time.Minute
	}
	start := time.Now()
	for i := 0; i < n; i++ {
		switch {
		case i%4 == 1: // a large document with limits around its match count
			runCase(w, genBigDocCase(r.Fork()), "", false, false)
		default:
			runCase(w, genCase(r.Fork()), "", i%2 == 0, i%3 == 0)
		}
		if time.Since(start) > budget {
			w.Count("stopped-early-at", i)
			break
		}
	}
}
