package main

// Scheduler scenarios for C21: "a cancelled or timed-out search finishes promptly with partial results or the
// context's error" for searches that outlive their interactive time slice.
//
// streamSearch calls proc.Yield(ctx) at the top of every iteration of its dispatch/receive loop.  Once the time slice
// is used up, Yield moves the search from the interactive to the batch queue; that blocks while the batch queue is
// full and fails when the context becomes done first (and keeps failing afterwards).  None of this is reachable with
// the default 5 s slice, so the scenarios below build the real shardedSearcher over the real multiScheduler with an
// injected slice (hooks of C19/C20: VerifNewShardedSearcherSched, VerifSched) and arrange, deterministically:
//
//	free      slice already used up, batch queue free: the search moves to batch and must return everything
//	walltime  slice used up, batch queue held by another process, MaxWallTime expires while the search is queued
//	cancel    the same, the caller cancels once the scheduler shows the search waiting in the batch queue
//	midway    the slice expires in the middle of the search (the k-th shard is slow), batch queue held:
//	          shard results are pending when Yield starts to fail
//	instant   slice used up and a deadline that has passed at the first Yield
//
// Oracle (shares nothing with the implementation): the search returns within `limit` after its context is done,
// with the context's error or with files that are whole files of the unlimited result, no crash, and afterwards
// the scheduler holds no slot for it.

import (
	"context"
	"encoding/json"
	"errors"
	"fmt"
	"reflect"
	"strings"
	"sync"
	"sync/atomic"
	"time"

	"github.com/sourcegraph/zoekt"
	"github.com/sourcegraph/zoekt/query"
	"github.com/sourcegraph/zoekt/search"

	"verifharness/gen"
)

// hungSearches counts searches that never returned: each leaves a goroutine behind, so the scenarios stop after a few.
var hungSearches atomic.Int32

const maxHung = 2

// slowSearcher delays the k-th Search call on any of the wrapped shards (k counted over the whole sharded search).
type slowSearcher struct {
	zoekt.Searcher
	calls *atomic.Int32
	slowK int32
	delay time.Duration
}

func (s *slowSearcher) Search(ctx context.Context, q query.Q, opts *zoekt.SearchOptions) (*zoekt.SearchResult, error) {
	if s.calls.Add(1) == s.slowK {
		time.Sleep(s.delay)
	}
	return s.Searcher.Search(ctx, q, opts)
}

type schedScenario struct {
	name             string
	interactive      time.Duration // the injected time slice (negative: already used up at the first Yield)
	hog              bool          // another process holds the whole batch queue
	wall             time.Duration // MaxWallTime
	cancelWhenQueued bool          // cancel the caller's context once the search waits in the batch queue
	slowK            int           // > 0: the k-th shard search sleeps for 20 slices
}

type searchOut struct {
	files []zoekt.FileMatch
	stats zoekt.Stats
	err   error
}

func runSched(w *gen.Writer, c c21Case, shards []shardInfo, class string, det json.RawMessage, limit time.Duration) {
	if hungSearches.Load() >= maxHung {
		w.Count("sched/skipped-after-hangs", 1)
		return
	}
	q := parseQuery(c.Query)
	base := zoekt.SearchOptions{ChunkMatches: c.Chunk, NumContextLines: c.Ctx}

	// the unlimited result through a sharded searcher with the default scheduler
	var plain []zoekt.Searcher
	for _, sh := range shards {
		plain = append(plain, sh.searcher)
	}
	ref := search.VerifShardedSearcher(4, plain)
	o := base
	unl, err := ref.Search(context.Background(), q, &o)
	if err != nil {
		panic(err)
	}
	unlByKey := map[string]zoekt.FileMatch{}
	for _, f := range unl.Files {
		unlByKey[fmKey(f)] = f
	}

	scenarios := []schedScenario{
		{name: "free", interactive: -time.Second},
		{name: "walltime", interactive: -time.Second, hog: true, wall: 15 * time.Millisecond},
		{name: "cancel", interactive: -time.Second, hog: true, cancelWhenQueued: true},
		{name: "midway-walltime", interactive: time.Millisecond, hog: true, wall: 60 * time.Millisecond, slowK: 1 + int(c.Ctx+len(c.Query))%max(len(shards), 1)},
		{name: "midway-cancel", interactive: time.Millisecond, hog: true, cancelWhenQueued: true, slowK: 1 + int(c.Ctx+len(c.Limits))%max(len(shards), 1)},
		{name: "instant", interactive: -time.Second, wall: time.Nanosecond},
		{name: "instant-full", interactive: -time.Second, hog: true, wall: time.Nanosecond},
	}
	for _, sc := range scenarios {
		for _, streaming := range []bool{false, true} {
			if hungSearches.Load() >= maxHung {
				w.Count("sched/skipped-after-hangs", 1)
				return
			}
			runSchedScenario(w, sc, streaming, shards, q, base, unl.Files, unlByKey, class, det, limit)
		}
	}
}

func runSchedScenario(w *gen.Writer, sc schedScenario, streaming bool, shards []shardInfo, q query.Q, base zoekt.SearchOptions,
	unl []zoekt.FileMatch, unlByKey map[string]zoekt.FileMatch, class string, det json.RawMessage, limit time.Duration) {
	vs := search.VerifNewShardedSearcherSched(4, 0, sc.interactive) // capacity 4: interactive 4 slots, batch 1 slot
	var calls atomic.Int32
	m := map[string]zoekt.Searcher{}
	for i, sh := range shards {
		var s zoekt.Searcher = sh.searcher
		if sc.slowK > 0 {
			s = &slowSearcher{Searcher: s, calls: &calls, slowK: int32(sc.slowK), delay: 20 * time.Millisecond}
		}
		m[fmt.Sprintf("verif-shard-%06d", i)] = s
	}
	vs.Replace(m)
	vs.MarkReady()
	ss := vs.Streamer()
	sched := vs.Sched()

	var hog *search.VerifProc
	if sc.hog {
		var err error
		hog, err = sched.Acquire(context.Background())
		if err != nil {
			panic(err)
		}
		hog.Expire()
		if err := hog.Yield(context.Background()); err != nil || !hog.Yielded() {
			panic("harness: the hog process did not move to the batch queue")
		}
	}

	ctx, cancel := context.WithCancel(context.Background())
	defer cancel()
	o := base
	o.MaxWallTime = sc.wall
	done := make(chan searchOut, 1)
	start := time.Now()
	go func() {
		var out searchOut
		defer func() {
			if e := recover(); e != nil {
				out.err = fmt.Errorf("PANIC: %v", e)
			}
			done <- out
		}()
		if streaming {
			var ev collectEvents
			out.err = ss.StreamSearch(ctx, q, &o, &ev)
			ev.mu.Lock()
			out.files, out.stats = ev.files, ev.stats
			ev.mu.Unlock()
		} else {
			r, err := ss.Search(ctx, q, &o)
			out.err = err
			if r != nil {
				out.files, out.stats = r.Files, r.Stats
			}
		}
	}()

	// when is the search's context done?
	ctxDone := start.Add(sc.wall)
	queued := false
	var early *searchOut
	if sc.cancelWhenQueued {
		deadline := time.Now().Add(2 * time.Second)
	wait:
		for time.Now().Before(deadline) {
			if sched.Snapshot().WaitB >= 1 {
				queued = true
				break
			}
			select {
			case out := <-done: // finished without ever queueing (e.g. every shard was searched within the slice)
				early = &out
				break wait
			case <-time.After(200 * time.Microsecond):
			}
		}
		cancel()
		ctxDone = time.Now()
	} else if sc.wall == 0 {
		ctxDone = time.Time{} // never
	}

	cl := fmt.Sprintf("%s/sched/%s", class, sc.name)
	cs := gen.Case{Class: cl, Detail: det, Nontrivial: sc.hog || sc.wall > 0}
	var out searchOut
	hung := false
	if early != nil {
		out = *early
	} else {
		wait := limit
		if !ctxDone.IsZero() {
			wait = time.Until(ctxDone) + limit
		} else {
			wait = 10 * limit
		}
		select {
		case out = <-done:
		case <-time.After(wait):
			hung = true
		}
	}
	elapsedAfterDone := time.Duration(0)
	if !ctxDone.IsZero() {
		elapsedAfterDone = time.Since(ctxDone)
	}

	goV := ""
	switch {
	case hung:
		hungSearches.Add(1)
		goV = "never-returns-after-context-done"
		if ctxDone.IsZero() {
			goV = "never-returns"
		}
	case out.err != nil && strings.HasPrefix(out.err.Error(), "PANIC"):
		goV = "panic"
	case out.err != nil && !errors.Is(out.err, context.Canceled) && !errors.Is(out.err, context.DeadlineExceeded):
		goV = "error-is-not-the-context-error"
	case out.stats.Crashes != 0:
		goV = "crash"
	default:
		for _, g := range out.files {
			u, ok := unlByKey[fmKey(g)]
			if !ok {
				goV = "file-not-in-unlimited-result"
				break
			}
			if !reflect.DeepEqual(g, u) {
				goV = "file-differs-from-unlimited"
				break
			}
		}
		if goV == "" && out.err == nil && sc.wall == 0 && !sc.cancelWhenQueued && len(out.files) != len(unl) {
			goV = "search-moved-to-batch-loses-results" // nothing was cancelled: everything must be there
		}
	}
	if hog != nil {
		hog.Release()
	}
	if goV == "" && !hung {
		// the search is over: no slot may be left behind
		ok := false
		var snap search.VerifSemaSnap
		for i := 0; i < 200; i++ {
			snap = sched.SnapshotAtomic()
			if snap.CurI == 0 && snap.CurB == 0 && snap.WaitI == 0 && snap.WaitB == 0 {
				ok = true
				break
			}
			time.Sleep(time.Millisecond)
		}
		if !ok {
			goV = fmt.Sprintf("scheduler-slot-left-behind(%+v)", snap)
		}
	}
	if goV != "" {
		key := goV
		if i := strings.IndexByte(key, '('); i >= 0 {
			key = key[:i]
		}
		cs.Go, cs.Key = "FAIL "+goV+fmt.Sprintf(" [scenario %s, streaming=%v]", sc.name, streaming), "sched:"+key
	} else {
		cs.Go = "ok"
	}
	switch {
	case hung:
	case out.err != nil:
		w.Count("sched/"+sc.name+"/returned-context-error", 1)
	case len(out.files) < len(unl):
		w.Count("sched/"+sc.name+"/partial-results", 1)
	default:
		w.Count("sched/"+sc.name+"/all-results", 1)
	}
	if sc.cancelWhenQueued {
		if queued {
			w.Count("sched/"+sc.name+"/cancelled-while-waiting-in-batch-queue", 1)
		} else {
			w.Count("sched/"+sc.name+"/finished-before-queueing", 1)
		}
	}
	if elapsedAfterDone > 500*time.Millisecond && !hung {
		w.Count("sched/returned-later-than-500ms-after-context-done", 1)
	}
	w.Emit(cs)
}

var _ sync.Mutex
