// C08 harness: case-insensitive literal search as a substring vs as the equivalent regexp.
//
//	correspondence (exact): generateCaseNgrams, toLower + caseFoldingEqualsRunes via candidateMatch.matchContent, and whole
//	                        searches (real shard, query.Substring vs query.Regexp{lit(?:)}) against the Lean model
//	failing-input search:   the two query forms must return the same files and ranges (Lean checkP + Go oracle with naive
//	                        reference scans that share no code with zoekt); an exhaustive pass over all code points finds every
//	                        (pattern rune, text rune) pair on which simple-fold orbit membership and the lower-casing test
//	                        disagree, and a targeted shard search is run for each of them.
package main

import (
	"encoding/json"
	"fmt"
	"os"
	"path/filepath"
	"regexp/syntax"
	"sort"
	"strings"
	"unicode"
	"unicode/utf8"

	grafana "github.com/grafana/regexp"
	"github.com/sourcegraph/zoekt"
	"github.com/sourcegraph/zoekt/index"
	"github.com/sourcegraph/zoekt/query"
	"github.com/sourcegraph/zoekt/verifhooks"

	"verifharness/gen"
)

type detail struct {
	Pattern string   `json:"pattern"`
	Docs    []string `json:"docs,omitempty"`
	Note    string   `json:"note,omitempty"`
}

// ---------- independent reference semantics (Go's unicode tables only) ----------

func inOrbit(c, d rune) bool {
	for _, o := range gen.Orbit(c) {
		if o == d {
			return true
		}
	}
	return false
}

// lowerEq: the substring path's rune test as its comment describes it — needle lower-cased, text rune lower-cased,
// with plain ASCII lower-casing when both are ASCII.
func lowerEq(c, d rune) bool {
	l := unicode.ToLower(c)
	if l < 128 && d < 128 {
		if d >= 'A' && d <= 'Z' {
			d += 32
		}
		return l == d
	}
	return l == unicode.ToLower(d)
}

type span struct{ Off, Sz int }

func refScan(pat, doc []rune, eq func(c, d rune) bool) []span {
	var out []span
	lastEnd := 0
	off := 0
	for p := 0; p+len(pat) <= len(doc); p++ {
		ok := true
		sz := 0
		for k, c := range pat {
			if !eq(c, doc[p+k]) {
				ok = false
				break
			}
			sz += utf8.RuneLen(doc[p+k])
		}
		if ok && off >= lastEnd {
			out = append(out, span{off, sz})
			lastEnd = off + sz
		}
		off += utf8.RuneLen(doc[p])
	}
	return out
}

// ---------- wire ----------

func runesDot(rs []rune) string {
	if len(rs) == 0 {
		return "-"
	}
	var parts []string
	for _, r := range rs {
		parts = append(parts, fmt.Sprint(int(r)))
	}
	return strings.Join(parts, ".")
}

func tables(sets ...[]rune) string {
	seen := map[rune]bool{}
	var all []rune
	for _, s := range sets {
		for _, r := range s {
			for _, o := range gen.Orbit(r) {
				if !seen[o] {
					seen[o] = true
					all = append(all, o)
				}
			}
			if l := unicode.ToLower(r); !seen[l] {
				seen[l] = true
				all = append(all, l)
			}
		}
	}
	sort.Slice(all, func(i, j int) bool { return all[i] < all[j] })
	var f, l []string
	for _, r := range all {
		if n := unicode.SimpleFold(r); n != r {
			f = append(f, fmt.Sprintf("%d:%d", r, n))
		}
		if n := unicode.ToLower(r); n != r {
			l = append(l, fmt.Sprintf("%d:%d", r, n))
		}
	}
	j := func(x []string) string {
		if len(x) == 0 {
			return "-"
		}
		return strings.Join(x, ",")
	}
	return "f=" + j(f) + " l=" + j(l)
}

func resString(res [][]span) string {
	var docs []string
	for _, d := range res {
		if len(d) == 0 {
			docs = append(docs, "-")
			continue
		}
		var ps []string
		for _, s := range d {
			ps = append(ps, fmt.Sprintf("%d:%d", s.Off, s.Sz))
		}
		docs = append(docs, strings.Join(ps, ","))
	}
	return strings.Join(docs, "|")
}

// ---------- real searches ----------

func search(s zoekt.Searcher, q query.Q, ndocs int) ([][]span, error) {
	m, err := searchRanges(s, q)
	if err != nil {
		return nil, err
	}
	out := make([][]span, ndocs)
	for i := range out {
		for _, r := range m[fmt.Sprintf("f%03d", i)] {
			out[i] = append(out[i], span{r[0], r[1] - r[0]})
		}
	}
	return out, nil
}

func eqRes(a, b [][]span) bool { return resString(a) == resString(b) }

func litRe(pat []rune) *syntax.Regexp {
	return &syntax.Regexp{Op: syntax.OpLiteral, Rune: append([]rune(nil), pat...)}
}

type runner struct {
	w *gen.Writer
}

// pairKey names the class of a (pattern rune, text rune) pair on which orbit membership and the lower-casing test disagree.
func pairKey(c, d rune) string {
	if lowerEq(c, d) { // lower-equal, outside the orbit: name the rune whose lower case leaves its own orbit
		odd := d
		if !inOrbit(c, unicode.ToLower(c)) {
			odd = c
		}
		return fmt.Sprintf("lower-outside-orbit:U+%04X", odd)
	}
	m := c
	for _, x := range gen.Orbit(c) {
		if x < m {
			m = x
		}
	}
	return fmt.Sprintf("orbit-split-by-lower:U+%04X", m)
}

// classify names the cause of a difference between the two query forms on (pat, docs) for the failure key.
func classify(pat []rune, docs [][]rune, sRes, rRes [][]span) string {
	for i, doc := range docs {
		if fmt.Sprint(sRes[i]) == fmt.Sprint(rRes[i]) {
			continue
		}
		ro := refScan(pat, doc, inOrbit)
		rl := refScan(pat, doc, lowerEq)
		if fmt.Sprint(ro) != fmt.Sprint(rl) {
			// the tables disagree on this document: name the first disagreeing aligned pair
			for p := 0; p+len(pat) <= len(doc); p++ {
				for k, c := range pat {
					d := doc[p+k]
					o, l := inOrbit(c, d), lowerEq(c, d)
					if o == l {
						continue
					}
					return pairKey(c, d)
				}
			}
			return "fold-tables:unlocated"
		}
		// tables agree here: one of the paths deviates from the common reference
		if fmt.Sprint(rRes[i]) != fmt.Sprint(ro) {
			for _, d := range doc {
				for _, o := range gen.Orbit(d) {
					if utf8.RuneLen(o) != utf8.RuneLen(d) {
						return "regexp-engine:foldcase-bytelen"
					}
				}
			}
			return "regexp-engine:other"
		}
		return "substring-path:unexpected"
	}
	return "none"
}

func (rn *runner) searchCase(pat []rune, docs [][]rune, class string) {
	w := rn.w
	det := detail{Pattern: string(pat)}
	for _, d := range docs {
		det.Docs = append(det.Docs, string(d))
	}
	b, err := index.NewShardBuilder(&zoekt.Repository{Name: "r"})
	if err != nil {
		panic(err)
	}
	for i, d := range docs {
		if err := b.Add(index.Document{Name: fmt.Sprintf("f%03d", i), Content: []byte(string(d))}); err != nil {
			panic(err)
		}
	}
	s := searcherFor(b)
	defer s.Close()

	qS := &query.Substring{Pattern: string(pat), Content: true, CaseSensitive: false}
	qR := &query.Regexp{Regexp: &syntax.Regexp{Op: syntax.OpConcat, Sub: []*syntax.Regexp{litRe(pat), {Op: syntax.OpEmptyMatch}}}, Content: true, CaseSensitive: false}
	qL := &query.Regexp{Regexp: litRe(pat), Content: true, CaseSensitive: false}
	sRes, err1 := search(s, qS, len(docs))
	rRes, err2 := search(s, qR, len(docs))
	lRes, err3 := search(s, qL, len(docs))
	if err1 != nil || err2 != nil || err3 != nil {
		w.Emit(gen.Case{Go: fmt.Sprintf("search error: %v %v %v", err1, err2, err3), Key: "search-error", Class: class, Detail: gen.Detail(det)})
		return
	}
	goV, key := "", ""
	if !eqRes(sRes, rRes) {
		key = classify(pat, docs, sRes, rRes)
		goV = fmt.Sprintf("substring form and regexp form differ: substring=%s regexp=%s", resString(sRes), resString(rRes))
	} else if !eqRes(sRes, lRes) {
		key = "literal-regexp-tree-differs"
		goV = fmt.Sprintf("query.Regexp{literal} (same match tree by construction) differs from query.Substring: %s vs %s", resString(lRes), resString(sRes))
	}
	// the public parser path: "(?i)lit" (RegexpQuery's literal → substring optimisation) vs "(?i)lit(?:)"
	if goV == "" && wordy(pat) {
		rn.parserPath(s, pat, docs, sRes, rRes, det)
	}
	// reference bookkeeping (not a verdict): do both forms implement Unicode simple folding?
	uni := true
	for i, d := range docs {
		if fmt.Sprint(refScan(pat, d, inOrbit)) != fmt.Sprint(sRes[i]) {
			uni = false
		}
	}
	if !uni && goV == "" {
		w.Count("forms-agree-but-differ-from-simple-folding", 1)
	}
	var dl []string
	for _, d := range docs {
		dl = append(dl, runesDot(d))
	}
	sets := append([][]rune{pat}, docs...)
	// the regexp engine on its own, on the string newRegexpMatchTree compiles: a parameter of the model
	eng := grafana.MustCompile("(?i)" + verifhooks.RegexpString(qR.Regexp))
	eRes := make([][]span, len(docs))
	for i, d := range docs {
		for _, m := range eng.FindAllIndex([]byte(string(d)), -1) {
			eRes[i] = append(eRes[i], span{m[0], m[1] - m[0]})
		}
	}
	in := fmt.Sprintf("search %s %s e=%s %s", runesDot(pat), strings.Join(dl, "|"), resString(eRes), tables(sets...))
	nontrivial := false
	for _, d := range sRes {
		if len(d) > 0 {
			nontrivial = true
		}
	}
	w.Emit(gen.Case{In: in, Impl: fmt.Sprintf("s=%s r=%s", resString(sRes), resString(rRes)), Go: goV, Key: key, Class: class,
		Nontrivial: nontrivial, Detail: gen.Detail(det)})
}

func wordy(pat []rune) bool {
	for _, c := range pat {
		if !(unicode.IsLetter(c) || unicode.IsDigit(c)) {
			return false
		}
	}
	return len(pat) > 0
}

// parserPath: the same literal typed by a user with an inline (?i), once bare — RegexpQuery turns a literal regexp into
// a query.Substring — and once in a form that stays a regexp. Both must behave like the case-insensitive forms above.
func (rn *runner) parserPath(s zoekt.Searcher, pat []rune, docs [][]rune, sRes, rRes [][]span, det detail) {
	qa, errA := query.Parse("(?i)" + string(pat))
	qb, errB := query.Parse("(?i)" + string(pat) + "(?:)")
	if errA != nil || errB != nil {
		rn.w.Count("parser-path-skipped", 1)
		return
	}
	// correspondence of the atom RegexpQuery builds
	if r, err := syntax.Parse("(?i)"+string(pat), query.VerifRegexpFlags); err == nil {
		if o := query.OptimizeRegexp(r, query.VerifRegexpFlags); o.Op == syntax.OpLiteral {
			impl := "regexp"
			if sub, ok := qa.(*query.Substring); ok {
				impl = "substring " + runesDot([]rune(sub.Pattern))
			}
			fold := "0"
			if o.Flags&syntax.FoldCase != 0 {
				fold = "1"
			}
			rn.w.Emit(gen.Case{In: "rq " + fold + " " + runesDot(o.Rune), Impl: impl, Class: "regexpquery", Nontrivial: true, Detail: gen.Detail(det)})
		}
	}
	aRes, err1 := search(s, qa, len(docs))
	bRes, err2 := search(s, qb, len(docs))
	d := det
	d.Note = fmt.Sprintf("query.Parse(%q) = %v ; query.Parse(%q) = %v", "(?i)"+string(pat), qa, "(?i)"+string(pat)+"(?:)", qb)
	if err1 != nil || err2 != nil {
		rn.w.Emit(gen.Case{Go: fmt.Sprintf("search error: %v %v", err1, err2), Key: "search-error", Class: "parser-path", Detail: gen.Detail(d)})
		return
	}
	goV, key := "", ""
	switch {
	case !eqRes(aRes, sRes):
		goV = fmt.Sprintf("the query (?i)%s does not behave like a case-insensitive search for the literal: %s vs %s", string(pat), resString(aRes), resString(sRes))
		if sub, ok := qa.(*query.Substring); ok && sub.CaseSensitive {
			// RegexpQuery turned the folded literal into a case-sensitive Substring (the defect fixed in query/parse.go)
			key = "regexpquery-drops-foldcase"
		} else {
			// the folded literal is stored as the smallest member of each orbit; searching that spelling case-insensitively
			// differs from searching the typed spelling exactly on the runes whose orbit and lower-casing disagree
			// the folded literal is stored as the smallest member of each orbit; if that member lower-cases differently from
			// the typed rune (an orbit with two lower-case members) the two substring searches differ
			key = "parser-path:unexpected"
			if re, ok := qa.(*query.Regexp); ok && re.Regexp.Op == syntax.OpLiteral && len(re.Regexp.Rune) == len(pat) {
				for k, m := range re.Regexp.Rune {
					if unicode.ToLower(m) != unicode.ToLower(pat[k]) {
						key = fmt.Sprintf("orbit-split-by-lower:U+%04X", m)
						break
					}
				}
			}
		}
	case !eqRes(bRes, rRes):
		goV = fmt.Sprintf("the query (?i)%s(?:) differs from query.Regexp{lit(?:)} case-insensitive: %s vs %s", string(pat), resString(bRes), resString(rRes))
		key = "parser-path-regexp-differs"
	}
	nt := false
	for _, x := range aRes {
		if len(x) > 0 {
			nt = true
		}
	}
	rn.w.Emit(gen.Case{Go: goV, Key: key, Class: "parser-path", Nontrivial: nt, Detail: gen.Detail(d)})
}

// ---------- generators ----------

var fillers = []rune("abcdefgxyzABCXYZ019 _-.\n")

func genPattern(r *gen.Rand, pool []rune) []rune {
	n := r.Range(3, 7)
	pat := make([]rune, n)
	for i := range pat {
		if r.Chance(2, 3) {
			pat[i] = gen.Pick(r, pool)
		} else {
			pat[i] = gen.Pick(r, fillers[:22])
		}
	}
	if r.Chance(1, 8) { // self-overlapping patterns
		c := gen.Pick(r, pool)
		for i := range pat {
			pat[i] = c
		}
	}
	return pat
}

func lowerPartners(c rune, inv map[rune][]rune) []rune {
	return inv[unicode.ToLower(c)]
}

func genDoc(r *gen.Rand, pat []rune, pool []rune, inv map[rune][]rune) []rune {
	var doc []rune
	n := r.Range(0, 4)
	for i := 0; i < n; i++ {
		for k := r.Range(0, 5); k > 0; k-- {
			if r.Chance(1, 4) {
				doc = append(doc, gen.Pick(r, pool))
			} else {
				doc = append(doc, gen.Pick(r, fillers))
			}
		}
		switch r.Intn(6) {
		case 0: // exact
			doc = append(doc, pat...)
		case 1, 2: // every rune replaced by a member of its orbit
			for _, c := range pat {
				doc = append(doc, gen.Pick(r, gen.Orbit(c)))
			}
		case 3: // … or by a rune with the same lower case
			for _, c := range pat {
				ps := lowerPartners(c, inv)
				if len(ps) > 0 && r.Bool() {
					doc = append(doc, gen.Pick(r, ps))
				} else {
					doc = append(doc, gen.Pick(r, gen.Orbit(c)))
				}
			}
		case 4: // near miss
			v := append([]rune(nil), pat...)
			v[r.Intn(len(v))] = gen.Pick(r, fillers)
			doc = append(doc, v...)
		case 5: // overlapping repeats
			doc = append(doc, pat...)
			doc = append(doc, pat[len(pat)-r.Range(1, len(pat)-1):]...)
			doc = append(doc, pat...)
		}
	}
	for k := r.Range(0, 3); k > 0; k-- {
		doc = append(doc, gen.Pick(r, fillers))
	}
	return doc
}

type pair struct{ C, D rune }

func main() {
	f := gen.ParseFlags()
	w := gen.NewWriter(f.Out)
	defer w.Close()
	rn := &runner{w: w}

	replayOne := func(path string) {
		raw, err := os.ReadFile(path)
		if err != nil {
			panic(err)
		}
		var rp struct {
			Case struct {
				Detail detail `json:"detail"`
			} `json:"case"`
			Detail detail `json:"detail"`
		}
		if err := json.Unmarshal(raw, &rp); err != nil {
			panic(err)
		}
		d := rp.Case.Detail
		if d.Pattern == "" {
			d = rp.Detail
		}
		var docs [][]rune
		for _, s := range d.Docs {
			docs = append(docs, []rune(s))
		}
		rn.searchCase([]rune(d.Pattern), docs, "replay")
	}
	if f.Replay != "" {
		replayOne(f.Replay)
		return
	}
	if f.Corpus != "" {
		files, _ := filepath.Glob(filepath.Join(f.Corpus, "*.json"))
		sort.Strings(files)
		for _, p := range files {
			replayOne(p)
		}
	}

	// ---- exhaustive pass over all code points
	inv := map[rune][]rune{}
	maxOrbit := 0
	folding := 0
	for c := rune(0); c <= unicode.MaxRune; c++ {
		l := unicode.ToLower(c)
		if l != c || unicode.ToUpper(c) != c || unicode.SimpleFold(c) != c {
			inv[l] = append(inv[l], c)
		}
		if n := len(gen.Orbit(c)); n > 1 {
			folding++
			if n > maxOrbit {
				maxOrbit = n
			}
		}
	}
	w.Count("code-points-with-folding", folding)
	w.Count("max-orbit-size", maxOrbit)
	if maxOrbit > 4 {
		w.Emit(gen.Case{Go: "a SimpleFold orbit has more than 4 members: the model's orbit bound is wrong", Key: "orbit-bound"})
	}
	var disagree []pair
	for c := rune(0); c <= unicode.MaxRune; c++ {
		if len(gen.Orbit(c)) == 1 && unicode.ToLower(c) == c && len(inv[c]) == 0 {
			continue
		}
		cand := map[rune]bool{}
		for _, o := range gen.Orbit(c) {
			cand[o] = true
		}
		l := unicode.ToLower(c)
		cand[l] = true
		for _, m := range inv[l] {
			cand[m] = true
		}
		if l < 128 && l >= 'a' && l <= 'z' {
			cand[l-32] = true
		}
		var ds []rune
		for d := range cand {
			ds = append(ds, d)
		}
		sort.Slice(ds, func(i, j int) bool { return ds[i] < ds[j] })
		for _, d := range ds {
			if inOrbit(c, d) != lowerEq(c, d) {
				disagree = append(disagree, pair{c, d})
			}
		}
	}
	w.Count("disagreeing-rune-pairs", len(disagree))
	for _, p := range disagree {
		w.Count("pair-class:"+pairKey(p.C, p.D), 1)
	}
	var pool []rune
	pool = append(pool, gen.FoldRunes...)
	for _, p := range disagree {
		pool = append(pool, p.C, p.D)
	}

	r := gen.NewRand(f.Seed)

	// ---- correspondence: generateCaseNgrams
	for i, n := 0, f.N(400, 20000); i < n; i++ {
		var g [3]rune
		for k := range g {
			if r.Chance(2, 3) {
				g[k] = gen.Pick(r, pool)
			} else {
				g[k] = gen.Pick(r, fillers)
			}
		}
		vs := index.VerifGenerateCaseNgrams(g)
		var parts []string
		for _, v := range vs {
			parts = append(parts, runesDot(v[:]))
		}
		tb := strings.Fields(tables(g[:]))[0]
		// Go-side: the variants are exactly the product of the orbits
		want := len(gen.Orbit(g[0])) * len(gen.Orbit(g[1])) * len(gen.Orbit(g[2]))
		goV, key := "", ""
		seen := map[[3]rune]bool{}
		for _, v := range vs {
			if !inOrbit(g[0], v[0]) || !inOrbit(g[1], v[1]) || !inOrbit(g[2], v[2]) || seen[v] {
				goV, key = "variant outside the orbit product, or repeated", "variants-not-orbit-product"
			}
			seen[v] = true
		}
		if len(vs) != want {
			goV, key = fmt.Sprintf("%d variants, orbit product has %d", len(vs), want), "variants-not-orbit-product"
		}
		w.Emit(gen.Case{In: "var " + runesDot(g[:]) + " " + tb, Impl: strings.Join(parts, ";"), Go: goV, Key: key, Class: "variants",
			Nontrivial: want > 1, Detail: gen.Detail(detail{Pattern: string(g[:])})})
	}

	// ---- correspondence: toLower + caseFoldingEqualsRunes through matchContent
	for i, n := 0, f.N(1000, 60000); i < n; i++ {
		pat := genPattern(r, pool)
		doc := genDoc(r, pat, pool, inv)
		if len(doc) == 0 {
			doc = append(doc, pat...)
		}
		p := r.Intn(len(doc))
		content := []byte(string(doc))
		off := len(string(doc[:p]))
		sz, ok := index.VerifMatchContentCI([]byte(string(pat)), content, uint32(off))
		lowered := []rune(string(index.VerifToLower([]byte(string(pat)))))
		okS := "0"
		if ok {
			okS = "1"
		}
		w.Emit(gen.Case{In: fmt.Sprintf("cfe %s %s %d %s", runesDot(pat), runesDot(doc), p, tables(pat, doc)),
			Impl: fmt.Sprintf("lower=%s sz=%d ok=%s", runesDot(lowered), sz, okS), Class: "cfe-" + okS, Nontrivial: ok,
			Detail: gen.Detail(detail{Pattern: string(pat), Docs: []string{string(doc)}, Note: fmt.Sprint("rune offset ", p)})})
	}

	// ---- targeted searches: every disagreeing pair, at the start / middle / end of the pattern
	step := 1
	if f.Tier != "thorough" && len(disagree) > 33 {
		step = len(disagree)/33 + 1
	}
	for i := int(f.Seed) % step; i < len(disagree); i += step {
		p := disagree[i]
		for _, shape := range [][2]string{{"", "bcde"}, {"ab", "de"}, {"abcd", ""}, {"", "bcdefgh"}, {"abcdefg", ""}} {
			pat := []rune(shape[0] + string(p.C) + shape[1])
			hit := []rune("xx " + shape[0] + string(p.D) + shape[1] + " yy")
			docs := [][]rune{hit, []rune("abcde bcde abcd"), []rune("nothing"), []rune(string(pat) + "\n")}
			if len(pat) > 5 {
				// make the trigram that contains the rune frequent, so that the two selected (rarest) trigrams avoid it
				var tri string
				if shape[0] == "" {
					tri = string(p.C) + "bc"
				} else {
					tri = "fg" + string(p.C)
				}
				for k := 0; k < 3; k++ {
					docs = append(docs, []rune(strings.Repeat(tri+" ", 10)))
				}
			}
			rn.searchCase(pat, docs, "targeted")
		}
	}

	// ---- generated searches
	for i, n := 0, f.N(150, 3000); i < n; i++ {
		pl := pool
		if i%3 == 0 {
			pl = gen.FoldRunes
		}
		pat := genPattern(r, pl)
		var docs [][]rune
		for k := r.Range(1, 4); k > 0; k-- {
			docs = append(docs, genDoc(r, pat, pl, inv))
		}
		for k := r.Range(0, 3); k > 0; k-- { // padding documents change trigram frequencies, hence the selected trigrams
			var d []rune
			for m := r.Range(3, 30); m > 0; m-- {
				d = append(d, gen.Pick(r, fillers))
			}
			if r.Bool() && len(pat) >= 3 {
				d = append(d, pat[:3]...)
			}
			docs = append(docs, d)
		}
		rn.searchCase(pat, docs, "generated")
	}
}
