// C27 harness: the real printer (internal/syntaxutil.RegexpString), the real optimiser (query.OptimizeRegexp and its
// steps uncapture / hasCapture / convertCapture) and the standard library's Simplify, on regexps obtained by parsing
// generated pattern text with the query parser's flags.
//
//	correspondence (exact):  RegexpString vs model print; uncapture/hasCapture vs model; Simplify vs model simplify
//	failing-input search:    FindAllIndex of (original | printed+re-parsed | optimised+printed) on generated subjects must be
//	                         identical (Go oracle, real engine) and admissible for the original tree under the model's
//	                         match semantics (Lean checkP); end-to-end: real shard search with query.Regexp vs the engine run
//	                         directly on the original pattern text.
package main

import (
	"bytes"
	"encoding/json"
	"fmt"
	"os"
	"path/filepath"
	"regexp"
	"regexp/syntax"
	"sort"
	"strings"
	"unicode/utf8"

	"github.com/sourcegraph/zoekt"
	"github.com/sourcegraph/zoekt/index"
	"github.com/sourcegraph/zoekt/query"
	"github.com/sourcegraph/zoekt/verifhooks"

	"verifharness/gen"
)

const flags = query.VerifRegexpFlags

type detail struct {
	Pattern  string   `json:"pattern"`
	Subjects []string `json:"subjects,omitempty"`
	Printed  string   `json:"printed,omitempty"`
	Opt      string   `json:"optimized_printed,omitempty"`
	Note     string   `json:"note,omitempty"`
}

func parse(text string) *syntax.Regexp {
	r, err := syntax.Parse(text, flags)
	if err != nil {
		return nil
	}
	return r
}

func eqSpans(a, b [][]int) bool {
	if len(a) != len(b) {
		return false
	}
	for i := range a {
		if a[i][0] != b[i][0] || a[i][1] != b[i][1] {
			return false
		}
	}
	return true
}

type runner struct {
	w     *gen.Writer
	stats map[string]int
}

// runPattern emits every case for one pattern text; subjects are given (replay) or nil.
func (rn *runner) runPattern(text string, subjects [][]byte, e2e bool) {
	w := rn.w
	r0 := parse(text)
	if r0 == nil {
		w.Count("pattern-rejected-by-parser", 1)
		return
	}
	tree, ok := gen.ReTree(r0)
	if !ok {
		w.Count("tree-not-covered", 1)
		return
	}
	gen.ReOps(r0, rn.stats)
	printed := verifhooks.RegexpString(r0)
	det := detail{Pattern: text, Printed: printed}

	// --- correspondence: printer
	w.Emit(gen.Case{In: "print " + tree + " " + gen.NonPrintable(r0), Impl: gen.Hex([]byte(printed)), Class: "print",
		Nontrivial: len(r0.Sub) > 0, Detail: gen.Detail(det)})

	// --- the shape the theorems assume of parser output (no empty literal / alternation, clean classes, n ≤ m in x{n,m}),
	//     checked by the model on the parsed tree and on the re-parsed printout
	w.Emit(gen.Case{In: "wf " + tree, Impl: "print=1 rep=1", Class: "shape", Detail: gen.Detail(det)})
	if rp, err := syntax.Parse(printed, flags); err == nil {
		if t, ok := gen.ReTree(rp); ok {
			w.Emit(gen.Case{In: "wf " + t, Impl: "print=1 rep=1", Class: "shape", Detail: gen.Detail(det)})
		}
	}
	// --- correspondence: uncapture / hasCapture (on a fresh tree: uncapture mutates)
	{
		fresh := parse(text)
		hc := query.VerifHasCapture(fresh)
		u := query.VerifUncapture(fresh)
		ut, _ := gen.ReTree(u)
		hcs := "0"
		if hc {
			hcs = "1"
		}
		cl := "uncap-nocapture"
		if hc {
			cl = "uncap-capture"
		}
		w.Emit(gen.Case{In: "uncap " + tree, Impl: ut + " hc=" + hcs, Class: cl, Nontrivial: hc, Detail: gen.Detail(det)})
		if query.VerifHasCapture(u) {
			w.Emit(gen.Case{Go: "uncapture left a capture", Key: "uncapture-left-capture", Detail: gen.Detail(det)})
		}
	}
	// --- correspondence: Simplify on the parsed tree, and on convertCapture's result (as OptimizeRegexp does)
	{
		st, _ := gen.ReTree(parse(text).Simplify())
		w.Emit(gen.Case{In: "simp " + tree, Impl: st, Class: "simplify", Nontrivial: st != tree, Detail: gen.Detail(det)})
	}
	cc := query.VerifConvertCapture(parse(text), flags)
	cct, ok1 := gen.ReTree(cc)
	opt := query.OptimizeRegexp(parse(text), flags)
	optt, ok2 := gen.ReTree(opt)
	if ok1 && ok2 {
		w.Emit(gen.Case{In: "simp " + cct, Impl: optt, Class: "simplify-after-convertCapture", Nontrivial: optt != cct, Detail: gen.Detail(det)})
	}
	optPrinted := verifhooks.RegexpString(opt)
	det.Opt = optPrinted

	// --- the printed forms must parse again (query flags and regexp.Compile's Perl flags)
	if _, err := syntax.Parse(printed, flags); err != nil {
		w.Emit(gen.Case{Go: "printed form rejected by syntax.Parse: " + err.Error(), Key: "printed-does-not-parse", Detail: gen.Detail(det)})
		return
	}
	eo, err := regexp.Compile("(?m)" + text)
	if err != nil {
		w.Count("orig-does-not-compile", 1)
		return
	}
	ep, err := regexp.Compile(printed)
	if err != nil {
		w.Emit(gen.Case{Go: "printed form rejected by regexp.Compile: " + err.Error(), Key: "printed-does-not-compile", Detail: gen.Detail(det)})
		return
	}
	ez, err := regexp.Compile(optPrinted)
	if err != nil {
		w.Emit(gen.Case{Go: "optimised printed form rejected by regexp.Compile: " + err.Error(), Key: "optimized-does-not-compile", Detail: gen.Detail(det)})
		return
	}
	// independent printer: the standard library's own String()
	es, err := regexp.Compile(parse(text).String())
	if err != nil {
		es = nil
	}

	orb := gen.Orbits(r0)
	for _, subj := range subjects {
		so := eo.FindAllIndex(subj, -1)
		sp := ep.FindAllIndex(subj, -1)
		sz := ez.FindAllIndex(subj, -1)
		d := det
		d.Subjects = []string{string(subj)}
		goV, key := "", ""
		switch {
		case !eqSpans(so, sp):
			goV, key = fmt.Sprintf("printed regexp matches differently: orig=%v printed=%v", so, sp), "print-reparse-changes-matches"
		case !eqSpans(so, sz):
			goV, key = fmt.Sprintf("optimised regexp matches differently: orig=%v optimised=%v", so, sz), "optimize-changes-matches"
		case es != nil && !eqSpans(so, es.FindAllIndex(subj, -1)):
			// the two printers disagree while zoekt's agrees with the source text: a harness/stdlib matter, counted only
			w.Count("stdlib-String-differs", 1)
		}
		ro, okA := gen.RuneSpans(subj, so)
		rp, okB := gen.RuneSpans(subj, sp)
		rz, okC := gen.RuneSpans(subj, sz)
		if !(okA && okB && okC) {
			w.Emit(gen.Case{Go: "span not on a rune boundary", Key: "span-inside-rune", Detail: gen.Detail(d)})
			continue
		}
		cl := "fa-nomatch"
		if len(so) > 0 {
			cl = "fa-match"
		}
		in := ""
		if utf8.RuneCount(subj) <= 24 && len(tree) < 6000 {
			in = fmt.Sprintf("fa %s %s %s", tree, orb, gen.SubjectRunes(subj))
		}
		impl := fmt.Sprintf("o=%s p=%s z=%s", ro, rp, rz)
		w.Emit(gen.Case{In: in, Impl: impl, Go: goV, Key: key, Class: cl, Nontrivial: len(so) > 0, Detail: gen.Detail(d)})
	}

	if e2e {
		rn.endToEnd(text, r0, opt, eo, subjects, det)
	}
}

// endToEnd: index the subjects as documents of a real shard and search them with query.Regexp (case sensitive, content
// only) built from the parsed and from the optimised tree; the oracle is the engine run on the original pattern text.
func (rn *runner) endToEnd(text string, r0, opt *syntax.Regexp, eo *regexp.Regexp, subjects [][]byte, det detail) {
	var docs [][]byte
	for _, s := range subjects {
		if len(s) > 0 && !bytes.Contains(s, []byte{0}) {
			docs = append(docs, s)
		}
	}
	if len(docs) == 0 {
		return
	}
	b, err := index.NewShardBuilder(&zoekt.Repository{Name: "r"})
	if err != nil {
		panic(err)
	}
	for i, d := range docs {
		if err := b.Add(index.Document{Name: fmt.Sprintf("f%03d", i), Content: d}); err != nil {
			panic(err)
		}
	}
	s := searcherFor(b)
	defer s.Close()
	want := map[string][][]int{}
	for i, d := range docs {
		if m := eo.FindAllIndex(d, -1); len(m) > 0 {
			want[fmt.Sprintf("f%03d", i)] = m
		}
	}
	hasFold := strings.Contains(mustTree(r0), "L1:")
	var first map[string][][]int
	reparsed, _ := syntax.Parse(verifhooks.RegexpString(r0), flags)
	for vi, re := range []*syntax.Regexp{r0, opt, reparsed} {
		if re == nil {
			continue
		}
		q := &query.Regexp{Regexp: re, Content: true, CaseSensitive: true}
		got, err := searchRanges(s, q)
		d := det
		d.Note = []string{"query.Regexp{parsed tree}", "query.Regexp{OptimizeRegexp tree}", "query.Regexp{printed and re-parsed tree}"}[vi]
		for _, x := range docs {
			d.Subjects = append(d.Subjects, string(x))
		}
		if err != nil {
			rn.w.Emit(gen.Case{Go: "search error: " + err.Error(), Key: "e2e-search-error", Class: "e2e", Detail: gen.Detail(d)})
			continue
		}
		goV, key := "", ""
		if vi == 0 {
			first = got
		} else if diff := diffRanges(first, got); diff != "" {
			goV, key = "shard search with the "+d.Note+" differs from the search with the parsed tree: "+diff, "e2e-optimized-search-differs"
		}
		// against the engine on the original text. Trees with a case-folded literal are left to C08: such a literal is
		// evaluated by the case-insensitive substring path, whose known disagreement with (?i) is C08's finding.
		// The engine oracle is applied to the *set of files*: which ranges a matching file reports for patterns that
		// newMatchTree distils into substring trees ((?:foo)+ is evaluated as foo, foo|foobar as two substrings) is the
		// subject of the search-exactness properties (C01/C02), not of printing/optimisation; such differences are counted.
		if goV == "" && !hasFold {
			if diff := diffFiles(want, got); diff != "" {
				goV, key = "shard search returns other files than the engine on the original pattern: "+diff, "e2e-search-differs"
			} else if diffRanges(want, got) != "" {
				rn.w.Count("e2e-ranges-differ-from-engine(distilled match tree; C01/C02)", 1)
			}
		}
		if hasFold {
			rn.w.Count("e2e-engine-oracle-skipped-folded-literal", 1)
		}
		rn.w.Emit(gen.Case{Go: goV, Key: key, Class: "e2e", Nontrivial: len(want) > 0, Detail: gen.Detail(d)})
	}
}

func mustTree(re *syntax.Regexp) string {
	t, _ := gen.ReTree(re)
	return t
}

func diffFiles(want, got map[string][][]int) string {
	for n := range want {
		if _, ok := got[n]; !ok {
			return n + ": matched by the engine, not returned by the search"
		}
	}
	for n := range got {
		if _, ok := want[n]; !ok {
			return n + ": returned by the search, not matched by the engine"
		}
	}
	return ""
}

func diffRanges(want, got map[string][][]int) string {
	var names []string
	for n := range want {
		names = append(names, n)
	}
	for n := range got {
		if _, ok := want[n]; !ok {
			names = append(names, n)
		}
	}
	sort.Strings(names)
	for _, n := range names {
		// zero-length matches are not reported as ranges by zoekt's result construction; compare non-empty ranges
		var w, g [][]int
		for _, x := range want[n] {
			if x[1] > x[0] {
				w = append(w, x)
			}
		}
		for _, x := range got[n] {
			if x[1] > x[0] {
				g = append(g, x)
			}
		}
		_, inGot := got[n]
		_, inWant := want[n]
		if inGot != inWant {
			return fmt.Sprintf("%s: file matched want=%v got=%v", n, inWant, inGot)
		}
		if !eqSpans(w, g) {
			return fmt.Sprintf("%s: want %v got %v", n, w, g)
		}
	}
	return ""
}

func main() {
	f := gen.ParseFlags()
	w := gen.NewWriter(f.Out)
	defer w.Close()
	rn := &runner{w: w, stats: map[string]int{}}
	defer func() {
		for k, v := range rn.stats {
			w.Count("op:"+k, v)
		}
	}()

	replayOne := func(path string) {
		raw, err := os.ReadFile(path)
		if err != nil {
			panic(err)
		}
		var rp struct {
			Case struct {
				Detail detail `json:"detail"`
			} `json:"case"`
			Detail detail `json:"detail"`
		}
		if err := json.Unmarshal(raw, &rp); err != nil {
			panic(err)
		}
		d := rp.Case.Detail
		if d.Pattern == "" {
			d = rp.Detail
		}
		var subj [][]byte
		for _, s := range d.Subjects {
			subj = append(subj, []byte(s))
		}
		rn.runPattern(d.Pattern, subj, true)
	}
	if f.Replay != "" {
		replayOne(f.Replay)
		return
	}
	if f.Corpus != "" {
		files, _ := filepath.Glob(filepath.Join(f.Corpus, "*.json"))
		sort.Strings(files)
		for _, p := range files {
			replayOne(p)
		}
	}

	r := gen.NewRand(f.Seed)
	g := &gen.PatGen{R: r.Fork()}
	n := f.N(1200, 12000)
	for i := 0; i < n; i++ {
		g.NoClass = i%5 != 0
		text := g.Pattern()
		hints := append([]string(nil), g.Hints...)
		ns := 4
		subjects := [][]byte{nil}
		for k := 0; k < ns; k++ {
			subjects = append(subjects, gen.Subject(r, hints, 14))
		}
		rn.runPattern(text, subjects, i%6 == 0)
	}
	_ = strings.TrimSpace
}
