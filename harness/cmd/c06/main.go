// C06 harness: strings generated from the documented EBNF (all spellings), parsed by the real query.Parse and
// searched with the real sharded searcher over real shards built from random corpora; compared with
//
//	(a) the Lean model: parse(render g) evaluated on the corpus  (correspondence), and
//	(b) the documented meaning: Lean `semQ` (checkP) and the Go reference reading q2lib.Sem (Go oracle).
package main

import (
	"context"
	"encoding/json"
	"fmt"
	"io"
	"log"
	"os"
	"path/filepath"
	"sort"
	"strings"
	"time"

	"github.com/sourcegraph/zoekt"
	"github.com/sourcegraph/zoekt/query"
	"github.com/sourcegraph/zoekt/search"

	"verifharness/gen"
	"verifharness/q2lib"
)

var contentWords = []string{"foo", "Foo", "FOO", "bar", "Bar", "baz", "main", "Main", "test", "x_y", "a.b", "qux", "foobar", "FooBar", "say \"hi\"", "call(x)", "a+b", "end.",
	"OR", "or", "and", "AND", "Not", "File:main", "bAr", "mAin",
	// for patterns whose only operator is a repetition, an anchor, …: both readings (operator / literal text) hit something
	"baaad", "baad", "bad", "fooo", "fo", "ba{3}d", "fo{2}", "b.r", "fo*", "foo$", "ba?r", "foo  bar", "foo\tbar", "bar   baz"}
var fileNames = []string{"main.go", "Main.java", "README.md", "src/bar_test.py", "lib/Baz.go", "foo.txt", "docs/Foo.md", "x_y.py", "cmd/qux/main.go"}
var repoNames = []string{"github.com/org/alpha", "github.com/org/beta", "gitlab.com/foo/gamma", "example.com/bar/delta-go", "github.com/Foo/Upper"}
var langOf = map[string]string{".go": "Go", ".java": "Java", ".md": "Markdown", ".py": "Python", ".txt": ""}

func genCorpus(r *gen.Rand) []q2lib.Repo {
	nr := r.Range(2, 4)
	names := append([]string{}, repoNames...)
	gen.Shuffle(r, names)
	var repos []q2lib.Repo
	for i := 0; i < nr; i++ {
		rp := q2lib.Repo{Name: names[i], ID: uint32(i + 1)}
		rp.Branches = gen.Pick(r, [][]string{{"main"}, {"main", "dev"}, {"HEAD"}, {"master", "release-1", "dev"}})
		rp.RawConfig = map[string]string{}
		for _, f := range []string{"public", "fork", "archived"} {
			switch r.Intn(3) {
			case 0:
				rp.RawConfig[f] = "1"
			case 1:
				rp.RawConfig[f] = "0"
			}
		}
		if r.Chance(2, 3) {
			rp.Metadata = map[string]string{"license": gen.Pick(r, []string{"Apache-2.0", "MIT", "GPL-3.0"})}
			if r.Bool() {
				rp.Metadata["team"] = gen.Pick(r, []string{"search", "infra"})
			}
		}
		fn := append([]string{}, fileNames...)
		gen.Shuffle(r, fn)
		nd := r.Range(1, 4)
		for j := 0; j < nd; j++ {
			var sb strings.Builder
			var syms []string
			for l := r.Range(1, 4); l > 0; l-- {
				for w := r.Range(1, 4); w > 0; w-- {
					word := gen.Pick(r, contentWords)
					if r.Chance(1, 5) && !strings.ContainsAny(word, " \"(+.") {
						syms = append(syms, word)
					}
					sb.WriteString(word)
					if w > 1 {
						sb.WriteByte(' ')
					}
				}
				sb.WriteByte('\n')
			}
			d := q2lib.Doc{Name: fn[j], Content: sb.String(), Symbols: syms}
			d.Language = langOf[filepath.Ext(fn[j])]
			if len(rp.Branches) > 1 && r.Chance(1, 2) {
				k := r.Intn(len(rp.Branches))
				d.Branches = []string{rp.Branches[k]}
			}
			rp.Docs = append(rp.Docs, d)
		}
		repos = append(repos, rp)
	}
	return repos
}

// casePatterns: patterns for a content word in which one letter is written as a class, a range or an alternation, in
// lower case, upper case or both — so that atoms whose capitals sit only in a character class (or in nothing but a
// literal, or nowhere) all occur routinely, for every base word the corpus has in several spellings.
func casePatterns(r *gen.Rand, n int) []string {
	bases := []string{"foo", "bar", "baz", "main", "qux", "foobar", "test"}
	var out []string
	for len(out) < n {
		w := gen.Pick(r, bases)
		i := r.Intn(len(w))
		lo := string(w[i])
		up := strings.ToUpper(lo)
		other := gen.Pick(r, []string{"x", "z", "q"})
		var mid string
		switch r.Intn(10) {
		case 0:
			mid = "[" + up + strings.ToUpper(other) + "]" // capitals only, in a class
		case 1:
			mid = "[A-Z]"
		case 2:
			mid = "(" + up + "|" + strings.ToUpper(other) + ")" // folded into a class by the simplifier
		case 3:
			mid = "[" + lo + up + "]"
		case 4:
			mid = "[" + lo + other + "]"
		case 5:
			mid = "[a-z]"
		case 6:
			mid = "(" + lo + "|" + other + ")"
		case 7:
			mid = "[" + up + "]" // a one-letter class is a literal
		case 8:
			mid = up
		default:
			mid = "[" + up + "-" + up + lo + "]"
		}
		out = append(out, w[:i]+mid+w[i+1:])
	}
	return out
}

// singleOperatorPatterns: patterns over the corpus words in which exactly one kind of regexp operator occurs.
func singleOperatorPatterns(r *gen.Rand, n int) []string {
	pool := []string{
		"ba{3}d", "ba{2,3}d", "ba{2,}d", "fo{2}", "fo{3,}", "o{2}b", "fo{1}", "ba{3}d", // counted repetition only
		"b.r", "fo.", "fo*", "fo+bar", "ba?r", "fo?o", "foo|qux", "^foo", "foo$", "bar$", "[b]ar", "ba[a-z]",
		"(ba)r", "fo(o)", "\\d", "a\\.b",
	}
	out := make([]string, n)
	for i := range out {
		out[i] = gen.Pick(r, pool)
	}
	return out
}

func vocabOf(r *gen.Rand, repos []q2lib.Repo) *q2lib.Vocab {
	v := &q2lib.Vocab{
		Words: []string{"foo", "Foo", "FOO", "bar", "Bar", "baz", "main", "Main", "test", "x_y", "a\\.b", "qux", "fo+", "[fF]oo", "foo|bar", "ba.", "\\w+_y", "Fo.*r",
			"foobar", "oba", "nomatch", "(foo|qux)bar", "ba[rz]", "call\\(x\\)", "a\\+b", "end\\.", "x.y", "\\(x", "hi", "Ma?in", "FOO|baz", "\\S+_y", "\\Wx\\W", "ba\\D", "(?i)foo", "(?i)Bar"},
		Spaced:    []string{"foo bar", "Foo bar", "bar  baz", "say \"hi\"", "foo Foo", "main test", "qux .*foo", "a b", "(foo) (bar)", "\\w+ \\w+ \\w+"},
		Files:     []string{"main", "\\.go$", "\\.py$", "README", "^src/", "Foo", "foo", "test", "md$", "Main\\.java", "lib/", "x_y"},
		Repos:     []string{"github\\.com", "org/alpha$", "foo", "gamma", "^example", "delta", "nomatch", "org", "Foo"},
		Branches:  []string{"main", "dev", "HEAD", "master", "release", "rel", "nomatch"},
		Langs:     []string{"go", "Go", "python", "Python", "java", "markdown", "nosuchlang", "golang", "py"},
		MetaNames: []string{"license", "team", "absent"},
		MetaVals:  []string{"Apache-.*", "MIT", "^GPL", "search", "infra|search", ".*"},
		Syms:      []string{"foo", "Foo", "bar", "main", "qux", "ba.", "FooBar", "test", "[FX]oo", "(B|X)ar", "[a-z]ain"},
	}
	// patterns whose capitals sit in classes / alternations, and bare words that look like keywords
	v.Words = append(v.Words, casePatterns(r, 14)...)
	v.Words = append(v.Words, "OR", "Or", "AND", "and", "not", "NOT", "or", "File:main", "CASE:yes", "Type:repo", "bAr", "mAin")
	v.Files = append(v.Files, "[MX]ain", "(R|X)EADME", "[a-z]ain", "READ[A-Z]E", "ma{1}in", "R{1,2}EADME", "fo{2}")
	// every regexp operator ALONE in a pattern (no other metacharacter in the same atom): a literal test that forgets
	// one operator class reads the atom as plain text
	v.Words = append(v.Words, singleOperatorPatterns(r, 10)...)
	v.Syms = append(v.Syms, "fo{2}", "ba{1,2}r", "fo+")
	v.Spaced = append(v.Spaced, "foo  bar", "foo\tbar", "bar   baz", "fo{2} bar", "ba{3}d ba{3}d", "a{1}.b foo")
	return v
}

type runner struct {
	repos   []q2lib.Repo
	docs    []q2lib.FlatDoc
	repoOf  []int
	sharded zoekt.Streamer
	dir     string
}

var tBuild, tOpen, tClose time.Duration

// how many generated trees satisfy the decidable hypotheses of the Lean theorem C06_parse_sem_partial_wf
var coveredCases int
var uncovered = map[string]int{}

// shapes of atoms that decide case:auto / keyword recognition (distribution counters)
var atomShapes = map[string]int{}

func newRunner(repos []q2lib.Repo) *runner {
	dir, err := os.MkdirTemp(os.Getenv("VERIF_WORK"), "c06idx")
	if err != nil {
		panic(err)
	}
	t0 := time.Now()
	if err := q2lib.BuildShards(dir, repos); err != nil {
		panic(err)
	}
	tBuild += time.Since(t0)
	t0 = time.Now()
	s, err := search.NewDirectorySearcher(dir)
	if err != nil {
		panic(err)
	}
	tOpen += time.Since(t0)
	rn := &runner{repos: repos, docs: q2lib.Flatten(repos), sharded: s, dir: dir}
	for _, d := range rn.docs {
		rn.repoOf = append(rn.repoOf, d.Repo)
	}
	return rn
}

func (rn *runner) close() {
	t0 := time.Now()
	rn.sharded.Close()
	os.RemoveAll(rn.dir)
	tClose += time.Since(t0)
}

// search: the documents the implementation selects for the string s ("err" = rejected by the parser).
func (rn *runner) search(s string) (impl string, tree string, canon string) {
	defer func() {
		if r := recover(); r != nil {
			impl = "crash"
		}
	}()
	q, err := query.Parse(s)
	if err != nil {
		return "err", "", ""
	}
	tree = q.String()
	canon = q2lib.Canon(q)
	res, err := rn.sharded.Search(context.Background(), q, &zoekt.SearchOptions{})
	if err != nil {
		return "searcherr", tree, canon
	}
	if res.Stats.Crashes > 0 {
		return "crash", tree, canon
	}
	hit := map[string]bool{}
	for _, f := range res.Files {
		hit[f.Repository+"\x00"+f.FileName] = true
	}
	bits := make([]bool, len(rn.docs))
	n := 0
	for i, d := range rn.docs {
		if hit[d.R.Name+"\x00"+d.D.Name] {
			bits[i] = true
			n++
		}
	}
	if n != len(hit) {
		return "unknownfile", tree, canon
	}
	return q2lib.Bits(bits), tree, canon
}

func (rn *runner) runCase(g q2lib.Qy) gen.Case {
	s := g.Render()
	impl, tree, canon := rn.search(s)
	rows, _ := q2lib.TruthRows(g, rn.docs)
	in := fmt.Sprintf("sem %s %s %s %s %s", g.Encode(), gen.Hex([]byte(s)), q2lib.OracleTable(q2lib.CollectTexts([]byte(s))), gen.NatList(rn.repoOf), rows)
	// what is compared with the model: the selected documents AND the canonical parsed tree (so that a deviation of
	// the parse that this corpus happens not to expose — a case flag, a field — is still a disagreement)
	c := gen.Case{In: in, Impl: impl}
	if canon != "" && strings.Trim(impl, "01-") == "" {
		c.Impl = impl + " T=" + canon
	}
	want, ok := q2lib.Sem(g, rn.docs)
	feats := g.Features()
	var fl []string
	for f := range feats {
		fl = append(fl, f)
	}
	sort.Strings(fl)
	c.Class = "plain"
	if len(fl) > 0 {
		c.Class = strings.Join(fl, "+")
	}
	c.Key = "sem"
	if len(fl) > 0 {
		c.Key = "sem:" + strings.Join(fl, "+")
	}
	switch {
	case !ok:
		c.Go = "generator produced a query outside the documented values"
		c.Key = "badgen"
	case q2lib.Bits(want) != impl:
		c.Go = fmt.Sprintf("documented meaning selects %s, implementation %s", q2lib.Bits(want), impl)
		// known class: the disagreement is explained exactly by `regex:` atoms also matching file names
		if q2lib.HasRegexField(g) {
			if alt, ok := q2lib.SemRegexAsBarePattern(g, rn.docs); ok && q2lib.Bits(alt) == impl {
				c.Key = "sem:regex-field-matches-filename"
				c.Class = "regex-field-matches-filename"
			}
		}
	default:
		c.Go = "ok"
	}
	for _, f := range q2lib.AtomShapes(g) {
		atomShapes[f]++
	}
	if cov, why := q2lib.Covered(g); cov {
		coveredCases++
	} else {
		uncovered[why]++
	}
	nsel := strings.Count(impl, "1")
	c.Nontrivial = nsel > 0 && nsel < len(rn.docs)
	c.Detail = gen.Detail(map[string]any{"query": s, "parsed": tree, "corpus": rn.repos, "g": g.Encode()})
	return c
}

func main() {
	log.SetOutput(io.Discard) // the index builder and the shard loader log every shard
	f := gen.ParseFlags()
	w := gen.NewWriter(f.Out)
	defer w.Close()
	r := gen.NewRand(f.Seed)

	if f.Replay != "" {
		b, err := os.ReadFile(f.Replay)
		if err != nil {
			panic(err)
		}
		var rp struct {
			Case struct {
				Detail struct {
					Corpus []q2lib.Repo `json:"corpus"`
					G      string       `json:"g"`
				} `json:"detail"`
			} `json:"case"`
		}
		if err := json.Unmarshal(b, &rp); err != nil {
			panic(err)
		}
		g, err := q2lib.Decode(rp.Case.Detail.G)
		if err != nil {
			panic(err)
		}
		rn := newRunner(rp.Case.Detail.Corpus)
		defer rn.close()
		w.Emit(rn.runCase(g))
		return
	}

	// witnesses first
	names, _ := filepath.Glob(filepath.Join(f.Corpus, "*.json"))
	sort.Strings(names)
	for _, n := range names {
		b, err := os.ReadFile(n)
		if err != nil {
			continue
		}
		var wt struct {
			Corpus []q2lib.Repo `json:"corpus"`
			G      []string     `json:"g"`
		}
		if json.Unmarshal(b, &wt) != nil || len(wt.Corpus) == 0 {
			continue
		}
		rn := newRunner(wt.Corpus)
		for _, enc := range wt.G {
			g, err := q2lib.Decode(enc)
			if err != nil {
				panic(fmt.Sprint(n, ": ", err))
			}
			c := rn.runCase(g)
			w.Emit(c)
		}
		rn.close()
	}

	nCorpora := f.N(4, 100)
	perCorpus := f.N(600, 1000)
	for k := 0; k < nCorpora; k++ {
		repos := genCorpus(r)
		rn := newRunner(repos)
		v := vocabOf(r, repos)
		for i := 0; i < perCorpus; i++ {
			g := q2lib.GenQuery(r, v, q2lib.GenOpts{MaxDepth: 2, TightGroup: i%25 == 0}, 0)
			c := rn.runCase(g)
			w.Emit(c)
			w.Count("selected-some-not-all", b2i(c.Nontrivial))
			if c.Impl == "err" {
				w.Count("impl-parse-err", 1)
			}
			// history independence: the same tree with the run of blanks inside one quoted / escaped value changed
			// (one blank ↔ two ↔ a tab), parsed in the same process right after the original. Each variant is judged
			// on its own (its own model parse, its own documented meaning).
			for _, gv := range q2lib.BlankVariants(r, g) {
				cv := rn.runCase(gv)
				if cv.Class == "plain" {
					cv.Class = "blank-variant"
				}
				w.Emit(cv)
				w.Count("blank-variant-pairs", 1)
			}
		}
		rn.close()
	}
	for k, n := range atomShapes {
		w.Count("atom-shape:"+k, n)
	}
	w.Count("covered-by-C06_parse_sem_partial", coveredCases)
	for why, n := range uncovered {
		w.Count("not-covered:"+why, n)
	}
	w.Count("ms-build-shards", int(tBuild.Milliseconds()))
	w.Count("ms-open-searcher", int(tOpen.Milliseconds()))
	w.Count("ms-close-searcher", int(tClose.Milliseconds()))
}

func b2i(b bool) int {
	if b {
		return 1
	}
	return 0
}
